(* Proofs/MpiSingleProofs.v — invariants of the poll_singlethreaded model (Model/Mpi.v PART D) over
   arbitrary schedules/oracles of ONE OS thread, every inline-registration predicate [inl]; the
   no-reallocation theorem under [no_inline_add]; witnesses that both hypotheses are needed. *)
From Coq Require Import List Arith Lia Bool NArith Permutation.
From Pika Require Import Base.Conc Gen.GenMpi Model.Mpi Proofs.MpiProofs.
Import ListNotations.

(* ------------------------------------------------------------------ schedules of one thread *)
Lemma one_thread_app t0 (s1 s2 : list (nat * soracle)) :
  one_thread t0 (s1 ++ s2) <-> one_thread t0 s1 /\ one_thread t0 s2.
Proof. unfold one_thread. apply Forall_app. Qed.

Section RunOn.
  Variables (G L O : Type) (tstep : O -> nat -> G -> L -> G * L) (t0 : nat).
  Variable Inv : G -> L -> Prop.
  Hypothesis Hstep : forall o g l, Inv g l -> Inv (fst (tstep o t0 g l)) (snd (tstep o t0 g l)).
  Lemma run_on_inv : forall (sched : list (nat * O)) (c : G * locals L),
    Forall (fun so => fst so = t0) sched -> Inv (fst c) (snd c t0) ->
    Inv (fst (run tstep sched c)) (snd (run tstep sched c) t0).
  Proof.
    induction sched as [|[t o] s IH]; intros [g ls] F H; [exact H|].
    apply Forall_cons_iff in F. destruct F as [Ft Fs]. cbn [fst] in Ft. subst t.
    rewrite run_cons. apply IH; [exact Fs|]. cbn [step fst snd] in *.
    specialize (Hstep o g (ls t0) H). destruct (tstep o t0 g (ls t0)) as [g' l']. cbn [fst snd] in *.
    now rewrite upd_same.
  Qed.
End RunOn.

(* ------------------------------------------------------------------ the invariant *)
Section Single.
Variable inl : req -> bool.
Variable t0 : nat.

Definition ctx_ok (g : mstate) (k : option (nat * req)) : Prop :=
  match k with None => True | Some (_, r0) => stage g r0 = StCalled t0 end.

Definition spc_ok (g : mstate) (l : spc) : Prop :=
  match l with
  | SSCnt r k => stage g r = StAct t0 /\ ctx_ok g k
  | SSPush r k => stage g r = StCnt t0 /\ ctx_ok g k
  | SDec idx r e => stage g r = StHeld t0 /\ nth_error (vcb g) idx = Some (r, r) /\ In (r, e) (mpi_done g)
  | SCall idx r e => stage g r = StDec t0 /\ nth_error (vcb g) idx = Some (r, r) /\ In (r, e) (mpi_done g)
  | SInCb _ r => stage g r = StCalled t0
  | SFin r => stage g r = StCalled t0
  | _ => True
  end.

Record SInv (g : mstate) (l : spc) : Prop := {
  si_fresh : forall r, next_req g <= r -> stage g r = StNone;
  si_rq : rq g = [];
  si_pair : Forall2 pairP (vreq g) (vcb g);
  si_vec_st : forall r, In r (somes (vreq g)) -> stage g r = StVec;
  si_nd : NoDup (somes (vreq g));
  si_cnt : in_flight g = cnt transient_stage (stage g) (next_req g) + length (rq g) + nonnull (vreq g);
  si_act : activity g = cnt active_stage (stage g) (next_req g);
  si_pc : spc_ok g l;
  si_reg : forall r, stage g r <> StNone -> In (EvReg r) (mlog g);
  si_test : forall r, tested_stage (stage g r) = true -> In (EvTest r) (mlog g);
  si_call : forall r, In r (calls (mlog g)) -> called_stage (stage g r) = true;
  si_done : forall r e, In (r, e) (mpi_done g) -> In (EvDone r e) (mlog g);
  si_ok : log_ok (mlog g)
}.

Lemma sinv_init : SInv m_init SIdle.
Proof. constructor; cbn; intros; try tauto; try constructor; try discriminate. Qed.

Lemma s_stage_lt g l r : SInv g l -> stage g r <> StNone -> r < next_req g.
Proof.
  intros I H. destruct (Nat.lt_ge_cases r (next_req g)) as [L|L]; [assumption|].
  exfalso. apply H. now apply (si_fresh _ _ I).
Qed.

Lemma sinv_pc g l l' : SInv g l -> spc_ok g l' -> SInv g l'.
Proof. intros I H. destruct I. constructor; auto. Qed.

Lemma ctx_keep g (st' : req -> stg) r B k :
  (forall r', r' <> r -> st' r' = stage g r') -> st' r = B ->
  ctx_ok g k -> (forall t, stage g r <> StCalled t) ->
  match k with None => True | Some (_, r0) => st' r0 = StCalled t0 end.
Proof.
  intros H1 H2 Hc Hn. destruct k as [[i r0]|]; [|exact Logic.I]. cbn in Hc.
  rewrite H1; [assumption|]. intros ->. apply (Hn t0). assumption.
Qed.

(* ---- environment: MPI completes a request *)
Lemma sinv_mpi g l r e : SInv g l -> SInv (mpi_complete g r e) l.
Proof.
  intros I. unfold mpi_complete. destruct (done_status r (mpi_done g)) eqn:D; [assumption|].
  destruct I. constructor; simp_g; auto.
  - destruct l; cbn in *; auto; intuition; destruct k as [[? ?]|]; auto.
  - intros r0 H. right. auto.
  - intros r0 H. right. auto.
  - intros r0 e0 [H|H]; [inversion H; subst; now left|right; auto].
Qed.

(* ---- submitter, first step *)
Lemma sinv_submit g l k : SInv g l -> ctx_ok g k -> SInv (fst (s_submit t0 g k)) (snd (s_submit t0 g k)).
Proof.
  intros I Hk. unfold s_submit. cbn [fst snd]. set (r := next_req g).
  assert (Hr : stage g r = StNone) by (apply (si_fresh _ _ I); unfold r; lia).
  destruct I. constructor; simp_g; fold r.
  - intros r' H. rewrite supd_other by lia. apply si_fresh0. unfold r in *. lia.
  - assumption.
  - assumption.
  - intros r' H. apply supd_keep; [auto|]. congruence.
  - assumption.
  - rewrite cnt_fresh by (now rewrite Hr). cbn. rewrite si_cnt0. fold r. lia.
  - rewrite cnt_fresh by (now rewrite Hr). cbn. rewrite si_act0. fold r. lia.
  - cbn. split; [apply supd_same|]. destruct k as [[i r0]|]; [|exact Logic.I]. cbn in *.
    apply supd_keep; congruence.
  - intros r' H. cs r' r; [now left|right; auto].
  - intros r' H. cs r' r; [discriminate|right; auto].
  - intros r' H. cbn in H. cs r' r; [|auto]. apply si_call0 in H. rewrite Hr in H. discriminate.
  - intros r0 e0 H. right. auto.
  - assumption.
Qed.

(* ---- a pure stage move A -> B of r (vectors, log, queue untouched) *)
Lemma sinv_move g l l' r A B nif nact :
  SInv g l -> stage g r = A -> A <> StNone -> A <> StVec -> B <> StNone -> B <> StVec ->
  (tested_stage B = true -> tested_stage A = true) ->
  (called_stage A = true -> called_stage B = true) ->
  nif + b2n (transient_stage A) = in_flight g + b2n (transient_stage B) ->
  nact + b2n (active_stage A) = activity g + b2n (active_stage B) ->
  spc_ok (w_stage (w_activity (w_inflight g nif) nact) r B) l' ->
  SInv (w_stage (w_activity (w_inflight g nif) nact) r B) l'.
Proof.
  intros I Hr A1 A2 B1 B2 Ht Hc Hif Hact Hpc.
  assert (Hlt : r < next_req g) by (eapply s_stage_lt; [exact I|congruence]).
  destruct I. constructor; simp_g; auto.
  - intros r' H. rewrite supd_other by lia. auto.
  - intros r' H. apply supd_keep; [auto|]. congruence.
  - pose proof (cnt_supd transient_stage (stage g) r B _ Hlt) as E. rewrite Hr in E. lia.
  - pose proof (cnt_supd active_stage (stage g) r B _ Hlt) as E. rewrite Hr in E. lia.
  - intros r' H. cs r' r; [apply si_reg0; congruence|auto].
  - intros r' H. cs r' r; [apply si_test0; rewrite Hr; auto|auto].
  - intros r' H. cs r' r; [apply Hc; rewrite <- Hr; auto|auto].
Qed.

Lemma sinv_scnt g r k : SInv g (SSCnt r k) ->
  SInv (w_stage (w_inflight g (S (in_flight g))) r (StCnt t0)) (SSPush r k).
Proof.
  intros I. destruct (si_pc _ _ I) as (Hr & Hk).
  pose proof (sinv_move g (SSCnt r k) (SSPush r k) r (StAct t0) (StCnt t0) (S (in_flight g)) (activity g) I Hr) as M.
  cbn in M. apply M; try discriminate; auto; try lia.
  split; [apply supd_same|]. destruct k as [[i r0]|]; [|exact Logic.I]. cbn in *. apply supd_keep; congruence.
Qed.

Lemma sinv_dec g idx r e : SInv g (SDec idx r e) ->
  SInv (w_stage (w_inflight g (in_flight g - 1)) r (StDec t0)) (SCall idx r e).
Proof.
  intros I. destruct (si_pc _ _ I) as (Hr & Hn & Hd).
  assert (Hlt : r < next_req g) by (eapply s_stage_lt; [exact I|congruence]).
  assert (1 <= in_flight g).
  { rewrite (si_cnt _ _ I). pose proof (cnt_pos transient_stage (stage g) _ _ Hlt) as C.
    rewrite Hr in C. specialize (C eq_refl). lia. }
  pose proof (sinv_move g (SDec idx r e) (SCall idx r e) r (StHeld t0) (StDec t0) (in_flight g - 1) (activity g) I Hr) as M.
  cbn in M. apply M; try discriminate; auto; try lia.
  split; [apply supd_same|auto].
Qed.

Lemma sinv_fin g r : SInv g (SFin r) ->
  SInv (w_stage (w_activity g (activity g - 1)) r StFin) SDrain.
Proof.
  intros I. pose proof (si_pc _ _ I) as Hr. cbn in Hr.
  assert (Hlt : r < next_req g) by (eapply s_stage_lt; [exact I|congruence]).
  assert (1 <= activity g).
  { rewrite (si_act _ _ I). pose proof (cnt_pos active_stage (stage g) _ _ Hlt) as C.
    rewrite Hr in C. exact (C eq_refl). }
  pose proof (sinv_move g (SFin r) SDrain r (StCalled t0) StFin (in_flight g) (activity g - 1) I Hr) as M.
  cbn in M. apply M; try discriminate; auto; try lia.
Qed.

(* ---- add_to_request_callback_vector (single_thread_mode_ branch of the submitter) *)
Lemma sinv_push g r k : SInv g (SSPush r k) ->
  SInv (w_stage (w_vec g (vreq g ++ [Some r]) (vcb g ++ [(r, r)])) r StVec)
       (match k with None => SIdle | Some (idx, r0) => SInCb idx r0 end).
Proof.
  intros I. destruct (si_pc _ _ I) as (Hr & Hk).
  assert (Hlt : r < next_req g) by (eapply s_stage_lt; [exact I|congruence]).
  assert (Hnin : ~ In r (somes (vreq g))).
  { intros H. apply (si_vec_st _ _ I) in H. congruence. }
  destruct I. constructor; simp_g; auto.
  - intros r' H. rewrite supd_other by lia. auto.
  - apply Forall2_app; [assumption|]. constructor; [reflexivity|constructor].
  - intros r' H. rewrite somes_app in H. apply in_app_or in H. destruct H as [H|[<-|[]]].
    + apply supd_keep; [auto|]. congruence.
    + apply supd_same.
  - rewrite somes_app. cbn. apply NoDup_snoc; assumption.
  - pose proof (cnt_supd transient_stage (stage g) r StVec _ Hlt) as E. rewrite Hr in E. cbn in E.
    unfold nonnull in *. rewrite somes_app, app_length. cbn. lia.
  - pose proof (cnt_supd active_stage (stage g) r StVec _ Hlt) as E. rewrite Hr in E. cbn in E. lia.
  - destruct k as [[i r0]|]; [|exact Logic.I]. cbn in *. apply supd_keep; congruence.
  - intros r' H. cs r' r; [apply si_reg0; congruence|auto].
  - intros r' H. cs r' r; [discriminate|auto].
  - intros r' H. cs r' r; [|auto]. apply si_call0 in H. rewrite Hr in H. discriminate.
Qed.

Lemma nth_error_pair g l idx r : SInv g l -> nth_error (vreq g) idx = Some (Some r) ->
  nth_error (vcb g) idx = Some (r, r).
Proof.
  intros I Hn. destruct (set_nth_split idx None _ _ Hn) as (l1 & l2 & E1 & _ & L).
  pose proof (si_pair _ _ I) as P. rewrite E1 in P. apply Forall2_app_inv_l in P.
  destruct P as (c1 & c2 & P1 & P2 & ->). inversion P2 as [|? c ? c2' Hp P3]; subst.
  cbn in Hp. subst c. apply Forall2_len in P1.
  rewrite P1. rewrite nth_error_app2 by lia. rewrite Nat.sub_diag. reflexivity.
Qed.

(* ---- MPI_Testany reports slot idx *)
Lemma sinv_test g idx r e : SInv g STest ->
  nth_error (vreq g) idx = Some (Some r) -> done_status r (mpi_done g) = Some e ->
  SInv (w_log (w_stage (w_vec g (set_nth idx None (vreq g)) (vcb g)) r (StHeld t0)) (EvTest r)) (SDec idx r e).
Proof.
  intros I Hn1 Hd.
  pose proof (nth_error_pair _ _ _ _ I Hn1) as Hn2.
  destruct (set_nth_split idx None _ _ Hn1) as (l1 & l2 & E1 & E2 & _).
  assert (Hs : somes (vreq g) = somes l1 ++ r :: somes l2) by (rewrite E1, somes_app; reflexivity).
  assert (Hs' : somes (set_nth idx None (vreq g)) = somes l1 ++ somes l2) by (rewrite E2, somes_app; reflexivity).
  assert (Hr : stage g r = StVec).
  { apply (si_vec_st _ _ I). rewrite Hs. apply in_or_app. right. now left. }
  assert (Hlt : r < next_req g) by (eapply s_stage_lt; [exact I|congruence]).
  assert (Hnd : NoDup (somes l1 ++ somes l2) /\ ~ In r (somes l1 ++ somes l2)).
  { pose proof (si_nd _ _ I) as N. rewrite Hs in N.
    split; [eapply NoDup_remove_1|eapply NoDup_remove_2]; exact N. }
  destruct Hnd as (Hnd1 & Hnd2).
  apply done_status_in in Hd.
  destruct I. constructor; simp_g.
  - intros r' H. rewrite supd_other by lia. auto.
  - assumption.
  - now apply Forall2_set_none.
  - intros r' H. rewrite Hs' in H. rewrite supd_other.
    + apply si_vec_st0. rewrite Hs. apply in_app_or in H. apply in_or_app. destruct H; [now left|right; now right].
    + intros ->. contradiction.
  - now rewrite Hs'.
  - pose proof (cnt_supd transient_stage (stage g) r (StHeld t0) _ Hlt) as E. rewrite Hr in E. cbn in E.
    unfold nonnull in *. rewrite Hs', si_cnt0, Hs, !app_length. cbn. lia.
  - pose proof (cnt_supd active_stage (stage g) r (StHeld t0) _ Hlt) as E. rewrite Hr in E. cbn in E. lia.
  - cbn. split; [apply supd_same|]. split; assumption.
  - intros r' H. right. cs r' r; [apply si_reg0; congruence|auto].
  - intros r' H. cs r' r; [now left|right; auto].
  - intros r' H. cbn in H. cs r' r; [|auto]. apply si_call0 in H. rewrite Hr in H. discriminate.
  - intros r0 e0 H. right. auto.
  - cbn. split; [|assumption]. exists e. auto.
Qed.

(* ---- the callback stored in slot idx is invoked in place *)
Lemma sinv_call g idx r e : SInv g (SCall idx r e) ->
  SInv (w_log (w_stage g r (StCalled t0)) (EvCall r r e)) (SInCb idx r).
Proof.
  intros I. destruct (si_pc _ _ I) as (Hr & Hn & Hd).
  assert (Hlt : r < next_req g) by (eapply s_stage_lt; [exact I|congruence]).
  destruct I. constructor; simp_g; auto.
  - intros r' H. rewrite supd_other by lia. auto.
  - intros r' H. apply supd_keep; [auto|]. congruence.
  - pose proof (cnt_supd transient_stage (stage g) r (StCalled t0) _ Hlt) as E. rewrite Hr in E. cbn in E. lia.
  - pose proof (cnt_supd active_stage (stage g) r (StCalled t0) _ Hlt) as E. rewrite Hr in E. cbn in E. lia.
  - cbn. apply supd_same.
  - intros r' H. right. cs r' r; [apply si_reg0; congruence|auto].
  - intros r' H. right. cs r' r; [apply si_test0; now rewrite Hr|auto].
  - intros r' H. cbn in H. cs r' r; [reflexivity|]. destruct H as [H|H]; [congruence|auto].
  - intros r0 e0 H. right. auto.
  - cbn. repeat split; auto.
    + apply si_test0. now rewrite Hr.
    + apply si_reg0. congruence.
    + intros H. apply si_call0 in H. rewrite Hr in H. discriminate.
Qed.

(* ---- compact_vectors *)
Lemma sinv_compact g : SInv g SCompact ->
  SInv (w_vec g (fst (compact (vreq g) (vcb g))) (snd (compact (vreq g) (vcb g)))) SIdle.
Proof.
  intros I. destruct (compact_pair _ _ (si_pair _ _ I)) as (C1 & C2 & C3).
  destruct I. constructor; simp_g; auto.
  - now rewrite C2.
  - now rewrite C2.
  - unfold nonnull. now rewrite C2.
Qed.

Theorem sinv_step o g l : SInv g l -> SInv (fst (sstep inl o t0 g l)) (snd (sstep inl o t0 g l)).
Proof.
  intros I.
  destruct o as [| |k|idx| | |r e]; [| | | | | |cbn [sstep fst snd]; now apply sinv_mpi];
    destruct l as [|r0 k0|r0 k0| | | |i0 r0 e0|i0 r0 e0|i0 r0|r0|]; cbn [sstep fst snd];
    try (apply sinv_pc with (1 := I); exact Logic.I);
    try (apply sinv_submit with (l := SIdle); [assumption|exact Logic.I]); try (now apply sinv_scnt); try (now apply sinv_push);
    try (now apply sinv_dec); try (now apply sinv_fin);
    try (destruct (Nat.eqb (in_flight g) 0); apply sinv_pc with (1 := I); exact Logic.I);
    try (rewrite (si_rq _ _ I); destruct k; cbn [take_nth fst snd]; apply sinv_pc with (1 := I); exact Logic.I);
    try (rewrite (si_rq _ _ I); cbn [take_nth fst snd]; apply sinv_pc with (1 := I); exact Logic.I);
    try (pose proof (sinv_compact g I) as H; destruct (compact (vreq g) (vcb g)); exact H);
    try (destruct (si_pc _ _ I) as (Hr & Hn & Hd); rewrite Hn; cbn [fst snd]; now apply sinv_call);
    try (apply sinv_pc with (1 := I); exact (si_pc _ _ I)).
  - (* SInCb, SoSubmit *)
    destruct (inl r0); [|cbn [fst snd]; apply sinv_pc with (1 := I); exact (si_pc _ _ I)].
    apply sinv_submit with (l := SInCb i0 r0); [assumption|]. exact (si_pc _ _ I).
  - (* STest, SoTest *)
    destruct (nth_error (vreq g) idx) as [[r1|]|] eqn:E1; try (apply sinv_pc with (1 := I); exact Logic.I).
    destruct (done_status r1 (mpi_done g)) as [e|] eqn:E3; cbn [fst snd]; [|apply sinv_pc with (1 := I); exact Logic.I].
    now apply sinv_test.
Qed.

Theorem sinv_run sched : one_thread t0 sched ->
  SInv (fst (s_run inl sched)) (snd (s_run inl sched) t0).
Proof.
  intros H. unfold s_run. apply (run_on_inv _ _ _ (sstep inl) t0 SInv); [intros; now apply sinv_step|exact H|apply sinv_init].
Qed.

(* ------------------------------------------------------------------ consequences *)
Theorem single_callback_once sched : one_thread t0 sched ->
  let lg := mlog (fst (s_run inl sched)) in
  NoDup (calls lg) /\ forall c r e, In (EvCall c r e) lg -> c = r /\ In (EvReg r) lg.
Proof.
  intros O lg. pose proof (si_ok _ _ (sinv_run sched O)) as H. fold lg in H. split.
  - now apply log_ok_nodup.
  - intros c r e Hin. destruct (log_ok_call _ _ _ _ H Hin) as (A & B & _). auto.
Qed.

Theorem single_after_complete sched l1 l2 c r e : one_thread t0 sched ->
  mlog (fst (s_run inl sched)) = l1 ++ EvCall c r e :: l2 ->
  In (EvTest r) l2 /\ In (EvDone r e) l2 /\ ~ In r (calls l2).
Proof.
  intros O E. pose proof (si_ok _ _ (sinv_run sched O)) as H. rewrite E in H.
  apply log_ok_app in H. cbn in H. tauto.
Qed.

Theorem single_test_after_done sched l1 l2 r : one_thread t0 sched ->
  mlog (fst (s_run inl sched)) = l1 ++ EvTest r :: l2 -> exists e, In (EvDone r e) l2.
Proof.
  intros O E. pose proof (si_ok _ _ (sinv_run sched O)) as H. rewrite E in H.
  apply log_ok_app in H. cbn in H. tauto.
Qed.

Theorem single_in_flight_exact sched : one_thread t0 sched ->
  let g := fst (s_run inl sched) in
  in_flight g = cnt transient_stage (stage g) (next_req g) + length (rq g) + nonnull (vreq g).
Proof. intros O. exact (si_cnt _ _ (sinv_run sched O)). Qed.

Theorem single_queue_unused sched : one_thread t0 sched ->
  rq (fst (s_run inl sched)) = [] /\ ready (fst (s_run inl sched)) = [] /\ lock (fst (s_run inl sched)) = None.
Proof.
  intros O. split; [exact (si_rq _ _ (sinv_run sched O))|].
  unfold s_run. apply (run_ginv _ _ _ (sstep inl) (fun g => ready g = [] /\ lock g = None)); [|split; reflexivity].
  intros o t g l (H1 & H2). destruct o; cbn [sstep]; try (unfold mpi_complete; destruct (done_status r (mpi_done g)); simp_g; auto);
    destruct l; cbn [sstep s_submit fst snd]; simp_g; auto;
    repeat match goal with
    | |- context [if ?b then _ else _] => destruct b
    | |- context [match ?x with _ => _ end] => destruct x
    end; simp_g; auto.
Qed.

(* the invocation is in bounds and the function object that runs is the one registered with the request *)
Theorem single_call_in_place sched idx r e : one_thread t0 sched ->
  snd (s_run inl sched) t0 = SCall idx r e ->
  nth_error (vcb (fst (s_run inl sched))) idx = Some (r, r).
Proof.
  intros O E. pose proof (si_pc _ _ (sinv_run sched O)) as P. rewrite E in P. cbn in P. tauto.
Qed.

End Single.

(* ------------------------------------------------------------------ the vectors while a callback runs *)
Definition nonest (l : spc) : Prop :=
  match l with SSCnt _ (Some _) | SSPush _ (Some _) => False | _ => True end.

Lemma nonest_step inl o t g l : no_inline_add inl -> nonest l -> nonest (snd (sstep inl o t g l)).
Proof.
  intros H N. destruct o; [| | | | | |exact N];
    destruct l as [|r0 k0|r0 k0| | | |i0 r0 e0|i0 r0 e0|i0 r0|r0|]; cbn [sstep s_submit fst snd]; try exact Logic.I; try exact N;
    try (rewrite (H r0); exact Logic.I);
    try (destruct k0 as [[? ?]|]; [destruct N|exact Logic.I]);
    repeat match goal with
    | |- context [if ?b then _ else _] => destruct b
    | |- context [match ?x with _ => _ end] => destruct x
    end; cbn [fst snd]; exact Logic.I.
Qed.

Lemma nonest_run inl t0 sched : no_inline_add inl -> one_thread t0 sched -> nonest (snd (s_run inl sched) t0).
Proof.
  intros H O. unfold s_run.
  apply (run_on_inv _ _ _ (sstep inl) t0 (fun _ l => nonest l)); [intros; now apply nonest_step|exact O|exact Logic.I].
Qed.

Lemma mpi_complete_vec g r e : vreq (mpi_complete g r e) = vreq g /\ vcb (mpi_complete g r e) = vcb g.
Proof. unfold mpi_complete. destruct (done_status r (mpi_done g)); split; reflexivity. Qed.

(* While the callback stored in slot idx of callbacks_ executes (pc SInCb idx r), no step of the polling
   thread — whatever the oracle chooses, MPI completions included — modifies requests_ or callbacks_:
   no push_back (reallocation), no compaction/resize, no slot write; the thread stays in the callback
   until it returns. *)
Theorem single_callback_no_realloc inl t0 sched o :
  no_inline_add inl -> one_thread t0 sched ->
  let c := s_run inl sched in
  in_callback (snd c t0) = true ->
  let c' := step (sstep inl) c (t0, o) in
  vreq (fst c') = vreq (fst c) /\ vcb (fst c') = vcb (fst c) /\
  (in_callback (snd c' t0) = true \/ exists r, snd c' t0 = SFin r).
Proof.
  intros H O c Hc c'. pose proof (nonest_run inl t0 sched H O) as N. fold c in N.
  unfold c'. destruct c as [g ls]. cbn [step fst snd] in *.
  destruct (ls t0) as [|r0 k0|r0 k0| | | |i0 r0 e0|i0 r0 e0|i0 r0|r0|] eqn:El; try discriminate Hc;
    try (destruct k0 as [[? ?]|]; [destruct N|discriminate Hc]).
  destruct o; cbn [sstep fst snd]; rewrite ?(H r0); cbn [fst snd]; rewrite upd_same;
    try (repeat split; try reflexivity; left; reflexivity).
  - repeat split; try reflexivity. right. now exists r0.
  - destruct (mpi_complete_vec g r e) as (A & B). repeat split; auto.
Qed.

(* ------------------------------------------------------------------ both hypotheses are needed *)
(* (1) a callback that registers a request inline: requests r0, r1 registered, MPI completes r0, the poll
   reaches the callback of slot 0, which submits r2: the push_back happens while callbacks_[0].cb_ executes *)
Definition w_inline_sched : list (nat * soracle) :=
  map (fun o => (0, o))
    [SoSubmit; SoNoTest; SoNoTest; SoSubmit; SoNoTest; SoNoTest; SoMpi 0 false;
     SoPoll; SoNoTest; SoNoTest; SoTest 0; SoNoTest; SoNoTest; SoSubmit; SoNoTest].

Lemma single_inline_add_reallocates :
  let inl := fun _ : req => true in
  let c := s_run inl w_inline_sched in
  one_thread 0 w_inline_sched /\
  snd c 0 = SSPush 2 (Some (0, 0)) /\ in_callback (snd c 0) = true /\
  vcb (fst c) = [(0, 0); (1, 1)] /\
  vcb (fst (step (sstep inl) c (0, SoNoTest))) = [(0, 0); (1, 1); (2, 2)].
Proof. repeat split; try reflexivity. unfold one_thread, w_inline_sched. repeat constructor. Qed.

(* (2) a second thread running the same polling function (a polling pool with two workers): thread 0 is inside
   the callback of slot 0, thread 1 polls, finds nothing and compacts: slot 0 — the function object thread 0 is
   executing — is overwritten by the callback of r1 and the vector is resized; no callback adds anything inline *)
Definition w_two_sched : list (nat * soracle) :=
  map (fun o => (0, o))
    [SoSubmit; SoNoTest; SoNoTest; SoSubmit; SoNoTest; SoNoTest; SoMpi 0 false;
     SoPoll; SoNoTest; SoNoTest; SoTest 0; SoNoTest; SoNoTest] ++
  map (fun o => (1, o)) [SoPoll; SoNoTest; SoNoTest; SoNoTest].

Lemma single_second_thread_compacts :
  let inl := fun _ : req => false in
  let c := s_run inl w_two_sched in
  no_inline_add inl /\
  snd c 0 = SInCb 0 0 /\ snd c 1 = SCompact /\
  vcb (fst c) = [(0, 0); (1, 1)] /\
  vcb (fst (step (sstep inl) c (1, SoNoTest))) = [(1, 1)] /\
  snd (step (sstep inl) c (1, SoNoTest)) 0 = SInCb 0 0.
Proof. repeat split; reflexivity. Qed.

(* (2') the same two-worker pool, one step earlier: thread 0 has the Testany hit for slot 0 (MPI has nulled the
   slot) and has not invoked the callback yet; thread 1 polls, finds nothing and compacts; thread 0 then invokes
   what is in callbacks_[0] NOW: the callback of r1, which MPI has not completed and no test has reported; the
   callback of r0 has been destroyed and is never invoked.  (The model nulls the slot once, in the STest step; the
   code stores MPI_REQUEST_NULL a second time after the hit, which in this interleaving erases r1's slot: there
   all_in_flight_ stays 1 with nothing left to test; here r1 stays registered and would be called a second time.)
   Replayed on the real code by `c20_mpi mtpool` (hook 2009 keeps the first thread until the other has compacted). *)
Definition w_two_wrong_sched : list (nat * soracle) :=
  map (fun o => (0, o))
    [SoSubmit; SoNoTest; SoNoTest; SoSubmit; SoNoTest; SoNoTest; SoMpi 0 false;
     SoPoll; SoNoTest; SoNoTest; SoTest 0] ++
  map (fun o => (1, o)) [SoPoll; SoNoTest; SoNoTest; SoNoTest; SoNoTest] ++
  map (fun o => (0, o)) [SoNoTest; SoNoTest; SoRet; SoNoTest; SoNoTest; SoNoTest; SoNoTest].

Lemma single_second_thread_wrong_callback :
  let inl := fun _ : req => false in
  let g := fst (s_run inl w_two_wrong_sched) in
  no_inline_add inl /\
  mlog g = [EvCall 1 1 false; EvTest 0; EvDone 0 false; EvReg 1; EvReg 0] /\
  (forall e, ~ In (EvDone 1 e) (mlog g)) /\ ~ In (EvTest 1) (mlog g) /\
  ~ In 0 (calls (mlog g)) /\
  vreq g = [Some 1] /\ vcb g = [(1, 1)] /\ in_flight g = 1 /\
  snd (s_run inl w_two_wrong_sched) 0 = SIdle /\ snd (s_run inl w_two_wrong_sched) 1 = SIdle.
Proof.
  cbv zeta. split; [intro; reflexivity|].
  split; [vm_compute; reflexivity|].
  split; [intros e; vm_compute; intros H; repeat (destruct H as [H|H]; [discriminate H|]); exact H|].
  split; [vm_compute; intros H; repeat (destruct H as [H|H]; [discriminate H|]); exact H|].
  split; [vm_compute; intros H; repeat (destruct H as [H|H]; [discriminate H|]); exact H|].
  repeat split; vm_compute; reflexivity.
Qed.

(* register_polling installs poll_singlethreaded only for a polling pool with exactly one worker: what makes
   [one_thread] true of the real code (the statement is provable only while the translator finds the conjunct
   `pool.get_os_thread_count() == 1` in register_polling: GenMpi.single_mode_one_worker = true) *)
Lemma single_mode_one_worker_lemma pool w m :
  single_thread_mode pool w m = true -> w = 1 /\ single_threaded pool m = true.
Proof.
  unfold single_thread_mode. intros H. apply andb_prop in H. destruct H as (H1 & H2).
  split; [apply Nat.eqb_eq; exact H2|exact H1].
Qed.
Lemma single_mode_polling_fn pool w m :
  p_fn (p_run [PStart pool w m]) = Some true -> w = 1.
Proof.
  rewrite polling_enabled_iff. destruct (m_method m); try discriminate;
    intros H; injection H as H; apply single_mode_one_worker_lemma in H; tauto.
Qed.

(* a complete one-thread run: two requests, both completed (the second with an error status), both called
   back once in completion order, counter back to zero, vectors empty *)
Definition w_single_run : list (nat * soracle) :=
  map (fun o => (0, o))
    [SoSubmit; SoNoTest; SoNoTest; SoSubmit; SoNoTest; SoNoTest; SoMpi 1 true;
     SoPoll; SoNoTest; SoNoTest; SoTest 0; SoTest 1; SoNoTest; SoNoTest; SoRet; SoNoTest;
     SoMpi 0 false; SoNoTest; SoTest 0; SoNoTest; SoNoTest; SoRet; SoNoTest;
     SoNoTest; SoNoTest; SoNoTest].

Definition w_single_log : list event :=
  [EvCall 0 0 false; EvTest 0; EvDone 0 false; EvCall 1 1 true; EvTest 1; EvDone 1 true; EvReg 1; EvReg 0].
Lemma single_run_example :
  let g := fst (s_run (fun _ => false) w_single_run) in
  one_thread 0 w_single_run /\
  mlog g = [EvCall 0 0 false; EvTest 0; EvDone 0 false; EvCall 1 1 true; EvTest 1; EvDone 1 true; EvReg 1; EvReg 0] /\
  in_flight g = 0 /\ activity g = 0 /\ vreq g = [] /\ vcb g = [] /\ snd (s_run (fun _ => false) w_single_run) 0 = SIdle.
Proof. repeat split; try reflexivity. unfold one_thread, w_single_run. repeat constructor. Qed.
