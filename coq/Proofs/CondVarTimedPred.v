(* Proofs/CondVarTimedPred.v — C07: the timed predicate forms inside the concurrent model (Model/CondVar.v):
   the final `return pred();` after a time-out is a step of its own (pc CPredRet), taken with the user lock
   re-acquired, and returns the predicate's value at THAT step — with the on-timeout expression regenerated from
   the header (Gen/GenTimedPred.v); the late scenario as a concrete run. *)
From Coq Require Import List NArith Bool Arith.
From Pika Require Import Base.Conc Base.Agent Gen.GenTimedPred Model.CondVar
  Proofs.CondVarInvA Proofs.CondVarInvB Proofs.CondVarInvC Proofs.CondVarProofs.
Import ListNotations.

Definition is_timed_pred (o : cv_op) : bool := match o with CWaitForPred | CWaitStopFor => true | _ => false end.

(* from any state: after the time-out (CLockU false) the waiter first re-acquires U — nothing is returned or
   logged in that step —, then evaluates the predicate (CPredRet) and returns ITS CURRENT value, still owning U *)
Lemma timed_pred_reevaluates_with_lock : forall isos late t g o td h r,
  is_timed_pred o = true ->
  let at_pc p := {| ctodo := o :: td; cpc := p; hu := h; reg := r |} in
  (uowner g = None ->
     let s := cv_tstep isos late t g (at_pc (CLockU false)) in
     cpc (snd s) = CPredRet /\ uowner (fst s) = Some t /\ hu (snd s) = true /\ cvlog (fst s) = cvlog g /\
     flag (fst s) = flag g) /\
  (forall n, uowner g = Some n -> cv_tstep isos late t g (at_pc (CLockU false)) = (g, at_pc (CLockU false))) /\
  (let s := cv_tstep isos late t g (at_pc CPredRet) in
     cvlog (fst s) = ERet t o (flag g) :: cvlog g /\ uowner (fst s) = uowner g /\ flag (fst s) = flag g /\
     ctodo (snd s) = td /\ cpc (snd s) = CIdle).
Proof.
  intros isos late t g o td h r Ho at_pc. unfold at_pc.
  destruct o; try discriminate Ho; (split; [|split]).
  all: try (intros Hu; cbn; rewrite Hu; cbn; repeat split; reflexivity).
  all: try (intros n Hu; cbn; rewrite Hu; reflexivity).
  all: cbn; destruct r; repeat split.
Qed.

(* reachable states: a thread at CPredRet owns the user lock (so nobody can change the predicate between this
   evaluation and the return) and is inside a timed predicate form *)
Lemma predret_owns_lock : forall isos progs sched t,
  let c := cv_run isos sched progs in
  cpc (snd c t) = CPredRet -> uowner (fst c) = Some t /\ hu (snd c t) = true.
Proof.
  intros isos progs sched t c Hp. pose proof (cv_reach_inv isos progs sched) as I. fold c in I.
  assert (H : hu (snd c t) = true) by (apply (c_lu _ _ _ I t); rewrite Hp; reflexivity).
  split; [apply (c_u _ _ _ I t); exact H|exact H].
Qed.

(* the late scenario.  Thread 0: lock U; wait_for(lock, t, pred).  Thread 1: lock U (while 0 sleeps); pred := true;
   notify_all; unlock U.  Schedule: 0 releases U and sleeps; 1 takes U; the deadline passes, 0 finds its entry
   still queued (time-out), erases it and spins on U; 1 writes the predicate, notifies (nobody queued), unlocks;
   0 re-acquires U, evaluates the predicate in a step of its own and returns TRUE. *)
Definition late_progs (t : nat) : list cv_op :=
  match t with
  | 0 => [CLockUOp; CWaitForPred; CUnlockUOp]
  | 1 => [CLockUOp; CSetFlag true; CNotifyAll; CUnlockUOp]
  | _ => []
  end.
Definition late_sched_1 : list (nat * bool) :=
  repeat (0, false) 7 ++ [(1, false); (0, true); (0, false); (0, false); (0, false)].
Definition late_sched_2 : list (nat * bool) := repeat (1, false) 6 ++ [(0, false)].

Lemma late_scenario : forall os : bool,
  let isos := fun _ : nat => os in
  let c1 := cv_run isos late_sched_1 late_progs in
  let c2 := cv_run isos (late_sched_1 ++ late_sched_2) late_progs in
  let c3 := cv_run isos (late_sched_1 ++ late_sched_2 ++ [(0, false)]) late_progs in
  (* deadline passed, predicate still false, the waiter is blocked on the user lock held by the notifier *)
  (cpc (snd c1 0) = CLockU false /\ flag (fst c1) = false /\ uowner (fst c1) = Some 1 /\ cvlog (fst c1) = [EPush 0]) /\
  (* lock re-acquired, the predicate is true now, nothing returned yet *)
  (cpc (snd c2 0) = CPredRet /\ flag (fst c2) = true /\ uowner (fst c2) = Some 0 /\ ctodo (snd c2 1) = []) /\
  (* the wait returns true *)
  (hd_error (cvlog (fst c3)) = Some (ERet 0 CWaitForPred true) /\ uowner (fst c3) = Some 0).
Proof.
  intros os. destruct os; vm_compute; repeat split; reflexivity.
Qed.
