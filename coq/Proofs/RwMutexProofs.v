(* Proofs/RwMutexProofs.v — invariants of Model/RwMutex.v over arbitrary schedules. *)
From Coq Require Import List Arith Bool Lia.
From Pika Require Import Base.Conc Model.RwMutex.
Import ListNotations.

Lemma fset_same {A} (f : nat -> A) k a : fset f k a k = a.
Proof. unfold fset. now rewrite Nat.eqb_refl. Qed.
Lemma fset_other {A} (f : nat -> A) k a j : j <> k -> fset f k a j = f j.
Proof. unfold fset. intros H. apply Nat.eqb_neq in H. now rewrite H. Qed.

(* ---- counting *)
Lemma cnt_ext n : forall f g, (forall i, i < n -> f i = g i) -> cnt f n = cnt g n.
Proof.
  induction n as [|n IH]; intros f g H; cbn; [reflexivity|].
  rewrite (H n) by lia. rewrite (IH f g); [reflexivity|]. intros; apply H; lia.
Qed.
Lemma cnt_off n : forall f g i, i < n -> f i = true -> g i = false ->
  (forall j, j <> i -> g j = f j) -> cnt f n = S (cnt g n).
Proof.
  induction n as [|n IH]; intros f g i Hi Hf Hg Ho; [lia|]. cbn.
  destruct (Nat.eq_dec i n) as [->|Hne].
  - rewrite Hf, Hg. cbn. f_equal. apply cnt_ext. intros j Hj. symmetry. apply Ho. lia.
  - rewrite (Ho n) by lia. rewrite (IH f g i); try assumption; lia.
Qed.
Lemma cnt_pos n : forall f i, i < n -> f i = true -> 1 <= cnt f n.
Proof.
  induction n as [|n IH]; intros f i Hi Hf; [lia|]. cbn.
  destruct (Nat.eq_dec i n) as [->|Hne]; [rewrite Hf; cbn; lia|].
  specialize (IH f i ltac:(lia) Hf). lia.
Qed.

Definition alive (s : tstate) : bool := match s with TDead => false | _ => true end.
Definition holdsf (tk : nat -> token) (k e : nat) : bool := Nat.eqb (tgrp (tk e)) k && alive (tst (tk e)).
Definition ms_is (ms : option nat) (k : nat) : bool := match ms with Some m => Nat.eqb m k | None => false end.
Definition lk (gs : nat -> group) (k : nat) : bool := match k with 0 => false | S p => linked (gs p) end.
Definition gw (s : tstate) : bool := match s with TLive | TAuto _ | TGranting _ => true | _ => false end.

Record GIc (gs : nat -> group) (ng : nat) (tk : nat -> token) (nt : nat) (ms : option nat) (al : bool) : Prop := {
  a0 : forall e, nt <= e -> tst (tk e) = TDead;
  a1 : forall e, alive (tst (tk e)) = true -> tgrp (tk e) < ng;
  a2 : forall k, k < ng -> refs (gs k) = cnt (holdsf tk k) nt + b2n (ms_is ms k) + b2n (lk gs k);
  a3 : forall k j, k < ng -> head (gs k) = HSent -> j < k -> refs (gs j) = 0;
  a4 : forall e, gw (tst (tk e)) = true -> head (gs (tgrp (tk e))) = HSent;
  a5 : forall k j, k < ng -> refs (gs k) = 0 -> j < k -> refs (gs j) = 0;
  a6 : forall k, ms = Some k -> S k = ng;
  a6' : ms = None -> al = true -> ng = 0;
  a7 : forall k, S k < ng -> linked (gs k) = false -> refs (gs k) = 0;
  a7' : forall k, linked (gs k) = true -> S k < ng;
  a8 : forall k, k < ng -> 1 <= gphase (gs k) -> refs (gs k) = 0;
  a9 : forall e t, tst (tk e) = TDone t -> exists p, tgrp (tk e) = S p /\ refs (gs p) = 0;
  a10 : forall k l e, head (gs k) = HList l -> In e l -> tst (tk e) = TQueued /\ tgrp (tk e) = k
}.

Definition GI (g : shared) : Prop := GIc (grp g) (ngrp g) (tok g) (ntok g) (mstate g) (malive g).

Lemma GI_init : GI rw_init.
Proof.
  constructor; cbn; intros; try reflexivity; try discriminate; try lia.
  injection H as <-. contradiction.
Qed.

Lemma alive_lt gs ng tk nt ms al e : GIc gs ng tk nt ms al -> alive (tst (tk e)) = true -> e < nt.
Proof.
  intros H Ha. destruct (le_lt_dec nt e) as [Hle|]; [|assumption].
  rewrite (a0 _ _ _ _ _ _ H e Hle) in Ha. discriminate.
Qed.

Lemma alive_refs gs ng tk nt ms al e : GIc gs ng tk nt ms al -> alive (tst (tk e)) = true ->
  1 <= refs (gs (tgrp (tk e))).
Proof.
  intros H Ha. rewrite (a2 _ _ _ _ _ _ H) by (eapply a1; eauto).
  assert (1 <= cnt (holdsf tk (tgrp (tk e))) nt).
  { eapply cnt_pos with (i := e); [eapply alive_lt; eauto|]. unfold holdsf. now rewrite Nat.eqb_refl, Ha. }
  lia.
Qed.

Ltac fse := unfold fset in *;
  repeat match goal with
  | |- context[Nat.eqb ?a ?b] => destruct (Nat.eqb_spec a b); subst
  | H : context[Nat.eqb ?a ?b] |- _ => destruct (Nat.eqb_spec a b); subst
  end.

Ltac gic := constructor;
  [ intros e0 H0 | intros e0 H0 | intros k0 H0 | intros k0 j H0 H1 H2 | intros e0 H0
  | intros k0 j H0 H1 H2 | intros k0 H0 | intros H0 H1 | intros k0 H0 H1 | intros k0 H0
  | intros k0 H0 H1 | intros e0 t0 H0 | intros k0 l0 e0 H0 H1 ].

(* a token changes its (live) state *)
Lemma GIc_st gs ng tk nt ms al e nk :
  GIc gs ng tk nt ms al -> alive (tst (tk e)) = true -> alive (tst nk) = true ->
  (forall k0 l0, head (gs k0) = HList l0 -> ~ In e l0) -> tgrp nk = tgrp (tk e) ->
  (gw (tst nk) = true -> head (gs (tgrp (tk e))) = HSent) -> (forall t, tst nk <> TDone t) ->
  GIc gs ng (fset tk e nk) nt ms al.
Proof.
  intros H Ha Hs Hq Hg Hgw Hd. pose proof (alive_lt _ _ _ _ _ _ e H Ha) as Hlt.
  destruct H as [A0 A1 A2 A3 A4 A5 A6 A6' A7 A7' A8 A9 A10].
  gic; eauto.
  - unfold fset. destruct (Nat.eqb_spec e0 e); [lia|auto].
  - unfold fset in *. destruct (Nat.eqb_spec e0 e); subst; [rewrite Hg; auto|auto].
  - rewrite A2 by assumption. f_equal. f_equal. apply cnt_ext. intros i _.
    unfold holdsf, fset. destruct (Nat.eqb_spec i e); subst; [now rewrite Hg, Ha, Hs|reflexivity].
  - unfold fset in *. destruct (Nat.eqb_spec e0 e); subst; [rewrite Hg; auto|auto].
  - unfold fset in *. destruct (Nat.eqb_spec e0 e); subst; [exfalso; eapply Hd; eauto|eauto].
  - destruct (A10 _ _ _ H0 H1) as [Hq1 Hq2].
    destruct (Nat.eq_dec e0 e) as [->|Hne]; [exfalso; eapply Hq; eauto|]. rewrite fset_other by assumption. auto.
Qed.

Lemma not_queued_notin gs ng tk nt ms al e : GIc gs ng tk nt ms al -> tst (tk e) <> TQueued ->
  forall k0 l0, head (gs k0) = HList l0 -> ~ In e l0.
Proof. intros H Hq k0 l0 Hh Hin. destruct (a10 _ _ _ _ _ _ H _ _ _ Hh Hin). contradiction. Qed.

Definition rel_grp (t : nat) (gr : group) : group :=
  let g1 := set_refs gr (pred (refs gr)) in
  if Nat.eqb (pred (refs gr)) 0 then set_phase g1 1 t else g1.

Lemma rel_grp_refs t gr : refs (rel_grp t gr) = pred (refs gr).
Proof. unfold rel_grp. destruct (Nat.eqb (pred (refs gr)) 0); reflexivity. Qed.
Lemma rel_grp_head t gr : head (rel_grp t gr) = head gr.
Proof. unfold rel_grp. destruct (Nat.eqb (pred (refs gr)) 0); reflexivity. Qed.
Lemma rel_grp_linked t gr : linked (rel_grp t gr) = linked gr.
Proof. unfold rel_grp. destruct (Nat.eqb (pred (refs gr)) 0); reflexivity. Qed.
Lemma rel_grp_phase t gr : 1 <= gphase (rel_grp t gr) -> pred (refs gr) = 0 \/ 1 <= gphase gr.
Proof.
  unfold rel_grp. destruct (Nat.eqb_spec (pred (refs gr)) 0); cbn; intros; [left; assumption|right; assumption].
Qed.

(* a reference is dropped: token e dies, its group's count goes down *)
Lemma GIc_rel gs ng tk nt ms al e t :
  GIc gs ng tk nt ms al -> alive (tst (tk e)) = true -> tst (tk e) <> TQueued ->
  GIc (fset gs (tgrp (tk e)) (rel_grp t (gs (tgrp (tk e))))) ng (fset tk e (set_st (tk e) TDead)) nt ms al.
Proof.
  intros H Ha Hq. pose proof (alive_lt _ _ _ _ _ _ e H Ha) as Hlt.
  pose proof (alive_refs _ _ _ _ _ _ e H Ha) as Hr.
  remember (tgrp (tk e)) as k eqn:Ek.
  assert (Hle : forall j, refs (fset gs k (rel_grp t (gs k)) j) <= refs (gs j)).
  { intros j. unfold fset. destruct (Nat.eqb_spec j k); subst; [rewrite rel_grp_refs; lia|lia]. }
  assert (Hhd : forall j, head (fset gs k (rel_grp t (gs k)) j) = head (gs j)).
  { intros j. unfold fset. destruct (Nat.eqb_spec j k); subst; [apply rel_grp_head|reflexivity]. }
  assert (Hlkd : forall j, linked (fset gs k (rel_grp t (gs k)) j) = linked (gs j)).
  { intros j. unfold fset. destruct (Nat.eqb_spec j k); subst; [apply rel_grp_linked|reflexivity]. }
  assert (Hz : forall j, refs (gs j) = 0 -> refs (fset gs k (rel_grp t (gs k)) j) = 0).
  { intros j Hj. specialize (Hle j). lia. }
  destruct H as [A0 A1 A2 A3 A4 A5 A6 A6' A7 A7' A8 A9 A10].
  assert (Hk : k < ng) by (subst k; apply A1; assumption).
  gic.
  - unfold fset. destruct (Nat.eqb_spec e0 e); [reflexivity|auto].
  - unfold fset in *. destruct (Nat.eqb_spec e0 e); subst; [discriminate|auto].
  - assert (Hlk : lk (fset gs k (rel_grp t (gs k))) k0 = lk gs k0).
    { destruct k0; [reflexivity|]. cbn. apply Hlkd. }
    rewrite Hlk. unfold fset at 1. destruct (Nat.eqb_spec k0 k) as [->|Hne].
    + rewrite rel_grp_refs, A2 by assumption.
      rewrite (cnt_off nt (holdsf tk k) (holdsf (fset tk e (set_st (tk e) TDead)) k) e); try assumption.
      * lia.
      * unfold holdsf. now rewrite <- Ek, Nat.eqb_refl, Ha.
      * unfold holdsf, fset. rewrite Nat.eqb_refl. cbn. apply andb_false_r.
      * intros j Hj. unfold holdsf, fset. destruct (Nat.eqb_spec j e); [contradiction|reflexivity].
    + rewrite A2 by assumption. f_equal. f_equal. apply cnt_ext. intros i _.
      unfold holdsf, fset. destruct (Nat.eqb_spec i e) as [->|Hi]; [|reflexivity].
      cbn. rewrite <- Ek. destruct (Nat.eqb_spec k k0); [congruence|reflexivity].
  - apply Hz. rewrite Hhd in H1. eauto.
  - unfold fset at 2. destruct (Nat.eqb_spec e0 e); subst; [rewrite fset_same in H0; discriminate|].
    rewrite fset_other in H0 by assumption. rewrite Hhd. auto.
  - apply Hz. unfold fset in H1. destruct (Nat.eqb_spec k0 k) as [->|Hne]; [|eauto].
    rewrite rel_grp_refs in H1.
    assert (Hr1 : refs (gs k) = 1) by lia.
    rewrite A2 in Hr1 by assumption.
    assert (Hc : 1 <= cnt (holdsf tk k) nt).
    { eapply cnt_pos with (i := e); [assumption|]. unfold holdsf. now rewrite <- Ek, Nat.eqb_refl, Ha. }
    destruct k as [|p]; [lia|].
    assert (Hlp : linked (gs p) = false).
    { cbn in Hr1. destruct (linked (gs p)); [cbn in Hr1; lia|reflexivity]. }
    assert (Hp0 : refs (gs p) = 0) by (apply A7; [lia|assumption]).
    destruct (Nat.eq_dec j p); subst; [assumption|]. apply (A5 p); [lia|assumption|lia].
  - auto.
  - auto.
  - apply Hz. rewrite Hlkd in H1. auto.
  - rewrite Hlkd in H0. auto.
  - unfold fset in *. destruct (Nat.eqb_spec k0 k) as [->|Hne]; [|auto].
    rewrite rel_grp_refs. apply rel_grp_phase in H1. destruct H1; [assumption|]. rewrite (A8 k); auto.
  - destruct (Nat.eq_dec e0 e) as [->|Hne]; [rewrite fset_same in H0; discriminate|].
    rewrite fset_other in H0 |- * by assumption.
    destruct (A9 _ _ H0) as [p [Hp Hp0]]. exists p. split; [assumption|apply Hz; assumption].
  - rewrite Hhd in H0. destruct (A10 _ _ _ H0 H1) as [Hq1 Hq2].
    destruct (Nat.eq_dec e0 e) as [->|Hne]; [contradiction|]. rewrite fset_other by assumption. auto.
Qed.

(* a new token appears in group k; the caller says how the group table / mutex member change *)
Lemma GIc_newtok gs gs' ng tk nt ms ms' al al' nk k :
  GIc gs ng tk nt ms al ->
  alive (tst nk) = true -> tgrp nk = k -> k < ng ->
  (gw (tst nk) = true -> head (gs k) = HSent) ->
  (forall t, tst nk = TDone t -> exists p, k = S p /\ refs (gs p) = 0) ->
  (forall j, head (gs' j) = head (gs j)) ->
  (forall j, refs (gs' j) = 0 <-> refs (gs j) = 0) ->
  (forall j, j < ng -> refs (gs' j) = cnt (holdsf tk j) nt + b2n (Nat.eqb k j) + b2n (ms_is ms' j) + b2n (lk gs' j)) ->
  (forall j, linked (gs' j) = true -> linked (gs j) = true) ->
  (forall j, linked (gs' j) = false -> linked (gs j) = false \/ refs (gs j) = 0) ->
  (forall j, 1 <= gphase (gs' j) -> 1 <= gphase (gs j) \/ refs (gs j) = 0) ->
  (ms' = ms \/ ms' = None) -> (ms' = None -> al' = true -> ms = None /\ al = true) ->
  GIc gs' ng (fset tk nt nk) (S nt) ms' al'.
Proof.
  intros H Ha Hg Hk Hgw Hdn Hhd Hz Hrf Hl1 Hl2 Hph Hms Hal.
  destruct H as [A0 A1 A2 A3 A4 A5 A6 A6' A7 A7' A8 A9 A10].
  assert (Hold : forall e, e <> nt -> fset tk nt nk e = tk e) by (intros; apply fset_other; assumption).
  gic.
  - rewrite Hold by lia. apply A0. lia.
  - destruct (Nat.eq_dec e0 nt) as [->|Hne]; [rewrite fset_same; lia|]. rewrite Hold in * by assumption. auto.
  - rewrite Hrf by assumption. cbn [cnt].
    assert (Hc : cnt (holdsf (fset tk nt nk) k0) nt = cnt (holdsf tk k0) nt).
    { apply cnt_ext. intros i Hi. unfold holdsf. rewrite Hold by lia. reflexivity. }
    assert (Hn : holdsf (fset tk nt nk) k0 nt = Nat.eqb k k0).
    { unfold holdsf. rewrite fset_same, Hg, Ha. apply andb_true_r. }
    rewrite Hc, Hn. unfold b2n. destruct (Nat.eqb k k0); lia.
  - apply Hz. rewrite Hhd in H1. eauto.
  - rewrite Hhd. destruct (Nat.eq_dec e0 nt) as [->|Hne].
    + rewrite fset_same in *. rewrite Hg. auto.
    + rewrite Hold in * by assumption. auto.
  - apply Hz. apply Hz in H1. eauto.
  - destruct Hms as [->| ->]; [auto|discriminate].
  - destruct (Hal H0 H1). auto.
  - apply Hz. destruct (Hl2 _ H1); auto.
  - auto.
  - apply Hz. destruct (Hph _ H1); auto.
  - destruct (Nat.eq_dec e0 nt) as [->|Hne].
    + rewrite fset_same in *. destruct (Hdn _ H0) as [p [Hp Hp0]]. exists p. split; [congruence|apply Hz; assumption].
    + rewrite Hold in * by assumption. destruct (A9 _ _ H0) as [p [Hp Hp0]]. exists p. split; [assumption|apply Hz; assumption].
  - rewrite Hhd in H0. destruct (A10 _ _ _ H0 H1) as [Hq1 Hq2].
    assert (e0 <> nt).
    { intros ->. rewrite A0 in Hq1 by lia. discriminate. }
    rewrite Hold by assumption. auto.
Qed.

(* group fields that only the ghost / the value care about *)
Lemma GIc_ghost gs ng tk nt ms al k gr :
  GIc gs ng tk nt ms al -> refs gr = refs (gs k) -> head gr = head (gs k) -> linked gr = linked (gs k) ->
  (k < ng -> 1 <= gphase gr -> refs (gs k) = 0) ->
  GIc (fset gs k gr) ng tk nt ms al.
Proof.
  intros H Hr Hh Hl Hp.
  assert (Er : forall j, refs (fset gs k gr j) = refs (gs j)) by (intros j; unfold fset; destruct (Nat.eqb_spec j k); subst; auto).
  assert (Eh : forall j, head (fset gs k gr j) = head (gs j)) by (intros j; unfold fset; destruct (Nat.eqb_spec j k); subst; auto).
  assert (El : forall j, linked (fset gs k gr j) = linked (gs j)) by (intros j; unfold fset; destruct (Nat.eqb_spec j k); subst; auto).
  destruct H as [A0 A1 A2 A3 A4 A5 A6 A6' A7 A7' A8 A9 A10].
  gic; auto.
  - rewrite Er, A2 by assumption. f_equal. f_equal. destruct k0; [reflexivity|]. cbn. symmetry. apply El.
  - rewrite Er. rewrite Eh in H1. eauto.
  - rewrite Eh. auto.
  - rewrite Er in *. eauto.
  - rewrite Er. rewrite El in H1. auto.
  - rewrite El in H0. auto.
  - rewrite Er. unfold fset in H1. destruct (Nat.eqb_spec k0 k); subst; auto.
  - destruct (A9 _ _ H0) as [p [Hp1 Hp0]]. exists p. rewrite Er. auto.
  - rewrite Eh in H0. eauto.
Qed.

(* push onto a list head *)
Lemma GIc_push gs ng tk nt ms al k l e t :
  GIc gs ng tk nt ms al -> head (gs k) = HList l -> tst (tk e) = TStarting t -> tgrp (tk e) = k ->
  GIc (fset gs k (set_head (gs k) (HList (e :: l)))) ng (fset tk e (set_st (tk e) TQueued)) nt ms al.
Proof.
  intros H Hh Hs Hg.
  assert (Ha : alive (tst (tk e)) = true) by (rewrite Hs; reflexivity).
  pose proof (GIc_st gs ng tk nt ms al e (set_st (tk e) TQueued) H Ha eq_refl) as H1.
  specialize (H1 ltac:(eapply not_queued_notin; [eassumption|rewrite Hs; discriminate]) eq_refl ltac:(cbn; discriminate) ltac:(cbn; discriminate)).
  clear H. destruct H1 as [A0 A1 A2 A3 A4 A5 A6 A6' A7 A7' A8 A9 A10].
  set (tk' := fset tk e (set_st (tk e) TQueued)) in *.
  set (gs' := fset gs k (set_head (gs k) (HList (e :: l)))).
  assert (Er : forall j, refs (gs' j) = refs (gs j)) by (intros j; unfold gs', fset; destruct (Nat.eqb_spec j k); subst; auto).
  assert (El : forall j, linked (gs' j) = linked (gs j)) by (intros j; unfold gs', fset; destruct (Nat.eqb_spec j k); subst; auto).
  assert (Ep : forall j, gphase (gs' j) = gphase (gs j)) by (intros j; unfold gs', fset; destruct (Nat.eqb_spec j k); subst; auto).
  assert (Eh : forall j, head (gs' j) = HSent -> head (gs j) = HSent).
  { intros j. unfold gs', fset. destruct (Nat.eqb_spec j k); subst; cbn; [discriminate|auto]. }
  gic; auto.
  - rewrite Er, A2 by assumption. f_equal. f_equal. destruct k0; [reflexivity|]. cbn. symmetry. apply El.
  - rewrite Er. eauto.
  - specialize (A4 _ H0). unfold gs', fset. destruct (Nat.eqb_spec (tgrp (tk' e0)) k) as [E|]; [|assumption].
    rewrite E, Hh in A4. discriminate.
  - rewrite Er in *. eauto.
  - rewrite Er. rewrite El in H1. auto.
  - rewrite El in H0. auto.
  - rewrite Er. rewrite Ep in H1. auto.
  - destruct (A9 _ _ H0) as [p [Hp1 Hp0]]. exists p. rewrite Er. auto.
  - unfold gs', fset in H0. destruct (Nat.eqb_spec k0 k) as [->|Hne].
    + cbn in H0. injection H0 as <-. destruct H1 as [<-|Hin].
      * unfold tk'. rewrite fset_same. cbn. auto.
      * eapply A10; eauto.
    + eapply A10; eauto.
Qed.

Lemma cnt_false n : forall f, (forall i, i < n -> f i = false) -> cnt f n = 0.
Proof.
  induction n as [|n IH]; intros f H; [reflexivity|]. cbn. rewrite H by lia. rewrite IH; [reflexivity|].
  intros; apply H; lia.
Qed.

(* done(): the head becomes the sentinel *)
Lemma GIc_sent gs ng tk nt ms al k l :
  GIc gs ng tk nt ms al -> head (gs k) = HList l -> (forall j, j < k -> refs (gs j) = 0) ->
  GIc (fset gs k (set_head (gs k) HSent)) ng tk nt ms al.
Proof.
  intros H Hh Hz. destruct H as [A0 A1 A2 A3 A4 A5 A6 A6' A7 A7' A8 A9 A10].
  set (gs' := fset gs k (set_head (gs k) HSent)).
  assert (Er : forall j, refs (gs' j) = refs (gs j)) by (intros j; unfold gs', fset; destruct (Nat.eqb_spec j k); subst; auto).
  assert (El : forall j, linked (gs' j) = linked (gs j)) by (intros j; unfold gs', fset; destruct (Nat.eqb_spec j k); subst; auto).
  assert (Ep : forall j, gphase (gs' j) = gphase (gs j)) by (intros j; unfold gs', fset; destruct (Nat.eqb_spec j k); subst; auto).
  gic; auto.
  - rewrite Er, A2 by assumption. f_equal. f_equal. destruct k0; [reflexivity|]. cbn. symmetry. apply El.
  - rewrite Er. unfold gs', fset in H1. destruct (Nat.eqb_spec k0 k) as [->|Hne]; [auto|eauto].
  - unfold gs', fset. destruct (Nat.eqb_spec (tgrp (tk e0)) k); [reflexivity|auto].
  - rewrite Er in *. eauto.
  - rewrite Er. rewrite El in H1. auto.
  - rewrite El in H0. auto.
  - rewrite Er. rewrite Ep in H1. auto.
  - destruct (A9 _ _ H0) as [p [Hp1 Hp0]]. exists p. rewrite Er. auto.
  - unfold gs', fset in H0. destruct (Nat.eqb_spec k0 k) as [->|Hne]; [discriminate|eauto].
Qed.

Lemma GIc_take gs ng ms al nt k t : head (gs k) = HSent -> forall l tk,
  GIc gs ng tk nt ms al -> (forall e, In e l -> alive (tst (tk e)) = true /\ tgrp (tk e) = k) ->
  GIc gs ng (take_all tk l t) nt ms al.
Proof.
  intros Hh. induction l as [|e l IH]; intros tk H Hl; [exact H|].
  cbn. apply IH.
  - destruct (Hl e (or_introl eq_refl)) as [Ha Hg].
    apply GIc_st; auto.
    + intros k0 l0 Hk0 Hin. destruct (a10 _ _ _ _ _ _ H _ _ _ Hk0 Hin) as [_ Hg2].
      rewrite Hg in Hg2. subst k0. rewrite Hh in Hk0. discriminate.
    + intros _. rewrite Hg. exact Hh.
    + cbn. discriminate.
  - intros e' Hin. destruct (Hl e' (or_intror Hin)) as [Ha Hg].
    unfold fset. destruct (Nat.eqb_spec e' e) as [->|]; [cbn; split; [reflexivity|]|auto].
    apply (Hl e). now left.
Qed.

Definition newg (kd : kind) (r : nat) : group :=
  {| gkind := kd; refs := r; head := HList []; linked := false; vheld := true; gphase := 0; gown := 0 |}.

Lemma GIc_first gs tk nt nk kd : GIc gs 0 tk nt None true -> tgrp nk = 0 -> tst nk = TSender ->
  GIc (fset gs 0 (newg kd 2)) 1 (fset tk nt nk) (S nt) (Some 0) true.
Proof.
  intros H Hg Hs. destruct H as [A0 A1 A2 A3 A4 A5 A6 A6' A7 A7' A8 A9 A10].
  assert (Hd : forall e, alive (tst (tk e)) = false).
  { intros e. destruct (alive (tst (tk e))) eqn:E; [|reflexivity]. apply A1 in E. lia. }
  assert (Hd' : forall e, e <> nt -> alive (tst (fset tk nt nk e)) = false) by (intros; rewrite fset_other; auto).
  assert (Hl : forall j, linked (gs j) = false).
  { intros j. destruct (linked (gs j)) eqn:E; [|reflexivity]. apply A7' in E. lia. }
  gic.
  - rewrite fset_other by lia. apply A0. lia.
  - destruct (Nat.eq_dec e0 nt) as [->|Hne]; [rewrite fset_same; lia|]. rewrite Hd' in H0 by assumption. discriminate.
  - assert (k0 = 0) by lia. subst. rewrite fset_same. cbn.
    unfold holdsf at 1. rewrite fset_same, Hg, Hs. cbn.
    rewrite cnt_false; [reflexivity|]. intros i Hi. unfold holdsf. rewrite Hd' by lia. apply andb_false_r.
  - assert (k0 = 0) by lia. subst. rewrite fset_same in H1. discriminate.
  - destruct (Nat.eq_dec e0 nt) as [->|Hne]; [rewrite fset_same in H0; rewrite Hs in H0; discriminate|].
    specialize (Hd' e0 Hne). destruct (tst (fset tk nt nk e0)); discriminate.
  - lia.
  - injection H0 as <-. reflexivity.
  - discriminate.
  - lia.
  - unfold fset in H0. destruct (Nat.eqb_spec k0 0); [discriminate|]. rewrite Hl in H0. discriminate.
  - assert (k0 = 0) by lia. subst. rewrite fset_same in H1. cbn in H1. lia.
  - destruct (Nat.eq_dec e0 nt) as [->|Hne]; [rewrite fset_same in H0; rewrite Hs in H0; discriminate|].
    specialize (Hd' e0 Hne). rewrite H0 in Hd'. discriminate.
  - unfold fset in H0 at 1. destruct (Nat.eqb_spec k0 0) as [->|Hne].
    + cbn in H0. injection H0 as <-. contradiction.
    + destruct (A10 _ _ _ H0 H1) as [Hq _]. specialize (Hd e0). rewrite Hq in Hd. discriminate.
Qed.

Lemma GIc_link gs ng tk nt p al kd snd tmp t :
  GIc gs ng tk nt (Some p) al -> tgrp snd = ng -> tst snd = TSender -> tgrp tmp = p -> tst tmp = TTemp t ->
  GIc (fset (fset gs p (set_linked (gs p) true)) ng (newg kd 3)) (S ng)
      (fset (fset tk nt snd) (S nt) tmp) (S (S nt)) (Some ng) true.
Proof.
  intros H Hg1 Hs1 Hg2 Hs2. destruct H as [A0 A1 A2 A3 A4 A5 A6 A6' A7 A7' A8 A9 A10].
  pose proof (A6 p eq_refl) as Hp.
  set (gs' := fset (fset gs p (set_linked (gs p) true)) ng (newg kd 3)).
  set (tk' := fset (fset tk nt snd) (S nt) tmp).
  assert (Er : forall j, j <> ng -> refs (gs' j) = refs (gs j)).
  { intros j Hj. unfold gs', fset. destruct (Nat.eqb_spec j ng); [contradiction|]. destruct (Nat.eqb_spec j p); subst; reflexivity. }
  assert (Eh : forall j, j <> ng -> head (gs' j) = head (gs j)).
  { intros j Hj. unfold gs', fset. destruct (Nat.eqb_spec j ng); [contradiction|]. destruct (Nat.eqb_spec j p); subst; reflexivity. }
  assert (Ep : forall j, j <> ng -> gphase (gs' j) = gphase (gs j)).
  { intros j Hj. unfold gs', fset. destruct (Nat.eqb_spec j ng); [contradiction|]. destruct (Nat.eqb_spec j p); subst; reflexivity. }
  assert (El : forall j, j <> ng -> j <> p -> linked (gs' j) = linked (gs j)).
  { intros j Hj Hjp. unfold gs', fset. destruct (Nat.eqb_spec j ng); [contradiction|]. destruct (Nat.eqb_spec j p); [contradiction|reflexivity]. }
  assert (Elp : linked (gs' p) = true).
  { unfold gs', fset. destruct (Nat.eqb_spec p ng); [lia|]. rewrite Nat.eqb_refl. reflexivity. }
  assert (Eng : gs' ng = newg kd 3) by (unfold gs'; apply fset_same).
  assert (Eo : forall e, e < nt -> tk' e = tk e).
  { intros e He. unfold tk'. rewrite !fset_other by lia. reflexivity. }
  assert (E1 : tk' nt = snd) by (unfold tk'; rewrite fset_other by lia; apply fset_same).
  assert (E2 : tk' (S nt) = tmp) by (unfold tk'; apply fset_same).
  assert (Hcase : forall e, e < nt \/ e = nt \/ e = S nt \/ S (S nt) <= e) by (intros; lia).
  assert (Hal : forall e, alive (tst (tk' e)) = true -> tgrp (tk' e) < S ng).
  { intros e Ha. destruct (Hcase e) as [He|[->|[->|He]]].
    - rewrite Eo in * by assumption. specialize (A1 _ Ha). lia.
    - rewrite E1. lia.
    - rewrite E2. lia.
    - unfold tk' in Ha. rewrite !fset_other in Ha by lia. rewrite A0 in Ha by lia. discriminate. }
  assert (Hcnt : forall k0, cnt (holdsf tk' k0) (S (S nt)) = b2n (Nat.eqb p k0) + b2n (Nat.eqb ng k0) + cnt (holdsf tk k0) nt).
  { intros k0. cbn [cnt].
    assert (Hc : cnt (holdsf tk' k0) nt = cnt (holdsf tk k0) nt).
    { apply cnt_ext. intros i Hi. unfold holdsf. rewrite Eo by assumption. reflexivity. }
    rewrite Hc. unfold holdsf at 1 2. rewrite E1, E2, Hg1, Hs1, Hg2, Hs2. cbn. rewrite !andb_true_r.
    unfold b2n. destruct (Nat.eqb p k0), (Nat.eqb ng k0); lia. }
  assert (Hnone : cnt (holdsf tk ng) nt = 0).
  { apply cnt_false. intros i Hi. unfold holdsf. destruct (alive (tst (tk i))) eqn:E; [|apply andb_false_r].
    apply A1 in E. destruct (Nat.eqb_spec (tgrp (tk i)) ng); [lia|reflexivity]. }
  gic.
  - unfold tk'. rewrite !fset_other by lia. apply A0. lia.
  - auto.
  - rewrite Hcnt. destruct (Nat.eq_dec k0 ng) as [->|Hne].
    + rewrite Eng. cbn [refs newg]. rewrite Hnone. rewrite Nat.eqb_refl.
      destruct (Nat.eqb_spec p ng); [lia|]. cbn [b2n ms_is]. rewrite Nat.eqb_refl.
      rewrite <- Hp. cbn [lk]. rewrite Elp. reflexivity.
    + assert (Hk0 : k0 < ng) by lia. rewrite Er, A2 by assumption.
      cbn [ms_is].
      assert (Hlk : lk gs' k0 = lk gs k0).
      { destruct k0 as [|q]; [reflexivity|]. cbn. apply El; lia. }
      rewrite Hlk. destruct (Nat.eqb_spec ng k0); [lia|]. destruct (Nat.eqb_spec p k0); cbn; lia.
  - destruct (Nat.eq_dec k0 ng) as [->|Hne]; [rewrite Eng in H1; discriminate|].
    rewrite Er by lia. rewrite Eh in H1 by assumption. apply (A3 k0); [lia|assumption|assumption].
  - destruct (Hcase e0) as [He|[->|[->|He]]].
    + rewrite Eo in * by assumption.
      assert (alive (tst (tk e0)) = true) by (destruct (tst (tk e0)); try discriminate; reflexivity).
      specialize (A1 _ H). rewrite Eh by lia. auto.
    + rewrite E1, Hs1 in H0. discriminate.
    + rewrite E2, Hs2 in H0. discriminate.
    + unfold tk' in H0. rewrite !fset_other in H0 by lia. rewrite A0 in H0 by lia. discriminate.
  - destruct (Nat.eq_dec k0 ng) as [->|Hne]; [rewrite Eng in H1; discriminate|].
    rewrite Er in * by lia. apply (A5 k0); [lia|assumption|assumption].
  - injection H0 as <-. reflexivity.
  - discriminate.
  - assert (k0 <> ng) by lia. rewrite Er by assumption.
    destruct (Nat.eq_dec k0 p) as [->|Hnp]; [rewrite Elp in H1; discriminate|].
    rewrite El in H1 by assumption. apply A7; [lia|assumption].
  - destruct (Nat.eq_dec k0 ng) as [->|Hne]; [rewrite Eng in H0; discriminate|].
    destruct (Nat.eq_dec k0 p) as [->|Hnp]; [lia|].
    rewrite El in H0 by assumption. specialize (A7' _ H0). lia.
  - destruct (Nat.eq_dec k0 ng) as [->|Hne]; [rewrite Eng in H1; cbn in H1; lia|].
    rewrite Er by assumption. rewrite Ep in H1 by assumption. apply A8; [lia|assumption].
  - destruct (Hcase e0) as [He|[->|[->|He]]].
    + rewrite Eo in * by assumption. destruct (A9 _ _ H0) as [q [Hq Hq0]]. exists q. split; [assumption|].
      assert (alive (tst (tk e0)) = true) by (rewrite H0; reflexivity).
      specialize (A1 _ H). rewrite Er by lia. assumption.
    + rewrite E1, Hs1 in H0. discriminate.
    + rewrite E2, Hs2 in H0. discriminate.
    + unfold tk' in H0. rewrite !fset_other in H0 by lia. rewrite A0 in H0 by lia. discriminate.
  - destruct (Nat.eq_dec k0 ng) as [->|Hne].
    + rewrite Eng in H0. cbn in H0. injection H0 as <-. contradiction.
    + rewrite Eh in H0 by assumption. destruct (A10 _ _ _ H0 H1) as [Hq Hq2].
      assert (e0 < nt).
      { destruct (le_lt_dec nt e0); [|assumption]. rewrite A0 in Hq by assumption. discriminate. }
      rewrite Eo by assumption. auto.
Qed.

(* ---- the step function preserves the invariant *)
Lemma GI_bad g b : GI g -> GI (with_bad g b). Proof. exact (fun H => H). Qed.
Lemma GI_ev g l : GI g -> GI (with_ev g l). Proof. exact (fun H => H). Qed.
Lemma GI_vdec g : GI g -> GI (do_vdec g).
Proof. unfold do_vdec. destruct (Nat.eqb (pred (vrefs g)) 0 && negb (vfreed g)); exact (fun H => H). Qed.
Lemma GI_use g e : GI g -> GI (do_use g e). Proof. exact (fun H => H). Qed.

Lemma GI_do_rel t g e rest : GI g -> alive (tst (tok g e)) = true -> tst (tok g e) <> TQueued ->
  GI (fst (do_rel t g e rest)).
Proof.
  intros H Ha Hq. unfold do_rel. cbn [fst].
  pose proof (GIc_rel _ _ _ _ _ _ e t H Ha Hq) as H1.
  destruct (is_wrapper (tst (tok g e))); exact H1.
Qed.

Lemma is_starting_spec t s : is_starting t s = true -> s = TStarting t.
Proof. destruct s; cbn; try discriminate. intros H. apply Nat.eqb_eq in H. now subst. Qed.
Lemma is_granting_spec t s : is_granting t s = true -> s = TGranting t.
Proof. destruct s; cbn; try discriminate. intros H. apply Nat.eqb_eq in H. now subst. Qed.
Lemma is_done_spec t s : is_done t s = true -> s = TDone t.
Proof. destruct s; cbn; try discriminate. intros H. apply Nat.eqb_eq in H. now subst. Qed.
Lemma owned_alive t s : owned_by t s = true -> alive s = true /\ s <> TQueued.
Proof. destruct s; cbn; try discriminate; intros; split; try reflexivity; discriminate. Qed.

Lemma GI_set_tst g e s : GI g -> alive (tst (tok g e)) = true -> alive s = true ->
  tst (tok g e) <> TQueued ->
  (gw s = true -> head (grp g (tgrp (tok g e))) = HSent) -> (forall t, s <> TDone t) ->
  GI (set_tst g e s).
Proof.
  intros H Ha Hs Hq Hgw Hd. unfold GI, set_tst. cbn.
  apply GIc_st; auto. eapply not_queued_notin; eauto.
Qed.

Lemma GIc_al gs ng tk nt ms al : GIc gs ng tk nt ms al -> GIc gs ng tk nt ms false.
Proof. intros [A0 A1 A2 A3 A4 A5 A6 A6' A7 A7' A8 A9 A10]. constructor; auto. intros; discriminate. Qed.

Lemma lk_fset_same gs k gr j : linked gr = linked (gs k) -> lk (fset gs k gr) j = lk gs j.
Proof. intros H. destruct j as [|q]; [reflexivity|]. cbn. unfold fset. destruct (Nat.eqb_spec q k); subst; auto. Qed.

(* a new reference to group k is created from an existing one (copy / join) *)
Lemma GIc_inc gs ng tk nt ms al k nk :
  GIc gs ng tk nt ms al -> k < ng -> 1 <= refs (gs k) -> alive (tst nk) = true -> tgrp nk = k ->
  (gw (tst nk) = true -> head (gs k) = HSent) -> (forall t, tst nk <> TDone t) ->
  GIc (fset gs k (set_refs (gs k) (S (refs (gs k))))) ng (fset tk nt nk) (S nt) ms al.
Proof.
  intros H Hk Hr Ha Hg Hgw Hd.
  eapply GIc_newtok with (k := k); eauto.
  - intros t E. exfalso. eapply Hd; eauto.
  - intros j. unfold fset. destruct (Nat.eqb_spec j k); subst; reflexivity.
  - intros j. unfold fset. destruct (Nat.eqb_spec j k); subst; cbn; [lia|tauto].
  - intros j Hj. rewrite lk_fset_same by reflexivity.
    unfold fset. destruct (Nat.eqb_spec j k) as [->|Hne]; cbn.
    + rewrite (a2 _ _ _ _ _ _ H) by assumption. rewrite Nat.eqb_refl. cbn. lia.
    + rewrite (a2 _ _ _ _ _ _ H) by assumption. destruct (Nat.eqb_spec k j); [congruence|cbn; lia].
  - intros j. unfold fset. destruct (Nat.eqb_spec j k); subst; auto.
  - intros j. unfold fset. destruct (Nat.eqb_spec j k); subst; auto.
  - intros j. unfold fset. destruct (Nat.eqb_spec j k); subst; auto.
Qed.

Lemma GI_work sp t g w rest : GI g -> GI (fst (do_work sp t g w rest)).
Proof.
  intros H. destruct w as [e|e nx|e|e|k|k|k tmp|]; cbn [do_work].
  - (* WLoad *)
    destruct (is_starting t (tst (tok g e))) eqn:Es; cbn [negb]; [|exact H].
    apply is_starting_spec in Es.
    destruct (head (grp g (tgrp (tok g e)))) as [|l] eqn:Eh; cbn [hptr].
    + cbn [fst]. apply (GI_set_tst (with_bad g _)); cbn; auto; try (rewrite Es; cbn; congruence); discriminate.
    + destruct l; exact H.
  - (* WCas *)
    destruct (is_starting t (tst (tok g e))) eqn:Es; cbn [negb]; [|exact H].
    apply is_starting_spec in Es.
    destruct (head (grp g (tgrp (tok g e)))) as [|l] eqn:Eh.
    + cbn [fst]. apply (GI_set_tst (with_bad g _)); cbn; auto; try (rewrite Es; cbn; congruence); discriminate.
    + destruct (nxt_eqb nx (hptr (HList l)) && negb sp); [|exact H].
      cbn [fst]. unfold GI, set_tst, upd_grp. cbn.
      eapply GIc_push; eauto.
  - (* WGrant *)
    destruct (is_granting t (tst (tok g e))) eqn:Es; cbn [negb]; [|exact H].
    apply is_granting_spec in Es. cbn [fst].
    assert (Hh : head (grp g (tgrp (tok g e))) = HSent) by (apply (a4 _ _ _ _ _ _ H); rewrite Es; reflexivity).
    assert (H1 : GI (with_ev (set_tst g e (if tauto (tok g e) then TAuto t else TLive))
                       (EGrant e (tgrp (tok g e)) (treq (tok g e)) :: elog g))).
    { apply GI_ev. apply GI_set_tst; auto; try (rewrite Es; cbn; congruence).
      - destruct (tauto (tok g e)); reflexivity.
      - intros u. destruct (tauto (tok g e)); discriminate. }
    destruct (tuse (tok g e)); [apply GI_use|]; exact H1.
  - (* WRel *)
    destruct (owned_by t (tst (tok g e))) eqn:Eo; cbn [negb]; [|exact H].
    destruct (owned_alive _ _ Eo). apply GI_do_rel; auto.
  - (* WDv *)
    destruct (Nat.eqb (gphase (grp g k)) 1 && Nat.eqb (gown (grp g k)) t) eqn:Eg; cbn [negb]; [|exact H].
    cbn [fst]. apply GI_vdec. unfold GI, upd_grp. cbn.
    apply andb_true_iff in Eg. destruct Eg as [Eg _]. apply Nat.eqb_eq in Eg.
    apply GIc_ghost; auto. cbn. intros Hlt _. apply (a8 _ _ _ _ _ _ H); [assumption|lia].
  - (* WDn *)
    destruct (Nat.eqb (gphase (grp g k)) 2 && Nat.eqb (gown (grp g k)) t) eqn:Eg; cbn [negb]; [|exact H].
    apply andb_true_iff in Eg. destruct Eg as [Eg _]. apply Nat.eqb_eq in Eg.
    destruct (linked (grp g k)) eqn:El; cbn [fst].
    + pose proof (a7' _ _ _ _ _ _ H k El) as Hk.
      assert (Hr0 : refs (grp g k) = 0) by (apply (a8 _ _ _ _ _ _ H); lia).
      unfold GI, new_tok, upd_grp. cbn.
      eapply GIc_newtok with (k := S k); try exact H; cbn; auto; try discriminate.
      * intros u _. exists k. auto.
      * intros j. unfold fset. destruct (Nat.eqb_spec j k); subst; reflexivity.
      * intros j. unfold fset. destruct (Nat.eqb_spec j k); subst; cbn; tauto.
      * intros j Hj.
        assert (Er : refs (fset (grp g) k (set_phase (set_linked (grp g k) false) 3 t) j) = refs (grp g j)).
        { unfold fset. destruct (Nat.eqb_spec j k); subst; reflexivity. }
        rewrite Er, (a2 _ _ _ _ _ _ H) by assumption.
        destruct j as [|q]; [cbn; lia|]. cbn [lk Nat.eqb]. unfold fset.
        destruct (Nat.eqb_spec q k) as [->|Hne]; cbn.
        -- rewrite El, Nat.eqb_refl. cbn. lia.
        -- destruct (Nat.eqb_spec k q); [congruence|cbn; lia].
      * intros j. unfold fset. destruct (Nat.eqb_spec j k); subst; cbn; [discriminate|auto].
      * intros j. unfold fset. destruct (Nat.eqb_spec j k); subst; cbn; auto.
      * intros j. unfold fset. destruct (Nat.eqb_spec j k); subst; cbn; auto.
    + unfold GI, upd_grp. cbn. apply GIc_ghost; auto. cbn. intros Hlt _. apply (a8 _ _ _ _ _ _ H); [assumption|lia].
  - (* WDx *)
    destruct (match tmp with None => Nat.eqb k 0 | Some e => is_done t (tst (tok g e)) && Nat.eqb (tgrp (tok g e)) k end) eqn:Eg;
      cbn [negb]; [|exact H].
    destruct (head (grp g k)) as [|l] eqn:Eh; [exact H|].
    cbn [fst]. unfold GI, upd_grp. cbn.
    assert (Hz : forall j, j < k -> refs (grp g j) = 0).
    { destruct tmp as [e|].
      - apply andb_true_iff in Eg. destruct Eg as [E1 E2]. apply is_done_spec in E1. apply Nat.eqb_eq in E2.
        destruct (a9 _ _ _ _ _ _ H _ _ E1) as [p [Hp Hp0]].
        assert (Hlt : tgrp (tok g e) < ngrp g) by (apply (a1 _ _ _ _ _ _ H); rewrite E1; reflexivity).
        intros j Hj. destruct (Nat.eq_dec j p) as [->|Hne]; [assumption|].
        apply (a5 _ _ _ _ _ _ H p); [lia|assumption|lia].
      - apply Nat.eqb_eq in Eg. intros; lia. }
    apply GIc_take with (k := k).
    + apply (f_equal head (fset_same (grp g) k (set_head (grp g k) HSent))).
    + eapply GIc_sent; eauto.
    + intros e Hin. destruct (a10 _ _ _ _ _ _ H _ _ _ Eh Hin) as [Hq Hg]. rewrite Hq. auto.
  - destruct (malive g || negb (mvheld g)); cbn [fst]; [exact H|]. apply GI_vdec. exact H.
Qed.

Lemma is_sender_spec s : is_sender s = true -> s = TSender.
Proof. destruct s; cbn; congruence. Qed.
Lemma is_live_spec s : is_live s = true -> s = TLive.
Proof. destruct s; cbn; congruence. Qed.

Lemma GI_cmd t g c : GI g -> GI (fst (do_cmd t g c)).
Proof.
  intros H. destruct c as [sp|kd|e auto usev|e|e|e|e|]; cbn [do_cmd].
  - exact H.
  - (* CReq *)
    destruct (malive g) eqn:Eal; cbn [negb]; [|exact H].
    assert (Hnew : forall ms, ms = mstate g ->
      GI (fst (let k := ngrp g in
       let newg0 := fun r : nat => {| gkind := kd; refs := r; head := HList []; linked := false; vheld := true; gphase := 0; gown := 0 |} in
       let snd_tok := {| tgrp := k; treq := nreq g; tauto := false; tuse := false; tstarted := false; tst := TSender |} in
       let gv := with_val g (S (vrefs g)) (vfreed g) in
       match ms with
       | Some p =>
           let g1 := upd_grp (upd_grp gv p (set_linked (grp g p) true)) k (newg0 3) in
           let g2 := new_tok (with_ngrp g1 (S k)) snd_tok in
           let tmp := ntok g2 in
           let g3 := new_tok g2 {| tgrp := p; treq := 0; tauto := false; tuse := false; tstarted := false; tst := TTemp t |} in
           (with_mutex g3 (Some k) kd true (S (nreq g)), [WRel tmp])
       | None =>
           let g1 := upd_grp gv k (newg0 2) in
           let g2 := new_tok (with_ngrp g1 (S k)) snd_tok in
           (with_mutex g2 (Some k) kd true (S (nreq g)), [WDx k None])
       end))).
    { intros ms Ems. destruct ms as [p|]; cbn.
      - unfold GI in *. cbn. rewrite <- Ems in H.
        apply (GIc_link _ _ _ _ _ _ kd _ _ t H); reflexivity.
      - unfold GI in *. cbn. rewrite <- Ems in H.
        assert (Hn : ngrp g = 0) by (apply (a6' _ _ _ _ _ _ H); auto).
        rewrite Hn in *. rewrite Eal in H. apply (GIc_first _ _ _ _ kd H); reflexivity. }
    destruct kd.
    + destruct (mprev g).
      * destruct (mstate g) as [k|] eqn:Ems; [|apply (Hnew None); reflexivity].
        cbn [fst]. unfold GI, new_tok, upd_grp. cbn.
        pose proof (a6 _ _ _ _ _ _ H k Ems) as Hk.
        assert (H' : GIc (grp g) (ngrp g) (tok g) (ntok g) (Some k) true).
        { unfold GI in H. rewrite Ems, Eal in H. exact H. }
        apply GIc_inc; auto; try discriminate; [lia|].
        rewrite (a2 _ _ _ _ _ _ H') by lia. cbn. rewrite Nat.eqb_refl. cbn. lia.
      * apply (Hnew (mstate g)); reflexivity.
    + destruct (mprev g); apply (Hnew (mstate g)); reflexivity.
  - (* CStart *)
    destruct (Nat.ltb e (ntok g) && is_sender (tst (tok g e))) eqn:Eg; [|exact H].
    apply andb_true_iff in Eg. destruct Eg as [_ Es]. apply is_sender_spec in Es.
    cbn [fst]. unfold GI. cbn. apply GIc_st; auto; try (rewrite Es; reflexivity); try discriminate.
    eapply not_queued_notin; eauto. rewrite Es. discriminate.
  - (* CDropOp *)
    destruct (Nat.ltb e (ntok g) && is_sender (tst (tok g e))) eqn:Eg; [|exact H].
    apply andb_true_iff in Eg. destruct Eg as [_ Es]. apply is_sender_spec in Es.
    cbn [fst]. apply GI_set_tst; auto; try (rewrite Es; cbn; congruence); discriminate.
  - (* CCopy *)
    destruct (Nat.ltb e (ntok g) && kind_eqb (gkind (grp g (tgrp (tok g e)))) KR &&
              (is_sender (tst (tok g e)) || is_live (tst (tok g e)))) eqn:Eg; [|exact H].
    apply andb_true_iff in Eg. destruct Eg as [_ Es].
    assert (Ha : alive (tst (tok g e)) = true).
    { apply orb_true_iff in Es. destruct Es as [Es|Es]; [apply is_sender_spec in Es|apply is_live_spec in Es]; rewrite Es; reflexivity. }
    cbn [fst]. unfold GI, new_tok, upd_grp. cbn.
    apply GIc_inc; auto.
    + apply (a1 _ _ _ _ _ _ H). assumption.
    + eapply alive_refs; eauto.
    + cbn. intros Hgw. apply (a4 _ _ _ _ _ _ H). assumption.
    + cbn. intros u Hu. apply orb_true_iff in Es. rewrite Hu in Es. destruct Es; discriminate.
  - (* CRelease *)
    destruct (Nat.ltb e (ntok g) && is_live (tst (tok g e))) eqn:Eg; [|exact H].
    apply andb_true_iff in Eg. destruct Eg as [_ Es]. apply is_live_spec in Es.
    apply GI_do_rel; auto; rewrite Es; [reflexivity|discriminate].
  - (* CUse *)
    destruct (Nat.ltb e (ntok g) && is_live (tst (tok g e))); [|exact H]. exact H.
  - (* CDestroy *)
    destruct (malive g) eqn:Eal; cbn [negb]; [|exact H].
    destruct (mstate g) as [k|] eqn:Ems; cbn [fst].
    + unfold GI, new_tok. cbn.
      pose proof (a6 _ _ _ _ _ _ H k Ems) as Hk.
      eapply GIc_newtok with (k := k) (gs := grp g); try exact H; cbn; auto; try discriminate; try lia; try tauto.
      * intros j Hj. rewrite (a2 _ _ _ _ _ _ H) by assumption. rewrite Ems. cbn.
        rewrite (Nat.eqb_sym k j). lia.
    + unfold GI. cbn. unfold GI in H. rewrite Ems in H. eapply GIc_al; eauto.
Qed.

Lemma GI_step c t g l : GI g -> GI (fst (rw_tstep c t g l)).
Proof. intros H. destruct l as [|w rest]; [apply GI_cmd|apply GI_work]; exact H. Qed.

Theorem GI_run sched : GI (fst (rw_run sched)).
Proof. unfold rw_run. apply run_ginv; [intros; apply GI_step; assumption|exact GI_init]. Qed.

(* ---- consequences *)
Lemma wrapper_gw s : is_wrapper s = true -> gw s = true.
Proof. destruct s; cbn; congruence. Qed.
Lemma gw_alive s : gw s = true -> alive s = true.
Proof. destruct s; cbn; congruence. Qed.

Lemma GI_order g e e' : GI g -> gw (tst (tok g e)) = true -> alive (tst (tok g e')) = true ->
  tgrp (tok g e) <= tgrp (tok g e').
Proof.
  intros H Hg Ha. destruct (le_lt_dec (tgrp (tok g e)) (tgrp (tok g e'))) as [|Hlt]; [assumption|exfalso].
  pose proof (a4 _ _ _ _ _ _ H e Hg) as Hs.
  pose proof (a1 _ _ _ _ _ _ H e (gw_alive _ Hg)) as Hk.
  pose proof (a3 _ _ _ _ _ _ H _ _ Hk Hs Hlt) as H0.
  pose proof (alive_refs _ _ _ _ _ _ e' H Ha). lia.
Qed.

Lemma rw_exclusive sched e1 e2 : let g := fst (rw_run sched) in
  is_wrapper (tst (tok g e1)) = true -> is_wrapper (tst (tok g e2)) = true ->
  tgrp (tok g e1) = tgrp (tok g e2).
Proof.
  intros g H1 H2. pose proof (GI_run sched) as H. fold g in H.
  pose proof (GI_order g e1 e2 H (wrapper_gw _ H1) (gw_alive _ (wrapper_gw _ H2))).
  pose proof (GI_order g e2 e1 H (wrapper_gw _ H2) (gw_alive _ (wrapper_gw _ H1))). lia.
Qed.

Lemma rw_order_state sched e e' : let g := fst (rw_run sched) in
  gw (tst (tok g e)) = true -> alive (tst (tok g e')) = true ->
  tgrp (tok g e) <= tgrp (tok g e') /\ forall j, j < tgrp (tok g e) -> refs (grp g j) = 0.
Proof.
  intros g Hg Ha. pose proof (GI_run sched) as H. fold g in H. split; [apply GI_order; assumption|].
  intros j Hj. apply (a3 _ _ _ _ _ _ H (tgrp (tok g e))); auto.
  - apply (a1 _ _ _ _ _ _ H). apply gw_alive. assumption.
  - apply (a4 _ _ _ _ _ _ H). assumption.
Qed.

Lemma rw_refcount sched k : let g := fst (rw_run sched) in k < ngrp g ->
  refs (grp g k) = cnt (holdsf (tok g) k) (ntok g) + b2n (ms_is (mstate g) k) + b2n (lk (grp g) k).
Proof. intros g Hk. apply (a2 _ _ _ _ _ _ (GI_run sched)). assumption. Qed.

Lemma rw_group_outlives sched e : let g := fst (rw_run sched) in
  alive (tst (tok g e)) = true ->
  1 <= refs (grp g (tgrp (tok g e))) /\ gphase (grp g (tgrp (tok g e))) = 0.
Proof.
  intros g Ha. pose proof (GI_run sched) as H. fold g in H.
  pose proof (alive_refs _ _ _ _ _ _ e H Ha) as Hr. split; [assumption|].
  destruct (gphase (grp g (tgrp (tok g e)))) eqn:E; [reflexivity|].
  assert (refs (grp g (tgrp (tok g e))) = 0); [|lia].
  apply (a8 _ _ _ _ _ _ H); [apply (a1 _ _ _ _ _ _ H); assumption|lia].
Qed.

Lemma rw_queue_wf sched k l e : let g := fst (rw_run sched) in
  head (grp g k) = HList l -> In e l -> tst (tok g e) = TQueued /\ tgrp (tok g e) = k.
Proof. intros g. apply (a10 _ _ _ _ _ _ (GI_run sched)). Qed.
