(* Proofs/AffinityMaskProofs.v — C15: the OS-index -> logical-index conversion of the process mask
   (topology::set_cpubind_mask_main_thread = Model.Affinity.set_process_mask) for ARBITRARY injective
   OS numberings of the PUs, and the start-up theorem restated on the mask the user gave.
   [osidx] is the list of the OS indices of the logical PUs 0,1,2,...; "numbering" hypotheses are
   [length osidx = total_pus t] (one OS index per PU) and [NoDup osidx] (two PUs never share one). *)
From Coq Require Import List Arith Bool Lia Permutation.
From Pika Require Import Model.Affinity Proofs.AffinityProofs Proofs.AffinityStartupProofs.
Import ListNotations.

(* the PU with logical index j has OS index o *)
Definition os_of (osidx : list nat) (j o : nat) : Prop := nth_error osidx j = Some o.

Definition converted (t : topology) (osidx phys : list nat) : nat -> bool :=
  fun i => (i <? total_pus t) && mem (nth i osidx i) phys.

Lemma existsb_false_all {A} (f : A -> bool) (l : list A) :
  existsb f l = false -> forall x, In x l -> f x = false.
Proof.
  intros H x Hx. destruct (f x) eqn:E; [|reflexivity].
  assert (existsb f l = true) by (apply existsb_exists; eauto). congruence.
Qed.

(* ---- acceptance / rejection, exactly the three outcomes of the code ---- *)
Lemma spm_past t osidx phys :
  (exists b, In b phys /\ total_pus t <= b) -> set_process_mask t osidx phys = Err EMaskPastHw.
Proof.
  intros (b & Hb & Hle). unfold set_process_mask.
  assert (E : existsb (fun b => total_pus t <=? b) phys = true).
  { apply existsb_exists. exists b. split; [assumption|]. apply Nat.leb_le. assumption. }
  rewrite E. reflexivity.
Qed.

Lemma spm_inside t phys :
  (forall b, In b phys -> b < total_pus t) -> existsb (fun b => total_pus t <=? b) phys = false.
Proof.
  intros H. apply existsb_all_false. intros b Hb. apply Nat.leb_gt. apply H. assumption.
Qed.

Lemma spm_empty t osidx : set_process_mask t osidx [] = Err EMaskEmpty.
Proof. reflexivity. Qed.

Lemma spm_ok t osidx phys :
  (forall b, In b phys -> b < total_pus t) -> phys <> [] ->
  set_process_mask t osidx phys = Ok (converted t osidx phys).
Proof.
  intros H Hne. unfold set_process_mask. rewrite (spm_inside t phys H).
  destruct phys; [congruence|reflexivity].
Qed.

Lemma spm_inv t osidx phys pm :
  set_process_mask t osidx phys = Ok pm ->
  (forall b, In b phys -> b < total_pus t) /\ phys <> [] /\ pm = converted t osidx phys.
Proof.
  unfold set_process_mask. destruct (existsb _ phys) eqn:E; [discriminate|].
  intros H. split; [|split].
  - intros b Hb. apply Nat.leb_gt. exact (existsb_false_all _ _ E b Hb).
  - destruct phys; [discriminate|discriminate].
  - destruct phys; [discriminate|]. inversion H. reflexivity.
Qed.

Lemma spm_err_inv t osidx phys e :
  set_process_mask t osidx phys = Err e ->
  (e = EMaskPastHw /\ exists b, In b phys /\ total_pus t <= b) \/ (e = EMaskEmpty /\ phys = []).
Proof.
  unfold set_process_mask. destruct (existsb _ phys) eqn:E.
  - intros H. inversion H. left. split; [reflexivity|].
    apply existsb_exists in E. destruct E as (b & Hb & Hle). exists b. split; [assumption|].
    apply Nat.leb_le. assumption.
  - destruct phys; intros H; inversion H. right. split; reflexivity.
Qed.

(* ---- the converted mask, bit by bit ---- *)
Lemma converted_spec t osidx phys j :
  length osidx = total_pus t ->
  (converted t osidx phys j = true <-> exists o, os_of osidx j o /\ In o phys).
Proof.
  intros Hlen. unfold converted, os_of. rewrite andb_true_iff, Nat.ltb_lt, mem_In. split.
  - intros (Hj & Hin). exists (nth j osidx j). split; [|assumption].
    apply nth_error_nth'. lia.
  - intros (o & Ho & Hin).
    assert (Hj : j < length osidx) by (apply nth_error_Some; congruence).
    split; [lia|]. rewrite (nth_error_nth osidx j j Ho). assumption.
Qed.

Lemma mask_bits_in t pm j : In j (mask_bits t pm) <-> j < total_pus t /\ pm j = true.
Proof. unfold mask_bits. rewrite filter_In, in_seq. intuition lia. Qed.

Lemma mask_bits_nodup t pm : NoDup (mask_bits t pm).
Proof. apply NoDup_filter. apply seq_NoDup. Qed.

Lemma count_mask_bits t pm : count_mask t pm = length (mask_bits t pm).
Proof. reflexivity. Qed.

Lemma nodup_map_on {A B} (f : A -> B) (l : list A) :
  NoDup l -> (forall x y, In x l -> In y l -> f x = f y -> x = y) -> NoDup (map f l).
Proof.
  induction 1 as [|a l Ha Hl IH]; intros Hinj; cbn [map]; constructor.
  - intros Hin. apply in_map_iff in Hin. destruct Hin as (y & Hy & Hyl).
    assert (y = a) by (apply Hinj; [right; assumption|left; reflexivity|assumption]).
    subst y. contradiction.
  - apply IH. intros x y Hx Hy. apply Hinj; right; assumption.
Qed.

Definition names_pu (osidx : list nat) (b : nat) : bool := mem b osidx.

(* the OS indices of the PUs in the logical mask are, each exactly once, the bits of the user's mask
   that name a PU: the conversion neither invents nor merges nor (among PU-naming bits) loses a bit *)
Lemma converted_perm t osidx phys :
  length osidx = total_pus t -> NoDup osidx ->
  Permutation (map (fun j => nth j osidx 0) (mask_bits t (converted t osidx phys)))
              (filter (names_pu osidx) (nodup Nat.eq_dec phys)).
Proof.
  intros Hlen Hnd. apply NoDup_Permutation.
  - apply nodup_map_on; [apply mask_bits_nodup|].
    intros x y Hx Hy Heq. apply mask_bits_in in Hx. apply mask_bits_in in Hy.
    apply (proj1 (NoDup_nth osidx 0) Hnd); lia.
  - apply NoDup_filter. apply NoDup_nodup.
  - intros o. rewrite in_map_iff, filter_In, nodup_In. unfold names_pu. rewrite mem_In. split.
    + intros (j & Ho & Hj). apply mask_bits_in in Hj. destruct Hj as (Hlt & Hc).
      apply (converted_spec t osidx phys j Hlen) in Hc. destruct Hc as (o' & Ho' & Hin).
      unfold os_of in Ho'. rewrite (nth_error_nth osidx j 0 Ho') in Ho. subst o'.
      split; [assumption|]. eapply nth_error_In. eassumption.
    + intros (Hin & Hos). destruct (In_nth osidx o 0 Hos) as (j & Hj & Hnth).
      exists j. split; [assumption|]. apply mask_bits_in. split; [lia|].
      apply (converted_spec t osidx phys j Hlen). exists o. split; [|assumption].
      unfold os_of. rewrite <- Hnth. apply nth_error_nth'. assumption.
Qed.

Lemma converted_count t osidx phys :
  length osidx = total_pus t -> NoDup osidx ->
  count_mask t (converted t osidx phys) = length (filter (names_pu osidx) (nodup Nat.eq_dec phys)).
Proof.
  intros Hlen Hnd. rewrite count_mask_bits.
  rewrite <- (Permutation_length (converted_perm t osidx phys Hlen Hnd)). rewrite map_length. reflexivity.
Qed.

Lemma filter_id {A} (f : A -> bool) (l : list A) : (forall x, In x l -> f x = true) -> filter f l = l.
Proof.
  induction l as [|a l IH]; intros H; cbn [filter]; [reflexivity|].
  rewrite (H a (or_introl eq_refl)). f_equal. apply IH. intros x Hx. apply H. right. assumption.
Qed.

(* ---- the main statement ---- *)
Theorem process_mask_conversion : forall t osidx phys,
  length osidx = total_pus t -> NoDup osidx ->
  ((exists b, In b phys /\ total_pus t <= b) -> set_process_mask t osidx phys = Err EMaskPastHw) /\
  ((forall b, In b phys -> b < total_pus t) -> phys = [] -> set_process_mask t osidx phys = Err EMaskEmpty) /\
  ((forall b, In b phys -> b < total_pus t) -> phys <> [] ->
     exists pm, set_process_mask t osidx phys = Ok pm /\
       process_mask_bits t osidx phys = Ok (mask_bits t pm) /\
       (forall j, pm j = true <-> exists o, os_of osidx j o /\ In o phys) /\
       (forall j, In j (mask_bits t pm) <-> exists o, os_of osidx j o /\ In o phys) /\
       Permutation (map (fun j => nth j osidx 0) (mask_bits t pm))
                   (filter (names_pu osidx) (nodup Nat.eq_dec phys)) /\
       count_mask t pm = length (filter (names_pu osidx) (nodup Nat.eq_dec phys))).
Proof.
  intros t osidx phys Hlen Hnd. split; [|split].
  - apply spm_past.
  - intros _ ->. apply spm_empty.
  - intros Hin Hne. exists (converted t osidx phys).
    pose proof (spm_ok t osidx phys Hin Hne) as Hok.
    split; [assumption|]. split; [unfold process_mask_bits; rewrite Hok; reflexivity|].
    split; [intros j; apply converted_spec; assumption|].
    split; [|split; [apply converted_perm; assumption|apply converted_count; assumption]].
    intros j. rewrite mask_bits_in. rewrite (converted_spec t osidx phys j Hlen). split.
    + intros (_ & H). assumption.
    + intros H. split; [|assumption]. destruct H as (o & Ho & _). unfold os_of in Ho.
      rewrite <- Hlen. apply nth_error_Some. congruence.
Qed.

(* accepted <=> non-empty and no bit at or past the NUMBER of PUs (nothing else is looked at) *)
Theorem process_mask_accepted_iff : forall t osidx phys,
  (exists pm, set_process_mask t osidx phys = Ok pm) <->
  (phys <> [] /\ forall b, In b phys -> b < total_pus t).
Proof.
  intros t osidx phys. split.
  - intros (pm & H). apply spm_inv in H. tauto.
  - intros (Hne & Hin). eexists. apply spm_ok; assumption.
Qed.

(* dense numbering (OS indices = 0..#PUs-1 in any order — every bit below #PUs names a PU):
   no bit of an accepted mask is lost *)
Theorem process_mask_dense_complete : forall t osidx phys pm,
  length osidx = total_pus t -> NoDup osidx ->
  (forall b, b < total_pus t -> In b osidx) ->
  set_process_mask t osidx phys = Ok pm ->
  Permutation (map (fun j => nth j osidx 0) (mask_bits t pm)) (nodup Nat.eq_dec phys) /\
  count_mask t pm = length (nodup Nat.eq_dec phys) /\ 0 < count_mask t pm.
Proof.
  intros t osidx phys pm Hlen Hnd Hdense H. apply spm_inv in H. destruct H as (Hin & Hne & ->).
  assert (E : filter (names_pu osidx) (nodup Nat.eq_dec phys) = nodup Nat.eq_dec phys).
  { apply filter_id. intros x Hx. apply nodup_In in Hx. unfold names_pu. apply mem_In.
    apply Hdense. apply Hin. assumption. }
  pose proof (converted_perm t osidx phys Hlen Hnd) as P. pose proof (converted_count t osidx phys Hlen Hnd) as C.
  rewrite E in P, C. split; [assumption|]. split; [assumption|]. rewrite C.
  destruct phys as [|b r]; [congruence|].
  assert (Hb : In b (nodup Nat.eq_dec (b :: r))) by (apply nodup_In; left; reflexivity).
  destruct (nodup Nat.eq_dec (b :: r)); [contradiction|cbn [length]; lia].
Qed.

(* sparse numbering: a PU whose OS index is >= the number of PUs can never be selected, and the mask
   that names exactly the PUs of the machine is rejected as "past the hardware" (reproduced on the
   real code: HWLOC_SYNTHETIC "package:1 core:2 pu:2(indexes=0,4,2,6)" --pika:process-mask=0x55) *)
Theorem process_mask_sparse_unselectable : forall t osidx phys pm j o,
  length osidx = total_pus t ->
  os_of osidx j o -> total_pus t <= o ->
  set_process_mask t osidx phys = Ok pm -> pm j = false.
Proof.
  intros t osidx phys pm j o Hlen Ho Hle H. apply spm_inv in H. destruct H as (Hin & _ & ->).
  destruct (converted t osidx phys j) eqn:E; [|reflexivity].
  apply (converted_spec t osidx phys j Hlen) in E. destruct E as (o' & Ho' & Hino).
  unfold os_of in *. assert (o' = o) by congruence. subst o'. apply Hin in Hino. lia.
Qed.

Theorem process_mask_sparse_machine_mask_rejected : forall t osidx j o,
  os_of osidx j o -> total_pus t <= o ->
  set_process_mask t osidx osidx = Err EMaskPastHw.
Proof.
  intros t osidx j o Ho Hle. apply spm_past. exists o. split; [|assumption].
  eapply nth_error_In. eassumption.
Qed.

(* ---- start-up, restated on the user's OS mask ---- *)
Lemma startup_os_inv t osidx phys b use n mc specs s :
  startup_os t osidx phys b use n mc specs = Ok s ->
  (forall x, In x phys -> x < total_pus t) /\ phys <> [] /\
  startup t b use (converted t osidx phys) n mc specs = Ok s.
Proof.
  unfold startup_os. destruct (set_process_mask t osidx phys) as [pm|e] eqn:E; [|discriminate].
  apply spm_inv in E. destruct E as (Hin & Hne & ->). intros H. tauto.
Qed.

Theorem startup_sound_os_mask : forall t osidx phys m use n mc specs s,
  length osidx = total_pus t -> NoDup osidx ->
  (m = Compact -> use = true \/ (n <= mc /\ wf_topo t)) ->
  startup_os t osidx phys (BindMode m) use n mc specs = Ok s ->
  (phys <> [] /\ forall b, In b phys -> b < total_pus t) /\
  length (st_workers s) = n /\
  (forall i w, nth_error (st_workers s) i = Some w ->
     w_mask w = [w_pu w] /\
     (exists o, os_of osidx (w_pu w) o /\ (use = true -> In o phys)) /\
     exists j pool, owners (st_pools s) 0 0 i = [j] /\ nth_error (st_pools s) j = Some pool /\ In (w_pu w) pool) /\
  (forall i j wi wj oi oj, nth_error (st_workers s) i = Some wi -> nth_error (st_workers s) j = Some wj ->
     i <> j -> os_of osidx (w_pu wi) oi -> os_of osidx (w_pu wj) oj -> w_pu wi <> w_pu wj /\ oi <> oj) /\
  map w_pu (st_workers s) = concat (st_pools s) /\
  Permutation (map w_pu (st_workers s)) (concat (ad_masks (st_ad s))).
Proof.
  intros t osidx phys m use n mc specs s Hlen Hnd Hc H.
  apply startup_os_inv in H. destruct H as (Hin & Hne & H).
  destruct (startup_sound t m use _ n mc specs s Hc H) as (Hn & Hw & Hd & Hp & Hperm).
  split; [split; assumption|]. split; [assumption|]. split; [|split; [|split; assumption]].
  - intros i w Hiw. destruct (Hw i w Hiw) as (Hm & Hlt & Hpm & Hown).
    split; [assumption|]. split; [|assumption].
    exists (nth (w_pu w) osidx 0). split; [unfold os_of; apply nth_error_nth'; lia|].
    intros Hu. specialize (Hpm Hu). apply (converted_spec t osidx phys _ Hlen) in Hpm.
    destruct Hpm as (o & Ho & Hino). unfold os_of in Ho. rewrite (nth_error_nth osidx _ 0 Ho). assumption.
  - intros i j wi wj oi oj Hi Hj Hij Hoi Hoj.
    pose proof (Hd i j wi wj Hi Hj Hij) as Hne'. split; [assumption|].
    intros ->. apply Hne'. unfold os_of in *.
    assert (Li : w_pu wi < length osidx) by (apply nth_error_Some; congruence).
    assert (Lj : w_pu wj < length osidx) by (apply nth_error_Some; congruence).
    apply (proj1 (NoDup_nth osidx 0) Hnd); [assumption|assumption|].
    rewrite (nth_error_nth osidx _ 0 Hoi), (nth_error_nth osidx _ 0 Hoj). reflexivity.
Qed.

(* oversubscription in terms of the user's mask: more threads than distinct bits that name a PU *)
Theorem oversubscription_rejected_os_mask : forall t osidx phys m n mc specs,
  length osidx = total_pus t -> NoDup osidx ->
  length (filter (names_pu osidx) (nodup Nat.eq_dec phys)) < n ->
  exists e, startup_os t osidx phys (BindMode m) true n mc specs = Err e /\
            (e = EMaskPastHw \/ e = EMaskEmpty \/ e = EOversubMask).
Proof.
  intros t osidx phys m n mc specs Hlen Hnd Hlt. unfold startup_os.
  destruct (set_process_mask t osidx phys) as [pm|e] eqn:E.
  - apply spm_inv in E. destruct E as (_ & _ & ->).
    rewrite <- (converted_count t osidx phys Hlen Hnd) in Hlt.
    exists EOversubMask. split; [|tauto].
    unfold startup, affinity_init, decode, check_num_threads.
    apply Nat.ltb_lt in Hlt. rewrite Hlt. reflexivity.
  - exists e. split; [reflexivity|]. apply spm_err_inv in E. destruct E as [(-> & _)|(-> & _)]; tauto.
Qed.
