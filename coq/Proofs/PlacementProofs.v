(* Proofs/PlacementProofs.v — invariants of Model/Placement.v over arbitrary schedules. *)
From Coq Require Import List Arith Lia Bool ZArith.
From Pika Require Import Base.Conc Model.Placement.
Import ListNotations.

Ltac destr :=
  match goal with
  | |- context[match ?x with _ => _ end] => destruct x eqn:?
  | |- context[if ?x then _ else _] => destruct x eqn:?
  end.
Ltac inv H := inversion H; subst; clear H.

(* ------------------------------------------------------------------ list helpers *)
Lemma list_upd_length {A} (l : list A) i f : length (list_upd l i f) = length l.
Proof. revert i; induction l; intros [|i]; cbn; auto. Qed.

Lemma list_upd_nth {A} (l : list A) i f j :
  nth_error (list_upd l i f) j = if Nat.eqb i j then option_map f (nth_error l j) else nth_error l j.
Proof.
  revert i j; induction l as [|x r IH]; intros [|i] [|j]; cbn; auto;
    destruct (Nat.eqb _ _); reflexivity.
Qed.

Lemma remove_nth_In {A} (l : list A) i x : In x (remove_nth l i) -> In x l.
Proof. revert i; induction l; intros [|i]; cbn; auto. intros [H|H]; eauto. Qed.

Lemma qid_eqb_eq a b : qid_eqb a b = true <-> a = b.
Proof.
  split.
  - destruct a, b; cbn; intros H; try discriminate;
      rewrite ?andb_true_iff, ?Nat.eqb_eq in H; try destruct H; subst; reflexivity.
  - intros <-. destruct a; cbn; now rewrite ?Nat.eqb_refl.
Qed.
Lemma qid_eqb_refl a : qid_eqb a a = true.
Proof. now apply qid_eqb_eq. Qed.

(* ------------------------------------------------------------------ the hint arithmetic *)
Lemma two64_pos : (0 < two64)%Z. Proof. reflexivity. Qed.

Lemma base_queue_lt W r h : 0 < W -> fst (base_queue W r h) < W.
Proof.
  intros HW. unfold base_queue. destruct (hint_num h); cbn [fst].
  - assert (0 <= z mod Z.of_nat W < Z.of_nat W)%Z by (apply Z.mod_pos_bound; lia). lia.
  - apply Nat.mod_upper_bound. lia.
Qed.

Lemma hint_num_worker w : (Z.of_nat w <= 32767)%Z -> hint_num (worker_hint w) = Some (Z.of_nat w).
Proof.
  intros H. unfold worker_hint, hint_num.
  assert (Hm : (Z.of_nat w mod two64 = Z.of_nat w)%Z).
  { apply Z.mod_small. unfold two64. lia. }
  rewrite Hm. destruct (Z.eqb_spec (Z.of_nat w) (two64 - 1)); [unfold two64 in *; lia|reflexivity].
Qed.

Lemma base_queue_worker W r w : w < W -> (Z.of_nat W <= 32767)%Z -> base_queue W r (worker_hint w) = (w, r).
Proof.
  intros H1 H2. unfold base_queue. rewrite hint_num_worker by lia.
  rewrite Z.mod_small by lia. now rewrite Nat2Z.id.
Qed.

(* ------------------------------------------------------------------ theorem 1: only worker pops enter *)
Definition is_enter (e : event) : bool := match e with EEnter _ _ _ _ _ => true | _ => false end.
Definition enters (l : list event) : list event := filter is_enter l.

Section P.
  Variable cfg : nat -> pool_cfg.

  Lemma enters_begin t g p a k h fb :
    enters (glog (fst (begin_enqueue cfg t g p a k h fb))) = enters (glog g).
  Proof. unfold begin_enqueue. repeat destr; reflexivity. Qed.

  Lemma enters_spawn t g p pr h : enters (glog (fst (spawn cfg t g p pr h))) = enters (glog g).
  Proof. unfold spawn. rewrite enters_begin. reflexivity. Qed.

  Lemma enters_resume t g b h : enters (glog (fst (resume cfg t g b h))) = enters (glog g).
  Proof.
    unfold resume. repeat destr; try reflexivity.
    - now rewrite enters_spawn.
    - now rewrite enters_begin.
  Qed.

  Lemma enters_resume_read t g b : enters (glog (fst (resume_read t g b))) = enters (glog g).
  Proof. unfold resume_read. repeat destr; reflexivity. Qed.

  Lemma enters_sel t g p a k n0 off fb :
    enters (glog (fst (sel_step cfg t g p a k n0 off fb))) = enters (glog g).
  Proof. unfold sel_step. repeat destr; reflexivity. Qed.

  Lemma enters_hold t g p a k n0 n lk : enters (glog (hold_step cfg t g p a k n0 n lk)) = enters (glog g).
  Proof. unfold hold_step. repeat destr; reflexivity. Qed.

  Lemma enters_act_task t g l p w a x :
    enters (glog (fst (act_task cfg t g l p w a x))) = enters (glog g).
  Proof.
    unfold act_task. destruct x.
    - reflexivity.
    - pose proof (enters_spawn t g p0 pr h). destruct (spawn _ _ _ _ _ _); exact H.
    - pose proof (enters_begin t (upd_task g a (t_set TPending)) p a KN (worker_hint w) true).
      destruct (begin_enqueue _ _ _ _ _ _ _ _); exact H.
    - destruct direct; [reflexivity|].
      pose proof (enters_begin t (upd_task g a (t_set TPending)) p a (qkind_of (cfg p) PBoost) (worker_hint w) true).
      destruct (begin_enqueue _ _ _ _ _ _ _ _); exact H.
    - reflexivity.
    - reflexivity.
    - pose proof (enters_resume_read t g b). destruct (resume_read _ _ _); exact H.
    - destruct (get_task g b); [|reflexivity]. destruct (Nat.eqb _ _).
      + pose proof (enters_begin t (log_ev (upd_task g a (t_set TPending)) (EYieldTo b t)) p a KN (worker_hint w) true).
        destruct (begin_enqueue _ _ _ _ _ _ _ _); exact H.
      + pose proof (enters_begin t (log_ev g (EYieldTo b t)) (tk_pool t0) b KN HNone false).
        destruct (begin_enqueue _ _ _ _ _ _ _ _); exact H.
  Qed.

  Lemma enters_act_ext t g l x : enters (glog (fst (act_ext cfg t g l x))) = enters (glog g).
  Proof.
    unfold act_ext. destruct x; try reflexivity.
    - pose proof (enters_spawn t g p pr h). destruct (spawn _ _ _ _ _ _); exact H.
    - pose proof (enters_resume_read t g b). destruct (resume_read _ _ _); exact H.
  Qed.

  Lemma enters_try_enter t g l p w b :
    enters (glog (fst (try_enter cfg t g l p w b))) = enters (glog g) \/
    exists tk, get_task g b = Some tk /\ tk_st tk = TPending /\
      glog (fst (try_enter cfg t g l p w b)) = EEnter b (S (tk_phase tk)) p w t :: glog g.
  Proof.
    unfold try_enter. destruct (get_task g b) as [tk|] eqn:E; [|now left].
    destruct (tk_st tk) eqn:Es; try (now left).
    - right. exists tk. auto.
    - left. pose proof (enters_begin t g p b (qkind_of (cfg p) (tk_prio tk)) (worker_hint w) true).
      destruct (begin_enqueue _ _ _ _ _ _ _ _); exact H.
  Qed.

  (* A step either leaves the enter events alone, or it is the step of an idle worker (p,w)
     (no task running on it, not inside any submission) that starts a task which already
     existed, and was pending, before the step. *)
  Lemma step_enter_cases o t g l :
    let g' := fst (pl_tstep cfg o t g l) in
    enters (glog g') = enters (glog g) \/
    exists p w b tk, lrole l = RWorker p w /\ pc l = Idle /\ cur l = None /\
      get_task g b = Some tk /\ tk_st tk = TPending /\
      glog g' = EEnter b (S (tk_phase tk)) p w t :: glog g.
  Proof.
    cbn zeta. unfold pl_tstep. destruct (pc l) eqn:Epc.
    - destruct (lrole l) eqn:Er.
      + left. destruct o; [reflexivity|apply enters_act_ext].
      + destruct (cur l) eqn:Ec.
        * left. destruct o; [reflexivity|]. destruct (is_do_yield a); [reflexivity|apply enters_act_task].
        * destruct (nxt l) eqn:En.
          -- destruct (enters_try_enter t g (mk_local (RWorker p w) Idle None None) p w n) as [H|(tk & H1 & H2 & H3)];
               [now left|right]. exists p, w, n, tk. repeat split; auto.
          -- destruct o; [|now left]. destruct (pop_queue _ _ _ _); [|now left].
             destruct (nth_error _ _) eqn:En2; [|now left].
             destruct (enters_try_enter t (set_queue g q (remove_nth (queues g q) idx)) l p w n)
               as [H|(tk & H1 & H2 & H3)]; [now left|right]. exists p, w, n, tk. repeat split; auto.
    - left. pose proof (enters_sel t g p a k n0 off fb). destruct (sel_step _ _ _ _ _ _ _ _); exact H.
    - left. apply enters_hold.
    - left. destruct (lrole l); [reflexivity|]. destruct (cur l); reflexivity.
    - left. destruct (lrole l); [reflexivity|]. destruct (cur l); [apply enters_act_task|reflexivity].
    - left. pose proof (enters_resume t g b h). destruct (resume _ _ _ _ _); exact H.
  Qed.
End P.

(* ------------------------------------------------------------------ the invariant *)
Section Inv.
  Variable cfg : nat -> pool_cfg.
  Variable roles : nat -> role.

  Definition tk_is (g : gstate) (a p : nat) := exists tk, get_task g a = Some tk /\ tk_pool tk = p.
  Definition same_static (tk tk' : task) :=
    tk_pool tk' = tk_pool tk /\ tk_home tk' = tk_home tk /\ tk_prio tk' = tk_prio tk.
  (* the hypothesis of static_hint_pinned on the pool: a static policy (no stealing), elasticity
     off, as many high-priority queues as workers (or no priority queues at all) *)
  Definition static_ok (c : pool_cfg) :=
    pSteal c = false /\ pElastic c = false /\ (pPrio c = false \/ pH c = pW c) /\ 0 < pW c /\
    (Z.of_nat (pW c) <= 32767)%Z.
  (* the events that void the guarantee for task a: a is named in this_thread::yield_to *)
  Definition guard_ev (a : nat) (e : event) : Prop :=
    match e with EYieldTo b _ => b = a | _ => False end.
  Definition no_yieldto (g : gstate) (a : nat) := forall e, guard_ev a e -> ~ In e (glog g).
  Definition pinned (g : gstate) (a : nat) (tk : task) :=
    get_task g a = Some tk /\ static_ok (cfg (tk_pool tk)) /\
    (pPrio (cfg (tk_pool tk)) = false \/ tk_prio tk <> PLow) /\ no_yieldto g a.
  Definition home_q (tk : task) (q : qid) :=
    q = QN (tk_pool tk) (tk_home tk) \/ q = QH (tk_pool tk) (tk_home tk).

  Record GI (g : gstate) : Prop := {
    gi_q : forall q b, In b (queues g q) -> tk_is g b (qpool q);
    gi_enter : forall a ph p w t, In (EEnter a ph p w t) (glog g) -> roles t = RWorker p w /\ tk_is g a p;
    gi_call : forall lbl a t, In (ECall lbl (CTask a) t) (glog g) ->
              exists p w ph, roles t = RWorker p w /\ In (EEnter a ph p w t) (glog g);
    gi_callx : forall lbl t, In (ECall lbl CExt t) (glog g) -> roles t = RExt;
    gi_sub : forall a p pr h t, In (ESubmit a p pr h t) (glog g) ->
             exists tk, get_task g a = Some tk /\ tk_pool tk = p /\ tk_prio tk = stored_prio pr /\
               forall u, hint_num h = Some u -> tk_home tk = Z.to_nat (u mod Z.of_nat (pW (cfg p)));
    gi_pq : forall a tk q, pinned g a tk -> In a (queues g q) -> home_q tk q;
    gi_plast : forall a tk, pinned g a tk ->
               (tk_last tk = None \/ tk_last tk = Some (tk_home tk)) /\
               (tk_agent tk = true -> tk_last tk = Some (tk_home tk));
    gi_penter : forall a tk ph p w t, pinned g a tk -> In (EEnter a ph p w t) (glog g) -> w = tk_home tk;
    gi_home : forall a tk, get_task g a = Some tk -> 0 < pW (cfg (tk_pool tk)) ->
              tk_home tk < pW (cfg (tk_pool tk))
  }.

  Record LI (g : gstate) (t : nat) (l : local) : Prop := {
    li_role : lrole l = roles t;
    li_cur : forall a, cur l = Some a ->
             exists p w ph, roles t = RWorker p w /\ tk_is g a p /\ In (EEnter a ph p w t) (glog g);
    li_nxt : forall b, nxt l = Some b -> exists p w, roles t = RWorker p w /\ tk_is g b p;
    li_pc : match pc l with
            | Idle => True
            | Sel p a _ _ _ _ | Hold p a _ _ _ _ => pElastic (cfg p) = true /\ tk_is g a p
            | Start | Leave _ => True
            | Res b h => (exists tk, get_task g b = Some tk) /\
                         forall tk, pinned g b tk -> h = worker_hint (tk_home tk)
            end;
    li_pcur : forall a tk, pinned g a tk -> cur l = Some a -> roles t = RWorker (tk_pool tk) (tk_home tk);
    li_pnxt : forall a tk, pinned g a tk -> nxt l = Some a -> roles t = RWorker (tk_pool tk) (tk_home tk)
  }.

  (* how a step may change the shared state as far as other threads' facts are concerned *)
  Record gext (g g' : gstate) : Prop := {
    ge_fwd : forall a tk, get_task g a = Some tk -> exists tk', get_task g' a = Some tk' /\ same_static tk tk';
    ge_back : forall a tk', get_task g' a = Some tk' ->
              (exists tk, get_task g a = Some tk /\ same_static tk tk') \/ get_task g a = None;
    ge_log : exists evs, glog g' = evs ++ glog g
  }.

  Lemma same_static_refl tk : same_static tk tk.
  Proof. now repeat split. Qed.
  Lemma same_static_trans a b c : same_static a b -> same_static b c -> same_static a c.
  Proof. unfold same_static. intuition congruence. Qed.

  Lemma gext_refl g : gext g g.
  Proof.
    constructor.
    - intros a tk H. exists tk. split; [assumption|apply same_static_refl].
    - intros a tk H. left. exists tk. split; [assumption|apply same_static_refl].
    - now exists [].
  Qed.

  Lemma gext_trans g1 g2 g3 : gext g1 g2 -> gext g2 g3 -> gext g1 g3.
  Proof.
    intros [f1 b1 [e1 l1]] [f2 b2 [e2 l2]]. constructor.
    - intros a tk H. destruct (f1 _ _ H) as (tk2 & H2 & S2). destruct (f2 _ _ H2) as (tk3 & H3 & S3).
      exists tk3. split; [assumption|eapply same_static_trans; eauto].
    - intros a tk3 H. destruct (b2 _ _ H) as [(tk2 & H2 & S2)|N2].
      + destruct (b1 _ _ H2) as [(tk1 & H1 & S1)|N1]; [left|now right].
        exists tk1. split; [assumption|eapply same_static_trans; eauto].
      + right. destruct (get_task g1 a) eqn:E; [|reflexivity].
        destruct (f1 _ _ E) as (tk2 & H2 & _). congruence.
    - exists (e2 ++ e1). now rewrite l2, l1, app_assoc.
  Qed.

  (* states that agree on tasks, queues and log are indistinguishable for GI/LI/gext *)
  Lemma gext_same g g' : tasks g' = tasks g -> (exists evs, glog g' = evs ++ glog g) -> gext g g'.
  Proof.
    intros Ht Hl. constructor; unfold get_task; rewrite ?Ht.
    - intros a tk H. exists tk. split; [assumption|apply same_static_refl].
    - intros a tk H. left. exists tk. split; [assumption|apply same_static_refl].
    - exact Hl.
  Qed.

  Lemma pinned_same g g' a tk :
    tasks g' = tasks g -> (forall e, In e (glog g) -> In e (glog g')) ->
    pinned g' a tk -> pinned g a tk.
  Proof.
    unfold pinned, get_task, no_yieldto. intros Ht Hl (H1 & H2 & H3 & H4). rewrite Ht in H1.
    split; [assumption|]. split; [assumption|]. split; [assumption|]. intros e He Hin. exact (H4 e He (Hl e Hin)).
  Qed.

  Lemma GI_same g g' : tasks g' = tasks g -> queues g' = queues g -> glog g' = glog g -> GI g -> GI g'.
  Proof.
    intros Ht Hq Hl G.
    assert (P : forall a tk, pinned g' a tk -> pinned g a tk).
    { intros a tk. apply pinned_same; [assumption|]. now rewrite Hl. }
    constructor; unfold tk_is, get_task in *; rewrite ?Ht, ?Hq, ?Hl.
    - apply (gi_q _ G).
    - apply (gi_enter _ G).
    - apply (gi_call _ G).
    - apply (gi_callx _ G).
    - apply (gi_sub _ G).
    - intros a tk q Hp. apply (gi_pq _ G). now apply P.
    - intros a tk Hp. apply (gi_plast _ G a). now apply P.
    - intros a tk ph p w t Hp. apply (gi_penter _ G). now apply P.
    - apply (gi_home _ G).
  Qed.

  (* events that carry no obligation of their own *)
  Definition misc_ev (e : event) : Prop :=
    match e with EEnq _ _ _ | EYieldTo _ _ | EDivert _ _ _ _ _ | EWake _ _ _ => True | _ => False end.

  Lemma GI_log_misc g e : misc_ev e -> GI g -> GI (log_ev g e).
  Proof.
    intros He G.
    assert (P : forall a tk, pinned (log_ev g e) a tk -> pinned g a tk).
    { intros a tk. apply pinned_same; [reflexivity|]. intros t Hin. now right. }
    assert (I : forall e', (match e' with EEnq _ _ _ | EYieldTo _ _ | EDivert _ _ _ _ _ | EWake _ _ _ => False | _ => True end) ->
                           In e' (glog (log_ev g e)) -> In e' (glog g)).
    { intros e' He' [<-|Hin]; [|assumption]. destruct e; cbn in *; tauto. }
    constructor; cbn [queues log_ev].
    - apply (gi_q _ G).
    - intros a ph p w t Hin. apply I in Hin; [|exact Logic.I]. apply (gi_enter _ G _ _ _ _ _ Hin).
    - intros lbl a t Hin. apply I in Hin; [|exact Logic.I].
      destruct (gi_call _ G _ _ _ Hin) as (p & w & ph & H1 & H2). exists p, w, ph. split; [assumption|now right].
    - intros lbl t Hin. apply I in Hin; [|exact Logic.I]. apply (gi_callx _ G _ _ Hin).
    - intros a p pr h t Hin. apply I in Hin; [|exact Logic.I]. apply (gi_sub _ G _ _ _ _ _ Hin).
    - intros a tk q Hp. apply (gi_pq _ G). now apply P.
    - intros a tk Hp. apply (gi_plast _ G a). now apply P.
    - intros a tk ph p w t Hp Hin. apply I in Hin; [|exact Logic.I]. apply (gi_penter _ G _ _ _ _ _ _ (P _ _ Hp) Hin).
    - apply (gi_home _ G).
  Qed.

  Lemma GI_set_queue g q l :
    (forall b, In b l -> In b (queues g q) \/ (tk_is g b (qpool q) /\ forall tk, pinned g b tk -> home_q tk q)) ->
    GI g -> GI (set_queue g q l).
  Proof.
    intros Hl G.
    assert (P : forall a tk, pinned (set_queue g q l) a tk -> pinned g a tk).
    { intros a tk. apply pinned_same; [reflexivity|auto]. }
    constructor; cbn [queues glog set_queue].
    - intros q' b. destruct (qid_eqb q' q) eqn:E.
      + apply qid_eqb_eq in E. subst q'. intros Hin. destruct (Hl _ Hin) as [H|[H _]]; [|exact H].
        apply (gi_q _ G _ _ H).
      + apply (gi_q _ G).
    - apply (gi_enter _ G).
    - apply (gi_call _ G).
    - apply (gi_callx _ G).
    - apply (gi_sub _ G).
    - intros a tk q' Hp. destruct (qid_eqb q' q) eqn:E.
      + apply qid_eqb_eq in E. subst q'. intros Hin. destruct (Hl _ Hin) as [H|[_ H]].
        * apply (gi_pq _ G _ _ _ (P _ _ Hp) H).
        * apply H. now apply P.
      + apply (gi_pq _ G). now apply P.
    - intros a tk Hp. apply (gi_plast _ G a). now apply P.
    - intros a tk ph p w t Hp. apply (gi_penter _ G). now apply P.
    - apply (gi_home _ G).
  Qed.

  Lemma GI_push g q a t :
    tk_is g a (qpool q) -> (forall tk, pinned g a tk -> home_q tk q) -> GI g -> GI (push g q a t).
  Proof.
    intros H1 H2 G. unfold push. apply GI_log_misc; [exact Logic.I|]. apply GI_set_queue; [|assumption].
    intros b Hin. apply in_app_or in Hin. destruct Hin as [Hin|[<-|[]]]; [now left|right]. split; assumption.
  Qed.

  Lemma GI_pop g q idx : GI g -> GI (set_queue g q (remove_nth (queues g q) idx)).
  Proof. intros G. apply GI_set_queue; [|assumption]. intros b Hin. left. eapply remove_nth_In; eauto. Qed.

  (* updating one task with one of the three updaters *)
  Lemma get_upd_task g a f b :
    get_task (upd_task g a f) b = if Nat.eqb a b then option_map f (get_task g b) else get_task g b.
  Proof. unfold get_task, upd_task; cbn. apply list_upd_nth. Qed.

  Lemma gext_upd g a f : (forall tk, same_static tk (f tk)) -> gext g (upd_task g a f).
  Proof.
    intros Hf. constructor.
    - intros b tk H. rewrite get_upd_task. destruct (Nat.eqb a b).
      + rewrite H. cbn. eexists; split; [reflexivity|apply Hf].
      + exists tk. split; [assumption|apply same_static_refl].
    - intros b tk' H. rewrite get_upd_task in H. destruct (Nat.eqb a b).
      + destruct (get_task g b) as [tk|]; [|discriminate]. cbn in H. inv H. left. exists tk. split; [reflexivity|apply Hf].
      + left. exists tk'. split; [assumption|apply same_static_refl].
    - now exists [].
  Qed.

  Lemma GI_upd g a f :
    (forall tk, same_static tk (f tk)) ->
    (forall tk, pinned g a tk ->
       (tk_last (f tk) = None \/ tk_last (f tk) = Some (tk_home tk)) /\
       (tk_agent (f tk) = true -> tk_last (f tk) = Some (tk_home tk))) ->
    GI g -> GI (upd_task g a f).
  Proof.
    intros Hf Hl G. pose proof (gext_upd g a f Hf) as X.
    assert (T : forall b p, tk_is g b p -> tk_is (upd_task g a f) b p).
    { intros b p (tk & H1 & H2). destruct (ge_fwd _ _ X _ _ H1) as (tk' & H3 & (S1 & _)). exists tk'. split; [assumption|congruence]. }
    assert (P : forall b tk', pinned (upd_task g a f) b tk' ->
              exists tk, pinned g b tk /\ same_static tk tk' /\ (tk' = if Nat.eqb a b then f tk else tk)).
    { intros b tk' (H1 & H2 & H3 & H4). rewrite get_upd_task in H1.
      destruct (Nat.eqb a b) eqn:E.
      - destruct (get_task g b) as [tk|] eqn:E2; [|discriminate]. cbn in H1. inv H1.
        destruct (Hf tk) as (S1 & S2 & S3). exists tk.
        split; [|split; [split; [|split]; assumption|reflexivity]].
        unfold pinned. rewrite <- S1, <- S3.
        split; [assumption|]. split; [assumption|]. split; [assumption|]. exact H4.
      - exists tk'. split; [|split; [apply same_static_refl|reflexivity]].
        split; [assumption|]. split; [assumption|]. split; [assumption|]. exact H4. }
    constructor; cbn [queues glog upd_task].
    - intros q b Hin. apply T. apply (gi_q _ G _ _ Hin).
    - intros b ph p w t Hin. destruct (gi_enter _ G _ _ _ _ _ Hin). auto.
    - apply (gi_call _ G).
    - apply (gi_callx _ G).
    - intros b p pr h t Hin. destruct (gi_sub _ G _ _ _ _ _ Hin) as (tk & H1 & H2 & H3 & H4).
      destruct (ge_fwd _ _ X _ _ H1) as (tk' & H5 & (S1 & S2 & S3)). exists tk'. repeat split; try congruence.
      intros u Hu. rewrite S2. auto.
    - intros b tk' q Hp Hin. destruct (P _ _ Hp) as (tk & Hp0 & (S1 & S2 & S3) & _).
      pose proof (gi_pq _ G _ _ _ Hp0 Hin) as Hq. unfold home_q in *. now rewrite S1, S2.
    - intros b tk' Hp. destruct (P _ _ Hp) as (tk & Hp0 & (S1 & S2 & S3) & Heq).
      destruct (Nat.eqb a b) eqn:E.
      + apply Nat.eqb_eq in E. subst b tk'. rewrite S2. apply Hl. exact Hp0.
      + subst tk'. apply (gi_plast _ G _ _ Hp0).
    - intros b tk' ph p w t Hp Hin. destruct (P _ _ Hp) as (tk & Hp0 & (S1 & S2 & S3) & _).
      rewrite S2. apply (gi_penter _ G _ _ _ _ _ _ Hp0 Hin).
    - intros b tk' H HW. destruct (ge_back _ _ X _ _ H) as [(tk & H1 & (S1 & S2 & S3))|N].
      + rewrite S1, S2. rewrite S1 in HW. apply (gi_home _ G _ _ H1 HW).
      + rewrite get_upd_task in H. destruct (Nat.eqb a b); rewrite N in H; discriminate.
  Qed.

  (* ---------------------------------------------------------------- new tasks *)
  Lemma get_add_task g tk b :
    get_task (add_task g tk) b =
    if b <? length (tasks g) then get_task g b else if b =? length (tasks g) then Some tk else None.
  Proof.
    unfold get_task, add_task; cbn [tasks]. destruct (Nat.ltb_spec b (length (tasks g))).
    - now rewrite nth_error_app1.
    - rewrite nth_error_app2 by assumption. destruct (Nat.eqb_spec b (length (tasks g))).
      + subst. now rewrite Nat.sub_diag.
      + destruct (b - length (tasks g)) as [|k] eqn:E; [lia|]. cbn. now destruct k.
  Qed.

  Lemma get_task_lt g a tk : get_task g a = Some tk -> a < length (tasks g).
  Proof. unfold get_task. intros H. apply nth_error_Some. congruence. Qed.

  Lemma gext_add g tk : gext g (add_task g tk).
  Proof.
    constructor.
    - intros a tk0 H. exists tk0. rewrite get_add_task. pose proof (get_task_lt _ _ _ H) as L.
      apply Nat.ltb_lt in L. rewrite L. split; [assumption|apply same_static_refl].
    - intros a tk' H. rewrite get_add_task in H. destruct (a <? length (tasks g)) eqn:E.
      + left. exists tk'. split; [assumption|apply same_static_refl].
      + right. apply Nat.ltb_ge in E. unfold get_task. now apply nth_error_None.
    - now exists [].
  Qed.

  Lemma gext_log g e : gext g (log_ev g e).
  Proof. apply gext_same; [reflexivity|]. now exists [e]. Qed.

  Lemma gext_push g q a t : gext g (push g q a t).
  Proof. apply gext_same; [reflexivity|]. now exists [EEnq a q t]. Qed.

  Lemma tk_is_ext g g' a p : gext g g' -> tk_is g a p -> tk_is g' a p.
  Proof.
    intros X (tk & H1 & H2). destruct (ge_fwd _ _ X _ _ H1) as (tk' & H3 & (S1 & _)).
    exists tk'. split; [assumption|congruence].
  Qed.

  Lemma In_ext g g' e : gext g g' -> In e (glog g) -> In e (glog g').
  Proof. intros X H. destruct (ge_log _ _ X) as (evs & ->). apply in_or_app. now right. Qed.

  Lemma pinned_back g g' a tk tk' :
    gext g g' -> pinned g' a tk' -> get_task g a = Some tk -> pinned g a tk /\ same_static tk tk'.
  Proof.
    intros X (H1 & H2 & H3 & H4) H. destruct (ge_fwd _ _ X _ _ H) as (tk2 & H5 & S).
    assert (tk2 = tk') by congruence. subst tk2. split; [|assumption].
    destruct S as (S1 & S2 & S3). unfold pinned. rewrite <- S1, <- S3.
    split; [assumption|]. split; [assumption|]. split; [assumption|].
    intros e He Hin. apply (H4 e He). eapply In_ext; eauto.
  Qed.

  Lemma GI_add g tk pr h t :
    tk_st tk = TPending -> tk_last tk = None -> tk_agent tk = false -> tk_prio tk = stored_prio pr ->
    tk_home tk = fst (base_queue (pW (cfg (tk_pool tk))) (rr g (tk_pool tk)) h) ->
    GI g -> GI (log_ev (add_task g tk) (ESubmit (length (tasks g)) (tk_pool tk) pr h t)).
  Proof.
    intros Hst Hla Hag Hpr Hho G.
    set (g' := log_ev (add_task g tk) (ESubmit (length (tasks g)) (tk_pool tk) pr h t)).
    assert (X : gext g g') by (eapply gext_trans; [apply gext_add|apply gext_log]).
    assert (C : forall b tk', get_task g' b = Some tk' ->
                (get_task g b = Some tk') \/ (b = length (tasks g) /\ tk' = tk /\ get_task g b = None)).
    { intros b tk' H. unfold g' in H. change (get_task (add_task g tk) b = Some tk') in H.
      rewrite get_add_task in H. destruct (b <? length (tasks g)) eqn:E; [now left|].
      destruct (Nat.eqb_spec b (length (tasks g))); [|discriminate]. inv H. right.
      repeat split; auto. unfold get_task. apply nth_error_None. lia. }
    assert (I : forall e, (match e with ESubmit _ _ _ _ _ => False | _ => True end) -> In e (glog g') -> In e (glog g)).
    { intros e He [<-|Hin]; [contradiction|assumption]. }
    assert (P : forall b tk', pinned g' b tk' -> get_task g b = Some tk' -> pinned g b tk').
    { intros b tk' Hp Hb. destruct (pinned_back _ _ _ _ _ X Hp Hb) as [Hp0 _]. exact Hp0. }
    constructor.
    - intros q b Hin. eapply tk_is_ext; [exact X|]. apply (gi_q _ G _ _ Hin).
    - intros b ph p w t0 Hin. apply I in Hin; [|exact Logic.I]. destruct (gi_enter _ G _ _ _ _ _ Hin).
      split; [assumption|]. eapply tk_is_ext; eauto.
    - intros lbl b t0 Hin. apply I in Hin; [|exact Logic.I].
      destruct (gi_call _ G _ _ _ Hin) as (p & w & ph & H1 & H2). exists p, w, ph. split; [assumption|now right].
    - intros lbl t0 Hin. apply I in Hin; [|exact Logic.I]. apply (gi_callx _ G _ _ Hin).
    - intros b p pr0 h0 t0 [Heq|Hin].
      + inv Heq. exists tk. split; [|split; [reflexivity|split; [assumption|]]].
        * unfold g'. change (get_task (add_task g tk) (length (tasks g)) = Some tk). rewrite get_add_task.
          now rewrite Nat.ltb_irrefl, Nat.eqb_refl.
        * intros u Hu. rewrite Hho. unfold base_queue. now rewrite Hu.
      + destruct (gi_sub _ G _ _ _ _ _ Hin) as (tk0 & H1 & H2 & H3 & H4).
        destruct (ge_fwd _ _ X _ _ H1) as (tk' & H5 & (S1 & S2 & S3)). exists tk'.
        repeat split; try congruence. intros u Hu. rewrite S2. auto.
    - intros b tk' q Hp Hin. change (In b (queues g q)) in Hin.
      destruct (gi_q _ G _ _ Hin) as (tk0 & H0 & _). destruct Hp as [Hg Hr].
      destruct (C _ _ Hg) as [H1|(H1 & _ & H2)]; [|congruence].
      apply (gi_pq _ G _ _ _ (P _ _ (conj Hg Hr) H1) Hin).
    - intros b tk' Hp. destruct Hp as [Hg Hr]. destruct (C _ _ Hg) as [H1|(H1 & -> & H2)].
      + apply (gi_plast _ G _ _ (P _ _ (conj Hg Hr) H1)).
      + rewrite Hla, Hag. split; [now left|discriminate].
    - intros b tk' ph p w t0 Hp Hin. apply I in Hin; [|exact Logic.I].
      destruct (gi_enter _ G _ _ _ _ _ Hin) as [_ (tk0 & H0 & _)]. destruct Hp as [Hg Hr].
      destruct (C _ _ Hg) as [H1|(H1 & _ & H2)]; [|congruence].
      apply (gi_penter _ G _ _ _ _ _ _ (P _ _ (conj Hg Hr) H1) Hin).
    - intros b tk' Hg HW. destruct (C _ _ Hg) as [H1|(H1 & -> & H2)].
      + apply (gi_home _ G _ _ H1 HW).
      + rewrite Hho. now apply base_queue_lt.
  Qed.

  Lemma GI_log_enter g b ph p w t :
    roles t = RWorker p w -> tk_is g b p -> (forall tk, pinned g b tk -> w = tk_home tk) ->
    GI g -> GI (log_ev g (EEnter b ph p w t)).
  Proof.
    intros Hr Ht Hp G.
    assert (P : forall a tk, pinned (log_ev g (EEnter b ph p w t)) a tk -> pinned g a tk).
    { intros a tk. apply pinned_same; [reflexivity|]. intros t0 Hin. now right. }
    constructor; cbn [queues log_ev].
    - apply (gi_q _ G).
    - intros a ph0 p0 w0 t0 [Heq|Hin]; [inv Heq; now split|]. apply (gi_enter _ G _ _ _ _ _ Hin).
    - intros lbl a t0 [Heq|Hin]; [discriminate|].
      destruct (gi_call _ G _ _ _ Hin) as (p0 & w0 & ph0 & H1 & H2). exists p0, w0, ph0. split; [assumption|now right].
    - intros lbl t0 [Heq|Hin]; [discriminate|]. apply (gi_callx _ G _ _ Hin).
    - intros a p0 pr h t0 [Heq|Hin]; [discriminate|]. apply (gi_sub _ G _ _ _ _ _ Hin).
    - intros a tk q Hq. apply (gi_pq _ G). now apply P.
    - intros a tk Hq. apply (gi_plast _ G a). now apply P.
    - intros a tk ph0 p0 w0 t0 Hq [Heq|Hin]; [inv Heq; apply Hp; now apply P|].
      apply (gi_penter _ G _ _ _ _ _ _ (P _ _ Hq) Hin).
    - apply (gi_home _ G).
  Qed.

  Lemma GI_log_call g lbl c t :
    match c with
    | CTask a => exists p w ph, roles t = RWorker p w /\ In (EEnter a ph p w t) (glog g)
    | CExt => roles t = RExt
    end -> GI g -> GI (log_ev g (ECall lbl c t)).
  Proof.
    intros Hc G.
    assert (P : forall a tk, pinned (log_ev g (ECall lbl c t)) a tk -> pinned g a tk).
    { intros a tk. apply pinned_same; [reflexivity|]. intros t0 Hin. now right. }
    constructor; cbn [queues log_ev].
    - apply (gi_q _ G).
    - intros a ph0 p0 w0 t0 [Heq|Hin]; [discriminate|]. apply (gi_enter _ G _ _ _ _ _ Hin).
    - intros lbl0 a t0 [Heq|Hin].
      + inv Heq. destruct Hc as (p0 & w0 & ph0 & H1 & H2). exists p0, w0, ph0. split; [assumption|now right].
      + destruct (gi_call _ G _ _ _ Hin) as (p0 & w0 & ph0 & H1 & H2). exists p0, w0, ph0. split; [assumption|now right].
    - intros lbl0 t0 [Heq|Hin]; [inv Heq; exact Hc|]. apply (gi_callx _ G _ _ Hin).
    - intros a p0 pr h t0 [Heq|Hin]; [discriminate|]. apply (gi_sub _ G _ _ _ _ _ Hin).
    - intros a tk q Hq. apply (gi_pq _ G). now apply P.
    - intros a tk Hq. apply (gi_plast _ G a). now apply P.
    - intros a tk ph0 p0 w0 t0 Hq [Heq|Hin]; [discriminate|].
      apply (gi_penter _ G _ _ _ _ _ _ (P _ _ Hq) Hin).
    - apply (gi_home _ G).
  Qed.

  (* ---------------------------------------------------------------- frame for the other threads *)
  Lemma LI_frame g g' t l : gext g g' -> LI g t l -> LI g' t l.
  Proof.
    intros X L. constructor.
    - apply (li_role _ _ _ L).
    - intros a Ha. destruct (li_cur _ _ _ L _ Ha) as (p & w & ph & H1 & H2 & H3).
      exists p, w, ph. split; [assumption|]. split; [eapply tk_is_ext; eauto|eapply In_ext; eauto].
    - intros b Hb. destruct (li_nxt _ _ _ L _ Hb) as (p & w & H1 & H2).
      exists p, w. split; [assumption|eapply tk_is_ext; eauto].
    - pose proof (li_pc _ _ _ L) as H. destruct (pc l); auto.
      + destruct H; split; auto; eapply tk_is_ext; eauto.
      + destruct H; split; auto; eapply tk_is_ext; eauto.
      + destruct H as [(tk & E) H]. split.
        * destruct (ge_fwd _ _ X _ _ E) as (tk' & E' & _). now exists tk'.
        * intros tk' Hp. destruct (pinned_back _ _ _ _ _ X Hp E) as [Hp0 (S1 & S2 & S3)]. rewrite S2. now apply H.
    - intros a tk' Hp Ha. destruct (li_cur _ _ _ L _ Ha) as (p & w & ph & H1 & (tk & H2 & _) & H3).
      destruct (pinned_back _ _ _ _ _ X Hp H2) as [Hp0 (S1 & S2 & S3)]. rewrite S1, S2.
      apply (li_pcur _ _ _ L _ _ Hp0 Ha).
    - intros a tk' Hp Ha. destruct (li_nxt _ _ _ L _ Ha) as (p & w & H1 & (tk & H2 & _)).
      destruct (pinned_back _ _ _ _ _ X Hp H2) as [Hp0 (S1 & S2 & S3)]. rewrite S1, S2.
      apply (li_pnxt _ _ _ L _ _ Hp0 Ha).
  Qed.

  (* ---------------------------------------------------------------- micro-operations *)
  Definition pc_ok (g : gstate) (c : pcs) : Prop :=
    match c with
    | Idle => True
    | Sel p a _ _ _ _ | Hold p a _ _ _ _ => pElastic (cfg p) = true /\ tk_is g a p
    | Start | Leave _ => True
    | Res b h => (exists tk, get_task g b = Some tk) /\
                 forall tk, pinned g b tk -> h = worker_hint (tk_home tk)
    end.

  Lemma pc_ok_ext g g' c : gext g g' -> pc_ok g c -> pc_ok g' c.
  Proof.
    intros X H. destruct c; cbn in *; auto.
    - destruct H; split; auto; eapply tk_is_ext; eauto.
    - destruct H; split; auto; eapply tk_is_ext; eauto.
    - destruct H as [(tk & E) H]. split.
      + destruct (ge_fwd _ _ X _ _ E) as (tk' & E' & _). now exists tk'.
      + intros tk' Hp. destruct (pinned_back _ _ _ _ _ X Hp E) as [Hp0 (S1 & S2 & S3)]. rewrite S2. now apply H.
  Qed.

  Lemma qpool_queue_of c p k n : qpool (queue_of c p k n) = p.
  Proof. now destruct k. Qed.

  Lemma queue_home c p pr n :
    static_ok c -> n < pW c -> (pPrio c = false \/ pr <> PLow) ->
    queue_of c p (qkind_of c pr) n = QN p n \/ queue_of c p (qkind_of c pr) n = QH p n.
  Proof.
    intros (S1 & S2 & S3 & S4 & S5) Hn Hp. unfold qkind_of, queue_of.
    destruct (pPrio c) eqn:E; [|now left].
    destruct S3 as [?|S3]; [discriminate|]. destruct Hp as [?|Hp]; [discriminate|].
    destruct pr; try tauto; rewrite S3, Nat.mod_small by lia; auto.
  Qed.

  Lemma tk_is_fun g a p tk : tk_is g a p -> get_task g a = Some tk -> tk_pool tk = p.
  Proof. intros (tk' & H1 & H2) H. congruence. Qed.

  Lemma begin_ok t g p a k h fb :
    GI g -> tk_is g a p ->
    (forall tk, pinned g a tk -> home_q tk (queue_of (cfg p) p k (fst (base_queue (pW (cfg p)) (rr g p) h)))) ->
    let r := begin_enqueue cfg t g p a k h fb in
    gext g (fst r) /\ GI (fst r) /\ pc_ok (fst r) (snd r).
  Proof.
    intros G Ht Hh. unfold begin_enqueue.
    destruct (base_queue (pW (cfg p)) (rr g p) h) as [n0 r'] eqn:E. cbn [fst] in Hh.
    assert (X0 : gext g (set_rr g p r')) by (apply gext_same; [reflexivity|now exists []]).
    assert (G0 : GI (set_rr g p r')) by (apply GI_same with g; auto).
    destruct (pElastic (cfg p)) eqn:El; cbn [fst snd].
    - split; [assumption|]. split; [assumption|]. split; [assumption|]. exact Ht.
    - split; [eapply gext_trans; [exact X0|apply gext_push]|]. split; [|exact Logic.I].
      apply GI_push; [rewrite qpool_queue_of; exact Ht| |assumption].
      intros tk Hp. apply Hh. exact Hp.
  Qed.

  Lemma spawn_ok t g p pr h :
    GI g -> let r := spawn cfg t g p pr h in gext g (fst r) /\ GI (fst r) /\ pc_ok (fst r) (snd r).
  Proof.
    intros G. unfold spawn.
    set (n0 := fst (base_queue (pW (cfg p)) (rr g p) h)).
    set (tk := {| tk_pool := p; tk_prio := stored_prio pr; tk_st := TPending; tk_last := None;
                  tk_phase := 0; tk_home := n0; tk_agent := false |}).
    set (g1 := log_ev (add_task g tk) (ESubmit (length (tasks g)) p pr h t)).
    assert (G1 : GI g1) by (apply (GI_add g tk pr h t); auto).
    assert (X1 : gext g g1) by (eapply gext_trans; [apply gext_add|apply gext_log]).
    assert (T1 : get_task g1 (length (tasks g)) = Some tk).
    { change (get_task (add_task g tk) (length (tasks g)) = Some tk). rewrite get_add_task.
      now rewrite Nat.ltb_irrefl, Nat.eqb_refl. }
    destruct (begin_ok t g1 p (length (tasks g)) (qkind_of (cfg p) pr) h false G1) as (X2 & G2 & P2).
    - exists tk. split; [exact T1|reflexivity].
    - intros tk' (Hg & Hs & Hpr & _). assert (tk' = tk) by congruence. subst tk'.
      change (rr g1 p) with (rr g p). fold n0. cbn [tk_pool tk] in Hs, Hpr.
      assert (Hn : n0 < pW (cfg p)) by (apply base_queue_lt; apply Hs).
      assert (Hq : pPrio (cfg p) = false \/ pr <> PLow).
      { destruct Hpr as [?|Hpr]; [now left|right]. intros ->. now apply Hpr. }
      unfold home_q. cbn [tk_pool tk_home tk]. apply queue_home; assumption.
    - split; [eapply gext_trans; eauto|]. split; assumption.
  Qed.

  Lemma same_static_set st tk : same_static tk (t_set st tk).
  Proof. now repeat split. Qed.
  Lemma same_static_store w tk : same_static tk (t_store w tk).
  Proof. now repeat split. Qed.
  Lemma same_static_start w tk : same_static tk (t_start w tk).
  Proof. now repeat split. Qed.
  Lemma same_static_enter tk : same_static tk (t_enter tk).
  Proof. now repeat split. Qed.

  Lemma pinned_fun g a tk tk' : pinned g a tk -> get_task g a = Some tk' -> tk' = tk.
  Proof. intros [H _] H'. congruence. Qed.

  (* the queue computed from "hint = worker w" is w's own queue when w is the home of a pinned task *)
  Lemma own_queue_home g p a pr w tk :
    GI g -> pinned g a tk -> tk_pool tk = p -> w = tk_home tk -> (pPrio (cfg p) = false \/ pr <> PLow) ->
    forall r, home_q tk (queue_of (cfg p) p (qkind_of (cfg p) pr) (fst (base_queue (pW (cfg p)) r (worker_hint w)))).
  Proof.
    intros G Hp <- -> Hpr r. pose proof Hp as (Hg & Hs & _ & _).
    assert (Hn : tk_home tk < pW (cfg (tk_pool tk))) by (apply (gi_home _ G _ _ Hg); apply Hs).
    rewrite base_queue_worker; [|assumption|apply Hs]. cbn [fst]. unfold home_q. now apply queue_home.
  Qed.

  Lemma resume_read_ok t g b :
    GI g -> let r := resume_read t g b in gext g (fst r) /\ GI (fst r) /\ pc_ok (fst r) (snd r).
  Proof.
    intros G. unfold resume_read. destruct (get_task g b) as [tk|] eqn:E;
      [|cbn; split; [apply gext_refl|split; [assumption|exact Logic.I]]].
    destruct (tk_agent tk) eqn:Ea; [|cbn; split; [apply gext_refl|split; [assumption|exact Logic.I]]].
    cbn [fst snd]. split; [apply gext_log|]. split; [apply GI_log_misc; [exact Logic.I|assumption]|].
    split; [now exists tk|].
    intros tk' Hp'.
    assert (Hp : pinned g b tk').
    { revert Hp'. apply pinned_same; [reflexivity|]. intros e Hin. now right. }
    pose proof (pinned_fun _ _ _ _ Hp E) as ->.
    destruct (gi_plast _ G _ _ Hp) as [_ Hs]. now rewrite (Hs Ea).
  Qed.

  Lemma resume_ok t g b h :
    GI g -> pc_ok g (Res b h) ->
    let r := resume cfg t g b h in gext g (fst r) /\ GI (fst r) /\ pc_ok (fst r) (snd r).
  Proof.
    intros G [_ Hh]. unfold resume. destruct (get_task g b) as [tk|] eqn:E;
      [|cbn; split; [apply gext_refl|split; [assumption|exact Logic.I]]].
    destruct (tk_st tk) eqn:Es; try (cbn; split; [apply gext_refl|split; [assumption|exact Logic.I]]).
    - apply spawn_ok. exact G.
    - set (g1 := upd_task g b (t_set TPending)).
      assert (X1 : gext g g1) by (apply gext_upd; apply same_static_set).
      assert (G1 : GI g1).
      { apply GI_upd; [apply same_static_set| |assumption]. intros tk0 Hp. cbn [t_set tk_last tk_st].
        apply (gi_plast _ G _ _ Hp). }
      destruct (begin_ok t g1 (tk_pool tk) b (qkind_of (cfg (tk_pool tk)) (tk_prio tk)) h false G1) as (X2 & G2 & P2).
      + eapply tk_is_ext; [exact X1|]. exists tk. now split.
      + intros tk' Hp'. destruct (pinned_back _ _ _ _ _ X1 Hp' E) as [Hp (S1 & S2 & S3)].
        rewrite (Hh _ Hp).
        assert (Hq : home_q tk (queue_of (cfg (tk_pool tk)) (tk_pool tk) (qkind_of (cfg (tk_pool tk)) (tk_prio tk))
                        (fst (base_queue (pW (cfg (tk_pool tk))) (rr g1 (tk_pool tk)) (worker_hint (tk_home tk)))))).
        { pose proof Hp as (_ & _ & Hpr & _).
          apply (own_queue_home g (tk_pool tk) b (tk_prio tk) (tk_home tk) tk G Hp eq_refl eq_refl Hpr). }
        unfold home_q in *. now rewrite S1, S2.
      + split; [eapply gext_trans; eauto|]. split; assumption.
  Qed.

  Lemma sel_ok t g p a k n0 off fb :
    GI g -> pc_ok g (Sel p a k n0 off fb) ->
    let r := sel_step cfg t g p a k n0 off fb in gext g (fst r) /\ GI (fst r) /\ pc_ok (fst r) (snd r).
  Proof.
    intros G [He Ht]. unfold sel_step.
    repeat destr; cbn [fst snd];
      (split; [first [apply gext_refl | apply gext_same; [reflexivity|now exists []]]|]);
      (split; [first [assumption | apply GI_same with g; auto]|]); (split; [assumption|exact Ht]).
  Qed.

  Lemma hold_ok t g p a k n0 n lk :
    GI g -> pc_ok g (Hold p a k n0 n lk) ->
    let g' := hold_step cfg t g p a k n0 n lk in gext g g' /\ GI g'.
  Proof.
    intros G [He Ht]. unfold hold_step.
    set (g1 := push g (queue_of (cfg p) p k n) a t).
    assert (X1 : gext g g1) by apply gext_push.
    assert (G1 : GI g1).
    { apply GI_push; [rewrite qpool_queue_of; exact Ht| |assumption].
      intros tk Hp. exfalso. pose proof Hp as (Hg & (_ & Hs & _) & _).
      rewrite (tk_is_fun _ _ _ _ Ht Hg) in Hs. congruence. }
    set (g2 := if lk then set_lock g1 p n false else g1).
    assert (X2 : gext g1 g2) by (unfold g2; destruct lk; [apply gext_same; [reflexivity|now exists []]|apply gext_refl]).
    assert (G2 : GI g2) by (unfold g2; destruct lk; [apply GI_same with g1; auto|assumption]).
    destruct (Nat.eqb n n0).
    - split; [eapply gext_trans; eauto|assumption].
    - split; [eapply gext_trans; [eapply gext_trans; eauto|apply gext_log]|]. apply GI_log_misc; [exact Logic.I|assumption].
  Qed.

  Lemma LI_mk g t r c cu nx :
    r = roles t ->
    (forall a, cu = Some a -> exists p w ph, roles t = RWorker p w /\ tk_is g a p /\ In (EEnter a ph p w t) (glog g)) ->
    (forall b, nx = Some b -> exists p w, roles t = RWorker p w /\ tk_is g b p) ->
    pc_ok g c ->
    (forall a tk, pinned g a tk -> cu = Some a -> roles t = RWorker (tk_pool tk) (tk_home tk)) ->
    (forall a tk, pinned g a tk -> nx = Some a -> roles t = RWorker (tk_pool tk) (tk_home tk)) ->
    LI g t (mk_local r c cu nx).
  Proof. intros. constructor; cbn; auto. Qed.

  (* keep cur/nxt, new pc *)
  Lemma LI_set_pc g g' t l c :
    gext g g' -> LI g t l -> pc_ok g' c -> LI g' t (mk_local (lrole l) c (cur l) (nxt l)).
  Proof.
    intros X L P. pose proof (LI_frame _ _ _ _ X L) as L'. apply LI_mk.
    - apply (li_role _ _ _ L).
    - apply (li_cur _ _ _ L').
    - apply (li_nxt _ _ _ L').
    - assumption.
    - apply (li_pcur _ _ _ L').
    - apply (li_pnxt _ _ _ L').
  Qed.

  (* cur := None, keep nxt, new pc *)
  Lemma LI_leave g g' t l c :
    gext g g' -> LI g t l -> pc_ok g' c -> LI g' t (mk_local (lrole l) c None (nxt l)).
  Proof.
    intros X L P. pose proof (LI_frame _ _ _ _ X L) as L'. apply LI_mk.
    - apply (li_role _ _ _ L).
    - discriminate.
    - apply (li_nxt _ _ _ L').
    - assumption.
    - discriminate.
    - apply (li_pnxt _ _ _ L').
  Qed.

  Lemma try_enter_ok t g l p w b :
    GI g -> roles t = RWorker p w -> tk_is g b p -> (forall tk, pinned g b tk -> w = tk_home tk) ->
    lrole l = roles t -> cur l = None -> nxt l = None -> pc l = Idle ->
    let r := try_enter cfg t g l p w b in gext g (fst r) /\ GI (fst r) /\ LI (fst r) t (snd r).
  Proof.
    intros G Hr Ht Hw Hl Hc Hn Hpc. 
    assert (L0 : LI g t l).
    { constructor; rewrite ?Hc, ?Hn, ?Hpc; auto; discriminate. }
    unfold try_enter. destruct (get_task g b) as [tk|] eqn:E;
      [|cbn; split; [apply gext_refl|split; assumption]].
    pose proof (tk_is_fun _ _ _ _ Ht E) as Hpool.
    destruct (tk_st tk) eqn:Es; try (cbn; split; [apply gext_refl|split; assumption]).
    - (* pending -> active *)
      cbn [fst snd].
      set (g1 := upd_task g b t_enter).
      assert (X1 : gext g g1) by (apply gext_upd; apply same_static_enter).
      assert (G1 : GI g1).
      { apply GI_upd; [apply same_static_enter| |assumption]. intros tk0 Hp. cbn [t_enter tk_last tk_st].
        apply (gi_plast _ G _ _ Hp). }
      set (g2 := log_ev g1 (EEnter b (S (tk_phase tk)) p w t)).
      assert (X2 : gext g g2) by (eapply gext_trans; [exact X1|apply gext_log]).
      assert (Hw2 : forall g', gext g g' -> forall tk', pinned g' b tk' -> w = tk_home tk' /\ p = tk_pool tk').
      { intros g' X tk' Hp'. destruct (pinned_back _ _ _ _ _ X Hp' E) as [Hp (S1 & S2 & S3)].
        rewrite S1, S2. split; [now apply Hw|now symmetry]. }
      split; [exact X2|]. split.
      + apply GI_log_enter; [assumption|eapply tk_is_ext; eauto| |assumption].
        intros tk' Hp'. apply (Hw2 _ X1 _ Hp').
      + rewrite Hn. apply LI_mk.
        * assumption.
        * intros a Ha. injection Ha as Ha. subst a. exists p, w, (S (tk_phase tk)). split; [assumption|].
          split; [eapply tk_is_ext; eauto|now left].
        * discriminate.
        * exact Logic.I.
        * intros a tk' Hp' Ha. injection Ha as Ha. subst a. destruct (Hw2 _ X2 _ Hp') as [Hw' Hp2]. rewrite <- Hw', <- Hp2. assumption.
        * discriminate.
    - (* active: re-schedule on this worker *)
      destruct (begin_ok t g p b (qkind_of (cfg p) (tk_prio tk)) (worker_hint w) true G Ht) as (X2 & G2 & P2).
      + intros tk0 Hp. pose proof (pinned_fun _ _ _ _ Hp E) as <-.
        pose proof Hp as (_ & _ & Hpr & _). rewrite Hpool in Hpr.
        apply (own_queue_home g p b (tk_prio tk) w tk G Hp Hpool (Hw _ Hp) Hpr).
      + destruct (begin_enqueue cfg t g p b (qkind_of (cfg p) (tk_prio tk)) (worker_hint w) true) as [g1 c1].
        cbn [fst snd] in *. split; [assumption|]. split; [assumption|].
        apply (LI_leave g g1 t l c1 X2 L0 P2).
  Qed.

  Lemma pop_static c p w s q :
    pSteal c = false -> pop_queue c p w s = Some q -> q = QN p w \/ q = QH p w \/ q = QL p.
  Proof.
    intros Hs. destruct s; cbn; rewrite ?Hs, ?andb_false_r; cbn; try discriminate.
    - destruct (_ && _); [|discriminate]. intros H; inv H. auto.
    - intros H; inv H. auto.
    - destruct (pPrio c); [|discriminate]. intros H; inv H. auto.
  Qed.

  Lemma pop_pool c p w s q : pop_queue c p w s = Some q -> qpool q = p.
  Proof.
    destruct s; cbn; repeat destr; intros H; inv H; reflexivity.
  Qed.

  (* facts about the task running on a worker *)
  Lemma cur_facts g t l p w a :
    GI g -> LI g t l -> lrole l = RWorker p w -> cur l = Some a ->
    roles t = RWorker p w /\ tk_is g a p /\ (exists ph, In (EEnter a ph p w t) (glog g)) /\
    (forall tk, pinned g a tk -> tk_pool tk = p /\ tk_home tk = w).
  Proof.
    intros G L Hr Hc. pose proof (li_role _ _ _ L) as R. rewrite Hr in R.
    destruct (li_cur _ _ _ L _ Hc) as (p' & w' & ph & H1 & H2 & H3). rewrite <- R in H1. inv H1.
    split; [now symmetry|]. split; [assumption|]. split; [now exists ph|].
    intros tk Hp. pose proof (li_pcur _ _ _ L _ _ Hp Hc) as H. rewrite <- R in H. inv H. now split.
  Qed.

  (* do_yield on worker (p,w), first step: last worker := w (the task is still active) *)
  Lemma store_upd g t l p w a :
    GI g -> LI g t l -> lrole l = RWorker p w -> cur l = Some a ->
    let g1 := upd_task g a (t_store w) in gext g g1 /\ GI g1.
  Proof.
    intros G L Hr Hc. destruct (cur_facts _ _ _ _ _ _ G L Hr Hc) as (R & T & _ & P).
    split; [apply gext_upd; apply same_static_store|].
    apply GI_upd; [apply same_static_store| |assumption].
    intros tk Hp. cbn [t_store tk_last tk_agent]. destruct (P _ Hp) as [_ <-]. split; [now right|reflexivity].
  Qed.

  (* the scheduling loop on worker (p,w), right after pending -> active: last worker := w *)
  Lemma start_upd g t l p w a :
    GI g -> LI g t l -> lrole l = RWorker p w -> cur l = Some a ->
    let g1 := upd_task g a (t_start w) in gext g g1 /\ GI g1.
  Proof.
    intros G L Hr Hc. destruct (cur_facts _ _ _ _ _ _ G L Hr Hc) as (R & T & _ & P).
    split; [apply gext_upd; apply same_static_start|].
    apply GI_upd; [apply same_static_start| |assumption].
    intros tk Hp. cbn [t_start tk_last tk_agent]. destruct (P _ Hp) as [_ <-]. split; [now right|reflexivity].
  Qed.

  (* the running task a leaves worker (p,w): new state only *)
  Lemma leave_upd g t l p w a st :
    GI g -> LI g t l -> lrole l = RWorker p w -> cur l = Some a ->
    let g1 := upd_task g a (t_set st) in gext g g1 /\ GI g1.
  Proof.
    intros G L Hr Hc.
    split; [apply gext_upd; apply same_static_set|].
    apply GI_upd; [apply same_static_set| |assumption].
    intros tk Hp. cbn [t_set tk_last tk_st]. apply (gi_plast _ G _ _ Hp).
  Qed.

  (* re-queue of the task that just left worker (p,w) with hint = w *)
  Lemma requeue_ok g g1 t l p w a pr fb :
    GI g -> LI g t l -> lrole l = RWorker p w -> cur l = Some a -> gext g g1 -> GI g1 ->
    pr <> PLow ->
    let r := begin_enqueue cfg t g1 p a (qkind_of (cfg p) pr) (worker_hint w) fb in
    gext g (fst r) /\ GI (fst r) /\ pc_ok (fst r) (snd r).
  Proof.
    intros G L Hr Hc X1 G1 Hpr. destruct (cur_facts _ _ _ _ _ _ G L Hr Hc) as (R & T & _ & P).
    destruct (begin_ok t g1 p a (qkind_of (cfg p) pr) (worker_hint w) fb G1) as (X2 & G2 & P2).
    - eapply tk_is_ext; eauto.
    - intros tk' Hp'. destruct T as (tk & E & Hpool).
      destruct (pinned_back _ _ _ _ _ X1 Hp' E) as [Hp (S1 & S2 & S3)]. destruct (P _ Hp) as [_ Hh].
      apply (own_queue_home g1 p a pr w tk' G1 Hp'); [congruence|congruence|now right].
    - split; [eapply gext_trans; eauto|]. split; assumption.
  Qed.

  Lemma begin_gext t g p a k h fb : gext g (fst (begin_enqueue cfg t g p a k h fb)).
  Proof.
    unfold begin_enqueue. destruct (base_queue _ _ _) as [n0 r']. destruct (pElastic (cfg p)); cbn [fst].
    - apply gext_same; [reflexivity|now exists []].
    - apply gext_trans with (set_rr g p r'); [apply gext_same; [reflexivity|now exists []]|apply gext_push].
  Qed.

  Lemma qkind_normal c : qkind_of c PNormal = KN.
  Proof. unfold qkind_of. now destruct (pPrio c). Qed.

  Lemma act_task_ok t g l p w a x :
    GI g -> LI g t l -> lrole l = RWorker p w -> cur l = Some a ->
    let r := act_task cfg t g l p w a x in gext g (fst r) /\ GI (fst r) /\ LI (fst r) t (snd r).
  Proof.
    intros G L Hr Hc. destruct (cur_facts _ _ _ _ _ _ G L Hr Hc) as (R & T & (ph & Hen) & P).
    unfold act_task. destruct x.
    - (* call *) cbn [fst snd]. split; [apply gext_log|]. split.
      + apply GI_log_call; [|assumption]. exists p, w, ph. now split.
      + eapply LI_frame; [apply gext_log|assumption].
    - (* spawn *) destruct (spawn_ok t g p0 pr h G) as (X & G' & P').
      destruct (spawn cfg t g p0 pr h) as [g1 c1]. cbn [fst snd] in *.
      split; [assumption|]. split; [assumption|]. now apply LI_set_pc with g.
    - (* yield *)
      destruct (leave_upd g t l p w a TPending G L Hr Hc) as (X1 & G1).
      pose proof (requeue_ok g _ t l p w a PNormal true G L Hr Hc X1 G1) as H.
      rewrite qkind_normal in H. destruct H as (X & G' & P'); [discriminate|].
      destruct (begin_enqueue cfg t (upd_task g a (t_set TPending)) p a KN (worker_hint w) true) as [g2 c2].
      cbn [fst snd] in *. split; [assumption|]. split; [assumption|]. now apply LI_leave with g.
    - (* boost *)
      destruct (leave_upd g t l p w a TPending G L Hr Hc) as (X1 & G1). destruct direct.
      + cbn [fst snd]. split; [assumption|]. split; [assumption|]. apply LI_mk.
        * apply (li_role _ _ _ L).
        * discriminate.
        * intros b Hb. injection Hb as Hb. subst b. exists p, w. split; [assumption|eapply tk_is_ext; eauto].
        * exact Logic.I.
        * discriminate.
        * intros b tk' Hp' Hb. injection Hb as Hb. subst b. destruct T as (tk & E & Hpool).
          destruct (pinned_back _ _ _ _ _ X1 Hp' E) as [Hp (S1 & S2 & S3)]. destruct (P _ Hp) as [Hq Hh].
          rewrite S1, S2, Hq, Hh. assumption.
      + destruct (requeue_ok g _ t l p w a PBoost true G L Hr Hc X1 G1) as (X & G' & P'); [discriminate|].
        destruct (begin_enqueue cfg t (upd_task g a (t_set TPending)) p a (qkind_of (cfg p) PBoost) (worker_hint w) true) as [g2 c2].
        cbn [fst snd] in *. split; [assumption|]. split; [assumption|]. now apply LI_leave with g.
    - (* suspend *)
      destruct (leave_upd g t l p w a TSuspended G L Hr Hc) as (X1 & G1). cbn [fst snd].
      split; [assumption|]. split; [assumption|]. apply LI_leave with g; auto. exact Logic.I.
    - (* end *)
      assert (X1 : gext g (upd_task g a (t_set TTerminated))) by (apply gext_upd; apply same_static_set).
      cbn [fst snd]. split; [assumption|]. split.
      + apply GI_upd; [apply same_static_set| |assumption]. intros tk Hp. cbn [t_set tk_last tk_st].
        apply (gi_plast _ G _ _ Hp).
      + apply LI_leave with g; auto. exact Logic.I.
    - (* resume *) destruct (resume_read_ok t g b G) as (X & G' & P').
      destruct (resume_read t g b) as [g1 c1]. cbn [fst snd] in *.
      split; [assumption|]. split; [assumption|]. now apply LI_set_pc with g.
    - (* yield_to *)
      destruct (get_task g b) as [tb|] eqn:Eb; [|cbn; split; [apply gext_refl|split; assumption]].
      destruct (Nat.eqb_spec (tk_pool tb) p) as [Hpb|Hpb].
      + destruct (leave_upd g t l p w a TPending G L Hr Hc) as (X1 & G1).
        set (g1 := log_ev (upd_task g a (t_set TPending)) (EYieldTo b t)).
        assert (X1' : gext g g1) by (eapply gext_trans; [exact X1|apply gext_log]).
        assert (G1' : GI g1) by (apply GI_log_misc; [exact Logic.I|assumption]).
        pose proof (requeue_ok g g1 t l p w a PNormal true G L Hr Hc X1' G1') as H.
        rewrite qkind_normal in H. destruct H as (X & G' & P'); [discriminate|].
        destruct (begin_enqueue cfg t g1 p a KN (worker_hint w) true) as [g2 c2] eqn:Eq.
        cbn [fst snd] in *. split; [assumption|]. split; [assumption|]. apply LI_mk.
        * apply (li_role _ _ _ L).
        * discriminate.
        * intros b' Hb. injection Hb as Hb. subst b'. exists p, w. split; [assumption|].
          eapply tk_is_ext; [exact X|]. exists tb. now split.
        * assumption.
        * discriminate.
        * intros b' tk' Hp' Hb. injection Hb as Hb. subst b'. exfalso.
          destruct Hp' as (_ & _ & _ & Hny). apply (Hny (EYieldTo b t)); [reflexivity|].
          assert (X12 : gext g1 g2).
          { pose proof (begin_gext t g1 p a KN (worker_hint w) true) as F. now rewrite Eq in F. }
          eapply In_ext; [exact X12|]. now left.
      + set (g1 := log_ev g (EYieldTo b t)).
        assert (X1 : gext g g1) by apply gext_log.
        assert (G1 : GI g1) by (apply GI_log_misc; [exact Logic.I|assumption]).
        destruct (begin_ok t g1 (tk_pool tb) b KN HNone false G1) as (X2 & G2 & P2).
        * exists tb. now split.
        * intros tk' (_ & _ & _ & Hny). exfalso. apply (Hny (EYieldTo b t)); [reflexivity|]. now left.
        * destruct (begin_enqueue cfg t g1 (tk_pool tb) b KN HNone false) as [g2 c2]. cbn [fst snd] in *.
          assert (X : gext g g2) by (eapply gext_trans; eauto).
          split; [assumption|]. split; [assumption|]. now apply LI_set_pc with g.
  Qed.

  Lemma act_ext_ok t g l x :
    GI g -> LI g t l -> lrole l = RExt ->
    let r := act_ext cfg t g l x in gext g (fst r) /\ GI (fst r) /\ LI (fst r) t (snd r).
  Proof.
    intros G L Hr. unfold act_ext.
    destruct x; try (cbn; split; [apply gext_refl|split; assumption]).
    - cbn [fst snd]. split; [apply gext_log|]. split.
      + apply GI_log_call; [|assumption]. rewrite <- (li_role _ _ _ L). exact Hr.
      + eapply LI_frame; [apply gext_log|assumption].
    - destruct (spawn_ok t g p pr h G) as (X & G' & P').
      destruct (spawn cfg t g p pr h) as [g1 c1]. cbn [fst snd] in *.
      split; [assumption|]. split; [assumption|]. now apply LI_set_pc with g.
    - destruct (resume_read_ok t g b G) as (X & G' & P').
      destruct (resume_read t g b) as [g1 c1]. cbn [fst snd] in *.
      split; [assumption|]. split; [assumption|]. now apply LI_set_pc with g.
  Qed.

  Lemma step_ok o t g l :
    GI g -> LI g t l ->
    let r := pl_tstep cfg o t g l in gext g (fst r) /\ GI (fst r) /\ LI (fst r) t (snd r).
  Proof.
    intros G L. unfold pl_tstep. pose proof (li_pc _ _ _ L) as Hpc.
    assert (Triv : gext g g /\ GI g /\ LI g t l) by (split; [apply gext_refl|split; assumption]).
    destruct (pc l) eqn:Epc.
    - destruct (lrole l) eqn:Er.
      + destruct o; [exact Triv|]. now apply act_ext_ok.
      + destruct (cur l) eqn:Ec.
        * destruct o as [|x]; [exact Triv|]. destruct (is_do_yield x); [|now apply act_task_ok].
          destruct (store_upd g t l p w n G L Er Ec) as (X1 & G1). cbn [fst snd].
          split; [assumption|]. split; [assumption|]. rewrite <- Er, <- Ec. apply LI_set_pc with g; auto.
        * pose proof (li_role _ _ _ L) as R. rewrite Er in R. symmetry in R.
          destruct (nxt l) eqn:En.
          -- destruct (li_nxt _ _ _ L _ En) as (p' & w' & H1 & H2). rewrite R in H1. inv H1.
             apply try_enter_ok; auto.
             intros tk Hp. pose proof (li_pnxt _ _ _ L _ _ Hp En) as H. rewrite R in H. now inv H.
          -- destruct o; [|exact Triv]. destruct (pop_queue (cfg p) p w s) as [q|] eqn:Eq; [|exact Triv].
             destruct (nth_error (queues g q) idx) as [b|] eqn:Eb; [|exact Triv].
             apply nth_error_In in Eb.
             set (g1 := set_queue g q (remove_nth (queues g q) idx)).
             assert (X1 : gext g g1) by (apply gext_same; [reflexivity|now exists []]).
             assert (G1 : GI g1) by (apply GI_pop; assumption).
             destruct (try_enter_ok t g1 l p w b G1 R) as (X2 & G2 & L2); auto; try congruence.
             ++ pose proof (gi_q _ G _ _ Eb) as H. rewrite (pop_pool _ _ _ _ _ Eq) in H. exact H.
             ++ intros tk Hp. change (pinned g b tk) in Hp. pose proof (gi_pq _ G _ _ _ Hp Eb) as Hq.
                pose proof (gi_q _ G _ _ Eb) as Hb. rewrite (pop_pool _ _ _ _ _ Eq) in Hb.
                pose proof Hp as (Hg & Hs & _). rewrite (tk_is_fun _ _ _ _ Hb Hg) in *.
                destruct Hs as (Hs & _). destruct (pop_static _ _ _ _ _ Hs Eq) as [->|[->| ->]];
                  destruct Hq as [Hq|Hq]; inv Hq; reflexivity.
             ++ split; [eapply gext_trans; eauto|]. split; assumption.
    - destruct (sel_ok t g p a k n0 off fb G Hpc) as (X & G' & P').
      destruct (sel_step cfg t g p a k n0 off fb) as [g1 c1]. cbn [fst snd] in *.
      split; [assumption|]. split; [assumption|]. now apply LI_set_pc with g.
    - destruct (hold_ok t g p a k n0 n locked G Hpc) as (X & G').
      cbn [fst snd]. split; [assumption|]. split; [assumption|]. apply LI_set_pc with g; auto. exact Logic.I.
    - assert (L' : LI g t (mk_local (lrole l) Idle (cur l) (nxt l))).
      { apply LI_set_pc with g; [apply gext_refl|assumption|exact Logic.I]. }
      destruct (lrole l) eqn:Er; [split; [apply gext_refl|split; assumption]|].
      destruct (cur l) eqn:Ec; [|split; [apply gext_refl|split; assumption]].
      destruct (start_upd g t l p w n G L Er Ec) as (X1 & G1). cbn [fst snd].
      split; [assumption|]. split; [assumption|]. rewrite <- Er, <- Ec. apply LI_set_pc with g; auto.
    - assert (L' : LI g t (mk_local (lrole l) Idle (cur l) (nxt l))).
      { apply LI_set_pc with g; [apply gext_refl|assumption|exact Logic.I]. }
      destruct (lrole l) eqn:Er; [split; [apply gext_refl|split; assumption]|].
      destruct (cur l) eqn:Ec; [|split; [apply gext_refl|split; assumption]].
      apply act_task_ok; auto.
    - destruct (resume_ok t g b h G Hpc) as (X & G' & P').
      destruct (resume cfg t g b h) as [g1 c1]. cbn [fst snd] in *.
      split; [assumption|]. split; [assumption|]. now apply LI_set_pc with g.
  Qed.

  (* ---------------------------------------------------------------- whole runs *)
  Definition Inv (g : gstate) (ls : nat -> local) : Prop := GI g /\ forall t, LI g t (ls t).

  Lemma Inv_step o t g ls : Inv g ls ->
    Inv (fst (pl_tstep cfg o t g (ls t))) (upd ls t (snd (pl_tstep cfg o t g (ls t)))).
  Proof.
    intros [G L]. destruct (step_ok o t g (ls t) G (L t)) as (X & G' & L'). split; [assumption|].
    intros t'. unfold upd. destruct (Nat.eqb_spec t' t) as [->|N]; [assumption|].
    eapply LI_frame; eauto.
  Qed.

  Lemma Inv_init : Inv g_init (l_init roles).
  Proof.
    split.
    - constructor; cbn; try tauto; intros;
        repeat match goal with H : pinned _ _ _ |- _ => destruct H as (H & _) end;
        unfold get_task in *; cbn in *;
        match goal with H : nth_error [] ?a = Some _ |- _ => destruct a; discriminate end.
    - intros t. constructor; cbn; auto; discriminate.
  Qed.

  Lemma Inv_run sched : Inv (fst (pl_run cfg sched (g_init, l_init roles))) (snd (pl_run cfg sched (g_init, l_init roles))).
  Proof. unfold pl_run. apply (run_inv _ _ _ (pl_tstep cfg) Inv). - intros; now apply Inv_step. - apply Inv_init. Qed.
End Inv.

(* ------------------------------------------------------------------ run-level theorems *)
Definition run_g (cfg : nat -> pool_cfg) (roles : nat -> role) (sched : list (nat * oracle)) : gstate :=
  fst (pl_run cfg sched (g_init, l_init roles)).

Lemma run_GI cfg roles sched : GI cfg roles (run_g cfg roles sched).
Proof. apply (Inv_run cfg roles sched). Qed.

(* 1. a step that is a submission (the thread runs a task, is an external thread, or is inside
      create_thread/schedule_thread) never produces an enter event; the only steps that do are
      steps of idle workers starting a task that was already pending before the step *)
Lemma submit_never_inline_step cfg o t g l :
  let g' := fst (pl_tstep cfg o t g l) in
  enters (glog g') = enters (glog g) \/
  exists p w b tk, lrole l = RWorker p w /\ pc l = Idle /\ cur l = None /\
    get_task g b = Some tk /\ tk_st tk = TPending /\
    glog g' = EEnter b (S (tk_phase tk)) p w t :: glog g.
Proof. apply step_enter_cases. Qed.

Lemma submit_never_inline_run cfg roles sched :
  let g := run_g cfg roles sched in
  (forall a ph p w t, In (EEnter a ph p w t) (glog g) -> roles t = RWorker p w) /\
  (forall lbl a t, In (ECall lbl (CTask a) t) (glog g) ->
     exists p w ph, roles t = RWorker p w /\ In (EEnter a ph p w t) (glog g)) /\
  (forall lbl t, In (ECall lbl CExt t) (glog g) -> roles t = RExt).
Proof.
  cbn zeta. pose proof (run_GI cfg roles sched) as G. split; [|split].
  - intros a ph p w t H. apply (gi_enter _ _ _ G _ _ _ _ _ H).
  - apply (gi_call _ _ _ G).
  - apply (gi_callx _ _ _ G).
Qed.

(* 2. *)
Lemma runs_on_own_pool_lemma cfg roles sched a p0 pr h t0 ph p w t :
  let g := run_g cfg roles sched in
  In (ESubmit a p0 pr h t0) (glog g) -> In (EEnter a ph p w t) (glog g) ->
  p = p0 /\ roles t = RWorker p0 w.
Proof.
  cbn zeta. pose proof (run_GI cfg roles sched) as G. intros Hs He.
  destruct (gi_sub _ _ _ G _ _ _ _ _ Hs) as (tk & H1 & H2 & _).
  destruct (gi_enter _ _ _ G _ _ _ _ _ He) as (H3 & (tk' & H4 & H5)).
  assert (tk' = tk) by congruence. subst tk'. split; congruence.
Qed.

Lemma stored_not_low pr : pr <> PLow -> stored_prio pr <> PLow.
Proof. destruct pr; cbn; congruence. Qed.

Lemma no_yieldto_of g a : (forall t', ~ In (EYieldTo a t') (glog g)) -> no_yieldto g a.
Proof.
  intros Hny e He. destruct e as [| | | |b t'| |]; cbn in He; try contradiction. subst b. apply Hny.
Qed.

(* 3. *)
Lemma static_hint_pinned_lemma cfg roles sched a p pr h t0 u ph p' w t :
  let g := run_g cfg roles sched in
  static_ok (cfg p) -> (pPrio (cfg p) = false \/ pr <> PLow) ->
  In (ESubmit a p pr h t0) (glog g) -> hint_num h = Some u ->
  (forall t', ~ In (EYieldTo a t') (glog g)) ->
  In (EEnter a ph p' w t) (glog g) ->
  p' = p /\ w = Z.to_nat (u mod Z.of_nat (pW (cfg p))) /\ roles t = RWorker p w.
Proof.
  cbn zeta. pose proof (run_GI cfg roles sched) as G. intros Hok Hpr Hs Hu Hny He.
  destruct (runs_on_own_pool_lemma cfg roles sched _ _ _ _ _ _ _ _ _ Hs He) as [-> Hr].
  destruct (gi_sub _ _ _ G _ _ _ _ _ Hs) as (tk & H1 & H2 & H3 & H4).
  assert (Hp : pinned cfg (run_g cfg roles sched) a tk).
  { split; [assumption|]. rewrite H2. split; [assumption|]. split; [|now apply no_yieldto_of].
    destruct Hpr as [?|Hpr]; [now left|right]. rewrite H3. now apply stored_not_low. }
  pose proof (gi_penter _ _ _ G _ _ _ _ _ _ Hp He) as Hw. rewrite (H4 _ Hu) in Hw.
  split; [reflexivity|]. split; assumption.
Qed.

(* without a hint (round-robin placement) the task still never moves *)
Lemma static_same_worker_lemma cfg roles sched a p pr h t0 ph1 p1 w1 t1 ph2 p2 w2 t2 :
  let g := run_g cfg roles sched in
  static_ok (cfg p) -> (pPrio (cfg p) = false \/ pr <> PLow) ->
  In (ESubmit a p pr h t0) (glog g) -> (forall t', ~ In (EYieldTo a t') (glog g)) ->
  In (EEnter a ph1 p1 w1 t1) (glog g) -> In (EEnter a ph2 p2 w2 t2) (glog g) ->
  p1 = p /\ p2 = p /\ w1 = w2 /\ w1 < pW (cfg p).
Proof.
  cbn zeta. pose proof (run_GI cfg roles sched) as G. intros Hok Hpr Hs Hny He1 He2.
  destruct (runs_on_own_pool_lemma cfg roles sched _ _ _ _ _ _ _ _ _ Hs He1) as [-> _].
  destruct (runs_on_own_pool_lemma cfg roles sched _ _ _ _ _ _ _ _ _ Hs He2) as [-> _].
  destruct (gi_sub _ _ _ G _ _ _ _ _ Hs) as (tk & H1 & H2 & H3 & H4).
  assert (Hp : pinned cfg (run_g cfg roles sched) a tk).
  { split; [assumption|]. rewrite H2. split; [assumption|]. split; [|now apply no_yieldto_of].
    destruct Hpr as [?|Hpr]; [now left|right]. rewrite H3. now apply stored_not_low. }
  rewrite (gi_penter _ _ _ G _ _ _ _ _ _ Hp He1), (gi_penter _ _ _ G _ _ _ _ _ _ Hp He2).
  repeat split; auto. pose proof (gi_home _ _ _ G _ _ H1) as Hh. rewrite H2 in Hh. apply Hh. apply Hok.
Qed.

(* 4. the callable of a task created by a transfer to the scheduler of pool p (schedule,
      continues_on = schedule_from, transfer_just, execute, bulk chunk) is called by a worker of
      pool p that entered that task *)
Lemma continues_on_target_lemma cfg roles sched a p pr h t0 lbl t :
  let g := run_g cfg roles sched in
  In (ESubmit a p pr h t0) (glog g) -> In (ECall lbl (CTask a) t) (glog g) ->
  exists w ph, roles t = RWorker p w /\ In (EEnter a ph p w t) (glog g).
Proof.
  cbn zeta. pose proof (run_GI cfg roles sched) as G. intros Hs Hc.
  destruct (gi_call _ _ _ G _ _ _ Hc) as (p' & w & ph & H1 & H2).
  destruct (runs_on_own_pool_lemma cfg roles sched _ _ _ _ _ _ _ _ _ Hs H2) as [-> _].
  now exists w, ph.
Qed.

(* ------------------------------------------------------------------ the three refutations *)
Definition mkcfg (W H : nat) (prio steal elastic : bool) : nat -> pool_cfg :=
  fun _ => {| pW := W; pH := H; pPrio := prio; pSteal := steal; pElastic := elastic; pAvail := fun _ => true |}.
Definition roles4 : nat -> role := fun t => if t <? 4 then RWorker 0 t else RExt.

(* E6: static policy + enable_elasticity, two concurrent hinted submitters (threads 10, 11) *)
Definition e6_sched : list (nat * oracle) :=
  [ (10, OAct (ASpawn 0 PNormal (HThread 2)));   (* task 0: in select_active_pu *)
    (10, OAct AEnd);                             (* try_lock(pu 2) succeeds *)
    (11, OAct (ASpawn 0 PNormal (HThread 2)));   (* task 1 *)
    (11, OAct AEnd);                             (* try_lock(pu 2) fails *)
    (11, OAct AEnd);                             (* try_lock(pu 3) succeeds *)
    (11, OAct AEnd);                             (* push to queue 3, unlock *)
    (10, OAct AEnd);                             (* push to queue 2, unlock *)
    (3, OPop SrcOwnN 0) ].                       (* worker 3 runs the task hinted to worker 2 *)

Lemma static_hint_elastic_refuted_lemma :
  exists cfg roles sched a p h t0 u ph w t,
    let g := run_g cfg roles sched in
    pSteal (cfg p) = false /\ pElastic (cfg p) = true /\ pPrio (cfg p) = false /\ 0 < pW (cfg p) /\
    In (ESubmit a p PNormal h t0) (glog g) /\ hint_num h = Some u /\
    (forall t', ~ In (EYieldTo a t') (glog g)) /\
    In (EEnter a ph p w t) (glog g) /\ w <> Z.to_nat (u mod Z.of_nat (pW (cfg p))).
Proof.
  exists (mkcfg 4 4 false false true), roles4, e6_sched, 1, 0, (HThread 2), 11, 2%Z, 1, 3, 3.
  vm_compute. repeat split; try discriminate; try lia; intuition discriminate.
Qed.

(* yield_to: task 0 (hint 0) is run by worker 1 because task 1 names it in yield_to *)
Definition yt_sched : list (nat * oracle) :=
  [ (10, OAct (ASpawn 0 PNormal (HThread 0)));
    (10, OAct (ASpawn 0 PNormal (HThread 1)));
    (0, OPop SrcOwnN 0); (1, OPop SrcOwnN 0);
    (0, OAct AEnd); (1, OAct AEnd);              (* scheduling loop: store last worker, invoke *)
    (0, OAct AYield); (0, OAct AYield);          (* do_yield: store last worker; switch out *)
    (1, OAct (AYieldTo 0));
    (1, OPop SrcOwnN 0) ].                       (* next_thrd: worker 1 enters task 0 *)

Lemma static_hint_yield_to_refuted_lemma :
  exists cfg roles sched a p h t0 u ph w t,
    let g := run_g cfg roles sched in
    static_ok (cfg p) /\
    In (ESubmit a p PNormal h t0) (glog g) /\ hint_num h = Some u /\
    In (EEnter a ph p w t) (glog g) /\ w <> Z.to_nat (u mod Z.of_nat (pW (cfg p))).
Proof.
  exists (mkcfg 4 4 false false false), roles4, yt_sched, 0, 0, (HThread 0), 10, 0%Z, 2, 1, 1.
  vm_compute. repeat split; try discriminate; try lia; intuition discriminate.
Qed.

(* boost: static-priority with 2 high-priority queues for 4 workers; task hinted to worker 3 *)
Definition boost_sched : list (nat * oracle) :=
  [ (10, OAct (ASpawn 0 PNormal (HThread 3)));
    (3, OPop SrcOwnN 0); (3, OAct AEnd);         (* enter; store last worker, invoke *)
    (3, OAct (ABoost false)); (3, OAct AEnd);    (* yield_k(k >= 16): do_yield store; pending_boost *)
    (1, OPop SrcOwnH 0) ].

Lemma static_hint_boost_refuted_lemma :
  exists cfg roles sched a p h t0 u ph w t,
    let g := run_g cfg roles sched in
    pSteal (cfg p) = false /\ pElastic (cfg p) = false /\ pPrio (cfg p) = true /\ pH (cfg p) < pW (cfg p) /\
    In (ESubmit a p PNormal h t0) (glog g) /\ hint_num h = Some u /\
    (forall t', ~ In (EYieldTo a t') (glog g)) /\
    In (EEnter a ph p w t) (glog g) /\ w <> Z.to_nat (u mod Z.of_nat (pW (cfg p))).
Proof.
  exists (mkcfg 4 2 true false false), roles4, boost_sched, 0, 0, (HThread 3), 10, 3%Z, 2, 1, 1.
  vm_compute. repeat split; try discriminate; try lia; intuition discriminate.
Qed.
