(* Proofs/BackendsProofs.v — order guarantees of the queue back-ends, against the two-ended
   list specification (Model/DequeSpec.v), using the ends table GENERATED from the header
   (Gen/GenBackends.v).  All lemmas are for arbitrary value lists / arbitrary initial contents;
   only [backend_ends_table] / [backend_defaults_table] are finite facts about the table. *)
From Coq Require Import List NArith Bool Arith Lia.
From Pika Require Import Model.IndexQueue Model.DequeSpec Gen.GenBackends Model.Backends.
Import ListNotations.

(* ------------------------------------------------------------------ the table itself *)
(* breaks (does not compile) as soon as the header swaps an end *)
Lemma backend_ends_table :
  push_end Lifo false = SL /\ push_end Lifo true = SR /\
  pop_end Lifo false = SL /\ pop_end Lifo true = SL /\
  push_end AbpFifo false = SL /\ push_end AbpFifo true = SL /\
  pop_end AbpFifo false = SR /\ pop_end AbpFifo true = SL /\
  push_end AbpLifo false = SL /\ push_end AbpLifo true = SR /\
  pop_end AbpLifo false = SL /\ pop_end AbpLifo true = SR.
Proof. repeat split; reflexivity. Qed.

Lemma backend_defaults_table :
  push_default_other_end = false /\ pop_default_steal = true /\ fifo_backend_is_concurrentqueue = true.
Proof. repeat split; reflexivity. Qed.

(* ------------------------------------------------------------------ views *)
Lemma view_view : forall s l, view s (view s l) = l.
Proof. intros [|] l; cbn [view]; [reflexivity | apply rev_involutive]. Qed.

Lemma view_opp : forall s l, view (opp s) l = rev (view s l).
Proof. intros [|] l; cbn [view opp]; [reflexivity | symmetry; apply rev_involutive]. Qed.

Lemma view_length : forall s l, length (view s l) = length l.
Proof. intros [|] l; cbn [view]; [reflexivity | apply rev_length]. Qed.

Lemma opp_opp : forall s, opp (opp s) = s.
Proof. intros [|]; reflexivity. Qed.

Lemma side_eqb_eq : forall a b, side_eqb a b = true <-> a = b.
Proof. intros [|] [|]; cbn; split; intro H; try reflexivity; discriminate H. Qed.

(* ------------------------------------------------------------------ spec_run, generic in the side *)
Lemma spec_run_app : forall a b l,
  spec_run (a ++ b) l =
  (fst (spec_run a l) ++ fst (spec_run b (snd (spec_run a l))), snd (spec_run b (snd (spec_run a l)))).
Proof.
  induction a as [|o a IH]; intros b l.
  - cbn [app spec_run fst snd]. destruct (spec_run b l); reflexivity.
  - cbn [app spec_run]. destruct (spec_step o l) as [r l1]. rewrite IH.
    destruct (spec_run a l1) as [ra la]. cbn [fst snd].
    destruct (spec_run b la) as [rb lb]. reflexivity.
Qed.

(* pushing vs at end s: seen from s the list is  rev vs ++ (old contents)  (newest first) *)
Lemma spec_run_pushes : forall s vs l,
  spec_run (map (Push s) vs) l = (nones (length vs), view s (rev vs ++ view s l)).
Proof.
  intros s vs. induction vs as [|v vs IH]; intros l.
  - cbn. rewrite view_view. reflexivity.
  - cbn [map spec_run spec_step]. rewrite IH, view_view.
    cbn [length nones repeat rev]. rewrite <- app_assoc. reflexivity.
Qed.

(* k pops at end s: the first k elements seen from s, then failures *)
Lemma spec_run_pops : forall s k l,
  spec_run (repeat (Pop s) k) l =
  (map Some (firstn k (view s l)) ++ nones (k - length l), view s (skipn k (view s l))).
Proof.
  intros s k. induction k as [|k IH]; intros l.
  - cbn. rewrite view_view. reflexivity.
  - cbn [repeat spec_run spec_step].
    pose proof (view_length s l) as HL.
    destruct (view s l) as [|x r] eqn:E.
    + rewrite IH, E. cbn [length] in HL. rewrite <- HL.
      rewrite !firstn_nil, !skipn_nil. cbn [map app]. rewrite Nat.sub_0_r. reflexivity.
    + rewrite IH, view_view, view_length. cbn [length] in HL. rewrite <- HL.
      cbn [firstn skipn map app Nat.sub]. reflexivity.
Qed.

(* push vs at s, then k pops at the SAME end: newest first, then the old contents *)
Lemma push_pop_same_end : forall s vs k l,
  spec_run (map (Push s) vs ++ repeat (Pop s) k) l =
  (nones (length vs) ++ map Some (firstn k (rev vs ++ view s l)) ++ nones (k - (length vs + length l)),
   view s (skipn k (rev vs ++ view s l))).
Proof.
  intros s vs k l. rewrite spec_run_app, spec_run_pushes. cbn [fst snd].
  rewrite spec_run_pops, !view_view, view_length, app_length, rev_length, view_length. reflexivity.
Qed.

(* push vs at s, then k pops at the OPPOSITE end: the old contents as seen from that end
   first, then vs in push order (oldest first) *)
Lemma push_pop_opp_end : forall s vs k l,
  spec_run (map (Push s) vs ++ repeat (Pop (opp s)) k) l =
  (nones (length vs) ++ map Some (firstn k (view (opp s) l ++ vs)) ++ nones (k - (length vs + length l)),
   view (opp s) (skipn k (view (opp s) l ++ vs))).
Proof.
  intros s vs k l. rewrite spec_run_app, spec_run_pushes. cbn [fst snd].
  rewrite spec_run_pops, view_length, app_length, rev_length, view_length.
  rewrite (view_opp s (view s _)), view_view, rev_app_distr, rev_involutive, <- view_opp. reflexivity.
Qed.

Lemma firstn_exact : forall (a b : list N) n, n = length a -> firstn n (a ++ b) = a.
Proof.
  intros a b n ->. replace (length a) with (length a + 0) by lia.
  rewrite firstn_app_2. cbn [firstn]. apply app_nil_r.
Qed.

Lemma skipn_exact : forall (a b : list N) n, n = length a -> skipn n (a ++ b) = b.
Proof.
  intros a b n ->. rewrite skipn_app, skipn_all, Nat.sub_diag. reflexivity.
Qed.

(* exactly as many pops as pushes, same end: LIFO, contents restored *)
Lemma push_pop_same_end_all : forall s vs l,
  spec_run (map (Push s) vs ++ repeat (Pop s) (length vs)) l =
  (nones (length vs) ++ map Some (rev vs), l).
Proof.
  intros s vs l. rewrite push_pop_same_end.
  rewrite (firstn_exact (rev vs) _ (length vs)), (skipn_exact (rev vs) _ (length vs))
    by (symmetry; apply rev_length).
  replace (length vs - (length vs + length l)) with 0 by lia.
  cbn [nones repeat]. rewrite app_nil_r, view_view. reflexivity.
Qed.

(* from the empty list, opposite end: FIFO, empty again *)
Lemma push_pop_opp_end_all : forall s vs,
  spec_run (map (Push s) vs ++ repeat (Pop (opp s)) (length vs)) [] =
  (nones (length vs) ++ map Some vs, []).
Proof.
  intros s vs. rewrite push_pop_opp_end.
  assert (Hv : view (opp s) [] = []) by (destruct s; reflexivity).
  rewrite Hv. cbn [app length]. rewrite firstn_all, skipn_all.
  replace (length vs - (length vs + 0)) with 0 by lia.
  cbn [nones repeat]. rewrite app_nil_r, Hv. reflexivity.
Qed.

(* ------------------------------------------------------------------ back-ends, generic in b
   (hypotheses are decidable facts about the generated table; instances below) *)
Lemma owner_lifo_if_same_end : forall b, owner_same_end b = true -> forall vs l,
  spec_run (map (owner_push b) vs ++ repeat (owner_pop b) (length vs)) l =
  (nones (length vs) ++ map Some (rev vs), l).
Proof.
  intros b H vs l. apply side_eqb_eq in H. unfold owner_pop. rewrite H.
  apply (push_pop_same_end_all (push_end b false)).
Qed.

Lemma owner_fifo_if_opp_end : forall b, owner_same_end b = false -> forall vs,
  spec_run (map (owner_push b) vs ++ repeat (owner_pop b) (length vs)) [] =
  (nones (length vs) ++ map Some vs, []).
Proof.
  intros b H vs. unfold owner_pop, owner_same_end in *.
  assert (E : pop_end b false = opp (push_end b false)).
  { destruct (pop_end b false), (push_end b false); cbn in H |- *; congruence. }
  rewrite E. apply (push_pop_opp_end_all (push_end b false)).
Qed.

(* ------------------------------------------------------------------ (a) owner order: LIFO back-ends *)
Lemma lifo_owner_lifo : forall vs l,
  spec_run (map (owner_push Lifo) vs ++ repeat (owner_pop Lifo) (length vs)) l =
  (nones (length vs) ++ map Some (rev vs), l).
Proof. apply owner_lifo_if_same_end. reflexivity. Qed.

Lemma abp_lifo_owner_lifo : forall vs l,
  spec_run (map (owner_push AbpLifo) vs ++ repeat (owner_pop AbpLifo) (length vs)) l =
  (nones (length vs) ++ map Some (rev vs), l).
Proof. apply owner_lifo_if_same_end. reflexivity. Qed.

(* ------------------------------------------------------------------ (b) owner order: abp_fifo *)
Lemma abp_fifo_owner_fifo : forall vs,
  spec_run (map (owner_push AbpFifo) vs ++ repeat (owner_pop AbpFifo) (length vs)) [] =
  (nones (length vs) ++ map Some vs, []).
Proof. apply owner_fifo_if_opp_end. reflexivity. Qed.

(* from arbitrary contents l and any number k of owner pops: the owner gets the old contents
   first (in the order seen from its pop end), then vs in push order, then failures *)
Lemma abp_fifo_owner_fifo_general : forall vs k l,
  spec_run (map (owner_push AbpFifo) vs ++ repeat (owner_pop AbpFifo) k) l =
  (nones (length vs) ++ map Some (firstn k (view (pop_end AbpFifo false) l ++ vs))
     ++ nones (k - (length vs + length l)),
   view (pop_end AbpFifo false) (skipn k (view (pop_end AbpFifo false) l ++ vs))).
Proof.
  intros vs k l. unfold owner_pop.
  change (pop_end AbpFifo false) with (opp (push_end AbpFifo false)).
  apply (push_pop_opp_end (push_end AbpFifo false)).
Qed.

(* ------------------------------------------------------------------ (c) thieves *)
(* abp_lifo: the thief takes from the end opposite to the owner: oldest first *)
Lemma abp_lifo_thief_opposite : pop_end AbpLifo true = opp (pop_end AbpLifo false).
Proof. reflexivity. Qed.

Lemma abp_lifo_thief_oldest_first_general : forall vs k l,
  spec_run (map (owner_push AbpLifo) vs ++ repeat (thief_pop AbpLifo) k) l =
  (nones (length vs) ++ map Some (firstn k (view (pop_end AbpLifo true) l ++ vs))
     ++ nones (k - (length vs + length l)),
   view (pop_end AbpLifo true) (skipn k (view (pop_end AbpLifo true) l ++ vs))).
Proof.
  intros vs k l. unfold thief_pop.
  change (pop_end AbpLifo true) with (opp (push_end AbpLifo false)).
  apply (push_pop_opp_end (push_end AbpLifo false)).
Qed.

Lemma abp_lifo_thief_oldest_first : forall vs k, k <= length vs ->
  spec_run (map (owner_push AbpLifo) vs ++ repeat (thief_pop AbpLifo) k) [] =
  (nones (length vs) ++ map Some (firstn k vs), view (pop_end AbpLifo true) (skipn k vs)).
Proof.
  intros vs k Hk. rewrite abp_lifo_thief_oldest_first_general.
  assert (Hv : view (pop_end AbpLifo true) [] = []) by (destruct (pop_end AbpLifo true); reflexivity).
  rewrite Hv. cbn [app length].
  replace (k - (length vs + 0)) with 0 by lia. cbn [nones repeat]. rewrite app_nil_r. reflexivity.
Qed.

(* abp_fifo: the thief takes at the pushing end: newest first (and the owner the oldest) *)
Lemma abp_fifo_thief_opposite : pop_end AbpFifo true = opp (pop_end AbpFifo false)
                                /\ pop_end AbpFifo true = push_end AbpFifo false.
Proof. split; reflexivity. Qed.

Lemma abp_fifo_thief_newest_first_general : forall vs k l,
  spec_run (map (owner_push AbpFifo) vs ++ repeat (thief_pop AbpFifo) k) l =
  (nones (length vs) ++ map Some (firstn k (rev vs ++ view (pop_end AbpFifo true) l))
     ++ nones (k - (length vs + length l)),
   view (pop_end AbpFifo true) (skipn k (rev vs ++ view (pop_end AbpFifo true) l))).
Proof.
  intros vs k l. unfold thief_pop.
  change (pop_end AbpFifo true) with (push_end AbpFifo false).
  apply (push_pop_same_end (push_end AbpFifo false)).
Qed.

Lemma abp_fifo_thief_newest_first : forall vs k, k <= length vs ->
  spec_run (map (owner_push AbpFifo) vs ++ repeat (thief_pop AbpFifo) k) [] =
  (nones (length vs) ++ map Some (firstn k (rev vs)), view (pop_end AbpFifo true) (skipn k (rev vs))).
Proof.
  intros vs k Hk. rewrite abp_fifo_thief_newest_first_general.
  assert (Hv : view (pop_end AbpFifo true) [] = []) by (destruct (pop_end AbpFifo true); reflexivity).
  rewrite Hv, app_nil_r. cbn [length].
  replace (k - (length vs + 0)) with 0 by lia. cbn [nones repeat]. rewrite app_nil_r. reflexivity.
Qed.

(* lifo: a thief is indistinguishable from the owner (same end) *)
Lemma lifo_thief_is_owner : thief_pop Lifo = owner_pop Lifo.
Proof. reflexivity. Qed.

Lemma lifo_thief_lifo : forall vs l,
  spec_run (map (owner_push Lifo) vs ++ repeat (thief_pop Lifo) (length vs)) l =
  (nones (length vs) ++ map Some (rev vs), l).
Proof. rewrite lifo_thief_is_owner. apply lifo_owner_lifo. Qed.

(* push(val, other_end = true): the opposite end for lifo / abp_lifo, ignored by abp_fifo *)
Lemma other_end_table :
  push_end Lifo true = opp (push_end Lifo false) /\
  push_end AbpLifo true = opp (push_end AbpLifo false) /\
  push_end AbpFifo true = push_end AbpFifo false.
Proof. repeat split; reflexivity. Qed.

(* classification of the three back-ends (decidable facts about the generated table) *)
Lemma backend_classes :
  owner_same_end Lifo = true /\ thief_opposite Lifo = false /\
  owner_same_end AbpFifo = false /\ thief_opposite AbpFifo = true /\
  owner_same_end AbpLifo = true /\ thief_opposite AbpLifo = true.
Proof. repeat split; reflexivity. Qed.
