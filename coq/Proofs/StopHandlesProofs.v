(* Proofs/StopHandlesProofs.v — C14 handle histories: the two reference counters of every stop state
   are exact in every sequential history of stop_source / stop_token operations
   (Model/StopHandles.v), and what follows from it for stop_possible / stop_requested /
   request_stop.  All theorems are by induction over arbitrary histories. *)
From Coq Require Import NArith Bool List Arith Lia ZArith.
From Pika Require Import Gen.GenStopBits Model.StopWord Model.StopHandles Proofs.StopWordProofs.
Import ListNotations.

Definition b1 (b : bool) : nat := if b then 1 else 0.

(* ------------------------------------------------------------------ tables *)
Section TableLemmas.
  Context {A : Type}.
  Implicit Types (l : list (option A)) (v : option A).

  Lemma sl_get_set i j v l : sl_get j (sl_set i v l) = if i =? j then v else sl_get j l.
  Proof.
    unfold sl_get. revert j l. induction i as [|i IH]; intros j l.
    - destruct j, l; cbn; try reflexivity. destruct j; reflexivity.
    - destruct j, l; cbn [sl_set nth Nat.eqb]; try reflexivity.
      + rewrite IH. destruct (i =? j); [reflexivity|]. destruct j; reflexivity.
      + apply IH.
  Qed.

  Lemma sl_get_same i v l : sl_get i (sl_set i v l) = v.
  Proof. rewrite sl_get_set, Nat.eqb_refl. reflexivity. Qed.

  Lemma sl_cnt_set f i v l : f None = false ->
    sl_cnt f (sl_set i v l) + b1 (f (sl_get i l)) = sl_cnt f l + b1 (f v).
  Proof.
    intro Hf. unfold sl_get. revert l. induction i as [|i IH]; intros [|x t]; cbn [sl_set sl_cnt nth].
    - rewrite Hf. unfold b1. destruct (f v); lia.
    - unfold b1. destruct (f v), (f x); lia.
    - specialize (IH []). rewrite Hf in *. cbn [sl_cnt] in IH.
      replace (nth i [] None) with (@None A) in IH by (destruct i; reflexivity).
      rewrite Hf in IH. unfold b1 in *. lia.
    - specialize (IH t). unfold b1 in *. destruct (f x); lia.
  Qed.

  Lemma sl_cnt_pos f l : f None = false -> (1 <= sl_cnt f l <-> exists j, f (sl_get j l) = true).
  Proof.
    intro Hf. unfold sl_get. induction l as [|x t IH]; cbn [sl_cnt].
    - split; [lia|]. intros [j H]. destruct j; cbn in H; congruence.
    - split.
      + intro H. destruct (f x) eqn:E.
        * exists O. exact E.
        * destruct IH as [IH _]. destruct IH as [j Hj]; [lia|]. exists (S j). exact Hj.
      + intros [[|j] Hj]; cbn [nth] in Hj.
        * rewrite Hj. lia.
        * destruct IH as [_ IH]. assert (1 <= sl_cnt f t) by (apply IH; eauto). lia.
  Qed.

  Lemma sl_cnt_le f g l : (forall x, f x = true -> g x = true) -> sl_cnt f l <= sl_cnt g l.
  Proof.
    intro H. induction l as [|x t IH]; cbn [sl_cnt]; [lia|].
    destruct (f x) eqn:E; [rewrite (H _ E); lia | destruct (g x); lia].
  Qed.

  Lemma sl_get_overflow i l : length l <= i -> sl_get i l = None.
  Proof. intro H. unfold sl_get. now apply nth_overflow. Qed.

  Lemma sl_get_some_lt i l x : sl_get i l = Some x -> i < length l.
  Proof.
    intro H. destruct (Nat.lt_ge_cases i (length l)) as [Hl|Hg]; [exact Hl|].
    rewrite sl_get_overflow in H by exact Hg. discriminate.
  Qed.

  Lemma sl_set_length i v l : length (sl_set i v l) = Nat.max (S i) (length l).
  Proof.
    revert l. induction i as [|i IH]; intros [|x t]; cbn [sl_set length]; try reflexivity.
    - rewrite IH. cbn [length]. lia.
    - rewrite IH. lia.
  Qed.
End TableLemmas.

(* ------------------------------------------------------------------ counting handles *)
Definition refs (s : nat) (v : slot) : bool :=
  match v with Some (Some s') => s' =? s | _ => false end.
Definition is_alive (v : slot) : bool := match v with Some _ => true | None => false end.

(* owners of state s = alive stop_source and stop_token objects referring to it *)
Definition n_src (st : hstate) (s : nat) : nat := sl_cnt (refs s) (srcs st).
Definition n_tok (st : hstate) (s : nat) : nat := sl_cnt (refs s) (toks st).
Definition n_own (st : hstate) (s : nat) : nat := n_src st s + n_tok st s.
Definition live (st : hstate) : nat := sl_cnt is_alive (srcs st) + sl_cnt is_alive (toks st).

Lemma refs_none s : refs s None = false. Proof. reflexivity. Qed.
Lemma alive_none : is_alive None = false. Proof. reflexivity. Qed.

Lemma n_own_le_live st s : n_own st s <= live st.
Proof.
  unfold n_own, n_src, n_tok, live.
  assert (H : forall l, sl_cnt (refs s) l <= sl_cnt is_alive l).
  { intro l. apply sl_cnt_le. intros [[x|]|]; cbn; congruence. }
  pose proof (H (srcs st)). pose proof (H (toks st)). lia.
Qed.

Lemma refs_get_pos s i l : sl_get i l = Some (Some s) -> 1 <= sl_cnt (refs s) l.
Proof.
  intro H. apply sl_cnt_pos; [reflexivity|]. exists i. rewrite H. cbn. apply Nat.eqb_refl.
Qed.

(* ------------------------------------------------------------------ heap invariant *)
(* T s owners, S s of them sources *)
Definition HInv (h : heap_t) (T S : nat -> nat) : Prop :=
  forall s, S s <= T s /\
    match sl_get s h with
    | Some w => (exists r, w = pack (N.of_nat (T s)) r (N.of_nat (S s))) /\ 1 <= T s
    | None => T s = O
    end.

(* what a step may do to the heap as far as the requested flag and freed states go *)
Definition HRel (h h' : heap_t) : Prop :=
  length h <= length h' /\
  forall s,
    (s < length h -> sl_get s h = None -> sl_get s h' = None) /\
    (forall w w', sl_get s h = Some w -> w_stop_requested w = true -> sl_get s h' = Some w' ->
                  w_stop_requested w' = true).

Lemma HRel_refl h : HRel h h.
Proof. split; [lia|]. intro s. split; [auto|]. intros w w' H R H'. congruence. Qed.

Lemma HRel_trans h1 h2 h3 : HRel h1 h2 -> HRel h2 h3 -> HRel h1 h3.
Proof.
  intros [L1 R1] [L2 R2]. split; [lia|]. intro s.
  destruct (R1 s) as [A1 B1]. destruct (R2 s) as [A2 B2]. split.
  - intros Hl Hn. apply A2; [lia|]. now apply A1.
  - intros w w'' H R H''. destruct (sl_get s h2) as [w'|] eqn:E.
    + eapply B2; eauto.
    + assert (s < length h1) by (eapply sl_get_some_lt; eauto).
      rewrite A2 in H''; [discriminate|lia|reflexivity].
  Qed.

Ltac natN := unfold cap in *; lia.

Lemma HInv_alloc h T S a : HInv h T S -> 1 <= T a -> exists w, sl_get a h = Some w.
Proof.
  intros H Ha. destruct (H a) as [_ Hm]. destruct (sl_get a h) as [w|]; [eauto|lia].
Qed.

Lemma HInv_ext h T S T' S' : HInv h T S -> (forall s, T' s = T s) -> (forall s, S' s = S s) ->
  HInv h T' S'.
Proof. intros H HT HS s. rewrite HT, HS. apply H. Qed.

(* a point update of the heap at a *)
Lemma HRel_set h a w wn :
  sl_get a h = Some w ->
  (match wn with Some w' => w_stop_requested w = true -> w_stop_requested w' = true | None => True end) ->
  HRel h (sl_set a wn h).
Proof.
  intros Ha Hr. pose proof (sl_get_some_lt _ _ _ Ha) as Hlt. split.
  - rewrite sl_set_length. lia.
  - intro s. rewrite sl_get_set. destruct (Nat.eqb_spec a s) as [->|Hne].
    + split; [intros _ Hn; congruence|]. intros w0 w' H0 R H'. subst wn.
      rewrite Ha in H0. injection H0 as <-. auto.
    + split; [auto|]. intros; congruence.
Qed.

Section Micro.
  Variables (h : heap_t) (T S T' S' : nat -> nat) (a : nat).
  Hypothesis HI : HInv h T S.
  Hypothesis Hbound : forall s, (N.of_nat (T s) < cap)%N.

  Lemma word_at : 1 <= T a ->
    exists r, sl_get a h = Some (pack (N.of_nat (T a)) r (N.of_nat (S a))).
  Proof.
    intro Ha. destruct (HI a) as [_ Hm]. destruct (sl_get a h) as [w|]; [|lia].
    destruct Hm as [[r ->] _]. eauto.
  Qed.

  Lemma fits_T s : (N.of_nat (T s) < cap)%N. Proof. exact (Hbound s). Qed.
  Lemma fits_S s : (N.of_nat (S s) < cap)%N.
  Proof. specialize (Hbound s). destruct (HI s) as [? _]. lia. Qed.

  Lemma L_add_ref : 1 <= T a -> (N.of_nat (T a) + 1 < cap)%N ->
    (forall s, T' s = T s + b1 (a =? s)) -> (forall s, S' s = S s) ->
    HInv (h_add_ref a h) T' S' /\ HRel h (h_add_ref a h).
  Proof.
    intros Ha Hb HT HS. destruct (word_at Ha) as [r Hw]. unfold h_add_ref. rewrite Hw.
    pose proof (fits_T a) as FT. pose proof (fits_S a) as FS.
    rewrite pack_add_token by (try assumption; natN). split.
    - intro s. rewrite sl_get_set, HT, HS. destruct (HI s) as [Hle Hm].
      destruct (Nat.eqb_spec a s) as [<-|Hne]; cbn [b1].
      + split; [lia|]. split; [|lia]. exists r. f_equal. lia.
      + rewrite Nat.add_0_r. split; assumption.
    - eapply HRel_set; [exact Hw|]. rewrite !pack_requested by (try assumption; natN). auto.
  Qed.

  Lemma L_add_src : 1 <= T a -> S a + 1 <= T a ->
    (forall s, T' s = T s) -> (forall s, S' s = S s + b1 (a =? s)) ->
    HInv (h_add_src a h) T' S' /\ HRel h (h_add_src a h).
  Proof.
    intros Ha Hb HT HS. destruct (word_at Ha) as [r Hw]. unfold h_add_src. rewrite Hw.
    pose proof (fits_T a) as FT. pose proof (fits_S a) as FS. pose proof (Hbound a) as HB.
    rewrite pack_add_source by (try assumption; natN). split.
    - intro s. rewrite sl_get_set, HT, HS. destruct (HI s) as [Hle Hm].
      destruct (Nat.eqb_spec a s) as [<-|Hne]; cbn [b1].
      + split; [lia|]. split; [|lia]. exists r. f_equal. lia.
      + rewrite Nat.add_0_r. split; assumption.
    - eapply HRel_set; [exact Hw|]. rewrite !pack_requested by (try assumption; natN). auto.
  Qed.

  Lemma L_rem_src : 1 <= S a ->
    (forall s, T' s = T s) -> (forall s, S' s + b1 (a =? s) = S s) ->
    HInv (h_rem_src a h) T' S' /\ HRel h (h_rem_src a h).
  Proof.
    intros Ha HT HS. destruct (HI a) as [Hle _].
    assert (HTa : 1 <= T a) by lia. destruct (word_at HTa) as [r Hw]. unfold h_rem_src. rewrite Hw.
    pose proof (fits_T a) as FT. pose proof (fits_S a) as FS.
    rewrite pack_sub_source by (try assumption; natN). split.
    - intro s. rewrite sl_get_set, HT. specialize (HS s). destruct (HI s) as [Hle' Hm].
      destruct (Nat.eqb_spec a s) as [E|Hne]; [subst s|]; cbn [b1] in HS.
      + split; [lia|]. split; [|lia]. exists r. f_equal. lia.
      + rewrite Nat.add_0_r in HS. rewrite HS. split; assumption.
    - eapply HRel_set; [exact Hw|]. rewrite !pack_requested by (try assumption; natN). auto.
  Qed.

  Lemma L_release : 1 <= T a -> S a + 1 <= T a ->
    (forall s, T' s + b1 (a =? s) = T s) -> (forall s, S' s = S s) ->
    HInv (h_release a h) T' S' /\ HRel h (h_release a h).
  Proof.
    intros Ha Hb HT HS. destruct (word_at Ha) as [r Hw]. unfold h_release. rewrite Hw.
    pose proof (fits_T a) as FT. pose proof (fits_S a) as FS.
    rewrite pack_last_owner by assumption.
    destruct (N.eqb_spec (N.of_nat (T a)) 1) as [E1|N1].
    - split.
      + intro s. rewrite sl_get_set, HS. specialize (HT s). destruct (HI s) as [Hle' Hm].
        destruct (Nat.eqb_spec a s) as [E|Hne]; [subst s|]; cbn [b1] in HT.
        * split; lia.
        * rewrite Nat.add_0_r in HT. rewrite HT. split; assumption.
      + eapply HRel_set; [exact Hw|exact I].
    - rewrite pack_sub_token by (try assumption; natN). split.
      + intro s. rewrite sl_get_set, HS. specialize (HT s). destruct (HI s) as [Hle' Hm].
        destruct (Nat.eqb_spec a s) as [E|Hne]; [subst s|]; cbn [b1] in HT.
        * split; [lia|]. split; [|lia]. exists r. f_equal. lia.
        * rewrite Nat.add_0_r in HT. rewrite HT. split; assumption.
      + eapply HRel_set; [exact Hw|]. rewrite !pack_requested by (try assumption; natN). auto.
  Qed.

  (* new stop_state at the next id *)
  Lemma L_alloc : a = length h ->
    (forall s, T' s = T s + b1 (a =? s)) -> (forall s, S' s = S s) ->
    HInv (sl_set a (Some initial_state) h) T' S' /\ HRel h (sl_set a (Some initial_state) h).
  Proof.
    intros Ea HT HS.
    assert (Hn : sl_get a h = None) by (apply sl_get_overflow; lia).
    assert (HTa : T a = O) by (destruct (HI a) as [_ Hm]; rewrite Hn in Hm; exact Hm).
    split.
    - intro s. rewrite sl_get_set, HT, HS. destruct (HI s) as [Hle Hm].
      destruct (Nat.eqb_spec a s) as [<-|Hne]; cbn [b1].
      + split; [lia|]. split; [|lia]. exists false. rewrite HTa.
        assert (S a = O) as -> by lia. reflexivity.
      + rewrite Nat.add_0_r. split; assumption.
    - split; [rewrite sl_set_length; lia|]. intro s. rewrite sl_get_set.
      destruct (Nat.eqb_spec a s) as [<-|Hne].
      + split; [lia|]. intros; congruence.
      + split; [auto|]. intros; congruence.
  Qed.

  (* request_stop on a state whose flag is clear *)
  Lemma L_request w : sl_get a h = Some w -> w_stop_requested w = false ->
    HInv (sl_set a (Some (w_sub (w_set_req_lock w) locked_flag)) h) T S /\
    HRel h (sl_set a (Some (w_sub (w_set_req_lock w) locked_flag)) h) /\
    st_requested (sl_set a (Some (w_sub (w_set_req_lock w) locked_flag)) h) a = true.
  Proof.
    intros Hw Hr. destruct (HI a) as [Hle Hm]. rewrite Hw in Hm.
    destruct Hm as [[r ->] H1]. pose proof (fits_T a) as FT. pose proof (fits_S a) as FS.
    rewrite pack_requested in Hr by assumption. subst r.
    rewrite pack_request by assumption. split; [|split].
    - intro s. rewrite sl_get_set. destruct (HI s) as [Hle' Hm].
      destruct (Nat.eqb_spec a s) as [<-|Hne]; [|split; assumption].
      split; [lia|]. split; [eauto|lia].
    - eapply HRel_set; [exact Hw|]. intros _. apply pack_requested; assumption.
    - unfold st_requested. rewrite sl_get_same. apply pack_requested; assumption.
  Qed.
End Micro.

(* copy constructor / destructor of either class, and stop_source() *)
Lemma L_copy (k : bool) h T S T' S' a : HInv h T S -> (forall s, (N.of_nat (T s) + 1 < cap)%N) -> 1 <= T a ->
  (forall s, T' s = T s + b1 (a =? s)) ->
  (forall s, S' s = S s + (if k then b1 (a =? s) else 0)) ->
  HInv (copy_heap k a h) T' S' /\ HRel h (copy_heap k a h).
Proof.
  intros HI HB Ha HT HS. unfold copy_heap. destruct k.
  - destruct (L_add_ref h T S T' S a HI) as [H1 R1]; try assumption; try reflexivity.
    { intro s. specialize (HB s). lia. } { apply HB. }
    destruct (L_add_src _ T' S T' S' a H1) as [H2 R2]; try assumption; try reflexivity.
    { intro s. rewrite HT. specialize (HB s). destruct (a =? s); cbn [b1]; lia. }
    { rewrite HT. lia. }
    { rewrite HT, Nat.eqb_refl. cbn [b1]. destruct (HI a). lia. }
    split; [exact H2|]. eapply HRel_trans; eassumption.
  - apply (L_add_ref h T S T' S' a HI); try assumption.
    { intro s. specialize (HB s). lia. } { apply HB. }
    intro s. rewrite HS. lia.
Qed.

Lemma L_destroy (k : bool) h T S T' S' a : HInv h T S -> (forall s, (N.of_nat (T s) < cap)%N) -> 1 <= T a ->
  (if k then 1 <= S a else S a + 1 <= T a) ->
  (forall s, T' s + b1 (a =? s) = T s) ->
  (forall s, S' s + (if k then b1 (a =? s) else 0) = S s) ->
  HInv (destroy_heap k a h) T' S' /\ HRel h (destroy_heap k a h).
Proof.
  intros HI HB Ha Hk HT HS. unfold destroy_heap. destruct k.
  - destruct (L_rem_src h T S T S' a HI HB) as [H1 R1]; try assumption; try reflexivity.
    destruct (L_release _ T S' T' S' a H1 HB) as [H2 R2]; try assumption; try reflexivity.
    { specialize (HS a). rewrite Nat.eqb_refl in HS. cbn [b1] in HS. destruct (HI a). lia. }
    split; [exact H2|]. eapply HRel_trans; eassumption.
  - apply (L_release h T S T' S' a HI HB); try assumption.
    intro s. specialize (HS s). lia.
Qed.

Lemma L_new h T S T' S' a : HInv h T S -> (forall s, (N.of_nat (T s) + 1 < cap)%N) -> a = length h ->
  (forall s, T' s = T s + b1 (a =? s)) -> (forall s, S' s = S s + b1 (a =? s)) ->
  HInv (h_add_src a (sl_set a (Some initial_state) h)) T' S' /\
  HRel h (h_add_src a (sl_set a (Some initial_state) h)).
Proof.
  intros HI HB Ea HT HS.
  assert (HB' : forall s, (N.of_nat (T s) < cap)%N) by (intro s; specialize (HB s); lia).
  destruct (L_alloc h T S T' S a HI HB' Ea) as [H1 R1]; try assumption; try reflexivity.
  destruct (L_add_src _ T' S T' S' a H1) as [H2 R2]; try assumption; try reflexivity.
  { intro s. rewrite HT. specialize (HB s). destruct (a =? s); cbn [b1]; lia. }
  { rewrite HT, Nat.eqb_refl. cbn [b1]. lia. }
  { rewrite HT, Nat.eqb_refl. cbn [b1].
    assert (T a = O). { destruct (HI a) as [_ Hm]. rewrite sl_get_overflow in Hm by lia. exact Hm. }
    destruct (HI a). lia. }
  split; [exact H2|]. eapply HRel_trans; eassumption.
Qed.

(* ------------------------------------------------------------------ primitive steps *)
Definition Inv (st : hstate) : Prop := HInv (heap st) (n_own st) (n_src st).
(* room for one more handle: no counter can reach 2^31 *)
Definition Fits (st : hstate) : Prop := (N.of_nat (live st) < tok_max)%N.

Lemma fits_bound st : Fits st -> forall s, (N.of_nat (n_own st s) + 1 < cap)%N.
Proof.
  unfold Fits. rewrite tok_max_val. intros H s. pose proof (n_own_le_live st s). unfold cap. lia.
Qed.

Lemma cnt_upd s i v (l : slots) :
  sl_cnt (refs s) (sl_set i v l) + b1 (refs s (sl_get i l)) = sl_cnt (refs s) l + b1 (refs s v).
Proof. apply sl_cnt_set. reflexivity. Qed.

Lemma live_upd i v (l : slots) :
  sl_cnt is_alive (sl_set i v l) + b1 (is_alive (sl_get i l)) = sl_cnt is_alive l + b1 (is_alive v).
Proof. apply sl_cnt_set. reflexivity. Qed.

(* expose how the counts of the updated tables relate to the old ones, then arithmetic *)
Ltac cnt_pose s :=
  repeat match goal with
  | |- context [sl_cnt (refs s) (sl_set ?i ?v ?l)] =>
      let U := fresh "U" in pose proof (cnt_upd s i v l) as U; rewrite ?sl_get_set in U;
      let c := fresh "c" in set (c := sl_cnt (refs s) (sl_set i v l)) in *; clearbody c
  | H : context [sl_cnt (refs s) (sl_set ?i ?v ?l)] |- _ =>
      let U := fresh "U" in pose proof (cnt_upd s i v l) as U; rewrite ?sl_get_set in U;
      let c := fresh "c" in set (c := sl_cnt (refs s) (sl_set i v l)) in *; clearbody c
  end.
Ltac live_pose :=
  repeat match goal with
  | |- context [sl_cnt is_alive (sl_set ?i ?v ?l)] =>
      let U := fresh "U" in pose proof (live_upd i v l) as U; rewrite ?sl_get_set in U;
      let c := fresh "c" in set (c := sl_cnt is_alive (sl_set i v l)) in *; clearbody c
  | H : context [sl_cnt is_alive (sl_set ?i ?v ?l)] |- _ =>
      let U := fresh "U" in pose proof (live_upd i v l) as U; rewrite ?sl_get_set in U;
      let c := fresh "c" in set (c := sl_cnt is_alive (sl_set i v l)) in *; clearbody c
  end.
Ltac split_ifs :=
  repeat match goal with
  | H : context [if (?i =? ?j) then _ else _] |- _ => destruct (i =? j)
  end.
Ltac cnt_arith Gi Gj :=
  split_ifs; rewrite ?Gi, ?Gj in *; cbn [refs is_alive b1] in *; lia.
Ltac cnt_solve Gi Gj :=
  let s := fresh "s" in intro s; unfold n_own, n_src, n_tok; cbn [srcs toks heap];
  cnt_pose s; cnt_arith Gi Gj.

Lemma prim_ok p st : Inv st -> Fits st ->
  Inv (p_step p st) /\ HRel (heap st) (heap (p_step p st)).
Proof.
  intros HI HF. pose proof (fits_bound st HF) as HB.
  assert (HB0 : forall s, (N.of_nat (n_own st s) < cap)%N) by (intro s; specialize (HB s); lia).
  assert (Same : Inv st /\ HRel (heap st) (heap st)) by (split; [exact HI | apply HRel_refl]).
  unfold Inv in *.
  destruct p as [i | k i | k i j | k i j | k i j | k i | i | i j]; cbn [p_step].
  - (* PSNew *)
    destruct (sl_get i (srcs st)) as [v|] eqn:Gi; [exact Same|]. cbn [heap].
    apply L_new with (T := n_own st) (S := n_src st); try assumption; try reflexivity.
    + cnt_solve Gi Gi.
    + cnt_solve Gi Gi.
  - (* PNone *)
    destruct k; cbn [slots_of set_slots];
      (match goal with |- context [sl_get i ?l] => destruct (sl_get i l) as [v|] eqn:Gi end;
       [exact Same|]); cbn [heap]; (split; [|apply HRel_refl]);
      (eapply HInv_ext; [exact HI | cnt_solve Gi Gi | cnt_solve Gi Gi]).
  - (* PCopy *)
    destruct k; cbn [slots_of set_slots];
      (match goal with |- context [sl_get i ?l] => destruct (sl_get i l) as [v|] eqn:Gi end;
       [exact Same|]);
      (match goal with |- context [sl_get j ?l] => destruct (sl_get j l) as [[a|]|] eqn:Gj end;
       [| |exact Same]); cbn [heap set_heap srcs toks].
    + apply L_copy with (T := n_own st) (S := n_src st); try assumption.
      * unfold n_own, n_src. pose proof (refs_get_pos _ _ _ Gj). lia.
      * cnt_solve Gi Gj.
      * cnt_solve Gi Gj.
    + split; [|apply HRel_refl]. eapply HInv_ext; [exact HI | cnt_solve Gi Gj | cnt_solve Gi Gj].
    + apply L_copy with (T := n_own st) (S := n_src st); try assumption.
      * unfold n_own, n_tok. pose proof (refs_get_pos _ _ _ Gj). lia.
      * cnt_solve Gi Gj.
      * cnt_solve Gi Gj.
    + split; [|apply HRel_refl]. eapply HInv_ext; [exact HI | cnt_solve Gi Gj | cnt_solve Gi Gj].
  - (* PMove *)
    destruct k; cbn [slots_of set_slots];
      (match goal with |- context [sl_get i ?l] => destruct (sl_get i l) as [v|] eqn:Gi end;
       [exact Same|]);
      (match goal with |- context [sl_get j ?l] => destruct (sl_get j l) as [vj|] eqn:Gj end;
       [|exact Same]); cbn [heap]; (split; [|apply HRel_refl]);
      (eapply HInv_ext; [exact HI | cnt_solve Gi Gj | cnt_solve Gi Gj]).
  - (* PSwap *)
    destruct k; cbn [slots_of set_slots];
      (match goal with |- context [sl_get i ?l] => destruct (sl_get i l) as [vi|] eqn:Gi end;
       [|exact Same]);
      (match goal with |- context [sl_get j ?l] => destruct (sl_get j l) as [vj|] eqn:Gj end;
       [|exact Same]); cbn [heap]; (split; [|apply HRel_refl]);
      (eapply HInv_ext; [exact HI | cnt_solve Gi Gj | cnt_solve Gi Gj]).
  - (* PDestroy *)
    destruct k; cbn [slots_of set_slots];
      (match goal with |- context [sl_get i ?l] => destruct (sl_get i l) as [[a|]|] eqn:Gi end;
       [| |exact Same]); cbn [heap set_heap srcs toks].
    + pose proof (refs_get_pos _ _ _ Gi) as Hp.
      apply L_destroy with (T := n_own st) (S := n_src st); try assumption.
      * unfold n_own, n_src. lia.
      * cnt_solve Gi Gi.
      * cnt_solve Gi Gi.
    + split; [|apply HRel_refl]. eapply HInv_ext; [exact HI | cnt_solve Gi Gi | cnt_solve Gi Gi].
    + pose proof (refs_get_pos _ _ _ Gi) as Hp.
      apply L_destroy with (T := n_own st) (S := n_src st); try assumption.
      * unfold n_own, n_tok. lia.
      * unfold n_own, n_tok, n_src. lia.
      * cnt_solve Gi Gi.
      * cnt_solve Gi Gi.
    + split; [|apply HRel_refl]. eapply HInv_ext; [exact HI | cnt_solve Gi Gi | cnt_solve Gi Gi].
  - (* PSRequest *)
    destruct (sl_get i (srcs st)) as [[a|]|] eqn:Gi; [|exact Same|exact Same].
    destruct (sl_get a (heap st)) as [w|] eqn:Ga; [|exact Same].
    destruct (w_stop_requested w) eqn:Rw; [exact Same|]. cbn [add_log set_heap heap srcs toks].
    destruct (L_request (heap st) (n_own st) (n_src st) (n_own st) (n_src st) a HI HB0 w Ga Rw) as (H1 & R1 & _).
    split; [|exact R1]. eapply HInv_ext; [exact H1| |]; intro s; reflexivity.
  - (* PTGet *)
    destruct (sl_get i (toks st)) as [v|] eqn:Gi; [exact Same|].
    destruct (sl_get j (srcs st)) as [[a|]|] eqn:Gj; [| |exact Same];
      cbn [set_slots set_heap heap srcs toks].
    + apply (L_copy false) with (T := n_own st) (S := n_src st); try assumption.
      * unfold n_own, n_src. pose proof (refs_get_pos _ _ _ Gj). lia.
      * cnt_solve Gi Gj.
      * cnt_solve Gi Gj.
    + split; [|apply HRel_refl]. eapply HInv_ext; [exact HI | cnt_solve Gi Gj | cnt_solve Gi Gj].
Qed.

(* ------------------------------------------------------------------ number of alive objects *)
Definition p_noninc (p : prim) : bool :=
  match p with PSwap _ _ _ | PDestroy _ _ | PSRequest _ => true | _ => false end.

Ltac dm := repeat match goal with |- context [match ?x with _ => _ end] => destruct x eqn:? end.
Ltac use_gets :=
  repeat match goal with
  | G : sl_get ?i ?l = _, U : context [sl_get ?i ?l] |- _ => rewrite G in U
  end.

Lemma live_step p st : live (p_step p st) <= live st + (if p_noninc p then 0 else 1).
Proof.
  unfold live.
  destruct p as [i | k i | k i j | k i j | k i j | k i | i | i j]; cbn [p_step p_noninc];
    try destruct k; cbn [slots_of set_slots]; dm;
    cbn [srcs toks set_heap set_slots add_log heap]; try lia;
    live_pose; split_ifs; use_gets; cbn [is_alive b1] in *; lia.
Qed.

Lemma reqlog_step p st : match p with PSRequest _ => True | _ => reqlog (p_step p st) = reqlog st end.
Proof.
  destruct p as [i | k i | k i j | k i j | k i j | k i | i | i j]; cbn [p_step]; try exact I;
    try destruct k; cbn [slots_of set_slots]; dm; reflexivity.
Qed.

(* ------------------------------------------------------------------ request_stop log *)
Definition is_true_on (s : nat) (e : option nat * bool) : bool :=
  match e with (Some s', true) => s' =? s | _ => false end.
Definition n_true (s : nat) (l : list (option nat * bool)) : nat := length (filter (is_true_on s) l).

Definition LInv (st : hstate) : Prop :=
  forall s, n_true s (reqlog st) <= 1 /\
    (1 <= n_true s (reqlog st) ->
     s < length (heap st) /\ forall w, sl_get s (heap st) = Some w -> w_stop_requested w = true).

Lemma LInv_rel st st' : LInv st -> HRel (heap st) (heap st') -> reqlog st' = reqlog st -> LInv st'.
Proof.
  intros HL [Hlen HR] E s. rewrite E. destruct (HL s) as [A B]. split; [exact A|].
  intro H1. destruct (B H1) as [Lt Rq]. split; [lia|]. intros w' Hw'.
  destruct (HR s) as [F R]. destruct (sl_get s (heap st)) as [w|] eqn:G.
  - eapply R; eauto.
  - rewrite F in Hw' by auto. discriminate.
Qed.

Lemma prim_log p st : Inv st -> Fits st -> LInv st -> LInv (p_step p st).
Proof.
  intros HI HF HL. pose proof (prim_ok p st HI HF) as [_ HR]. pose proof (reqlog_step p st) as HE.
  destruct p as [i | k i | k i j | k i j | k i j | k i | i | i j];
    try (eapply LInv_rel; eassumption).
  clear HE HR. cbn [p_step].
  destruct (sl_get i (srcs st)) as [[a|]|] eqn:Gi; [|exact HL|exact HL].
  destruct (sl_get a (heap st)) as [w|] eqn:Ga; [|exact HL].
  destruct (w_stop_requested w) eqn:Rw; [exact HL|].
  pose proof (fits_bound st HF) as HB.
  assert (HB0 : forall s, (N.of_nat (n_own st s) < cap)%N) by (intro s; specialize (HB s); lia).
  destruct (L_request (heap st) (n_own st) (n_src st) (n_own st) (n_src st) a HI HB0 w Ga Rw)
    as (_ & [Hlen HR] & Hreq).
  intro s. cbn [add_log set_heap reqlog heap]. destruct (HL s) as [A B].
  unfold n_true in *. cbn [filter is_true_on].
  destruct (Nat.eqb_spec a s) as [<-|Hne].
  - assert (Z : length (filter (is_true_on a) (reqlog st)) = O).
    { destruct (length (filter (is_true_on a) (reqlog st))) as [|n] eqn:E; [reflexivity|].
      destruct B as [_ B]; [lia|]. rewrite (B w Ga) in Rw. discriminate. }
    cbn [length]. rewrite Z. split; [lia|]. intros _. split.
    + pose proof (sl_get_some_lt _ _ _ Ga). lia.
    + unfold st_requested in Hreq. intros w' Hw'. rewrite Hw' in Hreq. exact Hreq.
  - split; [exact A|]. intro H1. destruct (B H1) as [Lt Rq]. split; [lia|].
    intros w'. rewrite sl_get_set. destruct (Nat.eqb_spec a s); [contradiction|]. apply Rq.
Qed.

(* ------------------------------------------------------------------ whole operations *)
Lemma prims_shape st op :
  match h_prims st op with [] => True | _ :: r => forallb p_noninc r = true end.
Proof.
  destruct op; cbn [h_prims]; unfold assign_prims, move_assign_prims;
    try destruct (alive _ _ st && alive _ _ st); try exact I; reflexivity.
Qed.

Lemma p_run_noninc r : forall st n, forallb p_noninc r = true -> Inv st -> live st <= n ->
  (N.of_nat n < tok_max)%N ->
  Inv (p_run r st) /\ live (p_run r st) <= n /\ HRel (heap st) (heap (p_run r st)) /\
  (LInv st -> LInv (p_run r st)).
Proof.
  induction r as [|p r IH]; intros st n Hf HI Hl Hn; cbn [p_run fold_left].
  - split; [exact HI|split; [exact Hl|split; [apply HRel_refl|auto]]].
  - cbn [forallb] in Hf. apply andb_prop in Hf as [Hp Hr].
    assert (HF : Fits st) by (unfold Fits; lia).
    destruct (prim_ok p st HI HF) as [HI1 HR1].
    pose proof (live_step p st) as Hl1. rewrite Hp in Hl1.
    destruct (IH (p_step p st) n Hr HI1) as (A & B & C & D); [lia|exact Hn|].
    fold (p_run r (p_step p st)). split; [exact A|split; [exact B|split]].
    + eapply HRel_trans; [exact HR1|exact C].
    + intro HL. apply D. now apply prim_log.
Qed.

Lemma hop_ok st op : Inv st -> (N.of_nat (live st) + 1 < tok_max)%N ->
  Inv (h_step st op) /\ live (h_step st op) <= live st + 1 /\
  HRel (heap st) (heap (h_step st op)) /\ (LInv st -> LInv (h_step st op)).
Proof.
  intros HI Hn. unfold h_step. pose proof (prims_shape st op) as Hs.
  destruct (h_prims st op) as [|p r].
  - cbn. split; [exact HI|split; [lia|split; [apply HRel_refl|auto]]].
  - cbn [p_run fold_left]. fold (p_run r (p_step p st)).
    assert (HF : Fits st) by (unfold Fits; lia).
    destruct (prim_ok p st HI HF) as [HI1 HR1].
    pose proof (live_step p st) as Hl1.
    assert (Hl2 : live (p_step p st) <= live st + 1) by (destruct (p_noninc p); lia).
    destruct (p_run_noninc r (p_step p st) (live st + 1) Hs HI1 Hl2) as (A & B & C & D); [lia|].
    split; [exact A|split; [exact B|split]].
    + eapply HRel_trans; [exact HR1|exact C].
    + intro HL. apply D. now apply prim_log.
Qed.

Lemma run_from_ok h : forall st n, Inv st -> live st <= n ->
  (N.of_nat (n + length h) < tok_max)%N ->
  Inv (h_run_from st h) /\ live (h_run_from st h) <= n + length h /\
  HRel (heap st) (heap (h_run_from st h)) /\ (LInv st -> LInv (h_run_from st h)).
Proof.
  induction h as [|op h IH]; intros st n HI Hl Hn; cbn [h_run_from fold_left length] in *.
  - split; [exact HI|split; [lia|split; [apply HRel_refl|auto]]].
  - destruct (hop_ok st op HI) as (A & B & C & D); [lia|].
    destruct (IH (h_step st op) (S n) A) as (A' & B' & C' & D'); [lia|lia|].
    fold (h_run_from (h_step st op) h). split; [exact A'|split; [lia|split]].
    + eapply HRel_trans; [exact C|exact C'].
    + intro HL. apply D', D, HL.
Qed.

Lemma Inv_init : Inv h_init.
Proof. intro s. cbn. destruct s; cbn; split; reflexivity || lia. Qed.

Lemma LInv_init : LInv h_init.
Proof. intro s. cbn. split; lia. Qed.

Lemma run_ok h : (N.of_nat (length h) < tok_max)%N ->
  Inv (h_run h) /\ live (h_run h) <= length h /\ LInv (h_run h).
Proof.
  intro Hn. destruct (run_from_ok h h_init O Inv_init) as (A & B & _ & D); [cbn; lia|exact Hn|].
  split; [exact A|split; [exact B|apply (D LInv_init)]].
Qed.

Lemma h_run_app h h' : h_run (h ++ h') = h_run_from (h_run h) h'.
Proof. unfold h_run, h_run_from. apply fold_left_app. Qed.

(* ------------------------------------------------------------------ theorems *)
Lemma run_fits h s : (N.of_nat (length h) < tok_max)%N -> live (h_run h) <= length h ->
  (N.of_nat (n_own (h_run h) s) < cap)%N /\ (N.of_nat (n_src (h_run h) s) < cap)%N.
Proof.
  rewrite tok_max_val. intros Hn Hl. pose proof (n_own_le_live (h_run h) s).
  unfold n_own in *. unfold cap. lia.
Qed.

(* The counters are exact: for every allocated state the token field counts all owners (sources
   and tokens), the source field counts the sources, the lock bit is clear, the state has an
   owner; a state without entry has no handle referring to it (no dangling handle, and states
   without owners are freed). *)
Theorem counts_exact h : (N.of_nat (length h) < tok_max)%N ->
  forall s,
    match sl_get s (heap (h_run h)) with
    | Some w => w_tokens w = N.of_nat (n_src (h_run h) s + n_tok (h_run h) s) /\
                w_sources w = N.of_nat (n_src (h_run h) s) /\
                w_is_locked w = false /\ 1 <= n_src (h_run h) s + n_tok (h_run h) s
    | None => n_src (h_run h) s + n_tok (h_run h) s = O
    end.
Proof.
  intros Hn s. destruct (run_ok h Hn) as (HI & Hl & _).
  destruct (run_fits h s Hn Hl) as [FT FS]. destruct (HI s) as [_ Hm]. fold (n_own (h_run h) s).
  destruct (sl_get s (heap (h_run h))) as [w|]; [|exact Hm].
  destruct Hm as [[r ->] H1]. repeat split.
  - now apply pack_tokens.
  - now apply pack_sources.
  - now apply pack_locked.
  - exact H1.
Qed.

Theorem no_dangling h : (N.of_nat (length h) < tok_max)%N ->
  forall i s, sl_get i (srcs (h_run h)) = Some (Some s) \/ sl_get i (toks (h_run h)) = Some (Some s) ->
  exists w, sl_get s (heap (h_run h)) = Some w.
Proof.
  intros Hn i s H. pose proof (counts_exact h Hn s) as C.
  destruct (sl_get s (heap (h_run h))) as [w|]; [eauto|].
  destruct H as [H|H]; apply refs_get_pos in H; unfold n_src, n_tok in C; lia.
Qed.

(* the side condition suffices: both counters are bounded by the number of operations executed *)
Theorem counts_fit h : (N.of_nat (length h) < tok_max)%N ->
  forall s w, sl_get s (heap (h_run h)) = Some w ->
    (w_tokens w <= N.of_nat (length h))%N /\ (w_sources w <= N.of_nat (length h))%N /\
    (w_tokens w <= tok_max)%N /\ (w_sources w <= src_max)%N.
Proof.
  intros Hn s w Hw. pose proof (counts_exact h Hn s) as C. rewrite Hw in C.
  destruct C as (-> & -> & _ & _). destruct (run_ok h Hn) as (_ & Hl & _).
  pose proof (n_own_le_live (h_run h) s) as Ho. unfold n_own in Ho.
  rewrite src_max_val. rewrite tok_max_val in *. lia.
Qed.

(* stop_token::stop_possible() is exact *)
Theorem stop_possible_iff h : (N.of_nat (length h) < tok_max)%N ->
  forall k s, sl_get k (toks (h_run h)) = Some (Some s) ->
    (tok_possible (h_run h) k = true <->
     (st_requested (heap (h_run h)) s = true \/
      exists j, sl_get j (srcs (h_run h)) = Some (Some s))).
Proof.
  intros Hn k s Hk. destruct (run_ok h Hn) as (HI & Hl & _).
  destruct (run_fits h s Hn Hl) as [FT FS]. destruct (HI s) as [_ Hm].
  unfold tok_possible. rewrite Hk. cbn [tok_view fst]. unfold st_possible, st_requested.
  pose proof (refs_get_pos _ _ _ Hk) as Hp.
  destruct (sl_get s (heap (h_run h))) as [w|]; [|unfold n_own, n_tok in Hm; lia].
  destruct Hm as [[r ->] _]. rewrite pack_possible, pack_requested by assumption.
  assert (Hs : negb (N.of_nat (n_src (h_run h) s) =? 0)%N = true <->
               exists j, sl_get j (srcs (h_run h)) = Some (Some s)).
  { unfold n_src. pose proof (sl_cnt_pos (refs s) (srcs (h_run h)) eq_refl) as P. split.
    - intro H. destruct P as [P _]. destruct P as [j Hj].
      + destruct (N.eqb_spec (N.of_nat (sl_cnt (refs s) (srcs (h_run h)))) 0); [discriminate|lia].
      + exists j. destruct (sl_get j (srcs (h_run h))) as [[x|]|]; cbn in Hj; try discriminate.
        apply Nat.eqb_eq in Hj. now subst.
    - intros [j Hj]. pose proof (refs_get_pos _ _ _ Hj).
      destruct (N.eqb_spec (N.of_nat (sl_cnt (refs s) (srcs (h_run h)))) 0); [lia|reflexivity]. }
  rewrite orb_true_iff, Hs. reflexivity.
Qed.

Theorem stop_possible_nostate h k :
  sl_get k (toks (h_run h)) = Some None -> tok_possible (h_run h) k = false /\ tok_requested (h_run h) k = false.
Proof. intro H. unfold tok_possible, tok_requested. rewrite H. split; reflexivity. Qed.

(* a stop request is never withdrawn while the state exists, and a freed state stays freed *)
Theorem requested_sticky_hist h h' : (N.of_nat (length (h ++ h')) < tok_max)%N ->
  forall s, st_requested (heap (h_run h)) s = true ->
    match sl_get s (heap (h_run (h ++ h'))) with
    | Some w' => w_stop_requested w' = true
    | None => True
    end.
Proof.
  intros Hn s Hr. rewrite app_length in Hn.
  assert (Hn0 : (N.of_nat (length h) < tok_max)%N) by lia.
  destruct (run_ok h Hn0) as (HI & Hl & _). rewrite h_run_app.
  destruct (run_from_ok h' (h_run h) (length h) HI Hl) as (_ & _ & [_ HR] & _); [lia|].
  unfold st_requested in Hr. destruct (sl_get s (heap (h_run h))) as [w|] eqn:G; [|discriminate].
  destruct (sl_get s (heap (h_run_from (h_run h) h'))) as [w'|] eqn:G'; [|exact I].
  destruct (HR s) as [_ R]. eapply R; eauto.
Qed.

Theorem freed_stays_freed h h' : (N.of_nat (length (h ++ h')) < tok_max)%N ->
  forall s, s < length (heap (h_run h)) -> sl_get s (heap (h_run h)) = None ->
    sl_get s (heap (h_run (h ++ h'))) = None.
Proof.
  intros Hn s Hlt Hs. rewrite app_length in Hn.
  assert (Hn0 : (N.of_nat (length h) < tok_max)%N) by lia.
  destruct (run_ok h Hn0) as (HI & Hl & _). rewrite h_run_app.
  destruct (run_from_ok h' (h_run h) (length h) HI Hl) as (_ & _ & [_ HR] & _); [lia|].
  destruct (HR s) as [F _]. now apply F.
Qed.

(* at most one request_stop per stop state returns true *)
Theorem request_once_hist h : (N.of_nat (length h) < tok_max)%N ->
  forall s, n_true s (reqlog (h_run h)) <= 1.
Proof. intros Hn s. destruct (run_ok h Hn) as (_ & _ & HL). apply HL. Qed.

(* ... and after it returned true the state reads requested as long as it exists *)
Theorem request_true_requested h : (N.of_nat (length h) < tok_max)%N ->
  forall s, In (Some s, true) (reqlog (h_run h)) ->
  forall w, sl_get s (heap (h_run h)) = Some w -> w_stop_requested w = true.
Proof.
  intros Hn s Hin. destruct (run_ok h Hn) as (_ & _ & HL). destruct (HL s) as [_ B].
  apply B. unfold n_true.
  assert (Hf : In (Some s, true) (filter (is_true_on s) (reqlog (h_run h)))).
  { apply filter_In. split; [exact Hin|]. cbn. apply Nat.eqb_refl. }
  destruct (filter (is_true_on s) (reqlog (h_run h))); [destruct Hf|cbn; lia].
Qed.

(* non-vacuity / a concrete history: a; ta = a.get_token(); b; a = b; destroy b; destroy a
   leaves ta with stop_possible() = false (state of the old a has no source left), the state is
   still allocated (ta owns it) with counters tokens = 1, sources = 0 *)
Example handles_example :
  let h := [SrcNew 0; TokGet 0 0; SrcNew 1; SrcAssign 0 1; SrcDestroy 1; SrcDestroy 0] in
  h_obs (h_run h) = ([], [(0, (false, false))]) /\
  heap (h_run h) = [Some 1%N; None] /\
  fst (h_trace [SrcNew 0; TokGet 0 0; SrcRequest 0; SrcDestroy 0]) =
    [ ([(0, (true, false))], []);
      ([(0, (true, false))], [(0, (true, false))]);
      ([(0, (true, true))], [(0, (true, true))]);
      ([], [(0, (true, true))]) ].
Proof. vm_compute. repeat split. Qed.
