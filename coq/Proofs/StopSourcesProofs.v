(* Proofs/StopSourcesProofs.v — C14: the source field of state_ in the concurrent model
   (Model/StopState.v) is an exact count of the stop_source handles held by the threads, so
   add_callback refuses a registration ("not stop_possible") only when stop was not requested and
   no thread holds a stop_source. *)
From Coq Require Import List NArith ZArith Bool Arith Lia.
From Pika Require Import Base.Conc Gen.GenStopBits Model.StopWord Model.StopState
  Proofs.StopFlagsProofs Proofs.StopStateProofs Proofs.StopProgressStep.
Import ListNotations.
Ltac Zify.zify_post_hook ::= Z.to_euclidean_division_equations.

Local Open Scope N_scope.
Transparent w_set_lock w_set_req_lock w_clear_lock w_sub w_add w_is_locked w_stop_requested
  w_stop_possible w_tokens w_sources tok_room tok_spare src_room src_some W.

Lemma srcs_set_lock w : W w -> w_is_locked w = false -> w_sources (w_set_lock w) = w_sources w.
Proof.
  intros HW Hl. rewrite is_locked_lk in Hl. unfold lk in Hl. rewrite !sources_arith.
  unfold w_set_lock. rewrite layout_locked, lor_pow2, Hl. unfold W in HW. pows. lia.
Qed.
Lemma srcs_set_req_lock w : W w -> w_is_locked w = false -> w_stop_requested w = false ->
  w_sources (w_set_req_lock w) = w_sources w.
Proof.
  intros HW Hl Hr. rewrite is_locked_lk in Hl. rewrite requested_rq in Hr. unfold lk, rq in *.
  rewrite !sources_arith. unfold w_set_req_lock. rewrite layout_locked, layout_requested.
  rewrite (lor_pow2 w 31), Hr.
  assert (Hb : N.testbit (w + 2 ^ 31) 63 = false).
  { rewrite <- Hl. apply (high_bits _ _ 32); [|lia].
    pose proof (bit_arith w 31) as B. rewrite Hr in B. cbn [N.b2n] in B. pows. lia. }
  rewrite lor_pow2, Hb.
  pose proof (bit_arith w 31) as B. rewrite Hr in B. cbn [N.b2n] in B. unfold W in HW. pows. lia.
Qed.
Lemma srcs_unlock w : W w -> w_is_locked w = true -> w_sources (w_sub w locked_flag) = w_sources w.
Proof.
  intros HW Hl. rewrite is_locked_lk in Hl. pose proof (W_lk_true w Hl) as Hge.
  rewrite !sources_arith. unfold w_sub. rewrite layout_locked, layout_word. unfold W in HW. pows. lia.
Qed.
Lemma srcs_tok_add w : W w -> tok_room w = true -> w_sources (w_add w token_ref_increment) = w_sources w.
Proof.
  intros HW Hg. apply N.ltb_lt in Hg. destruct layout_max as [Hm _]. rewrite Hm, tokens_arith in Hg.
  rewrite !sources_arith. unfold w_add. rewrite layout_tok_inc, layout_word. unfold W in HW. pows. lia.
Qed.
Lemma srcs_tok_sub w : W w -> tok_spare w = true -> w_sources (w_sub w token_ref_increment) = w_sources w.
Proof.
  intros HW Hg. apply N.ltb_lt in Hg. rewrite tokens_arith in Hg.
  rewrite !sources_arith. unfold w_sub. rewrite layout_tok_inc, layout_word. unfold W in HW. pows. lia.
Qed.
Lemma srcs_src_add w : W w -> src_room w = true -> w_sources (w_add w source_ref_increment) = w_sources w + 1.
Proof.
  intros HW Hg. apply N.ltb_lt in Hg. destruct layout_max as [_ Hm]. rewrite Hm, sources_arith in Hg.
  rewrite !sources_arith. unfold w_add. rewrite layout_src_inc, layout_word. unfold W in HW. pows. lia.
Qed.
Lemma srcs_src_sub w : W w -> src_some w = true -> w_sources (w_sub w source_ref_increment) + 1 = w_sources w.
Proof.
  intros HW Hg. apply N.ltb_lt in Hg. rewrite sources_arith in Hg.
  rewrite !sources_arith. unfold w_sub. rewrite layout_src_inc, layout_word. unfold W in HW. pows. lia.
Qed.
Lemma not_possible w : w_stop_possible w = false -> w_stop_requested w = false /\ w_sources w = 0.
Proof.
  unfold w_stop_possible. intros H. apply orb_false_iff in H. destruct H as [H1 H2]. split; [exact H1|].
  apply negb_false_iff, N.eqb_eq in H2. unfold w_sources. rewrite H2. reflexivity.
Qed.
Global Opaque w_set_lock w_set_req_lock w_clear_lock w_sub w_add w_is_locked w_stop_requested
  w_stop_possible w_tokens w_sources tok_room tok_spare src_room src_some W.
Local Close Scope N_scope.

(* stop_sources held by a thread, as the word sees them: ~stop_source has already taken its
   source count back when it is about to drop its reference (SRelease) *)
Definition held (l : local) : nat := match pc l with SRelease => pred (hsrc l) | _ => hsrc l end.
Definition HS (l : local) : Prop :=
  match pc l with SAddRef | SInc | SDec | SRelease => 1 <= hsrc l | _ => True end.

Lemma held_norm l : held (norm l) = held l /\ (HS l -> HS (norm l)).
Proof.
  unfold norm, held, HS. destruct (pc l) eqn:E; rewrite ?E; try tauto.
  destruct (frames l) as [|[[|c|c] [|o r]] fs]; cbn; rewrite ?E; tauto.
Qed.

Lemma S10 P o t g l0 : GI g -> LI g t (norm l0) -> HS (norm l0) ->
  On (fun g' l' => HS l' /\
        (w_sources (word g') + N.of_nat (held (norm l0)) = w_sources (word g) + N.of_nat (held l'))%N /\
        (held (norm l0) = 0 -> held l' = 0))
     (st_tstep P o t g l0).
Proof.
  intros HG HL HH. unfold st_tstep. cbv zeta. revert HL HH. generalize (norm l0). intros l HL HH.
  destruct HG as (HW & Hlk & Hrq & Hcnt & Hret & Hsome).
  unfold LI, LI3 in HL. destruct HL as (Hh & Hq & Hs1 & Hsw & Hws).
  destruct (pc l) eqn:Epc; brkOn; unfold On; proj; cbn [holds] in *; try (specialize (Hh eq_refl)).
  all: try match goal with removed : bool |- _ => destruct removed end.
  all: try (match type of Hh with holder _ = Some _ => rewrite Hh in *; cbn [isS] in * end).
  all: try (match type of Hq with forall old, QCas ?o = QCas old -> _ => specialize (Hq o eq_refl) end).
  all: unfold held, HS in *; proj; rewrite ?Epc in *.
  all: try solve [repeat split; try assumption; try lia].
  all: wf.
  all: rewrite ?srcs_set_lock, ?srcs_set_req_lock, ?srcs_unlock, ?srcs_tok_add, ?srcs_tok_sub, ?srcs_src_add
         by (assumption || congruence).
  all: try match goal with H : src_some ?w = true |- _ => pose proof (srcs_src_sub w HW H) end.
  all: try match goal with H : (0 <? _)%nat = true |- _ => apply Nat.ltb_lt in H end.
  all: try solve [repeat split; try assumption; try lia].
Qed.

(* ---------------- finite sums over the threads 0 .. n-1 ---------------- *)
Fixpoint sumf (f : nat -> nat) (n : nat) : nat :=
  match n with O => 0 | S m => sumf f m + f m end.

Lemma sumf_upd_out (h : local -> nat) (ls : nat -> local) t l' n : n <= t ->
  sumf (fun x => h (upd ls t l' x)) n = sumf (fun x => h (ls x)) n.
Proof.
  induction n as [|n IH]; intros Hn; [reflexivity|]. cbn [sumf]. rewrite IH by lia.
  rewrite upd_other by lia. reflexivity.
Qed.
Lemma sumf_upd (h : local -> nat) (ls : nat -> local) t l' n : t < n ->
  sumf (fun x => h (upd ls t l' x)) n + h (ls t) = sumf (fun x => h (ls x)) n + h l'.
Proof.
  induction n as [|n IH]; intros Hn; [lia|]. cbn [sumf].
  destruct (Nat.eq_dec t n) as [->|Hne].
  - rewrite sumf_upd_out by lia. rewrite upd_same. lia.
  - rewrite upd_other by lia. specialize (IH ltac:(lia)). lia.
Qed.
Lemma sumf_zero f n : sumf f n = 0 -> forall t, t < n -> f t = 0.
Proof.
  induction n as [|n IH]; intros H t Ht; [lia|]. cbn [sumf] in H.
  destruct (Nat.eq_dec t n) as [->|Hne]; [lia|]. apply IH; lia.
Qed.

(* ---------------- the source field is an exact count ---------------- *)
(* [base]: stop_sources held outside the modelled threads; threads >= nthr hold none *)
Definition SI (nthr : nat) (base : N) (g : shared) (ls : nat -> local) : Prop :=
  (forall t, HS (ls t)) /\ (forall t, nthr <= t -> held (ls t) = 0) /\
  w_sources (word g) = (base + N.of_nat (sumf (fun t => held (ls t)) nthr))%N.

Definition good_srcs (nthr : nat) (base : N) (w0 : N) (srcs : nat -> nat) : Prop :=
  (forall t, nthr <= t -> srcs t = 0) /\ w_sources w0 = (base + N.of_nat (sumf srcs nthr))%N.

Lemma SI_step P o t g ls nthr base : Inv g ls -> SI nthr base g ls ->
  SI nthr base (fst (st_tstep P o t g (ls t))) (upd ls t (snd (st_tstep P o t g (ls t)))).
Proof.
  intros [HG HL] (H1 & H2 & H3). destruct (held_norm (ls t)) as [En Hn].
  pose proof (S10 P o t g (ls t) HG (LI_norm _ _ _ (HL t)) (Hn (H1 t))) as F. unfold On in F.
  rewrite En in F. destruct F as (F1 & F2 & F3).
  set (g' := fst (st_tstep P o t g (ls t))) in *. set (l' := snd (st_tstep P o t g (ls t))) in *.
  clearbody g' l'. split; [|split].
  - intros x. unfold upd. destruct (Nat.eqb_spec x t); [exact F1|apply H1].
  - intros x Hx. unfold upd. destruct (Nat.eqb_spec x t) as [->|]; [|now apply H2].
    apply F3. now apply H2.
  - destruct (Nat.lt_ge_cases t nthr) as [Hlt|Hge].
    + pose proof (sumf_upd held ls t l' nthr Hlt). lia.
    + rewrite (sumf_upd_out held) by assumption. rewrite (H2 t Hge) in F2.
      rewrite (F3 (H2 t Hge)) in F2. lia.
Qed.

Theorem run_SI P sched w0 progs srcs nthr base : good_init w0 -> good_srcs nthr base w0 srcs ->
  let c := st_run P sched w0 progs srcs in SI nthr base (fst c) (snd c).
Proof.
  intros (A & B & C) [G1 G2]. unfold st_run.
  apply (run_inv _ _ _ (st_tstep P) (fun g ls => Inv g ls /\ SI nthr base g ls)).
  - intros o t g ls [HI HS']. split; [now apply step_inv|now apply SI_step].
  - split; [now apply init_inv|]. split; [|split].
    + intros t. exact I.
    + intros t Ht. cbn. now apply G1.
    + cbn [fst snd st_init word]. rewrite G2. reflexivity.
Qed.

(* the refusing read of lock_if_not_stopped *)
Lemma S11 P o t g l0 k :
  (pc (norm l0) = ALoad k \/ (exists old, pc (norm l0) = ACas k old) \/ pc (norm l0) = ASpin k) ->
  pc (snd (st_tstep P o t g l0)) = ARelease k -> w_stop_possible (word g) = false.
Proof.
  unfold st_tstep. cbv zeta. generalize (norm l0). intros l Hp.
  destruct Hp as [Hp|[[old Hp]|Hp]]; rewrite Hp; unfold a_after_read;
    repeat match goal with |- context [if ?b then _ else _] => destruct b eqn:? end;
    cbn [snd pc set_pc]; try discriminate; intros _;
    match goal with H : negb _ = true |- _ => now apply negb_true_iff in H end.
Qed.

(* add_callback refuses a registration only if stop was not requested and no stop_source for the
   state exists: none held by a thread, none outside *)
Theorem refused_only_if_no_source P sched w0 progs srcs nthr base : good_init w0 ->
  good_srcs nthr base w0 srcs ->
  let c := st_run P sched w0 progs srcs in
  forall t o k,
    (pc (norm (snd c t)) = ALoad k \/ (exists old, pc (norm (snd c t)) = ACas k old) \/
     pc (norm (snd c t)) = ASpin k) ->
    pc (snd (st_tstep P o t (fst c) (snd c t))) = ARelease k ->
    w_stop_requested (word (fst c)) = false /\ w_sources (word (fst c)) = 0%N /\ base = 0%N /\
    forall t', held (snd c t') = 0.
Proof.
  intros Hw Hs. cbv zeta. intros t o k Hp Hr.
  pose proof (run_SI P sched w0 progs srcs nthr base Hw Hs) as (H1 & H2 & H3). cbv zeta in *.
  pose proof (S11 P o t _ _ k Hp Hr) as Hnp. apply not_possible in Hnp. destruct Hnp as [A B].
  rewrite B in H3. repeat split; try assumption; [lia|].
  intros t'. destruct (Nat.lt_ge_cases t' nthr) as [Hlt|Hge]; [|now apply H2].
  apply (sumf_zero (fun x => held (snd (st_run P sched w0 progs srcs) x)) nthr); [lia|assumption].
Qed.

(* the link used above, on its own: the source field counts the stop_sources exactly *)
Theorem sources_exact P sched w0 progs srcs nthr base : good_init w0 -> good_srcs nthr base w0 srcs ->
  let c := st_run P sched w0 progs srcs in
  w_sources (word (fst c)) = (base + N.of_nat (sumf (fun t => held (snd c t)) nthr))%N /\
  forall t, nthr <= t -> held (snd c t) = 0.
Proof.
  intros Hw Hs. cbv zeta. pose proof (run_SI P sched w0 progs srcs nthr base Hw Hs) as (H1 & H2 & H3).
  cbv zeta in *. split; assumption.
Qed.
