(* C16 - lemmas about Model/Config.v (the tables come from the regenerated Gen/GenIni.v). *)
From Coq Require Import String Ascii List NArith Bool Permutation Lia.
From Pika Require Import Gen.GenIni Model.Config.
Import ListNotations.
Open Scope string_scope.

(* ------------------------------------------------------------------ placeholders *)
Lemma append_empty_r : forall s : string, s ++ "" = s.
Proof. induction s; cbn; congruence. Qed.

(* the syntactic reading of a built-in line `${NAME:default}` / `${NAME}` *)
Definition placeholder (raw : string) : option (string * string) :=
  match raw with
  | String a (String b body) =>
      if aeqb a c_dollar && aeqb b c_lbrace then
        match find_unesc c_rbrace body with
        | Some (inside, EmptyString) =>
            match find_unesc c_colon inside with
            | Some (n, d) => Some (n, d)
            | None => Some (inside, "")
            end
        | _ => None
        end
      else None
  | _ => None
  end.

Definition placeholder_ok (e : string * string) : Prop :=
  forall env, match placeholder (snd e) with
              | Some (n, d) => expand env (snd e) = match getenv env n with Some v => v | None => d end
              | None => True
              end.

(* every line of the regenerated built-in ini that is a placeholder expands to the environment
   variable when it is set and to the default otherwise (checked entry by entry on the table) *)
Lemma builtin_placeholders : Forall placeholder_ok builtin_ini.
Proof.
  unfold builtin_ini.
  repeat (apply Forall_cons;
          [ intro env; cbv -[getenv append]; try exact I;
            destruct (getenv env _); rewrite ?append_empty_r; reflexivity | ]).
  apply Forall_nil.
Qed.

Lemma assoc_in : forall k l v, assoc k l = Some v -> In (k, v) l.
Proof.
  induction l as [|[a b] r IH]; cbn; intros v H; [discriminate|].
  destruct (String.eqb a k) eqn:E.
  - apply String.eqb_eq in E. inversion H; subst. now left.
  - right. now apply IH.
Qed.

Lemma builtin_env_default :
  forall env key raw n d,
    assoc key builtin_ini = Some raw -> placeholder raw = Some (n, d) ->
    builtin env key = match getenv env n with Some v => v | None => d end.
Proof.
  intros env key raw n d Hk Hp. unfold builtin. rewrite Hk.
  pose proof builtin_placeholders as F. rewrite Forall_forall in F.
  specialize (F (key, raw) (assoc_in _ _ _ Hk) env). cbn in F. now rewrite Hp in F.
Qed.

(* ------------------------------------------------------------------ precedence *)
(* which source decides a setting: the four cases of present/absent sources *)
Inductive source := FromCmdline | FromIni | FromEnv | FromDefault.

Definition deciding (env : list (string * string)) (p : parsed) (cfgmap : list (string * string))
           (opt key envname : string) : source :=
  match value_of opt p with
  | Some _ => FromCmdline
  | None => match assoc key cfgmap with
            | Some _ => FromIni
            | None => match getenv env envname with Some _ => FromEnv | None => FromDefault end
            end
  end.

Lemma resolve_precedence :
  forall opt key, In (opt, key) opt_key ->
  forall raw n d, assoc key builtin_ini = Some raw -> placeholder raw = Some (n, d) ->
  forall env p cfgmap,
    resolve env p cfgmap opt key =
    match value_of opt p with
    | Some v => v                                              (* command line (or prepended) *)
    | None => match assoc key cfgmap with
              | Some v => v                                    (* --pika:ini *)
              | None => match getenv env n with
                        | Some v => v                          (* environment placeholder *)
                        | None => d                            (* built-in default *)
                        end
              end
    end.
Proof.
  intros opt key _ raw n d Hk Hp env p cfgmap. unfold resolve.
  destruct (value_of opt p); [reflexivity|].
  destruct (assoc key cfgmap); [reflexivity|].
  now apply builtin_env_default with (raw := raw).
Qed.

(* every option -> key pair of the table whose key has a line in the built-in ini has a
   well-formed placeholder there (so resolve_precedence applies to it) *)
Definition table_entry_ok (e : string * string) : bool :=
  match assoc (snd e) builtin_ini with
  | Some raw => match placeholder raw with Some _ => true | None => false end
  | None => String.eqb (snd e) "pika.thread_queue.high_priority_queues"
  end.
Lemma table_covered : forallb table_entry_ok opt_key = true.
Proof. vm_compute. reflexivity. Qed.

(* ------------------------------------------------------------------ --pika:ini position *)
Lemma assoc_app : forall k (a b : list (string * string)),
    assoc k (a ++ b) = match assoc k a with Some v => Some v | None => assoc k b end.
Proof.
  induction a as [|[x y] r IH]; cbn; intros; [reflexivity|].
  destruct (String.eqb x k); [reflexivity|apply IH].
Qed.

(* manage_config: the FIRST definition of a key decides (prepended definitions come first);
   it is consulted after the command-line option and before the environment/default *)
Lemma ini_first_wins :
  forall env p opt key a b v,
    value_of opt p = None -> assoc key a = Some v ->
    resolve env p (a ++ b) opt key = v.
Proof.
  intros. unfold resolve. rewrite H, assoc_app, H0. reflexivity.
Qed.

Lemma ini_below_cmdline :
  forall env p cfgmap opt key v, value_of opt p = Some v -> resolve env p cfgmap opt key = v.
Proof. intros. unfold resolve. now rewrite H. Qed.

Lemma ini_above_env :
  forall env env' p cfgmap opt key v,
    value_of opt p = None -> assoc key cfgmap = Some v ->
    resolve env p cfgmap opt key = v /\ resolve env' p cfgmap opt key = v.
Proof. intros. unfold resolve. now rewrite H, H0. Qed.

(* ------------------------------------------------------------------ order independence *)
Lemma filter_perm_nodup :
  forall (k : string) (l l' : list (string * string)),
    Permutation l l' -> NoDup (map fst l) ->
    filter (fun o => String.eqb (fst o) k) l = filter (fun o => String.eqb (fst o) k) l'.
Proof.
  intros k l l' P. induction P; intro ND.
  - reflexivity.
  - cbn. inversion ND; subst. rewrite IHP by assumption. reflexivity.
  - cbn. inversion ND as [|? ? Hx ND']; subst. inversion ND' as [|? ? Hy ND'']; subst.
    destruct (String.eqb (fst y) k) eqn:Ey, (String.eqb (fst x) k) eqn:Ex; try reflexivity.
    apply String.eqb_eq in Ey, Ex. exfalso. apply Hx. left. congruence.
  - rewrite IHP1 by assumption. apply IHP2.
    eapply Permutation_NoDup; [apply Permutation_map; eassumption|assumption].
Qed.

Lemma assoc_filter : forall k l,
    assoc k l = match filter (fun o => String.eqb (fst o) k) l with e :: _ => Some (snd e) | [] => None end.
Proof.
  induction l as [|[a b] r IH]; cbn; [reflexivity|].
  destruct (String.eqb a k); [reflexivity|apply IH].
Qed.

Lemma order_independent_resolve :
  forall env p p' cfg cfg' opt key,
    Permutation (p_opts p) (p_opts p') -> NoDup (map fst (p_opts p)) ->
    Permutation cfg cfg' -> NoDup (map fst cfg) ->
    resolve env p cfg opt key = resolve env p' cfg' opt key.
Proof.
  intros env p p' cfg cfg' opt key P ND P2 ND2. unfold resolve, value_of, values_of.
  rewrite (filter_perm_nodup opt _ _ P ND).
  rewrite (assoc_filter key cfg), (assoc_filter key cfg'), (filter_perm_nodup key _ _ P2 ND2).
  reflexivity.
Qed.

(* ------------------------------------------------------------------ rejected input *)
Ltac crush_handle :=
  repeat match goal with
         | |- (if ?b then _ else _) <> _ => destruct b; [try discriminate|try discriminate]
         | |- (let '(_, _) := ?x in _) <> _ => destruct x
         | |- match ?x with _ => _ end <> _ => destruct x; try discriminate
         end.

Lemma threads_zero_rejected :
  forall env p cfg m ok f a v,
    value_of "pika:threads" p = Some v -> parse_size v = Some 0%N ->
    v <> "all" -> v <> "cores" ->
    forall c, handle env p cfg m ok f a <> Started c.
Proof.
  intros env p cfg m ok f a v Hv Hp Hall Hcores c. unfold handle. rewrite Hv, Hp.
  apply String.eqb_neq in Hall, Hcores. rewrite Hall, Hcores. cbn [N.eqb].
  crush_handle.
Qed.

Lemma threads_not_a_number_rejected :
  forall env p cfg m ok f a v,
    value_of "pika:threads" p = Some v -> parse_size v = None ->
    v <> "all" -> v <> "cores" ->
    forall c, handle env p cfg m ok f a <> Started c.
Proof.
  intros env p cfg m ok f a v Hv Hp Hall Hcores c. unfold handle. rewrite Hv, Hp.
  apply String.eqb_neq in Hall, Hcores. rewrite Hall, Hcores.
  crush_handle.
Qed.

Lemma numa_out_of_range_rejected :
  forall env p cfg m ok f a v n,
    value_of "pika:numa-sensitive" p = Some v -> parse_size v = Some n -> (2 < n)%N ->
    forall c, handle env p cfg m ok f a <> Started c.
Proof.
  intros env p cfg m ok f a v n Hv Hp Hn c.
  assert (E : (2 <? parse_size_or v 0)%N = true).
  { unfold parse_size_or. rewrite Hp. now apply N.ltb_lt. }
  unfold handle. rewrite Hv. cbv zeta. rewrite E.
  crush_handle.
Qed.

Lemma unknown_ini_key_rejected :
  forall env p cfg m f a c, handle env p cfg m false f a <> Started c.
Proof.
  intros. unfold handle. cbn [negb]. crush_handle.
Qed.

Lemma argv_rejected_not_started :
  forall env p cfg m ok f a e, a tt = inr e -> forall c, handle env p cfg m ok f a <> Started c.
Proof.
  intros env p cfg m ok f a e Ha c. unfold handle. rewrite Ha. crush_handle.
Qed.

Lemma unregistered_rejected :
  forall arg0 pco args p, p_unreg p <> [] -> app_argv arg0 pco args p = inr RLateUnknown.
Proof.
  intros arg0 pco args p H. unfold app_argv. destruct (p_unreg p); [congruence|reflexivity].
Qed.

(* an unknown --name[=value] token (not an abbreviation of a registered option) that the parser
   reaches as an option is recorded as unregistered, verbatim *)
Lemma unknown_token_unregistered :
  forall fuel t r p name,
    starts "--" t = true -> t <> "--" ->
    name = match split_at c_eq (drop 2 t) with Some (a, _) => a | None => drop 2 t end ->
    lookup_opt name = LUnknown ->
    parse_tokens (S fuel) (t :: r) false p = parse_tokens fuel r false (add_unreg t p).
Proof.
  intros fuel t r p name Hs Hne Hn Hl. cbn [parse_tokens].
  apply String.eqb_neq in Hne. rewrite Hne, Hs.
  destruct (split_at c_eq (drop 2 t)) as [[a b]|]; subst name; rewrite Hl; reflexivity.
Qed.

Lemma parse_unreg_mono :
  forall fuel ts term p q,
    parse_tokens fuel ts term p = inl q -> p_unreg p <> [] -> p_unreg q <> [].
Proof.
  induction fuel as [|fuel IH]; intros ts term p q H Hp; [discriminate|].
  assert (U1 : forall t, p_unreg (add_pos t p) <> []) by (intro; exact Hp).
  assert (U2 : forall n v, p_unreg (add_opt n v p) <> []) by (intros; exact Hp).
  assert (U3 : forall t, p_unreg (add_unreg t p) <> []).
  { intros t E. cbn in E. destruct (p_unreg p); discriminate. }
  cbn [parse_tokens] in H. destruct ts as [|t r]; [inversion H; subst; exact Hp|].
  repeat match type of H with
         | (if ?b then _ else _) = _ => destruct b
         | (let '(_, _) := ?x in _) = _ => destruct x
         | match ?x with _ => _ end = _ => destruct x
         end; try discriminate; eapply IH; eauto.
Qed.

(* ------------------------------------------------------------------ duplicates (F11) *)
Definition single (n : string) : bool := match kind_of n with Some 2 => false | _ => true end.

Lemma dup_in_cons : forall seen n v r,
    dup_in seen ((n, v) :: r) =
    if single n then (if existsb (String.eqb n) seen then true else dup_in (n :: seen) r) else dup_in seen r.
Proof.
  intros. cbn [dup_in]. unfold single. destruct (kind_of n) as [[|[|[|?]]]|]; reflexivity.
Qed.

Lemma dup_in_spec :
  forall l seen,
    dup_in seen l = false <->
    (NoDup (filter single (map fst l)) /\ forall n, In n (filter single (map fst l)) -> ~ In n seen).
Proof.
  induction l as [|[n v] r IH]; intro seen.
  - cbn. split; [intros _; split; [constructor|intros ? []]|reflexivity].
  - rewrite dup_in_cons. cbn [map fst filter]. destruct (single n) eqn:S; [|apply IH].
    destruct (existsb (String.eqb n) seen) eqn:E.
    + split; [discriminate|]. intros [_ H]. exfalso. apply (H n); [now left|].
      apply existsb_exists in E. destruct E as [x [Hx Ex]]. apply String.eqb_eq in Ex. now subst.
    + rewrite IH. split.
      * intros [ND H]. split.
        -- constructor; [|exact ND]. intro Hin. apply (H n Hin). now left.
        -- intros x [<-|Hx] Hin.
           ++ assert (existsb (String.eqb n) seen = true); [|congruence].
              apply existsb_exists. exists n. split; [exact Hin|apply String.eqb_refl].
           ++ apply (H x Hx). now right.
      * intros [ND H]. inversion ND; subst. split; [assumption|].
        intros x Hx [<-|Hin]; [contradiction|]. apply (H x); [now right|assumption].
Qed.

Lemma no_shared_option_no_duplicate :
  forall pre cmd,
    dup_in [] pre = false -> dup_in [] cmd = false ->
    (forall n, In n (filter single (map fst pre)) -> ~ In n (filter single (map fst cmd))) ->
    dup_in [] (pre ++ cmd) = false.
Proof.
  intros pre cmd Hp Hc Hd. apply dup_in_spec in Hp. apply dup_in_spec in Hc. apply dup_in_spec.
  destruct Hp as [Np _], Hc as [Nc _]. rewrite map_app, filter_app. split; [|intros ? ? []].
  set (a := filter single (map fst pre)) in *. set (b := filter single (map fst cmd)) in *.
  clearbody a b. revert Np Hd. induction a as [|x a IH]; cbn; intros Na Hd; [exact Nc|].
  inversion Na; subst. constructor.
  - rewrite in_app_iff. intros [H|H]; [contradiction|]. apply (Hd x); [now left|exact H].
  - apply IH; [assumption|]. intros n Hn. apply Hd. now right.
Qed.

Lemma shared_option_duplicate :
  forall pre cmd n, single n = true -> In n (map fst pre) -> In n (map fst cmd) ->
                    dup_in [] (pre ++ cmd) = true.
Proof.
  intros pre cmd n S Hp Hc. destruct (dup_in [] (pre ++ cmd)) eqn:E; [reflexivity|].
  apply dup_in_spec in E. destruct E as [ND _]. rewrite map_app, filter_app in ND.
  exfalso. assert (A : In n (filter single (map fst pre))) by (apply filter_In; auto).
  assert (B : In n (filter single (map fst cmd))) by (apply filter_In; auto).
  clear - ND A B. induction (filter single (map fst pre)) as [|x a IH]; [destruct A|].
  cbn in ND. inversion ND; subst. destruct A as [->|A]; [apply H1; apply in_app_iff; now right|auto].
Qed.

(* ------------------------------------------------------------------ application arguments *)
(* plain characters: what survives reconstruct_command_line + split_unix untouched *)
Definition plain_char (c : ascii) : bool :=
  negb (is_ws c || aeqb c c_dq || aeqb c c_sq || aeqb c c_bs).
Fixpoint plain (s : string) : bool :=
  match s with EmptyString => true | String c r => plain_char c && plain r end.

Definition sq (c : ascii) : bool := aeqb c c_dq || aeqb c c_sq.

Lemma tokF_plain :
  forall s cur rest,
    plain s = true ->
    tokF (aeqb c_bs) is_ws sq (s ++ rest) false cur = tokF (aeqb c_bs) is_ws sq rest false (cur ++ s).
Proof.
  induction s as [|c s IH]; intros cur rest H; cbn [append].
  - now rewrite append_empty_r.
  - cbn [plain] in H. apply andb_true_iff in H. destruct H as [Hc Hs].
    unfold plain_char in Hc. apply negb_true_iff in Hc.
    apply orb_false_iff in Hc; destruct Hc as [Hc Hbs].
    apply orb_false_iff in Hc; destruct Hc as [Hc H0].
    apply orb_false_iff in Hc; destruct Hc as [Hc H1].
    cbn [tokF].
    assert (E1 : aeqb c_bs c = false) by (unfold aeqb in *; rewrite Ascii.eqb_sym; exact Hbs).
    rewrite E1. rewrite Hc. unfold sq. rewrite H1, H0. cbn [orb].
    rewrite IH by assumption. f_equal.
    clear. revert c s. induction cur; intros; cbn; [reflexivity|]. f_equal. apply IHcur.
Qed.
