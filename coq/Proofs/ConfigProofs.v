(* C16 - lemmas about Model/Config.v (the tables come from the regenerated Gen/GenIni.v). *)
From Coq Require Import String Ascii List NArith Bool Permutation Lia Sorted PeanoNat.
From Pika Require Import Gen.GenIni Model.Config Proofs.ConfigExpandProofs.
Import ListNotations.
Open Scope string_scope.

(* ------------------------------------------------------------------ placeholders *)
Lemma append_empty_r : forall s : string, s ++ "" = s.
Proof. exact app_empty_r. Qed.

(* the syntactic reading of a built-in line `${NAME:default}` / `${NAME}` *)
Definition placeholder (raw : string) : option (string * string) :=
  match raw with
  | String a (String b body) =>
      if aeqb a c_dollar && aeqb b c_lbrace then
        match find_next c_rbrace body with
        | FFound inside EmptyString =>
            match split_colon inside with
            | FFound n d => Some (n, d)
            | FNone n => Some (n, "")
            end
        | _ => None
        end
      else None
  | _ => None
  end.

(* a value the expansion leaves alone: no '$' followed by '{' or '[' (and fewer '$' than the model's fuel) *)
Definition noexp (v : string) : bool := noph v && Nat.ltb (dollars v) 90.
(* the text between the braces of a built-in line contains no placeholder itself *)
Definition ph_body_ok (raw : string) : bool :=
  match raw with String _ (String _ body) => noexp body | _ => false end.

Lemma noexp_inv v : noexp v = true -> noph v = true /\ dollars v < 90.
Proof. unfold noexp. intros H. apply andb_true_iff in H. destruct H as [H1 H2]. apply Nat.ltb_lt in H2. tauto. Qed.

(* expand_only / expand at a well-formed placeholder line: the line is replaced by the value of the variable
   (else the default) and THE TEXT BEHIND THE FIRST CHARACTER OF THAT VALUE IS SCANNED AGAIN (rescan_tail) *)
Lemma placeholder_step env look only Eall Erec raw n d :
  placeholder raw = Some (n, d) ->
  (forall t, noexp t = true -> Erec t = XOk t) -> ph_body_ok raw = true ->
  scan env look only Eall Erec raw =
  rescan_tail Erec (match getenv env n with Some v => v | None => d end).
Proof.
  intros Hp HE Hb. unfold placeholder in Hp. destruct raw as [|a [|b body]]; try discriminate.
  destruct (aeqb a c_dollar) eqn:Ea; [|discriminate]. destruct (aeqb b c_lbrace) eqn:Eb; [|discriminate].
  cbn [andb] in Hp. apply aeqb_eq in Ea, Eb. subst a b.
  unfold scan. cbn [split_at]. rewrite aeqb_refl. unfold at_dollar, step.
  change (aeqb c_lbrace c_lbrack) with false. rewrite aeqb_refl. unfold brace_body.
  cbn [ph_body_ok] in Hb. rewrite (HE body Hb). cbn [xbind].
  destruct (find_next c_rbrace body) as [inside after|]; [|discriminate]. destruct after; [|discriminate].
  destruct (split_colon inside) as [n' d'|n']; inversion Hp; subst; cbn [xbind];
    rewrite app_empty_r; exact (xbind_ok _).
Qed.

Lemma rescan_tail_plain Erec v :
  (forall t, noph t = true -> dollars t < 90 -> Erec t = XOk t) -> noexp v = true -> rescan_tail Erec v = XOk v.
Proof.
  intros HE Hv. apply noexp_inv in Hv. destruct Hv as [H1 H2]. destruct v as [|a u]; [reflexivity|].
  cbn [rescan_tail]. cbn [noph] in H1. apply andb_true_iff in H1. destruct H1 as [_ H1].
  rewrite HE; [reflexivity|exact H1|]. cbn [dollars] in H2. lia.
Qed.

Definition placeholder_ok (e : string * string) : Prop :=
  forall env, match placeholder (snd e) with
              | Some (n, d) =>
                  (* general: what add_entry stores *)
                  (forall look, stored_x env look (fst e) (snd e) =
                                rescan_tail (xp_only env look 99 (fst e)) (match getenv env n with Some v => v | None => d end)) /\
                  (* a value without placeholder (variable if set, else the default) is what every later read returns *)
                  (forall v, v = (match getenv env n with Some v => v | None => d end) -> noexp v = true ->
                             (forall look, stored_x env look (fst e) (snd e) = XOk v) /\
                             (forall look, xp_all env look xfuel v = XOk v))
              | None => True
              end.

Lemma ph_bodies_ok :
  forallb (fun e => match placeholder (snd e) with Some _ => ph_body_ok (snd e) | None => true end) builtin_ini = true.
Proof. vm_compute. reflexivity. Qed.

Lemma stored_placeholder env look key raw n d :
  placeholder raw = Some (n, d) -> ph_body_ok raw = true ->
  stored_x env look key raw = rescan_tail (xp_only env look 99 key) (match getenv env n with Some v => v | None => d end).
Proof.
  intros Hp Hb. unfold stored_x. change xfuel with (S 99). rewrite xp_only_S.
  apply placeholder_step; [exact Hp| |exact Hb].
  intros t Ht. apply noexp_inv in Ht. destruct Ht. apply xp_only_noph; [assumption|lia].
Qed.

(* every line of the regenerated built-in ini that is a placeholder expands to the environment
   variable when it is set and to the default otherwise (entry by entry on the table) *)
Lemma builtin_placeholders : Forall placeholder_ok builtin_ini.
Proof.
  apply Forall_forall. intros e He env.
  pose proof ph_bodies_ok as B. rewrite forallb_forall in B. specialize (B e He).
  destruct (placeholder (snd e)) as [[n d]|] eqn:Hp; [|exact I].
  assert (G : forall look, stored_x env look (fst e) (snd e) =
                rescan_tail (xp_only env look 99 (fst e)) (match getenv env n with Some v => v | None => d end)).
  { intros look. now apply stored_placeholder. }
  split; [exact G|]. intros v -> Hv. split.
  - intros look. rewrite G. apply rescan_tail_plain; [|exact Hv]. intros t H1 H2. apply xp_only_noph; [assumption|lia].
  - intros look. apply noexp_inv in Hv. destruct Hv. apply xp_all_noph; [assumption|unfold xfuel; lia].
Qed.

Lemma assoc_in : forall k l v, assoc k l = Some v -> In (k, v) l.
Proof.
  induction l as [|[a b] r IH]; cbn; intros v H; [discriminate|].
  destruct (String.eqb a k) eqn:E.
  - apply String.eqb_eq in E. inversion H; subst. now left.
  - right. now apply IH.
Qed.

(* the environment variable n is unset or holds a value without placeholder, and so does the default *)
Definition env_plain (env : list (string * string)) (n d : string) : Prop :=
  noexp (match getenv env n with Some v => v | None => d end) = true.

Lemma builtin_env_default :
  forall env key raw n d,
    assoc key builtin_ini = Some raw -> placeholder raw = Some (n, d) -> env_plain env n d ->
    builtin env key = match getenv env n with Some v => v | None => d end.
Proof.
  intros env key raw n d Hk Hp Hv. unfold builtin, builtin_x. rewrite Hk.
  pose proof builtin_placeholders as F. rewrite Forall_forall in F.
  specialize (F (key, raw) (assoc_in _ _ _ Hk) env). cbn [fst snd] in F. rewrite Hp in F.
  destruct F as [_ F]. destruct (F _ eq_refl Hv) as [F1 F2]. rewrite F1. cbn [xbind]. rewrite F2. reflexivity.
Qed.

(* ------------------------------------------------------------------ precedence *)
(* which source decides a setting: the four cases of present/absent sources *)
Inductive source := FromCmdline | FromIni | FromEnv | FromDefault.

Definition deciding (env : list (string * string)) (p : parsed) (cfgmap : list (string * string))
           (opt key envname : string) : source :=
  match value_of opt p with
  | Some _ => FromCmdline
  | None => match assoc key cfgmap with
            | Some _ => FromIni
            | None => match getenv env envname with Some _ => FromEnv | None => FromDefault end
            end
  end.

Lemma resolve_precedence :
  forall opt key, In (opt, key) opt_key ->
  forall raw n d, assoc key builtin_ini = Some raw -> placeholder raw = Some (n, d) ->
  forall env p cfgmap, env_plain env n d ->
    resolve env p cfgmap opt key =
    match value_of opt p with
    | Some v => v                                              (* command line (or prepended) *)
    | None => match assoc key cfgmap with
              | Some v => v                                    (* --pika:ini *)
              | None => match getenv env n with
                        | Some v => v                          (* environment placeholder *)
                        | None => d                            (* built-in default *)
                        end
              end
    end.
Proof.
  intros opt key _ raw n d Hk Hp env p cfgmap Hv. unfold resolve.
  destruct (value_of opt p); [reflexivity|].
  destruct (assoc key cfgmap); [reflexivity|].
  now apply builtin_env_default with (raw := raw).
Qed.

(* every option -> key pair of the table whose key has a line in the built-in ini has a
   well-formed placeholder there (so resolve_precedence applies to it) *)
Definition table_entry_ok (e : string * string) : bool :=
  match assoc (snd e) builtin_ini with
  | Some raw => match placeholder raw with Some _ => true | None => false end
  | None => String.eqb (snd e) "pika.thread_queue.high_priority_queues"
  end.
Lemma table_covered : forallb table_entry_ok opt_key = true.
Proof. vm_compute. reflexivity. Qed.

(* ------------------------------------------------------------------ --pika:ini position *)
Lemma assoc_app : forall k (a b : list (string * string)),
    assoc k (a ++ b) = match assoc k a with Some v => Some v | None => assoc k b end.
Proof.
  induction a as [|[x y] r IH]; cbn; intros; [reflexivity|].
  destruct (String.eqb x k); [reflexivity|apply IH].
Qed.

(* manage_config: the FIRST definition of a key decides (prepended definitions come first);
   it is consulted after the command-line option and before the environment/default *)
Lemma ini_first_wins :
  forall env p opt key a b v,
    value_of opt p = None -> assoc key a = Some v ->
    resolve env p (a ++ b) opt key = v.
Proof.
  intros. unfold resolve. rewrite H, assoc_app, H0. reflexivity.
Qed.

Lemma ini_below_cmdline :
  forall env p cfgmap opt key v, value_of opt p = Some v -> resolve env p cfgmap opt key = v.
Proof. intros. unfold resolve. now rewrite H. Qed.

Lemma ini_above_env :
  forall env env' p cfgmap opt key v,
    value_of opt p = None -> assoc key cfgmap = Some v ->
    resolve env p cfgmap opt key = v /\ resolve env' p cfgmap opt key = v.
Proof. intros. unfold resolve. now rewrite H, H0. Qed.

(* ------------------------------------------------------------------ order independence *)
Lemma filter_perm_nodup :
  forall (k : string) (l l' : list (string * string)),
    Permutation l l' -> NoDup (map fst l) ->
    filter (fun o => String.eqb (fst o) k) l = filter (fun o => String.eqb (fst o) k) l'.
Proof.
  intros k l l' P. induction P; intro ND.
  - reflexivity.
  - cbn. inversion ND; subst. rewrite IHP by assumption. reflexivity.
  - cbn. inversion ND as [|? ? Hx ND']; subst. inversion ND' as [|? ? Hy ND'']; subst.
    destruct (String.eqb (fst y) k) eqn:Ey, (String.eqb (fst x) k) eqn:Ex; try reflexivity.
    apply String.eqb_eq in Ey, Ex. exfalso. apply Hx. left. congruence.
  - rewrite IHP1 by assumption. apply IHP2.
    eapply Permutation_NoDup; [apply Permutation_map; eassumption|assumption].
Qed.

Lemma assoc_filter : forall k l,
    assoc k l = match filter (fun o => String.eqb (fst o) k) l with e :: _ => Some (snd e) | [] => None end.
Proof.
  induction l as [|[a b] r IH]; cbn; [reflexivity|].
  destruct (String.eqb a k); [reflexivity|apply IH].
Qed.

Lemma order_independent_resolve :
  forall env p p' cfg cfg' opt key,
    Permutation (p_opts p) (p_opts p') -> NoDup (map fst (p_opts p)) ->
    Permutation cfg cfg' -> NoDup (map fst cfg) ->
    resolve env p cfg opt key = resolve env p' cfg' opt key.
Proof.
  intros env p p' cfg cfg' opt key P ND P2 ND2. unfold resolve, value_of, values_of.
  rewrite (filter_perm_nodup opt _ _ P ND).
  rewrite (assoc_filter key cfg), (assoc_filter key cfg'), (filter_perm_nodup key _ _ P2 ND2).
  reflexivity.
Qed.

(* ------------------------------------------------------------------ rejected input *)
Ltac crush_handle :=
  repeat match goal with
         | |- (if ?b then _ else _) <> _ => destruct b; [try discriminate|try discriminate]
         | |- (let '(_, _) := ?x in _) <> _ => destruct x
         | |- match ?x with _ => _ end <> _ => destruct x; try discriminate
         end.

Lemma threads_zero_rejected :
  forall env p cfg m ok f a v,
    value_of "pika:threads" p = Some v -> parse_size v = Some 0%N ->
    v <> "all" -> v <> "cores" ->
    forall c, handle env p cfg m ok f a <> Started c.
Proof.
  intros env p cfg m ok f a v Hv Hp Hall Hcores c. unfold handle. rewrite Hv, Hp.
  apply String.eqb_neq in Hall, Hcores. rewrite Hall, Hcores. cbn [N.eqb].
  crush_handle.
Qed.

Lemma threads_not_a_number_rejected :
  forall env p cfg m ok f a v,
    value_of "pika:threads" p = Some v -> parse_size v = None ->
    v <> "all" -> v <> "cores" ->
    forall c, handle env p cfg m ok f a <> Started c.
Proof.
  intros env p cfg m ok f a v Hv Hp Hall Hcores c. unfold handle. rewrite Hv, Hp.
  apply String.eqb_neq in Hall, Hcores. rewrite Hall, Hcores.
  crush_handle.
Qed.

Lemma numa_out_of_range_rejected :
  forall env p cfg m ok f a v n,
    value_of "pika:numa-sensitive" p = Some v -> parse_size v = Some n -> (2 < n)%N ->
    forall c, handle env p cfg m ok f a <> Started c.
Proof.
  intros env p cfg m ok f a v n Hv Hp Hn c.
  assert (E : (2 <? parse_size_or v 0)%N = true).
  { unfold parse_size_or. rewrite Hp. now apply N.ltb_lt. }
  unfold handle. rewrite Hv. cbv zeta. rewrite E.
  crush_handle.
Qed.

Lemma unknown_ini_key_rejected :
  forall env p cfg m f a c, handle env p cfg m false f a <> Started c.
Proof.
  intros. unfold handle. cbn [negb]. crush_handle.
Qed.

Lemma argv_rejected_not_started :
  forall env p cfg m ok f a e, a tt = inr e -> forall c, handle env p cfg m ok f a <> Started c.
Proof.
  intros env p cfg m ok f a e Ha c. unfold handle. rewrite Ha. crush_handle.
Qed.

Lemma unregistered_rejected :
  forall ex arg0 pco args p, p_unreg p <> [] ->
    exists e, app_argv ex arg0 pco args p = inr e /\
              (e = RLateUnknown \/ e = RExpandLoop).
Proof.
  intros ex arg0 pco args p H. unfold app_argv.
  destruct (cmd_line_status ex arg0 args p); [|eexists; split; [reflexivity|tauto]..].
  destruct (p_unreg p); [congruence|]. eexists; split; [reflexivity|tauto].
Qed.

Lemma unregistered_not_started env p cfg m ok f ex arg0 pco args :
  p_unreg p <> [] -> forall c, handle env p cfg m ok f (fun _ => app_argv ex arg0 pco args p) <> Started c.
Proof.
  intros H. destruct (unregistered_rejected ex arg0 pco args p H) as (e & E & _).
  exact (argv_rejected_not_started env p cfg m ok f (fun _ => app_argv ex arg0 pco args p) e E).
Qed.

(* an unknown --name[=value] token (not an abbreviation of a registered option) that the parser
   reaches as an option is recorded as unregistered, verbatim *)
Lemma unknown_token_unregistered :
  forall fuel t r p name,
    starts "--" t = true -> t <> "--" ->
    name = match split_at c_eq (drop 2 t) with Some (a, _) => a | None => drop 2 t end ->
    lookup_opt name = LUnknown ->
    parse_tokens (S fuel) (t :: r) false p = parse_tokens fuel r false (add_unreg t p).
Proof.
  intros fuel t r p name Hs Hne Hn Hl. cbn [parse_tokens].
  apply String.eqb_neq in Hne. rewrite Hne, Hs.
  destruct (split_at c_eq (drop 2 t)) as [[a b]|]; subst name; rewrite Hl; reflexivity.
Qed.

Lemma parse_unreg_mono :
  forall fuel ts term p q,
    parse_tokens fuel ts term p = inl q -> p_unreg p <> [] -> p_unreg q <> [].
Proof.
  induction fuel as [|fuel IH]; intros ts term p q H Hp; [discriminate|].
  assert (U1 : forall t, p_unreg (add_pos t p) <> []) by (intro; exact Hp).
  assert (U2 : forall n v, p_unreg (add_opt n v p) <> []) by (intros; exact Hp).
  assert (U3 : forall t, p_unreg (add_unreg t p) <> []).
  { intros t E. cbn in E. destruct (p_unreg p); discriminate. }
  cbn [parse_tokens] in H. destruct ts as [|t r]; [inversion H; subst; exact Hp|].
  repeat match type of H with
         | (if ?b then _ else _) = _ => destruct b
         | (let '(_, _) := ?x in _) = _ => destruct x
         | match ?x with _ => _ end = _ => destruct x
         end; try discriminate; eapply IH; eauto.
Qed.

(* ------------------------------------------------------------------ duplicates (F11) *)
Definition single (n : string) : bool := match kind_of n with Some 2 => false | _ => true end.

Lemma dup_in_cons : forall seen n v r,
    dup_in seen ((n, v) :: r) =
    if single n then (if existsb (String.eqb n) seen then true else dup_in (n :: seen) r) else dup_in seen r.
Proof.
  intros. cbn [dup_in]. unfold single. destruct (kind_of n) as [[|[|[|?]]]|]; reflexivity.
Qed.

Lemma dup_in_spec :
  forall l seen,
    dup_in seen l = false <->
    (NoDup (filter single (map fst l)) /\ forall n, In n (filter single (map fst l)) -> ~ In n seen).
Proof.
  induction l as [|[n v] r IH]; intro seen.
  - cbn. split; [intros _; split; [constructor|intros ? []]|reflexivity].
  - rewrite dup_in_cons. cbn [map fst filter]. destruct (single n) eqn:S; [|apply IH].
    destruct (existsb (String.eqb n) seen) eqn:E.
    + split; [discriminate|]. intros [_ H]. exfalso. apply (H n); [now left|].
      apply existsb_exists in E. destruct E as [x [Hx Ex]]. apply String.eqb_eq in Ex. now subst.
    + rewrite IH. split.
      * intros [ND H]. split.
        -- constructor; [|exact ND]. intro Hin. apply (H n Hin). now left.
        -- intros x [<-|Hx] Hin.
           ++ assert (existsb (String.eqb n) seen = true); [|congruence].
              apply existsb_exists. exists n. split; [exact Hin|apply String.eqb_refl].
           ++ apply (H x Hx). now right.
      * intros [ND H]. inversion ND; subst. split; [assumption|].
        intros x Hx [<-|Hin]; [contradiction|]. apply (H x); [now right|assumption].
Qed.

Lemma no_shared_option_no_duplicate :
  forall pre cmd,
    dup_in [] pre = false -> dup_in [] cmd = false ->
    (forall n, In n (filter single (map fst pre)) -> ~ In n (filter single (map fst cmd))) ->
    dup_in [] (pre ++ cmd) = false.
Proof.
  intros pre cmd Hp Hc Hd. apply dup_in_spec in Hp. apply dup_in_spec in Hc. apply dup_in_spec.
  destruct Hp as [Np _], Hc as [Nc _]. rewrite map_app, filter_app. split; [|intros ? ? []].
  set (a := filter single (map fst pre)) in *. set (b := filter single (map fst cmd)) in *.
  clearbody a b. revert Np Hd. induction a as [|x a IH]; cbn; intros Na Hd; [exact Nc|].
  inversion Na; subst. constructor.
  - rewrite in_app_iff. intros [H|H]; [contradiction|]. apply (Hd x); [now left|exact H].
  - apply IH; [assumption|]. intros n Hn. apply Hd. now right.
Qed.

Lemma shared_option_duplicate :
  forall pre cmd n, single n = true -> In n (map fst pre) -> In n (map fst cmd) ->
                    dup_in [] (pre ++ cmd) = true.
Proof.
  intros pre cmd n S Hp Hc. destruct (dup_in [] (pre ++ cmd)) eqn:E; [reflexivity|].
  apply dup_in_spec in E. destruct E as [ND _]. rewrite map_app, filter_app in ND.
  exfalso. assert (A : In n (filter single (map fst pre))) by (apply filter_In; auto).
  assert (B : In n (filter single (map fst cmd))) by (apply filter_In; auto).
  clear - ND A B. induction (filter single (map fst pre)) as [|x a IH]; [destruct A|].
  cbn in ND. inversion ND; subst. destruct A as [->|A]; [apply H1; apply in_app_iff; now right|auto].
Qed.

(* ------------------------------------------------------------------ application arguments *)
(* plain characters: what survives reconstruct_command_line + split_unix untouched *)
Definition plain_char (c : ascii) : bool :=
  negb (is_ws c || aeqb c c_dq || aeqb c c_sq || aeqb c c_bs).
Fixpoint plain (s : string) : bool :=
  match s with EmptyString => true | String c r => plain_char c && plain r end.

Definition sq (c : ascii) : bool := aeqb c c_dq || aeqb c c_sq.

Lemma tokF_plain :
  forall s cur rest,
    plain s = true ->
    tokF (aeqb c_bs) is_ws sq (s ++ rest) false cur = tokF (aeqb c_bs) is_ws sq rest false (cur ++ s).
Proof.
  induction s as [|c s IH]; intros cur rest H; cbn [append].
  - now rewrite append_empty_r.
  - cbn [plain] in H. apply andb_true_iff in H. destruct H as [Hc Hs].
    unfold plain_char in Hc. apply negb_true_iff in Hc.
    apply orb_false_iff in Hc; destruct Hc as [Hc Hbs].
    apply orb_false_iff in Hc; destruct Hc as [Hc H0].
    apply orb_false_iff in Hc; destruct Hc as [Hc H1].
    cbn [tokF].
    assert (E1 : aeqb c_bs c = false) by (unfold aeqb in *; rewrite Ascii.eqb_sym; exact Hbs).
    rewrite E1. rewrite Hc. unfold sq. rewrite H1, H0. cbn [orb].
    rewrite IH by assumption. f_equal.
    clear. revert c s. induction cur; intros; cbn; [reflexivity|]. f_equal. apply IHcur.
Qed.

(* ================================================================== application arguments, end to end *)
(* the guard: characters that survive reconstruct_command_line + split_unix (model) *)
Definition safe_char (c : ascii) : bool :=
  negb (aeqb c c_dq || aeqb c c_sq || aeqb c c_bs || aeqb c c_dollar).
Fixpoint all_safe (s : string) : bool :=
  match s with EmptyString => true | String c r => safe_char c && all_safe r end.
Definition arg_safe (s : string) : bool := nonempty s && all_safe s.

Notation tokU := (tokF (aeqb c_bs) is_ws sq).

Lemma app_assoc_s (a b c : string) : (a ++ b) ++ c = a ++ (b ++ c).
Proof. induction a; cbn; congruence. Qed.

Lemma safe_char_inv c : safe_char c = true ->
  aeqb c c_dq = false /\ aeqb c c_sq = false /\ aeqb c c_bs = false /\ aeqb c c_dollar = false.
Proof.
  unfold safe_char. intros H. apply negb_true_iff in H.
  apply orb_false_iff in H. destruct H as [H H4].
  apply orb_false_iff in H. destruct H as [H H3].
  apply orb_false_iff in H. destruct H as [H1 H2]. auto.
Qed.

Lemma safe_char_facts c : safe_char c = true ->
  aeqb c_bs c = false /\ sq c = false.
Proof.
  intros H. destruct (safe_char_inv _ H) as (H1 & H2 & H3 & _). unfold sq. rewrite H1, H2.
  split; [unfold aeqb in *; rewrite Ascii.eqb_sym; assumption|reflexivity].
Qed.

Lemma all_safe_cons c s : all_safe (String c s) = true -> safe_char c = true /\ all_safe s = true.
Proof. cbn. apply andb_true_iff. Qed.

(* inside quotes every safe character, blanks included, is copied *)
Lemma tokF_inq : forall s cur rest, all_safe s = true ->
  tokU (s ++ rest) true cur = tokU rest true (cur ++ s).
Proof.
  induction s as [|c s IH]; intros cur rest H; cbn [append].
  - now rewrite append_empty_r.
  - apply all_safe_cons in H. destruct H as [Hc Hs]. destruct (safe_char_facts _ Hc) as [E1 E2].
    cbn [tokF]. rewrite E1, E2. destruct (is_ws c); rewrite IH by assumption; f_equal;
      rewrite app_assoc_s; reflexivity.
Qed.

Lemma safe_nows_plain s : all_safe s = true -> contains c_space s = false -> contains c_tab s = false ->
  plain s = true.
Proof.
  induction s as [|c s IH]; intros H Hs Ht; [reflexivity|].
  apply all_safe_cons in H. destruct H as [Hc H]. cbn [contains] in Hs, Ht.
  apply orb_false_iff in Hs, Ht. destruct Hs as [Hs1 Hs], Ht as [Ht1 Ht].
  cbn [plain]. rewrite IH by assumption. rewrite andb_true_r.
  unfold plain_char, is_ws. destruct (safe_char_inv _ Hc) as (H1 & H2 & H3 & _).
  assert (A : aeqb c c_space = false) by (unfold aeqb in *; rewrite Ascii.eqb_sym; assumption).
  assert (B : aeqb c c_tab = false) by (unfold aeqb in *; rewrite Ascii.eqb_sym; assumption).
  rewrite A, B, H1, H2, H3. reflexivity.
Qed.

Lemma safe_no_dq s : all_safe s = true -> contains c_dq s = false.
Proof.
  induction s as [|c s IH]; intros H; [reflexivity|]. apply all_safe_cons in H. destruct H as [Hc H].
  cbn [contains]. rewrite IH by assumption. destruct (safe_char_inv _ Hc) as (H1 & _).
  unfold aeqb in *. rewrite Ascii.eqb_sym, H1. reflexivity.
Qed.

(* embed_in_quotes v is consumed as v, leaving the tokenizer outside quotes *)
Lemma tokF_embed v cur rest : all_safe v = true ->
  tokU (embed_in_quotes v ++ rest) false cur = tokU rest false (cur ++ v).
Proof.
  intros H. unfold embed_in_quotes. rewrite (safe_no_dq _ H).
  destruct (contains c_space v || contains c_tab v) eqn:E.
  - rewrite !app_assoc_s. change (String c_dq "" ++ (v ++ String c_dq "" ++ rest))
      with (String c_dq (v ++ String c_dq rest)).
    cbn [tokF]. change (aeqb c_bs c_dq) with false. change (is_ws c_dq) with false. change (sq c_dq) with true.
    cbv iota. cbn [negb]. rewrite tokF_inq by assumption. cbn [tokF].
    change (aeqb c_bs c_dq) with false. change (is_ws c_dq) with false. change (sq c_dq) with true.
    cbv iota. reflexivity.
  - apply orb_false_iff in E. destruct E. apply tokF_plain. apply safe_nows_plain; assumption.
Qed.

Lemma tokF_sep cur rest : tokU (String c_space rest) false cur =
  match tokU rest false "" with Some l => Some (cur :: l) | None => None end.
Proof. reflexivity. Qed.

Definition item_token (k v : string) : string :=
  "--" ++ k ++ (match v with EmptyString => "" | _ => "=" ++ v end).

Definition omap_app (pre : list string) (o : option (list string)) : option (list string) :=
  match o with Some l => Some (pre ++ l)%list | None => None end.

Lemma omap_app_nil o : omap_app [] o = o.
Proof. destruct o; reflexivity. Qed.
Lemma omap_app_app a b o : omap_app a (omap_app b o) = omap_app (a ++ b)%list o.
Proof. destruct o; cbn; [rewrite app_assoc|]; reflexivity. Qed.

Lemma tokF_item k v rest : plain k = true -> all_safe v = true ->
  tokU (add_as_option k (embed_in_quotes v) ++ rest) false "" = omap_app [item_token k v] (tokU rest false "").
Proof.
  intros Hk Hv. unfold add_as_option. rewrite !app_assoc_s.
  rewrite (tokF_plain "--") by reflexivity. rewrite (tokF_plain k) by assumption.
  destruct v as [|c v].
  - cbn [embed_in_quotes contains orb]. cbv iota. cbn [append].
    change (String " " rest) with (String c_space rest). rewrite tokF_sep.
    unfold item_token. cbn [append]. rewrite append_empty_r. destruct (tokU rest false ""); reflexivity.
  - assert (E : exists c' r', embed_in_quotes (String c v) = String c' r').
    { unfold embed_in_quotes. destruct (contains c_space _ || contains c_tab _).
      - destruct (contains c_dq _); cbn; eauto.
      - eauto. }
    destruct E as (c' & r' & E). rewrite E. rewrite <- E. clear E.
    rewrite !app_assoc_s. rewrite (tokF_plain "=") by reflexivity.
    rewrite tokF_embed by assumption.
    change (" " ++ rest) with (String c_space rest). rewrite tokF_sep.
    unfold item_token. cbn [append]. rewrite !app_assoc_s. cbn [append].
    destruct (tokU rest false ""); reflexivity.
Qed.

Lemma concat_cons_s x xs : String.concat "" (x :: xs) = x ++ String.concat "" xs.
Proof. destruct xs; cbn; [now rewrite append_empty_r|reflexivity]. Qed.

Lemma tokF_items n vs rest : plain n = true -> Forall (fun v => all_safe v = true) vs ->
  tokU (String.concat "" (map (fun v => add_as_option n (embed_in_quotes v)) vs) ++ rest) false "" =
  omap_app (map (item_token n) vs) (tokU rest false "").
Proof.
  intros Hn. induction 1 as [|v vs Hv _ IH].
  - cbn. now rewrite omap_app_nil.
  - cbn [map]. rewrite concat_cons_s, app_assoc_s, tokF_item by assumption. rewrite IH.
    rewrite omap_app_app. reflexivity.
Qed.

Definition chunk_text (p : parsed) (n : string) : string :=
    if String.eqb n "pika:positional" then String.concat "" (map (fun v => add_as_option n (embed_in_quotes v)) (p_pos p))
    else match kind_of n with
         | Some 1 => match value_of n p with Some v => add_as_option n (embed_in_quotes v)
                                           | None => if String.eqb n "pika:config" then add_as_option n "" else "" end
         | Some 2 => String.concat "" (map (fun v => add_as_option n (embed_in_quotes v)) (values_of n p))
         | Some 3 => if String.eqb n "pika:attach-debugger"
                     then match value_of n p with Some v => add_as_option n (embed_in_quotes v) | None => "" end else ""
         | _ => "" end.

Definition chunk_tokens (p : parsed) (n : string) : list string :=
    if String.eqb n "pika:positional" then map (item_token n) (p_pos p)
    else match kind_of n with
         | Some 1 => match value_of n p with Some v => [item_token n v]
                                           | None => if String.eqb n "pika:config" then [item_token n ""] else [] end
         | Some 2 => map (item_token n) (values_of n p)
         | Some 3 => if String.eqb n "pika:attach-debugger"
                     then match value_of n p with Some v => [item_token n v] | None => [] end else []
         | _ => [] end.

Lemma reconstruct_chunks p : reconstruct p = String.concat "" (map (chunk_text p) (vm_names p)).
Proof. reflexivity. Qed.

Definition opts_safe (p : parsed) : Prop := Forall (fun o => all_safe (snd o) = true) (p_opts p).

Lemma values_of_safe n p : opts_safe p -> Forall (fun v => all_safe v = true) (values_of n p).
Proof.
  unfold opts_safe, values_of. intros H. induction H as [|o l Ho _ IH]; cbn; [constructor|].
  destruct (String.eqb (fst o) n); cbn; [constructor|]; assumption.
Qed.

Lemma value_of_safe n p v : opts_safe p -> value_of n p = Some v -> all_safe v = true.
Proof.
  intros H E. unfold value_of in E. pose proof (values_of_safe n p H) as F.
  destruct (values_of n p); [discriminate|]. inversion E; subst. now inversion F.
Qed.

Lemma tokF_chunk p n rest : plain n = true -> opts_safe p -> Forall (fun v => all_safe v = true) (p_pos p) ->
  tokU (chunk_text p n ++ rest) false "" = omap_app (chunk_tokens p n) (tokU rest false "").
Proof.
  intros Hn Ho Hp. unfold chunk_text, chunk_tokens.
  assert (Z : tokU ("" ++ rest) false "" = omap_app [] (tokU rest false "")) by (now rewrite omap_app_nil).
  assert (V : forall v, value_of n p = Some v ->
     tokU (add_as_option n (embed_in_quotes v) ++ rest) false "" = omap_app [item_token n v] (tokU rest false "")).
  { intros v E. apply tokF_item; [assumption|]. eapply value_of_safe; eassumption. }
  destruct (String.eqb n "pika:positional"); [apply tokF_items; assumption|].
  destruct (kind_of n) as [[|[|[|[|k]]]]|]; try exact Z.
  - destruct (value_of n p) eqn:E; [now apply V|].
    destruct (String.eqb n "pika:config"); [|exact Z].
    apply (tokF_item n "" rest Hn eq_refl).
  - apply tokF_items; [assumption|]. now apply values_of_safe.
  - destruct (String.eqb n "pika:attach-debugger"); [|exact Z].
    destruct (value_of n p) eqn:E; [now apply V|exact Z].
Qed.

Lemma tokF_reconstruct p rest : Forall (fun n => plain n = true) (vm_names p) -> opts_safe p ->
  Forall (fun v => all_safe v = true) (p_pos p) ->
  tokU (reconstruct p ++ rest) false "" = omap_app (flat_map (chunk_tokens p) (vm_names p)) (tokU rest false "").
Proof.
  intros Hn Ho Hp. rewrite reconstruct_chunks. induction Hn as [|n l Hn1 _ IH].
  - cbn. now rewrite omap_app_nil.
  - cbn [map flat_map]. rewrite concat_cons_s, app_assoc_s, tokF_chunk by assumption. rewrite IH.
    rewrite omap_app_app. reflexivity.
Qed.

(* ---- trim: the line travels through an ini entry *)
Fixpoint all_blank (s : string) : bool :=
  match s with EmptyString => true | String c r => is_ws c && all_blank r end.
Fixpoint nobs (s : string) : bool :=
  match s with EmptyString => true | String c r => negb (aeqb c_bs c) && nobs r end.

Lemma nobs_app a b : nobs (a ++ b) = nobs a && nobs b.
Proof. induction a; cbn; [reflexivity|]. rewrite IHa. now rewrite andb_assoc. Qed.

Lemma rev_str_rev : forall s acc x, rev_str (rev_str s acc) x = rev_str acc (s ++ x).
Proof. induction s as [|c r IH]; intros acc x; cbn; [reflexivity|]. rewrite IH. reflexivity. Qed.
Lemma rev_str_app : forall a b acc, rev_str (a ++ b) acc = rev_str b (rev_str a acc).
Proof. induction a as [|c r IH]; intros b acc; cbn; [reflexivity|apply IH]. Qed.
Lemma rev_str_acc : forall s acc, rev_str s acc = rev_str s "" ++ acc.
Proof.
  induction s as [|c r IH]; intros acc; cbn; [reflexivity|].
  rewrite (IH (String c acc)), (IH (String c "")), app_assoc_s. reflexivity.
Qed.
Lemma all_blank_rev : forall s acc, all_blank s = true -> all_blank acc = true -> all_blank (rev_str s acc) = true.
Proof.
  induction s as [|c r IH]; intros acc H Ha; cbn; [assumption|].
  cbn [all_blank] in H. apply andb_true_iff in H. destruct H. apply IH; [assumption|]. cbn. now rewrite H, Ha.
Qed.
Lemma ltrim_split s : exists a, s = a ++ ltrim s /\ all_blank a = true.
Proof.
  induction s as [|c r IH]; [exists ""; split; reflexivity|].
  cbn [ltrim]. destruct (is_ws c) eqn:E; [|exists ""; split; reflexivity].
  destruct IH as (a & E1 & E2). exists (String c a). cbn. rewrite <- E1, E, E2. split; reflexivity.
Qed.
Definition rtrim (x : string) : string := rev_str (ltrim (rev_str x "")) "".
Lemma rtrim_split x : exists b, x = rtrim x ++ b /\ all_blank b = true.
Proof.
  destruct (ltrim_split (rev_str x "")) as (a & E1 & E2).
  exists (rev_str a ""). split; [|now apply all_blank_rev].
  unfold rtrim. rewrite <- rev_str_acc, <- rev_str_app, <- E1.
  rewrite rev_str_rev. cbn. now rewrite append_empty_r.
Qed.
Lemma trim_rtrim s : trim s = rtrim (ltrim s).
Proof. reflexivity. Qed.

Lemma tokF_blanks : forall b cur, all_blank b = true ->
  tokU b false cur = Some (cur :: repeat "" (String.length b)) /\ tokU b true cur = Some [cur ++ b].
Proof.
  induction b as [|c b IH]; intros cur H; cbn [tokF String.length repeat]; [rewrite append_empty_r; split; reflexivity|].
  cbn [all_blank] in H. apply andb_true_iff in H. destruct H as [Hc Hb].
  assert (E1 : aeqb c_bs c = false).
  { unfold is_ws in Hc. apply orb_true_iff in Hc. destruct Hc as [Hc|Hc]; apply Ascii.eqb_eq in Hc; subst; reflexivity. }
  rewrite E1, Hc. destruct (IH "" Hb) as [A _]. destruct (IH (cur ++ String c "") Hb) as [_ B].
  rewrite A, B. rewrite app_assoc_s. split; reflexivity.
Qed.

Lemma tokF_nonnil : forall s inq cur l, nobs s = true -> tokU s inq cur = Some l -> l <> [].
Proof.
  induction s as [|c s IH]; intros inq cur l Hn H; cbn [tokF] in H; [inversion H; discriminate|].
  cbn [nobs] in Hn. apply andb_true_iff in Hn. destruct Hn as [Hc Hn]. apply negb_true_iff in Hc. rewrite Hc in H.
  destruct (is_ws c).
  - destruct inq; [eapply IH; eassumption|].
    destruct (tokU s false ""); inversion H; discriminate.
  - destruct (sq c); eapply IH; eassumption.
Qed.

Lemma filter_repeat_empty n : filter nonempty (repeat "" n) = [].
Proof. induction n; cbn; auto. Qed.

Lemma append_eq_empty a b : a ++ b = "" -> a = "" /\ b = "".
Proof. destruct a; cbn; [auto|discriminate]. Qed.

(* trailing blanks of a line that ends outside quotes only add empty tokens *)
Lemma tokF_strip_blanks : forall s inq cur b l,
  nobs s = true -> all_blank b = true -> tokU (s ++ b) inq cur = Some l -> last l "" = "" ->
  exists l', tokU s inq cur = Some l' /\ filter nonempty l' = filter nonempty l.
Proof.
  induction s as [|c s IH]; intros inq cur b l Hn Hb H Hl.
  - cbn [append] in H. destruct (tokF_blanks b cur Hb) as [A B]. destruct inq.
    + rewrite B in H. inversion H; subst. cbn in Hl. apply append_eq_empty in Hl. destruct Hl; subst.
      exists [""]. split; reflexivity.
    + rewrite A in H. inversion H; subst. exists [cur]. split; [reflexivity|].
      cbn [filter]. rewrite filter_repeat_empty. destruct (nonempty cur); reflexivity.
  - cbn [nobs] in Hn. apply andb_true_iff in Hn. destruct Hn as [Hc Hn]. apply negb_true_iff in Hc.
    cbn [append tokF] in *. rewrite Hc in *.
    destruct (is_ws c).
    + destruct inq; [eapply IH; eassumption|].
      destruct (tokU (s ++ b) false "") as [l2|] eqn:E2; [|discriminate]. inversion H; subst.
      assert (N : l2 <> []).
      { eapply tokF_nonnil; [|exact E2]. rewrite nobs_app, Hn. cbn.
        clear - Hb. induction b as [|d b IHb]; [reflexivity|]. cbn in *. apply andb_true_iff in Hb. destruct Hb as [Hd Hb].
        rewrite IHb by assumption. unfold is_ws in Hd. apply orb_true_iff in Hd.
        destruct Hd as [Hd|Hd]; apply Ascii.eqb_eq in Hd; subst; reflexivity. }
      assert (Hl2 : last l2 "" = "") by (destruct l2; [congruence|exact Hl]).
      destruct (IH false "" b l2 Hn Hb E2 Hl2) as (l' & A & B). rewrite A. exists (cur :: l'). split; [reflexivity|].
      cbn [filter]. rewrite B. reflexivity.
    + destruct (sq c); eapply IH; eassumption.
Qed.

(* ---- no backslash anywhere in the rebuilt line *)
Lemma safe_nobs s : all_safe s = true -> nobs s = true.
Proof.
  induction s as [|c s IH]; intros H; [reflexivity|]. apply all_safe_cons in H. destruct H as [Hc H].
  cbn [nobs]. rewrite IH by assumption. destruct (safe_char_facts _ Hc) as [E _]. now rewrite E.
Qed.
Lemma plain_nobs s : plain s = true -> nobs s = true.
Proof.
  induction s as [|c s IH]; intros H; [reflexivity|]. cbn [plain] in H. apply andb_true_iff in H. destruct H as [Hc H].
  cbn [nobs]. rewrite IH by assumption. unfold plain_char in Hc. apply negb_true_iff in Hc.
  apply orb_false_iff in Hc. destruct Hc as [_ Hc]. unfold aeqb in *. rewrite Ascii.eqb_sym, Hc. reflexivity.
Qed.
Lemma nobs_embed v : all_safe v = true -> nobs (embed_in_quotes v) = true.
Proof.
  intros H. apply safe_nobs in H. unfold embed_in_quotes.
  destruct (contains c_space v || contains c_tab v); [|assumption].
  destruct (contains c_dq v); rewrite !nobs_app, H; reflexivity.
Qed.
Lemma nobs_add_as_option k v : nobs k = true -> nobs v = true -> nobs (add_as_option k v) = true.
Proof.
  intros Hk Hv. unfold add_as_option. rewrite !nobs_app, Hk. destruct v; [reflexivity|].
  rewrite nobs_app, Hv. reflexivity.
Qed.
Lemma nobs_concat l : Forall (fun s => nobs s = true) l -> nobs (String.concat "" l) = true.
Proof.
  induction 1 as [|x l Hx _ IH]; [reflexivity|]. rewrite concat_cons_s, nobs_app, Hx, IH. reflexivity.
Qed.
Lemma nobs_items n vs : nobs n = true -> Forall (fun v => all_safe v = true) vs ->
  nobs (String.concat "" (map (fun v => add_as_option n (embed_in_quotes v)) vs)) = true.
Proof.
  intros Hn H. apply nobs_concat. induction H; cbn [map]; constructor; [|assumption].
  apply nobs_add_as_option; [assumption|now apply nobs_embed].
Qed.
Lemma nobs_chunk p n : plain n = true -> opts_safe p -> Forall (fun v => all_safe v = true) (p_pos p) ->
  nobs (chunk_text p n) = true.
Proof.
  intros Hn Ho Hp. apply plain_nobs in Hn. unfold chunk_text.
  assert (V : forall v, value_of n p = Some v -> nobs (add_as_option n (embed_in_quotes v)) = true).
  { intros v E. apply nobs_add_as_option; [assumption|]. apply nobs_embed. eapply value_of_safe; eassumption. }
  destruct (String.eqb n "pika:positional"); [now apply nobs_items|].
  destruct (kind_of n) as [[|[|[|[|k]]]]|]; try reflexivity.
  - destruct (value_of n p) eqn:E; [now apply V|].
    destruct (String.eqb n "pika:config"); [|reflexivity]. now apply nobs_add_as_option.
  - apply nobs_items; [assumption|]. now apply values_of_safe.
  - destruct (String.eqb n "pika:attach-debugger"); [|reflexivity].
    destruct (value_of n p) eqn:E; [now apply V|reflexivity].
Qed.
Lemma nobs_reconstruct p : Forall (fun n => plain n = true) (vm_names p) -> opts_safe p ->
  Forall (fun v => all_safe v = true) (p_pos p) -> nobs (reconstruct p) = true.
Proof.
  intros Hn Ho Hp. rewrite reconstruct_chunks. apply nobs_concat.
  induction Hn; cbn [map]; constructor; [|assumption]. now apply nobs_chunk.
Qed.

(* ---- no dollar sign in the rebuilt line: reading the ini entry back expands nothing *)
Fixpoint nodl (s : string) : bool :=
  match s with EmptyString => true | String c r => negb (aeqb c c_dollar) && nodl r end.

Lemma nodl_app a b : nodl (a ++ b) = nodl a && nodl b.
Proof. induction a; cbn; [reflexivity|]. rewrite IHa. now rewrite andb_assoc. Qed.
Lemma safe_nodl s : all_safe s = true -> nodl s = true.
Proof.
  induction s as [|c s IH]; intros H; [reflexivity|]. apply all_safe_cons in H. destruct H as [Hc H].
  cbn [nodl]. rewrite IH by assumption. destruct (safe_char_inv _ Hc) as (_ & _ & _ & E). now rewrite E.
Qed.
Lemma nodl_embed v : all_safe v = true -> nodl (embed_in_quotes v) = true.
Proof.
  intros H. apply safe_nodl in H. unfold embed_in_quotes.
  destruct (contains c_space v || contains c_tab v); [|assumption].
  destruct (contains c_dq v); rewrite !nodl_app, H; reflexivity.
Qed.
Lemma nodl_add_as_option k v : nodl k = true -> nodl v = true -> nodl (add_as_option k v) = true.
Proof.
  intros Hk Hv. unfold add_as_option. rewrite !nodl_app, Hk. destruct v; [reflexivity|].
  rewrite nodl_app, Hv. reflexivity.
Qed.
Lemma nodl_concat l : Forall (fun s => nodl s = true) l -> nodl (String.concat "" l) = true.
Proof.
  induction 1 as [|x l Hx _ IH]; [reflexivity|]. rewrite concat_cons_s, nodl_app, Hx, IH. reflexivity.
Qed.
Lemma nodl_items n vs : nodl n = true -> Forall (fun v => all_safe v = true) vs ->
  nodl (String.concat "" (map (fun v => add_as_option n (embed_in_quotes v)) vs)) = true.
Proof.
  intros Hn H. apply nodl_concat. induction H; cbn [map]; constructor; [|assumption].
  apply nodl_add_as_option; [assumption|now apply nodl_embed].
Qed.
Lemma nodl_chunk p n : nodl n = true -> opts_safe p -> Forall (fun v => all_safe v = true) (p_pos p) ->
  nodl (chunk_text p n) = true.
Proof.
  intros Hn Ho Hp. unfold chunk_text.
  assert (V : forall v, value_of n p = Some v -> nodl (add_as_option n (embed_in_quotes v)) = true).
  { intros v E. apply nodl_add_as_option; [assumption|]. apply nodl_embed. eapply value_of_safe; eassumption. }
  destruct (String.eqb n "pika:positional"); [now apply nodl_items|].
  destruct (kind_of n) as [[|[|[|[|k]]]]|]; try reflexivity.
  - destruct (value_of n p) eqn:E; [now apply V|].
    destruct (String.eqb n "pika:config"); [|reflexivity]. now apply nodl_add_as_option.
  - apply nodl_items; [assumption|]. now apply values_of_safe.
  - destruct (String.eqb n "pika:attach-debugger"); [|reflexivity].
    destruct (value_of n p) eqn:E; [now apply V|reflexivity].
Qed.
Lemma nodl_reconstruct p : Forall (fun n => nodl n = true) (vm_names p) -> opts_safe p ->
  Forall (fun v => all_safe v = true) (p_pos p) -> nodl (reconstruct p) = true.
Proof.
  intros Hn Ho Hp. rewrite reconstruct_chunks. apply nodl_concat.
  induction Hn; cbn [map]; constructor; [|assumption]. now apply nodl_chunk.
Qed.
Lemma nodl_ltrim s : nodl s = true -> nodl (ltrim s) = true.
Proof.
  induction s as [|c s IH]; intros H; [reflexivity|]. cbn [ltrim]. destruct (is_ws c); [|exact H].
  apply IH. cbn [nodl] in H. apply andb_true_iff in H. tauto.
Qed.
Lemma nodl_rev_str : forall s acc, nodl s = true -> nodl acc = true -> nodl (rev_str s acc) = true.
Proof.
  induction s as [|c s IH]; intros acc H A; [exact A|]. cbn [rev_str]. cbn [nodl] in H. apply andb_true_iff in H.
  destruct H as [Hc Hs]. apply IH; [exact Hs|]. cbn [nodl]. now rewrite Hc, A.
Qed.
Lemma nodl_trim s : nodl s = true -> nodl (trim s) = true.
Proof.
  intros H. unfold trim. apply nodl_rev_str; [|reflexivity]. apply nodl_ltrim. apply nodl_rev_str; [|reflexivity].
  now apply nodl_ltrim.
Qed.
(* add_entry's and get_config_entry's expansions leave a value without a dollar sign alone *)
Lemma nodl_contains : forall s, nodl s = true -> contains c_dollar s = false.
Proof.
  induction s as [|c s IH]; intros H; [reflexivity|]. cbn [nodl] in H. apply andb_true_iff in H. destruct H as [Hc Hs].
  apply negb_true_iff in Hc. cbn [contains]. rewrite aeqb_sym, Hc. now apply IH.
Qed.
Lemma read_x_nodl env look k s : nodl s = true -> read_x env look k s = XOk s.
Proof. intros H. apply read_x_no_dollar. now apply nodl_contains. Qed.

Lemma esc_dq_id s : contains c_dq s = false -> esc_dq s = s.
Proof.
  induction s as [|c s IH]; intros H; [reflexivity|]. cbn [contains] in H. apply orb_false_iff in H. destruct H as [H1 H2].
  cbn [esc_dq]. unfold aeqb in *. rewrite Ascii.eqb_sym, H1, IH by assumption. reflexivity.
Qed.
Lemma enc_embed s : all_safe s = true -> encode_and_enquote s = embed_in_quotes s.
Proof.
  intros H. pose proof (safe_no_dq _ H) as D. unfold encode_and_enquote, enquote, embed_in_quotes.
  rewrite esc_dq_id, D by assumption. rewrite orb_false_r. reflexivity.
Qed.

Lemma embed_head a : arg_safe a = true -> exists c r, embed_in_quotes a = String c r /\ is_ws c = false.
Proof.
  unfold arg_safe. intros H. apply andb_true_iff in H. destruct H as [Hn Hs].
  unfold embed_in_quotes. rewrite (safe_no_dq _ Hs).
  destruct (contains c_space a || contains c_tab a) eqn:E.
  - exists c_dq. eexists. split; reflexivity.
  - destruct a as [|c r]; [discriminate|]. exists c, r. split; [reflexivity|].
    apply orb_false_iff in E. destruct E as [E1 E2]. cbn [contains] in E1, E2.
    apply orb_false_iff in E1, E2. destruct E1 as [E1 _], E2 as [E2 _].
    unfold is_ws, aeqb in *. rewrite Ascii.eqb_sym, E1, Ascii.eqb_sym, E2. reflexivity.
Qed.

Lemma filter_all {A} (f : A -> bool) l : Forall (fun x => f x = true) l -> filter f l = l.
Proof. induction 1 as [|x l Hx _ IH]; cbn; [reflexivity|]. now rewrite Hx, IH. Qed.

Lemma prefix_empty x : String.prefix "" x = true.
Proof. destruct x; reflexivity. Qed.
Lemma item_token_dd k v : starts "--" (item_token k v) = true.
Proof. unfold item_token, starts. cbn. apply prefix_empty. Qed.

Lemma chunk_tokens_dd p n : Forall (fun t => starts "--" t = true) (chunk_tokens p n).
Proof.
  assert (M : forall vs, Forall (fun t => starts "--" t = true) (map (item_token n) vs)).
  { induction vs; cbn [map]; constructor; [apply item_token_dd|assumption]. }
  unfold chunk_tokens. destruct (String.eqb n "pika:positional"); [apply M|].
  destruct (kind_of n) as [[|[|[|[|k]]]]|]; try constructor.
  - destruct (value_of n p); [repeat constructor; apply item_token_dd|].
    destruct (String.eqb n "pika:config"); repeat constructor; apply item_token_dd.
  - apply M.
  - destruct (String.eqb n "pika:attach-debugger"); [|constructor].
    destruct (value_of n p); repeat constructor; apply item_token_dd.
Qed.

Lemma starts_dd_nonempty t : starts "--" t = true -> nonempty t = true.
Proof. destruct t; [discriminate|reflexivity]. Qed.

Lemma split_unix_of s l : tokU s false "" = Some l -> s <> "" -> split_unix s = Some (filter nonempty l).
Proof.
  intros H N. unfold split_unix, tokenize. destruct s; [congruence|].
  change (fun c => aeqb c c_dq || aeqb c c_sq) with sq. rewrite H. reflexivity.
Qed.

(* the rebuilt, trimmed line splits into argv[0] and one token per written option *)
Lemma split_rebuilt_line arg0 p :
  arg_safe arg0 = true -> Forall (fun n => plain n = true) (vm_names p) -> opts_safe p ->
  Forall (fun v => all_safe v = true) (p_pos p) ->
  split_unix (trim (encode_and_enquote arg0 ++ " " ++ reconstruct p ++ " ")) =
  Some (arg0 :: flat_map (chunk_tokens p) (vm_names p)).
Proof.
  intros Ha Hn Ho Hp.
  assert (Has : all_safe arg0 = true) by (unfold arg_safe in Ha; apply andb_true_iff in Ha; tauto).
  assert (Hne : nonempty arg0 = true) by (unfold arg_safe in Ha; apply andb_true_iff in Ha; tauto).
  rewrite enc_embed by assumption.
  set (items := flat_map (chunk_tokens p) (vm_names p)).
  set (line0 := embed_in_quotes arg0 ++ " " ++ reconstruct p ++ " ").
  assert (T0 : tokU line0 false "" = Some (arg0 :: items ++ [""; ""])%list).
  { unfold line0. rewrite tokF_embed by assumption. change (" " ++ reconstruct p ++ " ") with (String c_space (reconstruct p ++ " ")).
    rewrite tokF_sep, tokF_reconstruct by assumption. reflexivity. }
  assert (L0 : ltrim line0 = line0).
  { unfold line0. destruct (embed_head _ Ha) as (c & r & E & W). rewrite E. cbn [append ltrim]. now rewrite W. }
  assert (N0 : nobs line0 = true).
  { unfold line0. rewrite !nobs_app, nobs_embed, nobs_reconstruct by assumption. reflexivity. }
  rewrite trim_rtrim, L0. destruct (rtrim_split line0) as (b & E & Hb).
  rewrite E in T0, N0. rewrite nobs_app in N0. apply andb_true_iff in N0. destruct N0 as [N0 _].
  destruct (tokF_strip_blanks _ _ _ _ _ N0 Hb T0) as (l' & A & B).
  { change (arg0 :: items ++ [""; ""])%list with ((arg0 :: items) ++ [""] ++ [""])%list.
    rewrite app_assoc. apply last_last. }
  assert (NE : rtrim line0 <> "").
  { intros Er. rewrite Er in A. cbn in A. inversion A; subst. cbn in B. rewrite Hne in B. discriminate. }
  rewrite (split_unix_of _ _ A NE), B.
  cbn [filter]. rewrite Hne, filter_app. cbn [filter nonempty]. rewrite app_nil_r. f_equal. f_equal.
    apply filter_all. unfold items. clear -p. induction (vm_names p) as [|n l IH]; cbn [flat_map]; [constructor|].
    apply Forall_app. split; [|assumption].
    eapply Forall_impl; [|apply chunk_tokens_dd]. intros t. apply starts_dd_nonempty.
Qed.

(* ---- init_helper's filter on the tokens *)
Definition tbl : list string := map fst pika_options.
Definition POS := "pika:positional".
Definition differ (a b : string) : bool := negb (String.prefix a b) && negb (String.prefix b a).

Lemma tbl_plain : forallb plain tbl = true. Proof. vm_compute. reflexivity. Qed.
Lemma tbl_nodl : forallb nodl tbl = true. Proof. vm_compute. reflexivity. Qed.
Lemma tbl_pika : forallb (starts "pika:") tbl = true. Proof. vm_compute. reflexivity. Qed.
Lemma tbl_pos : forallb (fun k => String.eqb k POS || differ POS k) tbl = true. Proof. vm_compute. reflexivity. Qed.

Lemma prefix_append : forall p s x, String.prefix p s = true -> String.prefix p (s ++ x) = true.
Proof.
  induction p as [|c p IH]; intros s x H; [apply prefix_empty|].
  destruct s as [|d s]; [discriminate|]. cbn in *. destruct (ascii_dec c d); [|discriminate]. now apply IH.
Qed.
Lemma prefix_differ : forall a b x, String.prefix a b = false -> String.prefix b a = false -> String.prefix a (b ++ x) = false.
Proof.
  induction a as [|c a IH]; intros b x H1 H2; [now rewrite prefix_empty in H1|].
  destruct b as [|d b]; [now rewrite prefix_empty in H2|]. cbn in *.
  destruct (ascii_dec c d) as [->|N].
  - destruct (ascii_dec d d); [|congruence]. now apply IH.
  - reflexivity.
Qed.
Lemma split_at_app c : forall a b, contains c a = false -> split_at c (a ++ String c b) = Some (a, b).
Proof.
  induction a as [|d a IH]; intros b H; cbn [append split_at].
  - unfold aeqb. now rewrite Ascii.eqb_refl.
  - cbn [contains] in H. apply orb_false_iff in H. destruct H as [H1 H2]. rewrite H1, IH by assumption. reflexivity.
Qed.

Lemma af_cons t l : app_filter (t :: l) = (app_filter [t] ++ app_filter l)%list.
Proof. unfold app_filter. cbn [flat_map]. now rewrite app_nil_r. Qed.

Lemma af_other n v : In n tbl -> n <> POS -> app_filter [item_token n v] = [].
Proof.
  intros Hin Hne. pose proof tbl_pika as P. pose proof tbl_pos as D. rewrite forallb_forall in P, D.
  specialize (P n Hin). specialize (D n Hin). cbv beta in D. apply String.eqb_neq in Hne. rewrite Hne in D. cbn [orb] in D.
  unfold differ in D. apply andb_true_iff in D. destruct D as [D1 D2]. apply negb_true_iff in D1, D2.
  unfold app_filter. cbn [flat_map]. rewrite app_nil_r. unfold item_token, starts in *.
  change ("--" ++ n ++ match v with "" => "" | String _ _ => "=" ++ v end)
    with (String "-" (String "-" (n ++ match v with "" => "" | String _ _ => "=" ++ v end))).
  assert (A : String.prefix "--pika:" (String "-" (String "-" (n ++ match v with "" => "" | String _ _ => "=" ++ v end))) = true).
  { cbn. now apply prefix_append. }
  assert (B : String.prefix "--pika:positional" (String "-" (String "-" (n ++ match v with "" => "" | String _ _ => "=" ++ v end))) = false).
  { cbn. now apply prefix_differ. }
  rewrite A, B. reflexivity.
Qed.

Lemma af_pos v : nonempty v = true -> app_filter [item_token POS v] = [v].
Proof.
  intros H. destruct v as [|c v]; [discriminate|]. unfold app_filter. cbn [flat_map]. rewrite app_nil_r.
  unfold item_token, POS, starts.
  change ("--" ++ "pika:positional" ++ "=" ++ String c v) with ("--pika:positional" ++ String c_eq (String c v)).
  rewrite (prefix_append "--pika:" "--pika:positional") by reflexivity.
  rewrite (prefix_append "--pika:positional" "--pika:positional") by reflexivity.
  rewrite split_at_app by reflexivity. reflexivity.
Qed.

Lemma af_all_other l : Forall (fun t => app_filter [t] = []) l -> app_filter l = [].
Proof. induction 1 as [|t l Ht _ IH]; [reflexivity|]. now rewrite af_cons, Ht, IH. Qed.

Lemma af_chunk p n : In n tbl -> Forall (fun v => nonempty v = true) (p_pos p) ->
  app_filter (chunk_tokens p n) = if String.eqb n POS then p_pos p else [].
Proof.
  intros Hin Hp. unfold chunk_tokens. fold POS. destruct (String.eqb n POS) eqn:E.
  - apply String.eqb_eq in E. subst n. induction Hp as [|v l Hv _ IH]; [reflexivity|].
    cbn [map]. rewrite af_cons, af_pos, IH by assumption. reflexivity.
  - apply String.eqb_neq in E. apply af_all_other.
    assert (M : forall vs, Forall (fun t => app_filter [t] = []) (map (item_token n) vs)).
    { induction vs; cbn [map]; constructor; [now apply af_other|assumption]. }
    destruct (kind_of n) as [[|[|[|[|k]]]]|]; try constructor.
    + destruct (value_of n p); [repeat constructor; now apply af_other|].
      destruct (String.eqb n "pika:config"); repeat constructor; now apply af_other.
    + apply M.
    + destruct (String.eqb n "pika:attach-debugger"); [|constructor].
      destruct (value_of n p); repeat constructor; now apply af_other.
Qed.

Lemma af_app a b : app_filter (a ++ b) = (app_filter a ++ app_filter b)%list.
Proof. unfold app_filter. apply flat_map_app. Qed.

Lemma af_names p names : Forall (fun n => In n tbl) names -> Forall (fun v => nonempty v = true) (p_pos p) ->
  app_filter (flat_map (chunk_tokens p) names) = flat_map (fun n => if String.eqb n POS then p_pos p else []) names.
Proof.
  intros H Hp. induction H as [|n l Hn _ IH]; [reflexivity|].
  cbn [flat_map]. rewrite af_app, af_chunk, IH by assumption. reflexivity.
Qed.

Lemma flat_map_single {A} (x : string) (v : list A) l : NoDup l -> In x l ->
  flat_map (fun n => if String.eqb n x then v else []) l = v.
Proof.
  induction 1 as [|n l Hn ND IH]; intros Hin; [destruct Hin|]. cbn [flat_map].
  destruct Hin as [->|Hin].
  - rewrite String.eqb_refl. 
    assert (Z : flat_map (fun n => if String.eqb n x then v else []) l = []).
    { clear - Hn. induction l as [|m l IH]; [reflexivity|]. cbn [flat_map].
      destruct (String.eqb m x) eqn:E; [apply String.eqb_eq in E; subst; exfalso; apply Hn; now left|].
      apply IH. intros H. apply Hn. now right. }
    rewrite Z. apply app_nil_r.
  - destruct (String.eqb n x) eqn:E; [apply String.eqb_eq in E; subst; contradiction|]. now apply IH.
Qed.

Lemma flat_map_none {A} (f : string -> list A) l : (forall n, f n = []) -> flat_map f l = [].
Proof. intros H. induction l; cbn; [reflexivity|]. now rewrite H, IHl. Qed.

(* ---- vm_names: std::map order over the (finite) table of registered option names *)
Definition ltS (a b : string) : Prop := String.ltb a b = true.
Lemma tbl_trans : forallb (fun a => forallb (fun b => forallb (fun c =>
   implb (String.ltb a b && String.ltb b c) (String.ltb a c)) tbl) tbl) tbl = true.
Proof. vm_compute. reflexivity. Qed.
Lemma tbl_total : forallb (fun a => forallb (fun b => String.eqb a b || String.ltb b a || String.ltb a b) tbl) tbl = true.
Proof. vm_compute. reflexivity. Qed.
Lemma tbl_irrefl : forallb (fun a => negb (String.ltb a a)) tbl = true.
Proof. vm_compute. reflexivity. Qed.

Lemma ltS_trans a b c : In a tbl -> In b tbl -> In c tbl -> ltS a b -> ltS b c -> ltS a c.
Proof.
  intros Ha Hb Hc H1 H2. pose proof tbl_trans as T. rewrite forallb_forall in T. specialize (T a Ha).
  rewrite forallb_forall in T. specialize (T b Hb). rewrite forallb_forall in T. specialize (T c Hc).
  unfold ltS in *. rewrite H1, H2 in T. exact T.
Qed.

Lemma insert_sorted_in x n l : In x (insert_sorted n l) <-> x = n \/ In x l.
Proof.
  induction l as [|a l IH]; cbn [insert_sorted]; [cbn; intuition|].
  destruct (String.eqb a n) eqn:E.
  - apply String.eqb_eq in E. subst. cbn. intuition.
  - destruct (String.ltb n a); cbn; [intuition|]. rewrite IH. intuition.
Qed.

Definition srt (l : list string) : Prop := StronglySorted ltS l /\ Forall (fun n => In n tbl) l.

Lemma insert_sorted_srt n l : In n tbl -> srt l -> srt (insert_sorted n l).
Proof.
  intros Hn [S F]. split.
  2:{ apply Forall_forall. intros x Hx. apply insert_sorted_in in Hx. destruct Hx as [->|Hx]; [assumption|].
      rewrite Forall_forall in F. now apply F. }
  induction S as [|a l S IH Ha]; cbn [insert_sorted]; [repeat constructor|].
  inversion F as [|? ? Fa Fl]; subst.
  destruct (String.eqb a n) eqn:E; [constructor; assumption|].
  destruct (String.ltb n a) eqn:L.
  - constructor; [constructor; assumption|]. constructor; [exact L|].
    rewrite Forall_forall in *. intros x Hx. eapply (ltS_trans n a x); auto.
  - constructor; [apply IH; assumption|].
    apply Forall_forall. intros x Hx. apply insert_sorted_in in Hx. destruct Hx as [->|Hx].
    + pose proof tbl_total as T. rewrite forallb_forall in T. specialize (T a Fa). rewrite forallb_forall in T.
      specialize (T n Hn). cbv beta in T. rewrite E, L in T. exact T.
    + rewrite Forall_forall in Ha. now apply Ha.
Qed.

Lemma srt_nodup l : srt l -> NoDup l.
Proof.
  intros [S F]. induction S as [|a l S IH Ha]; constructor.
  - inversion F; subst. intros Hin. rewrite Forall_forall in Ha. specialize (Ha a Hin).
    pose proof tbl_irrefl as T. rewrite forallb_forall in T. specialize (T a H1). unfold ltS in Ha. now rewrite Ha in T.
  - inversion F; subst. now apply IH.
Qed.

Definition opts_named (p : parsed) : Prop := Forall (fun o => In (fst o) tbl) (p_opts p).

Lemma fold_insert_srt (os : list (string * string)) : Forall (fun o => In (fst o) tbl) os ->
  forall acc, srt acc -> srt (fold_left (fun acc o => insert_sorted (fst o) acc) os acc).
Proof. induction 1 as [|o os Ho _ IH]; intros acc H; cbn [fold_left]; [assumption|]. apply IH. now apply insert_sorted_srt. Qed.

Lemma fold_insert_in (os : list (string * string)) x : forall acc, In x acc ->
  In x (fold_left (fun acc o => insert_sorted (fst o) acc) os acc).
Proof. induction os as [|o os IH]; intros acc H; cbn [fold_left]; [assumption|]. apply IH. apply insert_sorted_in. now right. Qed.

Lemma in_tbl_b x : existsb (String.eqb x) tbl = true -> In x tbl.
Proof. intros H. apply existsb_exists in H. destruct H as (y & Hy & E). apply String.eqb_eq in E. now subst. Qed.

Lemma vm_names_srt p : opts_named p -> srt (vm_names p).
Proof.
  intros H. unfold vm_names. apply fold_insert_srt; [assumption|].
  apply insert_sorted_srt; [apply in_tbl_b; vm_compute; reflexivity|].
  destruct (p_pos p); split; try (constructor; fail).
  - constructor; constructor.
  - constructor; [apply in_tbl_b; vm_compute; reflexivity|constructor].
Qed.

Lemma vm_names_pos p : p_pos p <> [] -> In POS (vm_names p).
Proof.
  intros H. unfold vm_names. apply fold_insert_in. apply insert_sorted_in. right.
  destruct (p_pos p); [congruence|]. now left.
Qed.

Lemma srt_plain l : srt l -> Forall (fun n => plain n = true) l.
Proof.
  intros [_ F]. eapply Forall_impl; [|exact F]. intros n Hn. pose proof tbl_plain as P.
  rewrite forallb_forall in P. now apply P.
Qed.

Lemma srt_nodl l : srt l -> Forall (fun n => nodl n = true) l.
Proof.
  intros [_ F]. eapply Forall_impl; [|exact F]. intros n Hn. pose proof tbl_nodl as P.
  rewrite forallb_forall in P. now apply P.
Qed.

(* ---- what the parser puts into p_pos / p_opts *)
Definition pinv (p : parsed) : Prop :=
  Forall (fun v => arg_safe v = true) (p_pos p) /\ opts_safe p /\ opts_named p.

Lemma arg_safe_all s : arg_safe s = true -> all_safe s = true.
Proof. unfold arg_safe. intros H. apply andb_true_iff in H. tauto. Qed.
Lemma all_safe_drop : forall n s, all_safe s = true -> all_safe (drop n s) = true.
Proof.
  induction n as [|n IH]; intros s H; [destruct s; exact H|]. destruct s as [|c s]; [reflexivity|].
  cbn [drop]. apply IH. apply all_safe_cons in H. tauto.
Qed.
Lemma split_at_safe c : forall s a b, split_at c s = Some (a, b) -> all_safe s = true -> all_safe b = true.
Proof.
  induction s as [|d s IH]; intros a b H Hs; [discriminate|]. cbn [split_at] in H.
  apply all_safe_cons in Hs. destruct Hs as [_ Hs].
  destruct (aeqb c d); [inversion H; subst; assumption|].
  destruct (split_at c s) as [[a' b']|]; [|discriminate]. inversion H; subst. eapply IH; eauto.
Qed.
Lemma lookup_found_in name cn k : lookup_opt name = LFound cn k -> In cn tbl.
Proof.
  unfold lookup_opt, kind_of. destruct (find _ pika_options) as [e|] eqn:F.
  - intros H. inversion H; subst. apply find_some in F. destruct F as [Hin E]. apply String.eqb_eq in E. subst.
    unfold tbl. now apply in_map.
  - destruct (filter _ pika_options) as [|e [|e' l]] eqn:Fl; try discriminate. intros H. inversion H; subst.
    assert (Hin : In e (filter (fun p => starts name (fst p)) pika_options)) by (rewrite Fl; now left).
    apply filter_In in Hin. unfold tbl. apply in_map. tauto.
Qed.

Lemma pinv_add_pos t p : arg_safe t = true -> pinv p -> pinv (add_pos t p).
Proof. intros Ht (A & B & C). repeat split; try assumption. unfold add_pos. cbn [p_pos]. apply Forall_app. split; [assumption|constructor; [assumption|constructor]]. Qed.
Lemma pinv_add_unreg t p : pinv p -> pinv (add_unreg t p).
Proof. intros (A & B & C). repeat split; assumption. Qed.
Lemma pinv_add_opt cn v p : In cn tbl -> all_safe v = true -> pinv p -> pinv (add_opt cn v p).
Proof.
  intros Hc Hv (A & B & C). repeat split; try assumption.
  - unfold opts_safe, add_opt. cbn [p_opts]. apply Forall_app. split; [assumption|constructor; [assumption|constructor]].
  - unfold opts_named, add_opt. cbn [p_opts]. apply Forall_app. split; [assumption|constructor; [assumption|constructor]].
Qed.

Lemma parse_inv : forall fuel ts term p q,
  parse_tokens fuel ts term p = inl q -> Forall (fun t => arg_safe t = true) ts -> pinv p -> pinv q.
Proof.
  induction fuel as [|fuel IH]; intros ts term p q H Hts Hp; [discriminate|].
  cbn [parse_tokens] in H. destruct ts as [|t r]; [inversion H; subst; exact Hp|].
  inversion Hts as [|? ? Ht Hr]; subst.
  pose proof (pinv_add_pos t p Ht Hp) as P1. pose proof (pinv_add_unreg t p Hp) as P2.
  pose proof (fun cn v => pinv_add_opt cn v p) as P3.
  pose proof (arg_safe_all _ Ht) as Hta.
  destruct term; [eapply IH; eauto|].
  destruct (String.eqb t "--"); [eapply IH; eauto|].
  destruct (starts "--" t).
  - assert (Hr' : forall v r', r = v :: r' -> all_safe v = true /\ Forall (fun t => arg_safe t = true) r').
    { intros v r' ->. inversion Hr; subst. split; [now apply arg_safe_all|assumption]. }
    destruct (split_at c_eq (drop 2 t)) as [[a b]|] eqn:Es.
    + pose proof (split_at_safe _ _ _ _ Es (all_safe_drop 2 _ Hta)) as Hb.
      destruct (lookup_opt a) as [cn k| |] eqn:El; [|eapply IH; eauto|discriminate].
      pose proof (lookup_found_in _ _ _ El) as Hcn.
      destruct k as [|k]; [discriminate|]. destruct b as [|c b]; [destruct k as [|[|[|k]]]; discriminate|].
      destruct k as [|[|[|k]]]; (eapply IH; [exact H|assumption|apply P3; assumption]).
    + destruct (lookup_opt (drop 2 t)) as [cn k| |] eqn:El; [|eapply IH; eauto|discriminate].
      pose proof (lookup_found_in _ _ _ El) as Hcn.
      destruct k as [|[|[|[|k]]]].
      * eapply IH; [exact H|assumption|apply P3; auto].
      * destruct r as [|v r']; [discriminate|]. destruct (Hr' v r' eq_refl). eapply IH; [exact H|assumption|apply P3; auto].
      * destruct r as [|v r']; [discriminate|]. destruct (Hr' v r' eq_refl). eapply IH; [exact H|assumption|apply P3; auto].
      * destruct r as [|v r']; [eapply IH; [exact H|assumption|apply P3; auto]|].
        destruct (Hr' v r' eq_refl). destruct (is_plain v); (eapply IH; [exact H|auto|apply P3; auto]).
      * destruct r as [|v r']; [discriminate|]. destruct (Hr' v r' eq_refl). eapply IH; [exact H|assumption|apply P3; auto].
  - destruct (starts "@" t); [discriminate|].
    destruct (starts "-" t); [|eapply IH; eauto].
    destruct (String.eqb t "-"); eapply IH; eauto.
Qed.

(* ---- putting it together *)
Lemma handle_started_argv env p cfg m ok f a c :
  handle env p cfg m ok f a = Started c -> a tt = inl (Some (c_argv c)).
Proof.
  unfold handle. remember (a tt) as r eqn:Er. intros H.
  repeat match type of H with
         | (if ?b then _ else _) = _ => destruct b; try discriminate
         | (let '(_, _) := ?x in _) = _ => destruct x
         | match ?x with _ => _ end = _ => destruct x; try discriminate
         end.
  inversion H; subst. reflexivity.
Qed.

Lemma run_started_argv env m arg0 args c : run env m arg0 args = Started c ->
  exists pre p, tok_prepend (builtin env "pika.commandline.prepend_options") = Some pre /\
    parse_tokens (S (length (pre ++ args))) (pre ++ args) false p_empty = inl p /\
    exists look, app_argv (read_x env look) arg0 (builtin env "pika.commandline.prepend_options") args p = inl (Some (c_argv c)).
Proof.
  unfold run. intros H.
  destruct (builtin_status env); try discriminate.
  destruct (tok_prepend _) as [pre|]; [|discriminate].
  destruct (parse_tokens _ _ false p_empty) as [p|[|]] eqn:Ep; try discriminate.
  destruct (dup_in [] (p_opts p)); [discriminate|].
  destruct (negb (numeric_ok p)); [discriminate|].
  destruct (existsb _ (p_opts p)); [discriminate|].
  match type of H with (if ?b then _ else _) = _ => destruct b; [discriminate|] end.
  cbv zeta in H. apply handle_started_argv in H. exists pre, p. repeat split; try assumption.
  eexists. exact H.
Qed.

Lemma pinv_empty : pinv p_empty.
Proof. repeat split; constructor. Qed.

Theorem app_args_unchanged env m arg0 args pre c :
  tok_prepend (builtin env "pika.commandline.prepend_options") = Some pre ->
  arg_safe arg0 = true -> forallb arg_safe (pre ++ args) = true ->
  run env m arg0 args = Started c ->
  exists p, parse_tokens (S (length (pre ++ args))) (pre ++ args) false p_empty = inl p /\
            p_unreg p = [] /\ c_argv c = p_pos p.
Proof.
  intros Hpre Ha Hs Hrun. destruct (run_started_argv _ _ _ _ _ Hrun) as (pre' & p & E1 & E2 & look & E3).
  rewrite Hpre in E1. inversion E1; subst pre'. exists p. split; [assumption|].
  assert (I : pinv p).
  { eapply parse_inv; [exact E2| |exact pinv_empty]. apply Forall_forall. rewrite forallb_forall in Hs. exact Hs. }
  destruct I as (Ipos & Isafe & Inamed).
  unfold app_argv in E3. destruct (cmd_line_status _ _ _ _); try discriminate.
  destruct (p_unreg p) eqn:Eu; [|discriminate]. split; [reflexivity|].
  destruct (negb (late_line_ok _ _ _ _)); [discriminate|].
  pose proof (vm_names_srt p Inamed) as S.
  assert (Ipos_s : Forall (fun v => all_safe v = true) (p_pos p)).
  { eapply Forall_impl; [|exact Ipos]. intros v. apply arg_safe_all. }
  assert (Ipos_n : Forall (fun v => nonempty v = true) (p_pos p)).
  { eapply Forall_impl; [|exact Ipos]. intros v Hv. unfold arg_safe in Hv. apply andb_true_iff in Hv. tauto. }
  assert (ND : nodl (trim (encode_and_enquote arg0 ++ " " ++ reconstruct p ++ " ")) = true).
  { apply nodl_trim. rewrite enc_embed by (now apply arg_safe_all). rewrite !nodl_app, nodl_embed by (now apply arg_safe_all).
    rewrite nodl_reconstruct; [reflexivity|apply srt_nodl; exact S|exact Isafe|exact Ipos_s]. }
  rewrite (read_x_nodl env look _ _ ND) in E3. cbn [xstr] in E3.
  rewrite (split_rebuilt_line arg0 p Ha (srt_plain _ S) Isafe Ipos_s) in E3.
  inversion E3 as [E]. cbn [tl]. rewrite af_names by (assumption || apply S).
  destruct (p_pos p) as [|v0 l0] eqn:Ep.
  - apply flat_map_none. intros n. destruct (String.eqb n POS); reflexivity.
  - rewrite <- Ep in *. apply flat_map_single; [apply srt_nodup; assumption|].
    apply vm_names_pos. rewrite Ep. discriminate.
Qed.

(* ---- which arguments are positional, for command lines written in the --name=value style *)
Fixpoint app_words (ts : list string) : list string :=
  match ts with
  | [] => []
  | t :: r => if String.eqb t "--" then r
              else if starts "-" t && negb (String.eqb t "-") then app_words r
              else t :: app_words r
  end.
Fixpoint eq_style (ts : list string) : bool :=
  match ts with
  | [] => true
  | t :: r => if String.eqb t "--" then true
              else (if starts "--" t then match split_at c_eq (drop 2 t) with Some _ => true | None => false end else true)
                   && eq_style r
  end.

Lemma parse_pos_term : forall fuel ts p q, parse_tokens fuel ts true p = inl q -> p_pos q = (p_pos p ++ ts)%list.
Proof.
  induction fuel as [|fuel IH]; intros ts p q H; [discriminate|]. cbn [parse_tokens] in H.
  destruct ts as [|t r]; [inversion H; subst; now rewrite app_nil_r|].
  apply IH in H. rewrite H. unfold add_pos. cbn [p_pos]. now rewrite <- app_assoc.
Qed.

Lemma starts_dd_d t : starts "--" t = true -> starts "-" t = true /\ String.eqb t "-" = false.
Proof.
  unfold starts. intros H. destruct t as [|c [|d t]]; cbn [String.prefix] in H; try discriminate.
  - destruct (ascii_dec "-" c); discriminate.
  - destruct (ascii_dec "-" c) as [<-|]; [|discriminate]. split; [|reflexivity].
    cbn [String.prefix]. destruct (ascii_dec "-" "-"); [reflexivity|congruence].
Qed.

Lemma parse_pos_spec : forall fuel ts p q, eq_style ts = true ->
  parse_tokens fuel ts false p = inl q -> p_pos q = (p_pos p ++ app_words ts)%list.
Proof.
  induction fuel as [|fuel IH]; intros ts p q He H; [discriminate|]. cbn [parse_tokens] in H.
  destruct ts as [|t r]; [inversion H; subst; now rewrite app_nil_r|].
  cbn [eq_style app_words] in *.
  destruct (String.eqb t "--") eqn:Edd; [now apply parse_pos_term in H|].
  apply andb_true_iff in He. destruct He as [He1 He2].
  destruct (starts "--" t) eqn:Es.
  - destruct (starts_dd_d _ Es) as [S1 S2]. rewrite S1, S2. cbn [negb andb].
    destruct (split_at c_eq (drop 2 t)) as [[a b]|]; [|discriminate].
    destruct (lookup_opt a) as [cn k| |]; [|apply IH in H; assumption|discriminate].
    destruct k as [|k]; [discriminate|]. destruct b as [|c b]; [destruct k as [|[|[|k]]]; discriminate|].
    destruct k as [|[|[|k]]]; (apply IH in H; assumption).
  - destruct (starts "@" t); [discriminate|].
    destruct (starts "-" t); cbn [andb].
    + destruct (String.eqb t "-"); cbn [negb]; apply IH in H; try assumption.
      rewrite H. unfold add_pos. cbn [p_pos]. now rewrite <- app_assoc.
    + apply IH in H; [|assumption]. rewrite H. unfold add_pos. cbn [p_pos]. now rewrite <- app_assoc.
Qed.

Theorem app_args_unchanged_eq_style env m arg0 args pre c :
  tok_prepend (builtin env "pika.commandline.prepend_options") = Some pre ->
  arg_safe arg0 = true -> forallb arg_safe (pre ++ args) = true -> eq_style (pre ++ args) = true ->
  run env m arg0 args = Started c -> c_argv c = app_words (pre ++ args).
Proof.
  intros Hpre Ha Hs He Hrun. destruct (app_args_unchanged _ _ _ _ _ _ Hpre Ha Hs Hrun) as (p & E & _ & ->).
  apply parse_pos_spec in E; assumption.
Qed.

(* ------------------------------------------------------------------ keyword values of the worker count *)
(* what a thread-count text means: the two keywords, else a number *)
Definition kw_count (init_threads init_cores : N) (s : string) : option N :=
  if String.eqb s "cores" then Some init_cores
  else if String.eqb s "all" then Some init_threads else parse_size s.

(* the effective PU / core counts the keywords refer to (handle_arguments: use_process_mask_,
   handle_process_mask, get_number_of_default_threads / _cores) *)
Definition eff_ignore env p cfgmap : bool :=
  let ign_cfg := match assoc "pika.ignore_process_mask" cfgmap with
                 | Some v => parse_size_or v (entry_size (builtin env "pika.ignore_process_mask") 0)
                 | None => entry_size (builtin env "pika.ignore_process_mask") 0 end in
  (0 <? ign_cfg)%N || (match value_of "pika:ignore-process-mask" p with Some _ => true | None => false end).

Definition eff_counts env p cfgmap (m : machine) : option (N * N) :=
  let mask := resolve env p cfgmap "pika:process-mask" "pika.process_mask" in
  match (match mask with EmptyString => Some (m_maskcount m, m_maskcores m)
         | _ => match parse_mask mask with Some v => Some (popcount v, cores_in v (m_coremasks m)) | None => None end end) with
  | None => None
  | Some (mc, mcores) => if eff_ignore env p cfgmap then Some (m_pus m, m_cores m) else Some (mc, mcores)
  end.

Lemma ps_cores : parse_size "cores" = None. Proof. vm_compute. reflexivity. Qed.
Lemma ps_all : parse_size "all" = None. Proof. vm_compute. reflexivity. Qed.

Lemma threads_keywords_precedence env p cfg m ok f a c :
  handle env p cfg m ok f a = Started c ->
  assoc "pika.force_min_os_threads" cfg = None ->
  exists it ic, eff_counts env p cfg m = Some (it, ic) /\
    kw_count it ic (resolve env p cfg "pika:threads" "pika.os_threads") = Some (c_threads c).
Proof.
  intros H Hmin. unfold handle in H. rewrite Hmin in H.
  unfold eff_counts, eff_ignore, kw_count. unfold resolve in *.
  set (ign := ((0 <? match assoc "pika.ignore_process_mask" cfg with
                     | Some v => parse_size_or v (entry_size (builtin env "pika.ignore_process_mask") 0)
                     | None => entry_size (builtin env "pika.ignore_process_mask") 0 end)%N
               || match value_of "pika:ignore-process-mask" p with Some _ => true | None => false end)%bool) in *.
  clearbody ign.
  match type of H with match ?x with _ => _ end = _ => destruct x as [[mc mcores]|] end; [|discriminate].
  set (it := if negb ign then mc else m_pus m) in *.
  set (ic := if negb ign then mcores else m_cores m) in *.
  exists it, ic. split; [subst it ic; destruct ign; reflexivity|]. clearbody it ic.
  repeat match type of H with
         | (if ?b then _ else _) = _ => destruct b eqn:?; try discriminate
         | match ?x with _ => _ end = _ => destruct x eqn:?; try discriminate
         end.
  inversion H; subst c; clear H; cbn [c_threads]. rewrite N.max_id.
  match goal with E : (if String.eqb _ "cores" then _ else _) = Some ?d |- _ => rename E into Ed end.
  match goal with E : match value_of "pika:threads" p with _ => _ end = inl ?t |- _ => rename E into Et end.
  unfold parse_size_or in Et.
  destruct (value_of "pika:threads" p) as [v|].
  - destruct (String.eqb v "cores") eqn:E1; destruct (String.eqb v "all") eqn:E2.
    + apply String.eqb_eq in E1, E2; congruence.
    + congruence.
    + congruence.
    + destruct (parse_size v) as [t|]; [destruct (t =? 0)%N|]; congruence.
  - destruct (assoc "pika.os_threads" cfg) as [w|].
    + destruct (String.eqb w "cores") eqn:E1; destruct (String.eqb w "all") eqn:E2.
      * apply String.eqb_eq in E1, E2; congruence.
      * apply String.eqb_eq in E1. rewrite E1, ps_cores in Et. congruence.
      * apply String.eqb_eq in E2. rewrite E2, ps_all in Et. congruence.
      * destruct (parse_size w); congruence.
    + destruct (String.eqb (builtin env "pika.os_threads") "cores") eqn:E1;
      destruct (String.eqb (builtin env "pika.os_threads") "all") eqn:E2.
      * apply String.eqb_eq in E1, E2; congruence.
      * congruence.
      * congruence.
      * congruence.
Qed.

(* the same with the deciding text spelled out source by source (resolve_precedence for the table row
   pika:threads -> pika.os_threads, whose built-in line is ${PIKA_THREADS:cores}) *)
Definition threads_text (env : list (string * string)) (p : parsed) (cfg : list (string * string)) : string :=
  match value_of "pika:threads" p with
  | Some v => v
  | None => match assoc "pika.os_threads" cfg with
            | Some v => v
            | None => match getenv env "PIKA_THREADS" with Some v => v | None => "cores" end
            end
  end.

Lemma threads_text_resolve env p cfg :
  env_plain env "PIKA_THREADS" "cores" ->
  resolve env p cfg "pika:threads" "pika.os_threads" = threads_text env p cfg.
Proof.
  intros Hv. unfold threads_text.
  apply (resolve_precedence "pika:threads" "pika.os_threads") with (raw := "${PIKA_THREADS:cores}");
    [vm_compute; tauto| | |exact Hv]; vm_compute; reflexivity.
Qed.

Lemma threads_keywords_precedence_sources env p cfg m ok f a c :
  handle env p cfg m ok f a = Started c ->
  assoc "pika.force_min_os_threads" cfg = None ->
  env_plain env "PIKA_THREADS" "cores" ->
  exists it ic, eff_counts env p cfg m = Some (it, ic) /\
    kw_count it ic (threads_text env p cfg) = Some (c_threads c).
Proof.
  intros H Hm Hv. rewrite <- threads_text_resolve by exact Hv. exact (threads_keywords_precedence env p cfg m ok f a c H Hm).
Qed.
