(* Proofs/SchedRecycleProofs.v — C01: thread-object recycling.  The reference count of every
   thread object equals the number of counted references that exist (queue entries, workers'
   `thrd`, ids bound into retry helpers, do_yield keep-alive references); an object reaches
   terminated_items / a heap only with count 0, hence terminated and unreferenced, and stays so
   until create_thread_object rebinds it.  Then: the joint invariant of the scheduler model is
   reachable-closed, and the C01 / C02 theorems follow. *)
From Coq Require Import List NArith Bool Arith Lia.
From Pika Require Import Base.Conc Gen.GenEnums Model.Sched Proofs.SchedProofs Proofs.SchedWakeProofs.
Import ListNotations.

(* ------------------------------------------------------------------ counting *)
Definition ind (x o : nat) : nat := if Nat.eqb x o then 1 else 0.
Definition hn (b : body) (o : nat) : nat := match href b with Some u => ind u o | None => 0 end.
Definition wn (l : pc) (o : nat) : nat := match wref l with Some u => ind u o | None => 0 end.
Definition sumf {A} (f : A -> nat) (F : nat -> A) (M : nat) : nat :=
  list_sum (map (fun i => f (F i)) (seq 0 M)).
Definition hsum (l : list body) (o : nat) : nat := list_sum (map (fun b => hn b o) l).
Definition Qc (g : G) (o : nat) : nat := count_occ Nat.eq_dec (pend g) o.
Definition Ht (g : G) (o : nat) : nat := sumf (fun k => hn (todo k) o) (tasks g) (ntasks g).
Definition Wt (N : nat) (ls : nat -> pc) (o : nat) : nat := sumf (fun l => wn l o) ls N.

Lemma ind_same x : ind x x = 1.
Proof. unfold ind. now rewrite Nat.eqb_refl. Qed.
Lemma ind_other x o : x <> o -> ind x o = 0.
Proof. unfold ind. intros H. apply Nat.eqb_neq in H. now rewrite H. Qed.

Lemma sumf_ext {A} (f : A -> nat) F F' M :
  (forall i, i < M -> f (F' i) = f (F i)) -> sumf f F' M = sumf f F M.
Proof.
  intros H. unfold sumf. f_equal. apply map_ext_in. intros i Hi. apply in_seq in Hi. apply H. lia.
Qed.
Lemma sumf_S {A} (f : A -> nat) F M : sumf f F (S M) = sumf f F M + f (F M).
Proof. unfold sumf. rewrite seq_S, map_app, list_sum_app. cbn. lia. Qed.
Lemma sumf_upd {A} (f : A -> nat) (F : nat -> A) x v M :
  x < M -> sumf f (upd F x v) M + f (F x) = sumf f F M + f v.
Proof.
  induction M as [|M IH]; intros Hx; [lia|]. rewrite !sumf_S.
  destruct (Nat.eq_dec x M) as [->|Hne].
  - rewrite upd_same. rewrite (sumf_ext f F (upd F M v) M); [lia|].
    intros i Hi. rewrite upd_other by lia. reflexivity.
  - rewrite upd_other by lia. assert (Hx' : x < M) by lia. specialize (IH Hx'). lia.
Qed.
Lemma sumf_upd_out {A} (f : A -> nat) (F : nat -> A) x v M :
  M <= x -> sumf f (upd F x v) M = sumf f F M.
Proof. intros H. apply sumf_ext. intros i Hi. rewrite upd_other by lia. reflexivity. Qed.
Lemma sumf_supp {A} (f : A -> nat) (F : nat -> A) N M :
  (forall i, N <= i -> f (F i) = 0) -> N <= M -> sumf f F M = sumf f F N.
Proof.
  intros H. induction 1 as [|M Hle IH]; [reflexivity|]. rewrite sumf_S, IH, (H M Hle). lia.
Qed.
Lemma sumf_ge {A} (f : A -> nat) (F : nat -> A) x M : x < M -> f (F x) <= sumf f F M.
Proof.
  intros Hx. assert (H := sumf_upd f F x (F x) M Hx).
  induction M as [|M IH]; [lia|]. rewrite sumf_S.
  destruct (Nat.eq_dec x M) as [->|Hne]; [lia|].
  assert (Hx' : x < M) by lia. assert (H' := sumf_upd f F x (F x) M Hx'). specialize (IH Hx' H'). lia.
Qed.
Lemma sumf_ge2 {A} (f : A -> nat) (F : nat -> A) x y M :
  x < M -> y < M -> x <> y -> f (F x) + f (F y) <= sumf f F M.
Proof.
  intros Hx Hy Hne. assert (H := sumf_upd f F x (F x) M Hx).
  assert (H1 := sumf_upd f F x (F y) M Hx).
  (* replace entry x by a copy of entry y's value... simpler: direct induction *)
  clear H H1. induction M as [|M IH]; [lia|]. rewrite sumf_S.
  destruct (Nat.eq_dec x M) as [->|Hx'].
  - assert (Hy' : y < M) by lia. assert (H := sumf_ge f F y M Hy'). lia.
  - destruct (Nat.eq_dec y M) as [->|Hy'].
    + assert (Hx'' : x < M) by lia. assert (H := sumf_ge f F x M Hx''). lia.
    + assert (H := IH ltac:(lia) ltac:(lia)). lia.
Qed.

Lemma count_cons t l o : count_occ Nat.eq_dec (t :: l) o = ind t o + count_occ Nat.eq_dec l o.
Proof.
  cbn. unfold ind. destruct (Nat.eq_dec t o) as [->|Hne]; [now rewrite Nat.eqb_refl|].
  apply Nat.eqb_neq in Hne. now rewrite Hne.
Qed.
Lemma count_remove_nth l i t o :
  nth_error l i = Some t ->
  count_occ Nat.eq_dec (remove_nth i l) o + ind t o = count_occ Nat.eq_dec l o.
Proof.
  intros H. destruct (remove_nth_split _ _ _ H) as (l1 & l2 & -> & ->).
  rewrite !count_occ_app, count_cons. lia.
Qed.
Lemma count_pos_in l o : 1 <= count_occ Nat.eq_dec l o <-> In o l.
Proof. split; intros H; [apply (count_occ_In Nat.eq_dec); lia | apply (count_occ_In Nat.eq_dec) in H; lia]. Qed.
Lemma hsum_cons b l o : hsum (b :: l) o = hn b o + hsum l o.
Proof. reflexivity. Qed.
Lemma hsum_remove_nth l i b o :
  nth_error l i = Some b -> hsum (remove_nth i l) o + hn b o = hsum l o.
Proof.
  intros H. destruct (remove_nth_split _ _ _ H) as (l1 & l2 & -> & ->).
  unfold hsum. rewrite !map_app, !list_sum_app.
  change (list_sum (map (fun b0 => hn b0 o) (b :: l2))) with (hn b o + list_sum (map (fun b0 => hn b0 o) l2)). lia.
Qed.
Lemma hsum_in l b o : In b l -> hn b o <= hsum l o.
Proof.
  induction l as [|c l IH]; intros H; [destruct H|]. rewrite hsum_cons.
  destruct H as [->|H]; [lia | specialize (IH H); lia].
Qed.

(* ------------------------------------------------------------------ the invariant *)
Definition supp (N : nat) (ls : nat -> pc) : Prop := forall a, N <= a -> wref (ls a) = None.
Definition refs (g : G) (ls : nat -> pc) (N : nat) (o : nat) : nat :=
  Qc g o + hsum (staged g) o + Ht g o + sref g o + Wt N ls o.

Record RInv (g : G) (ls : nat -> pc) : Prop := {
  r_cnt : exists N, supp N ls /\ forall o, rc g o = refs g ls N o;
  r_free : forall x, In x (term g ++ heap g) ->
           x < ntasks g /\ st (tw_of g x) = st_terminated /\ rc g x = 0;
  r_nodup : NoDup (term g ++ heap g);
  r_fresh : forall x, ntasks g <= x -> rc g x = 0;
  r_user : forall x, x < ntasks g -> st (tw_of g x) = st_terminated -> is_user (todo (tasks g x));
  r_self : forall x, x < ntasks g ->
           (st (tw_of g x) = st_suspended \/ exists a, enq_of (ls a) = Some x) -> 1 <= sref g x
}.

Lemma heap_ok_of g ls : RInv g ls -> heap_ok g.
Proof.
  intros H x Hx. destruct (r_free _ _ H x) as (H1 & H2 & _); [apply in_or_app; now right | auto].
Qed.

Lemma Wt_step N ls a l' :
  supp N ls ->
  exists N', supp N' (upd ls a l') /\
             forall o, Wt N' (upd ls a l') o + wn (ls a) o = Wt N ls o + wn l' o.
Proof.
  intros HS. exists (Nat.max N (S a)). split.
  - intros b Hb. rewrite upd_other by lia. apply HS. lia.
  - intros o. unfold Wt.
    rewrite <- (sumf_supp (fun l => wn l o) ls N (Nat.max N (S a))); [|intros i Hi; unfold wn; now rewrite (HS i Hi) | lia].
    apply (sumf_upd (fun l => wn l o) ls a l' (Nat.max N (S a))). lia.
Qed.

Lemma Wt_ge N ls a o : supp N ls -> wn (ls a) o <= Wt N ls o.
Proof.
  intros HS. destruct (le_lt_dec N a) as [H|H].
  - unfold wn. rewrite (HS a H). lia.
  - unfold Wt. now apply (sumf_ge (fun l => wn l o) ls a N).
Qed.
Lemma Wt_ge2 N ls a b o : supp N ls -> a <> b -> wn (ls a) o + wn (ls b) o <= Wt N ls o.
Proof.
  intros HS Hne. destruct (le_lt_dec N a) as [Ha|Ha].
  - assert (H := Wt_ge N ls b o HS). unfold wn at 1. rewrite (HS a Ha). lia.
  - destruct (le_lt_dec N b) as [Hb|Hb].
    + assert (H := Wt_ge N ls a o HS). unfold wn at 2. rewrite (HS b Hb). lia.
    + unfold Wt. now apply (sumf_ge2 (fun l => wn l o) ls a b N).
Qed.

Lemma wn_main l t : main_of l = Some t -> wn l t = 1.
Proof. intros H. unfold wn, wref. destruct l; cbn in *; try discriminate; inversion H; subst; apply ind_same. Qed.

(* an object whose count is 0 is terminated: a live task has a queue entry, a worker or a waker
   about to enqueue it (whose target still has its keep-alive reference); a suspended one has
   its keep-alive reference *)
Lemma rc0_terminated g ls x :
  SInv g ls -> RInv g ls -> x < ntasks g -> rc g x = 0 -> st (tw_of g x) = st_terminated.
Proof.
  intros HI HR Hx H0. destruct (r_cnt _ _ HR) as (N & HS & Heq). specialize (Heq x).
  unfold refs in Heq. rewrite H0 in Heq.
  destruct (i_dom _ _ _ _ HI x Hx) as [Hl|[Hs|Ht]]; [|exfalso|exact Ht].
  - exfalso. destruct (i_exist _ _ _ _ HI x Hx Hl) as [Hin|[a [Hm|He]]].
    + apply count_pos_in in Hin. unfold Qc in Heq. lia.
    + assert (H1 := wn_main _ _ Hm). assert (H2 := Wt_ge N ls a x HS). lia.
    + assert (H1 := r_self _ _ HR x Hx (or_intror (ex_intro _ a He))). lia.
  - assert (H1 := r_self _ _ HR x Hx (or_introl Hs)). lia.
Qed.

(* ------------------------------------------------------------------ quiet steps: term / heap /
   ntasks unchanged *)
Lemma RInv_quiet g ls g' a l' :
  SInv g ls -> RInv g ls ->
  ntasks g' = ntasks g -> term g' = term g -> heap g' = heap g ->
  (forall x, st (tw_of g x) = st_terminated -> tw_of g' x = tw_of g x) ->
  (forall x, x < ntasks g -> st (tw_of g' x) = st_terminated ->
             (st (tw_of g x) = st_terminated /\ todo (tasks g' x) = todo (tasks g x)) \/
             is_user (todo (tasks g' x))) ->
  (forall x, In x (term g ++ heap g) -> rc g' x = rc g x) ->
  (forall x, ntasks g <= x -> rc g' x = rc g x) ->
  (forall x, x < ntasks g ->
             (sref g x <= sref g' x /\
              (st (tw_of g' x) = st_suspended -> st (tw_of g x) = st_suspended \/ 1 <= sref g' x) /\
              (enq_of l' = Some x -> enq_of (ls a) = Some x \/ 1 <= sref g' x)) \/
             (st (tw_of g' x) <> st_suspended /\ enq_of l' <> Some x /\
              forall b, b <> a -> enq_of (ls b) <> Some x)) ->
  (forall o, rc g' o + Qc g o + hsum (staged g) o + Ht g o + sref g o + wn (ls a) o
             = rc g o + Qc g' o + hsum (staged g') o + Ht g' o + sref g' o + wn l' o) ->
  RInv g' (upd ls a l').
Proof.
  intros HI HR En Et Eh Hterm Hnew Hrcf Hrcn Hself HD.
  destruct (r_cnt _ _ HR) as (N & HS & Heq).
  destruct (Wt_step N ls a l' HS) as (N' & HS' & HW).
  constructor.
  - exists N'. split; [exact HS'|]. intros o. specialize (Heq o). specialize (HD o). specialize (HW o).
    unfold refs in *. lia.
  - intros x Hx. rewrite Et, Eh in Hx. destruct (r_free _ _ HR x Hx) as (H1 & H2 & H3).
    rewrite En, (Hterm x H2), (Hrcf x Hx). auto.
  - rewrite Et, Eh. apply (r_nodup _ _ HR).
  - intros x Hx. rewrite En in Hx. rewrite (Hrcn x Hx). now apply (r_fresh _ _ HR).
  - intros x Hx Ht. rewrite En in Hx. destruct (Hnew x Hx Ht) as [[H1 H2]|H]; [|exact H].
    rewrite H2. now apply (r_user _ _ HR).
  - intros x Hx Hc. rewrite En in Hx.
    destruct (Hself x Hx) as [(H1 & H2 & H3)|(H1 & H2 & H3)].
    + destruct Hc as [Hc|[b Hc]].
      * destruct (H2 Hc) as [H|H]; [|exact H].
        assert (H' := r_self _ _ HR x Hx (or_introl H)). lia.
      * destruct (Nat.eq_dec b a) as [->|Hne].
        -- rewrite upd_same in Hc. destruct (H3 Hc) as [H|H]; [|exact H].
           assert (H' := r_self _ _ HR x Hx (or_intror (ex_intro _ a H))). lia.
        -- rewrite upd_other in Hc by assumption.
           assert (H' := r_self _ _ HR x Hx (or_intror (ex_intro _ b Hc))). lia.
    + exfalso. destruct Hc as [Hc|[b Hc]]; [contradiction|].
      destruct (Nat.eq_dec b a) as [->|Hne].
      * rewrite upd_same in Hc. contradiction.
      * rewrite upd_other in Hc by assumption. exact (H3 b Hne Hc).
Qed.

(* destroy_thread: an object with count 0 goes to terminated_items *)
Lemma RInv_to_term g ls x :
  SInv g ls -> RInv g ls -> x < ntasks g -> rc g x = 0 -> ~ In x (term g ++ heap g) ->
  RInv (set_term g (x :: term g)) ls.
Proof.
  intros HI HR Hx H0 Hnin. assert (Ht := rc0_terminated g ls x HI HR Hx H0).
  destruct HR as [H1 H2 H3 H4 H5 H6]. constructor; auto.
  - intros y [<-|Hy]; [auto|]. now apply H2.
  - cbn. constructor; assumption.
Qed.

(* intrusive_ptr_release as a step: g1 is the state with the count decremented *)
Lemma RInv_rc_dec g ls x :
  SInv g ls -> x < ntasks g ->
  (rc g x = 0 -> ~ In x (term g ++ heap g)) ->
  forall g0, rc g0 x = S (rc g x) -> set_rc g0 x (rc g x) = g ->
  RInv g ls -> RInv (rc_dec g0 x) ls.
Proof.
  intros HI Hx Hnin g0 Hrc Eg HR. unfold rc_dec. rewrite Hrc.
  assert (Et : term g0 = term g) by (rewrite <- Eg; reflexivity).
  destruct (rc g x) as [|c] eqn:E.
  - rewrite Et, Eg. apply RInv_to_term; auto.
  - cbn [pred]. rewrite Eg. exact HR.
Qed.

(* cleanup_terminated_locked: one object moves from terminated_items to the heap *)
Lemma RInv_cleanup g ls x r :
  term g = x :: r -> RInv g ls -> RInv (set_heap (set_term g r) (x :: heap g)) ls.
Proof.
  intros Et [H1 H2 H3 H4 H5 H6]. rewrite Et in H2, H3. constructor; auto.
  - intros y Hy. cbn [term heap set_heap set_term] in Hy. apply H2.
    apply in_app_or in Hy. cbn. destruct Hy as [Hy|[<-|Hy]]; [right; apply in_or_app; now left | now left | right; apply in_or_app; now right].
  - cbn [term heap set_heap set_term].
    change ((x :: r) ++ heap g) with (x :: r ++ heap g) in H3.
    apply (NoDup_Add (Add_app x r (heap g))). inversion H3; subst. split; assumption.
Qed.

Lemma in_remove_nth_inv {A} (l : list A) i y : In y (remove_nth i l) -> In y l.
Proof.
  revert i. induction l as [|z l IH]; intros [|i] H; cbn in *; auto. destruct H as [H|H]; eauto.
Qed.
Lemma NoDup_app_remove_nth (l1 l2 : list nat) i x :
  nth_error l2 i = Some x -> NoDup (l1 ++ l2) ->
  NoDup (l1 ++ remove_nth i l2) /\ ~ In x (l1 ++ remove_nth i l2).
Proof.
  intros Hn Hnd. destruct (remove_nth_split _ _ _ Hn) as (a & b & -> & ->).
  rewrite app_assoc in Hnd. apply NoDup_remove in Hnd. rewrite <- app_assoc in Hnd. exact Hnd.
Qed.

(* create_thread_object + schedule_thread: g1 is g after the caller's own bookkeeping (its
   staged description b removed / its todo advanced), whose helper references together with
   b's are those of g *)
Lemma RInv_new g ls a l' g1 b h :
  SInv g ls -> RInv g ls ->
  ntasks g1 = ntasks g -> term g1 = term g -> heap g1 = heap g -> rc g1 = rc g -> sref g1 = sref g ->
  pend g1 = pend g -> (forall x, tw_of g1 x = tw_of g x) ->
  (forall x, st (tw_of g x) = st_terminated -> todo (tasks g1 x) = todo (tasks g x)) ->
  (forall o, hsum (staged g1) o + Ht g1 o + hn b o = hsum (staged g) o + Ht g o) ->
  (forall o, wn l' o = wn (ls a) o) -> enq_of l' = enq_of (ls a) ->
  RInv (new_task g1 b h) (upd ls a l').
Proof.
  intros HI HR En Et Eh Erc Esr Ep Ew Htodo HH Hwn Henq.
  destruct (r_cnt _ _ HR) as (N & HS & Heq).
  destruct (Wt_step N ls a l' HS) as (N' & HS' & HW).
  set (x := new_slot g1 h).
  assert (Hcase : (nth_error (heap g) h = Some x /\ x < ntasks g /\ st (tw_of g x) = st_terminated /\
                   ntasks (new_task g1 b h) = ntasks g) \/
                  (nth_error (heap g) h = None /\ x = ntasks g /\ ntasks (new_task g1 b h) = S (ntasks g))).
  { unfold x, new_slot, new_task. cbn [ntasks]. rewrite Eh, En.
    destruct (nth_error (heap g) h) as [y|] eqn:E; [left|right; auto].
    destruct (r_free _ _ HR y) as (A & B & _); [apply in_or_app; right; eapply nth_error_In; eauto|]. auto. }
  assert (Hrc0 : rc g x = 0).
  { destruct Hcase as [(E & _)|(_ & -> & _)]; [|now apply (r_fresh _ _ HR)].
    apply (r_free _ _ HR x). apply in_or_app. right. eapply nth_error_In; eauto. }
  assert (Hz := Heq x). unfold refs in Hz. rewrite Hrc0 in Hz.
  assert (Hold : forall o, hn (todo (tasks g1 x)) o = 0 \/ ntasks g <= x).
  { intros o. destruct Hcase as [(_ & Hx & Ht & _)|(_ & -> & _)]; [left|right; lia].
    rewrite (Htodo x Ht). assert (Hu := r_user _ _ HR x Hx Ht).
    unfold hn. destruct (todo (tasks g x)); cbn in *; auto; contradiction. }
  assert (Hnoh : forall c, ~ holds (ls c) x).
  { intros c Hc. apply (holds_live _ _ _ _ HI) in Hc. destruct Hc as [Hlt Hl].
    destruct Hcase as [(_ & _ & Ht & _)|(_ & -> & _)]; [|lia].
    destruct Hl as [Hl|[Hl|Hl]]; congruence. }
  assert (Hlt : forall y, y < ntasks (new_task g1 b h) -> y <> x -> y < ntasks g).
  { intros y Hy Hne. destruct Hcase as [(_ & _ & _ & E)|(_ & E1 & E2)]; lia. }
  assert (Htw : forall y, y <> x -> tw_of (new_task g1 b h) y = tw_of g y).
  { intros y Hne. rewrite tw_of_new_task_other by exact Hne. apply Ew. }
  constructor.
  - exists N'. split; [exact HS'|]. intros o. specialize (Heq o). specialize (HW o). specialize (HH o).
    rewrite Hwn in HW. unfold refs in *.
    assert (EQ : Qc (new_task g1 b h) o = ind x o + Qc g o).
    { unfold Qc. cbn [pend new_task]. fold x. rewrite count_cons, Ep. reflexivity. }
    assert (EH : Ht (new_task g1 b h) o = Ht g1 o + hn b o).
    { unfold Ht. cbn [tasks new_task]. fold x.
      destruct Hcase as [(_ & Hx & _ & E)|(_ & E1 & E2)].
      - rewrite E, En.
        assert (HU := sumf_upd (fun k => hn (todo k) o) (tasks g1) x
                 {| tw := w_init; todo := b; ph := 0; reg := None; wake := None |} (ntasks g) Hx).
        cbn [todo] in HU. destruct (Hold o) as [Ho|Ho]; lia.
      - rewrite E2, E1, En, sumf_S, upd_same. cbn [todo].
        rewrite sumf_upd_out by lia. lia. }
    cbn [rc sref staged new_task]. fold x. unfold upd at 1 2. rewrite Erc, Esr.
    destruct (Nat.eqb o x) eqn:Eo.
    + apply Nat.eqb_eq in Eo. subst o. rewrite ind_same in EQ. lia.
    + apply Nat.eqb_neq in Eo. rewrite ind_other in EQ by congruence. lia.
  - intros y Hy.
    assert (Hy' : In y (term g ++ heap g) /\ y <> x).
    { cbn [term heap new_task] in Hy. rewrite Et, Eh in Hy.
      destruct (nth_error (heap g) h) as [z|] eqn:E.
      - destruct (NoDup_app_remove_nth (term g) (heap g) h z E (r_nodup _ _ HR)) as [_ Hn].
        assert (z = x) by (unfold x, new_slot; now rewrite Eh, E). subst z.
        split; [|intros ->; contradiction].
        apply in_app_or in Hy. apply in_or_app. destruct Hy as [Hy|Hy]; [now left | right; eapply in_remove_nth_inv; eauto].
      - split; [exact Hy|]. intros ->. destruct Hcase as [(E' & _)|(_ & E1 & _)]; [congruence|].
        destruct (r_free _ _ HR _ Hy) as (A & _). lia. }
    destruct Hy' as [Hin Hne]. destruct (r_free _ _ HR y Hin) as (A & B & C).
    rewrite (Htw y Hne). cbn [rc new_task]. fold x. rewrite upd_other, Erc by exact Hne.
    split; [|auto]. destruct Hcase as [(_ & _ & _ & E)|(_ & _ & E)]; lia.
  - cbn [term heap new_task]. rewrite Et, Eh. destruct (nth_error (heap g) h) as [z|] eqn:E; [|apply (r_nodup _ _ HR)].
    apply (NoDup_app_remove_nth (term g) (heap g) h z E (r_nodup _ _ HR)).
  - intros y Hy. cbn [rc new_task]. fold x.
    assert (Hne : y <> x) by (destruct Hcase as [(_ & Hx & _ & E)|(_ & E1 & E2)]; lia).
    rewrite upd_other, Erc by exact Hne. apply (r_fresh _ _ HR).
    destruct Hcase as [(_ & _ & _ & E)|(_ & _ & E)]; lia.
  - intros y Hy Ht. destruct (Nat.eq_dec y x) as [->|Hne].
    + rewrite tw_of_new_task_same in Ht. discriminate.
    + rewrite (Htw y Hne) in Ht. cbn [tasks new_task]. fold x. rewrite upd_other by exact Hne.
      rewrite (Htodo y Ht). apply (r_user _ _ HR); auto.
  - intros y Hy Hc.
    assert (Henq' : forall c z, enq_of (upd ls a l' c) = Some z -> enq_of (ls c) = Some z).
    { intros c z. destruct (Nat.eq_dec c a) as [->|Hca]; [rewrite upd_same, Henq | rewrite upd_other by assumption]; auto. }
    destruct (Nat.eq_dec y x) as [->|Hne].
    + exfalso. destruct Hc as [Hc|[c Hc]].
      * unfold x in Hc. rewrite tw_of_new_task_same in Hc. discriminate.
      * apply Henq' in Hc. apply (Hnoh c). right. exact Hc.
    + cbn [sref new_task]. fold x. rewrite upd_other, Esr by exact Hne.
      apply (r_self _ _ HR y (Hlt y Hy Hne)). rewrite (Htw y Hne) in Hc.
      destruct Hc as [Hc|[c Hc]]; [now left | right; exists c; now apply Henq'].
Qed.

Lemma RInv_ls_ext g ls ls' : (forall b, ls' b = ls b) -> RInv g ls -> RInv g ls'.
Proof.
  intros E [H1 H2 H3 H4 H5 H6]. constructor; auto.
  - destruct H1 as (N & HS & Heq). exists N. split.
    + intros b Hb. rewrite E. now apply HS.
    + intros o. rewrite Heq. unfold refs, Wt. f_equal. apply sumf_ext. intros i _. now rewrite E.
  - intros x Hx [Hc|[b Hc]]; apply H6; auto. right. exists b. now rewrite <- E.
Qed.

Lemma rc_ge_wn g ls a o : RInv g ls -> wn (ls a) o <= rc g o.
Proof.
  intros HR. destruct (r_cnt _ _ HR) as (N & HS & Heq). rewrite Heq. unfold refs.
  assert (H := Wt_ge N ls a o HS). lia.
Qed.
Lemma rc_ge_ht g ls t o : RInv g ls -> t < ntasks g -> hn (todo (tasks g t)) o <= rc g o.
Proof.
  intros HR Hlt. destruct (r_cnt _ _ HR) as (N & HS & Heq). rewrite Heq. unfold refs, Ht.
  assert (H := sumf_ge (fun k => hn (todo k) o) (tasks g) t (ntasks g) Hlt). cbn beta in H. lia.
Qed.
Lemma not_free_rc g ls x : RInv g ls -> 1 <= rc g x -> ~ In x (term g ++ heap g).
Proof. intros HR H Hin. destruct (r_free _ _ HR x Hin) as (_ & _ & E). lia. Qed.
Lemma not_free_st g ls x : RInv g ls -> st (tw_of g x) <> st_terminated -> ~ In x (term g ++ heap g).
Proof. intros HR H Hin. destruct (r_free _ _ HR x Hin) as (_ & E & _). contradiction. Qed.

(* steps that change neither counts nor lists, and words / bodies only in ways the recycling
   invariant does not look at *)
Lemma RInv_same g ls g' a l' :
  SInv g ls -> RInv g ls ->
  ntasks g' = ntasks g -> term g' = term g -> heap g' = heap g -> rc g' = rc g -> sref g' = sref g ->
  pend g' = pend g -> (forall o, hsum (staged g') o = hsum (staged g) o) ->
  (forall x, (tw_of g' x = tw_of g x \/
              (st (tw_of g x) <> st_terminated /\ st (tw_of g x) <> st_suspended /\
               st (tw_of g' x) <> st_terminated /\ st (tw_of g' x) <> st_suspended)) /\
             (todo (tasks g' x) = todo (tasks g x) \/
              (st (tw_of g x) <> st_terminated /\ forall o, hn (todo (tasks g' x)) o = hn (todo (tasks g x)) o))) ->
  (forall o, wn l' o = wn (ls a) o) -> enq_of l' = enq_of (ls a) ->
  RInv g' (upd ls a l').
Proof.
  intros HI HR En Et Eh Erc Esr Ep Es Hx Hwn Henq.
  apply RInv_quiet with (g := g); auto.
  - intros x Ht. destruct (Hx x) as [[H|(H & _)] _]; [exact H | contradiction].
  - intros x Hlt Ht. left. destruct (Hx x) as [[H|(_ & _ & H & _)] [H'|(H' & _)]]; try contradiction.
    + rewrite H in Ht. auto.
    + rewrite H in Ht. contradiction.
  - intros x _. now rewrite Erc.
  - intros x _. now rewrite Erc.
  - intros x Hlt. left. rewrite Esr. split; [lia|]. split.
    + intros Hs. left. destruct (Hx x) as [[H|(_ & _ & _ & H)] _]; [now rewrite <- H | contradiction].
    + intros He. left. now rewrite <- Henq.
  - intros o. rewrite Erc, Esr, Hwn. unfold Qc. rewrite Ep, Es.
    assert (E : Ht g' o = Ht g o).
    { unfold Ht. rewrite En. apply sumf_ext. intros i _. destruct (Hx i) as [_ [H|(_ & H)]]; [now rewrite H | apply H]. }
    lia.
Qed.

Ltac same_tac HI HR :=
  apply RInv_same with (1 := HI) (2 := HR); try reflexivity; try (intros; reflexivity);
  try (intros x; split; left; reflexivity).

Lemma wn_with_sub l s' o : wn (with_sub l s') o = wn l o.
Proof. destruct l; reflexivity. Qed.
Lemma enq_with_sub l s' : has_sub l -> enq_of (with_sub l s') = match s' with SEnq u => Some u | _ => None end.
Proof. intros H. unfold enq_of. now rewrite sub_of_with_sub. Qed.
Lemma upd_ind (f : nat -> nat) u v o : upd f u v o = if Nat.eqb o u then v else f o.
Proof. reflexivity. Qed.
Lemma ind_sym u o : ind u o = if Nat.eqb o u then 1 else 0.
Proof. unfold ind. rewrite (Nat.eqb_sym u o). reflexivity. Qed.

Ltac eqb_cases o u :=
  let E := fresh "E" in
  destruct (Nat.eqb o u) eqn:E; [apply Nat.eqb_eq in E; subst | apply Nat.eqb_neq in E].

(* ------------------------------------------------------------------ set_thread_state steps *)
Lemma sub_step_RInv g ls a l :
  SInv g ls -> RInv g ls -> ls a = l -> has_sub l ->
  RInv (fst (sub_step g (sub_of l))) (upd ls a (with_sub l (snd (sub_step g (sub_of l))))).
Proof.
  intros HI HR Ha Hsub.
  assert (Hpc := i_pc _ _ _ _ HI a). rewrite Ha in Hpc. destruct Hpc as [Hm Hs].
  assert (Hwn : forall s' o, wn (with_sub l s') o = wn (ls a) o) by (intros; rewrite Ha; apply wn_with_sub).
  assert (Henq0 : forall s', (forall u, s' <> SEnq u) -> (forall u, sub_of l <> SEnq u) ->
                        enq_of (with_sub l s') = enq_of (ls a)).
  { intros s' H1 H2. rewrite Ha, enq_with_sub by assumption. unfold enq_of.
    destruct s'; try reflexivity; try (exfalso; eapply H1; reflexivity);
      destruct (sub_of l); try reflexivity; exfalso; eapply H2; reflexivity. }
  destruct (sub_of l) as [|u|u|u prev|u] eqn:Es; cbn [sub_step].
  - cbn [fst snd]. same_tac HI HR; auto. apply Henq0; intros; congruence.
  - (* SIssue *)
    destruct (reg (tasks g u)); cbn [fst snd]; same_tac HI HR; auto; try (apply Henq0; intros; congruence).
    intros x. split; left.
    + rewrite tw_of_add_log. apply tw_of_set_task_keep. reflexivity.
    + cbn. unfold upd. eqb_cases x u; reflexivity.
  - (* SLoad *)
    destruct (u <? ntasks g) eqn:Eu; [apply Nat.ltb_lt in Eu|]; cbn [fst snd].
    2:{ same_tac HI HR; auto. apply Henq0; intros; congruence. }
    destruct (st (tw_of g u)) eqn:Est; cbn [fst snd];
      try (same_tac HI HR; auto; apply Henq0; intros; congruence).
    (* active: the helper is staged with a counted reference *)
    assert (Hnf : ~ In u (term g ++ heap g)) by (apply (not_free_st g ls); auto; congruence).
    apply RInv_quiet with (g := g); auto.
    + intros x Hin. cbn. unfold upd. eqb_cases x u; [contradiction | reflexivity].
    + intros x Hx. cbn. unfold upd. eqb_cases x u; [lia | reflexivity].
    + intros x Hlt. left. split; [cbn; lia|]. split; [auto|].
      rewrite enq_with_sub by assumption. discriminate.
    + intros o. rewrite Hwn. cbn [rc staged stage set_staged rc_inc set_rc sref add_log].
      rewrite hsum_cons, upd_ind. unfold hn at 1. cbn [href]. rewrite ind_sym.
      change (Qc (add_log (stage (rc_inc g u) (HelperBody u (tw_of g u))) (EvHelp (gid g u) (tw_of g u))) o) with (Qc g o).
      change (Ht (add_log (stage (rc_inc g u) (HelperBody u (tw_of g u))) (EvHelp (gid g u) (tw_of g u))) o) with (Ht g o).
      eqb_cases o u; lia.
  - (* SCas *)
    cbn in Hs. destruct Hs as [Hun Hprev].
    destruct (word_eqb (tw_of g u) prev) eqn:Ew.
    2:{ cbn [fst snd]. same_tac HI HR; auto. apply Henq0; intros; congruence. }
    apply word_eqb_true in Ew.
    set (g1 := add_log (set_word g u (w_pending prev)) (EvWord (gid g u) SiteSet prev (w_pending prev))).
    assert (Hw1 : forall x, x <> u -> tw_of g1 x = tw_of g x).
    { intros x Hx. unfold g1. rewrite tw_of_add_log. now apply tw_of_set_word_other. }
    assert (Hwu : st (tw_of g1 u) = st_pending).
    { unfold g1. rewrite tw_of_add_log, tw_of_set_word_same. reflexivity. }
    assert (Htd : forall x, todo (tasks g1 x) = todo (tasks g x)).
    { intros x. unfold g1. cbn. unfold upd. eqb_cases x u; reflexivity. }
    destruct (sst_beq (st prev) st_suspended) eqn:Esus.
    + apply sst_beq_true in Esus. cbn [fst snd].
      assert (Hgen : forall gg, ntasks gg = ntasks g -> term gg = term g -> heap gg = heap g -> rc gg = rc g ->
                sref gg = sref g -> pend gg = pend g -> staged gg = staged g -> tasks gg = tasks g1 ->
                RInv gg (upd ls a (with_sub l (SEnq u)))).
      { intros gg E1 E2 E3 E4 E5 E6 E7 E8.
        assert (Hwg : forall x, tw_of gg x = tw_of g1 x) by (intros; unfold tw_of; now rewrite E8).
        apply RInv_quiet with (g := g); auto.
        - intros x Ht. rewrite Hwg. apply Hw1. intros ->. rewrite Ew, Esus in Ht. discriminate.
        - intros x Hlt Ht. left. rewrite Hwg in Ht. rewrite E8, Htd.
          destruct (Nat.eq_dec x u) as [->|Hne]; [rewrite Hwu in Ht; discriminate|].
          rewrite Hw1 in Ht by assumption. auto.
        - intros x _. now rewrite E4.
        - intros x _. now rewrite E4.
        - intros x Hlt. left. rewrite E5. split; [lia|]. split.
          + intros Hsx. left. rewrite Hwg in Hsx.
            destruct (Nat.eq_dec x u) as [->|Hne]; [rewrite Hwu in Hsx; discriminate|].
            now rewrite <- Hw1.
          + rewrite enq_with_sub by assumption. intros Hx. assert (Hxu : x = u) by congruence. subst x. right.
            apply (r_self _ _ HR u Hlt). left. now rewrite Ew.
        - intros o. rewrite E4, E5, Hwn. unfold Qc. rewrite E6, E7.
          assert (E : Ht gg o = Ht g o).
          { unfold Ht. rewrite E1, E8. apply sumf_ext. intros i _. now rewrite Htd. }
          lia. }
      destruct (match wake (tasks g u) with Some p => negb (N.eqb (p + 1) (tag prev)) | None => true end);
        apply Hgen; reflexivity.
    + apply sst_beq_false in Esus. destruct Hprev as [Hprev|Hprev]; [contradiction|].
      cbn [fst snd]. fold g1. same_tac HI HR; auto.
      * intros x. split; [|left; apply Htd].
        destruct (Nat.eq_dec x u) as [->|Hne]; [right | left; now apply Hw1].
        rewrite Hwu, Ew, Hprev. repeat split; discriminate.
      * apply Henq0; intros; congruence.
  - (* SEnq *)
    cbn in Hs. destruct Hs as [Hun Hp]. cbn [fst snd].
    assert (Hnf : ~ In u (term g ++ heap g)) by (apply (not_free_st g ls); auto; congruence).
    apply RInv_quiet with (g := g); auto.
    + intros x Hin. cbn. unfold upd. eqb_cases x u; [contradiction | reflexivity].
    + intros x Hx. cbn. unfold upd. eqb_cases x u; [lia | reflexivity].
    + intros x Hlt. left. split; [cbn; lia|]. split; [auto|].
      rewrite enq_with_sub by assumption. discriminate.
    + intros o. rewrite Hwn. unfold Qc. cbn [rc staged pend push add_log set_pend rc_inc set_rc sref].
      rewrite count_cons, upd_ind, ind_sym.
      change (Ht (push (rc_inc g u) u) o) with (Ht g o).
      eqb_cases o u; lia.
Qed.

Lemma hn_user b o : is_user b -> hn b o = 0.
Proof. destruct b; cbn; try contradiction. reflexivity. Qed.
Lemma enq_none l : (forall u, sub_of l <> SEnq u) -> enq_of l = None.
Proof. unfold enq_of. destruct (sub_of l); try reflexivity. intros H. exfalso. eapply H; reflexivity. Qed.

(* the release of one counted reference to x (by a worker or by a helper): quiet step to the
   decremented state, then destroy_thread if the count reached 0 *)
Lemma RInv_release g ls ls' gq x :
  RInv g ls -> 1 <= rc g x -> x < ntasks gq ->
  term gq = term g -> heap gq = heap g -> rc gq x = rc g x ->
  SInv (set_rc gq x (pred (rc g x))) ls' ->
  RInv (set_rc gq x (pred (rc g x))) ls' ->
  RInv (rc_dec gq x) ls'.
Proof.
  intros HR Hrc Hx Et Eh Erc HI' HR'.
  apply RInv_rc_dec with (g := set_rc gq x (pred (rc g x))); auto.
  - intros _. cbn [term heap set_rc]. rewrite Et, Eh. apply (not_free_rc g ls); auto.
  - cbn [rc set_rc]. rewrite upd_same, Erc. lia.
  - cbn [rc set_rc]. rewrite upd_same. reflexivity.
Qed.

Lemma SInv_view g g' ls :
  ntasks g' = ntasks g -> pend g' = pend g -> (forall x, tw_of g' x = tw_of g x) -> SInv g ls -> SInv g' ls.
Proof.
  intros En Ep Ew [H1 H2 H3 H4 H5 H6 H7]. unfold SInv. rewrite En, Ep. constructor; auto.
  - intros t Ht. rewrite Ew. now apply H1.
  - intros b. eapply pc_ok_ext; [|apply H3]. intros; apply Ew.
  - intros t Ht Hl. rewrite Ew in Hl. now apply H6.
  - intros t Ht. rewrite Ew. now apply H7.
Qed.

Theorem step_RInv o a g ls :
  SInv g ls -> W5 g ls -> RInv g ls ->
  RInv (fst (tstep o a g (ls a))) (upd ls a (snd (tstep o a g (ls a)))).
Proof.
  intros HI H5 HR. assert (Hpc := i_pc _ _ _ _ HI a). specialize (H5 a).
  assert (HH := heap_ok_of _ _ HR).
  assert (HI' := step_SInv o a g ls HI HH).
  destruct (ls a) as [|t|t w0|t orig s|t orig ret|t orig ret cur|t|t prev|t|t|acts s] eqn:Ha; cbn [tstep] in *.
  - (* WTop *)
    destruct (ob o).
    + destruct (nth_error (pend g) (oi o)) as [t|] eqn:En; cbn [fst snd] in *.
      * apply RInv_quiet with (g := g); auto.
        -- intros x Hlt. left. split; [apply le_n|]. split; [auto|]. discriminate.
        -- intros o0. rewrite Ha. unfold Qc. cbn [pend set_pend].
           assert (E := count_remove_nth (pend g) (oi o) t o0 En).
           change (wn WTop o0) with 0. change (wn (WGot t) o0) with (ind t o0).
           change (Ht (set_pend g (remove_nth (oi o) (pend g))) o0) with (Ht g o0). cbn [rc sref staged set_pend]. lia.
      * eapply RInv_ls_ext; [|exact HR]. intros b. unfold upd. destruct (Nat.eqb b a) eqn:E; [apply Nat.eqb_eq in E; subst; now rewrite Ha | reflexivity].
    + destruct (nth_error (staged g) (oi o)) as [b|] eqn:En; cbn [fst snd] in *.
      * apply RInv_new with (g := g); auto; try reflexivity; try (rewrite Ha; reflexivity).
        intros o0. assert (E := hsum_remove_nth (staged g) (oi o) b o0 En).
        change (Ht (set_staged g (remove_nth (oi o) (staged g))) o0) with (Ht g o0). cbn [staged set_staged]. lia.
      * destruct (term g) as [|x r] eqn:Et; cbn [fst snd] in *.
        -- eapply RInv_ls_ext; [|exact HR]. intros b. unfold upd. destruct (Nat.eqb b a) eqn:E; [apply Nat.eqb_eq in E; subst; now rewrite Ha | reflexivity].
        -- eapply RInv_ls_ext; [|apply RInv_cleanup; eauto]. intros b. unfold upd. destruct (Nat.eqb b a) eqn:E; [apply Nat.eqb_eq in E; subst; now rewrite Ha | reflexivity].
  - (* WGot *) cbn [fst snd] in *. same_tac HI HR; rewrite Ha; reflexivity.
  - (* WLoaded *)
    destruct Hpc as [(Ht0 & Hw & Hp) _]. subst w0. rewrite Hp in *. rewrite word_eqb_refl in *. cbn [fst snd] in *.
    assert (Hrc1 : 1 <= rc g t).
    { assert (H := rc_ge_wn g ls a t HR). rewrite Ha in H. change (wn (WLoaded t (tw_of g t)) t) with (ind t t) in H. rewrite ind_same in H. exact H. }
    assert (Hnf : ~ In t (term g ++ heap g)) by (apply (not_free_rc g ls); auto).
    set (nw := {| st := st_active; tag := tag (tw_of g t) + 1 |}) in *.
    match goal with |- RInv ?gg _ =>
      assert (Egg : ntasks gg = ntasks g /\ term gg = term g /\ heap gg = heap g /\ pend gg = pend g /\ staged gg = staged g /\
                    (forall x, tw_of gg x = upd (tw_of g) t nw x) /\ (forall x, todo (tasks gg x) = todo (tasks g x)) /\
                    ((sref g t = 0 /\ rc gg = rc g /\ sref gg = sref g) \/
                     (exists c, sref g t = S c /\ rc gg = upd (rc g) t (pred (rc g t)) /\ sref gg = upd (sref g) t c))) end.
    { destruct (sref g t) as [|c] eqn:Es; repeat split; try reflexivity.
      all: try (intros x; unfold tw_of; cbn; unfold upd; eqb_cases x t; reflexivity).
      - left. auto.
      - right. exists c. auto. }
    destruct Egg as (E1 & E2 & E3 & E4 & E5 & E6 & E7 & E8).
    apply RInv_quiet with (g := g); auto.
    + intros x Hterm. rewrite E6. apply upd_other. intros ->. rewrite Hp in Hterm. discriminate.
    + intros x Hlt Hterm. left. rewrite E6 in Hterm. rewrite E7.
      destruct (Nat.eq_dec x t) as [->|Hne]; [rewrite upd_same in Hterm; discriminate|].
      rewrite upd_other in Hterm by assumption. auto.
    + intros x Hin. destruct E8 as [(_ & -> & _)|(c & _ & -> & _)]; [reflexivity|].
      apply upd_other. intros ->. contradiction.
    + intros x Hx. destruct E8 as [(_ & -> & _)|(c & _ & -> & _)]; [reflexivity|].
      apply upd_other. lia.
    + intros x Hlt. destruct (Nat.eq_dec x t) as [->|Hne].
      * right. rewrite E6, upd_same. split; [discriminate|]. split; [discriminate|].
        intros b Hb He. apply Hb. eapply (i_uniq _ _ _ _ HI); [right; exact He | rewrite Ha; left; reflexivity].
      * left. rewrite E6, upd_other by assumption. split.
        -- destruct E8 as [(_ & _ & ->)|(c & _ & _ & ->)]; [lia | rewrite upd_other by assumption; lia].
        -- split; [auto | discriminate].
    + intros o0. rewrite Ha. unfold Qc. rewrite E4, E5.
      assert (E : Ht ?[gg] o0 = Ht g o0) by (unfold Ht; rewrite E1; apply sumf_ext; intros i _; now rewrite E7).
      change (wn (WLoaded t (tw_of g t)) o0) with (ind t o0). change (wn (WRun t nw SNone) o0) with (ind t o0).
      destruct E8 as [(_ & -> & ->)|(c & Es & -> & ->)]; [lia|].
      rewrite !upd_ind. eqb_cases o0 t; lia.
  - (* WRun *)
    destruct s as [|u|u|u prev|u].
    2-5: match goal with |- context [sub_step ?gg ?s] =>
           assert (Hs := sub_step_RInv gg ls a _ HI HR Ha I); cbn [sub_of with_sub] in Hs;
           destruct (sub_step gg s) as [g' s']; exact Hs end.
    destruct Hpc as [(Ht0 & Hw & Hact) _].
    assert (Hnt : st (tw_of g t) <> st_terminated) by (rewrite Hw, Hact; discriminate).
    unfold run_act in *. destruct (todo (tasks g t)) as [[|ac r]|u prev|u] eqn:Etd.
    + cbn [fst snd] in *. same_tac HI HR; rewrite Ha; reflexivity.
    + assert (Hsame : forall l', (forall o0, wn l' o0 = wn (ls a) o0) -> enq_of l' = enq_of (ls a) ->
                        RInv (set_todo g t (UserBody r)) (upd ls a l')).
      { intros l' H1 H2. same_tac HI HR; auto.
        intros x. split; [left; apply tw_of_set_todo|].
        cbn. unfold upd. eqb_cases x t; [right | left; reflexivity].
        split; [exact Hnt|]. intros o0. cbn. rewrite Etd. reflexivity. }
      destruct ac as [| | | |b now|u|v]; cbn [fst snd] in *.
      * apply Hsame; rewrite Ha; reflexivity.
      * apply Hsame; rewrite Ha; reflexivity.
      * apply Hsame; rewrite Ha; reflexivity.
      * same_tac HI HR; try (rewrite Ha; reflexivity).
        intros x. split; [left; rewrite tw_of_set_reg; apply tw_of_set_todo|].
        cbn. unfold upd. eqb_cases x t; [right | left; reflexivity].
        split; [exact Hnt|]. intros o0. rewrite ?Nat.eqb_refl. cbn. rewrite Etd. reflexivity.
      * destruct now.
        -- apply RInv_new with (g := g); auto; try reflexivity; try (rewrite Ha; reflexivity).
           ++ intros x. apply tw_of_set_todo.
           ++ intros x Hx. cbn. unfold upd. eqb_cases x t; [contradiction | reflexivity].
           ++ intros o0. change (hn (UserBody b) o0) with 0.
              assert (E : Ht (set_todo g t (UserBody r)) o0 = Ht g o0).
              { unfold Ht. apply sumf_ext. intros i _. cbn. unfold upd. eqb_cases i t; [cbn; rewrite Etd|]; reflexivity. }
              cbn [staged set_todo set_task]. lia.
        -- same_tac HI HR; try (rewrite Ha; reflexivity).
           intros x. split; [left; apply tw_of_set_todo|].
           cbn. unfold upd. eqb_cases x t; [right | left; reflexivity].
           split; [exact Hnt|]. intros o0. cbn. rewrite Etd. reflexivity.
      * apply Hsame; rewrite Ha; reflexivity.
      * apply Hsame; rewrite Ha; reflexivity.
    + (* helper: set_active_state reads the word *)
      assert (Hg : forall gg l', tasks gg = tasks (set_todo g t (HelperRun u)) -> ntasks gg = ntasks g ->
                   term gg = term g -> heap gg = heap g -> rc gg = rc g -> sref gg = sref g -> pend gg = pend g ->
                   staged gg = staged g ->
                   (forall o0, wn l' o0 = wn (ls a) o0) -> enq_of l' = enq_of (ls a) ->
                   RInv gg (upd ls a l')).
      { intros gg l' E1 E2 E3 E4 E5 E6 E7 E8 E9 E10. same_tac HI HR; auto.
        - intros o0. now rewrite E8.
        - intros x. unfold tw_of. rewrite E1. split; [left; apply tw_of_set_todo|].
          cbn. unfold upd. eqb_cases x t; [right | left; reflexivity].
          split; [exact Hnt|]. intros o0. cbn. rewrite Etd. reflexivity. }
      destruct (sst_beq (st (tw_of g u)) (st prev) && negb (word_eqb (tw_of g u) prev)); cbn [fst snd] in *;
        apply Hg; try reflexivity; rewrite Ha; reflexivity.
    + (* helper: the bound id is released *)
      cbn [fst snd] in *.
      assert (Hrc1 : 1 <= rc g u).
      { assert (H := rc_ge_ht g ls t u HR Ht0). rewrite Etd in H. change (hn (HelperRun u) u) with (ind u u) in H.
        rewrite ind_same in H. exact H. }
      assert (Hu : u < ntasks g).
      { destruct (le_lt_dec (ntasks g) u) as [H|H]; [|exact H]. assert (H' := r_fresh _ _ HR u H). lia. }
      set (gq := set_todo g t (UserBody [])) in *.
      assert (Hmid : RInv (set_rc gq u (pred (rc g u))) (upd ls a (WRun t orig SNone))).
      { apply RInv_quiet with (g := g); auto.
        - intros x Hterm. apply tw_of_set_todo.
        - intros x Hlt Hterm. left.
          assert (Hterm' : st (tw_of g x) = st_terminated) by (rewrite <- (tw_of_set_todo g t (UserBody []) x); exact Hterm).
          split; [exact Hterm'|]. cbn. unfold upd. eqb_cases x t; [contradiction | reflexivity].
        - intros x Hin. cbn. unfold upd. eqb_cases x u; [|reflexivity]. exfalso. revert Hin. apply (not_free_rc g ls); auto.
        - intros x Hx. cbn. unfold upd. eqb_cases x u; [lia | reflexivity].
        - intros x Hlt. left. split; [apply le_n|]. split; [|discriminate].
          intros Hs. left. rewrite <- (tw_of_set_todo g t (UserBody []) x). exact Hs.
        - intros o0. rewrite Ha. cbn [rc sref staged pend set_rc]. unfold Qc. cbn [pend set_rc].
          assert (E : Ht (set_rc gq u (pred (rc g u))) o0 + hn (HelperRun u) o0 = Ht g o0 + hn (UserBody []) o0).
          { unfold Ht. cbn [tasks ntasks set_rc gq set_todo set_task]. rewrite <- Etd.
            exact (sumf_upd (fun k => hn (todo k) o0) (tasks g) t _ (ntasks g) Ht0). }
          change (hn (HelperRun u) o0) with (ind u o0) in E. change (hn (UserBody []) o0) with 0 in E.
          rewrite upd_ind. rewrite ind_sym in E. unfold gq in E |- *.
          cbn [rc sref staged pend set_rc set_todo set_task]. eqb_cases o0 u; lia. }
      apply (RInv_release g ls); auto.
      apply SInv_view with (g := rc_dec gq u);
        [exact (eq_sym (ntasks_rc_dec gq u)) | exact (eq_sym (pend_rc_dec gq u)) | intros x; exact (eq_sym (tw_of_rc_dec gq u x)) | exact HI'].
  - (* WStoreL *) cbn [fst snd] in *. same_tac HI HR; rewrite Ha; reflexivity.
  - (* WStoreC *)
    destruct Hpc as [(Ht0 & Hw & Hact & Hr & Hcur) _]. subst cur. subst orig.
    rewrite word_eqb_refl in *. cbn [fst snd] in *. cbv zeta in *.
    set (nw := {| st := ret; tag := tag (tw_of g t) + 1 |}) in *.
    assert (Hnf : ~ In t (term g ++ heap g)) by (apply (not_free_st g ls); auto; rewrite Hact; discriminate).
    assert (Hwl : forall l', (l' = WRequeue t \/ l' = WBoost t \/ l' = WRelease t) ->
                  (forall o0, wn l' o0 = wn (ls a) o0) /\ enq_of l' = None).
    { intros l' [->|[->| ->]]; rewrite Ha; split; reflexivity. }
    assert (Hl' : exists l', snd (if sst_beq ret st_terminated then (g, WTop) else (g, WTop)) = WTop /\
                  (match ret with st_pending => WRequeue t | st_pending_boost => WBoost t | _ => WRelease t end) = l' /\
                  (l' = WRequeue t \/ l' = WBoost t \/ l' = WRelease t)).
    { eexists. split; [destruct (sst_beq ret st_terminated); reflexivity|]. split; [reflexivity|].
      destruct ret; auto. }
    destruct Hl' as (l' & _ & El' & Hl'). rewrite El' in *. destruct (Hwl l' Hl') as [Hwn Henq].
    cbn in H5. 
    destruct (sst_beq ret st_terminated) eqn:Eterm.
    + apply sst_beq_true in Eterm.
      apply RInv_quiet with (g := g); auto.
      * intros x Hterm. cbn. unfold tw_of; cbn. unfold upd. eqb_cases x t; [rewrite Hact in Hterm; discriminate | reflexivity].
      * intros x Hlt Hterm. unfold tw_of in *; cbn in *. unfold upd in *. eqb_cases x t; [right; exact H5 | left; auto].
      * intros x Hlt. left. split; [apply le_n|]. split; [|rewrite Henq; discriminate].
        intros Hs. unfold tw_of in *; cbn in *. unfold upd in *. eqb_cases x t; [cbn in Hs; congruence | auto].
      * intros o0. rewrite Hwn. unfold Qc. cbn [rc sref staged pend add_log set_word set_task].
        match goal with |- context [Ht (add_log ?x ?y) o0] =>
          assert (E : Ht (add_log x y) o0 = Ht g o0) by (unfold Ht; apply sumf_ext; intros i _; cbn; unfold upd; eqb_cases i t; reflexivity) end.
        lia.
    + apply sst_beq_false in Eterm.
      apply RInv_quiet with (g := g); auto.
      * intros x Hterm. unfold tw_of; cbn. unfold upd. eqb_cases x t; [rewrite Hact in Hterm; discriminate | reflexivity].
      * intros x Hlt Hterm. unfold tw_of in *; cbn in *. unfold upd in *. eqb_cases x t; [cbn in Hterm; contradiction | left; auto].
      * intros x Hin. cbn. unfold upd. eqb_cases x t; [contradiction | reflexivity].
      * intros x Hx. cbn. unfold upd. eqb_cases x t; [lia | reflexivity].
      * intros x Hlt. left. cbn [sref self_ref set_sref rc_inc set_rc add_log set_word set_task]. rewrite upd_ind. split; [eqb_cases x t; lia|]. split; [|rewrite Henq; discriminate].
        intros Hs. eqb_cases x t; [right; lia|]. left.
        unfold tw_of in *; cbn in *. unfold upd in *. apply Nat.eqb_neq in E. rewrite E in Hs. exact Hs.
      * intros o0. rewrite Hwn. unfold Qc. cbn [rc sref staged pend add_log set_word set_task self_ref set_sref rc_inc set_rc].
        match goal with |- context [Ht (self_ref ?x ?y) o0] =>
          assert (E : Ht (self_ref x y) o0 = Ht g o0) by (unfold Ht; apply sumf_ext; intros i _; cbn; unfold upd; eqb_cases i t; reflexivity) end.
        rewrite !upd_ind. eqb_cases o0 t; lia.
  - (* WBoost *) cbn [fst snd] in *. same_tac HI HR; rewrite Ha; reflexivity.
  - (* WBoostC *)
    destruct Hpc as [(Ht0 & Hb) _].
    destruct (word_eqb (tw_of g t) prev) eqn:Ew; cbn [fst snd] in *.
    + apply word_eqb_true in Ew. same_tac HI HR; try (rewrite Ha; reflexivity).
      intros x. split; [|left; cbn; unfold upd; eqb_cases x t; reflexivity].
      unfold tw_of; cbn. unfold upd. eqb_cases x t; [right | left; reflexivity].
      cbn. fold (tw_of g t). destruct Hb as [Hb|Hb]; rewrite Hb; repeat split; discriminate.
    + same_tac HI HR; rewrite Ha; reflexivity.
  - (* WRequeue *)
    destruct Hpc as [(Ht0 & Hp) _]. cbn [fst snd] in *.
    assert (Hnf : ~ In t (term g ++ heap g)) by (apply (not_free_st g ls); auto; rewrite Hp; discriminate).
    apply RInv_quiet with (g := g); auto.
    + intros x Hlt. left. split; [apply le_n|]. split; [auto|discriminate].
    + intros o0. rewrite Ha. unfold Qc. cbn [pend push add_log set_pend rc sref staged]. rewrite count_cons.
      change (wn (WRequeue t) o0) with (ind t o0). change (wn WTop o0) with 0.
      change (Ht (push g t) o0) with (Ht g o0). lia.
  - (* WRelease *)
    destruct Hpc as [Ht0 _]. cbn in Ht0. cbn [fst snd] in *.
    assert (Hrc1 : 1 <= rc g t).
    { assert (H := rc_ge_wn g ls a t HR). rewrite Ha in H. change (wn (WRelease t) t) with (ind t t) in H. rewrite ind_same in H. exact H. }
    assert (Hmid : RInv (set_rc g t (pred (rc g t))) (upd ls a WTop)).
    { apply RInv_quiet with (g := g); auto.
      - intros x Hin. cbn. unfold upd. eqb_cases x t; [|reflexivity]. exfalso. revert Hin. apply (not_free_rc g ls); auto.
      - intros x Hx. cbn. unfold upd. eqb_cases x t; [lia | reflexivity].
      - intros x Hlt. left. split; [apply le_n|]. split; [auto|discriminate].
      - intros o0. rewrite Ha. cbn [rc sref staged set_rc]. change (wn (WRelease t) o0) with (ind t o0). change (wn WTop o0) with 0.
        change (Qc (set_rc g t (pred (rc g t))) o0) with (Qc g o0). change (Ht (set_rc g t (pred (rc g t))) o0) with (Ht g o0).
        rewrite upd_ind, ind_sym. eqb_cases o0 t; lia. }
    apply (RInv_release g ls); auto.
    apply SInv_view with (g := rc_dec g t);
      [exact (eq_sym (ntasks_rc_dec g t)) | exact (eq_sym (pend_rc_dec g t)) | intros x; exact (eq_sym (tw_of_rc_dec g t x)) | exact HI'].
  - (* XRun *)
    destruct s as [|u|u|u prev|u].
    2-5: match goal with |- context [sub_step ?gg ?s] =>
           assert (Hs := sub_step_RInv gg ls a _ HI HR Ha I); cbn [sub_of with_sub] in Hs;
           destruct (sub_step gg s) as [g' s']; exact Hs end.
    destruct acts as [|[| | | |b now|u|v] r]; cbn [fst snd] in *;
      try (same_tac HI HR; rewrite Ha; reflexivity).
    destruct now.
    + apply RInv_new with (g := g); auto; try reflexivity; try (rewrite Ha; reflexivity);
        try (intros o0; change (hn (UserBody b) o0) with 0; lia).
    + same_tac HI HR; rewrite Ha; reflexivity.
Qed.

(* ------------------------------------------------------------------ the joint invariant *)
Definition AllInv (g : G) (ls : nat -> pc) : Prop :=
  SInv g ls /\ LogInv g /\ WInv g ls /\ RInv g ls.

Lemma RInv_init ext : RInv init_g (init_ls ext).
Proof.
  constructor; cbn; try (intros; lia); try (intros x []); try constructor.
  exists 0. split.
  - intros a _. unfold init_ls. destruct (ext a); reflexivity.
  - intros o. reflexivity.
Qed.

Theorem AllInv_reach sched ext : AllInv (fst (sched_run sched ext)) (snd (sched_run sched ext)).
Proof.
  unfold sched_run. apply (run_inv _ _ _ tstep AllInv).
  - intros o t g ls (H1 & H2 & [H3 H4] & H5). assert (HH := heap_ok_of _ _ H5).
    split; [now apply step_SInv|]. split; [now apply step_LogInv|].
    split; [split; [now apply step_W1 | now apply step_W5] | now apply step_RInv].
  - split; [apply SInv_init|]. split; [apply LogInv_init|]. split; [|apply RInv_init]. split.
    + intros u p Hu. cbn in Hu. lia.
    + intros a. cbn. unfold init_ls. destruct (ext a) eqn:E; cbn; rewrite ?E; exact I.
Qed.

Theorem SInv_reach sched ext : SInv (fst (sched_run sched ext)) (snd (sched_run sched ext)).
Proof. apply AllInv_reach. Qed.
Theorem LogInv_reach sched ext : LogInv (fst (sched_run sched ext)).
Proof. apply AllInv_reach. Qed.
Theorem WInv_reach sched ext : WInv (fst (sched_run sched ext)) (snd (sched_run sched ext)).
Proof. apply AllInv_reach. Qed.
Theorem RInv_reach sched ext : RInv (fst (sched_run sched ext)) (snd (sched_run sched ext)).
Proof. apply AllInv_reach. Qed.

(* ------------------------------------------------------------------ C01 *)
Theorem sched_single_runner sched ext a b t :
  let c := sched_run sched ext in
  running (snd c a) t -> running (snd c b) t -> a = b.
Proof.
  intros c Ha Hb. eapply (i_uniq _ _ _ _ (SInv_reach sched ext)); apply running_holds; eauto.
Qed.

(* the failure branches of the two CAS of switch_status are dead code in this fragment *)
Theorem sched_cas_never_fails sched ext a :
  let c := sched_run sched ext in
  (forall t w0, snd c a = WLoaded t w0 -> tw_of (fst c) t = w0 /\ st w0 = st_pending) /\
  (forall t orig ret cur, snd c a = WStoreC t orig ret cur -> tw_of (fst c) t = orig /\ cur = orig).
Proof.
  intros c. assert (H := i_pc _ _ _ _ (SInv_reach sched ext) a). fold c in H. split.
  - intros t w0 E. rewrite E in H. destruct H as [H _]. cbn in H. tauto.
  - intros t orig ret cur E. rewrite E in H. destruct H as [H _]. cbn in H. tauto.
Qed.

Theorem sched_handles sched ext t :
  let c := sched_run sched ext in
  t < ntasks (fst c) ->
  (* a pending / pending_boost / active task is referenced by exactly one handle *)
  (live_st (st (tw_of (fst c) t)) ->
     (In t (pend (fst c)) \/ exists a, holds (snd c a) t) /\
     NoDup (pend (fst c)) /\
     (forall a, holds (snd c a) t -> ~ In t (pend (fst c))) /\
     (forall a b, holds (snd c a) t -> holds (snd c b) t -> a = b)) /\
  (* a suspended or terminated task by none *)
  (st (tw_of (fst c) t) = st_suspended \/ st (tw_of (fst c) t) = st_terminated ->
     ~ In t (pend (fst c)) /\ forall a, ~ holds (snd c a) t) /\
  (* and there is no other state *)
  (live_st (st (tw_of (fst c) t)) \/ st (tw_of (fst c) t) = st_suspended \/ st (tw_of (fst c) t) = st_terminated).
Proof.
  intros c Ht. assert (HI := SInv_reach sched ext). fold c in HI. unfold SInv in HI. repeat split.
  - now apply (i_exist _ _ _ _ HI).
  - apply (i_nodup _ _ _ _ HI).
  - intros a. apply (i_excl _ _ _ _ HI).
  - intros a b. apply (i_uniq _ _ _ _ HI).
  - intros Hin. apply (i_queue _ _ _ _ HI) in Hin. destruct Hin as [_ Hp]. destruct H as [H|H]; congruence.
  - intros a Ha. apply (holds_live _ _ _ _ HI) in Ha. destruct Ha as [_ [Hl|[Hl|Hl]]], H as [H|H]; congruence.
  - now apply (i_dom _ _ _ _ HI).
Qed.


Lemma pev_of_rev t e : rev (pev_of t e) = pev_of t e.
Proof. destruct e; cbn; try reflexivity; destruct (Nat.eqb _ _); reflexivity. Qed.
Lemma phases_of_rev t l : phases_of t (rev l) = rev (phases_of t l).
Proof.
  unfold phases_of. induction l as [|e l IH]; [reflexivity|].
  cbn [rev flat_map]. rewrite flat_map_app, IH. cbn [flat_map]. rewrite app_nil_r, rev_app_distr, pev_of_rev. reflexivity.
Qed.
Lemma alt_length m : length (alt m) = m.
Proof. unfold alt. now rewrite map_length, seq_length. Qed.


(* the phase events of every INCARNATION (task), in chronological order, are
   Enter 0, Exit 0, Enter 1, Exit 1, ... : at most one Enter of phase 0, and phase k+1 is entered
   only after phase k returned — whatever happens to the thread object afterwards *)
Theorem sched_entered_once sched ext i :
  let g := fst (sched_run sched ext) in
  phases_of i (rev (log g)) = alt (length (phases_of i (log g))).
Proof.
  intros g. destruct (l_alt _ (LogInv_reach sched ext) i) as [m H]. fold g in H.
  rewrite phases_of_rev, H, rev_involutive, rev_length, alt_length. reflexivity.
Qed.

Theorem sched_no_drop sched ext w :
  ext w = None ->
  let c := sched_run sched ext in
  stuck c ->
  pend (fst c) = [] /\ staged (fst c) = [] /\
  forall t, t < ntasks (fst c) ->
    st (tw_of (fst c) t) = st_suspended \/ st (tw_of (fst c) t) = st_terminated.
Proof.
  intros Hw c Hst.
  assert (HI := SInv_reach sched ext). fold c in HI.
  assert (Hpcs := stuck_pcs (fst c) (snd c)). rewrite <- surjective_pairing in Hpcs. specialize (Hpcs Hst).
  assert (Hwt : snd c w = WTop).
  { destruct (Hpcs w) as [H|H]; [exact H|]. assert (R := role_reach sched ext w). fold c in R.
    rewrite H, Hw in R. discriminate R. }
  assert (Hp : pend (fst c) = []).
  { specialize (Hst w o_pop0). rewrite Hwt in Hst. cbn in Hst.
    destruct (pend (fst c)) as [|t p] eqn:E; [reflexivity|]. cbn in Hst. inversion Hst. }
  assert (Hs : staged (fst c) = []).
  { specialize (Hst w o_conv0). rewrite Hwt in Hst. cbn in Hst.
    destruct (staged (fst c)) as [|b p] eqn:E; [reflexivity|]. cbn in Hst. inversion Hst as [[Hg]].
    apply (f_equal ninc) in Hg. cbn in Hg. lia. }
  repeat split; auto.
  intros t Ht. destruct (i_dom _ _ _ _ HI t Ht) as [Hl|H]; [|exact H]. exfalso.
  destruct (i_exist _ _ _ _ HI t Ht Hl) as [H|[a H]].
  - rewrite Hp in H. exact H.
  - destruct (Hpcs a) as [E|E]; rewrite E in H; revert H; apply holds_none; try reflexivity; cbn; intros; discriminate.
Qed.


(* ------------------------------------------------------------------ C01: recycling *)
Lemma wn_pos l x : wref l = Some x -> wn l x = 1.
Proof. intros H. unfold wn. rewrite H. apply ind_same. Qed.
Lemma hn_pos b x : href b = Some x -> hn b x = 1.
Proof. intros H. unfold hn. rewrite H. apply ind_same. Qed.

(* an object that waits for cleanup or sits in a heap — the only objects create_thread_object
   ever rebinds — is terminated, has reference count 0 and no handle of any kind refers to it:
   no queue entry, no worker's thrd, no waker between its CAS and schedule_thread, no staged
   helper, no helper body, no do_yield frame *)
Theorem sched_recycle_fresh sched ext x :
  let c := sched_run sched ext in
  In x (term (fst c) ++ heap (fst c)) ->
  x < ntasks (fst c) /\ st (tw_of (fst c) x) = st_terminated /\ rc (fst c) x = 0 /\
  ~ In x (pend (fst c)) /\
  (forall a, wref (snd c a) <> Some x /\ ~ holds (snd c a) x) /\
  (forall b, In b (staged (fst c)) -> href b <> Some x) /\
  (forall y, y < ntasks (fst c) -> href (todo (tasks (fst c) y)) <> Some x) /\
  sref (fst c) x = 0 /\
  NoDup (term (fst c) ++ heap (fst c)).
Proof.
  intros c Hin. assert (HR := RInv_reach sched ext). assert (HI := SInv_reach sched ext). fold c in HR, HI.
  destruct (r_free _ _ HR x Hin) as (Hx & Htm & H0).
  destruct (r_cnt _ _ HR) as (N & HS & Heq). specialize (Heq x). unfold refs in Heq. rewrite H0 in Heq.
  split; [exact Hx|]. split; [exact Htm|]. split; [exact H0|]. split.
  { intros Hp. apply count_pos_in in Hp. unfold Qc in Heq. lia. }
  split.
  { intros a. split.
    - intros Hw. assert (H1 := wn_pos _ _ Hw). assert (H2 := Wt_ge N (snd c) a x HS). lia.
    - intros Hh. apply (holds_live _ _ _ _ HI) in Hh. destruct Hh as [_ [Hl|[Hl|Hl]]]; congruence. }
  split.
  { intros b Hb Hr. assert (H1 := hn_pos _ _ Hr). assert (H2 := hsum_in _ b x Hb). lia. }
  split.
  { intros y Hy Hr. assert (H1 := hn_pos _ _ Hr).
    assert (H2 := sumf_ge (fun k => hn (todo k) x) (tasks (fst c)) y (ntasks (fst c)) Hy). cbn beta in H2.
    unfold Ht in Heq. lia. }
  split; [lia | apply (r_nodup _ _ HR)].
Qed.

(* the reference count is exact: every counted reference keeps the object out of the heaps *)
Theorem sched_refcount_guards sched ext x :
  let c := sched_run sched ext in
  (In x (pend (fst c)) \/ (exists a, wref (snd c a) = Some x) \/
   (exists b, In b (staged (fst c)) /\ href b = Some x) \/
   (exists y, y < ntasks (fst c) /\ href (todo (tasks (fst c) y)) = Some x) \/
   1 <= sref (fst c) x \/ (exists a, running (snd c a) x) \/ (exists a, holds (snd c a) x)) ->
  1 <= rc (fst c) x /\ ~ In x (term (fst c) ++ heap (fst c)).
Proof.
  intros c H.
  assert (Hn : ~ In x (term (fst c) ++ heap (fst c))).
  { intros Hin. destruct (sched_recycle_fresh sched ext x Hin) as (_ & _ & _ & H1 & H2 & H3 & H4 & H5 & _). fold c in H1, H2, H3, H4, H5.
    destruct H as [H|[[a H]|[[b [Hb H]]|[[y [Hy H]]|[H|[[a H]|[a H]]]]]]].
    - contradiction.
    - destruct (H2 a) as [Hq _]. contradiction.
    - exact (H3 b Hb H).
    - exact (H4 y Hy H).
    - lia.
    - apply running_holds in H. destruct (H2 a) as [_ Hq]. contradiction.
    - destruct (H2 a) as [_ Hq]. contradiction. }
  split; [|exact Hn].
  assert (HR := RInv_reach sched ext). assert (HI := SInv_reach sched ext). fold c in HR, HI.
  destruct (Nat.eq_dec (rc (fst c) x) 0) as [E|E]; [|lia]. exfalso.
  destruct (le_lt_dec (ntasks (fst c)) x) as [Hx|Hx].
  - (* not even allocated: nothing can refer to it *)
    destruct (r_cnt _ _ HR) as (N & HS & Heq). specialize (Heq x). unfold refs in Heq. rewrite E in Heq.
    destruct H as [H|[[a H]|[[b [Hb H]]|[[y [Hy H]]|[H|[[a H]|[a H]]]]]]].
    + apply count_pos_in in H. unfold Qc in Heq. lia.
    + assert (H1 := wn_pos _ _ H). assert (H2 := Wt_ge N (snd c) a x HS). lia.
    + assert (H1 := hn_pos _ _ H). assert (H2 := hsum_in _ b x Hb). lia.
    + assert (H1 := hn_pos _ _ H).
      assert (H2 := sumf_ge (fun k => hn (todo k) x) (tasks (fst c)) y (ntasks (fst c)) Hy). cbn beta in H2. unfold Ht in Heq. lia.
    + lia.
    + apply running_holds in H. apply (holds_live _ _ _ _ HI) in H. lia.
    + apply (holds_live _ _ _ _ HI) in H. lia.
  - assert (Htm := rc0_terminated _ _ x HI HR Hx E).
    destruct (r_cnt _ _ HR) as (N & HS & Heq). specialize (Heq x). unfold refs in Heq. rewrite E in Heq.
    destruct H as [H|[[a H]|[[b [Hb H]]|[[y [Hy H]]|[H|[[a H]|[a H]]]]]]].
    + apply count_pos_in in H. unfold Qc in Heq. lia.
    + assert (H1 := wn_pos _ _ H). assert (H2 := Wt_ge N (snd c) a x HS). lia.
    + assert (H1 := hn_pos _ _ H). assert (H2 := hsum_in _ b x Hb). lia.
    + assert (H1 := hn_pos _ _ H).
      assert (H2 := sumf_ge (fun k => hn (todo k) x) (tasks (fst c)) y (ntasks (fst c)) Hy). cbn beta in H2. unfold Ht in Heq. lia.
    + lia.
    + apply running_holds in H. apply (holds_live _ _ _ _ HI) in H. destruct H as [_ [Hl|[Hl|Hl]]]; congruence.
    + apply (holds_live _ _ _ _ HI) in H. destruct H as [_ [Hl|[Hl|Hl]]]; congruence.
Qed.

(* incarnation numbers of distinct objects are distinct, and below ninc: an incarnation is bound
   to at most one object at a time *)
Theorem sched_gid_inj sched ext x y :
  let g := fst (sched_run sched ext) in
  x < ntasks g -> y < ntasks g -> gid g x = gid g y -> x = y.
Proof. intros g. apply (l_inj _ (LogInv_reach sched ext)). Qed.

(* ------------------------------------------------------------------ C02 *)
(* no lost wake-up: in a stuck configuration (nothing can move; the pool has a worker) no task
   is suspended whose wake-up was issued for the phase in which it registered — wherever the
   waker found it: still active ("unlocked but word still active") or already suspended *)
Theorem no_lost_wakeup sched ext w :
  ext w = None ->
  let c := sched_run sched ext in
  stuck c ->
  forall u p, u < ntasks (fst c) -> wake (tasks (fst c) u) = Some p ->
    tw_of (fst c) u <> wS (p + 1) /\ tw_of (fst c) u <> wA p.
Proof.
  intros Hw c Hst u p Hu Hwk.
  assert (HI := SInv_reach sched ext). destruct (WInv_reach sched ext) as [HW _]. fold c in HI, HW.
  destruct (sched_no_drop sched ext w Hw Hst) as (Hp & Hs & Hall). fold c in Hp, Hs, Hall.
  assert (Hpcs := stuck_pcs (fst c) (snd c)). rewrite <- surjective_pairing in Hpcs. specialize (Hpcs Hst).
  assert (Hno : ~ needs_wake (fst c) u p).
  { intros Hn. destruct (HW u p Hu Hn) as [[a Ha]|[Hh|(h & Hh & Hd & Hr)]].
    - destruct (Hpcs a) as [E|E]; rewrite E in Ha; exact Ha.
    - rewrite Hs in Hh. exact Hh.
    - destruct (Hall h Hh) as [E|E], Hr as [Hr|Hr]; congruence. }
  split; intros E; apply Hno; split; auto.
Qed.

(* a wake-up produces at most one queue entry for its target: the agent that won the
   suspended->pending CAS holds the only handle until it has pushed it *)
Theorem wakeup_enqueues_once sched ext a u :
  let c := sched_run sched ext in
  enq_of (snd c a) = Some u ->
  ~ In u (pend (fst c)) /\ (forall b, holds (snd c b) u -> b = a) /\ NoDup (pend (fst c)) /\
  st (tw_of (fst c) u) = st_pending.
Proof.
  intros c He. assert (HI := SInv_reach sched ext). fold c in HI.
  assert (Hh : holds (snd c a) u) by (right; exact He).
  repeat split.
  - eapply (i_excl _ _ _ _ HI); eauto.
  - intros b Hb. eapply (i_uniq _ _ _ _ HI); eauto.
  - apply (i_nodup _ _ _ _ HI).
  - assert (Hpc := i_pc _ _ _ _ HI a). destruct Hpc as [_ Hs]. unfold enq_of in He.
    destruct (sub_of (snd c a)); try discriminate. inversion He; subst. cbn in Hs. tauto.
Qed.


(* ------------------------------------------------------------------ what the reference count does
   NOT cover: a waker inside set_thread_state holds a thread_id_type (no reference).  Threads
   0, 1, 2 are OS threads, 3 is a worker.  Thread 1 loads T0's word (suspended,2) and is delayed;
   thread 2 wakes T0, which terminates; its object is cleaned up, recycled for T1 (tag back to
   0), T1 runs and suspends: its word is (suspended,2) again, and thread 1's CAS — prepared for
   T0 — succeeds on T1. *)
Definition st_ext : nat -> option (list act) :=
  fun i => match i with
           | 0 => Some [Spawn [Suspend] true; Spawn [Suspend] true]
           | 1 => Some [Resume 0]
           | 2 => Some [Resume 0]
           | _ => None end.
Definition rep {A} (n : nat) (x : A) : list A := map (fun _ => x) (seq 0 n).
Definition st_sched1 : list (nat * oracle) :=
  [(0, oP)] ++ rep 7 (3, oP) ++ rep 3 (1, oP).
Definition st_sched2 : list (nat * oracle) :=
  rep 5 (2, oP) ++ rep 7 (3, oP) ++ [(3, oC); (0, oP)] ++ rep 7 (3, oP).

(* non-vacuity of recycling: object 0 runs two tasks (incarnations 0 and 1) *)
Definition rc_ext : nat -> option (list act) :=
  fun i => match i with 0 => Some [Spawn [Yield] true; Spawn [] true] | _ => None end.
Definition rc_sched : list (nat * oracle) :=
  [(0, oP)] ++ rep 16 (1, oP) ++ [(1, oC)].

Lemma waker_in_flight_stale_refuted :
  exists sched1 sched2 ext a x prev,
    let c1 := sched_run sched1 ext in
    let c2 := sched_run (sched1 ++ sched2) ext in
    let c3 := sched_run (sched1 ++ sched2 ++ [(a, oP)]) ext in
    (* the waker has loaded the word of incarnation 0 of object x *)
    sub_of (snd c1 a) = SCas x prev /\ gid (fst c1) x = 0 /\ tw_of (fst c1) x = prev /\
    (* it does not move while the object is recycled: incarnation 0 terminates, x is rebound *)
    (forall so, In so sched2 -> fst so <> a) /\
    In (SiteStore, {| st := st_active; tag := 4 |}, {| st := st_terminated; tag := 5 |}) (chain_of 0 (log (fst c2))) /\
    gid (fst c2) x = 1 /\ ntasks (fst c2) = 1 /\
    (* the new task has reached the same word (the tag restarted at 0) ... *)
    tw_of (fst c2) x = prev /\ ~ In (SiteSet, prev, w_pending prev) (chain_of 1 (log (fst c2))) /\
    (* ... so the CAS prepared for the old task succeeds on the new one, which is enqueued *)
    In (SiteSet, prev, w_pending prev) (chain_of 1 (log (fst c3))) /\
    sub_of (snd c3 a) = SEnq x.
Proof.
  exists st_sched1, st_sched2, st_ext, 1, 0, {| st := st_suspended; tag := 2 |}.
  cbv zeta.
  split; [vm_compute; reflexivity|]. split; [vm_compute; reflexivity|]. split; [vm_compute; reflexivity|].
  split.
  { intros so Hin. vm_compute in Hin. repeat (destruct Hin as [<-|Hin]; [discriminate|]). destruct Hin. }
  split; [vm_compute; tauto|]. split; [vm_compute; reflexivity|]. split; [vm_compute; reflexivity|].
  split; [vm_compute; reflexivity|].
  split; [vm_compute; intros [H|[H|[]]]; discriminate H|].
  split; [vm_compute; tauto | vm_compute; reflexivity].
Qed.
