(* Proofs/StopProgressProofs.v — progress of Model/StopState.v stated as safety of stuck states:
   in every reachable configuration in which no thread has a non-stutter step, every thread has
   finished its program (unless it sits at a reference-count step whose guard fails — the
   counts_fit side condition of the model).  In particular no request_stop caller is stuck in a
   lock spin and no ~stop_callback is stuck in the wait loop of remove_callback.

   Invariant PI (on top of Inv2): the lock holder sits at an unlock point; frame stacks are well
   formed; at most one thread is inside the destructor of a callback; a thread that found the
   callback "not queued" knows it was dequeued by request_stop; every dequeued callback is
   finished, or was destroyed from inside its own invocation, or is being processed by the
   un-returned winner; remflag / is_removed_ bookkeeping of the winner. *)
From Coq Require Import List NArith Bool Arith Lia.
From Pika Require Import Base.Conc Gen.GenStopBits Model.StopWord Model.StopState
  Proofs.StopFlagsProofs Proofs.StopStateProofs Proofs.StopCallbacksAbs Proofs.StopCallbacksProofs
  Proofs.StopProgressStep.
Import ListNotations.

(* ---------------- norm ---------------- *)
Lemma norm_cases l : norm l = l \/
  (pc l = Idle /\ exists c, (pc (norm l) = QEnd c \/ pc (norm l) = AEnd c) /\
                            exists fs, frames l = (match pc (norm l) with QEnd _ => KReq c | _ => KAdd c end, []) :: fs
                                       /\ frames (norm l) = fs).
Proof.
  unfold norm. destruct (pc l) eqn:E; try (left; reflexivity).
  destruct (frames l) as [|[[|c|c] [|o r]] fs] eqn:F; try (left; reflexivity); right; split; try reflexivity;
    exists c; cbn [pc frames set_frames]; eauto.
Qed.

Lemma rpc_norm l : rpc (pc (norm l)) = rpc (pc l).
Proof.
  destruct (norm_cases l) as [->|(E & c & [H|H] & _)]; [reflexivity| |]; rewrite H, E; reflexivity.
Qed.
Lemma norm_nonidle l : pc l <> Idle -> norm l = l.
Proof. destruct (norm_cases l) as [H|(E & _)]; [auto|congruence]. Qed.
Lemma inreq_norm c l : inreq c (norm l) -> inreq c l.
Proof.
  destruct (norm_cases l) as [->|(E & c' & _ & fs & F1 & F2)]; [auto|].
  unfold inreq. rewrite F1, F2. cbn. auto.
Qed.
Lemma inq_norm c l : inq c l -> inq c (norm l).
Proof.
  destruct (norm_cases l) as [->|(E & c' & Hp & fs & F1 & F2)]; [auto|].
  intros [H|H]; [congruence|]. unfold inq, inreq in *. rewrite F1 in H. rewrite F2. cbn in H.
  destruct H as [H|H]; [|now right]. left.
  destruct Hp as [Hp|Hp]; rewrite Hp in H |- *; congruence.
Qed.
Lemma qend_norm c l : pc (norm l) = QEnd c -> inq c l.
Proof.
  destruct (norm_cases l) as [->|(E & c' & Hp & fs & F1 & F2)]; [now left|].
  intros H. right. unfold inreq. rewrite F1, H. destruct Hp as [Hp|Hp]; rewrite H in Hp; inversion Hp.
  subst. cbn. now left.
Qed.
Lemma proc_norm l c : proc l c -> proc (norm l) c.
Proof.
  unfold proc. intros [H|[H|H]].
  - rewrite norm_nonidle; [now left|congruence].
  - rewrite norm_nonidle; [right; now left|congruence].
  - right. right. now apply inq_norm.
Qed.
Lemma RN_norm l g : RN (pc l) g -> RN (pc (norm l)) g.
Proof.
  destruct (norm_cases l) as [->|(E & c & [H|H] & _)]; [auto| |]; rewrite H; intros _; exact I.
Qed.
Lemma RN_nonR p g : rpc p = None -> RN p g.
Proof. destruct p; cbn; try discriminate; intros _; exact I. Qed.

Lemma inreq_nk c l : inreq c l -> 1 <= nk l.
Proof.
  unfold inreq, nk. induction (frames l) as [|[k ops] fs IH]; cbn; [tauto|].
  intros [H|H]; [subst k; cbn; lia|]. specialize (IH H). destruct (is_kreq (k, ops)); cbn; lia.
Qed.
Lemma inreq_unique c c' l : nk l <= 1 -> inreq c l -> inreq c' l -> c = c'.
Proof.
  unfold inreq, nk. induction (frames l) as [|[k ops] fs IH]; cbn; [tauto|].
  intros Hn [H|H] [H'|H'].
  - congruence.
  - subst k. cbn in Hn. assert (X := inreq_nk c' {| pc := Idle; frames := fs; htok := 0; hsrc := 0 |} H').
    unfold nk in X. cbn in X. lia.
  - subst k. cbn in Hn. assert (X := inreq_nk c {| pc := Idle; frames := fs; htok := 0; hsrc := 0 |} H).
    unfold nk in X. cbn in X. lia.
  - apply IH; try assumption. destruct (is_kreq (k, ops)); cbn in Hn; lia.
Qed.

(* ---------------- the invariant ---------------- *)
Definition PI (g : shared) (ls : nat -> local) : Prop :=
  (forall h, holder g = Some h -> holds (pc (ls h)) = true) /\
  (forall t, wf_frames (frames (ls t)) = true) /\
  (forall t c, rpc (pc (ls t)) = Some c ->
     cb_dtor (cb g c) = 1 /\ forall t', rpc (pc (ls t')) = Some c -> t' = t) /\
  (forall t, RN (pc (ls t)) g) /\
  (forall c, cb_deq (cb g c) = true ->
     cb_finished (cb g c) = true \/ cb_dtor (cb g c) = 2 \/
     exists w, winner g = Some w /\ winner_ret g = false /\ proc (ls w) c) /\
  (forall w c, winner g = Some w -> remflag g w = true -> inq c (ls w) ->
     cb_dtor (cb g c) = 2 \/ pc (ls w) = RRelease c) /\
  (forall c x, cb_isrem (cb g c) = Some x ->
     winner g = Some x /\ (inq c (ls x) \/ cb_dtor (cb g c) = 2)).

Lemma RN_mono p g g' :
  (forall c, cb_deq (cb g c) = true -> cb_deq (cb g' c) = true) ->
  (forall c, rpc p = Some c -> cb_queued (cb g c) = true ->
             cb_queued (cb g' c) = true \/ cb_deq (cb g' c) = true) ->
  RN p g -> RN p g'.
Proof.
  intros Hd Hq. destruct p; cbn [RN rpc] in *; try tauto;
    try (intros [H|H]; [apply (Hq _ eq_refl H)|right; now apply Hd]).
  - destruct removed; auto.
  - auto.
  - auto.
Qed.

Lemma PI_init w0 progs srcs : PI (st_init w0) (st_locals progs srcs).
Proof.
  unfold PI. cbn. repeat split; try discriminate; try reflexivity.
Qed.

Theorem PI_step P o t g ls : ids_faithful P -> Inv2 P g ls -> PI g ls ->
  PI (fst (st_tstep P o t g (ls t))) (upd ls t (snd (st_tstep P o t g (ls t)))).
Proof.
  intros Hid (HI & HG2 & HL2) (I1 & I2 & I3 & I4 & I5 & I6 & I7).
  destruct HI as [HG HL]. pose proof (LI_norm g t (ls t) (HL t)) as HLt.
  pose proof (S1 P o t g (ls t)) as F1. pose proof (S2 P o t g (ls t) (wf_norm _ (I2 t))) as F2.
  pose proof (S3 P o t g (ls t)) as F3. pose proof (S4 P o t g (ls t) HG HLt) as F4.
  pose proof (S5 P o t g (ls t)) as F5. pose proof (S6 P o t g (ls t)) as F6.
  pose proof (S8 P o t g (ls t) (RN_norm _ _ (I4 t))) as F8.
  unfold On in *.
  set (g' := fst (st_tstep P o t g (ls t))) in *. set (l' := snd (st_tstep P o t g (ls t))) in *.
  clearbody g' l'. set (l := norm (ls t)) in *.
  destruct F3 as (F3a & F3b & F3c & F3d & F3e & F3f). destruct F4 as (F4w & F4d).
  destruct F5 as (F5a & F5b & F5c & F5d & F5e & F5f & F5g). destruct F6 as (F6a & F6b & F6c).
  unfold LI, LI3 in HLt. fold l in HLt. destruct HLt as (Hh & Hq & Hs1 & Hsw & Hws).
  pose proof HG2 as (HND & HQ & HSG & HR4 & HR5 & HB1 & HB2 & HC).
  assert (Rl : rpc (pc l) = rpc (pc (ls t))) by apply rpc_norm.
  (* the winner's frame facts *)
  assert (Wreq : forall c, inreq c l -> winner g = Some t /\ winner_ret g = false).
  { intros c Hc. apply Hsw. pose proof (inreq_nk c l Hc). unfold sc in *. destruct (sigpc (pc l)); lia. }
  assert (Nk1 : nk l <= 1) by (unfold sc in Hs1; destruct (sigpc (pc l)); lia).
  (* winner is preserved *)
  assert (Wmono : forall w, winner g = Some w -> winner g' = Some w).
  { intros w Hw. destruct F4w as [[A _]|[(A & _)|(_ & A & _)]]; congruence. }
  (* part 3 first: it is used by the others *)
  assert (J3 : forall x c, rpc (pc (upd ls t l' x)) = Some c ->
     cb_dtor (cb g' c) = 1 /\ forall t', rpc (pc (upd ls t l' t')) = Some c -> t' = x).
  { intros x c. unfold upd at 1. destruct (Nat.eqb_spec x t) as [->|Hne]; intros Hx.
    - destruct (F3a c Hx) as [[A B]|(A & B & C & D & E & F)].
      + rewrite Rl in A. destruct (I3 t c A) as [D1 U]. split; [congruence|].
        intros t'. unfold upd. destruct (Nat.eqb_spec t' t); [auto|apply U].
      + split; [rewrite F; cbf; reflexivity|].
        intros t'. unfold upd. destruct (Nat.eqb_spec t' t); [auto|].
        intros Ht'. destruct (I3 t' c Ht'). congruence.
    - destruct (I3 x c Hx) as [D1 U]. split.
      + destruct (F3b c) as [A|[A|A]]; [congruence|congruence|].
        exfalso. apply Hne. symmetry. apply U. rewrite <- Rl, A. reflexivity.
      + intros t'. unfold upd. destruct (Nat.eqb_spec t' t) as [->|]; [|apply U].
        intros Ht. exfalso. destruct (F3a c Ht) as [[A B]|(A & B & _)]; [|congruence].
        rewrite Rl in A. apply Hne. symmetry. now apply U. }
  unfold PI. split; [|split; [|split; [exact J3|split; [|split; [|split]]]]].
  - (* the holder sits at an unlock point *)
    intros h Hh'. unfold upd. destruct (Nat.eqb_spec h t) as [->|Hne].
    + destruct F1 as [[A B]|[A [[B C]|[B C]]]]; [congruence| |exact C].
      exfalso. rewrite B in Hh'. specialize (I1 t Hh'). unfold l in A. rewrite norm_holds in A. congruence.
    + destruct F1 as [[A B]|[A [[B C]|[B C]]]]; [congruence| |congruence].
      apply I1. congruence.
  - intros x. unfold upd. destruct (Nat.eqb_spec x t); [exact F2|apply I2].
  - (* RN *)
    intros x. unfold upd. destruct (Nat.eqb_spec x t) as [->|Hne].
    + destruct (rpc (pc l)) eqn:Er.
      * apply F8. congruence.
      * destruct (rpc (pc l')) eqn:Er'; [|now apply RN_nonR].
        destruct (F3a n eq_refl) as [[A B]|(A & B & C & D & E & F)]; [congruence|].
        rewrite E. cbn [RN]. rewrite F. cbf.
        destruct (HC n) as (_ & _ & _ & _ & C5 & _). cbv zeta in C5.
        destruct (C5 C D) as [X|[X|X]]; [now left|now right|lia].
    + eapply RN_mono; [exact F3d| |apply I4].
      intros c Hc Hqc. destruct (F3e c Hqc) as [A|[A|A]]; [now left|now right|].
      exfalso. apply Hne. destruct (I3 x c Hc) as [_ U]. symmetry. apply U. now rewrite <- Rl.
  - (* dequeued callbacks *)
    intros c Hd. destruct (F4d c Hd) as [Hold|(A & B & C)].
    2:{ right. right. exists t. rewrite upd_same. repeat split; try assumption. now left. }
    destruct (I5 c Hold) as [X|[X|(w & W1 & W2 & W3)]]; [left; now apply F3f|right; left; now apply F3c|].
    destruct F4w as [[A B]|[(A & _)|(A & B & C)]]; [|congruence|].
    + destruct (Nat.eqb_spec w t) as [->|Hne].
      * apply proc_norm in W3. fold l in W3. destruct W3 as [W3|[W3|[W3|W3]]].
        -- right. right. exists t. rewrite upd_same. repeat split; try congruence.
           right. left. now apply F5d.
        -- right. right. exists t. rewrite upd_same. repeat split; try congruence.
           right. right. right. now apply F5e.
        -- destruct (F5f c W3) as [Y|Y]; [now left|]. right. left.
           destruct (I6 t c W1 Y (qend_norm _ _ W3)) as [Z|Z]; [now apply F3c|].
           exfalso. assert (norm (ls t) = ls t) by (apply norm_nonidle; congruence).
           unfold l in W3. congruence.
        -- right. right. exists t. rewrite upd_same. repeat split; try congruence.
           right. right. right. now apply F5b.
      * right. right. exists w. rewrite upd_other by assumption. repeat split; congruence.
    + exfalso. assert (Hwt : winner g = Some t).
      { apply Hsw. unfold sc. rewrite A. cbn [sigpc]. unfold sc in Hs1. rewrite A in Hs1. cbn [sigpc] in Hs1. lia. }
      assert (w = t) by congruence. subst w. apply proc_norm in W3. fold l in W3.
      destruct W3 as [W3|[W3|[W3|W3]]]; try congruence.
      pose proof (inreq_nk c l W3). unfold sc in Hs1. rewrite A in Hs1. cbn [sigpc] in Hs1. lia.
  - (* remflag of the winner *)
    intros w c Hw Hr Hinq. revert Hinq. unfold upd. destruct (Nat.eqb_spec w t) as [->|Hne]; intros Hinq.
    + destruct Hinq as [Hinq|Hinq]; [exfalso; exact (F5a c Hinq)|].
      destruct (F5c c Hinq) as [Hin|[_ X]]; [|congruence].
      destruct (Wreq c Hin) as [Hwt Hrt].
      destruct (F6a t Hr) as [Hro|(c' & A & B & C & D)].
      * destruct (I6 t c Hwt Hro (or_intror (inreq_norm _ _ Hin))) as [Z|Z]; [left; now apply F3c|].
        assert (El : l = ls t) by (apply norm_nonidle; congruence).
        destruct (F6c c) as [[_ X]|X]; [congruence| |now left]. right. congruence.
      * right. rewrite D. f_equal.
        destruct (I7 c' t C) as [_ [X|X]].
        -- apply inq_norm in X. fold l in X. destruct X as [X|X]; [congruence|].
           eapply inreq_unique; eassumption.
        -- assert (Hr' : rpc (pc (ls t)) = Some c') by (rewrite <- Rl, A; reflexivity).
           destruct (I3 t c' Hr'). lia.
    + assert (Hwg : winner g = Some w).
      { destruct F4w as [[A _]|[(_ & _ & A & _)|(_ & A & _)]]; congruence. }
      destruct (F6a w Hr) as [Hro|(c' & A & B & C & D)].
      * destruct (I6 w c Hwg Hro Hinq) as [Z|Z]; [left; now apply F3c|now right].
      * exfalso. apply Hne. pose proof (same_thread_winner P g t Hid HSG B). congruence.
  - (* is_removed_ *)
    intros c x Hx. destruct (F6b c x Hx) as [Hold|[A ->]].
    + destruct (I7 c x Hold) as [Hwx Hd]. split; [now apply Wmono|].
      destruct Hd as [Hd|Hd]; [|right; now apply F3c].
      unfold upd. destruct (Nat.eqb_spec x t) as [->|Hne]; [|now left].
      apply inq_norm in Hd. fold l in Hd. destruct Hd as [Hd|Hd].
      * destruct (F5g c Hd) as [Y|Y]; [congruence|]. right.
        destruct (I6 t c Hwx Y (qend_norm _ _ Hd)) as [Z|Z]; [now apply F3c|].
        exfalso. assert (norm (ls t) = ls t) by (apply norm_nonidle; congruence).
        unfold l in Hd. congruence.
      * left. right. now apply F5b.
    + assert (Hwt : winner g = Some t).
      { apply Hsw. unfold sc. rewrite A. cbn [sigpc]. unfold sc in Hs1. rewrite A in Hs1. cbn [sigpc] in Hs1. lia. }
      split; [now apply Wmono|]. left. rewrite upd_same. right. now apply F5e.
Qed.

Definition Inv3 (P : params) (g : shared) (ls : nat -> local) : Prop := Inv2 P g ls /\ PI g ls.

Theorem run_Inv3 P sched w0 progs srcs : ids_faithful P -> good_init w0 ->
  let c := st_run P sched w0 progs srcs in Inv3 P (fst c) (snd c).
Proof.
  intros Hid Hw. unfold st_run. apply (run_inv _ _ _ (st_tstep P) (Inv3 P)).
  - intros o t g ls [H2 H3]. split; [now apply step_inv2|now apply PI_step].
  - split; [now apply init_inv2|apply PI_init].
Qed.

(* ---------------- stuck configurations ---------------- *)
(* no thread has a step that changes anything, whatever the oracle answers *)
Definition stuck (P : params) (c : shared * (nat -> local)) : Prop :=
  forall t o, st_tstep P o t (fst c) (snd c t) = (fst c, snd c t).

Lemma stutter_class P g l0 t : st_tstep P false t g l0 = (g, l0) -> wf_frames (frames l0) = true ->
  thread_done l0 = true \/ (spinpc (pc l0) = true /\ w_is_locked (word g) = true) \/
  (exists c, pc l0 = RWait c /\ cb_finished (cb g c) = false) \/ wedged g l0 = true.
Proof.
  intros Hs Hwf. pose proof (S7 P t g l0) as F. unfold On in F. rewrite Hs in F. cbn [fst snd] in F.
  destruct F as [F1 F2].
  assert (E : norm l0 = l0).
  { destruct (norm_cases l0) as [E|(E & c & Hp & _)]; [exact E|]. exfalso. exact (F2 c Hp E). }
  rewrite E in F1. apply F1; try reflexivity; try assumption. rewrite <- E. apply norm_normal.
Qed.

Lemma stuck_unlocked P g ls : Inv g ls -> PI g ls -> stuck P (g, ls) -> w_is_locked (word g) = false.
Proof.
  intros [HG HL] (I1 & _) Hst. destruct HG as (_ & Hlk & _).
  destruct (holder g) as [h|] eqn:Hh; [|exact Hlk]. exfalso.
  pose proof (S1 P false h g (ls h)) as F. unfold On in F. pose proof (Hst h false) as E. cbn [fst snd] in E.
  rewrite E in F. cbn [fst snd] in F.
  rewrite norm_holds, (I1 h eq_refl) in F. destruct F as [[_ F]|[F _]]; congruence.
Qed.

Theorem stuck_all_done P g ls : ids_faithful P -> Inv3 P g ls -> stuck P (g, ls) ->
  (forall t, wedged g (ls t) = false) -> forall t, thread_done (ls t) = true.
Proof.
  intros Hid [(HI & HG2 & HL2) HP] Hst Hnw.
  pose proof (stuck_unlocked P g ls HI HP Hst) as Hul.
  pose proof HP as (I1 & I2 & I3 & I4 & I5 & I6 & I7).
  assert (Cl : forall t, thread_done (ls t) = true \/ exists c, pc (ls t) = RWait c /\ cb_finished (cb g c) = false).
  { intros t. destruct (stutter_class P g (ls t) t (Hst t false) (I2 t)) as [A|[[_ A]|[A|A]]];
      [now left|congruence|now right|]. rewrite Hnw in A. discriminate. }
  intros t. destruct (Cl t) as [A|(c & A & B)]; [exact A|exfalso].
  assert (Hr : rpc (pc (ls t)) = Some c) by (rewrite A; reflexivity).
  destruct (I3 t c Hr) as [Hd1 _]. pose proof (I4 t) as Hrn. rewrite A in Hrn. cbn [RN] in Hrn.
  destruct (I5 c Hrn) as [X|[X|(w & W1 & W2 & W3)]]; [congruence|lia|].
  destruct (Cl w) as [Dw|(c' & A' & _)].
  - unfold thread_done in Dw. destruct (pc (ls w)) eqn:Ep; try discriminate.
    destruct (frames (ls w)) as [|[[| |] [|]] [|]] eqn:Ef; try discriminate.
    destruct W3 as [W3|[W3|[W3|W3]]]; try congruence.
    unfold inreq in W3. rewrite Ef in W3. cbn in W3. destruct W3 as [W3|[]]. discriminate.
  - destruct (HL2 w) as (HA & _). rewrite A' in HA. cbn [PCA] in HA. destruct HA as [_ HA]. contradiction.
Qed.

(* progress as safety of stuck states *)
Theorem stop_calls_return P sched w0 progs srcs : ids_faithful P -> good_init w0 ->
  let c := st_run P sched w0 progs srcs in
  stuck P c -> (forall t, wedged (fst c) (snd c t) = false) ->
  forall t, thread_done (snd c t) = true.
Proof.
  intros Hid Hw. cbv zeta. intros Hst Hnw.
  pose proof (run_Inv3 P sched w0 progs srcs Hid Hw) as H3. cbv zeta in H3.
  destruct (st_run P sched w0 progs srcs) as [g ls]. cbn [fst snd] in *.
  now apply (stuck_all_done P g ls).
Qed.

(* in particular: a configuration in which some thread sits in a lock spin of request_stop /
   add_callback / remove_callback, or in the wait loop of remove_callback, is never stuck *)
Corollary no_blocked_call P sched w0 progs srcs : ids_faithful P -> good_init w0 ->
  let c := st_run P sched w0 progs srcs in
  (forall t, wedged (fst c) (snd c t) = false) ->
  forall t, (spinpc (pc (snd c t)) = true \/ exists k, pc (snd c t) = RWait k) -> ~ stuck P c.
Proof.
  intros Hid Hw. cbv zeta. intros Hnw t Hb Hst.
  pose proof (stop_calls_return P sched w0 progs srcs Hid Hw Hst Hnw t) as Hd. cbv zeta in Hd.
  unfold thread_done in Hd. destruct (pc (snd (st_run P sched w0 progs srcs) t)); try discriminate.
  destruct Hb as [Hb|[k Hb]]; discriminate.
Qed.
