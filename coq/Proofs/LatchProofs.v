(* Proofs/LatchProofs.v — pika::latch: nobody returns from wait / arrive_and_wait before the
   count has reached zero (under the agent contract: suspensions may return spuriously), and
   everybody returns once it has. *)
From Coq Require Import List ZArith NArith Bool Arith Lia.
From Pika Require Import Base.Conc Base.Agent Model.Latch.
Import ListNotations.
Local Open Scope Z_scope.

Definition pcneg (pc : lpc) : bool :=
  match pc with
  | LNotify true _ => true | LNotify _ true => true | LAwNotify => true | _ => false
  end.

Definition LSafe (g : latch) (ls : locals llocal) : Prop :=
  (notified g = true -> cnt g <= 0) /\
  (forall t, pcneg (lpcs (ls t)) = true -> cnt g <= 0) /\
  (forall t op v, In (LRet t op v) (llog g) -> v <= 0).

Lemma notify_one_facts g setn g' more : notify_one g setn = (g', more) ->
  cnt g' = cnt g /\ llog g' = llog g /\ notified g' = notified g || setn /\ lk g' = None /\
  ((q g = [] /\ q g' = [] /\ more = false /\ ag g' = ag g) \/
   (exists w rest, q g = w :: rest /\ q g' = rest /\
      more = (match rest with [] => false | _ => true end) /\
      ag g' = fun t' => if Nat.eqb t' w then a_resume (ag g w) else ag g t')).
Proof.
  unfold notify_one. destruct (q g) as [|w rest] eqn:Hq; intros H; inversion H; subst; cbn.
  - repeat split. left. repeat split.
  - repeat split. right. exists w, rest. repeat split.
Qed.

Ltac tcase t0 t :=
  destruct (Nat.eq_dec t0 t) as [->|?Hne]; [rewrite ?upd_same in *|rewrite ?upd_other in * by assumption].

Lemma LSafe_step o t g (ls : locals llocal) : LSafe g ls ->
  LSafe (fst (latch_tstep true o t g (ls t))) (upd ls t (snd (latch_tstep true o t g (ls t)))).
Proof.
  intros [H1 [H2 H3]]. pose proof (H2 t) as H2t. unfold latch_tstep.
  assert (Hkeep : forall g' l', cnt g' <= cnt g -> (notified g' = true -> cnt g' <= 0) ->
            (pcneg (lpcs l') = true -> cnt g' <= 0) ->
            (forall t0 op v, In (LRet t0 op v) (llog g') -> v <= 0) -> LSafe g' (upd ls t l')).
  { intros g' l' Hc Hn Hp Hl. split; [exact Hn|split; [|exact Hl]].
    intros t0 H0. tcase t0 t; [auto|]. specialize (H2 _ H0). lia. }
  assert (N0 : forall n : N, 0 <= Z.of_N n) by (intros; lia).
  destruct o; cbn [fst snd].
  2:{ apply Hkeep; cbn; auto; lia. }
  destruct (lpcs (ls t)) as [|first aw| | | |] eqn:Hpc.
  - destruct (lprog (ls t)) as [|[n| |n|] rest] eqn:Hprog; cbn [fst snd].
    + apply Hkeep; auto; try lia. rewrite Hpc. discriminate.
    + pose proof (N0 n).
      destruct (cnt g - Z.of_N n =? 0) eqn:Hz; cbn [fst snd]; apply Hkeep; cbn; try lia; auto; try discriminate;
        try (intros Hn; specialize (H1 Hn); lia); try (intros _; apply Z.eqb_eq in Hz; lia).
    + destruct (locked g); cbn [fst snd]; [apply Hkeep; auto; try lia; rewrite Hpc; discriminate|].
      destruct (must_wait g) eqn:Hm; cbn [fst snd]; apply Hkeep; cbn; try lia; auto; try discriminate.
      intros t0 op v [H0|H0]; [|eauto]. inversion H0; subst.
      unfold must_wait in Hm. apply orb_false_iff in Hm. destruct Hm as [Hm _]. apply Z.ltb_ge in Hm. exact Hm.
    + pose proof (N0 n).
      destruct (locked g); cbn [fst snd]; [apply Hkeep; auto; try lia; rewrite Hpc; discriminate|].
      destruct (Z.of_N n <? cnt g) eqn:Hlt; cbn [fst snd]; apply Hkeep; cbn; try lia; auto; try discriminate;
        try (intros Hn; specialize (H1 Hn); lia); try (intros _; apply Z.ltb_ge in Hlt; lia).
    + apply Hkeep; cbn; try lia; auto; try discriminate.
      intros t0 op v [H0|H0]; [discriminate|eauto].
  - destruct (locked g); cbn [fst snd]; [apply Hkeep; auto; try lia; rewrite Hpc; exact H2t|].
    destruct (notify_one g first) as [g' more] eqn:Hno.
    destruct (notify_one_facts _ _ _ _ Hno) as [Hc [Hl [Hn _]]].
    assert (Hnn : notified g' = true -> cnt g' <= 0).
    { rewrite Hn, Hc. intros Hx. apply orb_true_iff in Hx. destruct Hx as [Hx|Hx]; [auto|].
      subst first. apply H2t. reflexivity. }
    assert (Hll : forall t0 op v, In (LRet t0 op v) (llog g') -> v <= 0) by (rewrite Hl; exact H3).
    unfold after_notify. destruct more; cbn [fst snd]; [|destruct aw; cbn [fst snd]]; apply Hkeep; cbn; try lia; auto; try discriminate.
    + intros Hx. rewrite Hc. apply H2t. destruct first, aw; try discriminate; reflexivity.
    + intros t0 op v [H0|H0]; [|eauto]. inversion H0; subst. rewrite Hc. apply H2t.
      destruct first; reflexivity.
  - destruct (notify_one g false) as [g' more] eqn:Hno.
    destruct (notify_one_facts _ _ _ _ Hno) as [Hc [Hl [Hn _]]].
    assert (Hnn : notified g' = true -> cnt g' <= 0).
    { rewrite Hn, Hc, orb_false_r. exact H1. }
    assert (Hll : forall t0 op v, In (LRet t0 op v) (llog g') -> v <= 0) by (rewrite Hl; exact H3).
    specialize (H2t eq_refl).
    unfold after_notify. destruct more; cbn [fst snd]; apply Hkeep; cbn; try lia; auto; try discriminate.
    intros t0 op v [H0|H0]; [|eauto]. inversion H0; subst. lia.
  - destruct (a_suspend (ag g t)) as [a r]. cbn [fst snd]. apply Hkeep; cbn; try lia; auto.
    destruct r; discriminate.
  - destruct (blocked (ag g t)); cbn [fst snd]; apply Hkeep; cbn; try lia; auto; try discriminate.
    rewrite Hpc. discriminate.
  - destruct (locked g); cbn [fst snd]; [apply Hkeep; auto; try lia; rewrite Hpc; discriminate|].
    match goal with |- context [if ?c then _ else _] => destruct c eqn:Hm end; cbn [fst snd];
      apply Hkeep; cbn; try lia; auto; try discriminate.
    intros t0 op v [H0|H0]; [|eauto]. inversion H0; subst.
    cbn [andb] in Hm. unfold must_wait in Hm.
    cbn in Hm. apply orb_false_iff in Hm. destruct Hm as [Hm _]. apply Z.ltb_ge in Hm. exact Hm.
Qed.

Lemma latch_inv sched count progs : 0 <= count ->
  LSafe (fst (latch_run true sched count progs)) (snd (latch_run true sched count progs)).
Proof.
  intros Hc. unfold latch_run. apply (run_inv _ _ _ (latch_tstep true) LSafe).
  - intros o t g ls H. apply LSafe_step. exact H.
  - cbn. repeat split.
    + destruct count; cbn; intros; try lia; discriminate.
    + intros t H. discriminate.
    + intros t op v [].
Qed.

Lemma latch_no_early_return sched count progs : 0 <= count ->
  forall t op v, In (LRet t op v) (llog (fst (latch_run true sched count progs))) -> v <= 0.
Proof. intros Hc. apply (latch_inv sched count progs Hc). Qed.

(* the counter never increases (so "v <= 0 at the return" means the count had reached zero) *)
Lemma latch_cnt_mono f o t g l : cnt (fst (latch_tstep f o t g l)) <= cnt g.
Proof.
  assert (N0 : forall n : N, 0 <= Z.of_N n) by (intros; lia).
  unfold latch_tstep. destruct o; [|cbn; lia].
  destruct (lpcs l) as [|first aw| | | |].
  - destruct (lprog l) as [|[n| |n|] rest]; cbn [fst]; try lia.
    + pose proof (N0 n). destruct (cnt g - Z.of_N n =? 0); cbn; lia.
    + destruct (locked g); cbn [fst]; [lia|]. destruct (must_wait g); cbn; lia.
    + pose proof (N0 n). destruct (locked g); cbn [fst]; [lia|]. destruct (Z.of_N n <? cnt g); cbn; lia.
    + cbn. lia.
  - destruct (locked g); cbn [fst]; [lia|]. destruct (notify_one g first) as [g' more] eqn:Hno.
    destruct (notify_one_facts _ _ _ _ Hno) as [Hc _]. unfold after_notify.
    destruct more; [|destruct aw]; cbn; lia.
  - destruct (notify_one g false) as [g' more] eqn:Hno.
    destruct (notify_one_facts _ _ _ _ Hno) as [Hc _]. unfold after_notify. destruct more; cbn; lia.
  - destruct (a_suspend (ag g t)). cbn. lia.
  - destruct (blocked (ag g t)); cbn; lia.
  - destruct (locked g); cbn [fst]; [lia|].
    match goal with |- context [if ?c then _ else _] => destruct c end; cbn; lia.
Qed.

(* F12 on the ORIGINAL code (wait suspends once, no re-check): a stale resume issued to the
   waiter before it suspends makes latch::wait return while the count is still 1 *)
Lemma latch_single_early_return :
  exists sched progs, In (LRet 0%nat LWait 1) (llog (fst (latch_run false sched 1 progs))).
Proof.
  exists [(0%nat, OSpur); (0%nat, ONorm); (0%nat, ONorm); (0%nat, ONorm)],
         (fun t => match t with 0%nat => [LWait] | _ => [] end).
  vm_compute. left. reflexivity.
Qed.

(* ---------- progress: once the count is zero every waiter returns ---------- *)
Definition is_notif (pc : lpc) : bool :=
  match pc with LNotify _ _ => true | LAwNotify => true | _ => false end.

Record LLive (g : latch) (ls : locals llocal) : Prop := {
  v_own1 : forall t, lk g = Some t -> lpcs (ls t) = LAwNotify;
  v_own2 : forall t, lpcs (ls t) = LAwNotify -> lk g = Some t;
  v_blk : forall t, blocked (ag g t) = true -> lpcs (ls t) = LBlk /\ In t (q g);
  v_susp : forall t, lpcs (ls t) = LSusp -> In t (q g) \/ tok (ag g t) = true;
  v_pend : q g <> [] -> notified g = true -> exists t, is_notif (lpcs (ls t)) = true;
  v_hit : cnt g = 0 -> notified g = true \/ exists t aw, lpcs (ls t) = LNotify true aw }.

Lemma remove_tid_other t t0 l : t0 <> t -> In t0 l -> In t0 (remove_tid t l).
Proof.
  induction l as [|x l IH]; intros Hne H; [destruct H|]. cbn [remove_tid].
  destruct (Nat.eqb x t) eqn:Hx.
  - apply Nat.eqb_eq in Hx. destruct H as [->|H]; [congruence|exact H].
  - destruct H as [->|H]; [left; reflexivity|right; auto].
Qed.

Lemma locked_false g : locked g = false -> lk g = None.
Proof. unfold locked. destruct (lk g); [discriminate|reflexivity]. Qed.

Lemma LLive_same g ls t : LLive g ls -> LLive g (upd ls t (ls t)).
Proof.
  intros L. assert (Hq : forall t0, upd ls t (ls t) t0 = ls t0).
  { intros t0. destruct (Nat.eq_dec t0 t) as [->|Hne]; [apply upd_same|apply upd_other; exact Hne]. }
  destruct L as [A B C D E F]. split; intros; rewrite ?Hq in *; auto.
  - destruct (E H H0) as [t0 H1]. exists t0. rewrite Hq. exact H1.
  - destruct (F H) as [H1|[t0 [aw H1]]]; [left; exact H1|right; exists t0, aw; rewrite Hq; exact H1].
Qed.

(* what a notify_one by thread t does to the invariant; the caller fixes t's own new pc *)
Lemma LLive_notify g ls t setn g' more l' :
  LSafe g ls -> LLive g ls -> notify_one g setn = (g', more) ->
  (lk g = None \/ lk g = Some t) -> is_notif (lpcs (ls t)) = true ->
  (setn = true -> cnt g <= 0) ->
  lpcs l' <> LAwNotify -> lpcs l' <> LSusp -> lpcs l' <> LBlk ->
  (more = true -> is_notif (lpcs l') = true) ->
  (lpcs l' = LNotify true false \/ lpcs l' = LNotify true true -> False) ->
  (cnt g = 0 -> setn = true \/ notified g = true \/ exists t0 aw, t0 <> t /\ lpcs (ls t0) = LNotify true aw) ->
  LLive g' (upd ls t l').
Proof.
  intros S L Hno Hlk Hme Hsetn Hn1 Hn2 Hn3 Hmore Hnf Hhit.
  destruct (notify_one_facts _ _ _ _ Hno) as [Hc [Hl [Hn [Hk Hq]]]].
  destruct L as [A1 A2 B C D E].
  assert (Hpcme : lpcs (ls t) <> LSusp /\ lpcs (ls t) <> LBlk).
  { destruct (lpcs (ls t)); try discriminate; split; discriminate. }
  split.
  - intros t0. rewrite Hk. discriminate.
  - intros t0 H0. exfalso. tcase t0 t; [auto|]. specialize (A2 _ H0).
    destruct Hlk as [Hx|Hx]; rewrite Hx in A2; [discriminate|]. inversion A2. congruence.
  - intros t0 H0. destruct Hq as [[Hq1 [Hq2 [_ Hag]]]|[w [rest [Hq1 [Hq2 [_ Hag]]]]]].
    + rewrite Hag in H0. destruct (B _ H0) as [_ Hin]. rewrite Hq1 in Hin. destruct Hin.
    + rewrite Hag in H0. destruct (Nat.eqb t0 w) eqn:Hw; [cbn in H0; discriminate|].
      apply Nat.eqb_neq in Hw. destruct (B _ H0) as [Hp Hin].
      assert (t0 <> t) by (intros ->; destruct Hpcme; congruence).
      rewrite upd_other by assumption. split; [exact Hp|]. rewrite Hq2. rewrite Hq1 in Hin.
      destruct Hin as [Hin|Hin]; [congruence|exact Hin].
  - intros t0 H0. tcase t0 t; [congruence|]. destruct (C _ H0) as [Hin|Htok].
    + destruct Hq as [[Hq1 _]|[w [rest [Hq1 [Hq2 [_ Hag]]]]]]; [rewrite Hq1 in Hin; destruct Hin|].
      rewrite Hag, Hq2. rewrite Hq1 in Hin. destruct (Nat.eqb t0 w) eqn:Hw.
      * apply Nat.eqb_eq in Hw. subst w. right. cbn.
        destruct (blocked (ag g t0)) eqn:Hb; [|reflexivity]. destruct (B _ Hb) as [Hp _]. congruence.
      * apply Nat.eqb_neq in Hw. destruct Hin as [Hin|Hin]; [congruence|left; exact Hin].
    + destruct Hq as [[_ [_ [_ Hag]]]|[w [rest [_ [_ [_ Hag]]]]]]; rewrite Hag; [right; exact Htok|].
      destruct (Nat.eqb t0 w) eqn:Hw; [|right; exact Htok].
      apply Nat.eqb_eq in Hw. subst w. right. cbn.
      destruct (blocked (ag g t0)) eqn:Hb; [|reflexivity]. destruct (B _ Hb) as [Hp _]. congruence.
  - intros Hne _. exists t. rewrite upd_same. apply Hmore.
    destruct Hq as [[_ [Hq2 _]]|[w [rest [_ [Hq2 [Hm _]]]]]]; [congruence|].
    rewrite Hm. rewrite Hq2 in Hne. destruct rest; [congruence|reflexivity].
  - rewrite Hc, Hn. intros H0. destruct (Hhit H0) as [->|[Hx|[t0 [aw [Hne Hx]]]]].
    + left. apply orb_true_r.
    + left. rewrite Hx. reflexivity.
    + right. exists t0, aw. rewrite upd_other by exact Hne. exact Hx.
Qed.

Lemma LLive_simple g g' ls t l' :
  LSafe g ls -> LLive g ls ->
  lk g' = lk g -> notified g' = notified g ->
  (forall t0, t0 <> t -> ag g' t0 = ag g t0) ->
  (forall t0, t0 <> t -> In t0 (q g) -> In t0 (q g')) ->
  (q g = [] -> q g' <> [] -> notified g = false) ->
  is_notif (lpcs (ls t)) = false ->
  lpcs l' <> LAwNotify ->
  (blocked (ag g' t) = true -> lpcs l' = LBlk /\ In t (q g')) ->
  (lpcs l' = LSusp -> In t (q g') \/ tok (ag g' t) = true) ->
  (cnt g' = 0 -> cnt g = 0 \/ notified g' = true \/ exists aw, lpcs l' = LNotify true aw) ->
  LLive g' (upd ls t l').
Proof.
  intros S L Hk Hn Hag Hq Hqe Hme Hn1 Hb Hs Hh. destruct L as [A1 A2 B C D E].
  assert (Hnot : forall t0, is_notif (lpcs (ls t0)) = true -> t0 <> t) by (intros t0 H0 ->; congruence).
  split.
  - intros t0 H0. rewrite Hk in H0. pose proof (A1 _ H0) as H1.
    assert (t0 <> t) by (apply Hnot; rewrite H1; reflexivity). rewrite upd_other by assumption. exact H1.
  - intros t0 H0. tcase t0 t; [congruence|]. rewrite Hk. apply A2. exact H0.
  - intros t0 H0. tcase t0 t; [apply Hb; exact H0|]. rewrite Hag in H0 by assumption.
    destruct (B _ H0) as [H1 H2]. split; [exact H1|apply Hq; assumption].
  - intros t0 H0. tcase t0 t; [apply Hs; exact H0|]. rewrite Hag by assumption.
    destruct (C _ H0) as [H1|H1]; [left; apply Hq; assumption|right; exact H1].
  - intros Hne Hnt. rewrite Hn in Hnt. destruct (q g) as [|x r] eqn:Hqg.
    + rewrite (Hqe eq_refl Hne) in Hnt. discriminate.
    + destruct (D ltac:(discriminate) Hnt) as [t0 H0]. exists t0.
      rewrite upd_other by (apply Hnot; exact H0). exact H0.
  - intros H0. destruct (Hh H0) as [H1|[H1|[aw H1]]].
    + destruct (E H1) as [H2|[t0 [aw H2]]]; [left; rewrite Hn; exact H2|].
      right. exists t0, aw. rewrite upd_other; [exact H2|]. apply Hnot. rewrite H2. reflexivity.
    + left. exact H1.
    + right. exists t, aw. rewrite upd_same. exact H1.
Qed.

Lemma LLive_step o t g (ls : locals llocal) : LSafe g ls -> LLive g ls ->
  LLive (fst (latch_tstep true o t g (ls t))) (upd ls t (snd (latch_tstep true o t g (ls t)))).
Proof.
  intros S L. pose proof S as [S1 [S2 S3]]. unfold latch_tstep.
  assert (N0 : forall n : N, 0 <= Z.of_N n) by (intros; lia).
  destruct o; cbn [fst snd].
  2:{ (* a stale resume from the environment *)
      destruct (is_notif (lpcs (ls t))) eqn:Hme.
      - (* t is a notifier: not blocked, never suspends; only its token changes *)
        destruct L as [A1 A2 B C D E].
        assert (Hq : forall t0, upd ls t (ls t) t0 = ls t0).
        { intros t0. tcase t0 t; reflexivity. }
        split; cbn; intros; rewrite ?Hq in *; auto.
        + destruct (Nat.eqb t0 t) eqn:Ht; [cbn in H; discriminate|]. apply B. exact H.
        + destruct (Nat.eqb t0 t) eqn:Ht; [apply Nat.eqb_eq in Ht; subst; rewrite H in Hme; discriminate|].
          apply C. exact H.
        + destruct (D H H0) as [t0 H1]. exists t0. rewrite Hq. exact H1.
        + destruct (E H) as [H1|[t0 [aw H1]]]; [left; exact H1|right; exists t0, aw; rewrite Hq; exact H1].
      - apply (LLive_simple g _ ls t (ls t) S L); cbn; auto.
        + intros t0 Hne. apply Nat.eqb_neq in Hne. rewrite Hne. reflexivity.
        + intros H. congruence.
        + intros H. rewrite H in Hme. discriminate.
        + rewrite Nat.eqb_refl. cbn. discriminate.
        + intros H. rewrite Nat.eqb_refl. cbn. right.
          destruct (blocked (ag g t)) eqn:Hb; [|reflexivity]. destruct (v_blk _ _ L _ Hb). congruence. }
  destruct (lpcs (ls t)) as [|first aw| | | |] eqn:Hpc.
  - destruct (lprog (ls t)) as [|[n| |n|] rest] eqn:Hprog; cbn [fst snd].
    + apply LLive_same. exact L.
    + (* count_down: counter_ -= n *)
      destruct (cnt g - Z.of_N n =? 0) eqn:Hz; cbn [fst snd];
        apply (LLive_simple g _ ls t _ S L); cbn; auto; try (rewrite Hpc; reflexivity); try discriminate;
        try (intros Hb; destruct (v_blk _ _ L _ Hb); congruence); try congruence.
      * intros _. right. right. exists false. reflexivity.
      * intros H. apply Z.eqb_neq in Hz. congruence.
    + destruct (locked g) eqn:Hlk; cbn [fst snd]; [apply LLive_same; exact L|]. apply locked_false in Hlk.
      destruct (must_wait g) eqn:Hm; cbn [fst snd];
        apply (LLive_simple g _ ls t _ S L); cbn; auto; try (rewrite Hpc; reflexivity); try discriminate;
        try (intros Hb; destruct (v_blk _ _ L _ Hb); congruence); try congruence.
      * intros t0 _ H. apply in_or_app. left. exact H.
      * intros _ _. unfold must_wait in Hm. destruct (notified g) eqn:Hn; [|reflexivity].
        specialize (S1 eq_refl). apply orb_true_iff in Hm. destruct Hm as [Hm|Hm]; [apply Z.ltb_lt in Hm; lia|discriminate].
      * intros _. left. apply in_or_app. right. left. reflexivity.
    + pose proof (N0 n). destruct (locked g) eqn:Hlk; cbn [fst snd]; [apply LLive_same; exact L|]. apply locked_false in Hlk.
      destruct (Z.of_N n <? cnt g) eqn:Hlt; cbn [fst snd].
      * apply (LLive_simple g _ ls t _ S L); cbn; auto; try (rewrite Hpc; reflexivity); try discriminate;
          try (intros Hb; destruct (v_blk _ _ L _ Hb); congruence); try congruence.
        -- intros t0 _ H0. apply in_or_app. left. exact H0.
        -- intros _ _. destruct (notified g) eqn:Hn; [|reflexivity]. specialize (S1 eq_refl).
           apply Z.ltb_lt in Hlt. lia.
        -- intros _. left. apply in_or_app. right. left. reflexivity.
        -- intros H0. apply Z.ltb_lt in Hlt. lia.
      * (* the last arriver: notified_ = true, keeps the lock *)
        destruct L as [A1 A2 B C D E]. split; cbn.
        -- intros t0 H0. inversion H0; subst. rewrite upd_same. reflexivity.
        -- intros t0 H0. tcase t0 t; [reflexivity|]. specialize (A2 _ H0). congruence.
        -- intros t0 H0. destruct (B _ H0) as [H1 H2]. tcase t0 t; [congruence|]. split; assumption.
        -- intros t0 H0. tcase t0 t; [discriminate|]. apply C. exact H0.
        -- intros _ _. exists t. rewrite upd_same. reflexivity.
        -- intros _. left. reflexivity.
    + apply (LLive_simple g _ ls t _ S L); cbn; auto; try (rewrite Hpc; reflexivity); try discriminate;
        try (intros Hb; destruct (v_blk _ _ L _ Hb); congruence); try congruence.
  - (* NOTIFY *)
    destruct (locked g) eqn:Hlk; cbn [fst snd]; [apply LLive_same; exact L|]. apply locked_false in Hlk.
    destruct (notify_one g first) as [g' more] eqn:Hno.
    assert (Hfirst : first = true -> cnt g <= 0) by (intros ->; apply (S2 t); rewrite Hpc; reflexivity).
    unfold after_notify. destruct more; cbn [fst snd]; [|destruct aw; cbn [fst snd]].
    + apply (LLive_notify g ls t first g' true _ S L Hno); cbn; auto; try discriminate; try (rewrite Hpc; reflexivity).
      * intros [H|H]; discriminate.
      * intros H0. destruct (v_hit _ _ L H0) as [H1|[t0 [aw0 H1]]]; [auto|].
        tcase t0 t; [|right; right; exists t0, aw0; split; assumption].
        rewrite Hpc in H1. inversion H1; subst. left. reflexivity.
    + assert (HL : LLive g' (upd ls t (done_op (ls t)))).
      { apply (LLive_notify g ls t first g' false _ S L Hno); cbn; auto; try discriminate; try (rewrite Hpc; reflexivity).
        * intros [H|H]; discriminate.
        * intros H0. destruct (v_hit _ _ L H0) as [H1|[t0 [aw0 H1]]]; [auto|].
          tcase t0 t; [|right; right; exists t0, aw0; split; assumption].
          rewrite Hpc in H1. inversion H1; subst. left. reflexivity. }
      destruct HL as [A1 A2 B C D E]. split; assumption.
    + apply (LLive_notify g ls t first g' false _ S L Hno); cbn; auto; try discriminate; try (rewrite Hpc; reflexivity).
      * intros [H|H]; discriminate.
      * intros H0. destruct (v_hit _ _ L H0) as [H1|[t0 [aw0 H1]]]; [auto|].
        tcase t0 t; [|right; right; exists t0, aw0; split; assumption].
        rewrite Hpc in H1. inversion H1; subst. left. reflexivity.
  - (* AWN: the last arriver's notify_one, lock held *)
    destruct (notify_one g false) as [g' more] eqn:Hno.
    pose proof (v_own2 _ _ L _ Hpc) as Hown.
    unfold after_notify. destruct more; cbn [fst snd].
    + apply (LLive_notify g ls t false g' true _ S L Hno); cbn; auto; try discriminate; try (rewrite Hpc; reflexivity).
      * intros [H|H]; discriminate.
      * intros H0. destruct (v_hit _ _ L H0) as [H1|[t0 [aw0 H1]]]; [auto|].
        right. right. exists t0, aw0. split; [|exact H1]. intros ->. congruence.
    + assert (HL : LLive g' (upd ls t (done_op (ls t)))).
      { apply (LLive_notify g ls t false g' false _ S L Hno); cbn; auto; try discriminate; try (rewrite Hpc; reflexivity).
        * intros [H|H]; discriminate.
        * intros H0. destruct (v_hit _ _ L H0) as [H1|[t0 [aw0 H1]]]; [auto|].
          right. right. exists t0, aw0. split; [|exact H1]. intros ->. congruence. }
      destruct HL as [A1 A2 B C D E]. split; assumption.
  - (* SUSP *)
    destruct (a_suspend (ag g t)) as [a r] eqn:Hsus. cbn [fst snd].
    unfold a_suspend in Hsus.
    apply (LLive_simple g _ ls t _ S L); cbn; auto; try (rewrite Hpc; reflexivity).
    + intros t0 Hne. apply Nat.eqb_neq in Hne. rewrite Hne. reflexivity.
    + intros H. congruence.
    + destruct r; discriminate.
    + rewrite Nat.eqb_refl. intros Hb. destruct (tok (ag g t)) eqn:Htok; inversion Hsus; subst; cbn in Hb; [discriminate|].
      split; [reflexivity|]. destruct (v_susp _ _ L _ Hpc) as [H|H]; [exact H|congruence].
    + destruct r; discriminate.
  - (* BLK *)
    destruct (blocked (ag g t)) eqn:Hb; cbn [fst snd]; [apply LLive_same; exact L|].
    apply (LLive_simple g _ ls t _ S L); cbn; auto; try (rewrite Hpc; reflexivity); try discriminate; try congruence.
  - (* REWAIT *)
    destruct (locked g) eqn:Hlk; cbn [fst snd]; [apply LLive_same; exact L|]. apply locked_false in Hlk.
    assert (Hnb : blocked (ag g t) = false).
    { destruct (blocked (ag g t)) eqn:Hb; [|reflexivity]. destruct (v_blk _ _ L _ Hb). congruence. }
    match goal with |- context [if ?c then _ else _] => destruct c eqn:Hm end; cbn [fst snd];
      apply (LLive_simple g _ ls t _ S L); cbn; auto; try (rewrite Hpc; reflexivity); try discriminate; try congruence.
    + intros t0 Hne H0. apply in_or_app. left. apply remove_tid_other; assumption.
    + intros _ _. cbn [andb] in Hm. unfold must_wait in Hm. cbn in Hm. destruct (notified g) eqn:Hn; [|reflexivity].
      specialize (S1 eq_refl). apply orb_true_iff in Hm. destruct Hm as [Hm|Hm]; [apply Z.ltb_lt in Hm; lia|discriminate].
    + intros _. left. apply in_or_app. right. left. reflexivity.
    + intros t0 Hne H0. apply remove_tid_other; assumption.
    + intros Hq Hne. rewrite Hq in Hne. cbn in Hne. congruence.
Qed.

Lemma latch_live_inv sched count progs : 0 <= count ->
  let c := latch_run true sched count progs in LSafe (fst c) (snd c) /\ LLive (fst c) (snd c).
Proof.
  intros Hc. unfold latch_run.
  apply (run_inv _ _ _ (latch_tstep true) (fun g ls => LSafe g ls /\ LLive g ls)).
  - intros o t g ls [S L]. split; [apply LSafe_step; exact S|apply LLive_step; assumption].
  - split.
    + cbn. repeat split.
      * destruct count; cbn; intros; try lia; discriminate.
      * intros t H. discriminate.
      * intros t op v [].
    + split; cbn; try discriminate; try (intros; contradiction); try congruence.
      intros H. left. subst count. reflexivity.
Qed.

(* once the count is zero, in every state in which no thread can take a step, every thread has
   finished its program: no waiter is left blocked (and none is about to block) *)
Lemma latch_all_return sched count progs : 0 <= count ->
  let c := latch_run true sched count progs in
  cnt (fst c) = 0 -> (forall t, l_enabled (fst c) t (snd c t) = false) ->
  forall t, lprog (snd c t) = [] /\ lpcs (snd c t) = LIdle.
Proof.
  intros Hc c H0 Hst. destruct (latch_live_inv sched count progs Hc) as [S L]. fold c in S, L.
  assert (Hlk : locked (fst c) = false).
  { unfold locked. destruct (lk (fst c)) as [t0|] eqn:Hk; [|reflexivity].
    pose proof (v_own1 _ _ L _ Hk) as H1. specialize (Hst t0). unfold l_enabled in Hst. rewrite H1 in Hst. discriminate. }
  assert (Hn : notified (fst c) = true).
  { destruct (v_hit _ _ L H0) as [H1|[t0 [aw H1]]]; [exact H1|].
    specialize (Hst t0). unfold l_enabled in Hst. rewrite H1, Hlk in Hst. discriminate. }
  assert (Hq : q (fst c) = []).
  { destruct (q (fst c)) as [|x r] eqn:Hq; [reflexivity|].
    destruct (v_pend _ _ L) as [t0 H1]; [rewrite Hq; discriminate|exact Hn|].
    specialize (Hst t0). unfold l_enabled in Hst.
    destruct (lpcs (snd c t0)); try discriminate; rewrite ?Hlk in Hst; discriminate. }
  intros t. specialize (Hst t). unfold l_enabled in Hst.
  destruct (lpcs (snd c t)) eqn:Hpc; rewrite ?Hlk in Hst; try discriminate.
  - destruct (lprog (snd c t)) as [|[n| |n|] r]; try discriminate; try (rewrite Hlk in Hst; discriminate).
    split; reflexivity.
  - apply negb_false_iff in Hst. destruct (v_blk _ _ L _ Hst) as [_ Hin]. rewrite Hq in Hin. destruct Hin.
Qed.

(* ---------- lock ownership across steps (justifies the lock-step granularity) ----------
   The spinlock is held ACROSS model steps only by an arrive_and_wait last arriver between its two
   steps AW0 and AWN; everywhere else a critical section is one step.  The lock-step harness
   therefore schedules that section as one entry (hook 917 before the lock) and the driver replays
   AW0, AWN back to back. *)
Lemma latch_lock_owner sched count progs : 0 <= count ->
  let c := latch_run true sched count progs in
  forall t, lk (fst c) = Some t <-> lpcs (snd c t) = LAwNotify.
Proof.
  intros Hc c t. destruct (latch_live_inv sched count progs Hc) as [_ L]. fold c in L.
  split; [apply (v_own1 _ _ L)|apply (v_own2 _ _ L)].
Qed.

Lemma latch_aw_section_releases f t g l : lpcs l = LAwNotify ->
  lk (fst (latch_tstep f ONorm t g l)) = None /\ lpcs (snd (latch_tstep f ONorm t g l)) <> LAwNotify.
Proof.
  intros H. unfold latch_tstep. rewrite H.
  destruct (notify_one g false) as [g' more] eqn:Hn.
  destruct (notify_one_facts _ _ _ _ Hn) as [_ [_ [_ [Hk _]]]].
  unfold after_notify. destruct more; cbn [fst snd at_pc done_op llog_add lk lpcs]; split; auto; discriminate.
Qed.
