(* C16 - the guarded result theorem for the store/read pair (add_entry = expand_only, then get_entry = expand):
   expand_only keeps `$[other.key]`, so its result is not inert; but it PRESERVES the guard on the text (no
   backslash, no '$' directly followed by '$', '}' or ']'), hence the following expand (Proofs/
   ConfigExpandTermProofs.v: expand_result_no_placeholder) ends with an inert text.
   The extra fact needed when an expanded default is put in front of the text behind the placeholder: an
   expansion result ends with '$' only if the expanded text did ([ends_dollar]). *)
From Coq Require Import String Ascii List NArith Bool Lia.
From Pika Require Import Gen.GenIni Model.Config Proofs.ConfigExpandProofs Proofs.ConfigExpandTermProofs.
Import ListNotations.
Open Scope string_scope.

Fixpoint ends_dollar (s : string) : bool :=
  match s with
  | EmptyString => false
  | String c r => match r with EmptyString => aeqb c c_dollar | _ => ends_dollar r end
  end.

Lemma ed_cons c r : r <> EmptyString -> ends_dollar (String c r) = ends_dollar r.
Proof. destruct r; [congruence|reflexivity]. Qed.
Lemma ed_app : forall a b, b <> EmptyString -> ends_dollar (a ++ b) = ends_dollar b.
Proof.
  induction a as [|c a IH]; intros b Hb; [reflexivity|]. cbn [append]. rewrite ed_cons; [now apply IH|].
  destruct a; cbn [append]; [exact Hb|discriminate].
Qed.
Lemma ed_nodollar : forall v, contains c_dollar v = false -> ends_dollar v = false.
Proof.
  induction v as [|c r IH]; intros H; [reflexivity|]. cbn [contains] in H. apply orb_false_iff in H.
  destruct H as [H1 H2]. destruct r as [|d r'].
  - cbn [ends_dollar]. now rewrite aeqb_sym.
  - rewrite ed_cons by discriminate. now apply IH.
Qed.

Lemma dnext_ed c : c = c_rbrace \/ c = c_rbrack -> forall a z,
  dnext_ok (a ++ String c z) = true -> ends_dollar a = false.
Proof.
  intros Hc. induction a as [|e a IH]; intros z H; [reflexivity|].
  cbn [append] in H. rewrite dnext_cons in H. apply andb_true_iff in H. destruct H as [H1 H2].
  destruct a as [|e2 a2].
  - cbn [ends_dollar]. destruct (aeqb e c_dollar); [|reflexivity]. exfalso. cbn [append] in H1.
    destruct Hc; subst c; cbv in H1; discriminate H1.
  - rewrite ed_cons by discriminate. exact (IH z H2).
Qed.

Lemma dnext_app : forall a b, dnext_ok a = true -> dnext_ok b = true -> ends_dollar a = false ->
  dnext_ok (a ++ b) = true.
Proof.
  induction a as [|e a IH]; intros b Ha Hb He; [exact Hb|].
  cbn [append]. rewrite dnext_cons in *. apply andb_true_iff in Ha. destruct Ha as [Ha1 Ha2].
  destruct a as [|e2 a2].
  - cbn [ends_dollar] in He. rewrite He. cbn [append andb]. exact Hb.
  - rewrite ed_cons in He by discriminate. rewrite (IH b Ha2 Hb He), andb_true_r.
    destruct (aeqb e c_dollar); [exact Ha1|reflexivity].
Qed.

Lemma dnext_prefix : forall a b, dnext_ok (a ++ b) = true -> dnext_ok a = true.
Proof.
  induction a as [|e a IH]; intros b H; [reflexivity|]. cbn [append] in H. rewrite dnext_cons in *.
  apply andb_true_iff in H. destruct H as [H1 H2]. rewrite (IH _ H2), andb_true_r.
  destruct (aeqb e c_dollar); [|reflexivity]. destruct a; [reflexivity|exact H1].
Qed.

Lemma dnext_cut c : c = c_rbrace \/ c = c_rbrack -> forall m after,
  dnext_ok (m ++ String c after) = true -> dnext_ok (m ++ after) = true.
Proof.
  intros Hc. assert (Hcd : aeqb c c_dollar = false) by (destruct Hc; subst c; reflexivity).
  induction m as [|e m IH]; intros after Hd.
  - cbn [append] in *. rewrite dnext_cons, Hcd in Hd. cbn [andb] in Hd. exact Hd.
  - cbn [append] in *. rewrite dnext_cons in *. apply andb_true_iff in Hd. destruct Hd as [Hd1 Hd2].
    rewrite (IH after Hd2), andb_true_r. destruct (aeqb e c_dollar); [|reflexivity].
    destruct m as [|b m'].
    + exfalso. cbn [append] in Hd1. destruct Hc; subst c; cbv in Hd1; discriminate Hd1.
    + exact Hd1.
Qed.

(* the guard on texts (ConfigExpandTermProofs.guard) under cutting and pasting *)
Lemma guard_suffix a b : guard (a ++ b) -> guard b.
Proof.
  intros [H1 H2]. split; [exact (each_suffix _ _ _ H1)|]. rewrite contains_app in H2. apply orb_false_iff in H2. tauto.
Qed.
Lemma guard_prefix a b : guard (a ++ b) -> guard a.
Proof.
  intros [H1 H2]. split; [exact (dnext_prefix _ _ H1)|]. rewrite contains_app in H2. apply orb_false_iff in H2. tauto.
Qed.
Lemma guard_tail c r : guard (String c r) -> guard r.
Proof. apply (guard_suffix (String c EmptyString) r). Qed.
Lemma guard_plain v : contains c_dollar v = false -> contains c_bs v = false -> guard v.
Proof. intros H1 H2. split; [now apply each_no_dollar|exact H2]. Qed.
Lemma guard_empty : guard EmptyString.
Proof. split; reflexivity. Qed.

(* X is put where `inside ++ c` stood *)
Lemma subst_guard c inside after X : c = c_rbrace \/ c = c_rbrack ->
  guard (inside ++ String c after) -> guard X -> ends_dollar X = false ->
  guard (X ++ after) /\
  (ends_dollar (X ++ after) = true -> ends_dollar (inside ++ String c after) = true).
Proof.
  intros Hc Gr [Xd Xb] Xe. pose proof (guard_tail _ _ (guard_suffix _ _ Gr)) as [Ad Ab]. split.
  - split; [now apply dnext_app|]. rewrite contains_app, Xb, Ab. reflexivity.
  - destruct after as [|a0 a'].
    + rewrite app_empty_r. congruence.
    + rewrite ed_app by discriminate. intros H. rewrite ed_app by discriminate.
      rewrite ed_cons by discriminate. exact H.
Qed.

Section ReadResult.
  Variable env : list (string * string).
  Variable look : string -> option string.
  Hypothesis Henv : forall k v, getenv env k = Some v -> contains c_dollar v = false /\ contains c_bs v = false.
  Hypothesis Hlook : forall k v, look k = Some v -> contains c_dollar v = false /\ contains c_bs v = false.

  Definition keeps (E : string -> xres) : Prop :=
    forall t r, guard t -> E t = XOk r -> guard r /\ (ends_dollar r = true -> ends_dollar t = true).
  Definition heads (E : string -> xres) : Prop :=
    (forall x, E EmptyString = XOk x -> x = EmptyString) /\
    (forall b t x, aeqb b c_dollar = false -> E (String b t) = XOk x -> exists x', x = String b x').

  Lemma rescan_guard Erec u w : keeps Erec -> heads Erec -> guard u -> rescan_tail Erec u = XOk w ->
    guard w /\ (ends_dollar w = true -> ends_dollar u = true).
  Proof.
    intros HK [H0 HH] Gu E. destruct u as [|a u1]; [cbn in E; injection E as <-; split; [exact Gu|tauto]|].
    cbn [rescan_tail] in E. unfold xmap in E. destruct (Erec u1) as [x|] eqn:Ex; [|discriminate E].
    cbn [xbind] in E. injection E as <-.
    destruct Gu as [Gd Gb]. rewrite dnext_cons in Gd. apply andb_true_iff in Gd. destruct Gd as [Gh Gt].
    cbn [contains] in Gb. apply orb_false_iff in Gb. destruct Gb as [Gb1 Gb2].
    destruct (HK u1 x (conj Gt Gb2) Ex) as [[Xd Xb] Xe].
    assert (HX : aeqb a c_dollar = true -> dnext_head_ok x = true /\ (x = EmptyString -> u1 = EmptyString)).
    { intros Ea. rewrite Ea in Gh. destruct u1 as [|b1 t1].
      - rewrite (H0 x Ex). split; reflexivity.
      - assert (Hb1 : aeqb b1 c_dollar = false).
        { unfold dnext_head_ok in Gh. apply negb_true_iff in Gh. apply orb_false_iff in Gh. destruct Gh as [Gh _].
          apply orb_false_iff in Gh. tauto. }
        destruct (HH b1 t1 x Hb1 Ex) as [x' ->]. split; [exact Gh|discriminate]. }
    split.
    - split; [|cbn [contains]; now rewrite Gb1, Xb]. rewrite dnext_cons, Xd, andb_true_r.
      destruct (aeqb a c_dollar) eqn:Ea; [|reflexivity]. exact (proj1 (HX eq_refl)).
    - intros Hed. destruct x as [|x0 x'].
      + cbn [ends_dollar] in Hed. destruct (HX Hed) as [_ Hu]. rewrite (Hu eq_refl). cbn [ends_dollar]. exact Hed.
      + rewrite ed_cons in Hed by discriminate. specialize (Xe Hed). rewrite ed_cons; [exact Xe|].
        intros ->. discriminate Xe.
  Qed.

  Lemma step_guard only Eall Erec b t' u : keeps Eall -> keeps Erec ->
    dnext_head_ok (String b t') = true -> guard (String b t') ->
    step env look only Eall Erec (String b t') = XOk u ->
    guard u /\ (ends_dollar u = true -> ends_dollar (String b t') = true).
  Proof.
    intros KA KR Gh Gbt Eu. pose proof Gbt as [Gd Gb].
    pose proof (guard_tail _ _ Gbt) as Gt'.
    assert (Bbs : aeqb c_bs b = false) by (cbn [contains] in Gb; apply orb_false_iff in Gb; tauto).
    assert (G1 : aeqb b c_dollar = false).
    { unfold dnext_head_ok in Gh. apply negb_true_iff in Gh. apply orb_false_iff in Gh. destruct Gh as [Gh' _].
      apply orb_false_iff in Gh'. tauto. }
    assert (LIFT : ends_dollar t' = true -> ends_dollar (String b t') = true).
    { intros H. rewrite ed_cons; [exact H|]. intros ->. discriminate H. }
    (* the '$' stays, followed by b and a text r that stands for t' *)
    assert (OPEN : forall r, guard r -> (ends_dollar r = true -> ends_dollar t' = true) ->
              guard (String c_dollar (String b r)) /\
              (ends_dollar (String c_dollar (String b r)) = true -> ends_dollar (String b t') = true)).
    { intros r [Rd Rb] Re. split.
      - split; [|cbn [contains]; rewrite Rb, Bbs; reflexivity].
        rewrite !dnext_cons, aeqb_refl, G1, Rd. change (dnext_head_ok (String b r)) with (dnext_head_ok (String b t')).
        rewrite Gh. reflexivity.
      - intros H. rewrite ed_cons in H by discriminate. destruct r as [|r0 r'].
        + cbn [ends_dollar] in H. congruence.
        + rewrite ed_cons in H by discriminate. exact (LIFT (Re H)). }
    (* the placeholder is replaced by X *)
    assert (PUT : forall c inside after X, c = c_rbrace \/ c = c_rbrack ->
              guard (inside ++ String c after) ->
              (ends_dollar (inside ++ String c after) = true -> ends_dollar t' = true) ->
              guard X -> ends_dollar X = false ->
              guard (X ++ after) /\ (ends_dollar (X ++ after) = true -> ends_dollar (String b t') = true)).
    { intros c inside after X Hc Gr Re GX EX. destruct (subst_guard c inside after X Hc Gr GX EX) as [A B].
      split; [exact A|]. intros H. exact (LIFT (Re (B H))). }
    (* the default behind the first colon of inside *)
    assert (DFLT : forall c name dflt after, c = c_rbrace \/ c = c_rbrack ->
              guard ((name ++ String c_colon dflt) ++ String c after) -> guard dflt /\ ends_dollar dflt = false).
    { intros c name dflt after Hc G. rewrite app_assoc_s in G. apply guard_suffix in G.
      change (String c_colon dflt ++ String c after) with (String c_colon EmptyString ++ (dflt ++ String c after)) in G.
      apply guard_suffix in G. split; [exact (guard_prefix _ _ G)|]. destruct G as [G _]. exact (dnext_ed c Hc _ _ G). }
    unfold step in Eu. destruct (aeqb b c_lbrack) eqn:Ek.
    - unfold bracket_body in Eu. destruct (Erec t') as [r|] eqn:Er; [|discriminate Eu]. cbn [xbind] in Eu. cbv zeta in Eu.
      destruct (KR t' r Gt' Er) as [Gr Re]. pose proof Gr as [Rd Rb].
      destruct (find_next_nobs c_rbrack r Rb) as [[Hno Ef]|[inside [after [-> [Hin Ef]]]]]; rewrite Ef in Eu.
      + injection Eu as <-. apply aeqb_eq in Ek. subst b. exact (OPEN r Gr Re).
      + assert (KEEP : guard (String c_dollar (String c_lbrack (inside ++ String c_rbrack after))) /\
                       (ends_dollar (String c_dollar (String c_lbrack (inside ++ String c_rbrack after))) = true ->
                        ends_dollar (String b t') = true)).
        { apply aeqb_eq in Ek. subst b. exact (OPEN _ Gr Re). }
        assert (Binside : contains c_bs inside = false).
        { rewrite contains_app in Rb. apply orb_false_iff in Rb. tauto. }
        assert (GE : forall name dflt u', guard dflt -> ends_dollar dflt = false ->
                   xmap (fun v => v ++ after) (get_entry look Eall name dflt) = XOk u' ->
                   guard u' /\ (ends_dollar u' = true -> ends_dollar (String b t') = true)).
        { intros name dflt u' Gdf Edf Eg. unfold get_entry, xmap in Eg.
          destruct (Eall (match look name with Some v => v | None => dflt end)) as [x|] eqn:Ea; [|discriminate Eg].
          cbn [xbind] in Eg. injection Eg as <-.
          assert (Harg : guard (match look name with Some v => v | None => dflt end) /\
                         ends_dollar (match look name with Some v => v | None => dflt end) = false).
          { destruct (look name) as [v|] eqn:El; [|tauto]. destruct (Hlook _ _ El) as [V1 V2].
            split; [now apply guard_plain|now apply ed_nodollar]. }
          destruct Harg as [Ga Ea0]. destruct (KA _ x Ga Ea) as [Gx Ex].
          apply (PUT c_rbrack inside after x); [now right|exact Gr|exact Re|exact Gx|].
          destruct (ends_dollar x); [|reflexivity]. rewrite (Ex eq_refl) in Ea0. discriminate Ea0. }
        unfold split_colon in Eu.
        destruct (find_next_nobs c_colon inside Binside) as [[Hnc Ec]|[name [dflt [-> [Hnm Ec]]]]]; rewrite Ec in Eu.
        * destruct (mine only inside); [|injection Eu as <-; exact KEEP].
          exact (GE inside EmptyString u guard_empty eq_refl Eu).
        * destruct (mine only name); [|injection Eu as <-; exact KEEP].
          destruct (DFLT c_rbrack name dflt after (or_intror eq_refl) Gr) as [Gdf Edf].
          exact (GE name dflt u Gdf Edf Eu).
    - destruct (aeqb b c_lbrace) eqn:Eb.
      + unfold brace_body in Eu. destruct (Erec t') as [r|] eqn:Er; [|discriminate Eu]. cbn [xbind] in Eu.
        destruct (KR t' r Gt' Er) as [Gr Re]. pose proof Gr as [Rd Rb].
        destruct (find_next_nobs c_rbrace r Rb) as [[Hno Ef]|[inside [after [-> [Hin Ef]]]]]; rewrite Ef in Eu.
        * injection Eu as <-. apply aeqb_eq in Eb. subst b. exact (OPEN r Gr Re).
        * assert (Binside : contains c_bs inside = false).
          { rewrite contains_app in Rb. apply orb_false_iff in Rb. tauto. }
          unfold split_colon in Eu.
          destruct (find_next_nobs c_colon inside Binside) as [[Hnc Ec]|[name [dflt [-> [Hnm Ec]]]]]; rewrite Ec in Eu;
            injection Eu as <-.
          -- apply (PUT c_rbrace inside after); [now left|exact Gr|exact Re| |].
             ++ destruct (getenv env inside) as [v|] eqn:Eg; [|exact guard_empty].
                destruct (Henv _ _ Eg). now apply guard_plain.
             ++ destruct (getenv env inside) as [v|] eqn:Eg; [|reflexivity].
                destruct (Henv _ _ Eg). now apply ed_nodollar.
          -- destruct (DFLT c_rbrace name dflt after (or_introl eq_refl) Gr) as [Gdf Edf].
             apply (PUT c_rbrace (name ++ String c_colon dflt) after); [now left|exact Gr|exact Re| |].
             ++ destruct (getenv env name) as [v|] eqn:Eg; [|exact Gdf].
                destruct (Henv _ _ Eg). now apply guard_plain.
             ++ destruct (getenv env name) as [v|] eqn:Eg; [|exact Edf].
                destruct (Henv _ _ Eg). now apply ed_nodollar.
      + injection Eu as <-. split.
        * split; [|cbn [contains]; cbn [contains] in Gb; rewrite Gb; reflexivity].
          rewrite dnext_cons, aeqb_refl, Gh, Gd. reflexivity.
        * intros H. rewrite ed_cons in H by discriminate. exact H.
  Qed.

  Lemma scan_guard only Eall Erec : keeps Eall -> keeps Erec -> heads Erec ->
    keeps (scan env look only Eall Erec).
  Proof.
    intros KA KR HH s res Gs E. pose proof Gs as [Gd Gb]. unfold scan in E.
    destruct (split_at c_dollar s) as [[pre t]|] eqn:Es.
    2:{ injection E as <-. split; [exact Gs|tauto]. }
    destruct t as [|b t']; [injection E as <-; split; [exact Gs|tauto]|].
    destruct (split_at_some _ _ _ _ Es) as [-> Hpre].
    assert (Hpb : contains c_bs pre = false).
    { rewrite contains_app in Gb. apply orb_false_iff in Gb. tauto. }
    pose proof (guard_suffix _ _ Gs) as Gdt. pose proof Gdt as [Gd' _].
    rewrite dnext_cons, aeqb_refl in Gd'. apply andb_true_iff in Gd'. destruct Gd' as [Gh _].
    pose proof (guard_tail _ _ Gdt) as Gbt.
    unfold xmap in E. destruct (at_dollar env look only Eall Erec (String b t')) as [w|] eqn:Ew; [|discriminate E].
    cbn [xbind] in E. injection E as <-.
    unfold at_dollar in Ew. destruct (step env look only Eall Erec (String b t')) as [u|] eqn:Eu; [|discriminate Ew].
    cbn [xbind] in Ew.
    destruct (step_guard only Eall Erec b t' u KA KR Gh Gbt Eu) as [Gu Eu'].
    destruct (rescan_guard Erec u w KR HH Gu Ew) as [[Wd Wb] Ew'].
    split.
    - split; [|rewrite contains_app, Hpb, Wb; reflexivity].
      unfold dnext_ok. rewrite each_nodollar_app by exact Hpre. exact Wd.
    - intros H. rewrite ed_app by discriminate. rewrite ed_cons by discriminate. apply Eu', Ew'.
      destruct w as [|w0 w'].
      + rewrite app_empty_r in H. rewrite (ed_nodollar _ Hpre) in H. discriminate H.
      + rewrite ed_app in H by discriminate. exact H.
  Qed.

  Lemma scan_heads only Eall Erec : heads (scan env look only Eall Erec).
  Proof.
    split.
    - intros x E. cbn in E. now injection E.
    - intros b t x Hb E. eapply scan_head; eassumption.
  Qed.

  Lemma xp_all_keeps : forall fuel, keeps (xp_all env look fuel).
  Proof.
    induction fuel as [|f IH]; [intros t r _ E; discriminate E|].
    intros t r G E. rewrite xp_all_S in E. revert t r G E. apply scan_guard; [exact IH|exact IH|].
    destruct f as [|f']; [split; [intros x E|intros b t x _ E]; discriminate E|]. apply scan_heads.
  Qed.
  Lemma xp_only_keeps k : forall fuel, keeps (xp_only env look fuel k).
  Proof.
    induction fuel as [|f IH]; [intros t r _ E; discriminate E|].
    intros t r G E. rewrite xp_only_S in E. revert t r G E. apply scan_guard; [apply xp_all_keeps|exact IH|].
    destruct f as [|f']; [split; [intros x E|intros b t x _ E]; discriminate E|]. apply scan_heads.
  Qed.
End ReadResult.

(* add_entry then get_entry under the guards: ends with an inert text *)
Theorem read_result_no_placeholder env look :
  env_values_plain env = true -> look_values_plain look ->
  forall k s, text_guard s = true -> dollars s < xfuel ->
    (exists r1, stored_x env look k s = XOk r1 /\ text_guard r1 = true /\ dollars r1 <= dollars s) /\
    exists r, read_x env look k s = XOk r /\
      inert r = true /\ closed_placeholder r = false /\ contains c_bs r = false /\ dollars r <= dollars s /\
      (forall fuel' k', dollars r < fuel' ->
         xp_all env look fuel' r = XOk r /\ xp_only env look fuel' k' r = XOk r).
Proof.
  intros He Hl k s Hg Hs.
  pose proof (env_values_plain_getenv env He) as Henv.
  assert (Hlook : forall k v, look k = Some v -> contains c_dollar v = false /\ contains c_bs v = false).
  { intros k' v E. specialize (Hl _ _ E). unfold val_plain in Hl. apply andb_true_iff in Hl.
    destruct Hl as [A B]. apply negb_true_iff in A, B. tauto. }
  assert (Hl' : look_no_dollar look) by (intros k' v E; exact (proj1 (Hlook _ _ E))).
  destruct (expand_terminates_plain_values env look (env_values_plain_no_dollar _ He) Hl' xfuel k s Hs)
    as [_ [[r1 [E1 D1]] _]].
  pose proof Hg as Hg'. unfold text_guard in Hg'. apply andb_true_iff in Hg'. destruct Hg' as [G1 G2].
  apply negb_true_iff in G2.
  destruct (xp_only_keeps env look Henv Hlook k xfuel s r1 (conj G1 G2) E1) as [[R1 R2] _].
  assert (Hg1 : text_guard r1 = true) by (unfold text_guard; now rewrite R1, R2).
  split; [exists r1; unfold stored_x; split; [exact E1|split; [exact Hg1|exact D1]]|].
  destruct (expand_result_no_placeholder env look He Hl xfuel r1 Hg1) as [r [E [A [B [C [D F]]]]]]; [lia|].
  exists r. unfold read_x, stored_x. rewrite E1. cbn [xbind]. split; [exact E|].
  split; [exact A|split; [exact B|split; [exact C|split; [lia|exact F]]]].
Qed.
