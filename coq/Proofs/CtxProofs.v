(* Proofs/CtxProofs.v — C12: lemmas about the regenerated context-switch routine.
   The proofs are symbolic executions of Gen/GenSwapctx.swapcontext on an arbitrary machine
   state; they are re-run whenever the translator writes a different instruction list. *)
From Coq Require Import ZArith List Bool Lia.
From Pika Require Import Model.CtxSyntax Gen.GenSwapctx Model.Ctx.
Import ListNotations.
Local Open Scope Z_scope.

Lemma wrap_small : forall x, 0 <= x < W -> wrap x = x.
Proof. intros x H. unfold wrap. apply Z.mod_small. exact H. Qed.
Lemma aligned8_true : forall a, a mod 8 = 0 -> aligned8 a = true.
Proof. intros a H. unfold aligned8. rewrite H. reflexivity. Qed.
Lemma updm_same : forall m a v a', a' = a -> updm m a v a' = v.
Proof. intros. unfold updm. subst. rewrite Z.eqb_refl. reflexivity. Qed.
Lemma updm_other : forall m a v a', a' <> a -> updm m a v a' = m a'.
Proof.
  intros. unfold updm. destruct (a' =? a) eqn:E; [apply Z.eqb_eq in E; contradiction|reflexivity].
Qed.

Definition plain (i : instr) : bool :=
  match i with JmpReg _ | Ret | Ud2 => false | _ => true end.
Lemma exec_step : forall i l s s',
  plain i = true -> step i s = Some s' -> exec (i :: l) s = exec l s'.
Proof.
  intros i l s s' Hp Hs.
  destruct i; cbn [plain] in Hp; try discriminate; cbn [exec]; rewrite Hs; reflexivity.
Qed.

Ltac arith := unfold W; lia.                                   (* linear address arithmetic *)
Ltac arith_mod := Z.div_mod_to_equations; lia.                  (* alignment side conditions *)
Ltac red_state := cbn [regs mem mxcsr fpcw setr setm reg_eqb reg_idx Z.eqb Pos.eqb].
Ltac norm :=
  repeat match goal with
  | |- context[wrap ?x] => rewrite (wrap_small x) by arith
  | |- context[aligned8 ?x] => rewrite (aligned8_true x) by arith_mod
  end.
Ltac mem_norm :=
  repeat match goal with
  | |- context[updm ?m ?a ?v ?b] =>
      first [rewrite (updm_same m a v b) by arith | rewrite (updm_other m a v b) by arith]
  end.
(* one non-control instruction; [tac] normalises the values the instruction loads *)
Ltac step_with tac :=
  erewrite exec_step; [ | reflexivity | unfold step; red_state; norm; tac; reflexivity ]; red_state.
Ltac step_one := step_with idtac.

Lemma swap_roundtrip_l : forall (s0 : state) (retA hi : Z),
  caller_ok s0 hi ->
  exists t1 s1, switch retA s0 = Jump t1 s1 /\
    let saved := mem s1 (regs s0 RDI) in
    regs s0 RSP - room <= saved < regs s0 RSP /\ saved mod 8 = 0 /\
    forall (s2 : state) (retX hi2 : Z),
      caller_ok s2 hi2 ->
      regs s2 RSI = saved ->
      (forall a, saved <= a < hi -> mem s2 a = mem s1 a) ->
      (regs s2 RSP <= saved \/ hi <= regs s2 RSP - room) ->
      (regs s2 RDI < saved \/ hi <= regs s2 RDI) ->
      exists s3, switch retX s2 = Jump retA s3 /\
        regs s3 RSP = regs s0 RSP /\
        (forall q, In q callee_saved -> regs s3 q = regs s0 q) /\
        (forall a, regs s0 RSP <= a < hi -> mem s3 a = mem s0 a) /\
        mxcsr s3 = mxcsr s2 /\ fpcw s3 = fpcw s2.
Proof.
  intros [rg m mx cw] retA hi Hc. unfold caller_ok, room, W in *. cbn [regs] in Hc.
  destruct Hc as (H1 & H2 & H3 & H4 & H5 & H6 & H7 & H8 & H9).
  eexists. eexists. split.
  { unfold switch, swapcontext, switch_with, call. red_state. norm.
    repeat step_one. cbn [exec]. red_state. reflexivity. }
  red_state. mem_norm. split; [lia|]. split; [arith_mod|].
  intros [rg2 m2 mx2 cw2] retX hi2 Hc2 HRSI Hag Hd1 Hd2. cbn [regs mem] in *.
  destruct Hc2 as (G1 & G2 & G3 & G4 & G5 & G6 & G7 & G8 & G9).
  unfold switch, swapcontext, switch_with, call. red_state. norm.
  rewrite ?HRSI.
  repeat step_with ltac:(rewrite ?HRSI; mem_norm;
                         repeat match goal with
                                | |- context[m2 ?a] => rewrite (Hag a) by arith
                                end; mem_norm).
  cbn [exec]. red_state.
  eexists. split; [reflexivity|]. red_state.
  split; [lia|].
  split.
  { intros q Hq. cbn [callee_saved In] in Hq.
    repeat (destruct Hq as [<-|Hq]; [reflexivity|]). contradiction. }
  split; [|split; reflexivity].
  intros a Ha. mem_norm. rewrite (Hag a) by arith. mem_norm. reflexivity.
Qed.

(* the routine writes only below the caller's stack pointer and into the cell [&from.m_sp] *)
Lemma switch_writes_only_l : forall (s : state) (ret hi t : Z) (s' : state),
  caller_ok s hi -> switch ret s = Jump t s' ->
  forall a, ~ (regs s RSP - room <= a < regs s RSP) -> a <> regs s RDI -> mem s' a = mem s a.
Proof.
  intros [rg m mx cw] ret hi t s' Hc Hsw a Ha1 Ha2. unfold caller_ok, room, W in *. cbn [regs mem] in *.
  destruct Hc as (H1 & H2 & H3 & H4 & H5 & H6 & H7 & H8 & H9).
  unfold switch, swapcontext, switch_with, call in Hsw. revert Hsw. red_state. norm.
  repeat step_one. cbn [exec]. red_state. intros Hsw. inversion Hsw; subst. red_state.
  mem_norm. reflexivity.
Qed.

(* ---- first entry into a frame built by init() / rebind_stack() ---- *)
Lemma first_entry_l : forall (s : state) (ret hi stack size this funp : Z) (m0 : Z -> Z),
  caller_ok s hi ->
  0 <= stack -> stack mod 16 = 0 -> size mod 16 = 0 -> 8 * context_size <= size -> stack + size < W ->
  mem s = init_frame stack size this funp m0 ->
  regs s RSI = frame_sp stack size ->
  (regs s RSP <= frame_sp stack size \/ stack + size <= regs s RSP - room) ->
  (regs s RDI < frame_sp stack size \/ stack + size <= regs s RDI) ->
  exists s', switch ret s = Jump funp s' /\
    regs s' RDI = this /\
    regs s' RSP = frame_sp stack size + 8 * (funp_idx + 1) /\
    (regs s' RSP + 8) mod 16 = 0 /\
    stack <= regs s' RSP /\ regs s' RSP + 8 <= stack + size /\
    mem s' (regs s RDI) = regs s RSP - 72 /\
    mxcsr s' = mxcsr s /\ fpcw s' = fpcw s.
Proof.
  intros [rg m mx cw] ret hi stack size this funp m0 Hc Hs0 Hs16 Hz16 Hsz Htop Hm HRSI Hd1 Hd2.
  unfold caller_ok, room, W in *. cbn [regs mem mxcsr fpcw] in *.
  destruct Hc as (H1 & H2 & H3 & H4 & H5 & H6 & H7 & H8 & H9).
  subst m. unfold init_frame, frame_sp, context_size, cb_idx, funp_idx in *.
  assert (Hsz8 : 8 * (size / 8) = size) by arith_mod.
  rewrite Hsz8 in *.
  unfold switch, swapcontext, switch_with, call. red_state. norm.
  rewrite ?HRSI.
  repeat step_with ltac:(rewrite ?HRSI; mem_norm).
  cbn [exec]. red_state.
  eexists. split; [reflexivity|]. red_state.
  split; [reflexivity|]. split; [lia|]. split; [arith_mod|].
  split; [lia|]. split; [lia|]. split; [mem_norm; lia|]. split; reflexivity.
Qed.

(* ---- MXCSR / x87 control word ---- *)
Definition no_fpctl_write (l : list instr) : bool := forallb (fun i => negb (writes_fpctl i)) l.
Definition no_fpctl_read (l : list instr) : bool := forallb (fun i => negb (reads_fpctl i)) l.

Lemma step_fpctl : forall i s s', writes_fpctl i = false -> step i s = Some s' ->
  mxcsr s' = mxcsr s /\ fpcw s' = fpcw s.
Proof.
  intros i s s' Hw Hs. destruct i; cbn [writes_fpctl] in Hw; try discriminate; cbn [step] in Hs;
    repeat match type of Hs with
           | (if ?c then _ else _) = _ => destruct c
           | (let _ := _ in _) = _ => cbv zeta in Hs
           end; inversion Hs; subst; cbn [setr setm mxcsr fpcw]; split; reflexivity.
Qed.

Lemma exec_fpctl : forall l s t s', no_fpctl_write l = true -> exec l s = Jump t s' ->
  mxcsr s' = mxcsr s /\ fpcw s' = fpcw s.
Proof.
  induction l as [|i l IH]; intros s t s' Hn He; [discriminate|].
  cbn [no_fpctl_write forallb] in Hn. apply andb_prop in Hn. destruct Hn as [Hi Hl].
  apply negb_true_iff in Hi.
  destruct i; cbn [exec] in He;
    try (match type of He with
         | match ?x with _ => _ end = _ => destruct x eqn:Es; [|discriminate]
         end;
         destruct (step_fpctl _ _ _ Hi Es) as [A B]; destruct (IH _ _ _ Hl He) as [C D];
         split; congruence).
  - inversion He; subst; split; reflexivity.
  - destruct (aligned8 (regs s RSP)); [|discriminate]. inversion He; subst. split; reflexivity.
  - discriminate.
Qed.

Lemma switch_fpctl_untouched_l : forall ret s t s', switch ret s = Jump t s' ->
  mxcsr s' = mxcsr s /\ fpcw s' = fpcw s.
Proof.
  intros ret s t s' H. unfold switch, switch_with, call in H.
  destruct (aligned8 (wrap (regs s RSP - 8))); [|discriminate].
  apply exec_fpctl in H; [|reflexivity]. exact H.
Qed.

Lemma swapcontext_never_reads_fpctl_l : no_fpctl_read swapcontext = true /\ no_fpctl_write swapcontext = true.
Proof. split; reflexivity. Qed.

Definition fp_s0 : state :=
  mkState (fun r => match r with RSP => 65536 | RDI => 131072 | RSI => 196608
                            | RBX => 11 | RBP => 12 | R12 => 13 | R13 => 14 | R14 => 15 | R15 => 16
                            | _ => 0 end)
          (fun _ => 0) 24448 2943.
Definition fp_s2 (saved : Z) (m : Z -> Z) : state :=
  mkState (fun r => match r with RSP => 262144 | RDI => 327680 | RSI => saved | _ => 7 end) m 8064 895.

(* F7: the routine neither saves nor restores MXCSR / the x87 control word, so the FP control
   state a context observes after it is resumed is the one of whoever switched to it *)
Lemma fp_control_preserved_refuted_l :
  exists (s0 s1 s2 s3 : state) (retA retX hi hi2 t1 : Z),
    caller_ok s0 hi /\ switch retA s0 = Jump t1 s1 /\
    caller_ok s2 hi2 /\ regs s2 RSI = mem s1 (regs s0 RDI) /\
    (forall a, mem s1 (regs s0 RDI) <= a < hi -> mem s2 a = mem s1 a) /\
    (regs s2 RSP <= mem s1 (regs s0 RDI) \/ hi <= regs s2 RSP - room) /\
    (regs s2 RDI < mem s1 (regs s0 RDI) \/ hi <= regs s2 RDI) /\
    switch retX s2 = Jump retA s3 /\
    (forall q, In q callee_saved -> regs s3 q = regs s0 q) /\
    mxcsr s0 = 24448 (* 0x5F80: round towards +inf *) /\ mxcsr s3 = 8064 (* 0x1F80 *) /\
    mxcsr s3 <> mxcsr s0 /\ fpcw s3 <> fpcw s0.
Proof.
  assert (Hc : caller_ok fp_s0 69632).
  { unfold caller_ok, room, W, fp_s0. cbv beta iota delta [regs]. repeat split; arith_mod. }
  destruct (swap_roundtrip_l fp_s0 4198400 69632 Hc) as (t1 & s1 & Hsw & Hrange & Hal & Hrt).
  cbv zeta in Hrange, Hal, Hrt.
  remember (mem s1 (regs fp_s0 RDI)) as saved eqn:Esaved.
  assert (Hr0 : regs fp_s0 RSP = 65536) by reflexivity. rewrite Hr0 in *.
  assert (Hc2 : caller_ok (fp_s2 saved (mem s1)) 266240).
  { unfold caller_ok, room, W, fp_s2 in *. cbv beta iota delta [regs]. repeat split; arith_mod. }
  assert (HA : regs (fp_s2 saved (mem s1)) RSP = 262144) by reflexivity.
  assert (HB : regs (fp_s2 saved (mem s1)) RDI = 327680) by reflexivity.
  destruct (Hrt (fp_s2 saved (mem s1)) 4202496 266240 Hc2) as (s3 & Hsw2 & Hsp & Hregs & Hmem & Hmx & Hcw).
  { reflexivity. } { intros; reflexivity. }
  { right. rewrite HA. unfold room. lia. } { right. rewrite HB. lia. }
  exists fp_s0, s1, (fp_s2 saved (mem s1)), s3, 4198400, 4202496, 69632, 266240, t1.
  rewrite <- Esaved.
  split; [exact Hc|]. split; [exact Hsw|]. split; [exact Hc2|]. split; [reflexivity|].
  split; [intros; reflexivity|]. split; [right; rewrite HA; unfold room; lia|].
  split; [right; rewrite HB; lia|]. split; [exact Hsw2|]. split; [exact Hregs|].
  split; [reflexivity|]. split; [rewrite Hmx; reflexivity|].
  split; [rewrite Hmx; cbv [mxcsr fp_s2 fp_s0]; discriminate | rewrite Hcw; cbv [fpcw fp_s2 fp_s0]; discriminate].
Qed.
