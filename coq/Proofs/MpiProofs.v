(* Proofs/MpiProofs.v — invariants of the MPI polling model (Model/Mpi.v) over arbitrary
   schedules and thread counts, and the case analysis of the transform_mpi completion routes. *)
From Coq Require Import List Arith Lia Bool NArith Permutation.
From Pika Require Import Base.Conc Gen.GenMpi Model.Mpi.
Import ListNotations.

(* ------------------------------------------------------------------ list helpers *)
Lemma take_nth_spec {A} k (l : list A) x r :
  take_nth k l = Some (x, r) -> exists l1 l2, l = l1 ++ x :: l2 /\ r = l1 ++ l2.
Proof.
  revert k x r. induction l as [|a l IH]; intros k x r H; [destruct k; discriminate|].
  destruct k as [|k]; cbn in H.
  - inversion H; subst. exists [], r. split; reflexivity.
  - destruct (take_nth k l) as [[y r']|] eqn:E; [|discriminate]. inversion H; subst.
    destruct (IH _ _ _ E) as (l1 & l2 & -> & ->). exists (a :: l1), l2. split; reflexivity.
Qed.

Lemma take_nth_none {A} k (l : list A) : take_nth k l = None -> length l <= k.
Proof.
  revert k. induction l as [|a l IH]; intros k H; cbn; [lia|].
  destruct k as [|k]; cbn in H; [discriminate|].
  destruct (take_nth k l) as [[y r']|] eqn:E; [discriminate|]. apply IH in E. lia.
Qed.

Lemma set_nth_split {A} k (v : A) l x :
  nth_error l k = Some x -> exists l1 l2, l = l1 ++ x :: l2 /\ set_nth k v l = l1 ++ v :: l2 /\ length l1 = k.
Proof.
  revert k. induction l as [|a l IH]; intros k H; [destruct k; discriminate|].
  destruct k as [|k]; cbn in H.
  - inversion H; subst. exists [], l. repeat split.
  - destruct (IH _ H) as (l1 & l2 & -> & E & L). exists (a :: l1), l2. cbn. rewrite E, L. repeat split.
Qed.

Lemma somes_app a b : somes (a ++ b) = somes a ++ somes b.
Proof. unfold somes. apply flat_map_app. Qed.

Definition pairP (ro : option req) (c : req * req) : Prop :=
  match ro with Some r => c = (r, r) | None => True end.

Lemma Forall2_nth {A B} (P : A -> B -> Prop) l1 l2 i a b :
  Forall2 P l1 l2 -> nth_error l1 i = Some a -> nth_error l2 i = Some b -> P a b.
Proof.
  intros H. revert i. induction H; intros i Ha Hb; destruct i; cbn in *; try discriminate.
  - inversion Ha; inversion Hb; subst; assumption.
  - eauto.
Qed.

Lemma Forall2_set_none l1 l2 k : Forall2 pairP l1 l2 -> Forall2 pairP (set_nth k None l1) l2.
Proof.
  intros H. revert k. induction H; intros k; cbn; [constructor|].
  destruct k; constructor; cbn; auto.
Qed.

Lemma compact_pair rs cs : Forall2 pairP rs cs ->
  Forall2 pairP (fst (compact rs cs)) (snd (compact rs cs)) /\ somes (fst (compact rs cs)) = somes rs
  /\ ~ In None (fst (compact rs cs)).
Proof.
  induction 1 as [|ro c rs cs Hp H IH]; cbn; [repeat split; [constructor|tauto]|].
  destruct IH as (IH1 & IH2 & IH3).
  destruct ro as [r|]; cbn.
  - destruct (compact rs cs) as [a b] eqn:E. cbn in *. repeat split.
    + constructor; assumption.
    + now rewrite IH2.
    + intros [F|F]; [discriminate|tauto].
  - repeat split; assumption.
Qed.

(* ------------------------------------------------------------------ counting stages *)
Definition b2n (b : bool) : nat := if b then 1 else 0.

Lemma cnt_S P s n : cnt P s (S n) = cnt P s n + b2n (P (s n)).
Proof.
  unfold cnt. rewrite seq_S, filter_app, app_length. cbn. destruct (P (s n)); cbn; reflexivity.
Qed.

Lemma cnt_ext P s s' n : (forall r, r < n -> s r = s' r) -> cnt P s n = cnt P s' n.
Proof.
  induction n as [|n IH]; intros H; [reflexivity|].
  rewrite !cnt_S, IH by (intros; apply H; lia). rewrite H by lia. reflexivity.
Qed.

Lemma supd_same s r v : supd s r v r = v.
Proof. unfold supd. now rewrite Nat.eqb_refl. Qed.
Lemma supd_other s r v x : x <> r -> supd s r v x = s x.
Proof. unfold supd. intros H. apply Nat.eqb_neq in H. now rewrite H. Qed.
Lemma supd_keep s r v x a : s x = a -> s r <> a -> supd s r v x = a.
Proof. intros H1 H2. rewrite supd_other; [assumption|]. intros ->. contradiction. Qed.

Lemma cnt_supd P s r v n : r < n -> cnt P (supd s r v) n + b2n (P (s r)) = cnt P s n + b2n (P v).
Proof.
  induction n as [|n IH]; intros H; [lia|].
  rewrite !cnt_S. destruct (Nat.eq_dec r n) as [->|Hne].
  - rewrite (cnt_ext P (supd s n v) s n) by (intros; apply supd_other; lia).
    rewrite supd_same. lia.
  - rewrite supd_other by lia. assert (r < n) by lia. specialize (IH H0). lia.
Qed.

Lemma cnt_fresh P s r v : P (s r) = false ->
  cnt P (supd s r v) (S r) = cnt P s r + b2n (P v).
Proof.
  intros H. rewrite cnt_S, supd_same.
  rewrite (cnt_ext P (supd s r v) s r) by (intros; apply supd_other; lia). reflexivity.
Qed.

Lemma cnt_pos P s r n : r < n -> P (s r) = true -> 1 <= cnt P s n.
Proof.
  induction n as [|n IH]; intros H Hp; [lia|]. rewrite cnt_S.
  destruct (Nat.eq_dec r n) as [->|Hne]; [rewrite Hp; cbn; lia|].
  assert (r < n) as L by lia. specialize (IH L Hp). lia.
Qed.

(* ------------------------------------------------------------------ the invariant *)
Fixpoint log_ok (l : list event) : Prop :=
  match l with
  | [] => True
  | EvCall c r e :: l' =>
      c = r /\ In (EvTest r) l' /\ In (EvDone r e) l' /\ In (EvReg r) l' /\ ~ In r (calls l') /\ log_ok l'
  | EvTest r :: l' => (exists e, In (EvDone r e) l') /\ log_ok l'
  | _ :: l' => log_ok l'
  end.

Definition pc_ok (g : mstate) (t : nat) (l : pc) : Prop :=
  match l with
  | SCnt r => stage g r = StAct t
  | SEnq r => stage g r = StCnt t
  | PDec _ x => stage g (rc_req x) = StHeld t /\ rc_cb x = rc_req x /\ In (rc_req x, rc_err x) (mpi_done g)
  | PCall _ x => stage g (rc_req x) = StDec t /\ rc_cb x = rc_req x /\ In (rc_req x, rc_err x) (mpi_done g)
  | PFin _ r => stage g r = StCalled t
  | _ => True
  end.

(* reverse direction: who holds a request in hand *)
Definition stage_ok (ls : locals pc) (r : req) (s : stg) : Prop :=
  match s with
  | StAct t => ls t = SCnt r
  | StCnt t => ls t = SEnq r
  | StHeld t => exists ph x, ls t = PDec ph x /\ rc_req x = r
  | StDec t => exists ph x, ls t = PCall ph x /\ rc_req x = r
  | StCalled t => exists ph, ls t = PFin ph r
  | _ => True
  end.

Record Inv (g : mstate) (ls : locals pc) : Prop := {
  i_fresh : forall r, next_req g <= r -> stage g r = StNone;
  i_rq : forall r c, In (r, c) (rq g) -> c = r /\ stage g r = StQueued;
  i_rq_nd : NoDup (map fst (rq g));
  i_vec_pair : Forall2 pairP (vreq g) (vcb g);
  i_vec_st : forall r, In r (somes (vreq g)) -> stage g r = StVec;
  i_vec_nd : NoDup (somes (vreq g));
  i_ready : forall x, In x (ready g) ->
      rc_cb x = rc_req x /\ stage g (rc_req x) = StReady /\ In (rc_req x, rc_err x) (mpi_done g);
  i_ready_nd : NoDup (map rc_req (ready g));
  i_cnt_if : in_flight g =
      cnt transient_stage (stage g) (next_req g) + length (rq g) + nonnull (vreq g) + length (ready g);
  i_cnt_act : activity g = cnt active_stage (stage g) (next_req g);
  i_lock_cs : forall t, in_cs (ls t) = true -> lock g = Some t;
  i_cs_lock : forall t, lock g = Some t -> in_cs (ls t) = true;
  i_nolock_nonull : lock g = None -> ~ In None (vreq g);
  i_pc : forall t, pc_ok g t (ls t);
  i_st : forall r, stage_ok ls r (stage g r);
  i_log_reg : forall r, In (EvReg r) (mlog g) <-> stage g r <> StNone;
  i_log_test : forall r, tested_stage (stage g r) = true -> In (EvTest r) (mlog g);
  i_log_call : forall r, In r (calls (mlog g)) -> called_stage (stage g r) = true;
  i_log_done : forall r e, In (r, e) (mpi_done g) -> In (EvDone r e) (mlog g);
  i_done_fun : forall r e, In (r, e) (mpi_done g) -> done_status r (mpi_done g) = Some e;
  i_log_ok : log_ok (mlog g);
  i_call_log : forall r, called_stage (stage g r) = true -> In r (calls (mlog g))
}.

Lemma inv_init : Inv m_init m_locals.
Proof.
  constructor; cbn; intros; try tauto; try constructor; try discriminate.
Qed.

Lemma stage_lt g ls r : Inv g ls -> stage g r <> StNone -> r < next_req g.
Proof.
  intros I H. destruct (Nat.lt_ge_cases r (next_req g)) as [L|L]; [assumption|].
  exfalso. apply H. now apply (i_fresh _ _ I).
Qed.

Ltac simp_g := cbn [next_req mpi_done rq vreq vcb ready in_flight activity lock stage mlog w_stage w_log
  w_rq w_vec w_ready w_inflight w_activity w_lock w_next w_done fst snd] in *.

Definition held_req (l : pc) : option req :=
  match l with
  | SCnt r | SEnq r | PFin _ r => Some r
  | PDec _ x | PCall _ x => Some (rc_req x)
  | _ => None
  end.

Definition owner_ok (s : stg) (t : nat) : Prop :=
  match s with
  | StAct t0 | StCnt t0 | StHeld t0 | StDec t0 | StCalled t0 => t0 = t
  | _ => True
  end.

Lemma upd_id {L} (ls : locals L) t t' : upd ls t (ls t) t' = ls t'.
Proof. unfold upd. destruct (Nat.eqb_spec t' t); subst; reflexivity. Qed.

(* the other threads' in-hand claims survive a stage move of r by t *)
Lemma pc_ok_move g g' (ls : locals pc) t r B :
  stage g' = supd (stage g) r B -> (forall x, In x (mpi_done g) -> In x (mpi_done g')) ->
  owner_ok (stage g r) t ->
  forall t', t' <> t -> pc_ok g t' (ls t') -> pc_ok g' t' (ls t').
Proof.
  intros Hs Hd Ho t' Hne. unfold pc_ok. rewrite Hs.
  destruct (ls t') as [|r0|r0|ph|ph x|ph x|ph r0| | | | |]; try tauto.
  - intros H. apply supd_keep; [assumption|]. intros E. rewrite E in Ho. cbn in Ho. congruence.
  - intros H. apply supd_keep; [assumption|]. intros E. rewrite E in Ho. cbn in Ho. congruence.
  - intros (H & H2 & H3). repeat split; auto. apply supd_keep; [assumption|]. intros E. rewrite E in Ho. cbn in Ho. congruence.
  - intros (H & H2 & H3). repeat split; auto. apply supd_keep; [assumption|]. intros E. rewrite E in Ho. cbn in Ho. congruence.
  - intros H. apply supd_keep; [assumption|]. intros E. rewrite E in Ho. cbn in Ho. congruence.
Qed.

(* who-holds-what survives a stage move of r by t, provided t held nothing else *)
Lemma stage_ok_move (st : req -> stg) (ls : locals pc) t l' r B :
  (forall r', stage_ok ls r' (st r')) ->
  (forall r', held_req (ls t) = Some r' -> r' = r) ->
  stage_ok (upd ls t l') r B ->
  forall r', stage_ok (upd ls t l') r' (supd st r B r').
Proof.
  intros Hst Hh HB r'. destruct (Nat.eq_dec r' r) as [->|Hne]; [now rewrite supd_same|].
  rewrite supd_other by assumption. specialize (Hst r').
  destruct (st r') as [|t0|t0| | | |t0|t0|t0|] eqn:E; cbn in *; auto;
    (destruct (Nat.eq_dec t0 t) as [->|Hn]; [|now rewrite upd_other by assumption]); exfalso; apply Hne, Hh.
  - now rewrite Hst.
  - now rewrite Hst.
  - destruct Hst as (ph & x & -> & <-). reflexivity.
  - destruct Hst as (ph & x & -> & <-). reflexivity.
  - destruct Hst as (ph & ->). reflexivity.
Qed.

(* a step that only changes the program counter of t between pcs that hold nothing *)
Lemma inv_pc_only g (ls : locals pc) t l' :
  Inv g ls -> held_req (ls t) = None -> held_req l' = None -> in_cs l' = in_cs (ls t) ->
  Inv g (upd ls t l').
Proof.
  intros I H1 H2 H3. destruct I. constructor; auto.
  - intros t0. unfold upd. destruct (Nat.eqb_spec t0 t) as [->|]; auto. rewrite H3. auto.
  - intros t0 Hl. unfold upd. destruct (Nat.eqb_spec t0 t) as [->|]; auto. rewrite H3. auto.
  - intros t0. unfold upd. destruct (Nat.eqb_spec t0 t) as [->|]; auto.
    destruct l'; cbn in *; try discriminate; exact Logic.I.
  - intros r. specialize (i_st0 r).
    destruct (stage g r) as [|t0|t0| | | |t0|t0|t0|] eqn:E; cbn in *; auto;
      (destruct (Nat.eq_dec t0 t) as [->|Hn]; [|now rewrite upd_other by assumption]); exfalso.
    + rewrite i_st0 in H1. discriminate.
    + rewrite i_st0 in H1. discriminate.
    + destruct i_st0 as (ph & x & Hx & _). rewrite Hx in H1. discriminate.
    + destruct i_st0 as (ph & x & Hx & _). rewrite Hx in H1. discriminate.
    + destruct i_st0 as (ph & Hx). rewrite Hx in H1. discriminate.
Qed.

Lemma Inv_ext g (ls ls' : locals pc) : Inv g ls -> (forall t, ls' t = ls t) -> Inv g ls'.
Proof.
  intros I H. destruct I. constructor; auto.
  - intros t. rewrite H. auto.
  - intros t. rewrite H. auto.
  - intros t. rewrite H. auto.
  - intros r. specialize (i_st0 r). destruct (stage g r); cbn in *; auto; rewrite H; auto.
Qed.

Ltac cs r' r := destruct (Nat.eq_dec r' r) as [->|?Hne];
  [rewrite ?supd_same in * | rewrite ?supd_other in * by assumption].
Ltac updt t0 t := unfold upd; destruct (Nat.eqb_spec t0 t) as [->|?Hnt].

(* ---- environment: MPI completes a request *)
Lemma inv_mpi g ls r e : Inv g ls -> Inv (mpi_complete g r e) ls.
Proof.
  intros I. unfold mpi_complete. destruct (done_status r (mpi_done g)) eqn:D; [assumption|].
  destruct I. constructor; simp_g; auto.
  - intros x Hx. destruct (i_ready0 x Hx) as (A & B & C). repeat split; auto. now right.
  - intros t. specialize (i_pc0 t). destruct (ls t); cbn in *; auto; intuition.
  - intros r0. rewrite <- i_log_reg0. split; [intros [F|F]; [discriminate|assumption]|now right].
  - intros r0 H. right. auto.
  - intros r0 e0 [H|H]; [inversion H; subst; now left|right; auto].
  - intros r0 e0 [H|H].
    + inversion H; subst. cbn. now rewrite Nat.eqb_refl.
    + cbn. destruct (Nat.eqb_spec r0 r) as [->|]; [|auto].
      apply i_done_fun0 in H. congruence.
Qed.

(* ---- submitter *)
Lemma inv_submit g ls t : Inv g ls -> ls t = Idle ->
  let r := next_req g in
  Inv (w_log (w_stage (w_activity (w_next g (S r)) (S (activity g))) r (StAct t)) (EvReg r)) (upd ls t (SCnt r)).
Proof.
  intros I Hl r. assert (Hr : stage g r = StNone) by (apply (i_fresh _ _ I); unfold r; lia).
  destruct I. constructor; simp_g; fold r.
  - intros r' H. rewrite supd_other by lia. apply i_fresh0. unfold r in *. lia.
  - intros r' c H. destruct (i_rq0 _ _ H). split; auto. apply supd_keep; congruence.
  - assumption.
  - assumption.
  - intros r' H. apply supd_keep; [auto|]. congruence.
  - assumption.
  - intros x H. destruct (i_ready0 x H) as (A & B & C). repeat split; auto. apply supd_keep; congruence.
  - assumption.
  - rewrite cnt_fresh by (now rewrite Hr). cbn. rewrite i_cnt_if0. fold r. lia.
  - rewrite cnt_fresh by (now rewrite Hr). cbn. rewrite i_cnt_act0. fold r. lia.
  - intros t0. updt t0 t; [cbn; discriminate|auto].
  - intros t0 H. updt t0 t; [|auto]. apply i_cs_lock0 in H. rewrite Hl in H. discriminate.
  - assumption.
  - intros t0. updt t0 t; [cbn; apply supd_same|].
    eapply pc_ok_move with (g := g) (t := t); try reflexivity; simp_g; auto. rewrite Hr. exact Logic.I.
  - apply stage_ok_move; auto.
    + intros r'. rewrite Hl. discriminate.
    + cbn. apply upd_same.
  - intros r'. cs r' r.
    + split; [congruence|now left].
    + rewrite <- i_log_reg0. split; [intros [F|F]; [congruence|assumption]|now right].
  - intros r' H. right. cs r' r; [discriminate|auto].
  - intros r' H. cs r' r; [|auto]. apply i_log_call0 in H. rewrite Hr in H. discriminate.
  - intros r0 e0 H. right. auto.
  - assumption.
  - assumption.
  - intros r' H. cbn. cs r' r; [discriminate|auto].
Qed.

(* ---- a step of t that moves the request it holds from stage A to stage B and touches only counters *)
Lemma inv_move g ls t r A B nif nact l' :
  Inv g ls -> held_req (ls t) = Some r -> in_cs (ls t) = false -> in_cs l' = false ->
  stage g r = A -> owner_ok A t -> A <> StNone -> B <> StNone ->
  A <> StQueued -> A <> StVec -> A <> StReady ->
  nif + b2n (transient_stage A) = in_flight g + b2n (transient_stage B) ->
  nact + b2n (active_stage A) = activity g + b2n (active_stage B) ->
  (tested_stage B = true -> tested_stage A = true) ->
  (called_stage A = true -> called_stage B = true) ->
  (called_stage B = true -> called_stage A = true) ->
  (forall g', stage g' r = B -> mpi_done g' = mpi_done g -> pc_ok g' t l') ->
  stage_ok (upd ls t l') r B ->
  Inv (w_stage (w_activity (w_inflight g nif) nact) r B) (upd ls t l').
Proof.
  intros I Hh Hc Hc' Hr Ho An Bn Aq Av Ar Hif Hact Ht Hcl Hcl' Hpc Hst.
  assert (Hlt : r < next_req g) by (eapply stage_lt; [exact I|congruence]).
  destruct I. constructor; simp_g.
  - intros r' H. rewrite supd_other by lia. auto.
  - intros r' c H. destruct (i_rq0 _ _ H). split; auto. apply supd_keep; congruence.
  - assumption.
  - assumption.
  - intros r' H. apply supd_keep; [auto|congruence].
  - assumption.
  - intros x H. destruct (i_ready0 x H) as (A1 & B1 & C1). repeat split; auto. apply supd_keep; congruence.
  - assumption.
  - pose proof (cnt_supd transient_stage (stage g) r B _ Hlt) as E. rewrite Hr in E. lia.
  - pose proof (cnt_supd active_stage (stage g) r B _ Hlt) as E. rewrite Hr in E. lia.
  - intros t0. updt t0 t; [rewrite Hc'; discriminate|auto].
  - intros t0 H. updt t0 t; [|auto]. apply i_cs_lock0 in H. congruence.
  - assumption.
  - intros t0. updt t0 t; [apply Hpc; simp_g; [apply supd_same|reflexivity]|].
    eapply pc_ok_move with (g := g) (t := t); try reflexivity; simp_g; auto. now rewrite Hr.
  - apply stage_ok_move; auto. intros r' H. congruence.
  - intros r'. cs r' r; [|auto]. rewrite i_log_reg0, Hr. tauto.
  - intros r' H. cs r' r; [|auto]. apply i_log_test0. rewrite Hr. auto.
  - intros r' H. cs r' r; [|auto]. apply Hcl. rewrite <- Hr. auto.
  - assumption.
  - assumption.
  - assumption.
  - intros r' H. cs r' r; [|auto]. apply i_call_log0. rewrite Hr. auto.
Qed.

Lemma done_status_in r d e : done_status r d = Some e -> In (r, e) d.
Proof.
  induction d as [|[r' e'] d IH]; cbn; [discriminate|].
  destruct (Nat.eqb_spec r r') as [->|]; intros H; [inversion H; now left|right; auto].
Qed.

Lemma NoDup_snoc {A} (l : list A) x : NoDup l -> ~ In x l -> NoDup (l ++ [x]).
Proof.
  intros H1 H2. eapply Permutation_NoDup; [apply Permutation_cons_append|]. now constructor.
Qed.

Lemma stage_ok_pc_only (st : req -> stg) (ls : locals pc) t l' :
  (forall r, stage_ok ls r (st r)) -> held_req (ls t) = None -> forall r, stage_ok (upd ls t l') r (st r).
Proof.
  intros Hst H1 r. specialize (Hst r).
  destruct (st r) as [|t0|t0| | | |t0|t0|t0|] eqn:E; cbn in *; auto;
    (destruct (Nat.eq_dec t0 t) as [->|Hn]; [|now rewrite upd_other by assumption]); exfalso.
  + rewrite Hst in H1. discriminate.
  + rewrite Hst in H1. discriminate.
  + destruct Hst as (ph & x & Hx & _). rewrite Hx in H1. discriminate.
  + destruct Hst as (ph & x & Hx & _). rewrite Hx in H1. discriminate.
  + destruct Hst as (ph & Hx). rewrite Hx in H1. discriminate.
Qed.

(* ---- SEnq: request_callback_queue_.enqueue *)
Lemma inv_enq g ls t r : Inv g ls -> ls t = SEnq r ->
  Inv (w_stage (w_rq g (rq g ++ [(r, r)])) r StQueued) (upd ls t Idle).
Proof.
  intros I Hl. assert (Hr : stage g r = StCnt t) by (pose proof (i_pc _ _ I t) as P; now rewrite Hl in P).
  assert (Hlt : r < next_req g) by (eapply stage_lt; [exact I|congruence]).
  destruct I. constructor; simp_g.
  - intros r' H. rewrite supd_other by lia. auto.
  - intros r' c H. apply in_app_or in H. destruct H as [H|[H|[]]].
    + destruct (i_rq0 _ _ H). split; auto. apply supd_keep; congruence.
    + inversion H; subst. split; [reflexivity|apply supd_same].
  - rewrite map_app. cbn. apply NoDup_snoc; [assumption|]. intros H. apply in_map_iff in H.
    destruct H as ([r' c] & E & H). cbn in E. subst. apply i_rq0 in H. destruct H. congruence.
  - assumption.
  - intros r' H. apply supd_keep; [auto|congruence].
  - assumption.
  - intros x H. destruct (i_ready0 x H) as (A1 & B1 & C1). repeat split; auto. apply supd_keep; congruence.
  - assumption.
  - pose proof (cnt_supd transient_stage (stage g) r StQueued _ Hlt) as E. rewrite Hr in E. cbn in E.
    rewrite app_length. cbn. lia.
  - pose proof (cnt_supd active_stage (stage g) r StQueued _ Hlt) as E. rewrite Hr in E. cbn in E. lia.
  - intros t0. updt t0 t; [discriminate|auto].
  - intros t0 H. updt t0 t; [|auto]. apply i_cs_lock0 in H. rewrite Hl in H. discriminate.
  - assumption.
  - intros t0. updt t0 t; [exact Logic.I|].
    eapply pc_ok_move with (g := g) (t := t); try reflexivity; simp_g; auto. now rewrite Hr.
  - apply stage_ok_move; auto; [|exact Logic.I]. intros r'. rewrite Hl. cbn. congruence.
  - intros r'. cs r' r; [|auto]. rewrite i_log_reg0, Hr. split; congruence.
  - intros r' H. cs r' r; [discriminate|auto].
  - intros r' H. cs r' r; [|auto]. apply i_log_call0 in H. rewrite Hr in H. discriminate.
  - assumption.
  - assumption.
  - assumption.
  - intros r' H. cs r' r; [discriminate|auto].
Qed.

(* ---- ready_requests_.try_dequeue succeeded *)
Lemma inv_deq g ls t k x rest ph : Inv g ls -> held_req (ls t) = None -> in_cs (ls t) = false ->
  take_nth k (ready g) = Some (x, rest) ->
  Inv (w_stage (w_ready g rest) (rc_req x) (StHeld t)) (upd ls t (PDec ph x)).
Proof.
  intros I Hh Hc Hk. destruct (take_nth_spec _ _ _ _ Hk) as (l1 & l2 & E1 & E2).
  set (r := rc_req x).
  assert (Hx : In x (ready g)) by (rewrite E1; apply in_or_app; right; now left).
  destruct (i_ready _ _ I x Hx) as (Hcb & Hr & Hd). fold r in Hr, Hd, Hcb.
  assert (Hlt : r < next_req g) by (eapply stage_lt; [exact I|congruence]).
  assert (Hnd : NoDup (map rc_req (l1 ++ l2)) /\ ~ In r (map rc_req (l1 ++ l2))).
  { pose proof (i_ready_nd _ _ I) as N. rewrite E1, map_app in N. cbn in N.
    rewrite map_app. split; [eapply NoDup_remove_1|eapply NoDup_remove_2]; exact N. }
  destruct Hnd as (Hnd1 & Hnd2).
  destruct I. constructor; simp_g; fold r.
  - intros r' H. rewrite supd_other by lia. auto.
  - intros r' c H. destruct (i_rq0 _ _ H). split; auto. apply supd_keep; congruence.
  - assumption.
  - assumption.
  - intros r' H. apply supd_keep; [auto|congruence].
  - assumption.
  - intros y H. subst rest. assert (Hy : In y (ready g)).
    { rewrite E1. apply in_app_or in H. apply in_or_app. destruct H; [now left|right; now right]. }
    destruct (i_ready0 y Hy) as (A1 & B1 & C1). repeat split; auto.
    rewrite supd_other; [assumption|]. intros F. apply Hnd2. rewrite <- F. now apply in_map.
  - subst rest. assumption.
  - pose proof (cnt_supd transient_stage (stage g) r (StHeld t) _ Hlt) as E. rewrite Hr in E. cbn in E.
    rewrite i_cnt_if0, E1, E2, !app_length. cbn. lia.
  - pose proof (cnt_supd active_stage (stage g) r (StHeld t) _ Hlt) as E. rewrite Hr in E. cbn in E. lia.
  - intros t0. updt t0 t; [discriminate|auto].
  - intros t0 H. updt t0 t; [|auto]. apply i_cs_lock0 in H. congruence.
  - assumption.
  - intros t0. updt t0 t; [cbn; fold r; repeat split; auto; apply supd_same|].
    eapply pc_ok_move with (g := g) (t := t); try reflexivity; simp_g; auto. rewrite Hr. exact Logic.I.
  - apply stage_ok_move; auto; [intros r'; congruence|]. cbn. exists ph, x. split; [apply upd_same|reflexivity].
  - intros r'. cs r' r; [|auto]. rewrite i_log_reg0, Hr. split; congruence.
  - intros r' H. cs r' r; [|auto]. apply i_log_test0. now rewrite Hr.
  - intros r' H. cs r' r; [|auto]. apply i_log_call0 in H. rewrite Hr in H. discriminate.
  - assumption.
  - assumption.
  - assumption.
  - intros r' H. cs r' r; [discriminate|auto].
Qed.

(* ---- PCall: the callback runs *)
Lemma inv_call g ls t ph x : Inv g ls -> ls t = PCall ph x ->
  Inv (w_log (w_stage g (rc_req x) (StCalled t)) (EvCall (rc_cb x) (rc_req x) (rc_err x)))
      (upd ls t (PFin ph (rc_req x))).
Proof.
  intros I Hl. set (r := rc_req x).
  assert (Hp : stage g r = StDec t /\ rc_cb x = r /\ In (r, rc_err x) (mpi_done g))
    by (pose proof (i_pc _ _ I t) as P; now rewrite Hl in P).
  destruct Hp as (Hr & Hcb & Hd).
  assert (Hlt : r < next_req g) by (eapply stage_lt; [exact I|congruence]).
  destruct I. constructor; simp_g; fold r.
  - intros r' H. rewrite supd_other by lia. auto.
  - intros r' c H. destruct (i_rq0 _ _ H). split; auto. apply supd_keep; congruence.
  - assumption.
  - assumption.
  - intros r' H. apply supd_keep; [auto|congruence].
  - assumption.
  - intros y H. destruct (i_ready0 y H) as (A1 & B1 & C1). repeat split; auto. apply supd_keep; congruence.
  - assumption.
  - pose proof (cnt_supd transient_stage (stage g) r (StCalled t) _ Hlt) as E. rewrite Hr in E. cbn in E. lia.
  - pose proof (cnt_supd active_stage (stage g) r (StCalled t) _ Hlt) as E. rewrite Hr in E. cbn in E. lia.
  - intros t0. updt t0 t; [discriminate|auto].
  - intros t0 H. updt t0 t; [|auto]. apply i_cs_lock0 in H. rewrite Hl in H. discriminate.
  - assumption.
  - intros t0. updt t0 t; [cbn; apply supd_same|].
    eapply pc_ok_move with (g := g) (t := t); try reflexivity; simp_g; auto. now rewrite Hr.
  - apply stage_ok_move; auto.
    + intros r'. rewrite Hl. cbn. fold r. congruence.
    + cbn. exists ph. apply upd_same.
  - intros r'. split.
    + intros [F|F]; [discriminate|]. apply i_log_reg0 in F. cs r' r; [discriminate|assumption].
    + intros H. right. apply i_log_reg0. cs r' r; [congruence|assumption].
  - intros r' H. right. cs r' r; [|auto]. apply i_log_test0. now rewrite Hr.
  - intros r' H. cbn in H. destruct H as [<-|H]; [now rewrite supd_same|].
    cs r' r; [reflexivity|auto].
  - intros r0 e0 H. right. auto.
  - assumption.
  - cbn. repeat split; auto.
    + apply i_log_test0. now rewrite Hr.
    + apply i_log_reg0. congruence.
    + intros F. apply i_log_call0 in F. rewrite Hr in F. discriminate.
  - intros r' H. cbn. cs r' r; [now left|right; auto].
Qed.

(* ---- PLock: try_lock succeeded *)
Lemma inv_lock g ls t : Inv g ls -> ls t = PLock -> lock g = None ->
  Inv (w_lock g (Some t)) (upd ls t PDrain).
Proof.
  intros I Hl Hk. destruct I. constructor; simp_g; auto.
  - intros t0. updt t0 t; [reflexivity|]. intros H. apply i_lock_cs0 in H. congruence.
  - intros t0 H. inversion H; subst. now rewrite upd_same.
  - intros t0. updt t0 t; [exact Logic.I|exact (i_pc0 t0)].
  - apply stage_ok_pc_only; auto. now rewrite Hl.
Qed.

(* ---- PDrain: request_callback_queue_.try_dequeue succeeded -> add_to_request_callback_vector *)
Lemma inv_drain g ls t k r c rest : Inv g ls -> ls t = PDrain ->
  take_nth k (rq g) = Some ((r, c), rest) ->
  Inv (w_stage (w_vec (w_rq g rest) (vreq g ++ [Some r]) (vcb g ++ [(c, r)])) r StVec) (upd ls t PDrain).
Proof.
  intros I Hl Hk. destruct (take_nth_spec _ _ _ _ Hk) as (l1 & l2 & E1 & E2).
  assert (Hx : In (r, c) (rq g)) by (rewrite E1; apply in_or_app; right; now left).
  destruct (i_rq _ _ I _ _ Hx) as (-> & Hr).
  assert (Hlt : r < next_req g) by (eapply stage_lt; [exact I|congruence]).
  assert (Hnd : NoDup (map fst (l1 ++ l2)) /\ ~ In r (map fst (l1 ++ l2))).
  { pose proof (i_rq_nd _ _ I) as N. rewrite E1, map_app in N. cbn in N.
    rewrite map_app. split; [eapply NoDup_remove_1|eapply NoDup_remove_2]; exact N. }
  destruct Hnd as (Hnd1 & Hnd2).
  assert (Hlk : lock g = Some t) by (apply (i_lock_cs _ _ I); now rewrite Hl).
  destruct I. constructor; simp_g.
  - intros r' H. rewrite supd_other by lia. auto.
  - intros r' c H. subst rest. assert (Hy : In (r', c) (rq g)).
    { rewrite E1. apply in_app_or in H. apply in_or_app. destruct H; [now left|right; now right]. }
    destruct (i_rq0 _ _ Hy). split; auto. rewrite supd_other; [assumption|].
    intros ->. apply Hnd2. apply in_map_iff. exists (r, c). split; [reflexivity|assumption].
  - subst rest. assumption.
  - apply Forall2_app; [assumption|]. constructor; [reflexivity|constructor].
  - intros r' H. rewrite somes_app in H. apply in_app_or in H. destruct H as [H|[<-|[]]].
    + apply supd_keep; [auto|congruence].
    + apply supd_same.
  - rewrite somes_app. cbn. apply NoDup_snoc; [assumption|]. intros H. apply i_vec_st0 in H. congruence.
  - intros y H. destruct (i_ready0 y H) as (A1 & B1 & C1). repeat split; auto. apply supd_keep; congruence.
  - assumption.
  - pose proof (cnt_supd transient_stage (stage g) r StVec _ Hlt) as E. rewrite Hr in E. cbn in E.
    unfold nonnull in *. rewrite somes_app, i_cnt_if0, E1, E2, !app_length. cbn. lia.
  - pose proof (cnt_supd active_stage (stage g) r StVec _ Hlt) as E. rewrite Hr in E. cbn in E. lia.
  - intros t0. updt t0 t; auto.
  - intros t0 H. updt t0 t; [reflexivity|auto].
  - congruence.
  - intros t0. updt t0 t; [exact Logic.I|].
    eapply pc_ok_move with (g := g) (t := t); try reflexivity; simp_g; auto. rewrite Hr. exact Logic.I.
  - apply stage_ok_move; auto; [|exact Logic.I]. intros r'. rewrite Hl. discriminate.
  - intros r'. cs r' r; [|auto]. rewrite i_log_reg0, Hr. split; congruence.
  - intros r' H. cs r' r; [discriminate|auto].
  - intros r' H. cs r' r; [|auto]. apply i_log_call0 in H. rewrite Hr in H. discriminate.
  - assumption.
  - assumption.
  - assumption.
  - intros r' H. cs r' r; [discriminate|auto].
Qed.

(* ---- PTest: a test reports position pos complete *)
Lemma inv_test g ls t ev pos r c rr e : Inv g ls -> ls t = PTest ev ->
  nth_error (vreq g) pos = Some (Some r) -> nth_error (vcb g) pos = Some (c, rr) ->
  done_status r (mpi_done g) = Some e ->
  Inv (w_log (w_stage (w_vec (w_ready g (ready g ++ [{| rc_cb := c; rc_req := rr; rc_err := e |}]))
                             (set_nth pos None (vreq g)) (vcb g)) r StReady) (EvTest r))
      (upd ls t (PTest true)).
Proof.
  intros I Hl Hn1 Hn2 Hd.
  pose proof (Forall2_nth _ _ _ _ _ _ (i_vec_pair _ _ I) Hn1 Hn2) as P. cbn in P. inversion P; subst c rr. clear P.
  destruct (set_nth_split pos None _ _ Hn1) as (l1 & l2 & E1 & E2 & _).
  assert (Hs : somes (vreq g) = somes l1 ++ r :: somes l2) by (rewrite E1, somes_app; reflexivity).
  assert (Hs' : somes (set_nth pos None (vreq g)) = somes l1 ++ somes l2) by (rewrite E2, somes_app; reflexivity).
  assert (Hr : stage g r = StVec).
  { apply (i_vec_st _ _ I). rewrite Hs. apply in_or_app. right. now left. }
  assert (Hlt : r < next_req g) by (eapply stage_lt; [exact I|congruence]).
  assert (Hnd : NoDup (somes l1 ++ somes l2) /\ ~ In r (somes l1 ++ somes l2)).
  { pose proof (i_vec_nd _ _ I) as N. rewrite Hs in N.
    split; [eapply NoDup_remove_1|eapply NoDup_remove_2]; exact N. }
  destruct Hnd as (Hnd1 & Hnd2).
  assert (Hlk : lock g = Some t) by (apply (i_lock_cs _ _ I); now rewrite Hl).
  apply done_status_in in Hd.
  destruct I. constructor; simp_g.
  - intros r' H. rewrite supd_other by lia. auto.
  - intros r' c H. destruct (i_rq0 _ _ H). split; auto. apply supd_keep; congruence.
  - assumption.
  - now apply Forall2_set_none.
  - intros r' H. rewrite Hs' in H. rewrite supd_other.
    + apply i_vec_st0. rewrite Hs. apply in_app_or in H. apply in_or_app. destruct H; [now left|right; now right].
    + intros ->. contradiction.
  - now rewrite Hs'.
  - intros y H. apply in_app_or in H. destruct H as [H|[<-|[]]].
    + destruct (i_ready0 y H) as (A1 & B1 & C1). repeat split; auto. apply supd_keep; congruence.
    + cbn. repeat split; auto. apply supd_same.
  - rewrite map_app. cbn. apply NoDup_snoc; [assumption|]. intros H. apply in_map_iff in H.
    destruct H as (y & E & H). apply i_ready0 in H. destruct H as (_ & B1 & _). congruence.
  - pose proof (cnt_supd transient_stage (stage g) r StReady _ Hlt) as E. rewrite Hr in E. cbn in E.
    unfold nonnull in *. rewrite Hs', i_cnt_if0, Hs, !app_length. cbn. lia.
  - pose proof (cnt_supd active_stage (stage g) r StReady _ Hlt) as E. rewrite Hr in E. cbn in E. lia.
  - intros t0. updt t0 t; auto.
  - intros t0 H. updt t0 t; [reflexivity|auto].
  - congruence.
  - intros t0. updt t0 t; [exact Logic.I|].
    eapply pc_ok_move with (g := g) (t := t); try reflexivity; simp_g; auto. rewrite Hr. exact Logic.I.
  - apply stage_ok_move; auto; [|exact Logic.I]. intros r'. rewrite Hl. discriminate.
  - intros r'. split.
    + intros [F|F]; [discriminate|]. apply i_log_reg0 in F. cs r' r; [discriminate|assumption].
    + intros H. right. apply i_log_reg0. cs r' r; [congruence|assumption].
  - intros r' H. cs r' r; [now left|right; auto].
  - intros r' H. cbn in H. cs r' r; [|auto]. apply i_log_call0 in H. rewrite Hr in H. discriminate.
  - intros r0 e0 H. right. auto.
  - assumption.
  - cbn. split; [|assumption]. exists e. auto.
  - intros r' H. cbn. cs r' r; [discriminate|auto].
Qed.

(* ---- PCompact: compact_vectors(); unlock *)
Lemma inv_compact g ls t : Inv g ls -> ls t = PCompact ->
  Inv (w_lock (w_vec g (fst (compact (vreq g) (vcb g))) (snd (compact (vreq g) (vcb g)))) None)
      (upd ls t (PReady true)).
Proof.
  intros I Hl.
  destruct (compact_pair _ _ (i_vec_pair _ _ I)) as (C1 & C2 & C3).
  assert (Hlk : lock g = Some t) by (apply (i_lock_cs _ _ I); now rewrite Hl).
  destruct I. constructor; simp_g; auto.
  - now rewrite C2.
  - now rewrite C2.
  - unfold nonnull. now rewrite C2.
  - intros t0. updt t0 t; [discriminate|]. intros H. apply i_lock_cs0 in H. congruence.
  - intros t0 H. discriminate H.
  - intros t0. updt t0 t; [exact Logic.I|exact (i_pc0 t0)].
  - apply stage_ok_pc_only; auto. now rewrite Hl.
Qed.

Ltac pconly Hl := apply inv_pc_only; [assumption | rewrite Hl; reflexivity | reflexivity | rewrite Hl; reflexivity].

Lemma inv_deq_any g ls t ph k : Inv g ls -> held_req (ls t) = None -> in_cs (ls t) = false ->
  Inv (fst (dequeue_ready ph k t g)) (upd ls t (snd (dequeue_ready ph k t g))).
Proof.
  intros I H1 H2. unfold dequeue_ready. destruct (take_nth k (ready g)) as [[x rest]|] eqn:E; cbn [fst snd].
  - now apply inv_deq with (k := k).
  - apply inv_pc_only; auto; destruct ph; cbn; auto.
Qed.

Lemma inv_scnt g ls t r : Inv g ls -> ls t = SCnt r ->
  Inv (w_stage (w_inflight g (S (in_flight g))) r (StCnt t)) (upd ls t (SEnq r)).
Proof.
  intros I Hl. assert (Hr : stage g r = StAct t) by (pose proof (i_pc _ _ I t) as P; now rewrite Hl in P).
  apply (inv_move g ls t r (StAct t) (StCnt t) (S (in_flight g)) (activity g) (SEnq r)); auto;
    try (rewrite Hl; reflexivity); try discriminate; try reflexivity; cbn; try lia.
  all: try apply upd_same; try (intros g' H _; exact H).
Qed.

Lemma inv_dec g ls t ph x : Inv g ls -> ls t = PDec ph x ->
  Inv (w_stage (w_inflight g (in_flight g - 1)) (rc_req x) (StDec t)) (upd ls t (PCall ph x)).
Proof.
  intros I Hl. pose proof (i_pc _ _ I t) as P. rewrite Hl in P. destruct P as (Hr & Hcb & Hd).
  assert (Hlt : rc_req x < next_req g) by (eapply stage_lt; [exact I|congruence]).
  assert (1 <= in_flight g).
  { rewrite (i_cnt_if _ _ I). pose proof (cnt_pos transient_stage (stage g) _ _ Hlt) as C.
    rewrite Hr in C. specialize (C eq_refl). lia. }
  apply (inv_move g ls t (rc_req x) (StHeld t) (StDec t) (in_flight g - 1) (activity g) (PCall ph x)); auto;
    try (rewrite Hl; reflexivity); try discriminate; try reflexivity; cbn; try lia.
  all: try (intros g' Hs' E'; rewrite E'; auto); try (exists ph, x; split; [apply upd_same|reflexivity]).
Qed.

Lemma inv_fin g ls t ph r : Inv g ls -> ls t = PFin ph r ->
  Inv (w_stage (w_activity g (activity g - 1)) r StFin) (upd ls t (PReady ph)).
Proof.
  intros I Hl. pose proof (i_pc _ _ I t) as Hr. rewrite Hl in Hr. cbn in Hr.
  assert (Hlt : r < next_req g) by (eapply stage_lt; [exact I|congruence]).
  assert (1 <= activity g).
  { rewrite (i_cnt_act _ _ I). pose proof (cnt_pos active_stage (stage g) _ _ Hlt) as C.
    rewrite Hr in C. exact (C eq_refl). }
  apply (inv_move g ls t r (StCalled t) StFin (in_flight g) (activity g - 1) (PReady ph)); auto;
    try (rewrite Hl; reflexivity); try discriminate; try reflexivity; cbn; try lia.
  all: try (intros g' _ _; exact Logic.I).
Qed.

Theorem inv_step o t g ls : Inv g ls ->
  Inv (fst (mstep o t g (ls t))) (upd ls t (snd (mstep o t g (ls t)))).
Proof.
  intros I.
  destruct o as [| |k|chunk idx| |r e];
    [| | | | |cbn [mstep fst snd]; eapply Inv_ext; [apply inv_mpi; eassumption|intros; apply upd_id]];
    destruct (ls t) as [|r0|r0|ph|ph x|ph x|ph r0| | | |ev|] eqn:Hl; cbn [mstep fst snd];
    try (pconly Hl);
    try (apply inv_deq_any; [assumption|rewrite Hl; reflexivity|rewrite Hl; reflexivity]);
    try (now apply inv_submit); try (now apply inv_scnt); try (now apply inv_enq);
    try (now apply inv_dec); try (now apply inv_call); try (now apply inv_fin);
    try (destruct (Nat.eqb (in_flight g) 0); pconly Hl);
    try (destruct (lock g) eqn:Hk; cbn [fst snd]; [pconly Hl|now apply inv_lock]);
    try (destruct ev; pconly Hl);
    try (pose proof (inv_compact g ls t I Hl) as H; destruct (compact (vreq g) (vcb g)); exact H).
  all: try match goal with
    | |- context [take_nth ?k0 (rq ?g0)] =>
        destruct (take_nth k0 (rq g0)) as [[[r1 c1] rest]|] eqn:Hk; cbn [fst snd];
        [now eapply inv_drain; eauto|pconly Hl]
    end.
  (* PTest with OTest *)
  destruct (Nat.ltb idx max_poll_requests); [|pconly Hl].
  destruct (nth_error (vreq g) (chunk * max_poll_requests + idx)) as [[r1|]|] eqn:E1; try (pconly Hl).
  destruct (nth_error (vcb g) (chunk * max_poll_requests + idx)) as [[c1 rr]|] eqn:E2; try (pconly Hl).
  destruct (done_status r1 (mpi_done g)) as [e|] eqn:E3; cbn [fst snd]; [|pconly Hl].
  eapply inv_test; eassumption.
Qed.

Theorem inv_run sched : Inv (fst (m_run sched)) (snd (m_run sched)).
Proof. unfold m_run. apply (run_inv _ _ _ mstep Inv); [intros; now apply inv_step|apply inv_init]. Qed.

(* ------------------------------------------------------------------ consequences (PART A) *)
Lemma log_ok_app l1 l2 : log_ok (l1 ++ l2) -> log_ok l2.
Proof.
  induction l1 as [|e l1 IH]; cbn; [auto|]. destruct e; intros H; apply IH; tauto.
Qed.

Lemma log_ok_nodup l : log_ok l -> NoDup (calls l).
Proof.
  induction l as [|e l IH]; cbn; [constructor|]. destruct e; cbn; intros H; try (apply IH; tauto).
  destruct H as (_ & _ & _ & _ & Hn & Hl). constructor; auto.
Qed.

Lemma log_ok_call l c r e : log_ok l -> In (EvCall c r e) l ->
  c = r /\ In (EvReg r) l /\ In (EvTest r) l /\ In (EvDone r e) l.
Proof.
  induction l as [|x l IH]; cbn; [tauto|]. intros H [E|Hin].
  - subst x. destruct H as (A & B & C & D & _). repeat split; auto.
  - assert (log_ok l) as Hl by (destruct x; tauto).
    destruct (IH Hl Hin) as (A & B & C & D). repeat split; auto.
Qed.

Theorem mpi_callback_once sched :
  let lg := mlog (fst (m_run sched)) in
  NoDup (calls lg) /\
  forall c r e, In (EvCall c r e) lg -> c = r /\ In (EvReg r) lg.
Proof.
  intros lg. pose proof (i_log_ok _ _ (inv_run sched)) as H. fold lg in H. split.
  - now apply log_ok_nodup.
  - intros c r e Hin. destruct (log_ok_call _ _ _ _ H Hin) as (A & B & _). auto.
Qed.

(* the log is newest-first: what follows an event happened before it *)
Theorem mpi_after_complete sched l1 l2 c r e :
  mlog (fst (m_run sched)) = l1 ++ EvCall c r e :: l2 ->
  In (EvTest r) l2 /\ In (EvDone r e) l2 /\ ~ In r (calls l2).
Proof.
  intros E. pose proof (i_log_ok _ _ (inv_run sched)) as H. rewrite E in H.
  apply log_ok_app in H. cbn in H. tauto.
Qed.

Theorem mpi_test_after_done sched l1 l2 r :
  mlog (fst (m_run sched)) = l1 ++ EvTest r :: l2 -> exists e, In (EvDone r e) l2.
Proof.
  intros E. pose proof (i_log_ok _ _ (inv_run sched)) as H. rewrite E in H.
  apply log_ok_app in H. cbn in H. tauto.
Qed.

Theorem in_flight_exact sched :
  let g := fst (m_run sched) in
  in_flight g = cnt transient_stage (stage g) (next_req g)
                + length (rq g) + nonnull (vreq g) + length (ready g).
Proof. exact (i_cnt_if _ _ (inv_run sched)). Qed.

Lemma cnt_zero P s n : (forall r, r < n -> P (s r) = false) -> cnt P s n = 0.
Proof.
  induction n as [|n IH]; intros H; [reflexivity|]. rewrite cnt_S, IH, H by (intros; auto). reflexivity.
Qed.

(* no thread is inside add_to_request_callback_queue or between dequeue and decrement *)
Definition no_transient (ls : locals pc) : Prop := forall t, held_req (ls t) = None.

Theorem in_flight_exact_quiescent sched :
  let g := fst (m_run sched) in
  no_transient (snd (m_run sched)) ->
  in_flight g = length (rq g) + nonnull (vreq g) + length (ready g).
Proof.
  intros g Q. pose proof (inv_run sched) as I. fold g in I.
  rewrite (i_cnt_if _ _ I), cnt_zero; [lia|].
  intros r _. pose proof (i_st _ _ I r) as S. destruct (stage g r) as [|t|t| | | |t|t|t|] eqn:E; cbn; auto.
  - cbn in S. specialize (Q t). rewrite S in Q. discriminate.
  - cbn in S. destruct S as (ph & x & S & _). specialize (Q t). rewrite S in Q. discriminate.
Qed.

Theorem compact_preserves rs cs : Forall2 pairP rs cs ->
  Forall2 pairP (fst (compact rs cs)) (snd (compact rs cs)) /\
  somes (fst (compact rs cs)) = somes rs /\ ~ In None (fst (compact rs cs)).
Proof. apply compact_pair. Qed.

Theorem vectors_paired sched :
  let g := fst (m_run sched) in
  Forall2 pairP (vreq g) (vcb g) /\ NoDup (somes (vreq g)) /\ (lock g = None -> ~ In None (vreq g)).
Proof.
  intros g. pose proof (inv_run sched) as I. fold g in I.
  split; [apply (i_vec_pair _ _ I)|split; [apply (i_vec_nd _ _ I)|apply (i_nolock_nonull _ _ I)]].
Qed.

(* registered and callback not yet invoked => the global activity count is positive *)
Theorem wait_covers_mpi sched r :
  let g := fst (m_run sched) in
  In (EvReg r) (mlog g) -> ~ In r (calls (mlog g)) -> 1 <= activity g /\ active_stage (stage g r) = true.
Proof.
  intros g Hreg Hnc. pose proof (inv_run sched) as I. fold g in I.
  apply (i_log_reg _ _ I) in Hreg.
  assert (Ha : active_stage (stage g r) = true).
  { destruct (stage g r) eqn:E; cbn; auto; try congruence.
    exfalso. apply Hnc. apply (i_call_log _ _ I). now rewrite E. }
  split; [|assumption]. rewrite (i_cnt_act _ _ I). eapply cnt_pos; [|eassumption].
  eapply stage_lt; eassumption.
Qed.

(* mutual exclusion of the polling lock scope: the vectors are touched by one thread at a time *)
Theorem poll_mutex sched t1 t2 :
  let ls := snd (m_run sched) in
  in_cs (ls t1) = true -> in_cs (ls t2) = true -> t1 = t2.
Proof.
  intros ls H1 H2. pose proof (inv_run sched) as I.
  apply (i_lock_cs _ _ I) in H1. apply (i_lock_cs _ _ I) in H2. congruence.
Qed.

Lemma somes_nil v : somes v = [] -> ~ In None v -> v = [].
Proof.
  destruct v as [|[r|] v]; cbn; auto; [discriminate|]. intros _ H. exfalso. apply H. now left.
Qed.

(* enable/disable balance, data side: when every thread is outside the MPI code and the
   in-flight counter is zero (the precondition of stop_polling), the poller is back in its
   initial state: nothing queued, vectors empty, lock free — the next enable starts clean *)
Theorem polling_clean_at_zero sched :
  let g := fst (m_run sched) in
  (forall t, snd (m_run sched) t = Idle) -> in_flight g = 0 ->
  rq g = [] /\ vreq g = [] /\ vcb g = [] /\ ready g = [] /\ lock g = None.
Proof.
  intros g Q Z. pose proof (inv_run sched) as I. fold g in I.
  assert (NT : no_transient (snd (m_run sched))) by (intros t; now rewrite Q).
  pose proof (in_flight_exact_quiescent sched NT) as E. fold g in E. rewrite Z in E.
  assert (Hl : lock g = None).
  { destruct (lock g) as [t|] eqn:L; [|reflexivity]. apply (i_cs_lock _ _ I) in L. rewrite Q in L. discriminate. }
  assert (Hv : vreq g = []).
  { apply somes_nil; [|now apply (i_nolock_nonull _ _ I)]. unfold nonnull in E.
    destruct (somes (vreq g)); [reflexivity|cbn in E; lia]. }
  repeat split; auto.
  - destruct (rq g); [reflexivity|cbn in E; lia].
  - pose proof (i_vec_pair _ _ I) as P. rewrite Hv in P. now inversion P.
  - destruct (ready g); [reflexivity|cbn in E; lia].
Qed.

(* ------------------------------------------------------------------ PART B *)
Definition t_inv (s : tstate) : Prop :=
  (t_pc s = TDone -> length (t_sigs s) = 1) /\ (t_pc s <> TDone -> t_sigs s = []) /\ (In SigValue (t_sigs s) -> t_tested s = true) /\ (t_pc s = TTrigger -> t_reqnull s = false) /\
  (t_pc s = TSpawned -> t_tested s = true) /\ (t_pc s = TWait -> t_completed s = true -> t_tested s = true).

Lemma tm_step_inv m s e : t_inv s -> t_inv (tm_step true m s e).
Proof.
  destruct s as [p sg rn rg cp er ts]. destruct m as [me a b c]. unfold t_inv. cbn.
  intros (H1 & H2 & H3 & H4 & H5 & H6).
  destruct p; try (assert (sg = []) as -> by (apply H2; discriminate)); cbn.
  all: destruct e as [[| |]|[|]|[|]| |]; cbn; try tauto;
    repeat match goal with
           | |- context [if ?b then _ else _] => destruct b; cbn
           | |- context [match ?x with YieldWhile => _ | _ => _ end] => destruct x; cbn
           end;
    try (repeat split; try tauto; try discriminate; try congruence;
         intros; try discriminate; try tauto; intuition (try discriminate; try congruence)).
  all: try (specialize (H4 eq_refl); discriminate).
  all: try (specialize (H4 eq_refl); subst; reflexivity).
  all: try (subst; reflexivity).
  all: auto.
Qed.

Lemma tm_run_inv m evs s : t_inv s -> t_inv (fold_left (tm_step true m) evs s).
Proof. revert s. induction evs as [|e evs IH]; intros s H; cbn; [assumption|]. apply IH. now apply tm_step_inv. Qed.

Lemma t_inv_init : t_inv t_init.
Proof. unfold t_inv. cbn. repeat split; try discriminate; tauto. Qed.

Lemma tm_one_signal_guarded m evs :
  let s := tm_run true m evs in
  length (t_sigs s) <= 1 /\ (t_pc s = TDone <-> length (t_sigs s) = 1) /\ (In SigValue (t_sigs s) -> t_tested s = true).
Proof.
  intros s. destruct (tm_run_inv m evs t_init t_inv_init) as (H1 & H2 & H3 & _). fold (tm_run true m evs) in *. fold s in H1, H2, H3.
  destruct (t_pc s) eqn:E; try (rewrite H2 by discriminate; cbn; repeat split; auto; try lia; try discriminate; tauto).
  rewrite H1 by reflexivity. repeat split; auto.
Qed.

(* stated about the operation as compiled (the guard flag comes from the translated source) *)
Theorem transform_mpi_one_signal m evs :
  let s := tm_run_cur m evs in
  length (t_sigs s) <= 1 /\ (t_pc s = TDone <-> length (t_sigs s) = 1) /\ (In SigValue (t_sigs s) -> t_tested s = true).
Proof. exact (tm_one_signal_guarded m evs). Qed.

(* the guard is necessary: without it (the code before the fix, F17) the error-status path signals twice *)
Lemma tm_unguarded_double_signal : forall m,
  t_sigs (tm_run false m [EDispatch DErr; EPoll false]) = [SigValue; SigError] /\ t_tested (tm_run false m [EDispatch DErr; EPoll false]) = false.
Proof. intros m. cbn. split; reflexivity. Qed.

(* every mode completes: a fair environment drives the operation to TDone with exactly one signal *)
Definition tm_happy (m : cmode) (err : bool) : list tev :=
  [EDispatch DOk; EPoll false] ++
  match m_method m with
  | YieldWhile => [EPoll false; EPoll true]
  | SuspendResume => [EWake; ECallback err; ECallback err; EWake]
  | NewTask => [ECallback err; ERunTask]
  | Continuation => [ECallback err; ECallback err]
  end.
Lemma tm_completes : forall m err, In m all_modes ->
  t_pc (tm_run_cur m (tm_happy m err)) = TDone /\ t_sigs (tm_run_cur m (tm_happy m err)) =
    [if err && negb (match m_method m with YieldWhile => true | _ => false end) then SigError else SigValue].
Proof.
  intros m err H. unfold all_modes, all_methods in H. cbn in H.
  repeat (destruct H as [<-|H]; [destruct err; vm_compute; split; reflexivity|]). destruct H.
Qed.

(* ------------------------------------------------------------------ PART C *)
Lemma p_balanced_gen ops : forall s d, p_depth s = d -> (d = 0 -> p_fn s = None) ->
  balanced d ops = true ->
  p_fn (fold_left p_step ops s) = None /\ p_depth (fold_left p_step ops s) = 0.
Proof.
  induction ops as [|o ops IH]; intros s d Hd Hf Hb; cbn in *.
  - apply Nat.eqb_eq in Hb. subst. auto.
  - destruct o as [pool w m|]; apply andb_prop in Hb; destruct Hb as (Hb1 & Hb2); apply Nat.eqb_eq in Hb1.
    + apply (IH _ 1); cbn; auto; [lia|discriminate].
    + apply (IH _ 0); cbn; auto. lia.
Qed.

Theorem polling_balanced ops : balanced 0 ops = true ->
  p_fn (p_run ops) = None /\ p_depth (p_run ops) = 0.
Proof. intros H. apply (p_balanced_gen ops p_init 0); auto. Qed.

(* while enabled, a polling function is installed exactly when the handler method needs one *)
Theorem polling_enabled_iff pool w m :
  p_fn (p_run [PStart pool w m]) = match m_method m with YieldWhile => None | _ => Some (single_thread_mode pool w m) end.
Proof. destruct m as [[| | |] a b c]; reflexivity. Qed.

(* ------------------------------------------------------------------ compact_vectors in place *)
Lemma set_nth_length {A} k (v : A) l : length (set_nth k v l) = length l.
Proof. revert k. induction l as [|a l IH]; intros [|k]; cbn; auto. Qed.

Lemma firstn_set_nth {A} k (v : A) l : k < length l -> firstn (S k) (set_nth k v l) = firstn k l ++ [v].
Proof.
  revert k. induction l as [|a l IH]; intros k H; cbn in H; [lia|].
  destruct k as [|k]; [reflexivity|]. cbn [set_nth]. rewrite !firstn_cons, IH by lia. reflexivity.
Qed.

Lemma firstn_set_nth_le {A} j k (v : A) l : j <= k -> firstn j (set_nth k v l) = firstn j l.
Proof.
  revert j k. induction l as [|a l IH]; intros j k H; [destruct k; reflexivity|].
  destruct k as [|k]; [replace j with 0 by lia; reflexivity|].
  destruct j as [|j]; [reflexivity|]. cbn. rewrite IH by lia. reflexivity.
Qed.

Lemma skipn_set_nth {A} j k (v : A) l : k < j -> skipn j (set_nth k v l) = skipn j l.
Proof.
  revert j k. induction l as [|a l IH]; intros j k H; [destruct k; reflexivity|].
  destruct j as [|j]; [lia|]. destruct k as [|k]; [reflexivity|]. cbn. apply IH. lia.
Qed.

Lemma skipn_nth_error {A} i (l : list A) x : nth_error l i = Some x -> skipn i l = x :: skipn (S i) l.
Proof.
  revert i. induction l as [|a l IH]; intros [|i] H; cbn in H; try discriminate.
  - inversion H; reflexivity.
  - cbn [skipn]. rewrite (IH _ H). reflexivity.
Qed.

Lemma nth_error_of_skipn {A} i (l l' : list A) : skipn i l = skipn i l' -> nth_error l i = nth_error l' i.
Proof.
  revert l l'. induction i as [|i IH]; intros l l' H.
  - cbn in H. subst. reflexivity.
  - destruct l as [|a l], l' as [|b l']; cbn in *; auto.
    + rewrite <- (IH [] l' ); [destruct i; reflexivity|]. rewrite skipn_nil. assumption.
    + rewrite (IH l []); [destruct i; reflexivity|]. rewrite skipn_nil. assumption.
Qed.

Lemma firstn_S_nth {A} i (l : list A) x : nth_error l i = Some x -> firstn (S i) l = firstn i l ++ [x].
Proof.
  revert i. induction l as [|a l IH]; intros [|i] H; cbn in H; try discriminate.
  - inversion H; reflexivity.
  - cbn [firstn app]. rewrite <- (IH _ H). reflexivity.
Qed.

Lemma first_null_shift i rs : first_null i rs = i + first_null 0 rs.
Proof.
  revert i. induction rs as [|[r|] rs IH]; intros i; cbn; try lia.
  rewrite (IH (S i)), (IH 1). lia.
Qed.

Lemma first_null_le rs : first_null 0 rs <= length rs.
Proof. induction rs as [|[r|] rs IH]; cbn; try lia. rewrite first_null_shift. lia. Qed.

(* [compact] splits at the first null slot: the prefix before it is kept as it is *)
Lemma compact_first_null rs : forall cs, length rs = length cs ->
  compact rs cs =
  (firstn (first_null 0 rs) rs ++ fst (compact (skipn (S (first_null 0 rs)) rs) (skipn (S (first_null 0 rs)) cs)),
   firstn (first_null 0 rs) cs ++ snd (compact (skipn (S (first_null 0 rs)) rs) (skipn (S (first_null 0 rs)) cs))).
Proof.
  induction rs as [|[r|] rs IH]; intros [|c cs] L; cbn in L; try discriminate.
  - reflexivity.
  - cbn [first_null]. rewrite first_null_shift. cbn [plus]. cbn [compact firstn skipn].
    rewrite (IH cs) at 1 by lia. reflexivity.
  - cbn. destruct (compact rs cs); reflexivity.
Qed.

Lemma compact_app a : forall c b d, length a = length c ->
  compact (a ++ b) (c ++ d) = (fst (compact a c) ++ fst (compact b d), snd (compact a c) ++ snd (compact b d)).
Proof.
  induction a as [|[r|] a IH]; intros [|x c] b d L; cbn in L; try discriminate.
  - cbn. destruct (compact b d); reflexivity.
  - cbn. rewrite (IH c b d) by lia. destruct (compact a c); reflexivity.
  - cbn. apply IH. lia.
Qed.

(* the second loop: from (i, pos) the exit state, cut at the final write index, is the part already
   written followed by the compaction of the part not yet read *)
Lemma compact_loop_spec fuel : forall i pos rs cs,
  length rs = length cs -> pos <= i -> fuel = length rs - i ->
  let '(p, rs', cs') := compact_loop fuel i pos rs cs in
  (firstn p rs', firstn p cs') =
  (firstn pos rs ++ fst (compact (skipn i rs) (skipn i cs)), firstn pos cs ++ snd (compact (skipn i rs) (skipn i cs))).
Proof.
  induction fuel as [|f IH]; intros i pos rs cs L Hp Hf.
  - cbn. rewrite (skipn_all2 rs), (skipn_all2 cs) by lia. cbn. rewrite !app_nil_r. reflexivity.
  - cbn [compact_loop].
    destruct (nth_error rs i) as [x|] eqn:Er; [|apply nth_error_None in Er; lia].
    destruct (nth_error cs i) as [c|] eqn:Ec; [|apply nth_error_None in Ec; lia].
    rewrite (skipn_nth_error _ _ _ Er), (skipn_nth_error _ _ _ Ec).
    assert (Hi : i < length rs) by (apply nth_error_Some; congruence).
    destruct x as [r|].
    + specialize (IH (S i) (S pos) (set_nth pos (Some r) rs) (set_nth pos c cs)).
      rewrite !set_nth_length in IH. specialize (IH L ltac:(lia) ltac:(lia)).
      destruct (compact_loop f (S i) (S pos) _ _) as [[p rs'] cs']. rewrite IH.
      rewrite !firstn_set_nth, !skipn_set_nth by lia. cbn [compact].
      destruct (compact (skipn (S i) rs) (skipn (S i) cs)) as [a b]. cbn [fst snd].
      rewrite <- !app_assoc. reflexivity.
    + specialize (IH (S i) pos rs cs L ltac:(lia) ltac:(lia)).
      destruct (compact_loop f (S i) pos rs cs) as [[p rs'] cs']. rewrite IH. reflexivity.
Qed.

Theorem compact_inplace_correct rs cs : length rs = length cs -> compact_inplace rs cs = compact rs cs.
Proof.
  intros L. unfold compact_inplace.
  pose proof (compact_loop_spec (length rs - (first_null 0 rs + 1)) (first_null 0 rs + 1) (first_null 0 rs) rs cs
                L ltac:(lia) eq_refl) as H.
  destruct (compact_loop _ _ _ rs cs) as [[p rs'] cs']. rewrite H.
  rewrite (compact_first_null rs cs L). replace (first_null 0 rs + 1) with (S (first_null 0 rs)) by lia.
  reflexivity.
Qed.

Lemma Forall2_len {A B} (P : A -> B -> Prop) l1 l2 : Forall2 P l1 l2 -> length l1 = length l2.
Proof. induction 1; cbn; congruence. Qed.

(* the algorithm the code runs has the properties proved of the specification *)
Theorem compact_inplace_preserves rs cs : Forall2 pairP rs cs ->
  Forall2 pairP (fst (compact_inplace rs cs)) (snd (compact_inplace rs cs)) /\
  somes (fst (compact_inplace rs cs)) = somes rs /\ ~ In None (fst (compact_inplace rs cs)).
Proof.
  intros H. rewrite compact_inplace_correct by (eapply Forall2_len; eassumption).
  apply compact_pair; assumption.
Qed.

(* the PCompact step of the model (which uses [compact]) computes what the in-place loop computes *)
Theorem compact_step_is_inplace sched :
  let g := fst (m_run sched) in compact_inplace (vreq g) (vcb g) = compact (vreq g) (vcb g).
Proof.
  intros g. apply compact_inplace_correct. eapply Forall2_len. apply (vectors_paired sched).
Qed.

(* ---- intermediate states of the loop *)
Lemma compact_trace_last fuel : forall i pos rs cs d,
  snd (last (compact_trace fuel i pos rs cs) d) = compact_loop fuel i pos rs cs.
Proof.
  induction fuel as [|f IH]; intros i pos rs cs d; [reflexivity|].
  cbn [compact_trace compact_loop].
  destruct (nth_error rs i) as [[r|]|]; [| |reflexivity]; (destruct (nth_error cs i) as [c|]; [|reflexivity]).
  - specialize (IH (S i) (S pos) (set_nth pos (Some r) rs) (set_nth pos c cs) d). rewrite <- IH.
    destruct f; reflexivity.
  - specialize (IH (S i) pos rs cs d). rewrite <- IH. destruct f; reflexivity.
Qed.

(* loop invariant, relative to the vectors (rs0, cs0) at loop entry and any slot relation P
   that holds of them slot by slot:
   - write index strictly behind the read index; sizes unchanged;
   - every slot of the two vectors still satisfies P (a request is never next to a foreign callback:
     both vectors are always written at the same index with values read at the same index);
   - the written prefix is the compaction of the part read so far;
   - everything from the read index on is untouched (so the loop never reads a slot it has overwritten or
     moved from: [callbacks_[pos] = std::move(callbacks_[i])] leaves slot i moved-from, and i only grows) *)
Definition compact_inv (P : option req -> req * req -> Prop) (rs0 : list (option req)) (cs0 : list (req * req))
  (st : nat * (nat * list (option req) * list (req * req))) : Prop :=
  let '(i, (pos, rs, cs)) := st in
  pos < i /\ length rs = length rs0 /\ length cs = length cs0 /\
  Forall2 P rs cs /\
  (firstn pos rs, firstn pos cs) = compact (firstn i rs0) (firstn i cs0) /\
  skipn i rs = skipn i rs0 /\ skipn i cs = skipn i cs0.

Lemma Forall2_set_nth {A B} (P : A -> B -> Prop) k a b l1 l2 :
  Forall2 P l1 l2 -> P a b -> Forall2 P (set_nth k a l1) (set_nth k b l2).
Proof.
  intros H Hab. revert k. induction H; intros k; cbn; [constructor|].
  destruct k; constructor; auto.
Qed.

Lemma compact_snoc_some a c r x : length a = length c ->
  compact (a ++ [Some r]) (c ++ [x]) = (fst (compact a c) ++ [Some r], snd (compact a c) ++ [x]).
Proof. intros L. rewrite compact_app by assumption. reflexivity. Qed.

Lemma compact_snoc_none a c x : length a = length c -> compact (a ++ [None]) (c ++ [x]) = compact a c.
Proof. intros L. rewrite compact_app by assumption. cbn. rewrite !app_nil_r. destruct (compact a c); reflexivity. Qed.

Lemma compact_trace_inv P rs0 cs0 (L0 : length rs0 = length cs0) fuel : forall i pos rs cs,
  compact_inv P rs0 cs0 (i, (pos, rs, cs)) ->
  Forall (compact_inv P rs0 cs0) (compact_trace fuel i pos rs cs).
Proof.
  induction fuel as [|f IH]; intros i pos rs cs I; cbn [compact_trace]; constructor; auto.
  destruct I as (Hp & Lr & Lc & HP & Hpre & Sr & Sc).
  destruct (nth_error rs i) as [x|] eqn:Er; [|constructor].
  destruct (nth_error cs i) as [c|] eqn:Ec; [|destruct x; constructor].
  assert (Er0 : nth_error rs0 i = Some x) by (rewrite <- Er; symmetry; apply nth_error_of_skipn; assumption).
  assert (Ec0 : nth_error cs0 i = Some c) by (rewrite <- Ec; symmetry; apply nth_error_of_skipn; assumption).
  assert (Hi : i < length rs) by (apply nth_error_Some; congruence).
  assert (Lf : length (firstn i rs0) = length (firstn i cs0)) by (rewrite !firstn_length; lia).
  assert (Sr' : skipn (S i) rs = skipn (S i) rs0).
  { rewrite (skipn_nth_error _ _ _ Er), (skipn_nth_error _ _ _ Er0) in Sr. congruence. }
  assert (Sc' : skipn (S i) cs = skipn (S i) cs0).
  { rewrite (skipn_nth_error _ _ _ Ec), (skipn_nth_error _ _ _ Ec0) in Sc. congruence. }
  inversion Hpre as [[Hp1 Hp2]].
  destruct x as [r|]; apply IH; unfold compact_inv.
  - rewrite !set_nth_length, !firstn_set_nth, !skipn_set_nth by lia.
    rewrite (firstn_S_nth _ _ _ Er0), (firstn_S_nth _ _ _ Ec0), compact_snoc_some by assumption.
    rewrite <- Hpre. cbn [fst snd].
    repeat split; try assumption; try lia.
    apply Forall2_set_nth; [assumption|]. eapply Forall2_nth; eassumption.
  - rewrite (firstn_S_nth _ _ _ Er0), (firstn_S_nth _ _ _ Ec0), compact_snoc_none by assumption.
    repeat split; try assumption; lia.
Qed.

Lemma compact_upto_first_null rs : forall cs, length rs = length cs ->
  compact (firstn (S (first_null 0 rs)) rs) (firstn (S (first_null 0 rs)) cs) =
  (firstn (first_null 0 rs) rs, firstn (first_null 0 rs) cs).
Proof.
  induction rs as [|[r|] rs IH]; intros [|c cs] L; cbn in L; try discriminate; try reflexivity.
  cbn [first_null]. rewrite first_null_shift. cbn [plus]. rewrite !firstn_cons. cbn [compact].
  rewrite (IH cs) by lia. reflexivity.
Qed.

(* the states of compact_vectors's second loop, started as the code starts it *)
Theorem compact_inplace_aligned (P : option req -> req * req -> Prop) rs cs :
  Forall2 P rs cs -> Forall (compact_inv P rs cs) (compact_inplace_trace rs cs).
Proof.
  intros H. pose proof (Forall2_len _ _ _ H) as L. unfold compact_inplace_trace.
  apply compact_trace_inv; [assumption|]. unfold compact_inv.
  replace (first_null 0 rs + 1) with (S (first_null 0 rs)) by lia.
  rewrite compact_upto_first_null by assumption.
  repeat split; try assumption; lia.
Qed.

Theorem compact_inplace_aligned_in (P : option req -> req * req -> Prop) rs0 cs0 :
  Forall2 P rs0 cs0 ->
  forall i pos rs cs, In (i, (pos, rs, cs)) (compact_inplace_trace rs0 cs0) ->
  pos < i /\ length rs = length rs0 /\ length cs = length cs0 /\
  Forall2 P rs cs /\
  (firstn pos rs, firstn pos cs) = compact (firstn i rs0) (firstn i cs0) /\
  skipn i rs = skipn i rs0 /\ skipn i cs = skipn i cs0.
Proof.
  intros H i pos rs cs Hin.
  pose proof (compact_inplace_aligned P rs0 cs0 H) as F. rewrite Forall_forall in F.
  exact (F _ Hin).
Qed.

Theorem compact_inplace_trace_last rs cs d :
  snd (last (compact_inplace_trace rs cs) d) =
  compact_loop (length rs - (first_null 0 rs + 1)) (first_null 0 rs + 1) (first_null 0 rs) rs cs.
Proof. apply compact_trace_last. Qed.

(* the fuel [size - i] is the exact iteration count: more fuel changes nothing (the loop has left the
   vector), and with it the trace has one entry per loop head, the last one with read index = size *)
Lemma compact_loop_fuel fuel : forall i pos rs cs,
  length rs - i <= fuel -> compact_loop fuel i pos rs cs = compact_loop (length rs - i) i pos rs cs.
Proof.
  induction fuel as [|f IH]; intros i pos rs cs Hf.
  - replace (length rs - i) with 0 by lia. reflexivity.
  - destruct (length rs - i) as [|m] eqn:Em.
    + cbn. destruct (nth_error rs i) eqn:Er; [|reflexivity].
      assert (i < length rs) by (apply nth_error_Some; congruence). lia.
    + cbn [compact_loop].
      destruct (nth_error rs i) as [[r|]|]; [| |reflexivity]; (destruct (nth_error cs i) as [c|]; [|reflexivity]).
      * rewrite IH by (rewrite set_nth_length; lia). rewrite set_nth_length. f_equal. lia.
      * rewrite IH by lia. f_equal. lia.
Qed.

Theorem compact_inplace_fuel rs cs k :
  let pos := first_null 0 rs in
  compact_loop (length rs - (pos + 1) + k) (pos + 1) pos rs cs = compact_loop (length rs - (pos + 1)) (pos + 1) pos rs cs.
Proof. intros pos. apply compact_loop_fuel. lia. Qed.

Lemma compact_trace_length fuel : forall i pos rs cs,
  length rs = length cs -> i + fuel <= length rs ->
  length (compact_trace fuel i pos rs cs) = S fuel /\
  fst (last (compact_trace fuel i pos rs cs) (0, (0, [], []))) = i + fuel.
Proof.
  induction fuel as [|f IH]; intros i pos rs cs L Hf; [cbn; split; [reflexivity|lia]|].
  cbn [compact_trace].
  destruct (nth_error rs i) as [x|] eqn:Er; [|apply nth_error_None in Er; lia].
  destruct (nth_error cs i) as [c|] eqn:Ec; [|apply nth_error_None in Ec; lia].
  destruct x as [r|].
  - destruct (IH (S i) (S pos) (set_nth pos (Some r) rs) (set_nth pos c cs)) as [A B];
      [rewrite !set_nth_length; assumption|rewrite set_nth_length; lia|].
    cbn [length]. rewrite A. split; [reflexivity|].
    replace (i + S f) with (S i + f) by lia. rewrite <- B. destruct f; reflexivity.
  - destruct (IH (S i) pos rs cs L ltac:(lia)) as [A B].
    cbn [length]. rewrite A. split; [reflexivity|].
    replace (i + S f) with (S i + f) by lia. rewrite <- B. destruct f; reflexivity.
Qed.

(* if the vector has a null slot, the loop runs to the end of the vector: exit read index = size *)
Theorem compact_inplace_runs_to_end rs cs :
  length rs = length cs -> first_null 0 rs < length rs ->
  length (compact_inplace_trace rs cs) = length rs - first_null 0 rs /\
  fst (last (compact_inplace_trace rs cs) (0, (0, [], []))) = length rs.
Proof.
  intros L Hn. unfold compact_inplace_trace.
  destruct (compact_trace_length (length rs - (first_null 0 rs + 1)) (first_null 0 rs + 1) (first_null 0 rs) rs cs L ltac:(lia)) as [A B].
  rewrite A, B. lia.
Qed.
