(* Proofs/HandoffLifeProofs.v — C03: lifetime of the shared state of split / ensure_started /
   split_tuple, for every number of consumers and every schedule (ghost reference count over
   the hand-off model; the base step function is untouched, see hl_erase). *)
From Coq Require Import List NArith Bool Arith Lia Permutation.
From Pika Require Import Base.Conc Model.Sender Model.Handoff Model.HandoffLife Proofs.HandoffProofs.
Import ListNotations.

(* ================================================================== 0. scenarios *)
Definition all_in (_ : nat) : bool := true.     (* every receiver destroys its operation state inside the signal *)
Definition none_in (_ : nat) : bool := false.   (* every operation state is destroyed later by its owner *)

(* split, 2 consumers: consumer 1 starts the predecessor and stores its continuation, the
   predecessor completes and runs it, consumer 2 finds predecessor_done; both operation states
   are destroyed by their owners afterwards.  The state dies with the last reference, every read
   of v was made on a live state after v and predecessor_done were stored. *)
Example split_two_consumers :
  let st := hl_run HSplit (CVal [7%N]) 2 (with_oracle none_in [1; 1; 1; 1; 0; 0; 0; 0; 2; 2; 1; 2]) in
  l_rc (snd (fst st)) = 0 /\ l_alive (snd (fst st)) = false /\
  l_rel (snd (fst st)) = [2; 1; 0] /\
  l_reads (snd (fst st)) = [(2, 2, true, true, true); (1, 0, true, true, true)] /\
  l_bad (snd (fst st)) = [] /\
  consumers (fst (fst st)) = [2; 1].
Proof. vm_compute. repeat split. Qed.

(* the same with receivers that destroy their operation state inside the signal: the
   predecessor's own reference keeps the state alive until set_value returns *)
Example split_two_consumers_inline :
  let st := hl_run HSplit (CVal [7%N]) 2 (with_oracle all_in [1; 1; 1; 1; 2; 2; 2; 2; 0; 0; 0]) in
  let st' := step (hl_tstep HSplit (CVal [7%N]) 2) st (0, all_in) in
  l_rc (snd (fst st)) = 3 /\ l_alive (snd (fst st)) = true /\
  l_rc (snd (fst st')) = 0 /\ l_alive (snd (fst st')) = false /\
  l_rel (snd (fst st')) = [0; 2; 1] /\
  l_reads (snd (fst st')) = [(2, 0, true, true, true); (1, 0, true, true, true)] /\
  l_bad (snd (fst st')) = [].
Proof. vm_compute. repeat split. Qed.

(* split_tuple, the schedule that made the predecessor thread lock mtx and move `continuations`
   in freed memory while its receiver held a plain reference: consumer 1 starts the predecessor;
   the predecessor stores v and sets predecessor_done; both consumers see the flag, signal
   themselves, their receivers destroy their operation states.  The receiver's own reference now
   keeps the state alive until set_value returns. *)
Example tuple_witness :
  let st := hl_run HTuple (CVal [1%N; 2%N]) 2 (with_oracle all_in [1; 0; 0; 1; 2; 2; 0; 0]) in
  l_rc (snd (fst st)) = 0 /\ l_alive (snd (fst st)) = false /\
  l_rel (snd (fst st)) = [0; 2; 1] /\
  l_reads (snd (fst st)) = [(2, 2, true, true, true); (1, 1, true, true, true)] /\
  l_bad (snd (fst st)) = [].
Proof. vm_compute. repeat split. Qed.

(* ================================================================== 1. the ghost operations *)
Lemma mem_spec x l : mem x l = true <-> In x l.
Proof.
  unfold mem. rewrite existsb_exists. split.
  - intros (y & Hy & E). apply Nat.eqb_eq in E. now subst.
  - intros H. exists x. split; [exact H|apply Nat.eqb_refl].
Qed.

Lemma signalled_spec g t : signalled g t = true <-> In t (consumers g).
Proof.
  unfold signalled, consumers. rewrite existsb_exists, in_map_iff. split.
  - intros (x & Hx & E). apply Nat.eqb_eq in E. eauto.
  - intros (x & E & Hx). exists x. split; [exact Hx|now apply Nat.eqb_eq].
Qed.

Lemma access_live t pc lf : l_alive lf = true -> access t pc lf = lf.
Proof. unfold access. now intros ->. Qed.
Lemma access_rc t pc lf : l_rc (access t pc lf) = l_rc lf.
Proof. unfold access. now destruct (l_alive lf). Qed.
Lemma access_alive t pc lf : l_alive (access t pc lf) = l_alive lf.
Proof. unfold access. now destruct (l_alive lf) eqn:E. Qed.
Lemma access_rel t pc lf : l_rel (access t pc lf) = l_rel lf.
Proof. unfold access. now destruct (l_alive lf). Qed.
Lemma access_reads t pc lf : l_reads (access t pc lf) = l_reads lf.
Proof. unfold access. now destruct (l_alive lf). Qed.
Lemma access_bad t pc lf e : In e (l_bad (access t pc lf)) -> In e (l_bad lf) \/ (l_alive lf = false /\ e = (t, pc)).
Proof.
  unfold access. destruct (l_alive lf) eqn:E; [now left|].
  cbn [l_bad]. intros [<-|H]; auto.
Qed.

Lemma NoDup_app_disj {A} (l l' : list A) x : NoDup (l ++ l') -> In x l -> In x l' -> False.
Proof.
  induction l as [|a l IH]; cbn [app]; intros Hn Hl Hl'; [destruct Hl|].
  inversion Hn as [|? ? Hna Hd]; subst. destruct Hl as [->|Hl]; [|now apply IH].
  apply Hna. apply in_or_app. now right.
Qed.

Lemma NoDup_app_r {A} (l l' : list A) : NoDup (l ++ l') -> NoDup l'.
Proof.
  induction l as [|a l IH]; cbn [app]; intros H; [exact H|].
  inversion H; subst. auto.
Qed.

Section Life.
  Variable k : hkind.
  Variable c : completion.
  Variable n : nat.

  (* who holds a reference at the beginning *)
  Definition holder (h : nat) : Prop := (h = 0 /\ holds_ref k = true) \/ (1 <= h <= n).
  Definition holder_list : list nat := (if holds_ref k then [0] else []) ++ seq 1 n.

  Lemma holder_list_spec h : In h holder_list <-> holder h.
  Proof.
    unfold holder_list, holder. rewrite in_app_iff, in_seq. destruct (holds_ref k); cbn [In].
    - split; [intros [[<-|[]]|H]; [left; auto|right; lia]|intros [[-> _]|H]; [left; auto|right; lia]].
    - split; [intros [[]|H]; right; lia|intros [[_ H]|H]; [discriminate|right; lia]].
  Qed.

  Lemma holder_list_length : length holder_list = holders k n.
  Proof. unfold holder_list, holders. rewrite app_length, seq_length. destruct (holds_ref k); cbn [length]; lia. Qed.

  Lemma holder_list_nodup : NoDup holder_list.
  Proof.
    unfold holder_list. destruct (holds_ref k); cbn [app]; [|apply seq_NoDup].
    constructor; [|apply seq_NoDup]. rewrite in_seq. lia.
  Qed.

  (* counting: a holder that has not released keeps the count positive *)
  Lemma rel_lt (l : list nat) h : NoDup l -> (forall x, In x l -> holder x) -> holder h -> ~ In h l ->
    length l < holders k n.
  Proof.
    intros Hn Hh Hx Hnin. rewrite <- holder_list_length.
    assert (Hle : length (h :: l) <= length holder_list).
    { apply NoDup_incl_length; [constructor; auto|].
      intros x [<-|Hin]; apply holder_list_spec; auto. }
    cbn [length] in Hle. lia.
  Qed.

  (* ... and when as many have released as there are holders, every holder has *)
  Lemma rel_full (l : list nat) : NoDup l -> (forall x, In x l -> holder x) -> length l = holders k n ->
    forall h, holder h -> In h l.
  Proof.
    intros Hn Hh Hlen h Hx.
    assert (Hincl : incl holder_list l).
    { apply NoDup_length_incl; [exact Hn|rewrite holder_list_length; lia|].
      intros x Hin. apply holder_list_spec. auto. }
    apply Hincl. now apply holder_list_spec.
  Qed.

  (* well-formed ghost state *)
  Record LW (lf : life) : Prop := {
    w_count : l_rc lf + length (l_rel lf) = holders k n;
    w_nodup : NoDup (l_rel lf);
    w_holder : forall h, In h (l_rel lf) -> holder h;
    w_dead : l_alive lf = false -> l_rc lf = 0 /\ l_rel lf <> [];
    w_gone : l_rc lf = 0 -> l_rel lf <> [] -> l_alive lf = false
  }.

  Lemma LW_live lf h : LW lf -> holder h -> ~ In h (l_rel lf) -> l_rc lf > 0 /\ l_alive lf = true.
  Proof.
    intros [H1 H2 H3 H4 H5] Hh Hnin.
    assert (Hlt : length (l_rel lf) < holders k n) by (apply (rel_lt _ h); auto).
    assert (Hrc : l_rc lf > 0) by lia. split; [exact Hrc|].
    destruct (l_alive lf); [reflexivity|]. destruct (H4 eq_refl). lia.
  Qed.

  Lemma LW_access lf t pc : LW lf -> LW (access t pc lf).
  Proof.
    intros [H1 H2 H3 H4 H5]. constructor; rewrite ?access_rc, ?access_rel, ?access_alive; auto.
  Qed.

  Lemma LW_release lf h : LW lf -> holder h -> ~ In h (l_rel lf) -> LW (release h lf).
  Proof.
    intros H Hh Hnin. destruct (LW_live lf h H Hh Hnin) as [Hrc Hal].
    destruct H as [H1 H2 H3 H4 H5].
    constructor; cbn [release l_rc l_rel l_alive length].
    - lia.
    - constructor; auto.
    - intros x [<-|Hx]; auto.
    - rewrite Hal. cbn [andb]. intros E. split; [|discriminate].
      destruct (Nat.eqb (l_rc lf - 1) 0) eqn:E0; [now apply Nat.eqb_eq in E0|discriminate].
    - intros E _. rewrite E. cbn [Nat.eqb negb]. apply andb_false_r.
  Qed.

  (* one delivery to a consumer that still holds its reference *)
  Lemma deliver_live o g b pc lf cn : LW lf -> holder cn -> ~ In cn (l_rel lf) ->
    let lf' := deliver o g b pc lf cn in
    LW lf' /\
    (forall h, In h (l_rel lf) -> In h (l_rel lf')) /\
    (forall h, In h (l_rel lf') -> In h (l_rel lf) \/ h = cn) /\
    (o cn = true -> In cn (l_rel lf')) /\
    l_bad lf' = l_bad lf /\
    l_reads lf' = (cn, b, is_some (h_v g), h_done g, true) :: l_reads lf.
  Proof.
    intros H Hh Hnin. destruct (LW_live lf cn H Hh Hnin) as [Hrc Hal].
    cbn zeta. unfold deliver. rewrite (access_live _ _ _ Hal).
    assert (HW : LW (read_v cn b g lf)) by (destruct H; constructor; auto).
    destruct (o cn).
    - split; [apply LW_release; auto|].
      cbn [release read_v l_rel l_bad l_reads In]. rewrite Hal. repeat split; auto.
      intros h [<-|Hx]; auto.
    - split; [exact HW|]. cbn [read_v l_rel l_bad l_reads]. rewrite Hal. repeat split; auto. discriminate.
  Qed.

  (* the loop of set_predecessor_done over continuations whose consumers all still hold their
     references *)
  Lemma deliver_fold o g b pc : forall conts lf, LW lf -> NoDup conts ->
    (forall cn, In cn conts -> holder cn /\ ~ In cn (l_rel lf)) ->
    let lf' := fold_left (deliver o g b pc) conts lf in
    LW lf' /\
    (forall h, In h (l_rel lf) -> In h (l_rel lf')) /\
    (forall h, In h (l_rel lf') -> In h (l_rel lf) \/ In h conts) /\
    l_bad lf' = l_bad lf /\
    (forall e, In e (l_reads lf') -> In e (l_reads lf) \/
        exists cn, In cn conts /\ e = (cn, b, is_some (h_v g), h_done g, true)).
  Proof.
    induction conts as [|cn r IH]; intros lf H Hn Hc; cbn [fold_left]; cbn zeta.
    - split; [exact H|]. repeat split; auto.
    - inversion Hn as [|? ? Hnin Hnr]; subst.
      destruct (Hc cn (or_introl eq_refl)) as [Hh Hni].
      destruct (deliver_live o g b pc lf cn H Hh Hni) as (A1 & A2 & A3 & _ & A5 & A6).
      cbn zeta in *.
      destruct (IH (deliver o g b pc lf cn) A1 Hnr) as (B1 & B2 & B3 & B4 & B5).
      { intros x Hx. destruct (Hc x (or_intror Hx)) as [Hhx Hnx]. split; [exact Hhx|].
        intros Hin. destruct (A3 x Hin) as [?| ->]; auto. }
      cbn zeta in *. split; [exact B1|]. split; [auto|]. split; [|split].
      + intros h Hin. destruct (B3 h Hin) as [Hin'|Hin']; [|right; now right].
        destruct (A3 h Hin') as [?| ->]; [now left|right; now left].
      + congruence.
      + intros e Hin. destruct (B5 e Hin) as [Hin'|(x & Hx & ->)].
        * rewrite A6 in Hin'. destruct Hin' as [<-|Hin']; [|now left].
          right. exists cn. split; [now left|reflexivity].
        * right. exists x. split; [now right|reflexivity].
  Qed.

  (* ================================================================ 2. the invariant *)
  Definition good_read (e : nat * nat * bool * bool * bool) : Prop :=
    match e with
    | (cn, b, st, dn, al) => st = true /\ dn = true /\ al = true /\ (b = cn \/ b = 0) /\ 1 <= cn <= n
    end.

  Definition pcs (ls : locals (hpc * bool)) : locals hpc := fun t => fst (ls t).

  Record LInv (gl : hs * life) (ls : locals (hpc * bool)) : Prop := {
    li_h : HInv c (fst gl) (pcs ls);                 (* the hand-off invariant of the erased state *)
    li_out : forall t, n < t -> fst (ls t) = C0;
    li_w : LW (snd gl);
    li_rel : forall cn, cn <> 0 -> In cn (l_rel (snd gl)) -> In cn (consumers (fst gl));
    li_rel0 : In 0 (l_rel (snd gl)) -> fst (ls 0) = PEnd;
    li_reads : forall e, In e (l_reads (snd gl)) -> good_read e;
    li_bad : forall e, In e (l_bad (snd gl)) -> holds_ref k = false /\ (e = (0, P2) \/ e = (0, P3));
    li_flag : forall t, snd (ls t) = true -> In t (l_rel (snd gl));
    li_pend : holds_ref k = true -> fst (ls 0) = PEnd -> In 0 (l_rel (snd gl))
  }.

  Lemma pcs_upd (ls : locals (hpc * bool)) t l fl u : pcs (upd ls t (l, fl)) u = upd (pcs ls) t l u.
  Proof. unfold pcs, upd. now destruct (Nat.eqb u t). Qed.

  Lemma lupd_id (ls : locals (hpc * bool)) t u : upd ls t (ls t) u = ls u.
  Proof. unfold upd. destruct (Nat.eqb u t) eqn:E; [apply Nat.eqb_eq in E; now subst|reflexivity]. Qed.

  Lemma LInv_ext gl (ls ls' : locals (hpc * bool)) : (forall u, ls' u = ls u) -> LInv gl ls -> LInv gl ls'.
  Proof.
    intros E [H1 H2 H3 H4 H5 H6 H7 H8 H9].
    constructor; auto.
    - apply (HInv_ext c (fst gl) (pcs ls)); [|exact H1]. intros u. unfold pcs. now rewrite E.
    - intros t. rewrite E. auto.
    - rewrite E. auto.
    - intros t. rewrite E. auto.
    - rewrite E. auto.
  Qed.

  (* the shape of every non-stuttering step: what the ghost part has to guarantee *)
  Lemma LInv_step g lf (ls : locals (hpc * bool)) t g' l' fl' lf' :
    LInv (g, lf) ls -> t <= n ->
    HInv c g' (upd (pcs ls) t l') ->
    (forall cn, In cn (consumers g) -> In cn (consumers g')) ->
    LW lf' ->
    (forall h, In h (l_rel lf) -> In h (l_rel lf')) ->
    (forall h, In h (l_rel lf') -> In h (l_rel lf) \/ (h <> 0 /\ In h (consumers g')) \/ (h = 0 /\ t = 0 /\ l' = PEnd)) ->
    (t = 0 -> In 0 (l_rel lf) -> l' = PEnd) ->
    (forall e, In e (l_reads lf') -> In e (l_reads lf) \/ good_read e) ->
    (forall e, In e (l_bad lf') -> In e (l_bad lf) \/ (holds_ref k = false /\ (e = (0, P2) \/ e = (0, P3)))) ->
    (fl' = true -> In t (l_rel lf')) ->
    (t = 0 -> l' = PEnd -> holds_ref k = true -> In 0 (l_rel lf')) ->
    LInv (g', lf') (upd ls t (l', fl')).
  Proof.
    intros [H1 H2 H3 H4 H5 H6 H7 H8 H9] Ht Hh Hmono HW Hrm Hrn H0 Hrd Hbd Hfl Hpe.
    cbn [fst snd] in *.
    constructor; cbn [fst snd].
    - apply (HInv_ext c g' (upd (pcs ls) t l')); [|exact Hh]. intros u. apply pcs_upd.
    - intros u Hu. rewrite upd_other by lia. auto.
    - exact HW.
    - intros cn Hcn Hin. destruct (Hrn cn Hin) as [X|[[_ X]|[X _]]]; [auto|exact X|contradiction].
    - intros Hin. destruct (Hrn 0 Hin) as [X|[[X _]|(_ & -> & ->)]].
      + destruct (Nat.eq_dec t 0) as [->|Hne].
        * rewrite upd_same. cbn [fst]. auto.
        * rewrite upd_other by auto. auto.
      + contradiction.
      + now rewrite upd_same.
    - intros e Hin. destruct (Hrd e Hin); auto.
    - intros e Hin. destruct (Hbd e Hin); auto.
    - intros u. destruct (Nat.eq_dec u t) as [->|Hne].
      + rewrite upd_same. cbn [snd]. auto.
      + rewrite upd_other by auto. auto.
    - intros Hk. destruct (Nat.eq_dec t 0) as [->|Hne].
      + rewrite upd_same. cbn [fst]. intros E. apply Hpe; auto.
      + rewrite upd_other by auto. intros E. apply Hrm. auto.
  Qed.

  Lemma LInv_step_same g lf (ls : locals (hpc * bool)) t g' l' :
    LInv (g, lf) ls -> t <= n ->
    HInv c g' (upd (pcs ls) t l') ->
    (forall cn, In cn (consumers g) -> In cn (consumers g')) ->
    (t = 0 -> In 0 (l_rel lf) -> l' = PEnd) ->
    (t = 0 -> l' = PEnd -> fst (ls 0) = PEnd) ->
    LInv (g', lf) (upd ls t (l', snd (ls t))).
  Proof.
    intros H Ht Hh Hm H0 H0'. apply (LInv_step g lf ls t g' l' (snd (ls t)) lf H Ht Hh Hm); auto.
    - exact (li_w _ _ H).
    - apply (li_flag _ _ H).
    - intros E El Hk. apply (li_pend _ _ H Hk). auto.
  Qed.

  Lemma consumers_mono (o : unit) t g l cn :
    In cn (consumers g) -> In cn (consumers (fst (h_tstep k c o t g l))).
  Proof.
    intros Hin. destruct t as [|t']; cbn [h_tstep].
    - destruct l; cbn [fst]; auto.
      + destruct (h_started g); cbn [fst]; auto.
      + destruct (h_lock g); cbn [fst]; auto.
      + destruct (fold_signal (h_conts g) g) as (_ & _ & _ & _ & _ & Hlog).
        unfold consumers in *. cbn [set_conts h_log]. rewrite Hlog, map_app. apply in_or_app. now right.
    - destruct l; cbn [fst]; auto.
      + destruct k; cbn [fst]; auto.
      + destruct (h_done g); cbn [fst]; auto. unfold consumers in *. cbn [signal add_log h_log map]. now right.
      + destruct (h_lock g); cbn [fst]; auto. destruct (h_done g); cbn [fst]; auto.
        unfold consumers in *. cbn [signal add_log h_log map]. now right.
  Qed.

  Lemma p3_consumers g cn : In cn (h_conts g) ->
    In cn (consumers (set_conts (fold_left (fun g' cn => signal g' cn 0) (h_conts g) g) [])).
  Proof.
    intros Hin. destruct (fold_signal (h_conts g) g) as (_ & _ & _ & _ & _ & Hlog).
    unfold consumers. cbn [set_conts h_log]. rewrite Hlog, map_app, map_rev, map_map. cbn [fst].
    rewrite map_id. apply in_or_app. left. now apply -> in_rev.
  Qed.

  Lemma done_v g (ls : locals hpc) : HInv c g ls -> h_done g = true -> is_some (h_v g) = true.
  Proof.
    intros H Hd. rewrite (i_v _ _ _ H); [reflexivity|].
    intros E. apply (i_done _ _ _ H) in Hd. rewrite E in Hd. intuition discriminate.
  Qed.

  (* nobody has been signalled, hence nobody has released, before predecessor_done is set *)
  Lemma pre_done_alive g lf ls : LInv (g, lf) ls -> h_done g = false -> l_alive lf = true.
  Proof.
    intros H Hd. pose proof (li_h _ _ H) as Hh. cbn [fst snd] in Hh.
    destruct (l_alive lf) eqn:Ea; [reflexivity|exfalso].
    destruct (w_dead _ (li_w _ _ H) Ea) as [_ Hne]. cbn [snd] in Hne.
    destruct (l_rel lf) as [|h r] eqn:Er; [now apply Hne|].
    destruct (Nat.eq_dec h 0) as [->|Hh0].
    - assert (E : fst (ls 0) = PEnd) by (apply (li_rel0 _ _ H); cbn [snd]; rewrite Er; now left).
      assert (X : h_done g = true) by (apply (i_done _ _ _ Hh); unfold pcs; auto). congruence.
    - assert (Hin : In h (consumers g)) by (apply (li_rel _ _ H); auto; cbn [snd]; rewrite Er; now left).
      unfold consumers in Hin. apply in_map_iff in Hin. destruct Hin as ([[cn b] e] & _ & Hin).
      destruct (i_log _ _ _ Hh _ _ _ Hin) as (_ & _ & X & _). congruence.
  Qed.

  (* split / ensure_started: the receiver's reference is there until the predecessor thread is through *)
  Lemma pred_alive g lf ls : LInv (g, lf) ls -> holds_ref k = true -> fst (ls 0) <> PEnd ->
    ~ In 0 (l_rel lf) /\ l_alive lf = true.
  Proof.
    intros H Hk Hne.
    assert (Hnin : ~ In 0 (l_rel lf)) by (intros Hin; apply Hne; apply (li_rel0 _ _ H); exact Hin).
    split; [exact Hnin|]. apply (LW_live lf 0 (li_w _ _ H)); [left; auto|exact Hnin].
  Qed.

  (* a consumer that has not been signalled has not released *)
  Lemma cons_alive g lf ls t : LInv (g, lf) ls -> 1 <= t <= n -> ~ In t (consumers g) ->
    holder t /\ ~ In t (l_rel lf) /\ l_alive lf = true.
  Proof.
    intros H Ht Hns.
    assert (Hh : holder t) by (right; exact Ht).
    assert (Hnin : ~ In t (l_rel lf)).
    { intros Hin. apply Hns. apply (li_rel _ _ H); [lia|exact Hin]. }
    repeat split; auto. apply (LW_live lf t (li_w _ _ H)); auto.
  Qed.

  Lemma cons_running g lf ls t : LInv (g, lf) ls -> fst (ls t) <> CEnd -> ~ In t (consumers g).
  Proof.
    intros H Hne Hin. apply (consumers_not_end c g (pcs ls) t (li_h _ _ H) Hne).
    apply in_or_app. now left.
  Qed.

  Lemma cont_holder g lf ls cn : LInv (g, lf) ls -> In cn (h_conts g) ->
    cn <> 0 /\ holder cn /\ ~ In cn (l_rel lf).
  Proof.
    intros H Hin. pose proof (li_h _ _ H) as Hh. cbn [fst] in Hh.
    destruct (i_conts _ _ _ Hh _ Hin) as [Hc0 Hce]. unfold pcs in Hce.
    assert (Hle : 1 <= cn <= n).
    { split; [lia|]. destruct (le_lt_dec cn n) as [?|Hgt]; [auto|].
      rewrite (li_out _ _ H cn Hgt) in Hce. discriminate. }
    assert (Hns : ~ In cn (consumers g)).
    { intros Hs. exact (NoDup_app_disj _ _ cn (i_nodup _ _ _ Hh) Hs Hin). }
    destruct (cons_alive g lf ls cn H Hle Hns) as (A & B & _). auto.
  Qed.

  (* consumer t reads predecessor_done = true and runs its own continuation *)
  Lemma self_signal_life o g lf (ls : locals (hpc * bool)) t pc :
    LInv (g, lf) ls -> 1 <= t <= n -> fst (ls t) <> CEnd -> h_done g = true ->
    HInv c (signal g t t) (upd (pcs ls) t CEnd) ->
    LInv (signal g t t, deliver o g t pc lf t) (upd ls t (CEnd, o t)).
  Proof.
    intros H Ht Hne Hd Hh.
    destruct (cons_alive g lf ls t H Ht (cons_running g lf ls t H Hne)) as (A & B & _).
    destruct (deliver_live o g t pc lf t (li_w _ _ H) A B) as (D1 & D2 & D3 & D4 & D5 & D6).
    cbn zeta in *.
    apply (LInv_step g lf ls t _ _ _ _ H); auto; try lia.
    - intros cn Hin. unfold consumers in *. cbn [signal add_log h_log map]. now right.
    - intros h Hin. destruct (D3 h Hin) as [?| ->]; [now left|].
      right. left. split; [lia|]. unfold consumers. cbn [signal add_log h_log map fst]. now left.
    - intros e Hin. rewrite D6 in Hin. destruct Hin as [<-|Hin]; [right|now left].
      cbn [good_read]. rewrite (done_v g (pcs ls) (li_h _ _ H) Hd), Hd. repeat split; auto; lia.
    - intros e Hin. rewrite D5 in Hin. now left.
  Qed.

  Lemma hlstep_inv : forall (o : nat -> bool) t gl (ls : locals (hpc * bool)), LInv gl ls ->
    LInv (fst (hl_tstep k c n o t gl (ls t))) (upd ls t (snd (hl_tstep k c n o t gl (ls t)))).
  Proof.
    intros o t [g lf] ls H. unfold hl_tstep.
    destruct (Nat.ltb n t) eqn:Elt; cbn [fst snd].
    { apply (LInv_ext (g, lf) ls); [apply lupd_id|exact H]. }
    apply Nat.ltb_ge in Elt.
    pose proof (li_h _ _ H) as HI. cbn [fst] in HI.
    pose proof (hstep_inv k c tt t g (pcs ls) HI) as Hh.
    pose proof (fun cn => consumers_mono tt t g (fst (ls t)) cn) as Hm.
    change (pcs ls t) with (fst (ls t)) in Hh.
    destruct t as [|t'].
    - (* the predecessor thread *)
      destruct (i_pred _ _ _ HI) as [E0|[E0|[E0|[E0|E0]]]]; unfold pcs in E0; rewrite E0 in *;
        cbn [h_tstep hl_ghost hl_flag fst snd] in *.
      + (* P0 *)
        destruct (h_started g); cbn [fst snd] in *.
        * assert (Hnd : h_done g = false).
          { destruct (h_done g) eqn:Ed; [|reflexivity]. apply (i_done _ _ _ HI) in Ed. unfold pcs in Ed. rewrite E0 in Ed. intuition discriminate. }
          rewrite (access_live _ _ _ (pre_done_alive g lf ls H Hnd)).
          apply (LInv_step_same g); auto; [intros _ Hin; apply (li_rel0 _ _ H) in Hin; congruence|intros _ X; discriminate X].
        * apply (LInv_step_same g); auto; [intros _ Hin; apply (li_rel0 _ _ H) in Hin; congruence|intros _ X; discriminate X].
      + (* P1 *)
        assert (Hnd : h_done g = false).
        { destruct (h_done g) eqn:Ed; [|reflexivity]. apply (i_done _ _ _ HI) in Ed. unfold pcs in Ed. rewrite E0 in Ed. intuition discriminate. }
        rewrite (access_live _ _ _ (pre_done_alive g lf ls H Hnd)).
        apply (LInv_step_same g); auto; [intros _ Hin; apply (li_rel0 _ _ H) in Hin; congruence|intros _ X; discriminate X].
      + (* P2: the lock attempt; split_tuple may touch a dead state here *)
        set (g' := fst (match h_lock g with None => (g, P3) | Some _ => (g, P2) end)) in *.
        set (l' := snd (match h_lock g with None => (g, P3) | Some _ => (g, P2) end)) in *.
        assert (Hl' : l' <> PEnd) by (unfold l'; destruct (h_lock g); discriminate).
        apply (LInv_step g lf ls 0 g' l' _ _ H); auto.
        * apply LW_access. exact (li_w _ _ H).
        * intros h. now rewrite access_rel.
        * intros h. rewrite access_rel. now left.
        * intros _ Hin. apply (li_rel0 _ _ H) in Hin. congruence.
        * intros e. rewrite access_reads. now left.
        * intros e Hin. apply access_bad in Hin. destruct Hin as [?|[Ha ->]]; [now left|right].
          split; [|now left]. destruct (holds_ref k) eqn:Ek; [|reflexivity].
          destruct (pred_alive g lf ls H Ek) as [_ X]; [rewrite E0; discriminate|congruence].
        * rewrite access_rel. apply (li_flag _ _ H).
        * intros _ X. contradiction.
      + (* P3: run the continuations, clear them, drop the receiver's reference *)
        assert (HW1 : LW (access 0 P3 lf)) by (apply LW_access; exact (li_w _ _ H)).
        assert (Hd : h_done g = true) by (apply (i_done _ _ _ HI); unfold pcs; rewrite E0; auto).
        assert (Hnc : NoDup (h_conts g)) by (exact (NoDup_app_r _ _ (i_nodup _ _ _ HI))).
        destruct (deliver_fold o g 0 P3 (h_conts g) (access 0 P3 lf) HW1 Hnc) as (B1 & B2 & B3 & B4 & B5).
        { intros cn Hin. rewrite access_rel. destruct (cont_holder g lf ls cn H Hin) as (_ & ? & ?). auto. }
        cbn zeta in *. rewrite access_rel in *.
        set (lf2 := fold_left (deliver o g 0 P3) (h_conts g) (access 0 P3 lf)) in *.
        assert (Hreads : forall e, In e (l_reads lf2) -> In e (l_reads lf) \/ good_read e).
        { intros e Hin. destruct (B5 e Hin) as [Hin'|(cn & Hcn & ->)].
          - rewrite access_reads in Hin'. now left.
          - right. cbn [good_read]. rewrite (done_v g (pcs ls) HI Hd), Hd.
            destruct (cont_holder g lf ls cn H Hcn) as (Hc0 & [[? _]|?] & _); [contradiction|].
            repeat split; auto; lia. }
        assert (Hnew : forall h, In h (l_rel lf2) -> In h (l_rel lf) \/
                  h <> 0 /\ In h (consumers (set_conts (fold_left (fun g' cn => signal g' cn 0) (h_conts g) g) []))).
        { intros h Hin. destruct (B3 h Hin) as [?|Hc]; [now left|right].
          destruct (cont_holder g lf ls h H Hc) as (Hc0 & _). split; [exact Hc0|now apply p3_consumers]. }
        destruct (holds_ref k) eqn:Ek.
        * destruct (pred_alive g lf ls H Ek) as [Hn0 Hal]; [rewrite E0; discriminate|].
          assert (Hn2 : ~ In 0 (l_rel lf2)).
          { intros Hin. destruct (Hnew 0 Hin) as [?|[? _]]; contradiction. }
          assert (Hh0 : holder 0) by (left; auto).
          destruct (LW_live lf2 0 B1 Hh0 Hn2) as [_ Hal2].
          rewrite (access_live _ _ _ Hal2).
          apply (LInv_step g lf ls 0 _ _ _ _ H); auto.
          -- apply LW_release; auto.
          -- intros h Hin. cbn [release l_rel]. right. auto.
          -- intros h Hin. cbn [release l_rel] in Hin. destruct Hin as [<-|Hin]; [right; right; auto|].
             destruct (Hnew h Hin); auto.
          -- intros e Hin. cbn [release l_bad] in Hin. rewrite B4 in Hin. apply access_bad in Hin.
             destruct Hin as [?|[Ha _]]; [now left|congruence].
          -- intros _. cbn [release l_rel]. now left.
          -- intros _ _ _. cbn [release l_rel]. now left.
        * apply (LInv_step g lf ls 0 _ _ _ _ H); auto.
          -- intros h Hin. destruct (Hnew h Hin); auto.
          -- intros e Hin. rewrite B4 in Hin. apply access_bad in Hin.
             destruct Hin as [?|[Ha ->]]; [now left|right]. auto.
          -- discriminate.
          -- intros _ _ X. congruence.
      + (* PEnd *)
        apply (LInv_step_same g); auto.
    - (* a consumer thread *)
      set (t := S t') in *.
      assert (Ht : 1 <= t <= n) by (unfold t; lia).
      assert (Ht0 : t <> 0) by lia.
      assert (Hrun : fst (ls t) <> CEnd -> l_alive lf = true).
      { intros Hne. destruct (cons_alive g lf ls t H Ht (cons_running g lf ls t H Hne)) as (_ & _ & X). exact X. }
      destruct (i_cons _ _ _ HI t Ht0) as [Et|[Et|[Et|[Et|Et]]]]; unfold pcs in Et;
        assert (Hne : fst (ls t) <> CEnd \/ fst (ls t) = CEnd) by (rewrite Et; first [left; discriminate|right; reflexivity]);
        revert Hrun Hne; rewrite Et in *; intros Hrun Hne;
        unfold t in Hh, Hm |- *; cbn [h_tstep hl_ghost hl_flag fst snd] in *; fold t in Hh, Hm |- *.
      + (* C0 *)
        rewrite (access_live _ _ _ (Hrun ltac:(discriminate))).
        apply (LInv_step_same g); auto; intros; lia.
      + (* C1 *)
        destruct (h_done g) eqn:Ed; cbn [fst snd] in *.
        * apply self_signal_life; auto. rewrite Et. discriminate.
        * rewrite (access_live _ _ _ (Hrun ltac:(discriminate))).
          apply (LInv_step_same g); auto; intros; lia.
      + (* C2 *)
        destruct (h_lock g) as [hl|] eqn:El; cbn [fst snd] in *.
        * rewrite (access_live _ _ _ (Hrun ltac:(discriminate))).
          apply (LInv_step_same g); auto; intros; lia.
        * destruct (h_done g) eqn:Ed; cbn [fst snd] in *.
          -- apply self_signal_life; auto. rewrite Et. discriminate.
          -- rewrite (access_live _ _ _ (Hrun ltac:(discriminate))).
             apply (LInv_step_same g); auto; intros; lia.
      + (* C3 *)
        rewrite (access_live _ _ _ (Hrun ltac:(discriminate))).
        apply (LInv_step_same g); auto; intros; lia.
      + (* CEnd: the owner destroys the operation state once its receiver has been signalled *)
        destruct (signalled g t) eqn:Es; cbn [andb].
        * apply signalled_spec in Es.
          destruct (mem t (l_rel lf)) eqn:Em; cbn [negb].
          -- apply mem_spec in Em. apply (LInv_step g lf ls t _ _ _ _ H); auto; try lia.
             exact (li_w _ _ H).
          -- assert (Hnin : ~ In t (l_rel lf)) by (intros Hin; apply mem_spec in Hin; congruence).
             apply (LInv_step g lf ls t _ _ _ _ H); auto; try lia.
             ++ apply LW_release; [exact (li_w _ _ H)|right; exact Ht|exact Hnin].
             ++ intros h Hin. cbn [release l_rel]. now right.
             ++ intros h Hin. cbn [release l_rel] in Hin. destruct Hin as [<-|Hin]; [right; left; auto|now left].
             ++ intros _. cbn [release l_rel]. now left.
        * rewrite orb_false_r. apply (LInv_step_same g); auto; intros; lia.
  Qed.

  Lemma hlinit_inv : LInv (h_init k, hl_init k n) hl_locals.
  Proof.
    constructor; cbn [fst snd hl_init hl_locals l_rc l_alive l_rel l_reads l_bad].
    - apply (HInv_ext c (h_init k) h_locals); [reflexivity|apply hinit_inv].
    - intros t Ht. destruct t; [lia|reflexivity].
    - constructor; cbn [hl_init l_rc l_alive l_rel length]; [lia|constructor|intros h []|discriminate|intros _ X; now elim X].
    - intros cn _ [].
    - intros [].
    - intros e [].
    - intros e [].
    - discriminate.
    - intros _ X. cbn [h_locals] in X. discriminate X.
  Qed.

  Theorem hl_run_inv sched : LInv (fst (hl_run k c n sched)) (snd (hl_run k c n sched)).
  Proof.
    unfold hl_run.
    apply (run_inv (hs * life) (hpc * bool) (nat -> bool) (hl_tstep k c n) LInv hlstep_inv).
    exact hlinit_inv.
  Qed.

  (* ================================================================ 3. the wrapper is ghost-only *)
  Local Notation erase_sched sched := (map (fun x : nat * (nat -> bool) => (fst x, tt)) sched).

  Lemma hl_erase_gen : forall sched (c1 : (hs * life) * locals (hpc * bool)) (c2 : hs * locals hpc),
    (forall x, In x sched -> fst x <= n) ->
    fst (fst c1) = fst c2 -> (forall t, fst (snd c1 t) = snd c2 t) ->
    fst (fst (run (hl_tstep k c n) sched c1)) = fst (run (h_tstep k c) (erase_sched sched) c2) /\
    (forall t, fst (snd (run (hl_tstep k c n) sched c1) t) = snd (run (h_tstep k c) (erase_sched sched) c2) t).
  Proof.
    induction sched as [|[t o] s IH]; intros c1 c2 Hle Hg Hl; [split; assumption|].
    cbn [map fst]. rewrite !run_cons. apply IH.
    - intros x Hx. apply Hle. now right.
    - destruct c1 as [[g lf] ls], c2 as [g2 ls2]. cbn [fst snd] in *. subst g2.
      cbn [step fst snd]. unfold hl_tstep.
      assert (E : Nat.ltb n t = false) by (apply Nat.ltb_ge; apply (Hle (t, o)); now left).
      rewrite E. cbn [fst snd]. rewrite Hl.
      destruct (h_tstep k c tt t g (ls2 t)) as [g' l']. reflexivity.
    - destruct c1 as [[g lf] ls], c2 as [g2 ls2]. cbn [fst snd] in *. subst g2.
      cbn [step fst snd]. unfold hl_tstep.
      assert (E : Nat.ltb n t = false) by (apply Nat.ltb_ge; apply (Hle (t, o)); now left).
      rewrite E. cbn [fst snd]. rewrite Hl.
      destruct (h_tstep k c tt t g (ls2 t)) as [g' l']. cbn [fst snd].
      intros u. unfold upd. destruct (Nat.eqb u t); [reflexivity|apply Hl].
  Qed.

  (* erasing the ghost components gives exactly the run of the base model *)
  Theorem hl_erase sched : (forall x, In x sched -> fst x <= n) ->
    fst (fst (hl_run k c n sched)) = fst (h_run k c (erase_sched sched)) /\
    (forall t, fst (snd (hl_run k c n sched) t) = snd (h_run k c (erase_sched sched)) t).
  Proof.
    intros Hle. unfold hl_run, h_run. apply hl_erase_gen; auto.
  Qed.

  (* ================================================================ 4. the theorems *)
  (* (a) the variant is read only after it was stored and predecessor_done set, only while the
         shared state is alive, by the consumer itself or by the predecessor thread on its behalf;
     (b) the state is destroyed only after every consumer has been signalled and every holder
         has dropped its reference (for split / ensure_started: the predecessor thread is
         through with set_predecessor_done);
     (c) only signalled consumers release, nobody releases twice, the count is exact. *)
  Theorem handoff_value_outlives sched :
    let g := fst (fst (hl_run k c n sched)) in
    let lf := snd (fst (hl_run k c n sched)) in
    let ls := snd (hl_run k c n sched) in
    (forall cn b st dn al, In (cn, b, st, dn, al) (l_reads lf) ->
        st = true /\ dn = true /\ al = true /\ (b = cn \/ b = 0) /\ 1 <= cn <= n) /\
    (l_alive lf = false ->
        l_rc lf = 0 /\
        (forall cn, 1 <= cn <= n -> In cn (consumers g) /\ In cn (l_rel lf)) /\
        (holds_ref k = true -> In 0 (l_rel lf) /\ fst (ls 0) = PEnd)) /\
    ((forall cn, cn <> 0 -> In cn (l_rel lf) -> In cn (consumers g)) /\
     NoDup (l_rel lf) /\
     l_rc lf + length (l_rel lf) = n + (if holds_ref k then 1 else 0)).
  Proof.
    cbn zeta. pose proof (hl_run_inv sched) as H.
    destruct (hl_run k c n sched) as [[g lf] ls]. cbn [fst snd] in *.
    pose proof (li_w _ _ H) as HW. cbn [snd] in HW.
    split; [|split].
    - intros cn b st dn al Hin. exact (li_reads _ _ H _ Hin).
    - intros Ha. destruct (w_dead _ HW Ha) as [Hrc _].
      assert (Hlen : length (l_rel lf) = holders k n) by (pose proof (w_count _ HW); lia).
      pose proof (rel_full (l_rel lf) (w_nodup _ HW) (w_holder _ HW) Hlen) as Hfull.
      split; [exact Hrc|]. split.
      + intros cn Hcn. assert (Hin : In cn (l_rel lf)) by (apply Hfull; right; exact Hcn).
        split; [|exact Hin]. apply (li_rel _ _ H); [lia|exact Hin].
      + intros Hk. assert (Hin : In 0 (l_rel lf)) by (apply Hfull; left; auto).
        split; [exact Hin|]. exact (li_rel0 _ _ H Hin).
    - split; [exact (li_rel _ _ H)|]. split; [exact (w_nodup _ HW)|exact (w_count _ HW)].
  Qed.

  (* split, ensure_started: no member of the shared state is touched after it was destroyed *)
  Theorem handoff_state_outlives sched : holds_ref k = true ->
    l_bad (snd (fst (hl_run k c n sched))) = [].
  Proof.
    intros Hk. pose proof (hl_run_inv sched) as H.
    destruct (l_bad (snd (fst (hl_run k c n sched)))) as [|e r] eqn:E; [reflexivity|].
    destruct (li_bad _ _ H e) as [X _]; [rewrite E; now left|congruence].
  Qed.

  (* all kinds (so in particular split_tuple): only the predecessor thread's lock_guard (P2)
     and its continuations.empty() (P3) can touch a destroyed state; the consumers, the emplace
     of v and the store to predecessor_done never do *)
  Theorem handoff_bad_only_pred_tail sched e :
    In e (l_bad (snd (fst (hl_run k c n sched)))) -> e = (0, P2) \/ e = (0, P3).
  Proof.
    intros Hin. pose proof (hl_run_inv sched) as H. destruct (li_bad _ _ H e Hin) as [_ X]. exact X.
  Qed.

  (* the thread-local flag is sound, and a released holder stays released *)
  Theorem handoff_flag_sound sched t :
    snd (snd (hl_run k c n sched) t) = true -> In t (l_rel (snd (fst (hl_run k c n sched)))).
  Proof. intros Hf. exact (li_flag _ _ (hl_run_inv sched) t Hf). Qed.

  (* no leak: once the predecessor thread is through (split / ensure_started) and every consumer's
     operation state has been destroyed, the shared state has been destroyed too *)
  Theorem handoff_state_released sched :
    let lf := snd (fst (hl_run k c n sched)) in
    let ls := snd (hl_run k c n sched) in
    holders k n > 0 ->
    (holds_ref k = true -> fst (ls 0) = PEnd) ->
    (forall t, 1 <= t <= n -> In t (l_rel lf)) ->
    l_rc lf = 0 /\ l_alive lf = false.
  Proof.
    cbn zeta. intros Hpos H0 Hall. pose proof (hl_run_inv sched) as H.
    destruct (hl_run k c n sched) as [[g lf] ls]. cbn [fst snd] in *.
    pose proof (li_w _ _ H) as HW. cbn [snd] in HW.
    assert (Hincl : incl holder_list (l_rel lf)).
    { intros h Hh. apply holder_list_spec in Hh. destruct Hh as [[-> Hk]|Hh]; [|auto].
      apply (li_pend _ _ H Hk). auto. }
    pose proof (NoDup_incl_length holder_list_nodup Hincl) as Hle. rewrite holder_list_length in Hle.
    pose proof (w_count _ HW) as Hc.
    assert (Hrc : l_rc lf = 0) by lia. split; [exact Hrc|].
    apply (w_gone _ HW Hrc). intros E. rewrite E in Hle. cbn [length] in Hle. lia.
  Qed.
End Life.

Lemma holds_ref_all k : holds_ref k = true.
Proof. destruct k; reflexivity. Qed.

(* all three adaptors *)
Theorem handoff_state_outlives_all k c n sched : l_bad (snd (fst (hl_run k c n sched))) = [].
Proof. apply handoff_state_outlives, holds_ref_all. Qed.

(* split_tuple with a stored continuation: consumer 1 stored its continuation, consumer 2
   signalled itself and released; the last continuation releases the last consumer reference
   inside the loop (the code moves the continuations to a local first, so it touches nothing of
   the state afterwards); the state dies with r *)
Example tuple_stored_continuation :
  let st := hl_run HTuple (CVal [1%N; 2%N]) 2 (with_oracle all_in [1; 1; 1; 1; 0; 0; 2; 2; 2; 0; 0]) in
  l_bad (snd (fst st)) = [] /\ l_alive (snd (fst st)) = false /\ l_rel (snd (fst st)) = [0; 1; 2] /\
  l_reads (snd (fst st)) = [(1, 0, true, true, true); (2, 2, true, true, true)].
Proof. vm_compute. repeat split. Qed.
