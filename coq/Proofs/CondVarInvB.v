(* Proofs/CondVarInvB.v — C07: the queue-related components of the invariant of Model/CondVar.v *)
From Coq Require Import List NArith Bool Arith Lia.
From Pika Require Import Base.Conc Base.Agent Model.CondVar Proofs.CondVarInvA.
Import ListNotations.

Lemma in_app_snoc (x t : nat) q p : In x ((q ++ [t]) ++ p) <-> In x (q ++ p) \/ x = t.
Proof. rewrite !in_app_iff. cbn. intuition. Qed.

Lemma nodup_app_snoc (t : nat) q p : NoDup (q ++ p) -> ~ In t (q ++ p) -> NoDup ((q ++ [t]) ++ p).
Proof.
  intros H Hn. rewrite <- app_assoc. cbn. apply (NoDup_Add (Add_app t q p)). split; assumption.
Qed.

Lemma nodup_app_remove (t : nat) q p : NoDup (q ++ p) -> NoDup (cremove t q ++ p).
Proof.
  intros H. unfold cremove. induction q as [|x q IH]; cbn in *; [exact H|].
  inversion H as [|? ? Hx Hq]; subst.
  destruct (Nat.eqb x t); cbn; [auto|].
  constructor; [|auto]. rewrite in_app_iff, filter_In. rewrite in_app_iff in Hx. tauto.
Qed.

Lemma pend_nil isos g (ls : locals cv_local) t : cv_inv isos g ls ->
  holds_i (cpc (ls t)) = true -> is_nres (cpc (ls t)) = false -> pend g = [].
Proof.
  intros I Hh Hn. destruct (pend g) as [|w p] eqn:Ep; [reflexivity|].
  destruct (c_p _ _ _ I) as [n [Hn1 Hn2]]; [rewrite Ep; discriminate|].
  apply (c_i _ _ _ I) in Hh. assert (n = t) by congruence. subst. congruence.
Qed.

Lemma nodup_snoc1 (w : nat) q : NoDup (w :: q) -> NoDup (q ++ [w]).
Proof. intros H. inversion H; subst. apply nodup_snoc; assumption. Qed.

Lemma cv_step_nodup isos o t g (ls : locals cv_local) : cv_inv isos g ls ->
  NoDup (cqueue (fst (cv_tstep isos o t g (ls t))) ++ pend (fst (cv_tstep isos o t g (ls t)))).
Proof.
  intros I. pose proof (c_nodup _ _ _ I) as Hn. pose proof (c_q _ _ _ I t) as Hq.
  pose proof (c_p _ _ _ I) as Hp. pose proof (c_i _ _ _ I) as Hi.
  cv_cases isos t g ls E; rewrite ?E in *; lsimp; auto using nodup_app_remove.
  all: try (apply nodup_app_snoc; [assumption|intros Hin; apply Hq in Hin; discriminate Hin]).
  all: try (cbn; solve [constructor]).
  all: try (assert (Hpn : pend g = []) by (apply (pend_nil isos g ls t I); rewrite E; reflexivity);
            rewrite Hpn, app_nil_r in Hn; cbn [app]; solve [auto using nodup_snoc1]).
  all: try (apply NoDup_remove_1 in Hn; exact Hn).
Qed.

Lemma cv_step_q isos o t g (ls : locals cv_local) : cv_inv isos g ls -> forall t',
  In t' (cqueue (fst (cv_tstep isos o t g (ls t))) ++ pend (fst (cv_tstep isos o t g (ls t)))) ->
  in_wait (cpc (upd ls t (snd (cv_tstep isos o t g (ls t))) t')) = true.
Proof.
  intros I t'. pose proof (c_q _ _ _ I) as Hq. pose proof (Hq t) as Hqt.
  pose proof (pend_nil isos g ls t I) as Hpn.
  cv_cases isos t g ls E; intros Hin; upd_cases t' t; rewrite ?E in *; lsimp; auto;
    try (apply Hq in Hin; rewrite ?E in Hin; exact Hin);
    try (apply Hqt in Hin; discriminate Hin).
  all: try (rewrite in_app_snoc in Hin; destruct Hin as [Hin|Hin]; [|congruence]).
  all: try (apply Hq; rewrite in_app_iff in *; rewrite ?in_cremove in Hin; cbn [In] in *; tauto).
  all: try (apply Hqt in Hin; discriminate Hin).
  all: try (rewrite Hpn in * by reflexivity).
  all: try (rewrite in_app_iff, in_cremove in Hin; cbn [In] in Hin; tauto).
  all: try (apply Hqt; rewrite in_app_iff in *; cbn [In] in *; tauto).
Qed.

Lemma cv_step_p isos o t g (ls : locals cv_local) : cv_inv isos g ls ->
  pend (fst (cv_tstep isos o t g (ls t))) <> [] ->
  exists n, ilock (fst (cv_tstep isos o t g (ls t))) = Some n /\
            is_nres (cpc (upd ls t (snd (cv_tstep isos o t g (ls t))) n)) = true.
Proof.
  intros I. pose proof (c_p _ _ _ I) as Hp. pose proof (c_i _ _ _ I) as Hi.
  pose proof (pend_nil isos g ls t I) as Hpn. pose proof (proj1 (Hi t)) as Hit.
  cv_cases isos t g ls E; intros Hne; rewrite ?E in *; lsimp;
    try (exfalso; apply Hne; reflexivity);
    try (exfalso; apply Hne; apply Hpn; reflexivity).
  (* the stepping thread is the notifier *)
  all: try (exists t; split; [auto; apply Hit; reflexivity | rewrite upd_same; reflexivity]).
  (* somebody else steps while a notifier holds I *)
  all: try (destruct (Hp Hne) as [n [Hn1 Hn2]]; exists n; split; [congruence|];
            upd_cases n t; [rewrite E in Hn2; discriminate Hn2 | exact Hn2]).
  all: try (destruct (Hp Hne) as [n [Hn1 Hn2]]; congruence).
Qed.

Lemma cv_step_b isos o t g (ls : locals cv_local) : cv_inv isos g ls -> forall t',
  blocked (cag (fst (cv_tstep isos o t g (ls t))) t') = true ->
  cpc (upd ls t (snd (cv_tstep isos o t g (ls t))) t') = CSusp /\
  In t' (cqueue (fst (cv_tstep isos o t g (ls t))) ++ pend (fst (cv_tstep isos o t g (ls t)))).
Proof.
  intros I t'. pose proof (c_b _ _ _ I) as Hb. pose proof (c_t _ _ _ I t) as Ht.
  pose proof (pend_nil isos g ls t I) as Hpn.
  assert (Hbt : cpc (ls t) <> CSusp -> blocked (cag g t) = false).
  { destruct (blocked (cag g t)) eqn:B; auto. intros H. destruct (Hb t B). contradiction. }
  cv_cases isos t g ls E; intros Hbl; upd_cases t' t; rewrite ?E in *; lsimp;
    cbn [a_phase_end blocked] in *;
    try (rewrite Hbt in Hbl by discriminate; discriminate Hbl);
    try discriminate Hbl;
    try (apply Hb in Hbl; rewrite ?E in Hbl; exact Hbl).
  all: try (apply Hb in Hbl; destruct Hbl as [Hp Hin]; split; [exact Hp|]).
  all: try (rewrite in_app_snoc; tauto).
  all: try (rewrite in_app_iff in *; rewrite ?in_cremove; cbn [In] in *; tauto).
  all: try congruence.
  (* a_suspend blocks only when there is no token, and then the entry is still registered *)
  all: try (split; [reflexivity|]; unfold a_suspend in Hbl; destruct (tok (cag g t)) eqn:Etok; [discriminate Hbl|];
            destruct (in_dec Nat.eq_dec t (cqueue g ++ pend g)) as [Hi|Hi]; [exact Hi|];
            destruct (Ht eq_refl eq_refl Hi) as [_ HT]; congruence).
  (* pop / swap: the same entries, moved to the notifier's list *)
  all: try (rewrite Hpn in Hin by reflexivity; rewrite ?app_nil_r in Hin; cbn [app In] in *;
            rewrite ?in_app_iff; cbn [In]; tauto).
  (* resume of the head of the notifier's list *)
  all: try (destruct (Nat.eq_dec t pw) as [Heq|Hneq];
            [subst; rewrite upd_same in Hbl; discriminate Hbl | rewrite upd_other in Hbl by assumption];
            rewrite Hbt in Hbl by discriminate; discriminate Hbl).
  all: try (destruct (Nat.eq_dec t' pw) as [Heq|Hneq];
            [subst; rewrite upd_same in Hbl; discriminate Hbl | rewrite upd_other in Hbl by assumption];
            apply Hb in Hbl; destruct Hbl as [Hp Hin]; split; [exact Hp|];
            rewrite in_app_iff in *; cbn [In] in Hin; intuition congruence).
Qed.

Lemma cv_step_t isos o t g (ls : locals cv_local) : cv_inv isos g ls -> forall t',
  let l' := upd ls t (snd (cv_tstep isos o t g (ls t))) t' in
  cpc l' = CPreSusp -> is_timed (cur_op l') = false ->
  ~ In t' (cqueue (fst (cv_tstep isos o t g (ls t))) ++ pend (fst (cv_tstep isos o t g (ls t)))) ->
  isos t' = false /\ tok (cag (fst (cv_tstep isos o t g (ls t))) t') = true.
Proof.
  intros I t'. pose proof (c_t _ _ _ I t') as Ht. pose proof (c_b _ _ _ I t') as Hb.
  pose proof (pend_nil isos g ls t I) as Hpn. cbv zeta.
  cv_cases isos t g ls E; intros Hp Htm Hn; upd_cases t' t; rewrite ?E in *; lsimp;
    try discriminate; try (apply Ht; assumption).
  all: try (exfalso; apply Hn; rewrite in_app_snoc; tauto).
  all: try (apply Ht; [assumption|assumption|]; intros Hi; apply Hn;
            rewrite ?in_app_snoc; rewrite in_app_iff in *; rewrite ?in_cremove; cbn [In] in *; tauto).
  all: try (rewrite Hpn in * by reflexivity; rewrite ?app_nil_r in *; cbn [app] in *; apply Ht; try assumption;
            intros Hi; apply Hn; rewrite ?in_app_iff in *; cbn [In] in *; tauto).
  - destruct (Nat.eq_dec t' pw) as [Heq|Hneq];
      [subst; destruct (Hb Ebw) as [Hc _]; congruence | rewrite upd_other by assumption].
    apply Ht; try assumption. intros Hi; apply Hn. rewrite in_app_iff in *; cbn [In] in Hi; intuition congruence.
  - destruct (Nat.eq_dec t' pw) as [Heq|Hneq]; [subst; rewrite upd_same | rewrite upd_other by assumption].
    + split; [assumption|]. cbn [a_resume tok]. destruct (blocked (cag g pw)) eqn:B; [|reflexivity].
      destruct (Hb eq_refl) as [Hc _]. congruence.
    + apply Ht; try assumption. intros Hi; apply Hn. rewrite in_app_iff in *; cbn [In] in Hi; intuition congruence.
Qed.
