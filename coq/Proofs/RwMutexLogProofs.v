(* Proofs/RwMutexLogProofs.v — second invariant layer of Model/RwMutex.v: the ghost event log
   (grant order, grant-once, versions seen), the single lineage of a read-write group and the
   reference count of the wrapped value.  Every sub-invariant is stated over the components of
   the shared state it reads, so that the updates of other components are transparent. *)
From Coq Require Import List Arith Bool Lia Sorted.
From Pika Require Import Base.Conc Model.RwMutex Proofs.RwMutexProofs.
Import ListNotations.

(* ---- projections of the log *)
Definition ev_grp (v : ev) : list nat :=
  match v with EGrant _ k _ | EUse _ k _ _ => [k] | _ => [] end.
Definition grps (l : list ev) : list nat := flat_map ev_grp l.
Definition is_write (v : ev) : bool := match v with EUse _ _ _ true => true | _ => false end.
Definition nwrites (l : list ev) : nat := length (filter is_write l).
Definition ev_gtok (v : ev) : list nat := match v with EGrant e _ _ => [e] | _ => [] end.
Definition grant_toks (l : list ev) : list nat := flat_map ev_gtok l.
Definition ge_nat (a b : nat) : Prop := b <= a.

Lemma in_grps_use e k s wr l : In (EUse e k s wr) l -> In k (grps l).
Proof. intros H. unfold grps. apply in_flat_map. eexists; split; [exact H|cbn; auto]. Qed.
Lemma in_grps_grant e k r l : In (EGrant e k r) l -> In k (grps l).
Proof. intros H. unfold grps. apply in_flat_map. eexists; split; [exact H|cbn; auto]. Qed.
Lemma in_gtoks e k r l : In (EGrant e k r) l -> In e (grant_toks l).
Proof. intros H. unfold grant_toks. apply in_flat_map. eexists; split; [exact H|cbn; auto]. Qed.
Lemma gtoks_in e l : In e (grant_toks l) -> exists k r, In (EGrant e k r) l.
Proof.
  unfold grant_toks. intros H. apply in_flat_map in H. destruct H as [v [Hv Hi]].
  destruct v; cbn in Hi; try contradiction. destruct Hi as [<-|[]]. eauto.
Qed.

(* the version recorded by a use is the number of writes logged before it *)
Fixpoint seen_ok (l : list ev) : Prop :=
  match l with
  | [] => True
  | EUse _ _ s _ :: r => s = nwrites r /\ seen_ok r
  | _ :: r => seen_ok r
  end.

(* group tables: kinds are fixed and the sentinel is permanent below ng *)
Definition gfr (ng : nat) (gs gs' : nat -> group) : Prop :=
  forall k, k < ng -> gkind (gs' k) = gkind (gs k) /\ (head (gs k) = HSent -> head (gs' k) = HSent).
Lemma gfr_refl ng gs : gfr ng gs gs. Proof. intros k _. auto. Qed.
Lemma gfr_fset ng gs k gr :
  (k < ng -> gkind gr = gkind (gs k) /\ (head (gs k) = HSent -> head gr = HSent)) -> gfr ng gs (fset gs k gr).
Proof. intros H j Hj. unfold fset. destruct (Nat.eqb_spec j k); subst; auto. Qed.
Lemma gfr_trans ng gs1 gs2 gs3 : gfr ng gs1 gs2 -> gfr ng gs2 gs3 -> gfr ng gs1 gs3.
Proof. intros A B k Hk. destruct (A k Hk) as [A1 A2], (B k Hk) as [B1 B2]. split; [congruence|auto]. Qed.
Lemma gfr_rel ng gs k t : gfr ng gs (fset gs k (rel_grp t (gs k))).
Proof.
  apply gfr_fset. intros _. unfold rel_grp. destruct (Nat.eqb (pred (refs (gs k))) 0); cbn; auto.
Qed.

(* ================= A: order of the log, versions ================= *)
Record GAc (gs : nat -> group) (ng : nat) (vr : nat) (log : list ev) : Prop := {
  g1 : forall k, In k (grps log) -> k < ng /\ head (gs k) = HSent;
  g2 : StronglySorted ge_nat (grps log);
  g3 : vr = nwrites log;
  g4 : forall e k s wr, In (EUse e k s wr) log -> wr = kind_eqb (gkind (gs k)) KW;
  g5 : seen_ok log
}.
Definition GA (g : shared) : Prop := GAc (grp g) (ngrp g) (ver g) (elog g).

Lemma GA_init : GA rw_init.
Proof. constructor; cbn; intros; try contradiction; try reflexivity. constructor. Qed.

Lemma GA_frame gs gs' ng ng' vr log : GAc gs ng vr log -> ng <= ng' -> gfr ng gs gs' -> GAc gs' ng' vr log.
Proof.
  intros [A1 A2 A3 A4 A5] Hn Hf. constructor; auto.
  - intros k Hk. destruct (A1 k Hk) as [Hlt Hh]. split; [lia|]. apply (Hf k Hlt). exact Hh.
  - intros e k s wr Hin. rewrite (A4 _ _ _ _ Hin).
    destruct (A1 k (in_grps_use _ _ _ _ _ Hin)) as [Hlt _]. destruct (Hf k Hlt) as [-> _]. reflexivity.
Qed.

Lemma GA_ev0 gs ng vr log v : GAc gs ng vr log -> ev_grp v = [] -> GAc gs ng vr (v :: log).
Proof.
  intros [A1 A2 A3 A4 A5] Hv. constructor.
  - unfold grps. cbn. rewrite Hv. exact A1.
  - unfold grps. cbn. rewrite Hv. exact A2.
  - unfold nwrites. cbn. destruct v; cbn in *; try assumption. discriminate.
  - intros e k s wr [->|Hin]; [discriminate|eauto].
  - destruct v; cbn in *; try assumption. discriminate.
Qed.

Lemma GA_evk gs ng vr log v k :
  GAc gs ng vr log -> ev_grp v = [k] -> k < ng -> head (gs k) = HSent ->
  (forall k', In k' (grps log) -> k' <= k) ->
  (forall e k0 s wr, v = EUse e k0 s wr -> wr = kind_eqb (gkind (gs k0)) KW /\ s = vr) ->
  GAc gs ng (if is_write v then S vr else vr) (v :: log).
Proof.
  intros [A1 A2 A3 A4 A5] Hv Hk Hh Hmax Hwr. constructor.
  - unfold grps. cbn. rewrite Hv. cbn. intros k0 [<-|Hin]; auto.
  - unfold grps. cbn. rewrite Hv. cbn. constructor; [exact A2|].
    apply Forall_forall. intros x Hx. apply Hmax. exact Hx.
  - unfold nwrites. cbn. destruct (is_write v); cbn; rewrite A3; reflexivity.
  - intros e k0 s wr [->|Hin]; [eapply Hwr; reflexivity|eauto].
  - destruct v; cbn; auto. split; [|exact A5]. rewrite <- A3. eapply Hwr; reflexivity.
Qed.

(* every logged group is <= the group of a reference that still exists *)
Lemma GA_max g k : GI g -> GA g -> (exists e, alive (tst (tok g e)) = true /\ tgrp (tok g e) = k) ->
  forall k', In k' (grps (elog g)) -> k' <= k.
Proof.
  intros H HA [e [Ha He]] k' Hin. destruct (g1 _ _ _ _ HA k' Hin) as [Hlt Hs].
  destruct (le_lt_dec k' k) as [|Hgt]; [assumption|exfalso].
  pose proof (a3 _ _ _ _ _ _ H _ _ Hlt Hs Hgt) as H0.
  pose proof (alive_refs _ _ _ _ _ _ e H Ha) as Hr. rewrite He in Hr. lia.
Qed.

Lemma GA_use g e : GA g -> tgrp (tok g e) < ngrp g -> head (grp g (tgrp (tok g e))) = HSent ->
  (forall k', In k' (grps (elog g)) -> k' <= tgrp (tok g e)) -> GA (do_use g e).
Proof.
  intros HA Hk Hh Hmax. unfold GA, do_use. cbn.
  pose proof (GA_evk _ _ _ _ (EUse e (tgrp (tok g e)) (ver g) (kind_eqb (gkind (grp g (tgrp (tok g e)))) KW))
                (tgrp (tok g e)) HA eq_refl Hk Hh Hmax) as HX.
  cbn [is_write] in HX.
  destruct (kind_eqb (gkind (grp g (tgrp (tok g e)))) KW) eqn:E; apply HX; intros ? ? ? ? Hq; injection Hq as <- <- <- <-; auto.
Qed.

Lemma GA_vdec g : GA g -> GA (do_vdec g).
Proof.
  intros HA. unfold do_vdec. destruct (Nat.eqb (pred (vrefs g)) 0 && negb (vfreed g)); [|exact HA].
  unfold GA. cbn. apply GA_ev0; [exact HA|reflexivity].
Qed.

Lemma GA_do_rel t g e rest : GA g -> GA (fst (do_rel t g e rest)).
Proof.
  intros HA. unfold do_rel. cbn [fst]. unfold GA, upd_grp, set_tst.
  destruct (is_wrapper (tst (tok g e))); cbn.
  - eapply GA_frame; [apply GA_ev0; [exact HA|reflexivity]|lia|]. apply (gfr_rel (ngrp g) (grp g) (tgrp (tok g e)) t).
  - eapply GA_frame; [exact HA|lia|]. apply (gfr_rel (ngrp g) (grp g) (tgrp (tok g e)) t).
Qed.

Ltac ga_frame HA := eapply GA_frame; [exact HA|lia|]; apply gfr_fset; intros _; cbn; auto.

Lemma GA_work sp t g w rest : GI g -> GA g -> GA (fst (do_work sp t g w rest)).
Proof.
  intros H HA. destruct w as [e|e nx|e|e|k|k|k tmp|]; cbn [do_work].
  - destruct (is_starting t (tst (tok g e))); cbn [negb]; [|exact HA].
    destruct (head (grp g (tgrp (tok g e)))) as [|[|x l]]; exact HA.
  - destruct (is_starting t (tst (tok g e))); cbn [negb]; [|exact HA].
    destruct (head (grp g (tgrp (tok g e)))) as [|l] eqn:Eh; [exact HA|].
    destruct (nxt_eqb nx (hptr (HList l)) && negb sp); [|exact HA].
    cbn [fst]. unfold GA, set_tst, upd_grp. cbn.
    eapply GA_frame; [exact HA|lia|]. apply gfr_fset. intros _. cbn. split; [reflexivity|]. rewrite Eh. discriminate.
  - destruct (is_granting t (tst (tok g e))) eqn:Es; cbn [negb]; [|exact HA].
    apply is_granting_spec in Es. cbn [fst].
    assert (Hgw : gw (tst (tok g e)) = true) by (rewrite Es; reflexivity).
    assert (Hh : head (grp g (tgrp (tok g e))) = HSent) by (apply (a4 _ _ _ _ _ _ H); exact Hgw).
    assert (Hk : tgrp (tok g e) < ngrp g) by (apply (a1 _ _ _ _ _ _ H); rewrite Es; reflexivity).
    assert (Hmax : forall k', In k' (grps (elog g)) -> k' <= tgrp (tok g e)).
    { apply GA_max; auto. exists e. rewrite Es. auto. }
    set (g1 := with_ev (set_tst g e (if tauto (tok g e) then TAuto t else TLive))
                 (EGrant e (tgrp (tok g e)) (treq (tok g e)) :: elog g)).
    assert (HA1 : GA g1).
    { unfold GA, g1. cbn.
      apply (GA_evk _ _ _ _ (EGrant e (tgrp (tok g e)) (treq (tok g e))) (tgrp (tok g e)) HA eq_refl Hk Hh Hmax).
      intros; discriminate. }
    destruct (tuse (tok g e)); [|exact HA1].
    assert (Etg : tgrp (tok g1 e) = tgrp (tok g e)) by (unfold g1; cbn; rewrite fset_same; reflexivity).
    apply GA_use; auto; rewrite Etg; auto.
    unfold g1. cbn. intros k' [<-|Hin]; auto.
  - destruct (owned_by t (tst (tok g e))); cbn [negb]; [|exact HA]. apply GA_do_rel. exact HA.
  - destruct (Nat.eqb (gphase (grp g k)) 1 && Nat.eqb (gown (grp g k)) t); cbn [negb]; [|exact HA].
    cbn [fst]. apply GA_vdec. unfold GA, upd_grp. cbn. ga_frame HA.
  - destruct (Nat.eqb (gphase (grp g k)) 2 && Nat.eqb (gown (grp g k)) t); cbn [negb]; [|exact HA].
    destruct (linked (grp g k)); cbn [fst]; unfold GA, upd_grp, new_tok; cbn; ga_frame HA.
  - destruct (match tmp with None => Nat.eqb k 0 | Some e => is_done t (tst (tok g e)) && Nat.eqb (tgrp (tok g e)) k end);
      cbn [negb]; [|exact HA].
    destruct (head (grp g k)) as [|l]; [exact HA|].
    cbn [fst]. unfold GA, upd_grp. cbn. ga_frame HA.
  - destruct (malive g || negb (mvheld g)); cbn [fst]; [exact HA|]. apply GA_vdec. exact HA.
Qed.

Lemma GA_cmd t g c : GI g -> GA g -> GA (fst (do_cmd t g c)).
Proof.
  intros H HA. destruct c as [sp|kd|e auto usev|e|e|e|e|]; cbn [do_cmd].
  - exact HA.
  - destruct (malive g); cbn [negb]; [|exact HA].
    destruct kd, (mprev g), (mstate g) as [p|]; cbn [fst]; unfold GA, upd_grp, new_tok; cbn;
      first [ solve [ga_frame HA]
            | solve [eapply GA_frame; [exact HA|lia|]; apply gfr_fset; intros Hlt; lia]
            | solve [eapply GA_frame; [exact HA|lia|]; apply gfr_trans with (gs2 := fset (grp g) p (set_linked (grp g p) true)); [apply gfr_fset; intros _; cbn; auto|apply gfr_fset; intros Hlt; lia]] ].
  - destruct (Nat.ltb e (ntok g) && is_sender (tst (tok g e))); exact HA.
  - destruct (Nat.ltb e (ntok g) && is_sender (tst (tok g e))); exact HA.
  - destruct (Nat.ltb e (ntok g) && kind_eqb (gkind (grp g (tgrp (tok g e)))) KR &&
              (is_sender (tst (tok g e)) || is_live (tst (tok g e)))); [|exact HA].
    cbn [fst]. unfold GA, upd_grp, new_tok. cbn. ga_frame HA.
  - destruct (Nat.ltb e (ntok g) && is_live (tst (tok g e))); [|exact HA]. apply GA_do_rel. exact HA.
  - destruct (Nat.ltb e (ntok g) && is_live (tst (tok g e))) eqn:Eg; [|exact HA].
    apply andb_true_iff in Eg. destruct Eg as [_ Es]. apply is_live_spec in Es. cbn [fst].
    assert (Hgw : gw (tst (tok g e)) = true) by (rewrite Es; reflexivity).
    apply GA_use; auto.
    + apply (a1 _ _ _ _ _ _ H). rewrite Es. reflexivity.
    + apply (a4 _ _ _ _ _ _ H). exact Hgw.
    + apply GA_max; auto. exists e. rewrite Es. auto.
  - destruct (malive g); cbn [negb]; [|exact HA]. destruct (mstate g); exact HA.
Qed.

(* ================= B: every access is granted at most once, and only after it was started ===== *)
Definition pend (s : tstate) : bool :=
  match s with TStarting _ | TQueued | TGranting _ => true | _ => false end.
Definition granted_st (s : tstate) : bool :=
  match s with TLive | TAuto _ | TDead => true | _ => false end.

Record GBc (tk : nat -> token) (nt : nat) (log : list ev) : Prop := {
  b1 : NoDup (grant_toks log);
  b2 : forall e k r, In (EGrant e k r) log ->
         e < nt /\ tgrp (tk e) = k /\ treq (tk e) = r /\ tstarted (tk e) = true /\ granted_st (tst (tk e)) = true;
  b3 : forall e, pend (tst (tk e)) = true -> tstarted (tk e) = true /\ ~ In e (grant_toks log);
  b4 : forall e, tstarted (tk e) = true -> pend (tst (tk e)) = true \/ In e (grant_toks log)
}.
Definition GB (g : shared) : Prop := GBc (tok g) (ntok g) (elog g).

Lemma GB_init : GB rw_init.
Proof. constructor; cbn; intros; try contradiction; try discriminate. constructor. Qed.

Lemma GB_ev0 tk nt log v : GBc tk nt log -> ev_gtok v = [] -> GBc tk nt (v :: log).
Proof.
  intros [B1 B2 B3 B4] Hv.
  assert (E : grant_toks (v :: log) = grant_toks log) by (unfold grant_toks; cbn; rewrite Hv; reflexivity).
  constructor; try rewrite E; auto.
  intros e k r [->|Hin]; [discriminate|eauto].
Qed.

Lemma GB_st tk nt log e s : GBc tk nt log -> pend s = pend (tst (tk e)) ->
  (granted_st (tst (tk e)) = true -> granted_st s = true) ->
  GBc (fset tk e (set_st (tk e) s)) nt log.
Proof.
  intros [B1 B2 B3 B4] Hp Hg. constructor; auto.
  - intros e0 k r Hin. destruct (B2 _ _ _ Hin) as [X1 [X2 [X3 [X4 X5]]]].
    unfold fset. destruct (Nat.eqb_spec e0 e); subst; cbn; auto 6.
  - intros e0. unfold fset. destruct (Nat.eqb_spec e0 e); subst; cbn; [rewrite Hp|]; auto.
  - intros e0. unfold fset. destruct (Nat.eqb_spec e0 e); subst; cbn; [rewrite Hp|]; auto.
Qed.

Lemma GB_not_sender tk nt log e : GBc tk nt log -> granted_st (tst (tk e)) = false -> pend (tst (tk e)) = false ->
  tstarted (tk e) = false /\ ~ In e (grant_toks log).
Proof.
  intros [B1 B2 B3 B4] Hg Hp.
  assert (Hn : ~ In e (grant_toks log)).
  { intros Hin. apply gtoks_in in Hin. destruct Hin as [k [r Hin]]. destruct (B2 _ _ _ Hin) as [_ [_ [_ [_ X]]]]. congruence. }
  split; [|exact Hn]. destruct (tstarted (tk e)) eqn:E; [|reflexivity].
  destruct (B4 e E); [congruence|contradiction].
Qed.

Lemma GB_start tk nt log e nk : GBc tk nt log -> tst (tk e) = TSender ->
  tgrp nk = tgrp (tk e) -> treq nk = treq (tk e) -> tstarted nk = true -> pend (tst nk) = true ->
  GBc (fset tk e nk) nt log.
Proof.
  intros HB Hs Hg Hr Ht Hp.
  destruct (GB_not_sender _ _ _ e HB) as [_ Hn]; try (rewrite Hs; reflexivity).
  destruct HB as [B1 B2 B3 B4]. constructor; auto.
  - intros e0 k r Hin. destruct (B2 _ _ _ Hin) as [X1 [X2 [X3 [X4 X5]]]].
    unfold fset. destruct (Nat.eqb_spec e0 e); subst; [exfalso; apply Hn; eapply in_gtoks; eauto|auto 6].
  - intros e0. unfold fset. destruct (Nat.eqb_spec e0 e); subst; auto.
  - intros e0. unfold fset. destruct (Nat.eqb_spec e0 e); subst; auto.
Qed.

Lemma GB_new tk nt log nk : GBc tk nt log -> tstarted nk = false -> pend (tst nk) = false ->
  GBc (fset tk nt nk) (S nt) log.
Proof.
  intros [B1 B2 B3 B4] Ht Hp. constructor; auto.
  - intros e0 k r Hin. destruct (B2 _ _ _ Hin) as [X1 [X2 [X3 [X4 X5]]]].
    rewrite fset_other by lia. auto 6.
  - intros e0. unfold fset. destruct (Nat.eqb_spec e0 nt); subst; [congruence|auto].
  - intros e0. unfold fset. destruct (Nat.eqb_spec e0 nt); subst; [congruence|auto].
Qed.

Lemma GB_grant tk nt log e s : GBc tk nt log -> e < nt -> pend (tst (tk e)) = true ->
  granted_st s = true -> pend s = false ->
  GBc (fset tk e (set_st (tk e) s)) nt (EGrant e (tgrp (tk e)) (treq (tk e)) :: log).
Proof.
  intros [B1 B2 B3 B4] He Hp Hg Hps. destruct (B3 e Hp) as [Hst Hn].
  constructor.
  - unfold grant_toks. cbn. constructor; assumption.
  - intros e0 k r [Hq|Hin].
    + injection Hq as <- <- <-. rewrite fset_same. cbn. auto 6.
    + destruct (B2 _ _ _ Hin) as [X1 [X2 [X3 [X4 X5]]]].
      unfold fset. destruct (Nat.eqb_spec e0 e); subst; cbn; auto 6.
  - intros e0. unfold fset. destruct (Nat.eqb_spec e0 e); subst; cbn; [congruence|].
    intros Hp0. destruct (B3 _ Hp0) as [Y1 Y2]. split; [assumption|]. unfold grant_toks. cbn. intros [Hq|Hq]; [congruence|contradiction].
  - intros e0. unfold grant_toks. cbn. unfold fset. destruct (Nat.eqb_spec e0 e); subst; cbn; [auto|].
    intros Ht. destruct (B4 _ Ht); auto.
Qed.

Lemma GB_take t : forall l tk nt log, GBc tk nt log -> (forall e, In e l -> pend (tst (tk e)) = true) ->
  GBc (take_all tk l t) nt log.
Proof.
  induction l as [|e l IH]; intros tk nt log HB Hl; [exact HB|]. cbn. apply IH.
  - apply GB_st; [exact HB|cbn; symmetry; apply Hl; now left|].
    intros Hg. pose proof (Hl e (or_introl eq_refl)) as Hp. destruct (tst (tk e)); discriminate.
  - intros e' Hin. unfold fset. destruct (Nat.eqb_spec e' e); subst; cbn; [reflexivity|]. apply Hl. now right.
Qed.

Lemma GB_use g e : GB g -> GB (do_use g e).
Proof. intros HB. unfold GB, do_use. cbn. apply GB_ev0; [exact HB|reflexivity]. Qed.
Lemma GB_vdec g : GB g -> GB (do_vdec g).
Proof.
  intros HB. unfold do_vdec. destruct (Nat.eqb (pred (vrefs g)) 0 && negb (vfreed g)); [|exact HB].
  unfold GB. cbn. apply GB_ev0; [exact HB|reflexivity].
Qed.
Lemma GB_do_rel t g e rest : GB g -> pend (tst (tok g e)) = false -> GB (fst (do_rel t g e rest)).
Proof.
  intros HB Hp. unfold do_rel. cbn [fst]. unfold GB, upd_grp, set_tst.
  destruct (is_wrapper (tst (tok g e))); cbn.
  - apply GB_st; [apply GB_ev0; [exact HB|reflexivity]|cbn; congruence|reflexivity].
  - apply GB_st; [exact HB|cbn; congruence|reflexivity].
Qed.

Lemma owned_not_pend t s : owned_by t s = true -> pend s = false.
Proof. destruct s; cbn; congruence. Qed.

Lemma GB_work sp t g w rest : GI g -> GB g -> GB (fst (do_work sp t g w rest)).
Proof.
  intros H HB. destruct w as [e|e nx|e|e|k|k|k tmp|]; cbn [do_work].
  - destruct (is_starting t (tst (tok g e))) eqn:Es; cbn [negb]; [|exact HB]. apply is_starting_spec in Es.
    destruct (head (grp g (tgrp (tok g e)))) as [|[|x l]]; cbn [hptr fst]; try exact HB.
    unfold GB, set_tst. cbn. apply GB_st; [exact HB|rewrite Es; reflexivity|rewrite Es; discriminate].
  - destruct (is_starting t (tst (tok g e))) eqn:Es; cbn [negb]; [|exact HB]. apply is_starting_spec in Es.
    destruct (head (grp g (tgrp (tok g e)))) as [|l] eqn:Eh.
    + cbn [fst]. unfold GB, set_tst. cbn. apply GB_st; [exact HB|rewrite Es; reflexivity|rewrite Es; discriminate].
    + destruct (nxt_eqb nx (hptr (HList l)) && negb sp); [|exact HB].
      cbn [fst]. unfold GB, set_tst, upd_grp. cbn.
      apply GB_st; [exact HB|rewrite Es; reflexivity|rewrite Es; discriminate].
  - destruct (is_granting t (tst (tok g e))) eqn:Es; cbn [negb]; [|exact HB].
    apply is_granting_spec in Es. cbn [fst].
    assert (He : e < ntok g) by (eapply alive_lt; [exact H|rewrite Es; reflexivity]).
    assert (HB1 : GB (with_ev (set_tst g e (if tauto (tok g e) then TAuto t else TLive))
                 (EGrant e (tgrp (tok g e)) (treq (tok g e)) :: elog g))).
    { unfold GB, set_tst. cbn. apply GB_grant; auto; try (rewrite Es; reflexivity); destruct (tauto (tok g e)); reflexivity. }
    destruct (tuse (tok g e)); [apply GB_use|]; exact HB1.
  - destruct (owned_by t (tst (tok g e))) eqn:Eo; cbn [negb]; [|exact HB]. apply GB_do_rel; [exact HB|].
    eapply owned_not_pend; eauto.
  - destruct (Nat.eqb (gphase (grp g k)) 1 && Nat.eqb (gown (grp g k)) t); cbn [negb]; [|exact HB].
    cbn [fst]. apply GB_vdec. exact HB.
  - destruct (Nat.eqb (gphase (grp g k)) 2 && Nat.eqb (gown (grp g k)) t); cbn [negb]; [|exact HB].
    destruct (linked (grp g k)); cbn [fst]; [|exact HB].
    unfold GB, new_tok, upd_grp. cbn. apply GB_new; [exact HB|reflexivity|reflexivity].
  - destruct (match tmp with None => Nat.eqb k 0 | Some e => is_done t (tst (tok g e)) && Nat.eqb (tgrp (tok g e)) k end);
      cbn [negb]; [|exact HB].
    destruct (head (grp g k)) as [|l] eqn:Eh; [exact HB|].
    cbn [fst]. unfold GB, upd_grp. cbn. apply GB_take; [exact HB|].
    intros e Hin. destruct (a10 _ _ _ _ _ _ H _ _ _ Eh Hin) as [-> _]. reflexivity.
  - destruct (malive g || negb (mvheld g)); cbn [fst]; [exact HB|]. apply GB_vdec. exact HB.
Qed.

Lemma GB_cmd t g c : GI g -> GB g -> GB (fst (do_cmd t g c)).
Proof.
  intros H HB. destruct c as [sp|kd|e auto usev|e|e|e|e|]; cbn [do_cmd].
  - exact HB.
  - destruct (malive g); cbn [negb]; [|exact HB].
    destruct kd, (mprev g), (mstate g) as [p|]; cbn [fst]; unfold GB, upd_grp, new_tok; cbn;
      repeat (apply GB_new; [|reflexivity|reflexivity]); exact HB.
  - destruct (Nat.ltb e (ntok g) && is_sender (tst (tok g e))) eqn:Eg; [|exact HB].
    apply andb_true_iff in Eg. destruct Eg as [_ Es]. apply is_sender_spec in Es.
    cbn [fst]. unfold GB. cbn. apply GB_start; auto.
  - destruct (Nat.ltb e (ntok g) && is_sender (tst (tok g e))) eqn:Eg; [|exact HB].
    apply andb_true_iff in Eg. destruct Eg as [_ Es]. apply is_sender_spec in Es.
    cbn [fst]. unfold GB, set_tst. cbn. apply GB_st; [exact HB|rewrite Es; reflexivity|rewrite Es; discriminate].
  - destruct (Nat.ltb e (ntok g) && kind_eqb (gkind (grp g (tgrp (tok g e)))) KR &&
              (is_sender (tst (tok g e)) || is_live (tst (tok g e)))) eqn:Eg; [|exact HB].
    apply andb_true_iff in Eg. destruct Eg as [_ Es].
    cbn [fst]. unfold GB, upd_grp, new_tok. cbn. apply GB_new; [exact HB|reflexivity|].
    cbn. apply orb_true_iff in Es. destruct Es as [Es|Es]; [apply is_sender_spec in Es|apply is_live_spec in Es]; rewrite Es; reflexivity.
  - destruct (Nat.ltb e (ntok g) && is_live (tst (tok g e))) eqn:Eg; [|exact HB].
    apply andb_true_iff in Eg. destruct Eg as [_ Es]. apply is_live_spec in Es.
    apply GB_do_rel; [exact HB|rewrite Es; reflexivity].
  - destruct (Nat.ltb e (ntok g) && is_live (tst (tok g e))); [|exact HB]. cbn [fst]. apply GB_use. exact HB.
  - destruct (malive g); cbn [negb]; [|exact HB]. destruct (mstate g); cbn [fst]; [|exact HB].
    unfold GB, new_tok. cbn. apply GB_new; [exact HB|reflexivity|reflexivity].
Qed.

(* ================= C: a read-write group has one access lineage ================= *)
(* the states of a reference that stands for an access: sender, operation state, wrapper
   (everything except the temporaries the implementation itself holds) *)
Definition acc (s : tstate) : bool :=
  match s with TSender | TStarting _ | TQueued | TGranting _ | TLive | TAuto _ => true | _ => false end.

Record GCc (gs : nat -> group) (tk : nat -> token) (ms : option nat) (mp : kind) (log : list ev) : Prop := {
  c1 : forall e1 e2, acc (tst (tk e1)) = true -> acc (tst (tk e2)) = true -> tgrp (tk e1) = tgrp (tk e2) ->
         gkind (gs (tgrp (tk e1))) = KW -> e1 = e2;
  c2 : forall e k r e', In (EGrant e k r) log -> gkind (gs k) = KW -> acc (tst (tk e')) = true -> tgrp (tk e') = k -> e' = e;
  c3 : forall k, ms = Some k -> gkind (gs k) = mp;
  c4 : forall e1 e2 k r1 r2, In (EGrant e1 k r1) log -> In (EGrant e2 k r2) log -> gkind (gs k) = KW -> e1 = e2
}.
Definition GC (g : shared) : Prop := GCc (grp g) (tok g) (mstate g) (mprev g) (elog g).

Lemma GC_init : GC rw_init.
Proof. constructor; cbn; intros; try contradiction; discriminate. Qed.

Lemma acc_alive s : acc s = true -> alive s = true.
Proof. destruct s; cbn; congruence. Qed.

(* bounds supplied by GI / GA *)
Definition bnd (ng : nat) (tk : nat -> token) (ms : option nat) (log : list ev) : Prop :=
  (forall e, acc (tst (tk e)) = true -> tgrp (tk e) < ng) /\
  (forall e k r, In (EGrant e k r) log -> k < ng) /\ (forall k, ms = Some k -> k < ng).
Lemma GI_bnd g : GI g -> GA g -> bnd (ngrp g) (tok g) (mstate g) (elog g).
Proof.
  intros H HA. repeat split.
  - intros e Ha. apply (a1 _ _ _ _ _ _ H). apply acc_alive. exact Ha.
  - intros e k r Hin. apply (g1 _ _ _ _ HA). eapply in_grps_grant; eauto.
  - intros k Hk. pose proof (a6 _ _ _ _ _ _ H k Hk). lia.
Qed.

Lemma GC_frame gs gs' ng tk ms mp log : GCc gs tk ms mp log -> bnd ng tk ms log ->
  (forall k, k < ng -> gkind (gs' k) = gkind (gs k)) -> GCc gs' tk ms mp log.
Proof.
  intros [C1 C2 C3 C4] [B1 [B2 B3]] Hf. constructor.
  - intros e1 e2 H1 H2 Hg Hk. rewrite Hf in Hk by auto. eauto.
  - intros e k r e' Hin Hk. rewrite Hf in Hk by eauto. eauto.
  - intros k Hk. rewrite Hf by auto. auto.
  - intros e1 e2 k r1 r2 H1 H2 Hk. rewrite Hf in Hk by eauto. eauto.
Qed.

Lemma GC_tok gs tk ms mp log e nk : GCc gs tk ms mp log -> tgrp nk = tgrp (tk e) ->
  (acc (tst nk) = true -> acc (tst (tk e)) = true) -> GCc gs (fset tk e nk) ms mp log.
Proof.
  intros [C1 C2 C3 C4] Hg Ha.
  assert (X : forall e0, tgrp (fset tk e nk e0) = tgrp (tk e0) /\ (acc (tst (fset tk e nk e0)) = true -> acc (tst (tk e0)) = true)).
  { intros e0. unfold fset. destruct (Nat.eqb_spec e0 e); subst; auto. }
  constructor; auto.
  - intros e1 e2 H1 H2 Hq Hk. destruct (X e1) as [X1 X2], (X e2) as [Y1 Y2]. rewrite X1 in *. rewrite Y1 in *. eauto.
  - intros e0 k r e' Hin Hk H1 H2. destruct (X e') as [X1 X2]. rewrite X1 in *. eauto.
Qed.

Lemma GC_new gs tk ms mp log nt nk : GCc gs tk ms mp log -> acc (tst (tk nt)) = false ->
  (acc (tst nk) = true -> gkind (gs (tgrp nk)) = KW ->
     (forall e, acc (tst (tk e)) = true -> tgrp (tk e) <> tgrp nk) /\ (forall e k r, In (EGrant e k r) log -> k <> tgrp nk)) ->
  GCc gs (fset tk nt nk) ms mp log.
Proof.
  intros [C1 C2 C3 C4] Hf Hn. constructor; auto.
  - intros e1 e2. unfold fset.
    destruct (Nat.eqb_spec e1 nt), (Nat.eqb_spec e2 nt); subst; auto; intros H1 H2 Hg Hk.
    + destruct (Hn H1 Hk) as [N1 _]. exfalso. apply (N1 e2); auto.
    + rewrite Hg in Hk. destruct (Hn H2 Hk) as [N1 _]. exfalso. apply (N1 e1); auto.
  - intros e k r e' Hin Hk. unfold fset. destruct (Nat.eqb_spec e' nt); subst; [|eauto].
    intros H1 H2. subst k. destruct (Hn H1 Hk) as [_ N2]. exfalso. eapply N2; eauto.
Qed.

Lemma GC_ms gs tk ms mp ms' mp' log : GCc gs tk ms mp log -> (forall k, ms' = Some k -> gkind (gs k) = mp') ->
  GCc gs tk ms' mp' log.
Proof. intros [C1 C2 C3 C4] Hm. constructor; auto. Qed.

Lemma GC_ev0 gs tk ms mp log v : GCc gs tk ms mp log -> ev_gtok v = [] -> GCc gs tk ms mp (v :: log).
Proof.
  intros [C1 C2 C3 C4] Hv. constructor; auto.
  - intros e k r e' [->|Hin]; [discriminate|eauto].
  - intros e1 e2 k r1 r2 [H1|H1] [H2|H2]; try (subst v; discriminate). eauto.
Qed.

Lemma GC_grant gs tk ms mp log e r : GCc gs tk ms mp log -> acc (tst (tk e)) = true ->
  GCc gs tk ms mp (EGrant e (tgrp (tk e)) r :: log).
Proof.
  intros [C1 C2 C3 C4] Ha. constructor; auto.
  - intros e0 k r0 e' [Hq|Hin]; [|eauto]. injection Hq as <- <- <-. intros Hk H1 H2. apply C1; auto. congruence.
  - intros e1 e2 k r1 r2 [H1|H1] [H2|H2] Hk.
    + congruence.
    + injection H1 as <- <- <-. eapply C2; eauto.
    + injection H2 as <- <- <-. symmetry. eapply C2; eauto.
    + eauto.
Qed.

Lemma GC_take gs ms mp log t : forall l tk, GCc gs tk ms mp log -> (forall e, In e l -> acc (tst (tk e)) = true) ->
  GCc gs (take_all tk l t) ms mp log.
Proof.
  induction l as [|e l IH]; intros tk HC Hl; [exact HC|]. cbn. apply IH.
  - apply GC_tok; [exact HC|reflexivity|]. intros _. apply Hl. now left.
  - intros e' Hin. unfold fset. destruct (Nat.eqb_spec e' e); subst; cbn; [reflexivity|]. apply Hl. now right.
Qed.

Lemma GC_use g e : GC g -> GC (do_use g e).
Proof. intros HC. unfold GC, do_use. cbn. apply GC_ev0; [exact HC|reflexivity]. Qed.
Lemma GC_vdec g : GC g -> GC (do_vdec g).
Proof.
  intros HC. unfold do_vdec. destruct (Nat.eqb (pred (vrefs g)) 0 && negb (vfreed g)); [|exact HC].
  unfold GC. cbn. apply GC_ev0; [exact HC|reflexivity].
Qed.
Lemma rel_grp_kind t gr : gkind (rel_grp t gr) = gkind gr.
Proof. unfold rel_grp. destruct (Nat.eqb (pred (refs gr)) 0); reflexivity. Qed.

Lemma GC_fsetg gs tk ms mp log k gr : GCc gs tk ms mp log -> gkind gr = gkind (gs k) -> GCc (fset gs k gr) tk ms mp log.
Proof.
  intros [C1 C2 C3 C4] Hk.
  assert (X : forall j, gkind (fset gs k gr j) = gkind (gs j)) by (intros j; unfold fset; destruct (Nat.eqb_spec j k); subst; auto).
  constructor; intros *; rewrite ?X; eauto.
Qed.

Lemma GC_do_rel t g e rest : GC g -> GC (fst (do_rel t g e rest)).
Proof.
  intros HC. unfold do_rel. cbn [fst]. unfold GC, upd_grp, set_tst.
  destruct (is_wrapper (tst (tok g e))); cbn.
  - apply GC_fsetg; [|apply rel_grp_kind]. apply GC_tok; [apply GC_ev0; [exact HC|reflexivity]|reflexivity|cbn; discriminate].
  - apply GC_fsetg; [|apply rel_grp_kind]. apply GC_tok; [exact HC|reflexivity|cbn; discriminate].
Qed.

Lemma GC_work sp t g w rest : GI g -> GC g -> GC (fst (do_work sp t g w rest)).
Proof.
  intros H HC. destruct w as [e|e nx|e|e|k|k|k tmp|]; cbn [do_work].
  - destruct (is_starting t (tst (tok g e))) eqn:Es; cbn [negb]; [|exact HC]. apply is_starting_spec in Es.
    destruct (head (grp g (tgrp (tok g e)))) as [|[|x l]]; cbn [hptr fst]; try exact HC.
    unfold GC, set_tst. cbn. apply GC_tok; [exact HC|reflexivity|rewrite Es; reflexivity].
  - destruct (is_starting t (tst (tok g e))) eqn:Es; cbn [negb]; [|exact HC]. apply is_starting_spec in Es.
    destruct (head (grp g (tgrp (tok g e)))) as [|l] eqn:Eh.
    + cbn [fst]. unfold GC, set_tst. cbn. apply GC_tok; [exact HC|reflexivity|rewrite Es; reflexivity].
    + destruct (nxt_eqb nx (hptr (HList l)) && negb sp); [|exact HC].
      cbn [fst]. unfold GC, set_tst, upd_grp. cbn.
      apply GC_fsetg; [|reflexivity]. apply GC_tok; [exact HC|reflexivity|rewrite Es; reflexivity].
  - destruct (is_granting t (tst (tok g e))) eqn:Es; cbn [negb]; [|exact HC].
    apply is_granting_spec in Es. cbn [fst].
    assert (HC1 : GC (with_ev (set_tst g e (if tauto (tok g e) then TAuto t else TLive))
                 (EGrant e (tgrp (tok g e)) (treq (tok g e)) :: elog g))).
    { unfold GC, set_tst. cbn.
      pose proof (GC_tok _ _ _ _ _ e (set_st (tok g e) (if tauto (tok g e) then TAuto t else TLive)) HC eq_refl) as HX.
      specialize (HX ltac:(rewrite Es; reflexivity)).
      pose proof (GC_grant _ _ _ _ _ e (treq (tok g e)) HX) as HY. rewrite fset_same in HY. cbn in HY. apply HY.
      destruct (tauto (tok g e)); reflexivity. }
    destruct (tuse (tok g e)); [apply GC_use|]; exact HC1.
  - destruct (owned_by t (tst (tok g e))) eqn:Eo; cbn [negb]; [|exact HC]. apply GC_do_rel; exact HC.
  - destruct (Nat.eqb (gphase (grp g k)) 1 && Nat.eqb (gown (grp g k)) t); cbn [negb]; [|exact HC].
    cbn [fst]. apply GC_vdec. unfold GC, upd_grp. cbn. apply GC_fsetg; [exact HC|reflexivity].
  - destruct (Nat.eqb (gphase (grp g k)) 2 && Nat.eqb (gown (grp g k)) t); cbn [negb]; [|exact HC].
    destruct (linked (grp g k)); cbn [fst]; unfold GC, upd_grp, new_tok; cbn.
    + apply GC_new; [apply GC_fsetg; [exact HC|reflexivity]| |cbn; discriminate].
      rewrite (a0 _ _ _ _ _ _ H); [reflexivity|lia].
    + apply GC_fsetg; [exact HC|reflexivity].
  - destruct (match tmp with None => Nat.eqb k 0 | Some e => is_done t (tst (tok g e)) && Nat.eqb (tgrp (tok g e)) k end);
      cbn [negb]; [|exact HC].
    destruct (head (grp g k)) as [|l] eqn:Eh; [exact HC|].
    cbn [fst]. unfold GC, upd_grp. cbn. apply GC_take; [apply GC_fsetg; [exact HC|reflexivity]|].
    intros e Hin. destruct (a10 _ _ _ _ _ _ H _ _ _ Eh Hin) as [-> _]. reflexivity.
  - destruct (malive g || negb (mvheld g)); cbn [fst]; [exact HC|]. apply GC_vdec. exact HC.
Qed.

Lemma GC_cmd t g c : GI g -> GA g -> GC g -> GC (fst (do_cmd t g c)).
Proof.
  intros H HA HC. pose proof (GI_bnd g H HA) as [Bd1 [Bd2 Bd3]].
  assert (Hfresh : forall n, ntok g <= n -> acc (tst (tok g n)) = false).
  { intros n Hn. rewrite (a0 _ _ _ _ _ _ H n Hn). reflexivity. }
  destruct c as [sp|kd|e auto usev|e|e|e|e|]; cbn [do_cmd].
  - exact HC.
  - destruct (malive g); cbn [negb]; [|exact HC].
    assert (Hnew : forall kd0 r p, mstate g = Some p -> 
      GCc (fset (fset (grp g) p (set_linked (grp g p) true)) (ngrp g)
             {| gkind := kd0; refs := r; head := HList []; linked := false; vheld := true; gphase := 0; gown := 0 |})
          (fset (fset (tok g) (ntok g) {| tgrp := ngrp g; treq := nreq g; tauto := false; tuse := false; tstarted := false; tst := TSender |})
                (S (ntok g)) {| tgrp := p; treq := 0; tauto := false; tuse := false; tstarted := false; tst := TTemp t |})
          (Some (ngrp g)) kd0 (elog g)).
    { intros kd0 r p Ems. pose proof (Bd3 _ Ems) as Hp.
      apply GC_new; [|rewrite fset_other by lia; apply Hfresh; lia|cbn; discriminate].
      apply GC_new; [|apply Hfresh; lia|].
      - apply GC_ms with (ms := mstate g) (mp := mprev g); [|intros k Hk; injection Hk as <-; rewrite fset_same; reflexivity].
        eapply GC_frame with (ng := ngrp g); [exact HC|repeat split; eauto|].
        intros k Hk. rewrite fset_other by lia. unfold fset. destruct (Nat.eqb_spec k p); subst; reflexivity.
      - cbn. intros _ _. split; [intros e He Hq; specialize (Bd1 e He); lia|intros e k r0 Hin Hq; specialize (Bd2 _ _ _ Hin); lia]. }
    assert (Hnew0 : forall kd0 r, 
      GCc (fset (grp g) (ngrp g)
             {| gkind := kd0; refs := r; head := HList []; linked := false; vheld := true; gphase := 0; gown := 0 |})
          (fset (tok g) (ntok g) {| tgrp := ngrp g; treq := nreq g; tauto := false; tuse := false; tstarted := false; tst := TSender |})
          (Some (ngrp g)) kd0 (elog g)).
    { intros kd0 r.
      apply GC_new; [|apply Hfresh; lia|].
      - apply GC_ms with (ms := mstate g) (mp := mprev g); [|intros k Hk; injection Hk as <-; rewrite fset_same; reflexivity].
        eapply GC_frame with (ng := ngrp g); [exact HC|repeat split; eauto|].
        intros k Hk. rewrite fset_other by lia. reflexivity.
      - cbn. intros _ _. split; [intros e He Hq; specialize (Bd1 e He); lia|intros e k r0 Hin Hq; specialize (Bd2 _ _ _ Hin); lia]. }
    destruct kd, (mprev g) eqn:Emp, (mstate g) as [p|] eqn:Ems; cbn [fst]; unfold GC, upd_grp, new_tok; cbn;
      try (apply Hnew; reflexivity); try apply Hnew0.
    (* join the open read group *)
    pose proof HC as HC'. unfold GC in HC'. rewrite Ems, Emp in HC'.
    apply GC_new; [apply GC_fsetg; [exact HC'|reflexivity]|apply Hfresh; lia|].
    cbn. intros _ Hk. exfalso. unfold fset in Hk. rewrite Nat.eqb_refl in Hk. cbn in Hk.
    rewrite (c3 _ _ _ _ _ HC p Ems) in Hk. congruence.
  - destruct (Nat.ltb e (ntok g) && is_sender (tst (tok g e))) eqn:Eg; [|exact HC].
    apply andb_true_iff in Eg. destruct Eg as [_ Es]. apply is_sender_spec in Es.
    cbn [fst]. unfold GC. cbn. apply GC_tok; [exact HC|reflexivity|rewrite Es; reflexivity].
  - destruct (Nat.ltb e (ntok g) && is_sender (tst (tok g e))) eqn:Eg; [|exact HC].
    cbn [fst]. unfold GC, set_tst. cbn. apply GC_tok; [exact HC|reflexivity|cbn; discriminate].
  - destruct (Nat.ltb e (ntok g) && kind_eqb (gkind (grp g (tgrp (tok g e)))) KR &&
              (is_sender (tst (tok g e)) || is_live (tst (tok g e)))) eqn:Eg; [|exact HC].
    apply andb_true_iff in Eg. destruct Eg as [Eg _]. apply andb_true_iff in Eg. destruct Eg as [_ Ek].
    cbn [fst]. unfold GC, upd_grp, new_tok. cbn.
    apply GC_new; [apply GC_fsetg; [exact HC|reflexivity]|apply Hfresh; lia|].
    cbn. intros _ Hk. exfalso. unfold fset in Hk. rewrite Nat.eqb_refl in Hk. cbn in Hk.
    rewrite Hk in Ek. discriminate.
  - destruct (Nat.ltb e (ntok g) && is_live (tst (tok g e))); [|exact HC]. apply GC_do_rel. exact HC.
  - destruct (Nat.ltb e (ntok g) && is_live (tst (tok g e))); [|exact HC]. cbn [fst]. apply GC_use. exact HC.
  - destruct (malive g); cbn [negb]; [|exact HC]. destruct (mstate g); cbn [fst]; unfold GC, new_tok; cbn.
    + apply GC_new; [|apply Hfresh; lia|cbn; discriminate]. eapply GC_ms; [exact HC|discriminate].
    + eapply GC_ms; [exact HC|discriminate].
Qed.

(* ================= E: reference count of the wrapped value ================= *)
Record GEc (gs : nat -> group) (ng : nat) (vr : nat) (vf mv al : bool) : Prop := {
  e1 : vr = b2n mv + cnt (fun k => vheld (gs k)) ng;
  e2 : forall k, k < ng -> vheld (gs k) = Nat.leb (gphase (gs k)) 1;
  e3 : vf = Nat.eqb vr 0;
  e4 : al = true -> mv = true;
  e5 : forall k, ng <= k -> gphase (gs k) = 3
}.
Definition GE (g : shared) : Prop := GEc (grp g) (ngrp g) (vrefs g) (vfreed g) (mvheld g) (malive g).

Lemma GE_init : GE rw_init.
Proof. constructor; cbn; intros; try reflexivity; lia. Qed.

Lemma GE_fsetg gs ng vr vf mv al k gr : GEc gs ng vr vf mv al -> vheld gr = vheld (gs k) ->
  (gphase gr = gphase (gs k) \/ (k < ng /\ vheld gr = Nat.leb (gphase gr) 1)) ->
  GEc (fset gs k gr) ng vr vf mv al.
Proof.
  intros [E1 E2 E3 E4 E5] Hv Hp. constructor; auto.
  - rewrite E1. f_equal. apply cnt_ext. intros i _. unfold fset. destruct (Nat.eqb_spec i k); subst; auto.
  - intros j Hj. unfold fset. destruct (Nat.eqb_spec j k); subst; auto.
    destruct Hp as [Hp|[_ Hp]]; [rewrite Hv, Hp; auto|exact Hp].
  - intros j Hj. unfold fset. destruct (Nat.eqb_spec j k); subst; auto.
    destruct Hp as [Hp|[Hp _]]; [rewrite Hp; auto|lia].
Qed.

Lemma GE_vdec_iff g : GEc (grp g) (ngrp g) (pred (vrefs g)) (vfreed g || Nat.eqb (pred (vrefs g)) 0) (mvheld g) (malive g) ->
  GE (do_vdec g).
Proof. unfold do_vdec, GE. destruct (Nat.eqb (pred (vrefs g)) 0 && negb (vfreed g)); cbn; exact (fun H => H). Qed.

Lemma vf_step vr vf : vf = Nat.eqb vr 0 -> 1 <= vr -> (vf || Nat.eqb (pred vr) 0) = Nat.eqb (pred vr) 0.
Proof. intros -> H. destruct vr; [lia|reflexivity]. Qed.

Lemma GE_drop_grp gs ng vr vf mv al k gr : GEc gs ng vr vf mv al -> gphase (gs k) = 1 -> vheld gr = false -> gphase gr = 2 ->
  GEc (fset gs k gr) ng (pred vr) (vf || Nat.eqb (pred vr) 0) mv al.
Proof.
  intros [E1 E2 E3 E4 E5] Hp Hv Hp2.
  assert (Hk : k < ng). { destruct (le_lt_dec ng k) as [Hle|]; [|assumption]. rewrite (E5 k Hle) in Hp. discriminate. }
  assert (Hh : vheld (gs k) = true) by (rewrite (E2 k Hk), Hp; reflexivity).
  assert (Hc : cnt (fun j => vheld (gs j)) ng = S (cnt (fun j => vheld (fset gs k gr j)) ng)).
  { apply cnt_off with (i := k); auto.
    - rewrite fset_same. exact Hv.
    - intros j Hj. rewrite fset_other by assumption. reflexivity. }
  constructor; auto.
  - rewrite E1, Hc. lia.
  - intros j Hj. unfold fset. destruct (Nat.eqb_spec j k); subst; auto. rewrite Hv, Hp2. reflexivity.
  - apply vf_step; [exact E3|lia].
  - intros j Hj. rewrite fset_other by lia. auto.
Qed.

Lemma GE_drop_mv gs ng vr vf : GEc gs ng vr vf true false ->
  GEc gs ng (pred vr) (vf || Nat.eqb (pred vr) 0) false false.
Proof.
  intros [E1 E2 E3 E4 E5]. constructor; auto.
  - rewrite E1. cbn. reflexivity.
  - apply vf_step; [exact E3|cbn in E1; lia].
Qed.

Lemma GE_newg gs gs' ng vr vf mv : GEc gs ng vr vf mv true ->
  (forall k, k < ng -> vheld (gs' k) = vheld (gs k) /\ gphase (gs' k) = gphase (gs k)) ->
  vheld (gs' ng) = true -> gphase (gs' ng) = 0 -> (forall k, ng < k -> gs' k = gs k) ->
  GEc gs' (S ng) (S vr) vf mv true.
Proof.
  intros [E1 E2 E3 E4 E5] Ho Hv Hp Hhi. constructor; auto.
  - cbn [cnt]. rewrite Hv. rewrite (cnt_ext ng (fun k => vheld (gs' k)) (fun k => vheld (gs k))); [cbn; lia|].
    intros i Hi. apply Ho. exact Hi.
  - intros k Hk. destruct (Nat.eq_dec k ng) as [->|Hne]; [rewrite Hv, Hp; reflexivity|].
    destruct (Ho k ltac:(lia)) as [-> ->]. apply E2. lia.
  - rewrite E3. rewrite (E4 eq_refl) in E1. cbn in E1. destruct vr; [lia|reflexivity].
  - intros k Hk. rewrite Hhi by lia. apply E5. lia.
Qed.

Lemma GE_do_rel t g e rest : GI g -> GE g -> alive (tst (tok g e)) = true -> GE (fst (do_rel t g e rest)).
Proof.
  intros H HE Ha. unfold do_rel. cbn [fst].
  assert (X : GEc (fset (grp g) (tgrp (tok g e)) (rel_grp t (grp g (tgrp (tok g e))))) (ngrp g) (vrefs g) (vfreed g) (mvheld g) (malive g)).
  { apply GE_fsetg; [exact HE| |].
    - unfold rel_grp. destruct (Nat.eqb (pred (refs (grp g (tgrp (tok g e))))) 0); reflexivity.
    - pose proof (a1 _ _ _ _ _ _ H e Ha) as Hk. pose proof (alive_refs _ _ _ _ _ _ e H Ha) as Hr.
      unfold rel_grp. destruct (Nat.eqb (pred (refs (grp g (tgrp (tok g e))))) 0); [|left; reflexivity].
      right. split; [exact Hk|]. cbn. rewrite (e2 _ _ _ _ _ _ HE _ Hk).
      destruct (gphase (grp g (tgrp (tok g e)))) eqn:Ep; [reflexivity|].
      pose proof (a8 _ _ _ _ _ _ H _ Hk ltac:(lia)). lia. }
  unfold GE, upd_grp, set_tst. destruct (is_wrapper (tst (tok g e))); cbn; exact X.
Qed.

Ltac ge_fset HE := apply GE_fsetg; [exact HE|reflexivity|left; reflexivity].

Lemma GE_work sp t g w rest : GI g -> GE g -> GE (fst (do_work sp t g w rest)).
Proof.
  intros H HE. destruct w as [e|e nx|e|e|k|k|k tmp|]; cbn [do_work].
  - destruct (is_starting t (tst (tok g e))); cbn [negb]; [|exact HE].
    destruct (head (grp g (tgrp (tok g e)))) as [|[|x l]]; exact HE.
  - destruct (is_starting t (tst (tok g e))); cbn [negb]; [|exact HE].
    destruct (head (grp g (tgrp (tok g e)))) as [|l] eqn:Eh; [exact HE|].
    destruct (nxt_eqb nx (hptr (HList l)) && negb sp); [|exact HE].
    cbn [fst]. unfold GE, set_tst, upd_grp. cbn. ge_fset HE.
  - destruct (is_granting t (tst (tok g e))); cbn [negb]; [|exact HE]. cbn [fst].
    destruct (tuse (tok g e)); exact HE.
  - destruct (owned_by t (tst (tok g e))) eqn:Eo; cbn [negb]; [|exact HE].
    destruct (owned_alive _ _ Eo). apply GE_do_rel; auto.
  - destruct (Nat.eqb (gphase (grp g k)) 1 && Nat.eqb (gown (grp g k)) t) eqn:Eg; cbn [negb]; [|exact HE].
    apply andb_true_iff in Eg. destruct Eg as [Eg _]. apply Nat.eqb_eq in Eg.
    cbn [fst]. apply GE_vdec_iff. unfold upd_grp. cbn. apply GE_drop_grp; auto.
  - destruct (Nat.eqb (gphase (grp g k)) 2 && Nat.eqb (gown (grp g k)) t) eqn:Eg; cbn [negb]; [|exact HE].
    apply andb_true_iff in Eg. destruct Eg as [Eg _]. apply Nat.eqb_eq in Eg.
    assert (Hk : k < ngrp g).
    { destruct (le_lt_dec (ngrp g) k) as [Hle|]; [|assumption]. rewrite (e5 _ _ _ _ _ _ HE k Hle) in Eg. discriminate. }
    assert (Hv : vheld (grp g k) = false) by (rewrite (e2 _ _ _ _ _ _ HE k Hk), Eg; reflexivity).
    destruct (linked (grp g k)); cbn [fst]; unfold GE, upd_grp, new_tok; cbn;
      (apply GE_fsetg; [exact HE|reflexivity|right; split; [exact Hk|cbn; exact Hv]]).
  - destruct (match tmp with None => Nat.eqb k 0 | Some e => is_done t (tst (tok g e)) && Nat.eqb (tgrp (tok g e)) k end);
      cbn [negb]; [|exact HE].
    destruct (head (grp g k)) as [|l]; [exact HE|].
    cbn [fst]. unfold GE, upd_grp. cbn. ge_fset HE.
  - destruct (malive g) eqn:Eal; cbn [orb]; [exact HE|].
    destruct (mvheld g) eqn:Emv; cbn [negb fst]; [|exact HE].
    apply GE_vdec_iff. cbn. rewrite Eal. apply GE_drop_mv. unfold GE in HE. rewrite Eal, Emv in HE. exact HE.
Qed.

Lemma GE_cmd t g c : GI g -> GE g -> GE (fst (do_cmd t g c)).
Proof.
  intros H HE. destruct c as [sp|kd|e auto usev|e|e|e|e|]; cbn [do_cmd].
  - exact HE.
  - destruct (malive g) eqn:Eal; cbn [negb]; [|exact HE].
    unfold GE in HE. rewrite Eal in HE.
    destruct kd, (mprev g), (mstate g) as [p|] eqn:Ems; cbn [fst]; unfold GE, upd_grp, new_tok; cbn; rewrite ?Eal;
      first [ solve [ge_fset HE]
            | solve [apply GE_newg with (gs := grp g); [exact HE| | | |];
                     [intros k Hk; rewrite fset_other by lia; auto|rewrite fset_same; reflexivity|rewrite fset_same; reflexivity
                     |intros k Hk; rewrite fset_other by lia; reflexivity]]
            | (pose proof (a6 _ _ _ _ _ _ H p Ems) as Hp;
               apply GE_newg with (gs := grp g); [exact HE| | | |];
                     [intros k Hk; rewrite fset_other by lia; unfold fset; destruct (Nat.eqb_spec k p); subst; auto
                     |rewrite fset_same; reflexivity|rewrite fset_same; reflexivity
                     |intros k Hk; rewrite !fset_other by lia; reflexivity]) ].
  - destruct (Nat.ltb e (ntok g) && is_sender (tst (tok g e))); exact HE.
  - destruct (Nat.ltb e (ntok g) && is_sender (tst (tok g e))); exact HE.
  - destruct (Nat.ltb e (ntok g) && kind_eqb (gkind (grp g (tgrp (tok g e)))) KR &&
              (is_sender (tst (tok g e)) || is_live (tst (tok g e)))); [|exact HE].
    cbn [fst]. unfold GE, upd_grp, new_tok. cbn. ge_fset HE.
  - destruct (Nat.ltb e (ntok g) && is_live (tst (tok g e))) eqn:Eg; [|exact HE].
    apply andb_true_iff in Eg. destruct Eg as [_ Es]. apply is_live_spec in Es.
    apply GE_do_rel; auto. rewrite Es. reflexivity.
  - destruct (Nat.ltb e (ntok g) && is_live (tst (tok g e))); exact HE.
  - destruct (malive g); cbn [negb]; [|exact HE].
    destruct HE as [E1 E2 E3 E4 E5]. destruct (mstate g); cbn [fst]; unfold GE, new_tok; cbn; constructor; auto; discriminate.
Qed.

(* ================= all layers together ================= *)
Definition GL (g : shared) : Prop := GI g /\ GA g /\ GB g /\ GC g /\ GE g.

Lemma GL_step c t g l : GL g -> GL (fst (rw_tstep c t g l)).
Proof.
  intros [H [HA [HB [HC HE]]]]. unfold GL. destruct l as [|w rest]; cbn [rw_tstep].
  - split; [|split; [|split; [|split]]]; [apply GI_cmd|apply GA_cmd|apply GB_cmd|apply GC_cmd|apply GE_cmd]; assumption.
  - split; [|split; [|split; [|split]]]; [apply GI_work|apply GA_work|apply GB_work|apply GC_work|apply GE_work]; assumption.
Qed.

Theorem GL_run sched : GL (fst (rw_run sched)).
Proof.
  unfold rw_run. apply run_ginv; [intros; apply GL_step; assumption|].
  split; [|split; [|split; [|split]]]; [apply GI_init|apply GA_init|apply GB_init|apply GC_init|apply GE_init].
Qed.

(* ---- consequences: order *)
Definition grant_grps (l : list ev) : list nat :=
  flat_map (fun v => match v with EGrant _ k _ => [k] | _ => [] end) l.

Lemma grant_grps_in l k : In k (grant_grps l) -> In k (grps l).
Proof.
  unfold grant_grps, grps. intros H. apply in_flat_map in H. destruct H as [v [Hv Hi]].
  apply in_flat_map. exists v. split; [exact Hv|]. destruct v; cbn in *; auto.
Qed.

Lemma sorted_grants l : StronglySorted ge_nat (grps l) -> StronglySorted ge_nat (grant_grps l).
Proof.
  induction l as [|v l IH]; intros H; [constructor|].
  destruct v; cbn in *; auto.
  - apply StronglySorted_inv in H. destruct H as [H1 H2]. constructor; [auto|].
    apply Forall_forall. intros x Hx. rewrite Forall_forall in H2. apply H2. apply grant_grps_in. exact Hx.
  - apply StronglySorted_inv in H. destruct H as [H1 H2]. auto.
Qed.

Lemma sorted_split l1 : forall v l2, StronglySorted ge_nat (grps (l1 ++ v :: l2)) ->
  forall k k', In k (ev_grp v) -> (In k' (grps l2) -> k' <= k) /\ (In k' (grps l1) -> k <= k').
Proof.
  unfold grps. induction l1 as [|u l1 IH]; intros v l2 H k k' Hk; cbn [app flat_map] in H.
  - split; [|intros []]. intros Hin.
    destruct v; cbn in Hk; try contradiction; destruct Hk as [<-|[]]; cbn in H;
      apply StronglySorted_inv in H; destruct H as [_ H]; rewrite Forall_forall in H; apply H; exact Hin.
  - assert (Hs : StronglySorted ge_nat (flat_map ev_grp (l1 ++ v :: l2))).
    { destruct u; cbn in H; auto; apply StronglySorted_inv in H; tauto. }
    destruct (IH v l2 Hs k k' Hk) as [I1 I2]. split; [exact I1|].
    cbn [flat_map]. intros Hin. apply in_app_or in Hin. destruct Hin as [Hin|Hin]; [|auto].
    assert (Hkin : In k (flat_map ev_grp (l1 ++ v :: l2))).
    { apply in_flat_map. exists v. split; [apply in_or_app; right; now left|exact Hk]. }
    destruct u; cbn in Hin; try contradiction; destruct Hin as [<-|[]]; cbn in H;
      apply StronglySorted_inv in H; destruct H as [_ H]; rewrite Forall_forall in H; apply H; exact Hkin.
Qed.

(* the log is sorted by request group: grants and uses, newest first *)
Lemma rw_log_sorted sched : StronglySorted ge_nat (grps (elog (fst (rw_run sched)))).
Proof. destruct (GL_run sched) as [_ [HA _]]. apply (g2 _ _ _ _ HA). Qed.

Lemma rw_request_order sched : let g := fst (rw_run sched) in
  StronglySorted ge_nat (grant_grps (elog g)) /\
  (forall l1 l2 e k r e' k' r', elog g = l1 ++ EGrant e' k' r' :: l2 -> In (EGrant e k r) l2 -> k <= k') /\
  (forall e k r, In (EGrant e k r) (elog g) -> k = tgrp (tok g e) /\ r = treq (tok g e)).
Proof.
  intros g. destruct (GL_run sched) as [_ [HA [HB _]]]. fold g in HA, HB. split; [|split].
  - apply sorted_grants. apply (g2 _ _ _ _ HA).
  - intros l1 l2 e k r e' k' r' Hl Hin.
    pose proof (g2 _ _ _ _ HA) as Hs. rewrite Hl in Hs.
    apply (sorted_split l1 _ l2 Hs k' k); [cbn; auto|]. eapply in_grps_grant; eauto.
  - intros e k r Hin. destruct (b2 _ _ _ HB _ _ _ Hin) as [_ [X [Y _]]]. auto.
Qed.

(* ---- consequences: granted at most once, only after start *)
Lemma rw_granted_once sched : let g := fst (rw_run sched) in
  NoDup (grant_toks (elog g)) /\
  (forall e k r, In (EGrant e k r) (elog g) -> e < ntok g /\ tstarted (tok g e) = true) /\
  (forall e, tstarted (tok g e) = true -> pend (tst (tok g e)) = true \/ In e (grant_toks (elog g))) /\
  (forall e, pend (tst (tok g e)) = true -> tstarted (tok g e) = true /\ ~ In e (grant_toks (elog g))).
Proof.
  intros g. destruct (GL_run sched) as [_ [_ [HB _]]]. fold g in HB. repeat split.
  - apply (b1 _ _ _ HB).
  - apply (b2 _ _ _ HB _ _ _ H).
  - apply (b2 _ _ _ HB _ _ _ H).
  - apply (b4 _ _ _ HB).
  - apply (b3 _ _ _ HB _ H).
  - apply (b3 _ _ _ HB _ H).
Qed.

(* ---- consequences: a read-write access is alone *)
Lemma wrapper_acc s : is_wrapper s = true -> acc s = true.
Proof. destruct s; cbn; congruence. Qed.

Lemma rw_writer_alone sched : let g := fst (rw_run sched) in
  (forall e1 e2, is_wrapper (tst (tok g e1)) = true -> is_wrapper (tst (tok g e2)) = true ->
     gkind (grp g (tgrp (tok g e1))) = KW -> e1 = e2) /\
  (forall e1 e2, acc (tst (tok g e1)) = true -> acc (tst (tok g e2)) = true -> tgrp (tok g e1) = tgrp (tok g e2) ->
     gkind (grp g (tgrp (tok g e1))) = KW -> e1 = e2) /\
  (forall e1 e2 k r1 r2, In (EGrant e1 k r1) (elog g) -> In (EGrant e2 k r2) (elog g) -> gkind (grp g k) = KW -> e1 = e2).
Proof.
  intros g. destruct (GL_run sched) as [_ [_ [_ [HC _]]]]. fold g in HC. split; [|split].
  - intros e1 e2 H1 H2 Hk. apply (c1 _ _ _ _ _ HC); auto using wrapper_acc.
    apply (rw_exclusive sched); assumption.
  - apply (c1 _ _ _ _ _ HC).
  - apply (c4 _ _ _ _ _ HC).
Qed.

(* ---- consequences: versions *)
Lemma seen_ok_split l1 : forall e k s wr l2, seen_ok (l1 ++ EUse e k s wr :: l2) -> s = nwrites l2.
Proof.
  induction l1 as [|u l1 IH]; intros e k s wr l2 H; cbn in H; [tauto|].
  destruct u; try (eapply IH; exact H). destruct H as [_ H]. eapply IH; exact H.
Qed.

Lemma rw_sees_prior_writes sched : let g := fst (rw_run sched) in
  forall l1 l2 e k s wr, elog g = l1 ++ EUse e k s wr :: l2 ->
    s = nwrites l2 /\ wr = kind_eqb (gkind (grp g k)) KW /\
    (forall e' k' s', In (EUse e' k' s' true) l2 -> k' <= k /\ (wr = false -> k' < k)) /\
    (forall e' k' s', In (EUse e' k' s' true) l1 -> k <= k' /\ (wr = false -> k < k')).
Proof.
  intros g l1 l2 e k s wr Hl. destruct (GL_run sched) as [_ [HA _]]. fold g in HA.
  destruct HA as [A1 A2 A3 A4 A5]. rewrite Hl in A2, A5.
  assert (Hwr : wr = kind_eqb (gkind (grp g k)) KW).
  { apply (A4 e k s wr). rewrite Hl. apply in_or_app. right. now left. }
  assert (Hne : forall e' k' s', In (EUse e' k' s' true) (elog g) -> wr = false -> k' <> k).
  { intros e' k' s' Hin Hf Hq. subst k'. apply A4 in Hin. congruence. }
  split; [eapply seen_ok_split; eauto|]. split; [exact Hwr|]. split.
  - intros e' k' s' Hin.
    assert (k' <= k) by (apply (sorted_split l1 _ l2 A2 k k'); [cbn; auto|eapply in_grps_use; eauto]).
    split; [assumption|]. intros Hf.
    assert (k' <> k) by (apply (Hne e' k' s'); [rewrite Hl; apply in_or_app; right; now right|exact Hf]). lia.
  - intros e' k' s' Hin.
    assert (k <= k') by (apply (sorted_split l1 _ l2 A2 k k'); [cbn; auto|eapply in_grps_use; eauto]).
    split; [assumption|]. intros Hf.
    assert (k' <> k) by (apply (Hne e' k' s'); [rewrite Hl; apply in_or_app; now left|exact Hf]). lia.
Qed.

(* ---- consequences: the wrapped value outlives every reference *)
Lemma rw_value_outlives sched e : let g := fst (rw_run sched) in
  alive (tst (tok g e)) = true ->
  vheld (grp g (tgrp (tok g e))) = true /\ 1 <= vrefs g /\ vfreed g = false /\
  vrefs g = b2n (mvheld g) + cnt (fun k => vheld (grp g k)) (ngrp g).
Proof.
  intros g Ha. destruct (GL_run sched) as [H [_ [_ [_ HE]]]]. fold g in H, HE.
  destruct (rw_group_outlives sched e Ha) as [_ Hp]. fold g in Hp.
  pose proof (a1 _ _ _ _ _ _ H e Ha) as Hk.
  assert (Hv : vheld (grp g (tgrp (tok g e))) = true) by (rewrite (e2 _ _ _ _ _ _ HE _ Hk), Hp; reflexivity).
  pose proof (cnt_pos (ngrp g) (fun k => vheld (grp g k)) _ Hk Hv) as Hc.
  pose proof (e1 _ _ _ _ _ _ HE) as E1.
  assert (Hr : 1 <= vrefs g) by lia.
  repeat split; auto. rewrite (e3 _ _ _ _ _ _ HE). destruct (vrefs g); [lia|reflexivity].
Qed.

(* ---- [bad = false] does NOT hold in every reachable state of the model as written: the model
   makes the sender token of a request visible, and lets other threads issue mutex calls,
   while the requesting thread is still inside read()/readwrite() (its first-group done() is
   a separate work item).  Thread 1 drops that sender and destroys the mutex; the first
   group's count reaches 0; thread 0 then runs done() on the destroyed group. *)
Definition bad_witness : list (nat * cmd) :=
  [(0, CReq KW); (1, CDropOp 0); (1, CStep false); (1, CDestroy); (1, CStep false); (0, CStep false)].
Lemma rw_no_bad_refuted : exists sched, bad (fst (rw_run sched)) = true.
Proof. exists bad_witness. vm_compute. reflexivity. Qed.
