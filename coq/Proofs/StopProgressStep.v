(* Proofs/StopProgressStep.v — one-step summaries of Model/StopState.v [st_tstep] used by the
   progress proof (Proofs/StopProgressProofs.v): how a single step changes the lock holder, the
   frames, the destructor phase, the dequeued/finished bits, the winner, remflag and is_removed_.
   Each lemma is a case split over every branch of st_tstep. *)
From Coq Require Import List NArith Bool Arith Lia.
From Pika Require Import Base.Conc Gen.GenStopBits Model.StopWord Model.StopState
  Proofs.StopFlagsProofs Proofs.StopStateProofs Proofs.StopCallbacksAbs Proofs.StopCallbacksProofs.
Import ListNotations.

Definition On (Q : shared -> local -> Prop) (r : shared * local) : Prop := Q (fst r) (snd r).

Ltac brkOn := cbv zeta; repeat (match goal with
  | |- On _ (if ?b then _ else _) => destruct b eqn:?
  | |- On _ (match ?x with _ => _ end) => destruct x eqn:?
  | |- On _ (q_loop_head _ _) => unfold q_loop_head; cbn [cbs set_winner set_sig set_holder set_word]
  | |- On _ (a_after_read _ _ _ _ _ _) => unfold a_after_read
  | |- On _ (dispatch _ _ _ _ _) => unfold dispatch
  | |- context [if remflag ?g ?t then _ else _] => destruct (remflag g t) eqn:?
  end; cbv zeta).

Ltac proj := cbn [fst snd pc frames htok hsrc set_pc set_frames set_held
  word cbs cb sig_pika sig_os remflag holder winner winner_ret bad_run_after_dtor bad_dtor_during_run log
  set_word set_holder set_cbs set_cb set_sig set_remflag set_winner set_bad add_log
  dtor_returns ctor_returns] in *.

(* st_tstep P o t g l0 = body (norm l0): all summaries are stated on l = norm l0 *)
Ltac start l0 l Epc :=
  unfold st_tstep; cbv zeta; generalize (norm l0); intros l;
  destruct (pc l) eqn:Epc; brkOn; unfold On; proj.

Ltac updc := unfold upd in *; rewrite ?Nat.eqb_refl in *;
  repeat match goal with
  | |- context [Nat.eqb ?a ?b] => destruct (Nat.eqb_spec a b) as [->|]
  | H : context [Nat.eqb ?a ?b] |- _ =>
      let E := fresh "E" in destruct (Nat.eqb a b) eqn:E;
      [apply Nat.eqb_eq in E; first [subst a | subst b | idtac] | apply Nat.eqb_neq in E]
  end.

(* ---------------- classification of pcs ---------------- *)
Definition rpc (p : pcs) : option nat :=
  match p with
  | RLoad c | RCas c _ | RSpin c | RUnlock c _ | RCheck c | RWait c | RRelease c => Some c
  | _ => None
  end.
Definition inreq (c : nat) (l : local) : Prop := In (KReq c) (map fst (frames l)).
Definition inq (c : nat) (l : local) : Prop := pc l = QEnd c \/ inreq c l.
Definition proc (l : local) (c : nat) : Prop :=
  pc l = QUnlock c \/ pc l = QBegin c \/ inq c l.

Fixpoint wf_frames (fs : list (ctx * list op)) : bool :=
  match fs with
  | [] => false
  | (k, _) :: r => match k, r with KTop, [] => true | KTop, _ => false | _, _ => wf_frames r end
  end.

(* what a thread inside remove_callback(c) knows about how c left the list *)
Definition RN (p : pcs) (g : shared) : Prop :=
  match p with
  | RLoad c | RCas c _ | RSpin c => cb_queued (cb g c) = true \/ cb_deq (cb g c) = true
  | RUnlock c false | RCheck c | RWait c => cb_deq (cb g c) = true
  | _ => True
  end.

(* ---------------- S1: the lock holder ---------------- *)
Lemma S1 P o t g l0 :
  On (fun g' l' =>
    (holds (pc (norm l0)) = true /\ holder g' = None) \/
    (holds (pc (norm l0)) = false /\
       ((holder g' = holder g /\ holds (pc l') = false) \/ (holder g' = Some t /\ holds (pc l') = true))))
  (st_tstep P o t g l0).
Proof.
  start l0 l Epc; cbn [holds]; try rewrite Epc; cbn [holds];
    try (left; split; reflexivity);
    try (right; split; [reflexivity|]; left; split; reflexivity);
    try (right; split; [reflexivity|]; right; split; reflexivity).
  all: try match goal with removed : bool |- _ => destruct removed end; cbn [holds];
    try (left; split; reflexivity);
    try (right; split; [reflexivity|]; left; split; reflexivity);
    try (right; split; [reflexivity|]; right; split; reflexivity).
Qed.

(* ---------------- S2: shape of the frame stack ---------------- *)
Lemma wf_norm l : wf_frames (frames l) = true -> wf_frames (frames (norm l)) = true.
Proof.
  unfold norm. destruct (pc l) eqn:E; try (intros H; exact H).
  destruct (frames l) as [|[[|c|c] [|o r]] fs] eqn:F; cbn [frames set_frames]; rewrite ?F;
    cbn [wf_frames]; intros H; exact H.
Qed.

Lemma S2 P o t g l0 : wf_frames (frames (norm l0)) = true ->
  On (fun g' l' => wf_frames (frames l') = true) (st_tstep P o t g l0).
Proof.
  revert o. intros o. unfold st_tstep; cbv zeta; generalize (norm l0); intros l Hwf.
  destruct (pc l) eqn:Epc; brkOn; unfold On; proj; try assumption.
  all: try match goal with H : frames _ = _ |- _ => rewrite ?H in * end.
  all: try (destruct c; cbn [wf_frames] in *; assumption).
  all: cbn [wf_frames] in *; try assumption; try discriminate.
Qed.

Ltac prep := repeat match goal with
  | H : (_ && _)%bool = true |- _ => apply andb_true_iff in H; destruct H
  | H : Nat.eqb _ _ = true |- _ => apply Nat.eqb_eq in H
  end.

Ltac fin3 := intuition (try congruence; try discriminate; try lia).

(* ---------------- S3: destructor phase, queued / dequeued / finished bits ---------------- *)
Lemma S3 P o t g l0 :
  On (fun g' l' =>
    (forall c, rpc (pc l') = Some c ->
       (rpc (pc (norm l0)) = Some c /\ cb_dtor (cb g' c) = cb_dtor (cb g c)) \/
       (pc (norm l0) = Idle /\ cb_dtor (cb g c) = 0 /\ cb_ctor (cb g c) = 2 /\ cb_reg (cb g c) = true /\
        pc l' = RLoad c /\ cb g' c = cdtor (cb g c) 1)) /\
    (forall c, cb_dtor (cb g' c) = cb_dtor (cb g c) \/ cb_dtor (cb g c) = 0 \/ pc (norm l0) = RRelease c) /\
    (forall c, cb_dtor (cb g c) = 2 -> cb_dtor (cb g' c) = 2) /\
    (forall c, cb_deq (cb g c) = true -> cb_deq (cb g' c) = true) /\
    (forall c, cb_queued (cb g c) = true ->
       cb_queued (cb g' c) = true \/ cb_deq (cb g' c) = true \/ rpc (pc (norm l0)) = Some c) /\
    (forall c, cb_finished (cb g c) = true -> cb_finished (cb g' c) = true))
  (st_tstep P o t g l0).
Proof.
  start l0 l Epc; prep.
  all: try match goal with removed : bool |- _ => destruct removed end.
  all: repeat split; intros cx; intros; repeat match goal with H : context [pc _] |- _ => progress (rewrite Epc in H) end;
       rewrite ?Epc; cbn [rpc] in *; try discriminate.
  all: updc; cbf; try solve [fin3].
Qed.

(* ---------------- S5: frames and pcs of the winner's loop; S6: remflag / is_removed_ ---------------- *)
Lemma S5 P o t g l0 :
  On (fun g' l' =>
    (forall c, pc l' <> QEnd c) /\
    (forall c, inreq c (norm l0) -> inreq c l') /\
    (forall c, inreq c l' -> inreq c (norm l0) \/ (pc (norm l0) = QBegin c /\ remflag g' t = false)) /\
    (forall c, pc (norm l0) = QUnlock c -> pc l' = QBegin c) /\
    (forall c, pc (norm l0) = QBegin c -> inreq c l') /\
    (forall c, pc (norm l0) = QEnd c -> cb_finished (cb g' c) = true \/ remflag g t = true) /\
    (forall c, pc (norm l0) = QEnd c -> cb_isrem (cb g' c) = None \/ remflag g t = true))
  (st_tstep P o t g l0).
Proof.
  start l0 l Epc; prep.
  all: try match goal with removed : bool |- _ => destruct removed end.
  all: unfold inreq; repeat split; intros cx; intros;
       rewrite ?Epc in *; proj; try discriminate;
       try match goal with H : frames _ = _ |- _ => rewrite ?H in * end;
       cbn [map fst In] in *.
  all: try solve [fin3].
  all: updc; cbf; try solve [fin3].
Qed.

Lemma S6 P o t g l0 :
  On (fun g' l' =>
    (forall x, remflag g' x = true -> remflag g x = true \/
       exists c, pc (norm l0) = RCheck c /\ same_thread P g t = true /\ cb_isrem (cb g c) = Some x /\
                 pc l' = RRelease c) /\
    (forall c x, cb_isrem (cb g' c) = Some x ->
       cb_isrem (cb g c) = Some x \/ (pc (norm l0) = QBegin c /\ x = t)) /\
    (forall c, pc (norm l0) = RRelease c -> (g' = g /\ l' = norm l0) \/ cb_dtor (cb g' c) = 2))
  (st_tstep P o t g l0).
Proof.
  start l0 l Epc; prep.
  all: try match goal with removed : bool |- _ => destruct removed end.
  all: repeat split; intros cx; intros;
       rewrite ?Epc in *; proj; try discriminate.
  all: try solve [fin3].
  all: try solve [updc; cbf; fin3].
  all: try solve [updc; cbf; try fin3; right; eexists; repeat split; try eassumption; reflexivity].
Qed.

(* ---------------- S4: winner / winner_ret / newly dequeued callbacks ---------------- *)
Lemma S4 P o t g l0 : GI g -> LI g t (norm l0) ->
  On (fun g' l' =>
    ((winner g' = winner g /\ winner_ret g' = winner_ret g) \/
     (winner g = None /\ winner_ret g = false /\ winner g' = Some t /\ winner_ret g' = false) \/
     (pc (norm l0) = QFinal /\ winner g' = winner g /\ winner_ret g' = true)) /\
    (forall c, cb_deq (cb g' c) = true ->
       cb_deq (cb g c) = true \/ (pc l' = QUnlock c /\ winner g' = Some t /\ winner_ret g' = false)))
  (st_tstep P o t g l0).
Proof.
  intros HG HL. unfold st_tstep. cbv zeta. revert HL. generalize (norm l0). intros l HL.
  destruct HG as (HW & Hlk & Hrq & Hcnt & Hret & Hsome).
  unfold LI, LI3 in HL. destruct HL as (Hh & Hq & Hs1 & Hsw & Hws).
  destruct (pc l) eqn:Epc; brkOn; unfold On; proj; cbn [holds sigpc sc] in *.
  all: try match goal with removed : bool |- _ => destruct removed end.
  all: try match goal with Hc : ((word ?gg =? w_clear_lock ?old)%N && negb _)%bool = true |- _ =>
         destruct (cas_facts gg old _ Hlk Hc) as [Hho Hrq'];
         try (rewrite (Hq old eq_refl) in Hrq'; destruct (no_winner gg Hrq Hret Hrq') as [Hwn Hwr]) end.
  all: unfold sc in *; cbn [sigpc] in *.
  all: try (destruct Hsw as [Hwt Hrf]; [lia|]).
  all: split; [try (left; split; reflexivity); try (right; left; repeat split; assumption);
               try (right; right; repeat split; reflexivity)
              | intros cx Hd; updc; cbf; try (left; assumption); try (left; exact Hd); try discriminate;
                try (right; repeat split; try reflexivity; assumption)].
Qed.

(* ---------------- S8: what the thread inside remove_callback knows ---------------- *)
Lemma S8 P o t g l0 : RN (pc (norm l0)) g ->
  On (fun g' l' => rpc (pc (norm l0)) <> None -> RN (pc l') g') (st_tstep P o t g l0).
Proof.
  intros HR. unfold st_tstep. cbv zeta. revert HR. generalize (norm l0). intros l HR.
  destruct (pc l) eqn:Epc; brkOn; unfold On; proj; cbn [rpc RN] in *; intros Hn; try (now elim Hn).
  all: try match goal with removed : bool |- _ => destruct removed end.
  all: rewrite ?Epc in *; cbn [rpc RN] in *; try exact I; try assumption.
  all: updc; cbf; try solve [fin3].
Qed.

(* ---------------- S7: which steps leave the stepping thread where it was ---------------- *)
Definition spinpc (p : pcs) : bool :=
  match p with QSpin | QRSpin | ASpin _ | RSpin _ => true | _ => false end.
(* a reference-count step whose guard fails (the counts_fit side condition of the model) *)
Definition wedged (g : shared) (l : local) : bool :=
  match pc l with
  | AAddRef _ | TAddRef | SAddRef => negb (tok_room (word g))
  | ARelease _ | RRelease _ | TRelease | SRelease => negb (tok_spare (word g))
  | SInc => negb (src_room (word g))
  | SDec => negb (src_some (word g))
  | _ => false
  end.

Lemma clear_lock_id w : w_is_locked w = false -> w_clear_lock w = w.
Proof.
  rewrite is_locked_lk. Transparent w_clear_lock. unfold lk, w_clear_lock. Opaque w_clear_lock.
  rewrite layout_locked, ldiff_pow2. intros ->. reflexivity.
Qed.

Lemma cons_neq {A} (x : A) l : l <> x :: l.
Proof. intros H. apply (f_equal (@length A)) in H. cbn in H. lia. Qed.

Lemma S7 P t g l0 :
  On (fun g' l' =>
    (pc l' = pc (norm l0) -> frames l' = frames (norm l0) ->
     wf_frames (frames (norm l0)) = true -> normal (norm l0) ->
       thread_done (norm l0) = true \/
       (spinpc (pc (norm l0)) = true /\ w_is_locked (word g) = true) \/
       (exists c, pc (norm l0) = RWait c /\ cb_finished (cb g c) = false) \/
       wedged g (norm l0) = true) /\
    (forall c, pc (norm l0) = QEnd c \/ pc (norm l0) = AEnd c -> pc l' <> Idle))
  (st_tstep P false t g l0).
Proof.
  unfold st_tstep; cbv zeta; generalize (norm l0); intros l.
  destruct (pc l) eqn:Epc; brkOn; unfold On; proj.
  all: try match goal with removed : bool |- _ => destruct removed end.
  all: split; [intros Hpc Hfr Hwf Hn; rewrite ?Epc in Hpc; try discriminate Hpc
              | intros cx [Hx|Hx]; rewrite ?Epc in Hx; try discriminate Hx; discriminate].
  all: unfold wedged, thread_done, normal in *; rewrite ?Epc in *; cbn [spinpc negb] in *.
  all: try (right; left; split; [reflexivity|assumption]).
  all: try (right; right; left; eexists; split; [reflexivity|assumption]).
  all: try (right; right; right; match goal with H : _ = false |- _ => rewrite H end; reflexivity).
  all: try match goal with H : frames _ = _ |- _ => rewrite ?H in * end.
  all: try (exfalso; injection Hfr; intros Hfr'; exact (cons_neq _ _ Hfr')).
  all: try (injection Hpc; intros Hpc').
  all: try (exfalso; rewrite <- ?Hpc' in *;
            match goal with
            | Hl : w_is_locked (word ?gg) = false, Hc : context [w_clear_lock (word ?gg)] |- _ =>
                rewrite (clear_lock_id _ Hl), N.eqb_refl in Hc; discriminate Hc
            end).
  all: try (right; left; split; reflexivity).
  all: try (exfalso; cbn [andb] in *; rewrite <- ?Hpc' in *;
            match goal with
            | Hl : w_is_locked (word ?gg) = false, Hc : context [w_clear_lock (word ?gg)] |- _ =>
                rewrite (clear_lock_id _ Hl), N.eqb_refl in Hc; discriminate Hc
            end).
  all: try (cbn [wf_frames] in Hwf; discriminate Hwf).
  all: try (destruct c, l1; cbn [wf_frames] in *; try discriminate; try contradiction; left; reflexivity).
Qed.
