(* Proofs/SchedProofs.v — C01: the handle/state invariant of the scheduler core and what
   follows from it (single runner, entered once, handles, no drop). *)
From Coq Require Import List NArith Bool Arith Lia.
From Pika Require Import Base.Conc Gen.GenEnums Model.Sched.
Import ListNotations.

(* ------------------------------------------------------------------ basics *)
Lemma word_eqb_true a b : word_eqb a b = true <-> a = b.
Proof.
  unfold word_eqb. rewrite andb_true_iff, sst_beq_true, N.eqb_eq.
  destruct a, b; cbn. split; [intros [-> ->]; reflexivity | intros H; inversion H; auto].
Qed.
Lemma word_eqb_refl a : word_eqb a a = true.
Proof. now apply word_eqb_true. Qed.
Lemma word_eqb_false a b : word_eqb a b = false <-> a <> b.
Proof.
  split; intros H.
  - intros E. apply word_eqb_true in E. congruence.
  - destruct (word_eqb a b) eqn:E; [apply word_eqb_true in E; contradiction | reflexivity].
Qed.
Lemma sst_beq_refl s : sst_beq s s = true.
Proof. now apply sst_beq_true. Qed.
Lemma sst_beq_false a b : sst_beq a b = false <-> a <> b.
Proof.
  split; intros H.
  - intros E. apply sst_beq_true in E. congruence.
  - destruct (sst_beq a b) eqn:E; [apply sst_beq_true in E; contradiction | reflexivity].
Qed.

Lemma remove_nth_split {A} (l : list A) i x :
  nth_error l i = Some x -> exists l1 l2, l = l1 ++ x :: l2 /\ remove_nth i l = l1 ++ l2.
Proof.
  revert i. induction l as [|y r IH]; intros [|i] H; cbn in *; try discriminate.
  - inversion H; subst. exists [], r. split; reflexivity.
  - destruct (IH _ H) as (l1 & l2 & -> & E). exists (y :: l1), l2. cbn. rewrite E. split; reflexivity.
Qed.

Ltac upd_cases b a :=
  destruct (Nat.eq_dec b a) as [->|?];
  [rewrite ?upd_same in * | rewrite ?upd_other in * by assumption].

(* ------------------------------------------------------------------ the invariant (on a view) *)
Definition live_st (s : sst) : Prop := s = st_pending \/ s = st_pending_boost \/ s = st_active.
Definition ret_ok (r : sst) : Prop :=
  r = st_pending \/ r = st_pending_boost \/ r = st_suspended \/ r = st_terminated.

Definition main_ok (n : nat) (wf : nat -> word) (l : pc) : Prop :=
  match l with
  | WGot t => t < n /\ st (wf t) = st_pending
  | WLoaded t w0 => t < n /\ wf t = w0 /\ st w0 = st_pending
  | WRun t orig _ => t < n /\ wf t = orig /\ st orig = st_active
  | WStoreL t orig ret => t < n /\ wf t = orig /\ st orig = st_active /\ ret_ok ret
  | WStoreC t orig ret cur => t < n /\ wf t = orig /\ st orig = st_active /\ ret_ok ret /\ cur = orig
  | WBoost t | WBoostC t _ => t < n /\ (st (wf t) = st_pending_boost \/ st (wf t) = st_pending)
  | WRequeue t => t < n /\ st (wf t) = st_pending
  | WRelease t => t < n
  | WTop | XRun _ _ => True
  end.
Definition sub_ok (n : nat) (wf : nat -> word) (s : sub) : Prop :=
  match s with
  | SNone | SIssue _ | SLoad _ => True
  | SCas u prev => u < n /\ (st prev = st_suspended \/ st prev = st_pending_boost)
  | SEnq u => u < n /\ st (wf u) = st_pending
  end.
Definition pc_ok n wf l := main_ok n wf l /\ sub_ok n wf (sub_of l).

Record SInvV (n : nat) (pd : list nat) (wf : nat -> word) (ls : nat -> pc) : Prop := {
  i_queue : forall t, In t pd -> t < n /\ st (wf t) = st_pending;
  i_nodup : NoDup pd;
  i_pc : forall a, pc_ok n wf (ls a);
  i_uniq : forall a b t, holds (ls a) t -> holds (ls b) t -> a = b;
  i_excl : forall a t, holds (ls a) t -> ~ In t pd;
  i_exist : forall t, t < n -> live_st (st (wf t)) -> In t pd \/ exists a, holds (ls a) t;
  i_dom : forall t, t < n ->
          live_st (st (wf t)) \/ st (wf t) = st_suspended \/ st (wf t) = st_terminated
}.

Definition SInv (g : G) (ls : nat -> pc) : Prop := SInvV (ntasks g) (pend g) (tw_of g) ls.

(* a handle is only ever held for a live task *)
Lemma pc_ok_holds_live n wf l t : pc_ok n wf l -> holds l t -> t < n /\ live_st (st (wf t)).
Proof.
  unfold pc_ok, holds, enq_of, live_st. intros [Hm Hs] [H|H].
  - destruct l; cbn in *; inversion H; subst; intuition (subst; auto).
  - destruct (sub_of l); cbn in *; inversion H; subst. intuition auto.
Qed.

Lemma pc_ok_ext n wf wf' l : (forall t, t < n -> wf' t = wf t) -> pc_ok n wf l -> pc_ok n wf' l.
Proof.
  intros E [Hm Hs]. split.
  - destruct l; cbn in *; intuition auto; try (rewrite E by assumption; assumption).
  - destruct (sub_of l); cbn in *; intuition auto. rewrite E by assumption. assumption.
Qed.

Lemma pc_ok_mono n wf l : pc_ok n wf l -> pc_ok (S n) wf l.
Proof.
  intros [Hm Hs]. split.
  - destruct l; cbn in *; intuition auto.
  - destruct (sub_of l); cbn in *; intuition auto.
Qed.

(* a thread that does not hold t does not care about t's word *)
Lemma pc_ok_other n wf wf' l t :
  (forall x, x <> t -> wf' x = wf x) -> ~ holds l t -> pc_ok n wf l -> pc_ok n wf' l.
Proof.
  unfold holds, enq_of. intros E Hn [Hm Hs]. split.
  - destruct l; cbn in *; auto;
      (destruct (Nat.eq_dec t0 t) as [->|Hne]; [exfalso; apply Hn; left; reflexivity|]);
      rewrite E by assumption; assumption.
  - destruct (sub_of l) eqn:Es; cbn in *; auto.
    destruct (Nat.eq_dec u t) as [->|Hne]; [exfalso; apply Hn; right; reflexivity|].
    rewrite E by assumption; assumption.
Qed.

Section Effects.
  Variables (n : nat) (pd : list nat) (wf : nat -> word) (ls : nat -> pc).
  Hypothesis HI : SInvV n pd wf ls.

  Lemma holds_live a t : holds (ls a) t -> t < n /\ live_st (st (wf t)).
  Proof. apply pc_ok_holds_live, (i_pc _ _ _ _ HI). Qed.

  (* E0: the view is unchanged, thread a's pc changes but holds the same handles *)
  Lemma inv_frame wf' a l' :
    (forall t, wf' t = wf t) ->
    (forall t, holds l' t <-> holds (ls a) t) ->
    pc_ok n wf' l' ->
    SInvV n pd wf' (upd ls a l').
  Proof.
    intros Hw Hh Hp.
    assert (Hold : forall b t, holds (upd ls a l' b) t <-> holds (ls b) t).
    { intros b t. upd_cases b a; [apply Hh | tauto]. }
    constructor.
    - intros t Ht. rewrite Hw. now apply (i_queue _ _ _ _ HI).
    - apply (i_nodup _ _ _ _ HI).
    - intros b. upd_cases b a; [exact Hp|].
      apply pc_ok_ext with (wf := wf); [intros; apply Hw | apply (i_pc _ _ _ _ HI)].
    - intros b c t H1 H2. apply Hold in H1. apply Hold in H2. eapply (i_uniq _ _ _ _ HI); eauto.
    - intros b t H1. apply Hold in H1. eapply (i_excl _ _ _ _ HI); eauto.
    - intros t Ht Hl. rewrite Hw in Hl. destruct (i_exist _ _ _ _ HI t Ht Hl) as [H|[b H]]; [now left|].
      right. exists b. now apply Hold.
    - intros t Ht. rewrite Hw. now apply (i_dom _ _ _ _ HI).
  Qed.

  (* E1: pop — a worker at the top of its loop takes a handle out of the bag *)
  Lemma inv_pop a i t :
    ls a = WTop -> nth_error pd i = Some t ->
    SInvV n (remove_nth i pd) wf (upd ls a (WGot t)).
  Proof.
    intros Ha Hn.
    destruct (remove_nth_split _ _ _ Hn) as (l1 & l2 & Epd & ->).
    assert (Hin : In t pd) by (rewrite Epd; apply in_or_app; right; left; reflexivity).
    assert (Hnd := i_nodup _ _ _ _ HI). rewrite Epd in Hnd.
    destruct (NoDup_remove _ _ _ Hnd) as [Hnd' Hnin].
    assert (Hsub : forall x, In x (l1 ++ l2) -> In x pd).
    { intros x Hx. rewrite Epd. apply in_app_or in Hx. apply in_or_app. destruct Hx; [left|right; right]; auto. }
    assert (Hsup : forall x, In x pd -> x <> t -> In x (l1 ++ l2)).
    { intros x Hx Hne. rewrite Epd in Hx. apply in_app_or in Hx. apply in_or_app.
      destruct Hx as [|[|]]; [left; auto | congruence | right; auto]. }
    destruct (i_queue _ _ _ _ HI t Hin) as [Htn Htp].
    assert (Hnone : forall b, ~ holds (ls b) t).
    { intros b Hb. eapply (i_excl _ _ _ _ HI); eauto. }
    assert (Ha0 : forall x, ~ holds (ls a) x).
    { intros x. rewrite Ha. unfold holds, enq_of; cbn. intros [|]; discriminate. }
    constructor.
    - intros x Hx. apply (i_queue _ _ _ _ HI). auto.
    - exact Hnd'.
    - intros b. upd_cases b a; [split; cbn; auto | apply (i_pc _ _ _ _ HI)].
    - intros b c x H1 H2.
      upd_cases b a; upd_cases c a; auto.
      + unfold holds, enq_of in H1; cbn in H1. destruct H1 as [H1|H1]; inversion H1; subst.
        exfalso; eapply Hnone; eauto.
      + unfold holds, enq_of in H2; cbn in H2. destruct H2 as [H2|H2]; inversion H2; subst.
        exfalso; eapply Hnone; eauto.
      + eapply (i_uniq _ _ _ _ HI); eauto.
    - intros b x H1 Hx. upd_cases b a.
      + unfold holds, enq_of in H1; cbn in H1. destruct H1 as [H1|H1]; inversion H1; subst. contradiction.
      + eapply (i_excl _ _ _ _ HI); eauto.
    - intros x Hx Hl. destruct (Nat.eq_dec x t) as [->|Hne].
      + right. exists a. rewrite upd_same. left. reflexivity.
      + destruct (i_exist _ _ _ _ HI x Hx Hl) as [H|[b H]]; [left; auto|].
        right. exists b. upd_cases b a; [exfalso; eapply Ha0; eauto | exact H].
    - apply (i_dom _ _ _ _ HI).
  Qed.

  (* E2: push — the holder of t puts its handle into the bag *)
  Lemma inv_push a l' t :
    holds (ls a) t -> st (wf t) = st_pending ->
    (forall x, holds l' x <-> (holds (ls a) x /\ x <> t)) ->
    pc_ok n wf l' ->
    SInvV n (t :: pd) wf (upd ls a l').
  Proof.
    intros Hh Hp Hl' Hok.
    destruct (holds_live _ _ Hh) as [Htn _].
    assert (Hnin : ~ In t pd) by (eapply (i_excl _ _ _ _ HI); eauto).
    assert (Hold : forall b x, holds (upd ls a l' b) x -> holds (ls b) x /\ x <> t).
    { intros b x H. upd_cases b a; [now apply Hl'|].
      split; [exact H|]. intros ->. apply n0. eapply (i_uniq _ _ _ _ HI); eauto. }
    constructor.
    - intros x [<-|Hx]; [auto | now apply (i_queue _ _ _ _ HI)].
    - constructor; [exact Hnin | apply (i_nodup _ _ _ _ HI)].
    - intros b. upd_cases b a; [exact Hok | apply (i_pc _ _ _ _ HI)].
    - intros b c x H1 H2. apply Hold in H1. apply Hold in H2.
      eapply (i_uniq _ _ _ _ HI); [apply H1 | apply H2].
    - intros b x H1 [<-|Hx]; apply Hold in H1; [tauto|].
      eapply (i_excl _ _ _ _ HI); [apply H1 | exact Hx].
    - intros x Hx Hl. destruct (Nat.eq_dec x t) as [->|Hne]; [left; left; reflexivity|].
      destruct (i_exist _ _ _ _ HI x Hx Hl) as [H|[b H]]; [left; right; auto|].
      right. exists b. upd_cases b a; [apply Hl'; auto | exact H].
    - apply (i_dom _ _ _ _ HI).
  Qed.

  (* E3: a new thread object n is created (word (pending,0)) and pushed *)
  Lemma inv_new wf' a l' :
    wf' n = w_init -> (forall t, t <> n -> wf' t = wf t) ->
    (forall t, holds l' t <-> holds (ls a) t) ->
    pc_ok (S n) wf' l' ->
    SInvV (S n) (n :: pd) wf' (upd ls a l').
  Proof.
    intros Hn Hw Hh Hp.
    assert (Hold : forall b t, holds (upd ls a l' b) t <-> holds (ls b) t).
    { intros b t. upd_cases b a; [apply Hh | tauto]. }
    assert (Hlt : forall b t, holds (ls b) t -> t < n) by (intros b t H; now apply (holds_live b t)).
    assert (Hq : forall t, In t pd -> t < n) by (intros t H; now apply (i_queue _ _ _ _ HI)).
    constructor.
    - intros t [<-|Ht]; [rewrite Hn; cbn; auto|].
      destruct (i_queue _ _ _ _ HI t Ht) as [H1 H2]. rewrite Hw by lia. auto.
    - constructor; [intros H; apply Hq in H; lia | apply (i_nodup _ _ _ _ HI)].
    - intros b. upd_cases b a; [exact Hp|].
      apply pc_ok_mono. apply pc_ok_ext with (wf := wf); [intros; apply Hw; lia | apply (i_pc _ _ _ _ HI)].
    - intros b c t H1 H2. apply Hold in H1. apply Hold in H2. eapply (i_uniq _ _ _ _ HI); eauto.
    - intros b t H1 [<-|Ht]; apply Hold in H1; [apply Hlt in H1; lia|].
      eapply (i_excl _ _ _ _ HI); eauto.
    - intros t Ht Hl. destruct (Nat.eq_dec t n) as [->|Hne]; [left; left; reflexivity|].
      rewrite Hw in Hl by assumption. assert (Ht' : t < n) by lia.
      destruct (i_exist _ _ _ _ HI t Ht' Hl) as [H|[b H]]; [left; right; auto|].
      right. exists b. now apply Hold.
    - intros t Ht. destruct (Nat.eq_dec t n) as [->|Hne].
      + rewrite Hn. left. left. reflexivity.
      + rewrite Hw by assumption. apply (i_dom _ _ _ _ HI). lia.
  Qed.

  (* E3': a terminated thread object x is rebound (word (pending,0)) and pushed *)
  Lemma inv_rebind wf' a l' x :
    x < n -> st (wf x) = st_terminated ->
    wf' x = w_init -> (forall t, t <> x -> wf' t = wf t) ->
    (forall t, holds l' t <-> holds (ls a) t) ->
    pc_ok n wf' l' ->
    SInvV n (x :: pd) wf' (upd ls a l').
  Proof.
    intros Hx Hterm Hn Hw Hh Hp.
    assert (Hold : forall b t, holds (upd ls a l' b) t <-> holds (ls b) t).
    { intros b t. upd_cases b a; [apply Hh | tauto]. }
    assert (Hnl : ~ live_st (st (wf x))) by (rewrite Hterm; intros [|[|]]; discriminate).
    assert (Hnone : forall b, ~ holds (ls b) x).
    { intros b H. apply Hnl. now apply (holds_live b x). }
    assert (Hnin : ~ In x pd).
    { intros H. apply (i_queue _ _ _ _ HI) in H. destruct H as [_ H]. congruence. }
    constructor.
    - intros t [<-|Ht]; [rewrite Hn; cbn; auto|].
      destruct (i_queue _ _ _ _ HI t Ht) as [H1 H2].
      rewrite Hw by (intros ->; contradiction). auto.
    - constructor; [exact Hnin | apply (i_nodup _ _ _ _ HI)].
    - intros b. upd_cases b a; [exact Hp|].
      eapply pc_ok_other; [exact Hw | apply Hnone | apply (i_pc _ _ _ _ HI)].
    - intros b c t H1 H2. apply Hold in H1. apply Hold in H2. eapply (i_uniq _ _ _ _ HI); eauto.
    - intros b t H1 [<-|Ht]; apply Hold in H1; [eapply Hnone; eauto|].
      eapply (i_excl _ _ _ _ HI); eauto.
    - intros t Ht Hl. destruct (Nat.eq_dec t x) as [->|Hne]; [left; left; reflexivity|].
      rewrite Hw in Hl by assumption.
      destruct (i_exist _ _ _ _ HI t Ht Hl) as [H|[b H]]; [left; right; auto|].
      right. exists b. now apply Hold.
    - intros t Ht. destruct (Nat.eq_dec t x) as [->|Hne].
      + rewrite Hn. left. left. reflexivity.
      + rewrite Hw by assumption. now apply (i_dom _ _ _ _ HI).
  Qed.

  (* E4: the holder of t changes t's word and keeps (or drops, when the new state is not live)
     its handle; nothing else changes *)
  Lemma inv_word wf' a l' t :
    holds (ls a) t ->
    (forall x, x <> t -> wf' x = wf x) ->
    (live_st (st (wf' t)) /\ (forall x, holds l' x <-> holds (ls a) x) \/
     (st (wf' t) = st_suspended \/ st (wf' t) = st_terminated) /\
       (forall x, holds l' x <-> (holds (ls a) x /\ x <> t))) ->
    pc_ok n wf' l' ->
    SInvV n pd wf' (upd ls a l').
  Proof.
    intros Hh Hw Hcase Hok.
    destruct (holds_live _ _ Hh) as [Htn _].
    assert (Hnin : ~ In t pd) by (eapply (i_excl _ _ _ _ HI); eauto).
    assert (Hothers : forall b, b <> a -> ~ holds (ls b) t).
    { intros b Hb H. apply Hb. eapply (i_uniq _ _ _ _ HI); eauto. }
    assert (Hold : forall b x, holds (upd ls a l' b) x -> holds (ls b) x).
    { intros b x H. upd_cases b a; [|exact H]. destruct Hcase as [[_ E]|[_ E]]; apply E in H; tauto. }
    constructor.
    - intros x Hx. destruct (Nat.eq_dec x t) as [->|Hne]; [contradiction|].
      rewrite Hw by assumption. now apply (i_queue _ _ _ _ HI).
    - apply (i_nodup _ _ _ _ HI).
    - intros b. upd_cases b a; [exact Hok|].
      eapply pc_ok_other; [exact Hw | apply Hothers; assumption | apply (i_pc _ _ _ _ HI)].
    - intros b c x H1 H2. apply Hold in H1. apply Hold in H2. eapply (i_uniq _ _ _ _ HI); eauto.
    - intros b x H1. apply Hold in H1. eapply (i_excl _ _ _ _ HI); eauto.
    - intros x Hx Hl. destruct (Nat.eq_dec x t) as [->|Hne].
      + destruct Hcase as [[_ E]|[[E|E] _]].
        * right. exists a. rewrite upd_same. now apply E.
        * destruct Hl as [Hl|[Hl|Hl]]; congruence.
        * destruct Hl as [Hl|[Hl|Hl]]; congruence.
      + rewrite Hw in Hl by assumption.
        destruct (i_exist _ _ _ _ HI x Hx Hl) as [H|[b H]]; [left; auto|].
        right. exists b. upd_cases b a; [|exact H].
        destruct Hcase as [[_ E]|[_ E]]; apply E; auto.
    - intros x Hx. destruct (Nat.eq_dec x t) as [->|Hne].
      + destruct Hcase as [[E _]|[E _]]; [left; exact E | right; exact E].
      + rewrite Hw by assumption. now apply (i_dom _ _ _ _ HI).
  Qed.

  (* E5a: set_thread_state's CAS suspended -> pending succeeded: the caller now owns the one
     handle of u (it is about to enqueue it) *)
  Lemma inv_scas_enq wf' a l' u :
    u < n -> st (wf u) = st_suspended -> st (wf' u) = st_pending ->
    (forall x, x <> u -> wf' x = wf x) ->
    (forall x, holds l' x <-> (holds (ls a) x \/ x = u)) ->
    pc_ok n wf' l' ->
    SInvV n pd wf' (upd ls a l').
  Proof.
    intros Hun Hs Hp Hw Hl' Hok.
    assert (Hnl : ~ live_st (st (wf u))) by (rewrite Hs; intros [|[|]]; discriminate).
    assert (Hnone : forall b, ~ holds (ls b) u).
    { intros b H. apply Hnl. now apply (holds_live b u). }
    assert (Hnin : ~ In u pd).
    { intros H. apply (i_queue _ _ _ _ HI) in H. destruct H as [_ H]. congruence. }
    assert (Hold : forall b x, holds (upd ls a l' b) x -> (holds (ls b) x /\ x <> u) \/ (b = a /\ x = u)).
    { intros b x H. upd_cases b a.
      - apply Hl' in H. destruct H as [H| ->]; [|right; auto].
        left. split; [exact H|]. intros ->. eapply Hnone; eauto.
      - left. split; [exact H|]. intros ->. eapply Hnone; eauto. }
    constructor.
    - intros x Hx. destruct (Nat.eq_dec x u) as [->|Hne]; [contradiction|].
      rewrite Hw by assumption. now apply (i_queue _ _ _ _ HI).
    - apply (i_nodup _ _ _ _ HI).
    - intros b. upd_cases b a; [exact Hok|].
      eapply pc_ok_other; [exact Hw | apply Hnone | apply (i_pc _ _ _ _ HI)].
    - intros b c x H1 H2. apply Hold in H1. apply Hold in H2.
      destruct H1 as [[H1 N1]|[-> ->]], H2 as [[H2 N2]|[-> E2]]; try congruence.
      eapply (i_uniq _ _ _ _ HI); eauto.
    - intros b x H1. apply Hold in H1. destruct H1 as [[H1 _]|[_ ->]]; [|exact Hnin].
      eapply (i_excl _ _ _ _ HI); eauto.
    - intros x Hx Hl. destruct (Nat.eq_dec x u) as [->|Hne].
      + right. exists a. rewrite upd_same. apply Hl'. now right.
      + rewrite Hw in Hl by assumption.
        destruct (i_exist _ _ _ _ HI x Hx Hl) as [H|[b H]]; [left; auto|].
        right. exists b. upd_cases b a; [apply Hl'; now left | exact H].
    - intros x Hx. destruct (Nat.eq_dec x u) as [->|Hne].
      + left. left. exact Hp.
      + rewrite Hw by assumption. now apply (i_dom _ _ _ _ HI).
  Qed.

  (* E5b: set_thread_state's CAS pending_boost -> pending succeeded: handles are unchanged (the
     worker that yielded u still holds it and will find `pending` already set) *)
  Lemma inv_scas_boost wf' a l' u :
    st (wf u) = st_pending_boost -> st (wf' u) = st_pending ->
    (forall x, x <> u -> wf' x = wf x) ->
    (forall x, holds l' x <-> holds (ls a) x) ->
    ~ holds (ls a) u ->
    pc_ok n wf l' ->
    SInvV n pd wf' (upd ls a l').
  Proof.
    intros Hs Hp Hw Hl' Hna Hok.
    assert (Hold : forall b t, holds (upd ls a l' b) t <-> holds (ls b) t).
    { intros b t. upd_cases b a; [apply Hl' | tauto]. }
    assert (Hnin : ~ In u pd).
    { intros H. apply (i_queue _ _ _ _ HI) in H. destruct H as [_ H]. congruence. }
    assert (Hpc : forall l, pc_ok n wf l -> pc_ok n wf' l).
    { intros l [Hm Hsb]. split.
      - destruct l; cbn in *; auto;
          (destruct (Nat.eq_dec t u) as [->|Hne];
           [ try (rewrite Hp; intuition congruence); intuition congruence
           | rewrite Hw by assumption; assumption ]).
      - destruct (sub_of l); cbn in *; auto.
        destruct (Nat.eq_dec u0 u) as [->|Hne]; [intuition congruence | rewrite Hw by assumption; assumption]. }
    constructor.
    - intros x Hx. destruct (Nat.eq_dec x u) as [->|Hne]; [contradiction|].
      rewrite Hw by assumption. now apply (i_queue _ _ _ _ HI).
    - apply (i_nodup _ _ _ _ HI).
    - intros b. upd_cases b a; [now apply Hpc | apply Hpc, (i_pc _ _ _ _ HI)].
    - intros b c x H1 H2. apply Hold in H1. apply Hold in H2. eapply (i_uniq _ _ _ _ HI); eauto.
    - intros b x H1. apply Hold in H1. eapply (i_excl _ _ _ _ HI); eauto.
    - intros x Hx Hl.
      assert (Hl0 : live_st (st (wf x))).
      { destruct (Nat.eq_dec x u) as [->|Hne]; [rewrite Hs; right; left; reflexivity|].
        rewrite Hw in Hl by assumption. exact Hl. }
      destruct (i_exist _ _ _ _ HI x Hx Hl0) as [H|[b H]]; [left; auto|].
      right. exists b. now apply Hold.
    - intros x Hx. destruct (Nat.eq_dec x u) as [->|Hne].
      + left. left. exact Hp.
      + rewrite Hw by assumption. now apply (i_dom _ _ _ _ HI).
  Qed.
End Effects.

(* ------------------------------------------------------------------ views of the setters *)
Lemma tw_of_set_task g t x y : tw_of (set_task g t x) y = if Nat.eqb y t then tw x else tw_of g y.
Proof. unfold tw_of, set_task, upd; cbn. destruct (Nat.eqb y t); reflexivity. Qed.
Lemma tw_of_set_task_same g t x : tw_of (set_task g t x) t = tw x.
Proof. rewrite tw_of_set_task, Nat.eqb_refl. reflexivity. Qed.
Lemma tw_of_set_task_other g t x y : y <> t -> tw_of (set_task g t x) y = tw_of g y.
Proof. intros H. rewrite tw_of_set_task. apply Nat.eqb_neq in H. now rewrite H. Qed.
Lemma tw_of_set_task_keep g t x y : tw x = tw_of g t -> tw_of (set_task g t x) y = tw_of g y.
Proof.
  intros H. rewrite tw_of_set_task. destruct (Nat.eqb y t) eqn:E; [apply Nat.eqb_eq in E; subst; exact H | reflexivity].
Qed.
Lemma tw_of_add_log g e y : tw_of (add_log g e) y = tw_of g y.
Proof. reflexivity. Qed.
Lemma tw_of_set_pend g p y : tw_of (set_pend g p) y = tw_of g y.
Proof. reflexivity. Qed.
Lemma tw_of_set_staged g p y : tw_of (set_staged g p) y = tw_of g y.
Proof. reflexivity. Qed.
Lemma tw_of_stage g b y : tw_of (stage g b) y = tw_of g y.
Proof. reflexivity. Qed.
Lemma tw_of_push g t y : tw_of (push g t) y = tw_of g y.
Proof. reflexivity. Qed.
Lemma tw_of_set_todo g t b y : tw_of (set_todo g t b) y = tw_of g y.
Proof. unfold set_todo. apply tw_of_set_task_keep. reflexivity. Qed.
Lemma tw_of_set_reg g t r y : tw_of (set_reg g t r) y = tw_of g y.
Proof. unfold set_reg. apply tw_of_set_task_keep. reflexivity. Qed.
Lemma tw_of_set_word_same g t w' : tw_of (set_word g t w') t = w'.
Proof. unfold set_word. now rewrite tw_of_set_task_same. Qed.
Lemma tw_of_set_word_other g t w' y : y <> t -> tw_of (set_word g t w') y = tw_of g y.
Proof. intros H. unfold set_word. now rewrite tw_of_set_task_other. Qed.
Lemma tw_of_new_task_same g b h : tw_of (new_task g b h) (new_slot g h) = w_init.
Proof. unfold tw_of, new_task; cbn. now rewrite upd_same. Qed.
Lemma tw_of_new_task_other g b h y : y <> new_slot g h -> tw_of (new_task g b h) y = tw_of g y.
Proof. intros H. unfold tw_of, new_task; cbn. now rewrite upd_other. Qed.
Lemma tw_of_set_rc g t c y : tw_of (set_rc g t c) y = tw_of g y.
Proof. reflexivity. Qed.
Lemma tw_of_set_sref g t c y : tw_of (set_sref g t c) y = tw_of g y.
Proof. reflexivity. Qed.
Lemma tw_of_rc_inc g t y : tw_of (rc_inc g t) y = tw_of g y.
Proof. reflexivity. Qed.
Lemma tw_of_self_ref g t y : tw_of (self_ref g t) y = tw_of g y.
Proof. reflexivity. Qed.
(* rc_dec touches only rc and term *)
Lemma rc_dec_view g t :
  tasks (rc_dec g t) = tasks g /\ ntasks (rc_dec g t) = ntasks g /\ pend (rc_dec g t) = pend g /\
  staged (rc_dec g t) = staged g /\ log (rc_dec g t) = log g /\ gid (rc_dec g t) = gid g /\
  ninc (rc_dec g t) = ninc g /\ sref (rc_dec g t) = sref g /\ heap (rc_dec g t) = heap g.
Proof. unfold rc_dec. destruct (rc g t) as [|[|c]]; cbn; repeat split. Qed.
Lemma tw_of_rc_dec g t y : tw_of (rc_dec g t) y = tw_of g y.
Proof. unfold tw_of. destruct (rc_dec_view g t) as (-> & _). reflexivity. Qed.
Lemma ntasks_rc_dec g t : ntasks (rc_dec g t) = ntasks g.
Proof. apply rc_dec_view. Qed.
Lemma pend_rc_dec g t : pend (rc_dec g t) = pend g.
Proof. apply rc_dec_view. Qed.

(* objects waiting for cleanup or for re-use are terminated (proved in SchedRecycleProofs from
   the reference counts; here a hypothesis of the step lemmas) *)
Definition heap_ok (g : G) : Prop :=
  forall x, In x (heap g) -> x < ntasks g /\ st (tw_of g x) = st_terminated.

(* ------------------------------------------------------------------ holds for concrete pcs *)
Definition with_sub (l : pc) (s' : sub) : pc :=
  match l with WRun t o _ => WRun t o s' | XRun a _ => XRun a s' | _ => l end.
Definition has_sub (l : pc) : Prop :=
  match l with WRun _ _ _ | XRun _ _ => True | _ => False end.

Lemma holds_with_sub l s' x : has_sub l ->
  holds (with_sub l s') x <-> (main_of l = Some x \/ s' = SEnq x).
Proof.
  unfold holds, enq_of. destruct l; cbn; try tauto; intros _.
  - split; (intros [H|H]; [left; exact H | right]); destruct s'; cbn in *; congruence.
  - split; (intros [H|H]; [left; exact H | right]); destruct s'; cbn in *; congruence.
Qed.
Lemma holds_has_sub l x : has_sub l -> holds l x <-> (main_of l = Some x \/ sub_of l = SEnq x).
Proof.
  unfold holds, enq_of. destruct l; cbn; try tauto; intros _.
  - split; (intros [H|H]; [left; exact H | right]); destruct s; cbn in *; congruence.
  - split; (intros [H|H]; [left; exact H | right]); destruct s; cbn in *; congruence.
Qed.
Lemma main_ok_with_sub n wf l s' : main_ok n wf (with_sub l s') <-> main_ok n wf l.
Proof. destruct l; cbn; tauto. Qed.
Lemma sub_of_with_sub l s' : has_sub l -> sub_of (with_sub l s') = s'.
Proof. destruct l; cbn; tauto. Qed.
Lemma main_of_with_sub l s' : main_of (with_sub l s') = main_of l.
Proof. destruct l; reflexivity. Qed.

(* the running task of a thread is active, so it is not the task the thread is about to enqueue *)
Lemma main_not_enq n wf l u :
  pc_ok n wf l -> sub_of l = SEnq u -> main_of l <> Some u.
Proof.
  intros [Hm Hs] E H. rewrite E in Hs. cbn in Hs. destruct Hs as [_ Hs].
  destruct l; cbn in *; try discriminate; inversion H; subst.
  destruct Hm as (_ & Hw & Ha). rewrite Hw in Hs. congruence.
Qed.

(* ------------------------------------------------------------------ set_thread_state steps *)
Lemma sub_step_inv g ls a l :
  SInv g ls -> ls a = l -> has_sub l ->
  SInv (fst (sub_step g (sub_of l))) (upd ls a (with_sub l (snd (sub_step g (sub_of l))))).
Proof.
  intros HI Ha Hsub. unfold SInv in *.
  assert (Hpc := i_pc _ _ _ _ HI a). rewrite Ha in Hpc.
  destruct Hpc as [Hm Hs].
  assert (Hframe : forall g' s', ntasks g' = ntasks g -> pend g' = pend g ->
            (forall t, tw_of g' t = tw_of g t) ->
            (forall x, s' <> SEnq x) -> (forall x, sub_of l <> SEnq x) ->
            sub_ok (ntasks g) (tw_of g) s' ->
            SInvV (ntasks g') (pend g') (tw_of g') (upd ls a (with_sub l s'))).
  { intros g' s' En Ep Ew Hn1 Hn2 Hok. rewrite En, Ep.
    apply inv_frame with (wf := tw_of g); [exact HI | exact Ew | | ].
    - intros x. rewrite Ha. rewrite holds_with_sub, holds_has_sub by assumption.
      split; (intros [H|H]; [left; exact H|]); [exfalso; eapply Hn1; eauto | exfalso; eapply Hn2; eauto].
    - apply pc_ok_ext with (wf := tw_of g); [intros; apply Ew|].
      split; [now apply main_ok_with_sub | rewrite sub_of_with_sub by assumption; exact Hok]. }
  destruct (sub_of l) as [|u|u|u prev|u] eqn:Es; cbn [sub_step].
  - (* SNone *) cbn [fst snd]. apply Hframe; auto; try discriminate; try exact I.
  - (* SIssue *)
    destruct (reg (tasks g u)); cbn [fst snd]; apply Hframe; auto; try discriminate; try exact I.
    intros t. rewrite tw_of_add_log. apply tw_of_set_task_keep. reflexivity.
  - (* SLoad *)
    destruct (u <? ntasks g) eqn:Eu; [apply Nat.ltb_lt in Eu|]; cbn [fst snd].
    2:{ apply Hframe; auto; try discriminate; try exact I. }
    destruct (st (tw_of g u)) eqn:Est; cbn [fst snd]; apply Hframe; auto; try discriminate; try exact I.
    + cbn. split; auto.
    + cbn. split; auto.
  - (* SCas *)
    cbn in Hs. destruct Hs as [Hun Hprev].
    destruct (word_eqb (tw_of g u) prev) eqn:Ew.
    2:{ cbn [fst snd]. apply Hframe; auto; try discriminate; try exact I. }
    apply word_eqb_true in Ew.
    destruct (sst_beq (st prev) st_suspended) eqn:Esus.
    + apply sst_beq_true in Esus. cbn [fst snd].
      set (g1 := add_log (set_word g u (w_pending prev)) (EvWord u SiteSet prev (w_pending prev))).
      assert (Hview : forall gg, ntasks gg = ntasks g1 -> pend gg = pend g1 -> (forall t, tw_of gg t = tw_of g1 t) ->
                 SInvV (ntasks gg) (pend gg) (tw_of gg) (upd ls a (with_sub l (SEnq u)))).
      { intros gg En Ep Et. rewrite En, Ep. cbn.
        apply inv_scas_enq with (wf := tw_of g) (u := u); auto.
        - congruence.
        - rewrite Et. unfold g1. rewrite tw_of_add_log, tw_of_set_word_same. reflexivity.
        - intros x Hx. rewrite Et. unfold g1. rewrite tw_of_add_log. now apply tw_of_set_word_other.
        - intros x. rewrite Ha, holds_with_sub, holds_has_sub by assumption. rewrite Es.
          split; [intros [H|H]; [left; left; exact H | inversion H; right; reflexivity]
                 | intros [[H|H]|H]; [left; exact H | discriminate H | right; congruence]].
        - assert (Hnh : ~ holds l u).
          { intros H. apply pc_ok_holds_live with (n := ntasks g) (wf := tw_of g) in H.
            - destruct H as [_ [H|[H|H]]]; congruence.
            - split; [exact Hm | rewrite Es; cbn; auto]. }
          assert (Hpc' : pc_ok (ntasks g) (tw_of gg) l).
          { eapply pc_ok_other; [ | exact Hnh | split; [exact Hm | rewrite Es; cbn; auto]].
            intros x Hx. rewrite Et. unfold g1. rewrite tw_of_add_log. now apply tw_of_set_word_other. }
          split; [apply main_ok_with_sub; apply Hpc'|]. rewrite sub_of_with_sub by assumption. cbn. split; auto.
          rewrite Et. unfold g1. rewrite tw_of_add_log, tw_of_set_word_same. reflexivity. }
      destruct (match wake (tasks g u) with Some p => negb (N.eqb (p + 1) (tag prev)) | None => true end);
        apply Hview; reflexivity.
    + apply sst_beq_false in Esus. destruct Hprev as [Hprev|Hprev]; [contradiction|].
      cbn [fst snd]. cbn [ntasks pend add_log set_word set_task].
      apply inv_scas_boost with (wf := tw_of g) (u := u); auto.
      * congruence.
      * rewrite tw_of_add_log, tw_of_set_word_same. reflexivity.
      * intros x Hx. rewrite tw_of_add_log. now apply tw_of_set_word_other.
      * intros x. rewrite Ha, holds_with_sub, holds_has_sub by assumption. rewrite Es.
        split; (intros [H|H]; [left; exact H | discriminate H]).
      * rewrite Ha. intros Hh. apply holds_has_sub in Hh; [|assumption]. rewrite Es in Hh.
        destruct Hh as [Hh|Hh]; [|discriminate].
        destruct l; cbn in *; try discriminate; try contradiction. inversion Hh; subst.
        destruct Hm as (_ & Hw & Hact). rewrite Hw in Hprev. congruence.
      * split; [now apply main_ok_with_sub|]. rewrite sub_of_with_sub by assumption. exact I.
  - (* SEnq *)
    cbn in Hs. destruct Hs as [Hun Hp]. cbn [fst snd].
    change (SInvV (ntasks g) (u :: pend g) (tw_of g) (upd ls a (with_sub l SNone))).
    assert (Hmn : main_of l <> Some u).
    { eapply main_not_enq; [split; [exact Hm | rewrite Es; cbn; split; [exact Hun | exact Hp]] | exact Es]. }
    apply inv_push with (t := u); auto.
    + rewrite Ha. apply holds_has_sub; [assumption|]. right. exact Es.
    + intros x. rewrite Ha, holds_with_sub, holds_has_sub by assumption. rewrite Es.
      split.
      * intros [H|H]; [|discriminate H]. split; [left; exact H | congruence].
      * intros [[H|H] Hne]; [left; exact H | congruence].
    + split; [now apply main_ok_with_sub|]. rewrite sub_of_with_sub by assumption. exact I.
Qed.

(* ------------------------------------------------------------------ every step preserves SInv *)
Lemma holds_none l : main_of l = None -> (forall u, sub_of l <> SEnq u) -> forall x, ~ holds l x.
Proof.
  unfold holds, enq_of. intros H1 H2 x. rewrite H1. intros [|H]; [discriminate|].
  destruct (sub_of l); try discriminate. eapply H2; reflexivity.
Qed.
Ltac hno H := exfalso; revert H; apply holds_none; [reflexivity | cbn; intros; discriminate].
Lemma holds_main_only l t : main_of l = Some t -> (forall u, sub_of l <> SEnq u) ->
  forall x, holds l x <-> x = t.
Proof.
  unfold holds, enq_of. intros H1 H2 x. rewrite H1. split.
  - intros [H|H]; [congruence|]. destruct (sub_of l); try discriminate. exfalso. eapply H2; eauto.
  - intros ->. now left.
Qed.

Ltac hmo := first [reflexivity | cbn; intros; discriminate | cbn; congruence].

Lemma inv_same g ls a : SInv g ls -> SInv g (upd ls a (ls a)).
Proof.
  intros HI. apply inv_frame with (wf := tw_of g); auto; [tauto | apply (i_pc _ _ _ _ HI)].
Qed.

Lemma new_task_reuse g b h x : nth_error (heap g) h = Some x ->
  ntasks (new_task g b h) = ntasks g /\ pend (new_task g b h) = x :: pend g /\ new_slot g h = x /\ In x (heap g).
Proof.
  intros E. unfold new_task, new_slot. cbn. rewrite E. repeat split. eapply nth_error_In; eauto.
Qed.
Lemma new_task_fresh g b h : nth_error (heap g) h = None ->
  ntasks (new_task g b h) = S (ntasks g) /\ pend (new_task g b h) = ntasks g :: pend g /\ new_slot g h = ntasks g.
Proof. intros E. unfold new_task, new_slot. cbn. rewrite E. repeat split. Qed.

(* spawning from thread a (pc changes from l to l', same handles) *)
Lemma spawn_inv g ls a l' b now g0 h :
  SInv g ls -> heap_ok g ->
  ntasks g0 = ntasks g -> pend g0 = pend g -> heap g0 = heap g -> (forall t, tw_of g0 t = tw_of g t) ->
  (forall x, holds l' x <-> holds (ls a) x) ->
  (forall n' wf', (forall t, t < ntasks g -> st (tw_of g t) <> st_terminated -> wf' t = tw_of g t) ->
                  ntasks g <= n' -> pc_ok n' wf' l') ->
  SInv (if now : bool then new_task g0 b h else stage g0 b) (upd ls a l').
Proof.
  intros HI HH En Ep Eh Et Hh Hok. unfold SInv. destruct now.
  - destruct (nth_error (heap g0) h) as [x|] eqn:Enth.
    + destruct (new_task_reuse g0 b h x Enth) as (E1 & E2 & E3 & E4). rewrite E1, E2, En, Ep.
      rewrite Eh in E4. destruct (HH x E4) as [Hx Hterm].
      apply inv_rebind with (wf := tw_of g); auto.
      * rewrite <- E3. apply tw_of_new_task_same.
      * intros t Ht. rewrite tw_of_new_task_other by (rewrite E3; exact Ht). apply Et.
      * apply Hok; [|lia]. intros t Ht Hnt. rewrite tw_of_new_task_other; [apply Et|].
        rewrite E3. intros ->. contradiction.
    + destruct (new_task_fresh g0 b h Enth) as (E1 & E2 & E3). rewrite E1, E2, En, Ep.
      apply inv_new with (wf := tw_of g); auto.
      * rewrite <- En, <- E3. apply tw_of_new_task_same.
      * intros t Ht. rewrite tw_of_new_task_other by (rewrite E3, En; exact Ht). apply Et.
      * apply Hok; [|lia]. intros t Ht _. rewrite tw_of_new_task_other by (rewrite E3, En; lia). apply Et.
  - change (SInvV (ntasks g0) (pend g0) (tw_of g0) (upd ls a l')).
    rewrite En, Ep. apply inv_frame with (wf := tw_of g); auto.
Qed.

Theorem step_SInv o a g ls :
  SInv g ls -> heap_ok g -> SInv (fst (tstep o a g (ls a))) (upd ls a (snd (tstep o a g (ls a)))).
Proof.
  intros HI HH. assert (Hpc := i_pc _ _ _ _ HI a).
  destruct (ls a) as [|t|t w0|t orig s|t orig ret|t orig ret cur|t|t prev|t|t|acts s] eqn:Ha; cbn [tstep].
  - (* WTop *)
    destruct (ob o).
    + destruct (nth_error (pend g) (oi o)) as [t|] eqn:En; cbn [fst snd].
      * change (SInvV (ntasks g) (remove_nth (oi o) (pend g)) (tw_of g) (upd ls a (WGot t))).
        now apply inv_pop.
      * rewrite <- Ha. now apply inv_same.
    + destruct (nth_error (staged g) (oi o)) as [b|] eqn:En; cbn [fst snd].
      * apply (spawn_inv g ls a WTop b true (set_staged g (remove_nth (oi o) (staged g))) (oh o)); auto;
          try (rewrite Ha; tauto); try (intros; split; exact I).
      * destruct (term g) as [|x r]; cbn [fst snd]; rewrite <- Ha; now apply inv_same.
  - (* WGot *)
    cbn [fst snd]. destruct Hpc as [[Ht Hp] _].
    apply inv_frame with (wf := tw_of g); auto.
    + intros x. rewrite Ha. rewrite !holds_main_only by hmo. tauto.
    + split; cbn; auto.
  - (* WLoaded *)
    destruct Hpc as [(Ht & Hw & Hp) _]. subst w0. rewrite Hp.
    rewrite word_eqb_refl. cbn [fst snd].
    set (nw := {| st := st_active; tag := tag (tw_of g t) + 1 |}).
    match goal with |- SInv ?gg _ => assert (Egg : forall x, tw_of gg x = upd (tw_of g) t nw x /\ ntasks gg = ntasks g /\ pend gg = pend g) end.
    { intros x. destruct (sref g t); (split; [|split; reflexivity]); rewrite !tw_of_add_log, ?tw_of_set_sref, ?tw_of_set_rc;
        (destruct (Nat.eq_dec x t) as [->|Hne]; [rewrite upd_same; apply tw_of_set_task_same | rewrite upd_other by assumption; now apply tw_of_set_task_other]). }
    match goal with |- SInv ?gg _ => unfold SInv; destruct (Egg 0) as (_ & -> & ->) end.
    apply inv_word with (wf := tw_of g) (t := t); auto.
    + rewrite Ha. now left.
    + intros x Hx. destruct (Egg x) as (-> & _). now apply upd_other.
    + left. split.
      * destruct (Egg t) as (-> & _). rewrite upd_same. right; right; reflexivity.
      * intros x. rewrite Ha. rewrite !holds_main_only by hmo. tauto.
    + split; cbn; auto. destruct (Egg t) as (-> & _). rewrite upd_same. auto.
  - (* WRun *)
    destruct s as [|u|u|u prev|u].
    2-5: match goal with |- context [sub_step ?gg ?s] =>
           assert (Hs := sub_step_inv gg ls a _ HI Ha I); cbn [sub_of with_sub] in Hs;
           destruct (sub_step gg s) as [g' s']; exact Hs end.
    destruct Hpc as [(Ht & Hw & Hact) _].
    unfold run_act. destruct (todo (tasks g t)) as [[|ac r]|u prev|u].
    + (* finished *) cbn [fst snd]. apply inv_frame with (wf := tw_of g); auto.
      * intros x. rewrite Ha. rewrite !holds_main_only by hmo. tauto.
      * split; cbn; auto. unfold ret_ok. tauto.
    + assert (Hst : forall ret, ret_ok ret ->
                SInv (set_todo g t (UserBody r)) (upd ls a (WStoreL t orig ret))).
      { intros ret Hr. unfold SInv.
        change (SInvV (ntasks g) (pend g) (tw_of (set_todo g t (UserBody r))) (upd ls a (WStoreL t orig ret))).
        apply inv_frame with (wf := tw_of g); auto.
        - intros x. apply tw_of_set_todo.
        - intros x. rewrite Ha. rewrite !holds_main_only by hmo. tauto.
        - split; cbn; auto. rewrite tw_of_set_todo. auto. }
      destruct ac as [| | | |b now|u|v]; cbn [fst snd].
      * apply Hst. unfold ret_ok; tauto.
      * apply Hst. unfold ret_ok; tauto.
      * apply Hst. unfold ret_ok; tauto.
      * unfold SInv.
        match goal with |- SInvV _ _ (tw_of ?gg) _ => change (SInvV (ntasks g) (pend g) (tw_of gg) (upd ls a (WRun t orig SNone))) end.
        apply inv_frame with (wf := tw_of g); auto.
        -- intros x. rewrite tw_of_set_reg. apply tw_of_set_todo.
        -- intros x. rewrite Ha. tauto.
        -- split; cbn; auto. rewrite tw_of_set_reg, tw_of_set_todo. auto.
      * apply (spawn_inv g ls a (WRun t orig SNone) (UserBody b) now (set_todo g t (UserBody r)) (oh o)); auto.
        -- intros x. apply tw_of_set_todo.
        -- rewrite Ha. tauto.
        -- intros n' wf' Hwf Hn. split; cbn; auto. rewrite Hwf by (auto; congruence). split; [lia|auto].
      * unfold SInv.
        change (SInvV (ntasks g) (pend g) (tw_of (set_todo g t (UserBody r))) (upd ls a (WRun t orig (SIssue u)))).
        apply inv_frame with (wf := tw_of g); auto.
        -- intros x. apply tw_of_set_todo.
        -- intros x. rewrite Ha. rewrite !holds_main_only by hmo. tauto.
        -- split; cbn; auto. rewrite tw_of_set_todo. auto.
      * apply Hst. unfold ret_ok; tauto.
    + (* helper: set_active_state *)
      assert (Hh : forall gg s', (forall x, tw_of gg x = tw_of g x) -> ntasks gg = ntasks g -> pend gg = pend g ->
                 (s' = SNone \/ s' = SLoad u) ->
                 SInv gg (upd ls a (WRun t orig s'))).
      { intros gg s' Ew En Ep Hs'. unfold SInv. rewrite En, Ep.
        apply inv_frame with (wf := tw_of g); auto.
        - intros x. rewrite Ha.
          rewrite (holds_main_only (WRun t orig s') t), (holds_main_only (WRun t orig SNone) t);
            try tauto; try hmo.
          cbn. intros u0. destruct Hs' as [->| ->]; discriminate.
        - split; cbn; [rewrite Ew; auto|]. destruct Hs' as [->| ->]; exact I. }
      destruct (sst_beq (st (tw_of g u)) (st prev) && negb (word_eqb (tw_of g u) prev)); cbn [fst snd];
        apply Hh; auto; intros x; rewrite ?tw_of_add_log; apply tw_of_set_todo.
    + (* helper: the bound id is released *)
      cbn [fst snd]. unfold SInv. rewrite ntasks_rc_dec, pend_rc_dec.
      apply inv_frame with (wf := tw_of g); auto.
      * intros x. rewrite tw_of_rc_dec. apply tw_of_set_todo.
      * intros x. rewrite Ha. tauto.
      * split; cbn; auto. rewrite tw_of_rc_dec, tw_of_set_todo. auto.
  - (* WStoreL *)
    cbn [fst snd]. destruct Hpc as [(Ht & Hw & Hact & Hr) _].
    apply inv_frame with (wf := tw_of g); auto.
    + intros x. rewrite Ha. rewrite !holds_main_only by hmo. tauto.
    + split; cbn; auto; tauto.
  - (* WStoreC *)
    destruct Hpc as [(Ht & Hw & Hact & Hr & Hcur) _]. subst cur. subst orig.
    rewrite word_eqb_refl. cbn [fst snd].
    set (orig := tw_of g t) in *.
    set (nw := {| st := ret; tag := tag orig + 1 |}).
    assert (Hgen : forall l', 
      (live_st ret /\ (forall x, holds l' x <-> x = t) /\ pc_ok (ntasks g) (upd (tw_of g) t nw) l') \/
      ((ret = st_suspended \/ ret = st_terminated) /\ l' = WRelease t) ->
      forall gg, ntasks gg = ntasks g -> pend gg = pend g -> (forall x, tw_of gg x = upd (tw_of g) t nw x) ->
      SInv gg (upd ls a l')).
    { intros l' Hl' gg En Ep Ew. unfold SInv. rewrite En, Ep.
      apply inv_word with (wf := tw_of g) (t := t); auto.
      - rewrite Ha. now left.
      - intros x Hx. rewrite Ew. now apply upd_other.
      - rewrite Ew, upd_same. cbn [st nw]. destruct Hl' as [(Hl & Hh & _)|(Hs & ->)].
        + left. split; [exact Hl|]. intros x. rewrite Ha, Hh.
          rewrite holds_main_only by hmo. tauto.
        + right. split; [exact Hs|]. intros x. rewrite Ha.
          rewrite (holds_main_only (WStoreC t orig ret orig) t) by hmo.
          split; [intros H; hno H | tauto].
      - destruct Hl' as [(_ & _ & Hp)|(_ & ->)]; [|split; [exact Ht | exact I]].
        eapply pc_ok_ext; [|exact Hp]. intros; apply Ew. }
    assert (Eview : forall gg, gg = (let g0 := add_log (add_log (set_word g t nw) (EvExit (gid g t) (pred (ph (tasks g t))) a ret)) (EvWord (gid g t) SiteStore orig nw) in
                                     if sst_beq ret st_terminated then g0 else self_ref g0 t) ->
                    ntasks gg = ntasks g /\ pend gg = pend g /\ (forall x, tw_of gg x = upd (tw_of g) t nw x)).
    { intros gg ->. cbv zeta. destruct (sst_beq ret st_terminated); repeat split; intros x; rewrite ?tw_of_self_ref, !tw_of_add_log.
      all: destruct (Nat.eq_dec x t) as [->|Hne]; [rewrite upd_same; apply tw_of_set_word_same|];
        rewrite upd_other by assumption; now apply tw_of_set_word_other. }
    destruct (Eview _ eq_refl) as (En & Ep & Ew).
    destruct Hr as [->|[->|[->| ->]]]; (eapply Hgen; [|exact En|exact Ep|exact Ew]).
    + left. split; [left; reflexivity|]. split.
      * intros x. now apply holds_main_only.
      * split; cbn; auto. rewrite upd_same. auto.
    + left. split; [right; left; reflexivity|]. split.
      * intros x. now apply holds_main_only.
      * split; cbn; auto. rewrite upd_same. auto.
    + right. auto.
    + right. auto.
  - (* WBoost *)
    cbn [fst snd]. destruct Hpc as [(Ht & Hb) _].
    apply inv_frame with (wf := tw_of g); auto.
    + intros x. rewrite Ha. rewrite !holds_main_only by hmo. tauto.
    + split; cbn; auto.
  - (* WBoostC *)
    destruct Hpc as [(Ht & Hb) _].
    destruct (word_eqb (tw_of g t) prev) eqn:Ew; cbn [fst snd].
    + match goal with |- SInv (add_log (set_word g t ?w) _) _ => set (nw := w) end.
      unfold SInv.
      match goal with |- SInvV _ _ (tw_of ?gg) _ => change (SInvV (ntasks g) (pend g) (tw_of gg) (upd ls a (WRequeue t))) end.
      apply inv_word with (wf := tw_of g) (t := t); auto.
      * rewrite Ha. now left.
      * intros x Hx. rewrite tw_of_add_log. now apply tw_of_set_word_other.
      * left. split.
        -- rewrite tw_of_add_log, tw_of_set_word_same. left. reflexivity.
        -- intros x. rewrite Ha. rewrite !holds_main_only by hmo. tauto.
      * split; cbn; auto. rewrite tw_of_add_log, tw_of_set_word_same. auto.
    + apply inv_frame with (wf := tw_of g); auto.
      * intros x. rewrite Ha. rewrite !holds_main_only by hmo. tauto.
      * split; cbn; auto.
  - (* WRequeue *)
    cbn [fst snd]. destruct Hpc as [(Ht & Hp) _].
    change (SInvV (ntasks g) (t :: pend g) (tw_of g) (upd ls a WTop)).
    apply inv_push with (t := t); auto.
    + rewrite Ha. now left.
    + intros x. rewrite Ha. rewrite (holds_main_only (WRequeue t) t) by hmo.
      split; [intros H; hno H | tauto].
    + split; exact I.
  - (* WRelease *)
    cbn [fst snd]. unfold SInv. rewrite ntasks_rc_dec, pend_rc_dec.
    apply inv_frame with (wf := tw_of g); auto.
    + intros x. apply tw_of_rc_dec.
    + intros x. rewrite Ha. split; intros H; hno H.
    + split; exact I.
  - (* XRun *)
    destruct s as [|u|u|u prev|u].
    2-5: match goal with |- context [sub_step ?gg ?s] =>
           assert (Hs := sub_step_inv gg ls a _ HI Ha I); cbn [sub_of with_sub] in Hs;
           destruct (sub_step gg s) as [g' s']; exact Hs end.
    assert (Hskip : forall r, SInv g (upd ls a (XRun r SNone))).
    { intros r. apply inv_frame with (wf := tw_of g); auto; try (split; exact I).
      intros x. rewrite Ha. split; intros H; hno H. }
    destruct acts as [|[| | | |b now|u|v] r]; cbn [fst snd]; auto.
    + apply (spawn_inv g ls a (XRun r SNone) (UserBody b) now g (oh o)); auto; try (intros; split; exact I).
      intros x. rewrite Ha. split; intros H; hno H.
    + apply inv_frame with (wf := tw_of g); auto; try (split; exact I).
      intros x. rewrite Ha. split; intros H; hno H.
Qed.

(* ------------------------------------------------------------------ reachable states *)
Lemma SInv_init ext : SInv init_g (init_ls ext).
Proof.
  assert (Hn : forall a x, ~ holds (init_ls ext a) x).
  { intros a x. unfold init_ls. destruct (ext a); apply holds_none; try reflexivity; cbn; intros; discriminate. }
  constructor; cbn.
  - intros t [].
  - constructor.
  - intros a. unfold init_ls. destruct (ext a); split; exact I.
  - intros a b t H. exfalso. eapply Hn; eauto.
  - intros a t H. exfalso. eapply Hn; eauto.
  - intros t H. lia.
  - intros t H. lia.
Qed.

(* ------------------------------------------------------------------ C01: single runner, handles *)
Lemma running_holds l t : running l t -> holds l t.
Proof. destruct l; cbn; try tauto; intros ->; left; reflexivity. Qed.

(* ------------------------------------------------------------------ C01: entered once *)
(* per thread object x: the phase events of the incarnation it is bound to, its phase counter,
   and whether it is active *)
Definition lview (g : G) (x : nat) : list pev * nat * bool :=
  (phases_of (gid g x) (log g), ph (tasks g x), sst_beq (st (tw_of g x)) st_active).

Definition log_ok (v : list pev * nat * bool) : Prop :=
  let '(p, k, act) := v in p = rev (alt (2 * k - (if act then 1 else 0))) /\ (act = true -> 1 <= k).

Record LogInv (g : G) : Prop := {
  l_ok : forall x, x < ntasks g -> log_ok (lview g x);
  l_fresh : forall i, ninc g <= i -> phases_of i (log g) = [];
  l_gid : forall x, x < ntasks g -> gid g x < ninc g;
  l_inj : forall x y, x < ntasks g -> y < ntasks g -> gid g x = gid g y -> x = y;
  l_alt : forall i, exists m, phases_of i (log g) = rev (alt m)
}.

(* g' differs from g in nothing the log invariant looks at *)
Definition lsame (g g' : G) : Prop :=
  ntasks g' = ntasks g /\ ninc g' = ninc g /\ (forall x, gid g' x = gid g x) /\
  (forall x, ph (tasks g' x) = ph (tasks g x) /\
             sst_beq (st (tw_of g' x)) st_active = sst_beq (st (tw_of g x)) st_active) /\
  (forall i, phases_of i (log g') = phases_of i (log g)).

Lemma LogInv_same g g' : lsame g g' -> LogInv g -> LogInv g'.
Proof.
  intros (En & Ei & Eg & Ep & El) [H1 H2 H3 H4 H5]. constructor.
  - intros x Hx. rewrite En in Hx. specialize (H1 x Hx). unfold lview in *.
    destruct (Ep x) as [-> ->]. rewrite Eg, El. exact H1.
  - intros i Hi. rewrite El. apply H2. lia.
  - intros x Hx. rewrite Eg, Ei. apply H3. lia.
  - intros x y Hx Hy. rewrite !Eg. apply H4; lia.
  - intros i. rewrite El. apply H5.
Qed.

Lemma lsame_refl g : lsame g g.
Proof. repeat split. Qed.
Lemma lsame_trans g1 g2 g3 : lsame g1 g2 -> lsame g2 g3 -> lsame g1 g3.
Proof.
  intros (A1 & A2 & A3 & A4 & A5) (B1 & B2 & B3 & B4 & B5).
  split; [congruence|]. split; [congruence|]. split; [intros x; rewrite B3; apply A3|].
  split; [intros x; destruct (B4 x) as [-> ->]; apply A4 | intros i; rewrite B5; apply A5].
Qed.
Lemma lsame_add_log g g1 e : (forall i, pev_of i e = []) -> lsame g g1 -> lsame g (add_log g1 e).
Proof.
  intros He (A1 & A2 & A3 & A4 & A5).
  split; [exact A1|]. split; [exact A2|]. split; [exact A3|]. split; [exact A4|].
  intros i. unfold phases_of. cbn. rewrite He. apply A5.
Qed.
Lemma lsame_set_task g g1 t k :
  ph k = ph (tasks g1 t) -> sst_beq (st (tw k)) st_active = sst_beq (st (tw_of g1 t)) st_active ->
  lsame g g1 -> lsame g (set_task g1 t k).
Proof.
  intros E1 E2 (A1 & A2 & A3 & A4 & A5).
  split; [exact A1|]. split; [exact A2|]. split; [exact A3|]. split; [|exact A5].
  intros x. unfold tw_of in *. unfold set_task; cbn. unfold upd.
  destruct (Nat.eqb x t) eqn:E; [apply Nat.eqb_eq in E; subst; rewrite E1, E2|]; apply A4.
Qed.
Lemma lsame_set_todo g g1 t b : lsame g g1 -> lsame g (set_todo g1 t b).
Proof. intros H. unfold set_todo. apply lsame_set_task; auto. Qed.
Lemma lsame_set_reg g g1 t r : lsame g g1 -> lsame g (set_reg g1 t r).
Proof. intros H. unfold set_reg. apply lsame_set_task; auto. Qed.
Lemma lsame_set_word g g1 t w' :
  sst_beq (st w') st_active = sst_beq (st (tw_of g1 t)) st_active -> lsame g g1 -> lsame g (set_word g1 t w').
Proof. intros E H. unfold set_word. apply lsame_set_task; auto. Qed.
Lemma lsame_cheap g g1 g2 :
  ntasks g2 = ntasks g1 -> ninc g2 = ninc g1 -> gid g2 = gid g1 -> tasks g2 = tasks g1 -> log g2 = log g1 ->
  lsame g g1 -> lsame g g2.
Proof.
  intros E1 E2 E3 E4 E5 H. eapply lsame_trans; [exact H|].
  unfold lsame, tw_of. rewrite E1, E2, E3, E4, E5. repeat split.
Qed.
Lemma lsame_rc_dec g g1 t : lsame g g1 -> lsame g (rc_dec g1 t).
Proof.
  intros H. destruct (rc_dec_view g1 t) as (E1 & E2 & _ & _ & E5 & E6 & E7 & _).
  eapply lsame_cheap; eauto.
Qed.
Lemma lsame_direct g g2 :
  ntasks g2 = ntasks g -> ninc g2 = ninc g -> gid g2 = gid g -> tasks g2 = tasks g ->
  (forall i, phases_of i (log g2) = phases_of i (log g)) -> lsame g g2.
Proof. intros E1 E2 E3 E4 E5. unfold lsame, tw_of. rewrite E1, E2, E3, E4. repeat split. exact E5. Qed.
Ltac lsm := repeat first
  [ apply lsame_refl | assumption
  | apply lsame_add_log; [intros; reflexivity|]
  | apply lsame_set_todo | apply lsame_set_reg | apply lsame_rc_dec
  | (apply lsame_direct; [reflexivity | reflexivity | reflexivity | reflexivity | intros; reflexivity]) ].

Lemma even_double k : Nat.even (2 * k) = true.
Proof. induction k; [reflexivity|]. replace (2 * S k) with (S (S (2 * k))) by lia. exact IHk. Qed.
Lemma even_S_double k : Nat.even (S (2 * k)) = false.
Proof. induction k; [reflexivity|]. replace (S (2 * S k)) with (S (S (S (2 * k)))) by lia. exact IHk. Qed.
Lemma alt_S m : alt (S m) = alt m ++ [alt_item m].
Proof. unfold alt. rewrite seq_S, map_app. reflexivity. Qed.
Lemma alt_item_even k : alt_item (2 * k) = PEnter k.
Proof. unfold alt_item. now rewrite even_double, Nat.div2_double. Qed.
Lemma alt_item_odd k : alt_item (S (2 * k)) = PExit k.
Proof. unfold alt_item. now rewrite even_S_double, Nat.div2_succ_double. Qed.

Lemma log_ok_enter p k : log_ok (p, k, false) -> log_ok (PEnter k :: p, S k, true).
Proof.
  unfold log_ok. intros [-> _]. split; [|lia].
  replace (2 * k - 0) with (2 * k) by lia. replace (2 * S k - 1) with (S (2 * k)) by lia.
  rewrite alt_S, rev_app_distr, alt_item_even. reflexivity.
Qed.
Lemma log_ok_exit p k : log_ok (p, k, true) -> log_ok (PExit (pred k) :: p, k, false).
Proof.
  unfold log_ok. intros [-> Hk]. specialize (Hk eq_refl). split; [|discriminate].
  destruct k as [|k']; [lia|]. cbn [pred].
  replace (2 * S k' - 1) with (S (2 * k')) by lia. replace (2 * S k' - 0) with (S (S (2 * k'))) by lia.
  rewrite (alt_S (S (2 * k'))), rev_app_distr, alt_item_odd. reflexivity.
Qed.

(* one phase event p of the incarnation bound to t is logged; t's counters change *)
Lemma LogInv_upd1 g g' t p :
  ntasks g' = ntasks g -> ninc g' = ninc g -> (forall x, gid g' x = gid g x) -> t < ntasks g ->
  (forall x, x <> t -> ph (tasks g' x) = ph (tasks g x) /\
             sst_beq (st (tw_of g' x)) st_active = sst_beq (st (tw_of g x)) st_active) ->
  (forall i, phases_of i (log g') = (if Nat.eqb (gid g t) i then [p] else []) ++ phases_of i (log g)) ->
  log_ok (p :: phases_of (gid g t) (log g), ph (tasks g' t), sst_beq (st (tw_of g' t)) st_active) ->
  LogInv g -> LogInv g'.
Proof.
  intros En Ei Eg Ht Eo El Hok [H1 H2 H3 H4 H5]. constructor.
  - intros x Hx. rewrite En in Hx. unfold lview. rewrite Eg, El.
    destruct (Nat.eq_dec x t) as [->|Hne].
    + rewrite Nat.eqb_refl. exact Hok.
    + assert (Hg : Nat.eqb (gid g t) (gid g x) = false).
      { apply Nat.eqb_neq. intros E. apply Hne. symmetry. now apply H4. }
      rewrite Hg. destruct (Eo x Hne) as [-> ->]. apply (H1 x Hx).
  - intros i Hi. rewrite El. rewrite Ei in Hi.
    assert (Hg : Nat.eqb (gid g t) i = false) by (apply Nat.eqb_neq; specialize (H3 t Ht); lia).
    rewrite Hg. now apply H2.
  - intros x Hx. rewrite Eg, Ei. apply H3. lia.
  - intros x y Hx Hy. rewrite !Eg. apply H4; lia.
  - intros i. rewrite El. destruct (Nat.eqb (gid g t) i) eqn:E; [|apply H5].
    apply Nat.eqb_eq in E. subst i. cbn [app]. unfold log_ok in Hok. destruct Hok as [-> _]. eexists. reflexivity.
Qed.

Lemma LogInv_new g b h : LogInv g -> LogInv (new_task g b h).
Proof.
  intros [H1 H2 H3 H4 H5].
  assert (Hlog : forall i, phases_of i (log (new_task g b h)) = phases_of i (log g)) by reflexivity.
  assert (Hslot : True /\
                  forall y, y < ntasks (new_task g b h) -> y <> new_slot g h -> y < ntasks g).
  { unfold new_slot, new_task. cbn. destruct (nth_error (heap g) h) eqn:E; split; intros; auto; lia. }
  constructor.
  - intros y Hy. unfold lview. destruct (Nat.eq_dec y (new_slot g h)) as [->|Hne].
    + unfold new_task, tw_of; cbn. rewrite !upd_same. cbn.
      change (phases_of (ninc g) (log g)) with (phases_of (ninc g) (log g)).
      unfold phases_of in *. cbn. rewrite (H2 (ninc g) (le_n _)). split; [reflexivity | discriminate].
    + destruct Hslot as [_ Hs]. specialize (Hs y Hy Hne). specialize (H1 y Hs). unfold lview in H1.
      unfold new_task, tw_of in *; cbn. rewrite !upd_other by assumption. exact H1.
  - intros i Hi. cbn in Hi. rewrite Hlog. apply H2. lia.
  - intros y Hy. cbn [gid ninc new_task]. destruct (Nat.eq_dec y (new_slot g h)) as [->|Hne].
    + rewrite upd_same. lia.
    + rewrite upd_other by assumption. destruct Hslot as [_ Hs]. specialize (H3 y (Hs y Hy Hne)). lia.
  - intros y z Hy Hz. cbn [gid new_task]. destruct Hslot as [_ Hs].
    destruct (Nat.eq_dec y (new_slot g h)) as [->|Hny], (Nat.eq_dec z (new_slot g h)) as [->|Hnz];
      rewrite ?upd_same, ?upd_other by assumption; auto.
    all: intros E.
    all: try (specialize (H3 z (Hs z Hz Hnz)); lia).
    all: try (specialize (H3 y (Hs y Hy Hny)); lia).
  - intros i. rewrite Hlog. apply H5.
Qed.

Lemma sub_step_lsame g s n : sub_ok n (tw_of g) s -> lsame g (fst (sub_step g s)).
Proof.
  intros Hs. destruct s as [|u|u|u prev|u]; cbn [sub_step fst].
  - lsm.
  - destruct (reg (tasks g u)); cbn [fst]; lsm. apply lsame_set_task; lsm; reflexivity.
  - destruct (u <? ntasks g); [|lsm]. destruct (st (tw_of g u)); cbn [fst]; lsm.
  - cbn in Hs. destruct Hs as [_ Hp].
    destruct (word_eqb (tw_of g u) prev) eqn:Ew; [|lsm]. apply word_eqb_true in Ew.
    assert (E : lsame g (add_log (set_word g u (w_pending prev)) (EvWord (gid g u) SiteSet prev (w_pending prev)))).
    { lsm. apply lsame_set_word; lsm. rewrite Ew. cbn. destruct Hp as [-> | ->]; reflexivity. }
    destruct (sst_beq (st prev) st_suspended); cbn [fst]; [|exact E].
    destruct (match wake (tasks g u) with Some p => negb (N.eqb (p + 1) (tag prev)) | None => true end); lsm.
  - unfold push. lsm.
Qed.

Lemma sub_step_ntasks g s : ntasks (fst (sub_step g s)) = ntasks g.
Proof.
  destruct s as [|u|u|u prev|u]; cbn [sub_step fst]; try reflexivity.
  - destruct (reg (tasks g u)); reflexivity.
  - destruct (u <? ntasks g); [|reflexivity]. destruct (st (tw_of g u)); reflexivity.
  - destruct (word_eqb (tw_of g u) prev); [|reflexivity].
    destruct (sst_beq (st prev) st_suspended); [|reflexivity].
    destruct (match wake (tasks g u) with Some p => negb (N.eqb (p + 1) (tag prev)) | None => true end); reflexivity.
Qed.

Lemma LogInv_spawn g g1 b (now : bool) h :
  lsame g g1 -> LogInv g -> LogInv (if now then new_task g1 b h else stage g1 b).
Proof.
  intros Hs H. apply (LogInv_same _ _ Hs) in H. destruct now; [now apply LogInv_new|].
  eapply LogInv_same; [|exact H]. unfold stage. lsm.
Qed.

Theorem step_LogInv o a g ls :
  SInv g ls -> LogInv g -> LogInv (fst (tstep o a g (ls a))).
Proof.
  intros HI HL. assert (Hpc := i_pc _ _ _ _ HI a).
  destruct (ls a) as [|t|t w0|t orig s|t orig ret|t orig ret cur|t|t prev|t|t|acts s] eqn:Ha; cbn [tstep].
  - destruct (ob o).
    + destruct (nth_error (pend g) (oi o)); cbn [fst]; [|exact HL]. eapply LogInv_same; [|exact HL]. lsm.
    + destruct (nth_error (staged g) (oi o)); cbn [fst].
      * apply LogInv_new. eapply LogInv_same; [|exact HL]. lsm.
      * destruct (term g); cbn [fst]; [exact HL|]. eapply LogInv_same; [|exact HL]. lsm.
  - exact HL.
  - destruct Hpc as [(Ht & Hw & Hp) _]. subst w0. rewrite Hp, word_eqb_refl. cbn [fst].
    set (k := tasks g t).
    apply LogInv_upd1 with (g := g) (t := t) (p := PEnter (ph k)); try assumption.
    all: try (destruct (sref g t); reflexivity).
    all: try (intros x; destruct (sref g t); reflexivity).
    all: try (intros x Hx; destruct (sref g t); unfold tw_of; cbn; rewrite upd_other by assumption; auto; fail).
    + destruct HL as [H1 _ _ _ _]. specialize (H1 t Ht). unfold lview in H1. rewrite Hp in H1.
      change (sst_beq st_pending st_active) with false in H1.
      apply log_ok_enter in H1.
      destruct (sref g t); unfold tw_of; cbn; rewrite !upd_same; cbn; exact H1.
  - destruct s as [|u|u|u prev|u].
    2-5: match goal with |- context [sub_step ?gg ?s] =>
           assert (E := sub_step_lsame gg s (ntasks gg));
           destruct (sub_step gg s) as [g' s']; cbn [fst] in *;
           eapply LogInv_same; [apply E; destruct Hpc as [_ Hs]; exact Hs | exact HL] end.
    unfold run_act. destruct (todo (tasks g t)) as [[|ac r]|u prev|u]; cbn [fst]; [exact HL| | |].
    + assert (HL1 : lsame g (set_todo g t (UserBody r))) by lsm.
      destruct ac as [| | | |b now|u|v]; cbn [fst].
      1-3: eapply LogInv_same; [|exact HL]; unfold self_ref, rc_inc; lsm.
      * eapply LogInv_same; [|exact HL]. lsm.
      * apply LogInv_spawn with (g := g); [exact HL1 | exact HL].
      * eapply LogInv_same; [|exact HL]. lsm.
      * eapply LogInv_same; [|exact HL]; unfold self_ref, rc_inc; lsm.
    + destruct (sst_beq (st (tw_of g u)) (st prev) && negb (word_eqb (tw_of g u) prev)); cbn [fst];
        (eapply LogInv_same; [|exact HL]); lsm.
    + eapply LogInv_same; [|exact HL]. lsm.
  - exact HL.
  - destruct Hpc as [(Ht & Hw & Hact & Hr & Hcur) _]. subst cur. subst orig.
    rewrite word_eqb_refl. cbn [fst]. cbv zeta.
    assert (Hna : sst_beq ret st_active = false).
    { destruct Hr as [->|[->|[->| ->]]]; reflexivity. }
    destruct HL as [H1 H2 H3 H4 H5]. assert (H1t := H1 t Ht). unfold lview in H1t. rewrite Hact in H1t.
    change (sst_beq st_active st_active) with true in H1t.
    apply log_ok_exit in H1t.
    destruct (sst_beq ret st_terminated);
    (apply LogInv_upd1 with (g := g) (t := t) (p := PExit (pred (ph (tasks g t))));
      try reflexivity; try assumption; try (intros; reflexivity); try (constructor; assumption);
      try (intros x Hx; unfold tw_of; cbn; rewrite upd_other by assumption; auto; fail);
      unfold tw_of; cbn; rewrite !upd_same; cbn; rewrite Hna; exact H1t).
  - exact HL.
  - destruct Hpc as [(Ht & Hb) _].
    destruct (word_eqb (tw_of g t) prev) eqn:Ew; cbn [fst]; [|exact HL].
    eapply LogInv_same; [|exact HL]. lsm. apply lsame_set_word; lsm.
    cbn. destruct Hb as [-> | ->]; reflexivity.
  - eapply LogInv_same; [|exact HL]. unfold push. lsm.
  - eapply LogInv_same; [|exact HL]. lsm.
  - destruct s as [|u|u|u prev|u].
    2-5: match goal with |- context [sub_step ?gg ?s] =>
           assert (E := sub_step_lsame gg s (ntasks gg));
           destruct (sub_step gg s) as [g' s']; cbn [fst] in *;
           eapply LogInv_same; [apply E; destruct Hpc as [_ Hs]; exact Hs | exact HL] end.
    destruct acts as [|[| | | |b now|u|v] r]; cbn [fst]; try exact HL.
    apply LogInv_spawn with (g := g); [lsm | exact HL].
Qed.

Lemma LogInv_init : LogInv init_g.
Proof.
  constructor; cbn; try (intros; lia); try reflexivity.
  intros i. exists 0. reflexivity.
Qed.

(* ------------------------------------------------------------------ C01: nothing is dropped *)
Lemma list_neq_cons {A} (x : A) l : l <> x :: l.
Proof. intros H. apply (f_equal (@length A)) in H. cbn in H. lia. Qed.

Lemma sub_step_progress g s : s <> SNone -> snd (sub_step g s) <> s.
Proof.
  intros Hs. destruct s as [|u|u|u prev|u]; cbn [sub_step]; try congruence.
  - destruct (reg (tasks g u)); cbn; discriminate.
  - destruct (u <? ntasks g); [|cbn; discriminate]. destruct (st (tw_of g u)); cbn; discriminate.
  - destruct (word_eqb (tw_of g u) prev); [|cbn; discriminate].
    destruct (sst_beq (st prev) st_suspended); cbn; discriminate.
  - cbn. discriminate.
Qed.

Definition o_pop0 : oracle := {| oi := 0; ob := true; oh := 0 |}.
Definition o_conv0 : oracle := {| oi := 0; ob := false; oh := 0 |}.

Lemma stuck_pc a g l : tstep o_pop0 a g l = (g, l) -> l = WTop \/ l = XRun [] SNone.
Proof.
  intros Hst.
  destruct l as [|t|t w0|t orig s|t orig ret|t orig ret cur|t|t prev|t|t|acts s]; auto;
    [exfalso|exfalso|exfalso|exfalso|exfalso|exfalso|exfalso|exfalso|exfalso|
     destruct acts as [|ac r]; [destruct s; [auto|exfalso..]|exfalso]]; cbn [tstep] in Hst.
  - inversion Hst.
  - destruct (st w0); try (inversion Hst; fail). destruct (word_eqb (tw_of g t) w0); inversion Hst.
  - destruct s as [|u|u|u prev|u].
    2-5: match type of Hst with context [sub_step ?gg ?s] =>
           assert (Hp := sub_step_progress gg s ltac:(discriminate));
           destruct (sub_step gg s) as [g' s']; cbn in Hp; inversion Hst; congruence end.
    unfold run_act in Hst. destruct (todo (tasks g t)) as [[|ac r]|u prev|u] eqn:Et; [inversion Hst| | |].
    + destruct ac as [| | | |b now|u|v]; try (inversion Hst; fail).
      * inversion Hst as [[Hg]]. apply (f_equal (fun gg => todo (tasks gg t))) in Hg.
        unfold set_reg, set_todo, set_task in Hg. cbn in Hg. rewrite !upd_same in Hg. cbn in Hg.
        rewrite Et in Hg. inversion Hg as [Hr]. symmetry in Hr. eapply list_neq_cons; eauto.
      * inversion Hst as [[Hg]]. destruct now.
        -- apply (f_equal ninc) in Hg. cbn in Hg. lia.
        -- apply (f_equal (fun gg => todo (tasks gg t))) in Hg.
           unfold stage, set_staged, set_todo, set_task in Hg. cbn in Hg. rewrite !upd_same in Hg. cbn in Hg.
           rewrite Et in Hg. inversion Hg as [Hr]. symmetry in Hr. eapply list_neq_cons; eauto.
    + destruct (sst_beq (st (tw_of g u)) (st prev) && negb (word_eqb (tw_of g u) prev)); [|inversion Hst].
      inversion Hst as [[Hg]]. apply (f_equal (fun gg => todo (tasks gg t))) in Hg.
      unfold add_log, set_todo, set_task in Hg. cbn in Hg. rewrite !upd_same in Hg. cbn in Hg.
      rewrite Et in Hg. discriminate Hg.
    + inversion Hst as [[Hg]]. apply (f_equal (fun gg => todo (tasks gg t))) in Hg.
      destruct (rc_dec_view (set_todo g t (UserBody [])) u) as (E & _). rewrite E in Hg.
      unfold set_todo, set_task in Hg. cbn in Hg. rewrite !upd_same in Hg. cbn in Hg.
      rewrite Et in Hg. discriminate Hg.
  - inversion Hst.
  - destruct (word_eqb (tw_of g t) orig); [|inversion Hst]. destruct ret; inversion Hst.
  - inversion Hst.
  - destruct (word_eqb (tw_of g t) prev) eqn:Ew; [inversion Hst|].
    inversion Hst as [[Hp]]. apply word_eqb_false in Ew. congruence.
  - inversion Hst.
  - inversion Hst.
  - match type of Hst with context [sub_step ?gg ?s] =>
      assert (Hp := sub_step_progress gg s ltac:(discriminate));
      destruct (sub_step gg s) as [g' s']; cbn in Hp; inversion Hst; congruence end.
  - match type of Hst with context [sub_step ?gg ?s] =>
      assert (Hp := sub_step_progress gg s ltac:(discriminate));
      destruct (sub_step gg s) as [g' s']; cbn in Hp; inversion Hst; congruence end.
  - match type of Hst with context [sub_step ?gg ?s] =>
      assert (Hp := sub_step_progress gg s ltac:(discriminate));
      destruct (sub_step gg s) as [g' s']; cbn in Hp; inversion Hst; congruence end.
  - match type of Hst with context [sub_step ?gg ?s] =>
      assert (Hp := sub_step_progress gg s ltac:(discriminate));
      destruct (sub_step gg s) as [g' s']; cbn in Hp; inversion Hst; congruence end.
  - destruct s as [|u|u|u prev|u].
    2-5: match type of Hst with context [sub_step ?gg ?s] =>
           assert (Hp := sub_step_progress gg s ltac:(discriminate));
           destruct (sub_step gg s) as [g' s']; cbn in Hp; inversion Hst; congruence end.
    destruct ac; apply (f_equal snd) in Hst; cbn in Hst; inversion Hst as [Hr];
      exact (list_neq_cons _ _ Hr).
Qed.
Lemma stuck_pcs g ls : stuck (g, ls) -> forall a, ls a = WTop \/ ls a = XRun [] SNone.
Proof. intros Hst a. apply (stuck_pc a g). exact (Hst a o_pop0). Qed.

(* a worker stays a worker, an external thread stays external *)
Definition is_ext (l : pc) : bool := match l with XRun _ _ => true | _ => false end.
Lemma tstep_role o a g l : is_ext (snd (tstep o a g l)) = is_ext l.
Proof.
  destruct l as [|t|t w0|t orig s|t orig ret|t orig ret cur|t|t prev|t|t|acts s]; cbn [tstep].
  - destruct (ob o); [destruct (nth_error (pend g) (oi o)) | destruct (nth_error (staged g) (oi o)); [|destruct (term g)]]; reflexivity.
  - reflexivity.
  - destruct (st w0); try reflexivity. destruct (word_eqb (tw_of g t) w0); reflexivity.
  - destruct s.
    2-5: match goal with |- context [sub_step ?gg ?s] => destruct (sub_step gg s); reflexivity end.
    unfold run_act. destruct (todo (tasks g t)) as [[|ac r]|u prev|u]; [reflexivity| | |reflexivity].
    + destruct ac; reflexivity.
    + destruct (sst_beq (st (tw_of g u)) (st prev) && negb (word_eqb (tw_of g u) prev)); reflexivity.
  - reflexivity.
  - destruct (word_eqb (tw_of g t) orig); [|reflexivity]. destruct ret; reflexivity.
  - reflexivity.
  - destruct (word_eqb (tw_of g t) prev); reflexivity.
  - reflexivity.
  - reflexivity.
  - destruct s.
    2-5: match goal with |- context [sub_step ?gg ?s] => destruct (sub_step gg s); reflexivity end.
    destruct acts as [|ac r]; [reflexivity|]. destruct ac; reflexivity.
Qed.

Lemma role_reach sched ext a :
  is_ext (snd (sched_run sched ext) a) = match ext a with Some _ => true | None => false end.
Proof.
  unfold sched_run.
  apply (run_inv _ _ _ tstep (fun _ ls => is_ext (ls a) = match ext a with Some _ => true | None => false end)).
  - intros o t g ls H. destruct (Nat.eq_dec a t) as [->|Hne].
    + rewrite upd_same, tstep_role. exact H.
    + rewrite upd_other by assumption. exact H.
  - cbn. unfold init_ls. destruct (ext a); reflexivity.
Qed.

(* the converse shape, used to exhibit stuck configurations (non-vacuity of the hypotheses) *)
Lemma stuck_intro g ls :
  pend g = [] -> staged g = [] -> term g = [] ->
  (forall a, ls a = WTop \/ ls a = XRun [] SNone) -> stuck (g, ls).
Proof.
  intros Hp Hs Ht Hl a o. cbn [fst snd]. destruct (Hl a) as [-> | ->]; cbn [tstep]; [|reflexivity].
  rewrite Hp, Hs, Ht. destruct (ob o); destruct (oi o); reflexivity.
Qed.
