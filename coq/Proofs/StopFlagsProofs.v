(* Proofs/StopFlagsProofs.v — how the word operations of Model/StopWord.v act on the two flag
   bits of stop_state::state_, checked against the REGENERATED constants (Gen/GenStopBits.v):
   the layout lemmas below are closed by computation and stop checking if the header changes
   the layout (overlapping fields, moved flags, narrower word). *)
From Coq Require Import NArith ZArith Bool Lia.
From Pika Require Import Gen.GenStopBits Model.StopWord.
Local Open Scope N_scope.
Ltac Zify.zify_post_hook ::= Z.to_euclidean_division_equations.

(* ---- layout (re-checked against the generated values on every run) ---- *)
Lemma layout_locked : locked_flag = 2 ^ 63. Proof. reflexivity. Qed.
Lemma layout_requested : stop_requested_flag = 2 ^ 31. Proof. reflexivity. Qed.
Lemma layout_tok_inc : token_ref_increment = 1. Proof. reflexivity. Qed.
Lemma layout_tok_mask : token_ref_mask = N.ones 31. Proof. reflexivity. Qed.
Lemma layout_src_inc : source_ref_increment = 2 ^ 32. Proof. reflexivity. Qed.
Lemma layout_src_mask : source_ref_mask = N.shiftl (N.ones 31) 32. Proof. reflexivity. Qed.
Lemma layout_word : word_mod = 2 ^ 64. Proof. reflexivity. Qed.
Lemma layout_max : tok_max = 2 ^ 31 - 1 /\ src_max = 2 ^ 31 - 1. Proof. split; reflexivity. Qed.
(* the four fields are disjoint and fill the word *)
Lemma layout_disjoint :
  N.land token_ref_mask stop_requested_flag = 0 /\ N.land token_ref_mask source_ref_mask = 0 /\
  N.land token_ref_mask locked_flag = 0 /\ N.land stop_requested_flag source_ref_mask = 0 /\
  N.land stop_requested_flag locked_flag = 0 /\ N.land source_ref_mask locked_flag = 0 /\
  token_ref_mask + stop_requested_flag + source_ref_mask + locked_flag = word_mod - 1.
Proof. repeat split; reflexivity. Qed.

Definition lk (w : N) : bool := N.testbit w 63.
Definition rq (w : N) : bool := N.testbit w 31.
Definition W (w : N) : Prop := w < 2 ^ 64.

Lemma land_pow2 w k : N.land w (2 ^ k) = if N.testbit w k then 2 ^ k else 0.
Proof.
  apply N.bits_inj. intro n. rewrite N.land_spec, N.pow2_bits_eqb.
  destruct (N.testbit w k) eqn:E.
  - rewrite N.pow2_bits_eqb. destruct (N.eqb_spec k n) as [<-|Hne].
    + now rewrite E.
    + apply andb_false_r.
  - rewrite N.bits_0. destruct (N.eqb_spec k n) as [<-|Hne].
    + now rewrite E.
    + apply andb_false_r.
Qed.

Lemma is_locked_lk w : w_is_locked w = lk w.
Proof.
  unfold w_is_locked, lk. rewrite layout_locked, land_pow2.
  destruct (N.testbit w 63); reflexivity.
Qed.
Lemma requested_rq w : w_stop_requested w = rq w.
Proof.
  unfold w_stop_requested, rq. rewrite layout_requested, land_pow2.
  destruct (N.testbit w 31); reflexivity.
Qed.

Lemma bit_arith w k : N.b2n (N.testbit w k) = (w / 2 ^ k) mod 2.
Proof. apply N.testbit_spec'. Qed.

Lemma lor_pow2 w k : N.lor w (2 ^ k) = if N.testbit w k then w else w + 2 ^ k.
Proof.
  destruct (N.testbit w k) eqn:E.
  - apply N.bits_inj. intro n. rewrite N.lor_spec, N.pow2_bits_eqb.
    destruct (N.eqb_spec k n) as [->|Hne]; [now rewrite E|now rewrite orb_false_r].
  - assert (H0 : N.land w (2 ^ k) = 0) by (rewrite land_pow2, E; reflexivity).
    rewrite N.add_nocarry_lxor by exact H0. symmetry. now apply N.lxor_lor.
Qed.
Lemma ldiff_pow2 w k : N.ldiff w (2 ^ k) = if N.testbit w k then w - 2 ^ k else w.
Proof.
  destruct (N.testbit w k) eqn:E.
  - symmetry. apply N.sub_nocarry_ldiff. apply N.bits_inj. intro n.
    rewrite N.ldiff_spec, N.pow2_bits_eqb, N.bits_0.
    destruct (N.eqb_spec k n) as [->|Hne]; [now rewrite E|reflexivity].
  - apply N.bits_inj. intro n. rewrite N.ldiff_spec, N.pow2_bits_eqb.
    destruct (N.eqb_spec k n) as [->|Hne]; [now rewrite E|now rewrite andb_true_r].
Qed.

Lemma high_bits a b k n : a / 2 ^ k = b / 2 ^ k -> k <= n -> N.testbit a n = N.testbit b n.
Proof.
  intros H Hk. replace n with ((n - k) + k) by lia.
  rewrite <- !N.div_pow2_bits. now rewrite H.
Qed.
Lemma low_bits a b k n : a mod 2 ^ k = b mod 2 ^ k -> n < k -> N.testbit a n = N.testbit b n.
Proof.
  intros H Hk. rewrite <- (N.mod_pow2_bits_low a k n Hk), <- (N.mod_pow2_bits_low b k n Hk).
  now rewrite H.
Qed.

Lemma W_lk_false w : W w -> lk w = false -> w < 2 ^ 63.
Proof.
  unfold W, lk. intros HW H. pose proof (bit_arith w 63) as B. rewrite H in B. cbn [N.b2n] in B.
  change (2 ^ 63) with 9223372036854775808 in *. change (2 ^ 64) with 18446744073709551616 in *. lia.
Qed.
Lemma W_lk_true w : lk w = true -> 2 ^ 63 <= w.
Proof.
  unfold lk. intros H. pose proof (bit_arith w 63) as B. rewrite H in B. cbn [N.b2n] in B.
  change (2 ^ 63) with 9223372036854775808 in *. lia.
Qed.

(* ---- lock / request / unlock ---- *)
Lemma set_lock_spec w : W w -> W (w_set_lock w) /\ lk (w_set_lock w) = true /\ rq (w_set_lock w) = rq w.
Proof.
  intros HW. unfold w_set_lock. rewrite layout_locked. split; [|split].
  - rewrite lor_pow2. destruct (N.testbit w 63) eqn:E; [exact HW|].
    pose proof (W_lk_false w HW E). unfold W in *.
    change (2 ^ 63) with 9223372036854775808 in *. change (2 ^ 64) with 18446744073709551616 in *. lia.
  - unfold lk. rewrite N.lor_spec, N.pow2_bits_eqb. cbn. apply orb_true_r.
  - unfold rq. rewrite N.lor_spec, N.pow2_bits_eqb. cbn. apply orb_false_r.
Qed.
Lemma W_rq_lor w : W w -> W (N.lor w (2 ^ 31)).
Proof.
  intros HW. rewrite lor_pow2. destruct (N.testbit w 31) eqn:E; [exact HW|].
  pose proof (bit_arith w 31) as B. rewrite E in B. cbn [N.b2n] in B. unfold W in *.
  change (2 ^ 31) with 2147483648 in *. change (2 ^ 64) with 18446744073709551616 in *. lia.
Qed.
Lemma set_req_lock_spec w : W w ->
  W (w_set_req_lock w) /\ lk (w_set_req_lock w) = true /\ rq (w_set_req_lock w) = true.
Proof.
  intros HW. unfold w_set_req_lock. rewrite layout_requested.
  pose proof (W_rq_lor w HW) as HW1.
  destruct (set_lock_spec _ HW1) as (A & B & C). unfold w_set_lock in *.
  split; [exact A|split; [exact B|]]. rewrite C. unfold rq.
  rewrite N.lor_spec, N.pow2_bits_eqb. cbn. apply orb_true_r.
Qed.
Lemma clear_lock_spec w : W w -> W (w_clear_lock w) /\ lk (w_clear_lock w) = false /\ rq (w_clear_lock w) = rq w.
Proof.
  intros HW. unfold w_clear_lock. rewrite layout_locked. split; [|split].
  - rewrite ldiff_pow2. destruct (N.testbit w 63); unfold W in *; lia.
  - unfold lk. rewrite N.ldiff_spec, N.pow2_bits_eqb. cbn. apply andb_false_r.
  - unfold rq. rewrite N.ldiff_spec, N.pow2_bits_eqb. cbn. apply andb_true_r.
Qed.
Lemma unlock_spec w : W w -> lk w = true ->
  W (w_sub w locked_flag) /\ lk (w_sub w locked_flag) = false /\ rq (w_sub w locked_flag) = rq w.
Proof.
  intros HW HL. pose proof (W_lk_true w HL) as Hge.
  assert (E : w_sub w locked_flag = w_clear_lock w).
  { unfold w_sub, w_clear_lock. rewrite layout_locked, layout_word, ldiff_pow2. fold (lk w). rewrite HL.
    unfold W in HW. change (2 ^ 63) with 9223372036854775808 in *.
    change (2 ^ 64) with 18446744073709551616 in *. lia. }
  rewrite E. apply clear_lock_spec. exact HW.
Qed.

Lemma set_lock_clear w : w_set_lock w = w_set_lock (w_clear_lock w).
Proof.
  unfold w_set_lock, w_clear_lock. apply N.bits_inj. intro n.
  rewrite !N.lor_spec, N.ldiff_spec. destruct (N.testbit w n), (N.testbit locked_flag n); reflexivity.
Qed.
Lemma set_req_lock_clear w : w_set_req_lock w = w_set_req_lock (w_clear_lock w).
Proof.
  unfold w_set_req_lock, w_clear_lock. apply N.bits_inj. intro n.
  rewrite !N.lor_spec, N.ldiff_spec.
  destruct (N.testbit w n), (N.testbit locked_flag n), (N.testbit stop_requested_flag n); reflexivity.
Qed.
Lemma clear_lock_flags w : lk (w_clear_lock w) = false /\ rq (w_clear_lock w) = rq w.
Proof.
  unfold w_clear_lock. rewrite layout_locked. split.
  - unfold lk. rewrite N.ldiff_spec, N.pow2_bits_eqb. cbn. apply andb_false_r.
  - unfold rq. rewrite N.ldiff_spec, N.pow2_bits_eqb. cbn. apply andb_true_r.
Qed.

(* ---- the two counters ---- *)
Lemma tokens_arith w : w_tokens w = w mod 2 ^ 31.
Proof. unfold w_tokens. rewrite layout_tok_mask, layout_tok_inc, N.land_ones, N.div_1_r. reflexivity. Qed.
Lemma land_shiftl w m k : N.land w (N.shiftl m k) = N.shiftl (N.land (N.shiftr w k) m) k.
Proof.
  apply N.bits_inj. intro n. rewrite N.land_spec.
  destruct (N.lt_ge_cases n k) as [Hlt|Hge].
  - rewrite !N.shiftl_spec_low by exact Hlt. apply andb_false_r.
  - rewrite !N.shiftl_spec_high' by exact Hge. rewrite N.land_spec, N.shiftr_spec'.
    now replace (n - k + k) with n by lia.
Qed.
Lemma sources_arith w : w_sources w = (w / 2 ^ 32) mod 2 ^ 31.
Proof.
  unfold w_sources. rewrite layout_src_mask, layout_src_inc, land_shiftl, N.land_ones,
    N.shiftr_div_pow2, N.shiftl_mul_pow2.
  rewrite N.div_mul; [reflexivity|discriminate].
Qed.

Ltac pows := change (2 ^ 31) with 2147483648 in *; change (2 ^ 32) with 4294967296 in *;
             change (2 ^ 63) with 9223372036854775808 in *;
             change (2 ^ 64) with 18446744073709551616 in *.

Lemma tok_add_spec w : W w -> w_tokens w < tok_max ->
  let w' := w_add w token_ref_increment in W w' /\ lk w' = lk w /\ rq w' = rq w.
Proof.
  intros HW Hg. destruct layout_max as [Hm _]. rewrite Hm, tokens_arith in Hg.
  assert (E : w_add w token_ref_increment = w + 1).
  { unfold w_add. rewrite layout_tok_inc, layout_word. unfold W in HW. pows. lia. }
  cbv zeta. rewrite E.
  assert (Hd : (w + 1) / 2 ^ 31 = w / 2 ^ 31) by (pows; lia).
  split; [|split].
  - unfold W in *. pows. lia.
  - unfold lk. apply (high_bits _ _ 31); [exact Hd|lia].
  - unfold rq. apply (high_bits _ _ 31); [exact Hd|lia].
Qed.
Lemma tok_sub_spec w : W w -> 1 < w_tokens w ->
  let w' := w_sub w token_ref_increment in W w' /\ lk w' = lk w /\ rq w' = rq w.
Proof.
  intros HW Hg. rewrite tokens_arith in Hg.
  assert (E : w_sub w token_ref_increment = w - 1).
  { unfold w_sub. rewrite layout_tok_inc, layout_word. unfold W in HW. pows. lia. }
  cbv zeta. rewrite E.
  assert (Hd : (w - 1) / 2 ^ 31 = w / 2 ^ 31) by (pows; lia).
  split; [|split].
  - unfold W in *. lia.
  - unfold lk. apply (high_bits _ _ 31); [exact Hd|lia].
  - unfold rq. apply (high_bits _ _ 31); [exact Hd|lia].
Qed.
Lemma src_add_spec w : W w -> w_sources w < src_max ->
  let w' := w_add w source_ref_increment in W w' /\ lk w' = lk w /\ rq w' = rq w.
Proof.
  intros HW Hg. destruct layout_max as [_ Hm]. rewrite Hm, sources_arith in Hg.
  assert (E : w_add w source_ref_increment = w + 2 ^ 32).
  { unfold w_add. rewrite layout_src_inc, layout_word. unfold W in HW. pows. lia. }
  cbv zeta. rewrite E.
  assert (Hd : (w + 2 ^ 32) / 2 ^ 63 = w / 2 ^ 63) by (pows; lia).
  assert (Hl : (w + 2 ^ 32) mod 2 ^ 32 = w mod 2 ^ 32) by (pows; lia).
  split; [|split].
  - unfold W in *. pows. lia.
  - unfold lk. apply (high_bits _ _ 63); [exact Hd|lia].
  - unfold rq. apply (low_bits _ _ 32); [exact Hl|lia].
Qed.
Lemma src_sub_spec w : W w -> 0 < w_sources w ->
  let w' := w_sub w source_ref_increment in W w' /\ lk w' = lk w /\ rq w' = rq w.
Proof.
  intros HW Hg. rewrite sources_arith in Hg.
  assert (E : w_sub w source_ref_increment = w - 2 ^ 32).
  { unfold w_sub. rewrite layout_src_inc, layout_word. unfold W in HW. pows. lia. }
  cbv zeta. rewrite E.
  assert (Hd : (w - 2 ^ 32) / 2 ^ 63 = w / 2 ^ 63) by (pows; lia).
  assert (Hl : (w - 2 ^ 32) mod 2 ^ 32 = w mod 2 ^ 32) by (pows; lia).
  split; [|split].
  - unfold W in *. lia.
  - unfold lk. apply (high_bits _ _ 63); [exact Hd|lia].
  - unfold rq. apply (low_bits _ _ 32); [exact Hl|lia].
Qed.
