(* Proofs/AffinityStartupProofs.v — C15: the link decoder -> partitioner -> pools -> workers.
   Closes the gaps left by AffinityProofs.v:
     * fill_topology_vectors enumerates exactly the PUs 0 .. total_pus-1 (fill_pids_all);
     * the exposed list is a permutation of the decoder's PUs (exposed_perm), hence has n entries;
     * add_resource / setup_pools bookkeeping: the pools are a partition of the exposed list
       (configure_pools_perm);
     * end to end: startup_sound (bound modes), startup_none_sound (bind=none: min n #PUs workers);
     * the thread-count keywords all / cores (default_threads_spec, default_cores_spec, ...). *)
From Coq Require Import List Arith Bool Lia Permutation.
From Pika Require Import Model.Affinity Proofs.AffinityProofs.
Import ListNotations.

(* ---------- lists ---------- *)
Lemma existsb_all_false {A} (f : A -> bool) (l : list A) : (forall x, In x l -> f x = false) -> existsb f l = false.
Proof.
  induction l as [|a l IH]; intros H; cbn [existsb]; auto.
  rewrite (H a) by now left. cbn [orb]. apply IH. intros x Hx. apply H. now right.
Qed.

Lemma map_snd_combine_seq {A} (l : list A) : forall a, map snd (combine (seq a (length l)) l) = l.
Proof.
  induction l as [|x l IH]; intros a; cbn [length seq combine map snd]; auto. now rewrite IH.
Qed.

Lemma nodup_filter_perm (f : nat -> bool) (L ps : list nat) :
  NoDup L -> NoDup ps -> (forall x, In x L /\ f x = true <-> In x ps) -> Permutation (filter f L) ps.
Proof.
  intros HL Hp H. apply NoDup_Permutation; auto.
  - now apply NoDup_filter.
  - intros x. rewrite filter_In. apply H.
Qed.

(* ---------- fill_topology_vectors: the pid counter enumerates 0 .. total_pus-1 ---------- *)
Lemma prefix_0 t : prefix t 0 = 0.
Proof. reflexivity. Qed.

Lemma prefix_add t off : forall len, off + len <= ncores t ->
  prefix t (off + len) = prefix t off + list_sum (map (fun j => core_pus t (off + j)) (seq 0 len)).
Proof.
  induction len as [|len IH]; intros H.
  - cbn [seq map list_sum]. now rewrite !Nat.add_0_r.
  - rewrite seq_S, map_app, list_sum_app. cbn [Nat.add map list_sum].
    replace (off + S len) with (S (off + len)) by lia. rewrite prefix_S by lia. rewrite IH by lia. simpl (list_sum [_]). lia.
Qed.

Lemma fill_pids_seq t : forall socks off,
  off + length (concat socks) <= ncores t ->
  exists cnt, fill_pids t socks off (prefix t off) = seq (prefix t off) cnt /\
              prefix t off + cnt = prefix t (off + length (concat socks)).
Proof.
  induction socks as [|s r IH]; intros off H; cbn [fill_pids concat length].
  - exists 0. split; [reflexivity|]. now rewrite !Nat.add_0_r.
  - cbn [concat] in H. rewrite app_length in H.
    pose proof (prefix_add t off (length s) ltac:(lia)) as Hs.
    rewrite <- Hs. destruct (IH (off + length s) ltac:(lia)) as (cnt & E & Hc). rewrite E.
    exists (list_sum (map (fun j => core_pus t (off + j)) (seq 0 (length s))) + cnt). split.
    + rewrite Hs. symmetry. apply seq_app.
    + rewrite app_length, (Nat.add_assoc off), <- Hc. lia.
Qed.

Lemma fill_pids_all t : fill_pids t t 0 0 = seq 0 (total_pus t).
Proof.
  destruct (fill_pids_seq t t 0) as (cnt & E & Hc); [unfold ncores, cores; lia|].
  rewrite prefix_0 in *. cbn [Nat.add] in Hc. change (length (concat t)) with (ncores t) in Hc.
  rewrite prefix_all in Hc. now rewrite E, Hc.
Qed.

(* ---------- pu_exposed for a bound affinity_data: exactly the decoder's PUs ---------- *)
Definition single (p : nat) : list nat := [p].

Lemma nth_single ps i : i < length ps -> nth i (map single ps) [] = [nth i ps 0].
Proof.
  intros H. rewrite (nth_indep _ [] (single 0)) by now rewrite map_length.
  now rewrite map_nth.
Qed.

Lemma get_pu_mask_bound (ad : aff_data) i : ad_noaff ad = [] -> get_pu_mask ad i = nth i (ad_masks ad) [].
Proof. intros H. unfold get_pu_mask. now rewrite H. Qed.

Lemma pu_exposed_bound (ad : aff_data) ps pid :
  ad_noaff ad = [] -> ad_masks ad = map single ps -> ad_n ad = length ps ->
  (pu_exposed ad pid = true <-> In pid ps).
Proof.
  intros Hn Hm Hl. unfold pu_exposed. rewrite Hn. change (mem pid []) with false. cbv iota.
  rewrite existsb_exists. split.
  - intros (i & Hi & H). apply in_seq in Hi. rewrite get_pu_mask_bound, Hm in H by auto.
    rewrite nth_single in H by lia. apply mem_In in H. destruct H as [<-|[]]. apply nth_In. lia.
  - intros H. destruct (In_nth _ _ 0 H) as (i & Hi & E). exists i. split; [apply in_seq; lia|].
    rewrite get_pu_mask_bound, Hm by auto. rewrite nth_single by lia. apply mem_In. now left.
Qed.

Lemma exposed_nodup t ad : NoDup (exposed t ad).
Proof. unfold exposed. apply NoDup_filter. rewrite fill_pids_all. apply seq_NoDup. Qed.

Lemma exposed_perm t (ad : aff_data) ps :
  ad_noaff ad = [] -> ad_masks ad = map single ps -> ad_n ad = length ps ->
  NoDup ps -> (forall p, In p ps -> p < total_pus t) -> Permutation (exposed t ad) ps.
Proof.
  intros Hn Hm Hl Hnd Hlt. unfold exposed. rewrite fill_pids_all.
  apply nodup_filter_perm; auto; [apply seq_NoDup|].
  intros x. rewrite (pu_exposed_bound ad ps x Hn Hm Hl). rewrite in_seq. split; [tauto|].
  intros H. split; auto. specialize (Hlt x H). lia.
Qed.

(* ---------- add_resource / setup_pools bookkeeping ---------- *)
Lemma take_positions_spec ex : forall poss taken got tk g,
  take_positions ex taken poss got = Ok (tk, g) ->
  exists gnew, g = got ++ gnew /\ Permutation tk (gnew ++ taken) /\
    (NoDup taken -> NoDup tk) /\ (incl taken ex -> incl tk ex).
Proof.
  induction poss as [|q r IH]; intros taken got tk g H; cbn [take_positions] in H.
  - inversion H; subst. exists []. rewrite app_nil_r. cbn [app]. repeat split; auto.
  - destruct (nth_error ex q) as [p|] eqn:Eq.
    + destruct (mem p taken) eqn:Em; [discriminate|].
      apply IH in H. destruct H as (gnew & Hg & Hp & Hnd & Hin).
      exists (p :: gnew). repeat split.
      * rewrite Hg, <- app_assoc. reflexivity.
      * rewrite Hp. cbn [app]. symmetry. apply Permutation_middle.
      * intros Ht. apply Hnd. constructor; auto. intros Hi. apply mem_In in Hi. congruence.
      * intros Ht. apply Hin. intros x [<-|Hx]; [|now apply Ht]. eapply nth_error_In; eauto.
    + now apply IH in H.
Qed.

Lemma user_pools_spec ex : forall specs taken tk ps,
  user_pools ex taken specs = Ok (tk, ps) ->
  Permutation tk (concat ps ++ taken) /\ (NoDup taken -> NoDup tk) /\ (incl taken ex -> incl tk ex).
Proof.
  induction specs as [|s r IH]; intros taken tk ps H; cbn [user_pools] in H.
  - inversion H; subst. cbn [concat app]. repeat split; auto.
  - destruct (take_positions ex taken s []) as [[taken' got]|e] eqn:Et; [|discriminate].
    destruct (user_pools ex taken' r) as [[tk' ps']|e] eqn:Eu; [|discriminate].
    inversion H; subst; clear H.
    apply take_positions_spec in Et. destruct Et as (gnew & Hg & Hp & Hnd & Hin). cbn [app] in Hg. subst gnew.
    apply IH in Eu. destruct Eu as (Hp2 & Hnd2 & Hin2).
    repeat split; auto.
    rewrite Hp2, Hp. cbn [concat]. rewrite <- !app_assoc. apply Permutation_app_swap_app.
Qed.

Lemma configure_pools_perm ad ex specs pools :
  configure_pools ad ex specs = Ok pools -> NoDup ex -> Permutation (concat pools) ex.
Proof.
  intros H Hex. unfold configure_pools in H.
  destruct (user_pools ex [] specs) as [[taken ups]|e] eqn:Eu; [|discriminate].
  apply user_pools_spec in Eu. destruct Eu as (Hp & Hnd & Hin). rewrite app_nil_r in Hp.
  specialize (Hnd (NoDup_nil _)). specialize (Hin (incl_nil_l _)).
  assert (Hpools : pools = filter (fun p => negb (mem p taken)) ex :: ups).
  { destruct (filter (fun p => negb (mem p taken)) ex) eqn:Ef; [discriminate|].
    destruct (existsb (fun l => negb (any_bit l)) ups); [discriminate|]. now inversion H. }
  subst pools. cbn [concat]. rewrite <- Hp.
  apply NoDup_Permutation; auto.
  - apply nodup_app; auto; [now apply NoDup_filter|].
    intros x Hx Hy. apply filter_In in Hx. destruct Hx as [_ Hx]. apply mem_In in Hy. rewrite Hy in Hx. discriminate.
  - intros x. rewrite in_app_iff, filter_In. split.
    + intros [[Hx _]|Hx]; auto.
    + intros Hx. destruct (mem x taken) eqn:Em; [right; now apply mem_In|left; auto].
Qed.

(* ---------- workers ---------- *)
Lemma workers_pus ad pools : map w_pu (workers_of ad pools) = concat pools.
Proof.
  unfold workers_of. rewrite map_map. cbn [w_pu].
  change (fun x : nat * nat => snd x) with (@snd nat nat). apply map_snd_combine_seq.
Qed.

Lemma workers_length ad pools : length (workers_of ad pools) = length (concat pools).
Proof. now rewrite <- (workers_pus ad pools), map_length. Qed.

(* a worker number inside the thread range of pool j runs on one of pool j's PUs *)
Lemma owners_after : forall q o kk i, i < o -> owners q o kk i = [].
Proof.
  induction q as [|a q IHq]; intros o kk i Ho; cbn [owners]; auto.
  assert (E : (o <=? i) = false) by (apply Nat.leb_gt; lia). rewrite E. cbn [andb app]. apply IHq. lia.
Qed.

Lemma owners_pool : forall pools off k i x,
  off <= i -> nth_error (concat pools) (i - off) = Some x ->
  exists j pool, owners pools off k i = [k + j] /\ nth_error pools j = Some pool /\ In x pool.
Proof.
  induction pools as [|p r IH]; intros off k i x Hi H; cbn [concat owners] in *.
  - destruct (i - off); discriminate.
  - destruct (Nat.lt_ge_cases i (off + length p)) as [Hlt|Hge].
    + assert (E1 : (off <=? i) && (i <? off + length p) = true).
      { apply andb_true_iff. split; [apply Nat.leb_le; lia|apply Nat.ltb_lt; lia]. }
      rewrite E1. rewrite nth_error_app1 in H by lia. exists 0, p. rewrite Nat.add_0_r.
      rewrite owners_after by lia. repeat split; auto. eapply nth_error_In; eauto.
    + assert (E1 : (off <=? i) && (i <? off + length p) = false).
      { apply andb_false_iff. right. apply Nat.ltb_ge. lia. }
      rewrite E1. cbn [app]. rewrite nth_error_app2 in H by lia.
      replace (i - off - length p) with (i - (off + length p)) in H by lia.
      destruct (IH (off + length p) (S k) i x ltac:(lia) H) as (j & pool & Ho & Hn & Hx).
      exists (S j), pool. replace (k + S j) with (S k + j) by lia. repeat split; auto.
Qed.

(* ---------- end to end: bound modes ---------- *)
Lemma singles_concat ps : concat (map single ps) = ps.
Proof. induction ps as [|p ps IH]; cbn; auto. now rewrite IH. Qed.

Lemma startup_inv t b use pm n mc specs s :
  startup t b use pm n mc specs = Ok s ->
  affinity_init t b use pm n mc = Ok (st_ad s) /\
  configure_pools (st_ad s) (exposed t (st_ad s)) specs = Ok (st_pools s) /\
  st_workers s = workers_of (st_ad s) (st_pools s).
Proof.
  intros H. unfold startup in H.
  destruct (affinity_init t b use pm n mc) as [ad|e] eqn:Ea; [|discriminate].
  destruct (configure_pools ad (exposed t ad) specs) as [pools|e] eqn:Ec; [|discriminate].
  inversion H; subst; clear H. cbn [st_ad st_pools st_workers]. auto.
Qed.

(* the partitioner's exposed list has exactly n entries: the decoder's PUs *)
Lemma exposed_count t m use pm n mc ad :
  (m = Compact -> use = true \/ (n <= mc /\ wf_topo t)) ->
  affinity_init t (BindMode m) use pm n mc = Ok ad ->
  length (exposed t ad) = n /\ Permutation (exposed t ad) (concat (ad_masks ad)).
Proof.
  intros Hc H. apply init_sound in H; auto. destruct H as ((ps & Hm & Hl & Hnd & Hin) & Hn & Hadn).
  assert (Hp : Permutation (exposed t ad) ps).
  { apply exposed_perm; auto; [congruence|]. intros p Hp. now apply Hin. }
  split.
  - rewrite (Permutation_length Hp). exact Hl.
  - rewrite Hm. fold single. now rewrite singles_concat.
Qed.

Lemma startup_sound t m use pm n mc specs s :
  (m = Compact -> use = true \/ (n <= mc /\ wf_topo t)) ->
  startup t (BindMode m) use pm n mc specs = Ok s ->
  length (st_workers s) = n /\
  (forall i w, nth_error (st_workers s) i = Some w ->
     w_mask w = [w_pu w] /\ w_pu w < total_pus t /\ (use = true -> pm (w_pu w) = true) /\
     exists j pool, owners (st_pools s) 0 0 i = [j] /\ nth_error (st_pools s) j = Some pool /\ In (w_pu w) pool) /\
  (forall i j wi wj, nth_error (st_workers s) i = Some wi -> nth_error (st_workers s) j = Some wj ->
     i <> j -> w_pu wi <> w_pu wj) /\
  map w_pu (st_workers s) = concat (st_pools s) /\
  Permutation (map w_pu (st_workers s)) (concat (ad_masks (st_ad s))).
Proof.
  intros Hc H. apply startup_inv in H. destruct H as (Ha & Hcfg & Hw).
  pose proof (init_sound _ _ _ _ _ _ _ Hc Ha) as ((ps & Hm & Hl & Hnd & Hin) & Hn & Hadn).
  pose proof (exposed_count _ _ _ _ _ _ _ Hc Ha) as [Hlen Hpe].
  pose proof (configure_pools_perm _ _ _ _ Hcfg (exposed_nodup t (st_ad s))) as Hpp.
  assert (Hpus : map w_pu (st_workers s) = concat (st_pools s)) by (rewrite Hw; apply workers_pus).
  assert (Hperm : Permutation (map w_pu (st_workers s)) ps).
  { rewrite Hpus, Hpp, Hpe, Hm. fold single. now rewrite singles_concat. }
  assert (Hndw : NoDup (map w_pu (st_workers s))).
  { eapply Permutation_NoDup; [symmetry; exact Hperm|exact Hnd]. }
  split; [|split; [|split; [|split]]]; auto.
  - rewrite <- (map_length w_pu), (Permutation_length Hperm). exact Hl.
  - intros i w Hi.
    assert (Hinw : In w (st_workers s)) by (eapply nth_error_In; eauto).
    assert (Hinp : In (w_pu w) ps).
    { eapply Permutation_in; [exact Hperm|]. now apply in_map. }
    destruct (Hin _ Hinp) as [Hlt Hmask].
    rewrite Hw in Hinw. destruct (workers_reported _ _ _ Hn Hinw) as [Hmk _].
    repeat split; auto.
    assert (Hx : nth_error (concat (st_pools s)) (i - 0) = Some (w_pu w)).
    { rewrite Nat.sub_0_r, <- Hpus. now apply map_nth_error. }
    destruct (owners_pool (st_pools s) 0 0 i (w_pu w) (Nat.le_0_l _) Hx) as (j & pool & Ho & Hnp & Hip).
    exists j, pool. cbn [Nat.add] in Ho. auto.
  - intros i j wi wj Hi Hj Hne E. apply Hne.
    apply (map_nth_error w_pu) in Hi. apply (map_nth_error w_pu) in Hj.
    rewrite NoDup_nth_error in Hndw. apply Hndw.
    + apply nth_error_Some. congruence.
    + congruence.
  - rewrite Hm. fold single. now rewrite singles_concat.
Qed.

Lemma worker_count_is_requested t m use pm n mc specs s :
  (m = Compact -> use = true \/ (n <= mc /\ wf_topo t)) ->
  startup t (BindMode m) use pm n mc specs = Ok s -> length (st_workers s) = n.
Proof. intros Hc H. now apply (startup_sound t m use pm n mc specs s Hc) in H. Qed.

(* ---------- bind=none ---------- *)
Lemma get_pu_num_mod hw i : get_pu_num 0 1 hw i = i mod hw.
Proof.
  unfold get_pu_num. cbv zeta. rewrite Nat.mod_1_r, Nat.add_0_r, Nat.mul_1_l. reflexivity.
Qed.

Lemma pu_exposed_none (ad : aff_data) pid :
  ad_masks ad = [] -> (pu_exposed ad pid = true <-> In pid (ad_noaff ad)).
Proof.
  intros Hm. unfold pu_exposed. destruct (mem pid (ad_noaff ad)) eqn:E.
  - apply mem_In in E. tauto.
  - rewrite existsb_all_false.
    + split; [discriminate|]. intros H. apply mem_In in H. congruence.
    + intros i _. unfold get_pu_mask. rewrite Hm. destruct (mem i (ad_noaff ad)); destruct i; reflexivity.
Qed.

Lemma none_noaff t n x :
  x < total_pus t ->
  (In x (map (get_pu_num 0 1 (total_pus t)) (seq 0 n)) <-> x < Nat.min n (total_pus t)).
Proof.
  intros Hx. rewrite in_map_iff. split.
  - intros (i & E & Hi). apply in_seq in Hi. rewrite get_pu_num_mod in E.
    assert (x <= i) by (rewrite <- E; apply Nat.mod_le; lia). lia.
  - intros H. exists x. split; [|apply in_seq; lia]. rewrite get_pu_num_mod. apply Nat.mod_small. lia.
Qed.

Lemma exposed_none t use pm n mc ad :
  affinity_init t BindNone use pm n mc = Ok ad ->
  Permutation (exposed t ad) (seq 0 (Nat.min n (total_pus t))).
Proof.
  intros H. cbn [affinity_init] in H. inversion H; subst; clear H.
  unfold exposed. rewrite fill_pids_all. apply nodup_filter_perm; try apply seq_NoDup.
  intros x. rewrite pu_exposed_none by reflexivity. cbn [ad_noaff]. rewrite !in_seq. split.
  - intros [Hx Hi]. apply none_noaff in Hi; lia.
  - intros Hx. split; [lia|]. apply none_noaff; lia.
Qed.

Lemma startup_none_sound t use pm n mc specs s :
  startup t BindNone use pm n mc specs = Ok s ->
  length (st_workers s) = Nat.min n (total_pus t) /\
  (forall i w, nth_error (st_workers s) i = Some w ->
     w_mask w = [] /\ exists j, owners (st_pools s) 0 0 i = [j]) /\
  Permutation (map w_pu (st_workers s)) (seq 0 (Nat.min n (total_pus t))).
Proof.
  intros H. apply startup_inv in H. destruct H as (Ha & Hcfg & Hw).
  pose proof (exposed_none _ _ _ _ _ _ Ha) as Hpe.
  pose proof (configure_pools_perm _ _ _ _ Hcfg (exposed_nodup t (st_ad s))) as Hpp.
  assert (Hlen : length (concat (st_pools s)) = Nat.min n (total_pus t)).
  { rewrite (Permutation_length Hpp), (Permutation_length Hpe). apply seq_length. }
  split; [|split].
  - now rewrite Hw, workers_length.
  - intros i w Hi.
    assert (Hlt : i < length (concat (st_pools s))).
    { rewrite <- (workers_length (st_ad s)), <- Hw. apply nth_error_Some. congruence. }
    split.
    + apply (workers_none (st_ad s) (st_pools s)).
      * intros k Hk. apply mem_In. cbn [affinity_init] in Ha. inversion Ha as [Had]. cbn [ad_noaff].
        apply none_noaff; lia.
      * rewrite <- Hw. eapply nth_error_In; eauto.
    + now apply pools_partition_workers.
  - rewrite Hw, workers_pus, Hpp. exact Hpe.
Qed.

Lemma none_worker_count t use pm n mc specs s :
  n <= total_pus t ->
  startup t BindNone use pm n mc specs = Ok s -> length (st_workers s) = n.
Proof.
  intros Hn H. apply startup_none_sound in H. destruct H as [H _]. rewrite H. lia.
Qed.

(* ---------- thread-count keywords  --pika:threads=all / cores ---------- *)
Lemma default_threads_spec t pm :
  default_threads t false pm = total_pus t /\
  exists ps, NoDup ps /\ (forall p, In p ps <-> p < total_pus t /\ pm p = true) /\
             default_threads t true pm = length ps.
Proof.
  split; [reflexivity|]. exists (filter pm (seq 0 (total_pus t))). split; [|split].
  - apply NoDup_filter, seq_NoDup.
  - intros p. rewrite filter_In, in_seq. split; intros [H1 H2]; split; auto; lia.
  - reflexivity.
Qed.

(* all = the largest thread count check_num_threads lets through *)
Lemma default_threads_max t use pm n :
  check_num_threads t use pm n = None <-> n <= default_threads t use pm.
Proof.
  unfold check_num_threads, default_threads. destruct use.
  - destruct (count_mask t pm <? n) eqn:E; [apply Nat.ltb_lt in E|apply Nat.ltb_ge in E]; split; try discriminate; auto; lia.
  - destruct (total_pus t <? n) eqn:E; [apply Nat.ltb_lt in E|apply Nat.ltb_ge in E]; split; try discriminate; auto; lia.
Qed.

Definition core_has (t : topology) (pm : nat -> bool) (c : nat) : bool :=
  existsb (fun x => pm (pu_number t (fst x) (snd x))) (core_pairs t 0 c).

Lemma core_has_spec t pm c : c < ncores t ->
  (core_has t pm c = true <-> exists q, prefix t c <= q < prefix t c + core_pus t c /\ pm q = true).
Proof.
  intros Hc. unfold core_has, core_pairs. rewrite Nat.add_0_r, existsb_exists. split.
  - intros (x & Hx & Hp). apply in_map_iff in Hx. destruct Hx as (p & <- & Hx). apply in_seq in Hx.
    cbn [fst snd] in Hp. rewrite pun_small in Hp by lia. exists (prefix t c + p). split; auto. lia.
  - intros (q & Hq & Hp). exists (c, q - prefix t c). split.
    + apply in_map. apply in_seq. lia.
    + cbn [fst snd]. rewrite pun_small by lia. replace (prefix t c + (q - prefix t c)) with q by lia. exact Hp.
Qed.

Lemma default_cores_spec t pm :
  default_cores t false pm = ncores t /\
  exists cs, NoDup cs /\
    (forall c, In c cs <-> c < ncores t /\ exists q, prefix t c <= q < prefix t c + core_pus t c /\ pm q = true) /\
    default_cores t true pm = length cs.
Proof.
  split; [reflexivity|]. exists (filter (core_has t pm) (seq 0 (ncores t))). split; [|split].
  - apply NoDup_filter, seq_NoDup.
  - intros c. rewrite filter_In, in_seq. split.
    + intros [H1 H2]. split; [lia|]. apply core_has_spec; auto; lia.
    + intros [H1 H2]. split; [lia|]. apply core_has_spec; auto.
  - reflexivity.
Qed.

(* cores <= all: every core inside the mask contributes a PU inside the mask *)
Lemma cores_le_pus_masked t pm : forall k, k <= ncores t ->
  length (filter (core_has t pm) (seq 0 k)) <= length (filter pm (seq 0 (prefix t k))).
Proof.
  induction k as [|k IH]; intros Hk; [cbn; lia|].
  rewrite seq_S, filter_app, app_length. rewrite prefix_S by lia.
  rewrite seq_app, filter_app, app_length. specialize (IH ltac:(lia)). cbn [Nat.add filter].
  destruct (core_has t pm k) eqn:E; cbn [length]; [|lia].
  apply core_has_spec in E; [|lia]. destruct E as (q & Hq & Hp).
  assert (Hin : In q (filter pm (seq (prefix t k) (core_pus t k)))).
  { apply filter_In. split; auto. apply in_seq. lia. }
  destruct (filter pm (seq (prefix t k) (core_pus t k))); [destruct Hin|]. cbn [length]. lia.
Qed.

Lemma default_cores_le_threads t use pm :
  (use = true \/ wf_topo t) -> default_cores t use pm <= default_threads t use pm.
Proof.
  intros H. unfold default_cores, default_threads. destruct use.
  - unfold count_mask. rewrite <- prefix_all. apply (cores_le_pus_masked t pm (ncores t)). lia.
  - destruct H as [H|H]; [discriminate|]. rewrite <- prefix_all. now apply prefix_ge.
Qed.

(* --pika:threads=cores and --pika:threads=all are never rejected as oversubscription *)
Lemma keywords_pass_check t use pm :
  (use = true \/ wf_topo t) ->
  check_num_threads t use pm (default_threads t use pm) = None /\
  check_num_threads t use pm (default_cores t use pm) = None.
Proof.
  intros H. split; apply default_threads_max; auto. now apply default_cores_le_threads.
Qed.
