(* Proofs/SenderLedgerProofs.v — C03: every object an operation stores is constructed once and
   destroyed once; no operation state is used after it has signalled its receiver. *)
From Coq Require Import List NArith ZArith Bool Lia Arith Permutation.
From Pika Require Import Model.Sender Model.SenderLedger Proofs.SenderProofs.
Import ListNotations.

(* ------------------------------------------------------------------ basics *)
Definition obj_dec : forall a b : obj, {a = b} + {a <> b}.
Proof. repeat decide equality. Defined.

Lemma path_eqb_eq a b : path_eqb a b = true <-> a = b.
Proof.
  revert b. induction a as [|x a IH]; intros [|y b]; cbn; try (split; congruence).
  rewrite andb_true_iff, Nat.eqb_eq, IH. split; [intros [-> ->]; reflexivity|intros [= -> ->]; auto].
Qed.

Lemma news_app l1 l2 : news (l1 ++ l2) = news l1 ++ news l2.
Proof. induction l1 as [|[] l1 IH]; cbn; congruence. Qed.
Lemma dels_app l1 l2 : dels (l1 ++ l2) = dels l1 ++ dels l2.
Proof. induction l1 as [|[] l1 IH]; cbn; congruence. Qed.
Lemma cref_app s l1 l2 : cref s (l1 ++ l2) = (cref s l1 + cref s l2)%Z.
Proof. induction l1 as [|[] l1 IH]; cbn [app cref]; lia. Qed.

Lemma NoDup_app' {A} (l1 l2 : list A) :
  NoDup l1 -> NoDup l2 -> (forall x, In x l1 -> In x l2 -> False) -> NoDup (l1 ++ l2).
Proof.
  induction l1 as [|a l1 IH]; intros H1 H2 Hd; [exact H2|].
  inversion H1; subst. cbn. constructor.
  - rewrite in_app_iff. intros [?|?]; [contradiction|]. eapply Hd; [now left|eassumption].
  - apply IH; auto. intros x Hx. apply Hd. now right.
Qed.

(* permutations of concatenations of the same pieces *)
Ltac perm := apply (Permutation_count_occ obj_dec); intro; rewrite ?count_occ_app; cbn [count_occ];
             repeat match goal with |- context [obj_dec ?a ?b] => destruct (obj_dec a b) end; try contradiction; try congruence; lia.

(* ------------------------------------------------------------------ paths *)
Lemma under_refl p : under p p.
Proof. now exists []. Qed.
Lemma under_cons i p x : under (i :: p) x -> under p x.
Proof. intros [l ->]. exists (l ++ [i]). now rewrite <- app_assoc. Qed.
Lemma under_trans p q x : under p q -> under q x -> under p x.
Proof. intros [l ->] [l' ->]. exists (l' ++ l). now rewrite app_assoc. Qed.
Lemma under_length q x : under q x -> length q <= length x.
Proof. intros [l ->]. rewrite app_length. lia. Qed.
Lemma not_under_self i p : ~ under (i :: p) p.
Proof. intros H. apply under_length in H. cbn in H. lia. Qed.

Lemma app_same_length {A} (l1 l2 a b : list A) :
  l1 ++ a = l2 ++ b -> length a = length b -> l1 = l2 /\ a = b.
Proof.
  revert l2. induction l1 as [|x l1 IH]; intros [|y l2] H Hl; cbn in *.
  - auto.
  - subst a. cbn in Hl. rewrite app_length in Hl. lia.
  - subst b. cbn in Hl. rewrite app_length in Hl. lia.
  - injection H as -> H. destruct (IH _ H Hl) as [-> ->]. auto.
Qed.

Lemma under_siblings i j p x : under (i :: p) x -> under (j :: p) x -> i = j.
Proof.
  intros [l1 ->] [l2 H]. apply app_same_length in H; [|reflexivity]. destruct H as [_ [= ->]]. reflexivity.
Qed.

(* ------------------------------------------------------------------ balanced event lists *)
Definition evs (r : nrun) : list lev := n_con r ++ n_pre r ++ n_res r ++ n_post r.

Definition goodnd (S : obj -> Prop) (N D : list obj) : Prop :=
  NoDup N /\ Permutation N D /\ Forall S N.

Definition goodl (S : obj -> Prop) (l : list lev) : Prop :=
  goodnd S (news l) (dels l) /\ forall s, cref s l = 0%Z.

Definition good (p : path) (r : nrun) : Prop := goodl (fun o => under p (fst o)) (evs r).

Lemma goodnd_perm S N D N' D' : Permutation N N' -> Permutation D D' -> goodnd S N D -> goodnd S N' D'.
Proof.
  intros Hn Hd (H1 & H2 & H3). repeat split.
  - eapply Permutation_NoDup; eassumption.
  - rewrite <- Hn, <- Hd. exact H2.
  - eapply Permutation_Forall; eassumption.
Qed.

Lemma goodnd_app (S1 S2 S : obj -> Prop) N1 D1 N2 D2 :
  goodnd S1 N1 D1 -> goodnd S2 N2 D2 -> (forall x, S1 x -> S2 x -> False) ->
  (forall x, S1 x -> S x) -> (forall x, S2 x -> S x) -> goodnd S (N1 ++ N2) (D1 ++ D2).
Proof.
  intros (A1 & A2 & A3) (B1 & B2 & B3) Hd HS1 HS2. repeat split.
  - apply NoDup_app'; auto. intros o Ho1 Ho2.
    rewrite Forall_forall in A3, B3. eapply Hd; [apply A3|apply B3]; eassumption.
  - now apply Permutation_app.
  - apply Forall_app. split; (eapply Forall_impl; [|eassumption]); intros o; auto.
Qed.

Lemma goodl_equiv S l l' :
  Permutation (news l) (news l') -> Permutation (dels l) (dels l') -> (forall s, cref s l = cref s l') ->
  goodl S l -> goodl S l'.
Proof.
  intros Hn Hd Hc (H1 & H4). split; [eapply goodnd_perm; eassumption|].
  intros s. rewrite <- Hc. apply H4.
Qed.

Lemma goodl_weaken (S S' : obj -> Prop) l : (forall x, S x -> S' x) -> goodl S l -> goodl S' l.
Proof.
  intros HS ((H1 & H2 & H3) & H4). repeat split; auto.
  eapply Forall_impl; [|exact H3]. intros o. apply HS.
Qed.

Lemma goodl_app (S1 S2 S : obj -> Prop) l1 l2 :
  goodl S1 l1 -> goodl S2 l2 -> (forall x, S1 x -> S2 x -> False) ->
  (forall x, S1 x -> S x) -> (forall x, S2 x -> S x) -> goodl S (l1 ++ l2).
Proof.
  intros (A1 & A4) (B1 & B4) Hd HS1 HS2. split.
  - rewrite news_app, dels_app. eapply goodnd_app; eassumption.
  - intros s. rewrite cref_app, A4, B4. reflexivity.
Qed.

Lemma goodl_nil S : goodl S [].
Proof. repeat split; cbn; auto. constructor. Qed.

Definition here_or_1 (p : path) (o : obj) : Prop := fst o = p \/ under (1 :: p) (fst o).

Lemma here_or_1_disjoint p o : here_or_1 p o -> under (0 :: p) (fst o) -> False.
Proof.
  intros [E|H1] H0; [rewrite E in H0; now apply not_under_self in H0|].
  pose proof (under_siblings _ _ _ _ H1 H0). discriminate.
Qed.
Lemma here_or_1_under p o : here_or_1 p o -> under p (fst o).
Proof. intros [->|H]; [apply under_refl|eapply under_cons; eassumption]. Qed.

(* local events of a node: concrete lists *)
Ltac local_good :=
  unfold goodl, goodnd; cbn [news dels cref app]; (split; [split; [|split]|]);
  [ repeat (constructor; [cbn [In]; intuition congruence|]); constructor
  | perm
  | repeat (constructor; [unfold here_or_1; cbn [fst]; auto using under_refl|]); constructor
  | intro; repeat match goal with |- context [path_eqb ?a ?b] => destruct (path_eqb a b) end; lia ].

Ltac norm := repeat (progress (rewrite ?news_app, ?dels_app, ?cref_app; cbn [news dels cref app])).

Lemma unode_good p oc os ors inside ch rc :
  good (0 :: p) ch ->
  goodl (here_or_1 p) (oc ++ os ++ ors ++ r_ev (rc (n_c ch)) ++ r_res (rc (n_c ch)) ++ r_post (rc (n_c ch))) ->
  good p (unode p oc os ors inside ch rc).
Proof.
  intros Hc Hl. unfold good.
  eapply goodl_equiv; [| | |eapply (goodl_app _ _ (fun o => under p (fst o))); [exact Hl|exact Hc|apply here_or_1_disjoint|apply here_or_1_under|intros o; apply under_cons]].
  - unfold evs, unode; cbn [n_con n_pre n_res n_post]. destruct inside; norm; perm.
  - unfold evs, unode; cbn [n_con n_pre n_res n_post]. destruct inside; norm; perm.
  - intros s. unfold evs, unode; cbn [n_con n_pre n_res n_post]. destruct inside; norm; lia.
Qed.

Lemma leaf_good p k b c : k = KLeaf \/ k = KSched -> good p (leaf p k b c).
Proof. intros [-> | ->]; unfold good, evs, leaf; cbn [n_con n_pre n_res n_post]; destruct b; local_good. Qed.

(* ------------------------------------------------------------------ the join's stored objects *)
Definition slots_of (p : path) (j : join) : list obj :=
  map (fun s => (p, KVals (fst s))) (j_slots j) ++ match j_err j with Some _ => [(p, KErr)] | None => [] end.

(* bookkeeping invariant of the join state before child i signals *)
Definition jok (i : nat) (j : join) : Prop :=
  (j_flag j = false -> j_err j = None) /\
  (forall s, In s (j_slots j) -> fst s < i) /\
  NoDup (map fst (j_slots j)).

Lemma jok_init n : jok 0 (join_init n).
Proof. repeat split; cbn; intros; try contradiction; constructor. Qed.

Lemma join_child_fields n j i c :
  let j' := join_child n j (i, Sig c) in
  j_flag j' = (match c with CVal _ => j_flag j | _ => true end) /\
  j_err j' = (match c with CErr x => if j_flag j then j_err j else Some x | _ => j_err j end) /\
  j_slots j' = (match c with CVal vs => if j_flag j then j_slots j else (i, vs) :: j_slots j | _ => j_slots j end).
Proof.
  unfold join_child. destruct c as [vs|x|]; destruct (j_flag j) eqn:Ef; cbn [j_rem j_flag j_err j_slots j_out];
    match goal with |- context [(?r =? 0)%Z] => destruct (r =? 0)%Z end; cbn [j_rem j_flag j_err j_slots j_out];
    rewrite ?Ef; auto.
Qed.

Lemma jok_step n j i c : jok i j -> jok (S i) (join_child n j (i, Sig c)).
Proof.
  intros (H1 & H2 & H3). destruct (join_child_fields n j i c) as (Ef & Ee & Es).
  unfold jok. rewrite Ef, Ee, Es. repeat split.
  - destruct c; destruct (j_flag j); auto; discriminate.
  - intros s Hs. destruct c; try destruct (j_flag j); try (apply H2 in Hs; lia).
    destruct Hs as [<-|Hs]; [cbn; lia|apply H2 in Hs; lia].
  - destruct c; try destruct (j_flag j); auto. cbn [map fst]. constructor; auto.
    intros Hin. apply in_map_iff in Hin. destruct Hin as (s & Hs1 & Hs2). apply H2 in Hs2. lia.
Qed.

Lemma jstep_slots p n j i c : jok i j ->
  Permutation (slots_of p (join_child n j (i, Sig c))) (news (jrecv_events p j i c) ++ slots_of p j) /\
  dels (jrecv_events p j i c) = [] /\ forall s, cref s (jrecv_events p j i c) = 0%Z.
Proof.
  intros (H1 & _ & _). destruct (join_child_fields n j i c) as (Ef & Ee & Es).
  unfold slots_of. rewrite Ee, Es. unfold jrecv_events.
  destruct c as [vs|x|]; destruct (j_flag j) eqn:Eg; norm; cbn [map fst]; repeat split; auto; try apply Permutation_refl.
  rewrite (H1 eq_refl). cbn [app]. rewrite app_nil_r. apply Permutation_sym, Permutation_cons_append.
Qed.

Lemma slots_of_nodup p i j : jok i j -> NoDup (slots_of p j).
Proof.
  intros (_ & _ & H3). unfold slots_of. apply NoDup_app'.
  - revert H3. generalize (j_slots j). induction l as [|s l IH]; cbn; intros H; [constructor|].
    inversion H; subst. constructor; auto. intros Hin. apply in_map_iff in Hin. destruct Hin as (s' & [= E] & Hs').
    apply H2. rewrite <- E. now apply in_map.
  - destruct (j_err j); repeat constructor. intros [].
  - intros o Ho1 Ho2. apply in_map_iff in Ho1. destruct Ho1 as (s & <- & _).
    destruct (j_err j); cbn in Ho2; intuition congruence.
Qed.

Lemma slot_dels_facts p j : dels (slot_dels p j) = slots_of p j /\ news (slot_dels p j) = [] /\ forall s, cref s (slot_dels p j) = 0%Z.
Proof.
  unfold slot_dels, slots_of. repeat split.
  - rewrite dels_app. f_equal; [induction (j_slots j) as [|a l IH]; cbn [map dels]; [reflexivity|now rewrite IH]|destruct (j_err j); reflexivity].
  - rewrite news_app. replace (news (map _ (j_slots j))) with (@nil obj) by (induction (j_slots j); cbn; auto).
    destruct (j_err j); reflexivity.
  - intros s. rewrite cref_app. replace (cref s (map _ (j_slots j))) with 0%Z by (induction (j_slots j); cbn; auto).
    destruct (j_err j); reflexivity.
Qed.

Definition prepost (ch : nrun) : list lev := n_pre ch ++ n_post ch.

Lemma jfold_counts p off n loop :
  news loop = [] -> dels loop = [] -> (forall s, cref s loop = 0%Z) ->
  forall chs i j pre c post jf, jok i j -> jfold p off n loop i chs j = Some (pre, c, post, jf) ->
    Permutation (news (pre ++ post) ++ slots_of p j) (news (flat_map prepost chs) ++ slots_of p jf) /\
    Permutation (dels (pre ++ post)) (dels (flat_map prepost chs)) /\
    (forall s, cref s (pre ++ post) = cref s (flat_map prepost chs)) /\
    jok (i + length chs) jf.
Proof.
  intros Ln Ld Lc. induction chs as [|ch rest IH]; intros i j pre c post jf Hj H; [discriminate|].
  cbn [jfold] in H.
  destruct (jstep_slots p n j i (n_c ch) Hj) as (Sp & Sd & Sc).
  pose proof (jok_step n j i (n_c ch) Hj) as Hj'.
  set (j' := join_child n j (i, Sig (n_c ch))) in *.
  destruct (j_out j') as [|[c0|] [|? ?]] eqn:Eo; destruct rest as [|ch2 rest2]; try discriminate.
  - (* continue *)
    destruct (jfold p off n loop (S i) (ch2 :: rest2) j') as [[[[pre' c'] post'] jf']|] eqn:Er; [|discriminate].
    injection H as <- <- <- <-.
    destruct (IH _ _ _ _ _ _ Hj' Er) as (P1 & P2 & P3 & P4).
    change (flat_map prepost (ch :: ch2 :: rest2)) with ((n_pre ch ++ n_post ch) ++ flat_map prepost (ch2 :: rest2)). split; [|split; [|split]].
    + revert P1 Sp. norm. rewrite Ln. cbn [app]. intros P1 Sp.
      apply (Permutation_count_occ obj_dec). intro x.
      pose proof (proj1 (Permutation_count_occ obj_dec _ _) P1 x) as Q1.
      pose proof (proj1 (Permutation_count_occ obj_dec _ _) Sp x) as Q2.
      revert Q1 Q2. rewrite ?count_occ_app; cbn [count_occ]; lia.
    + revert P2. norm. rewrite Ld, Sd. cbn [app]. intros P2.
      apply (Permutation_count_occ obj_dec). intro x.
      pose proof (proj1 (Permutation_count_occ obj_dec _ _) P2 x) as Q1.
      revert Q1. rewrite ?count_occ_app; cbn [count_occ]; lia.
    + intros s. specialize (P3 s). revert P3. norm. rewrite Lc, Sc. lia.
    + replace (i + length (ch :: ch2 :: rest2)) with (S i + length (ch2 :: rest2)) by (cbn; lia). exact P4.
  - (* the last child fires *)
    injection H as <- <- <- <-. change (flat_map prepost [ch]) with ((n_pre ch ++ n_post ch) ++ []). rewrite app_nil_r. split; [|split; [|split]].
    + revert Sp. norm. rewrite Ln. cbn [app]. rewrite ?app_nil_r. intros Sp.
      apply (Permutation_count_occ obj_dec). intro x.
      pose proof (proj1 (Permutation_count_occ obj_dec _ _) Sp x) as Q2.
      revert Q2. rewrite ?count_occ_app; cbn [count_occ]; lia.
    + norm. rewrite Ld, Sd. cbn [app]. rewrite ?app_nil_r. apply Permutation_refl.
    + intros s. norm. rewrite Lc, Sc. lia.
    + replace (i + length [ch]) with (S i) by (cbn; lia). exact Hj'.
Qed.

(* ------------------------------------------------------------------ the join node *)
Definition belowS (p : path) (o : obj) : Prop :=
  (fst o = p /\ (snd o = KShared \/ snd o = KShVar)) \/ exists k, under (k :: p) (fst o).
Definition ownS (p : path) (o : obj) : Prop :=
  fst o = p /\ (snd o = KState \/ snd o = KSub 0 \/ snd o = KErr \/ exists i, snd o = KVals i).

Lemma below_own_disjoint p o : belowS p o -> ownS p o -> False.
Proof.
  intros [[_ [H|H]]|[k H]] [E H2].
  - rewrite H in H2. destruct H2 as [?|[?|[?|[? ?]]]]; discriminate.
  - rewrite H in H2. destruct H2 as [?|[?|[?|[? ?]]]]; discriminate.
  - rewrite E in H. now apply not_under_self in H.
Qed.
Lemma belowS_under p o : belowS p o -> under p (fst o).
Proof. intros [[-> _]|[k H]]; [apply under_refl|eapply under_cons; eassumption]. Qed.
Lemma ownS_under p o : ownS p o -> under p (fst o).
Proof. intros [-> _]. apply under_refl. Qed.

Lemma flat_map_evs_counts chs :
  (forall x, count_occ obj_dec (news (flat_map evs chs)) x =
             count_occ obj_dec (news (flat_map n_con chs)) x + count_occ obj_dec (news (flat_map prepost chs)) x +
             count_occ obj_dec (news (flat_map n_res chs)) x) /\
  (forall x, count_occ obj_dec (dels (flat_map evs chs)) x =
             count_occ obj_dec (dels (flat_map n_con chs)) x + count_occ obj_dec (dels (flat_map prepost chs)) x +
             count_occ obj_dec (dels (flat_map n_res chs)) x) /\
  (forall s, cref s (flat_map evs chs) =
             (cref s (flat_map n_con chs) + cref s (flat_map prepost chs) + cref s (flat_map n_res chs))%Z).
Proof.
  induction chs as [|ch chs (I1 & I2 & I3)]; [repeat split|].
  cbn [flat_map]. unfold evs at 1 3 5, prepost at 1 3 5. repeat split; intros x.
  - norm. rewrite ?count_occ_app, (I1 x). lia.
  - norm. rewrite ?count_occ_app, (I2 x). lia.
  - norm. rewrite (I3 x). lia.
Qed.

Lemma slots_of_ownS p j : Forall (ownS p) (slots_of p j).
Proof.
  unfold slots_of. apply Forall_app. split.
  - apply Forall_forall. intros o Ho. apply in_map_iff in Ho. destruct Ho as (s & <- & _).
    split; [reflexivity|]. right. right. right. eexists. reflexivity.
  - destruct (j_err j); constructor; [|constructor]. split; cbn; auto.
Qed.

Lemma own_slots_good p (vec : bool) i j : jok i j ->
  let own : list obj := (p, KState) :: (if vec then [(p, KSub 0)] else []) in
  goodnd (ownS p) (own ++ slots_of p j) (own ++ slots_of p j).
Proof.
  intros Hj own. split; [|split; [apply Permutation_refl|]].
  - apply NoDup_app'.
    + subst own. destruct vec; repeat (constructor; [cbn [In]; intuition congruence|]); constructor.
    + eapply slots_of_nodup; eassumption.
    + intros o Ho1 Ho2. unfold slots_of in Ho2. apply in_app_or in Ho2. destruct Ho2 as [Ho2|Ho2].
      * apply in_map_iff in Ho2. destruct Ho2 as (s & <- & _). subst own. destruct vec; cbn in Ho1; intuition congruence.
      * destruct (j_err j); cbn in Ho2; [|contradiction]. destruct Ho2 as [<-|[]].
        subst own. destruct vec; cbn in Ho1; intuition congruence.
  - apply Forall_app. split; [|apply slots_of_ownS].
    subst own. destruct vec; repeat (constructor; [unfold ownS; cbn; auto|]); constructor.
Qed.

Lemma join_node_good p off vec xc xr chs r :
  join_node p off vec xc xr chs = Some r ->
  goodl (belowS p) (xc ++ xr ++ flat_map evs chs) ->
  good p r.
Proof.
  intros Hr ((G1 & G2 & G3) & G4).
  destruct (flat_map_evs_counts chs) as (F1 & F2 & F3).
  unfold join_node in Hr. destruct chs as [|ch rest].
  - destruct vec; [|discriminate]. injection Hr as <-.
    unfold good, evs; cbn [n_con n_pre n_res n_post]. split.
    + eapply goodnd_perm; [| |eapply (goodnd_app (belowS p) (ownS p));
        [split; [exact G1|split; [exact G2|exact G3]]|apply (own_slots_good p true 0 (join_init 0) (jok_init 0))
        |apply below_own_disjoint|apply belowS_under|apply ownS_under]].
      * cbn [flat_map slots_of join_init j_slots j_err map app]. norm. rewrite ?app_nil_r.
        apply (Permutation_count_occ obj_dec); intro x; rewrite ?count_occ_app; cbn [count_occ];
          repeat match goal with |- context [obj_dec ?a ?b] => destruct (obj_dec a b) end; try congruence; lia.
      * cbn [flat_map slots_of join_init j_slots j_err map app]. norm. rewrite ?app_nil_r.
        apply (Permutation_count_occ obj_dec); intro x; rewrite ?count_occ_app; cbn [count_occ];
          repeat match goal with |- context [obj_dec ?a ?b] => destruct (obj_dec a b) end; try congruence; lia.
    + intros s. specialize (G4 s). revert G4. cbn [flat_map]. norm. rewrite ?app_nil_r. norm. lia.
  - remember (ch :: rest) as chs eqn:Ec in *.
    destruct (jfold p off (length chs) (if vec then [Acc p] else []) 0 chs (join_init (length chs)))
      as [[[[pre c] post] jf]|] eqn:Ej; [|discriminate].
    injection Hr as <-.
    assert (Hloop : news (if vec then [Acc p] else []) = [] /\ dels (if vec then [Acc p] else []) = [] /\
                    forall s, cref s (if vec then [Acc p] else []) = 0%Z) by (destruct vec; repeat split).
    destruct Hloop as (L1 & L2 & L3).
    destruct (jfold_counts p off _ _ L1 L2 L3 _ _ _ _ _ _ _ (jok_init _) Ej) as (P1 & P2 & P3 & P4).
    pose proof (slot_dels_facts p jf) as (D1 & D2 & D3).
    unfold good, evs; cbn [n_con n_pre n_res n_post]. split.
    + eapply goodnd_perm; [| |eapply (goodnd_app (belowS p) (ownS p));
        [split; [exact G1|split; [exact G2|exact G3]]|apply (own_slots_good p vec _ jf P4)
        |apply below_own_disjoint|apply belowS_under|apply ownS_under]].
      * apply (Permutation_count_occ obj_dec); intro x.
        pose proof (proj1 (Permutation_count_occ obj_dec _ _) P1 x) as Q1. revert Q1.
        cbn [slots_of join_init j_slots j_err map app]. norm. rewrite D2. destruct vec; norm;
          rewrite ?count_occ_app, ?(F1 x); cbn [count_occ]; rewrite ?app_nil_r;
          repeat match goal with |- context [obj_dec ?a ?b] => destruct (obj_dec a b) end; lia.
      * apply (Permutation_count_occ obj_dec); intro x.
        pose proof (proj1 (Permutation_count_occ obj_dec _ _) P2 x) as Q1. revert Q1.
        norm. rewrite D1. destruct vec; norm;
          rewrite ?count_occ_app, ?(F2 x); cbn [count_occ];
          repeat match goal with |- context [obj_dec ?a ?b] => destruct (obj_dec a b) end; lia.
    + intros s. specialize (G4 s). specialize (P3 s). revert G4 P3. norm. rewrite D3, (F3 s). destruct vec; norm; lia.
Qed.

(* ------------------------------------------------------------------ the join fires exactly at the last child *)
Lemma jfold_some p off n loop : forall chs pfx j,
  jinv n pfx j -> length pfx + length chs = n -> chs <> [] ->
  exists pre post jf, jfold p off n loop (length pfx) chs j = Some (pre, join_seq (pfx ++ map n_c chs), post, jf).
Proof.
  induction chs as [|ch rest IH]; intros pfx j Hj Hn Hne; [congruence|].
  cbn [jfold map]. destruct rest as [|ch2 rest2].
  - rewrite (jinv_last n pfx (n_c ch) j Hj) by (cbn in Hn; lia). cbn [map]. eauto.
  - assert (Hs := jinv_step n pfx (n_c ch) j Hj ltac:(cbn in Hn; lia)).
    destruct Hs as (Hr & Ho & Hrest). rewrite Ho.
    assert (Hj' : jinv n (pfx ++ [n_c ch]) (join_child n j (length pfx, Sig (n_c ch)))) by (repeat split; tauto).
    destruct (IH (pfx ++ [n_c ch]) _ Hj') as (pre & post & jf & E).
    + rewrite app_length. cbn in *. lia.
    + discriminate.
    + rewrite app_length in E. cbn [length] in E. replace (length pfx + 1) with (S (length pfx)) in E by lia.
      rewrite E. cbn [map]. replace ((pfx ++ [n_c ch]) ++ n_c ch2 :: map n_c rest2) with (pfx ++ n_c ch :: n_c ch2 :: map n_c rest2) by (now rewrite <- app_assoc). do 3 eexists. reflexivity.
Qed.

Lemma join_node_some p off vec xc xr chs : (vec = true \/ chs <> []) ->
  exists r, join_node p off vec xc xr chs = Some r /\ n_c r = join_seq (map n_c chs).
Proof.
  intros Hv. unfold join_node. destruct chs as [|ch rest].
  - destruct Hv as [->|H]; [|congruence]. eexists. split; reflexivity.
  - destruct (jfold_some p off (length (ch :: rest)) (if vec then [Acc p] else []) (ch :: rest) [] _ (jinv_init _))
      as (pre & post & jf & E); [reflexivity|discriminate|].
    cbn [length] in E. cbn [length]. rewrite E. eexists. split; reflexivity.
Qed.

(* ------------------------------------------------------------------ children of when_all(_vector) *)
Definition lgo (p : path) := fix go (i : nat) (l : list term) : option (list nrun) :=
  match l with
  | [] => Some []
  | t :: r => match lrun t (i :: p), go (S i) r with Some x, Some xs => Some (x :: xs) | _, _ => None end
  end.

Definition fromS (p : path) (i : nat) (o : obj) : Prop := exists k, i <= k /\ under (k :: p) (fst o).

Definition lgood (t : term) : Prop :=
  wfl t -> forall p, exists r, lrun t p = Some r /\ sigs t = [Sig (n_c r)] /\ good p r.

Definition wfls := fix all (l : list term) : Prop := match l with [] => True | t :: r => wfl t /\ all r end.

Lemma lgo_good p ts : Forall lgood ts -> wfls ts -> forall i,
  exists chs, lgo p i ts = Some chs /\ Forall2 (fun t c => sigs t = [Sig c]) ts (map n_c chs) /\
              length chs = length ts /\ goodl (fromS p i) (flat_map evs chs).
Proof.
  induction 1 as [|t ts Ht _ IH]; intros Hw i.
  - exists []. split; [reflexivity|split; [constructor|split; [reflexivity|apply goodl_nil]]].
  - destruct Hw as [Hw1 Hw2]. destruct (Ht Hw1 (i :: p)) as (r & Hr & Hs & Hg).
    destruct (IH Hw2 (S i)) as (chs & Hc & Hf & Hl & Hgs).
    exists (r :: chs). cbn [lgo]. rewrite Hr, Hc. split; [reflexivity|split; [|split]].
    + cbn [map]. constructor; assumption.
    + cbn. congruence.
    + cbn [flat_map]. eapply (goodl_app _ _ (fromS p i)); [exact Hg|exact Hgs| | |].
      * intros o H1 H2. destruct H2 as (k & Hk & H2). pose proof (under_siblings _ _ _ _ H1 H2). lia.
      * intros o H1. hnf. exists i. split; [lia|exact H1].
      * intros o H2. destruct H2 as (k & Hk & H2). hnf. exists k. split; [lia|exact H2].
Qed.

Lemma fromS_below p i o : fromS p i o -> belowS p o.
Proof. intros H. destruct H as (k & _ & H). right. eauto. Qed.

(* ------------------------------------------------------------------ consumers of a shared state *)
Definition consumer_simple (p : path) (i : nat) : list lev :=
  [New (S i :: p, KState); RefInc p; Del (S i :: p, KState); RefDec p].

Definition consS (p : path) (a : nat) (o : obj) : Prop := exists k, a <= k /\ fst o = S k :: p.

Lemma consumers_simple_good p : forall m a, goodl (consS p a) (flat_map (consumer_simple p) (seq a m)).
Proof.
  induction m as [|m IH]; intros a; [apply goodl_nil|].
  cbn [seq flat_map]. eapply (goodl_app (fun o => fst o = S a :: p) (consS p (S a))); [|apply IH| | |].
  - unfold consumer_simple, goodl, goodnd; cbn [news dels cref app]. (split; [split; [|split]|]).
    + repeat (constructor; [cbn [In]; intuition congruence|]); constructor.
    + apply Permutation_refl.
    + repeat constructor.
    + intro s. destruct (path_eqb s p); lia.
  - intros o E H2. destruct H2 as (k & Hk & E2). rewrite E in E2. injection E2 as E2. lia.
  - intros o E. hnf. exists a. split; [lia|exact E].
  - intros o H2. destruct H2 as (k & Hk & E). hnf. exists k. split; [lia|exact E].
Qed.

Lemma evs_consumer_S p ref pr a : evs (consumer p ref pr (S a)) =
  [New (S (S a) :: p, KState); RefInc p; AccSh p; AccSh p; AccSh p; Del (S (S a) :: p, KState); RefDec p].
Proof. reflexivity. Qed.
Lemma evs_consumer_0 p ref pr : evs (consumer p ref pr 0) =
  [New (1 :: p, KState); RefInc p] ++ (AccSh p :: pred_run p ref pr ++ [AccSh p; AccSh p]) ++ [Del (1 :: p, KState); RefDec p] ++ [].
Proof. reflexivity. Qed.

Lemma evs_unfold r : evs r = n_con r ++ n_pre r ++ n_res r ++ n_post r.
Proof. reflexivity. Qed.

Ltac cnt0 := repeat (progress (rewrite ?count_occ_app; cbn [count_occ])).
Ltac cnt1 := repeat match goal with |- context [obj_dec ?a ?b] => destruct (obj_dec a b) end; try contradiction; try congruence; try lia.
Ltac cnt := cnt0; cnt1.

Lemma consumers_tail_counts p ref pr : forall m a,
  (forall x, count_occ obj_dec (news (flat_map evs (map (consumer p ref pr) (seq (S a) m)))) x =
             count_occ obj_dec (news (flat_map (consumer_simple p) (seq (S a) m))) x) /\
  (forall x, count_occ obj_dec (dels (flat_map evs (map (consumer p ref pr) (seq (S a) m)))) x =
             count_occ obj_dec (dels (flat_map (consumer_simple p) (seq (S a) m))) x) /\
  (forall s, cref s (flat_map evs (map (consumer p ref pr) (seq (S a) m))) =
             cref s (flat_map (consumer_simple p) (seq (S a) m))).
Proof.
  induction m as [|m IH]; intros a; [repeat split|].
  destruct (IH (S a)) as (I1 & I2 & I3).
  cbn [seq map flat_map]. rewrite evs_consumer_S. unfold consumer_simple at 1 3 5.
  repeat split; intros x.
  - norm. cbn [count_occ]. rewrite (I1 x). reflexivity.
  - norm. cbn [count_occ]. rewrite (I2 x). reflexivity.
  - norm. rewrite (I3 x). lia.
Qed.

Lemma map_n_c_consumers p ref pr n a : map n_c (map (consumer p ref pr) (seq a n)) = repeat (n_c pr) n.
Proof. revert a. induction n as [|n IH]; intros a; cbn; [reflexivity|]. f_equal. apply IH. Qed.

Definition shared_local (p : path) (ref : bool) : list lev :=
  (New (p, KShared) :: (if ref then [RefInc p] else [])) ++ [New (p, KShVar)] ++ (if ref then [RefDec p] else [])
  ++ [Del (p, KShVar); Del (p, KShared)].

Definition shS (p : path) (o : obj) : Prop := fst o = p /\ (snd o = KShared \/ snd o = KShVar).

Lemma shared_local_good p (ref : bool) : goodl (shS p) (shared_local p ref).
Proof.
  unfold shared_local, goodl, goodnd. destruct ref; cbn [news dels cref app]; (split; [split; [|split]|]);
  [ repeat (constructor; [cbn [In]; intuition congruence|]); constructor
  | perm
  | repeat (constructor; [unfold shS; cbn; auto|]); constructor
  | intro s; try destruct (path_eqb s p); lia
  | repeat (constructor; [cbn [In]; intuition congruence|]); constructor
  | perm
  | repeat (constructor; [unfold shS; cbn; auto|]); constructor
  | intro s; try destruct (path_eqb s p); lia ].
Qed.

(* everything around a shared state with n >= 1 consumers: the predecessor's operation (owned by
   the shared state), the shared state itself, the consumers *)
Lemma shared_good p (ref : bool) pr m xc :
  good (0 :: p) pr ->
  (forall x, count_occ obj_dec (news xc) x = count_occ obj_dec (news ((New (p, KShared) :: (if ref then [RefInc p] else [])) ++ n_con pr)) x) ->
  (forall x, count_occ obj_dec (dels xc) x = count_occ obj_dec (dels (n_con pr)) x) ->
  (forall s, cref s xc = cref s ((if ref then [RefInc p] else []) ++ n_con pr)) ->
  goodl (belowS p) (xc ++ [Del (p, KShVar); Del (p, KShared)] ++ flat_map evs (map (consumer p ref pr) (seq 0 (S m)))).
Proof.
  intros Hpr X1 X2 X3.
  destruct (consumers_tail_counts p ref pr m 0) as (T1 & T2 & T3).
  eapply (goodl_equiv _ (evs pr ++ shared_local p ref ++ flat_map (consumer_simple p) (seq 0 (S m)))).
  - apply (Permutation_count_occ obj_dec); intro x. cbn [seq map flat_map].
    rewrite evs_consumer_0, (evs_unfold pr). unfold pred_run, shared_local, consumer_simple at 1.
    destruct ref; norm; rewrite ?count_occ_app, ?(X1 x); norm; cnt0; rewrite ?(T1 x); cnt1.
  - apply (Permutation_count_occ obj_dec); intro x. cbn [seq map flat_map].
    rewrite evs_consumer_0, (evs_unfold pr). unfold pred_run, shared_local, consumer_simple at 1.
    destruct ref; norm; rewrite ?count_occ_app, ?(X2 x); norm; cnt0; rewrite ?(T2 x); cnt1.
  - intros s. cbn [seq map flat_map].
    rewrite evs_consumer_0, (evs_unfold pr). unfold pred_run, shared_local, consumer_simple at 1.
    destruct ref; norm; rewrite ?(X3 s), ?(T3 s); norm; destruct (path_eqb s p); lia.
  - eapply (goodl_app _ (fun o => shS p o \/ consS p 0 o) (belowS p)); [exact Hpr| | | |].
    + eapply (goodl_app (shS p) (consS p 0) (fun o => shS p o \/ consS p 0 o)); [apply shared_local_good|apply consumers_simple_good| | |].
      * intros o [E _] H2. destruct H2 as (k & _ & E2). rewrite E in E2. apply (f_equal (@length nat)) in E2. cbn in E2. lia.
      * intros o H. left. exact H.
      * intros o H. right. exact H.
    + intros o H0 [[E _]|H2]; cbv beta in H0; [|destruct H2 as (k & _ & E)].
      * rewrite E in H0. now apply not_under_self in H0.
      * rewrite E in H0. pose proof (under_siblings _ _ _ _ H0 (under_refl _)). discriminate.
    + intros o H. right. exists 0. exact H.
    + intros o [H|H2]; [left; exact H|destruct H2 as (k & _ & E); right]. exists (S k). rewrite E. apply under_refl.
Qed.

(* ------------------------------------------------------------------ let_value / let_error *)
Lemma let_local_good p st (su : exn + nrun) : st = KVals 0 \/ st = KErr ->
  match su with inl _ => True | inr s => good (1 :: p) s end ->
  goodl (here_or_1 p) (let_con p ++ [] ++ let_res p ++ r_ev (let_recv p st su) ++ r_res (let_recv p st su) ++ r_post (let_recv p st su)).
Proof.
  intros Hst Hsu. unfold let_con, let_res. destruct su as [e|s]; cbn [let_recv r_ev r_res r_post].
  - destruct Hst as [-> | ->]; local_good.
  - eapply (goodl_equiv _ ([New (p, KState); New (p, KFn); New (p, st); Del (p, st); Del (p, KFn); Del (p, KState)] ++ evs s)).
    + rewrite (evs_unfold s). norm. apply (Permutation_count_occ obj_dec); intro x. cnt.
    + rewrite (evs_unfold s). norm. apply (Permutation_count_occ obj_dec); intro x. cnt.
    + intros q. rewrite (evs_unfold s). norm. lia.
    + eapply (goodl_app (fun o => fst o = p) _ (here_or_1 p)); [|exact Hsu| | |].
      * destruct Hst as [-> | ->]; unfold goodl, goodnd; cbn [news dels cref app]; (split; [split; [|split]|]);
          [ repeat (constructor; [cbn [In]; intuition congruence|]); constructor | perm | repeat constructor | reflexivity
          | repeat (constructor; [cbn [In]; intuition congruence|]); constructor | perm | repeat constructor | reflexivity ].
      * intros o E H1. cbv beta in H1. rewrite E in H1. pose proof (under_length _ _ H1) as L. cbn in L. lia.
      * intros o E. left. exact E.
      * intros o H1. right. exact H1.
Qed.

(* ------------------------------------------------------------------ every well-formed pipeline *)
Lemma split_tuple_seq c : join_seq [tuple_c 0 c; tuple_c 1 c] = c.
Proof.
  destruct c as [vs|e|]; try reflexivity.
  unfold join_seq. cbn [tuple_c first_fail is_val flat_map val_of]. now rewrite app_nil_r, half_app.
Qed.

Ltac unode_case IHt Hw p :=
  let ch := fresh "ch" in let Hr := fresh "Hr" in let Hs := fresh "Hs" in let Hg := fresh "Hg" in
  destruct (IHt Hw (0 :: p)) as (ch & Hr & Hs & Hg); cbn [lrun sigs]; rewrite Hr;
  eexists; split; [reflexivity|split;
    [ cbn [n_c unode r_c fn_recv plain]; rewrite Hs, lift_single; reflexivity
    | apply unode_good; [exact Hg|cbv beta; cbn [r_ev r_res r_post fn_recv plain app]; try local_good] ]].

Theorem lrun_good : forall t, lgood t.
Proof.
  induction t using term_ind'; unfold lgood; intros Hw p.
  - eexists; split; [reflexivity|split; [reflexivity|apply leaf_good; auto]].
  - eexists; split; [reflexivity|split; [reflexivity|apply leaf_good; auto]].
  - eexists; split; [reflexivity|split; [reflexivity|apply leaf_good; auto]].
  - eexists; split; [reflexivity|split; [reflexivity|apply leaf_good; auto]].
  - (* then *) unode_case IHt Hw p.
  - (* let_value *) destruct Hw as [Hw Hk]. destruct (IHt Hw (0 :: p)) as (ch & Hr & Hs & Hg).
    cbn [lrun sigs]. rewrite Hr, Hs, bind_single. destruct (n_c ch) as [vs|e|] eqn:Ec.
    + destruct (thr vs) as [e|] eqn:Et.
      * eexists; split; [reflexivity|split; [reflexivity|]].
        apply unode_good; [exact Hg|]. apply (let_local_good p (KVals 0) (inl e)); auto.
      * destruct (H vs (Hk vs) (1 :: p)) as (su & Hr' & Hs' & Hg'). rewrite Hr'.
        eexists; split; [reflexivity|split; [exact Hs'|]].
        apply unode_good; [exact Hg|]. apply (let_local_good p (KVals 0) (inr su)); auto.
    + eexists; split; [reflexivity|split; [cbn [n_c unode r_c plain]; now rewrite Ec|]].
      apply unode_good; [exact Hg|]. cbv beta; unfold let_con, let_res; cbn [r_ev r_res r_post plain app]. local_good.
    + eexists; split; [reflexivity|split; [cbn [n_c unode r_c plain]; now rewrite Ec|]].
      apply unode_good; [exact Hg|]. cbv beta; unfold let_con, let_res; cbn [r_ev r_res r_post plain app]. local_good.
  - (* let_error *) destruct Hw as [Hw Hk]. destruct (IHt Hw (0 :: p)) as (ch & Hr & Hs & Hg).
    cbn [lrun sigs]. rewrite Hr, Hs, bind_single. destruct (n_c ch) as [vs|e|] eqn:Ec.
    + eexists; split; [reflexivity|split; [cbn [n_c unode r_c plain]; now rewrite Ec|]].
      apply unode_good; [exact Hg|]. cbv beta; unfold let_con, let_res; cbn [r_ev r_res r_post plain app]. local_good.
    + destruct (thr e) as [e'|] eqn:Et.
      * eexists; split; [reflexivity|split; [reflexivity|]].
        apply unode_good; [exact Hg|]. apply (let_local_good p KErr (inl e')); auto.
      * destruct (H e (Hk e) (1 :: p)) as (su & Hr' & Hs' & Hg'). rewrite Hr'.
        eexists; split; [reflexivity|split; [exact Hs'|]].
        apply unode_good; [exact Hg|]. apply (let_local_good p KErr (inr su)); auto.
    + eexists; split; [reflexivity|split; [cbn [n_c unode r_c plain]; now rewrite Ec|]].
      apply unode_good; [exact Hg|]. cbv beta; unfold let_con, let_res; cbn [r_ev r_res r_post plain app]. local_good.
  - (* when_all *) destruct Hw as [Hne Hw]. destruct (lgo_good p ts H Hw 0) as (chs & Hc & Hf & Hl & Hgs).
    cbn [lrun]. change (match lgo p 0 ts with Some chs => join_node p 0 false [] [] chs | None => None end = _ /\ _ /\ _) || idtac.
    assert (Hne' : chs <> []) by (intros ->; destruct ts; [congruence|discriminate]).
    pose proof (join_node_some p 0 false [] [] chs (or_intror Hne')) as (r & Hr & Hcr).
    exists r. split; [|split].
    + change (match lgo p 0 ts with Some chs => join_node p 0 false [] [] chs | None => None end = Some r).
      now rewrite Hc.
    + rewrite Hcr. apply (when_all_seq ts _ Hne Hf).
    + eapply join_node_good; [exact Hr|]. cbn [app]. eapply goodl_weaken; [|exact Hgs]. intros o. apply fromS_below.
  - (* when_all_vector *) destruct (lgo_good p ts H Hw 0) as (chs & Hc & Hf & Hl & Hgs).
    pose proof (join_node_some p 0 true [] [] chs (or_introl eq_refl)) as (r & Hr & Hcr).
    exists r. split; [|split].
    + cbn [lrun]. change (match lgo p 0 ts with Some chs => join_node p 0 true [] [] chs | None => None end = Some r).
      now rewrite Hc.
    + rewrite Hcr. destruct ts as [|t0 ts0].
      * destruct chs; [reflexivity|discriminate].
      * apply (when_all_seq (t0 :: ts0) _ ltac:(discriminate) Hf).
    + eapply join_node_good; [exact Hr|]. cbn [app]. eapply goodl_weaken; [|exact Hgs]. intros o. apply fromS_below.
  - (* split *) destruct Hw as [Hn Hw]. destruct (IHt Hw (0 :: p)) as (pr & Hr & Hs & Hg).
    destruct n as [|m]; [congruence|]. cbn [lrun]. rewrite Hr.
    replace (1 + Z.of_nat (S m) - 1 - Z.of_nat (S m))%Z with 0%Z by lia.
    pose proof (join_node_some p 1 true ([New (p, KShared); RefInc p] ++ n_con pr) (shared_release p 0)
                (map (consumer p true pr) (seq 0 (S m))) (or_introl eq_refl)) as (r & Hr' & Hcr).
    exists r. split; [exact Hr'|split].
    + rewrite Hcr, map_n_c_consumers. cbn [sigs]. rewrite Hs, consumer_events_single, indexed_ilist.
      rewrite <- (repeat_length (n_c pr) (S m)) at 1. apply wav_run_seq.
    + eapply join_node_good; [exact Hr'|]. unfold shared_release. cbn [Z.eqb].
      apply (shared_good p true pr m); [exact Hg|reflexivity|intros x; norm; reflexivity|intros s; reflexivity].
  - (* split_tuple *) destruct (IHt Hw (0 :: p)) as (pr & Hr & Hs & Hg). cbn [lrun]. rewrite Hr.
    set (mk := fun i => let c := consumer p true pr i in
                {| n_con := n_con c; n_pre := n_pre c; n_c := tuple_c i (n_c c); n_res := n_res c; n_post := n_post c |}).
    assert (Hne : [mk 0; mk 1] <> []) by (intros HH; inversion HH).
    pose proof (join_node_some p 1 false ([New (p, KShared); RefInc p] ++ n_con pr) (shared_release p (1 + 2 - 1 - 2)) [mk 0; mk 1]
                (or_intror Hne)) as (r & Hr' & Hcr).
    exists r. split; [exact Hr'|split].
    + rewrite Hcr. cbn [map mk n_c consumer]. rewrite split_tuple_seq.
      pose proof (pipeline_one_signal (SplitTuple t)) as P. cbn [sigs] in *. rewrite Hs, consumer_events_single.
      destruct (n_c pr) as [vs|e|]; [apply split_tuple_val|reflexivity|reflexivity].
    + eapply join_node_good; [exact Hr'|]. unfold shared_release. cbn [Z.sub Z.eqb Z.pos_sub].
      change (flat_map evs [mk 0; mk 1]) with (flat_map evs (map (consumer p true pr) (seq 0 2))).
      apply (shared_good p true pr 1); [exact Hg|reflexivity|intros x; norm; reflexivity|intros s; reflexivity].
  - (* ensure_started *) destruct (IHt Hw (0 :: p)) as (pr & Hr & Hs & Hg). cbn [lrun sigs]. rewrite Hr.
    eexists; split; [reflexivity|split; [cbn [n_c]; now rewrite Hs|]].
    unfold good. eapply (goodl_equiv _ (evs pr ++ shared_local p true ++ [New (p, KState); RefInc p; Del (p, KState); RefDec p])).
    + rewrite (evs_unfold pr). unfold evs, pred_run, shared_local, shared_release; cbn [n_con n_pre n_res n_post]; change (2 - 1 - 1 =? 0)%Z with true; cbv iota.
      norm. apply (Permutation_count_occ obj_dec); intro x. cnt.
    + rewrite (evs_unfold pr). unfold evs, pred_run, shared_local, shared_release; cbn [n_con n_pre n_res n_post]; change (2 - 1 - 1 =? 0)%Z with true; cbv iota.
      norm. apply (Permutation_count_occ obj_dec); intro x. cnt.
    + intros s. rewrite (evs_unfold pr). unfold evs, pred_run, shared_local, shared_release; cbn [n_con n_pre n_res n_post]; change (2 - 1 - 1 =? 0)%Z with true; cbv iota.
      norm. destruct (path_eqb s p); lia.
    + eapply (goodl_app _ (fun o => fst o = p) (fun o => under p (fst o))); [exact Hg| | | |].
      * unfold shared_local, goodl, goodnd; cbn [news dels cref app]; (split; [split; [|split]|]);
          [ repeat (constructor; [cbn [In]; intuition congruence|]); constructor | perm | repeat constructor
          | intro s; destruct (path_eqb s p); lia ].
      * intros o H0 E. cbv beta in H0. rewrite E in H0. now apply not_under_self in H0.
      * intros o H0. eapply under_cons; exact H0.
      * intros o E. cbv beta. rewrite E. apply under_refl.
  - (* drop_value *) unode_case IHt Hw p.
  - (* drop_operation_state *)
    destruct (IHt Hw (0 :: p)) as (ch & Hr & Hs & Hg). cbn [lrun sigs]. rewrite Hr.
    eexists; split; [reflexivity|split].
    + cbn [n_c unode]. rewrite Hs, lift_single. destruct (n_c ch); reflexivity.
    + apply unode_good; [exact Hg|]. destruct (n_c ch); cbn [drop_recv r_ev r_res r_post plain app]; local_good.
  - (* require_started *) unode_case IHt Hw p.
  - (* unpack *) unode_case IHt Hw p.
  - (* continues_on *)
    destruct (IHt Hw (0 :: p)) as (ch & Hr & Hs & Hg). cbn [lrun sigs]. rewrite Hr.
    eexists; split; [reflexivity|split].
    + cbn [n_c unode]. rewrite Hs, lift_single. destruct (n_c ch); reflexivity.
    + apply unode_good; [exact Hg|]. destruct (n_c ch); cbn [sched_recv leaf n_con n_pre n_res n_post n_c r_ev r_res r_post plain app]; local_good.
  - (* bulk *) unode_case IHt Hw p.
  - (* any_sender *) unode_case IHt Hw p.
Qed.

(* ------------------------------------------------------------------ the ledger of a whole run *)
Theorem ledger_balanced : forall t, wfl t ->
  exists r, lrun t [] = Some r /\ sigs t = [Sig (n_c r)] /\
    forall rd, let tr := ltrace rd r in
      NoDup (news tr) /\ NoDup (dels tr) /\ Permutation (news tr) (dels tr) /\ forall s, cref s tr = 0%Z.
Proof.
  intros t Hw. destruct (lrun_good t Hw []) as (r & Hr & Hs & ((G1 & G2 & G3) & G4)).
  exists r. split; [exact Hr|split; [exact Hs|]]. intros rd tr.
  assert (Pn : Permutation (news (evs r)) (news tr)).
  { subst tr. unfold ltrace, evs. destruct rd; norm; apply (Permutation_count_occ obj_dec); intro x; cnt. }
  assert (Pd : Permutation (dels (evs r)) (dels tr)).
  { subst tr. unfold ltrace, evs. destruct rd; norm; apply (Permutation_count_occ obj_dec); intro x; cnt. }
  assert (N1 : NoDup (news tr)) by (eapply Permutation_NoDup; eassumption).
  assert (P : Permutation (news tr) (dels tr)) by (rewrite <- Pn, <- Pd; exact G2).
  repeat split; auto.
  - eapply Permutation_NoDup; eassumption.
  - intros s. specialize (G4 s). revert G4. subst tr. unfold ltrace, evs. destruct rd; norm; lia.
Qed.

(* a split sender that is never connected keeps its shared state (and the predecessor's
   operation state in it) alive: the reference held by os's receiver is never released *)
Theorem ledger_split_unstarted_leaks :
  exists tr, ledger false (Split 0 (Just [1%N])) = Some tr /\
    In ([0], KLeaf) (news tr) /\ ~ In ([0], KLeaf) (dels tr) /\ cref [] tr = 1%Z.
Proof.
  eexists. split; [vm_compute; reflexivity|]. cbn. repeat split; auto.
  intros [H|[H|[]]]; discriminate.
Qed.
