(* Proofs/DequeProgOrder.v — per-thread program conformance of the deque model's log: in every
   reachable state, for every thread t, the operations thread t has reported (its entries of [dlog],
   oldest first) followed by the operations it still has to do are exactly its program.  (A push
   reports at its anchor CAS and is removed from the to-do list when push_left/right returns, i.e.
   after its stabilize: [remaining] accounts for that.)  Thread-local reasoning, except that the
   register invariant [J] of Proofs/DequeAbaDefs.v is used to exclude the nullptr-dereference pc.  Together with C17_deque_linearizable (lin|t = pending ++ dlog|t) this makes
   the linearization a linearization OF THE PROGRAMS. *)
From Coq Require Import List NArith Bool Lia Arith.
From Pika Require Import Base.Conc Model.IndexQueue Model.DequeSpec Model.Deque Model.DequeLin
  Proofs.DequeProofs Proofs.DequeConcDefs Proofs.DequeConcStab Proofs.DequeLinProofs
  Proofs.DequeAbaDefs Proofs.DequeAbaStab Proofs.DequeAbaProofs Proofs.DequeAbaLin.
Import ListNotations.
Local Open Scope N_scope.

Definition is_kdone (k : kont) : bool := match k with KDone => true | _ => false end.

(* the push of the operation in progress has already been reported *)
Definition reported (l : dq_local) : bool :=
  match dpc l with
  | S1 k _ _ | S2 k _ _ _ | S3 k _ _ _ | S4 k _ _ _ _ _ | S5 k _ _ _ _ _ | S6 k _ _ => is_kdone k
  | _ => false
  end.

Definition remaining (l : dq_local) : list dop := if reported l then tl (dtodo l) else dtodo l.

Definition kwf (td : list dop) (k : kont) : Prop :=
  match k with
  | KDone => exists s v rest, td = Push s v :: rest
  | KPush s _ => exists v rest, td = Push s v :: rest
  | KPop s => exists rest, td = Pop s :: rest
  end.

Definition WF (l : dq_local) : Prop :=
  match dpc l with
  | DIdle | DCrashed => True
  | PInit s v _ => exists rest, dtodo l = Push s v :: rest
  | PLoad s _ | PStore s _ _ | PCas s _ _ _ => exists v rest, dtodo l = Push s v :: rest
  | QLoad s | QChk s _ | QLink s _ | QCas s _ _ | QFree s _ => exists rest, dtodo l = Pop s :: rest
  | S1 k _ _ | S2 k _ _ _ | S3 k _ _ _ | S4 k _ _ _ _ _ | S5 k _ _ _ _ _ | S6 k _ _ => kwf (dtodo l) k
  end.

Definition PO (progs : nat -> list dop) (g : dq_shared) (ls : locals dq_local) : Prop :=
  forall t, WF (ls t) /\ log_ops (of_tid t (dlog g)) ++ remaining (ls t) = progs t.

Lemma log_ops_cons e lg : log_ops (e :: lg) = log_ops lg ++ [dv_op e].
Proof. reflexivity. Qed.

Lemma of_tid_cons t e lg :
  of_tid t (e :: lg) = if Nat.eqb (dv_tid e) t then e :: of_tid t lg else of_tid t lg.
Proof. reflexivity. Qed.

(* what one step of thread t does, seen from thread t alone *)
Definition StepPO (t : nat) (g : dq_shared) (l : dq_local) (g' : dq_shared) (l' : dq_local) : Prop :=
  WF l' /\
  ((dlog g' = dlog g /\ remaining l' = remaining l) \/
   (exists o r, dlog g' = {| dv_tid := t; dv_op := o; dv_res := r |} :: dlog g /\ remaining l = o :: remaining l')).

Ltac rmn := unfold remaining, reported, complete, goto; cbn [dpc dtodo tl is_kdone]; try reflexivity; try assumption; try (symmetry; assumption).

Lemma resume_po t g l k : kwf (dtodo l) k -> remaining l = (if is_kdone k then tl (dtodo l) else dtodo l) ->
  StepPO t g l (fst (resume g l k)) (snd (resume g l k)).
Proof.
  intros HK HR. destruct k as [|s n|s]; cbn [resume fst snd]; cbn [is_kdone] in HR.
  - split; [exact I|]. left. split; [reflexivity|]. rewrite HR. rmn.
  - destruct HK as (v & rest & E). split; [cbn; eauto|]. left. split; [reflexivity|]. rewrite HR. rmn.
  - destruct HK as (rest & E). split; [cbn; eauto|]. left. split; [reflexivity|]. rewrite HR. rmn.
Qed.

Lemma pop_load_po t g l s rest : dtodo l = Pop s :: rest -> remaining l = dtodo l ->
  StepPO t g l (fst (pop_load g t l s)) (snd (pop_load g t l s)).
Proof.
  intros E HR. unfold pop_load.
  destruct (aend s (anc g) =? 0); [|destruct (al (anc g) =? ar (anc g)); [|destruct (ast (anc g))]]; cbn [fst snd].
  - split; [exact I|]. right. exists (Pop s), None. split; [reflexivity|]. rewrite HR, E. rmn. rewrite E. reflexivity.
  - split; [cbn; eauto|]. left. split; [reflexivity|]. rewrite HR. rmn.
  - split; [cbn; eauto|]. left. split; [reflexivity|]. rewrite HR. rmn.
  - split; [cbn; eauto|]. left. split; [reflexivity|]. rewrite HR. rmn.
  - split; [cbn; eauto|]. left. split; [reflexivity|]. rewrite HR. rmn.
Qed.

Lemma push_load_po t g l s n v rest : dtodo l = Push s v :: rest -> remaining l = dtodo l ->
  StepPO t g l (fst (push_load g l s n)) (snd (push_load g l s n)).
Proof.
  intros E HR. unfold push_load.
  destruct (aend s (anc g) =? 0); [|destruct (ast (anc g))]; cbn [fst snd];
    (split; [cbn; eauto|]); left; (split; [reflexivity|]); rewrite HR; rmn.
Qed.

Ltac pcsplit l :=
  case_eq (dpc l);
  [ | |intros s v n|intros s n|intros s n lrs|intros s n lrs emp|intros s|intros s lrs|intros s lrs
    |intros s lrs np|intros s a|intros k s lrs|intros k s lrs prev|intros k s lrs prev
    |intros k s lrs prev pn e|intros k s lrs prev pn e|intros k s lrs]; intros PC.

Lemma tstep_po t g c pend l : J g c pend l -> WF l ->
  StepPO t g l (fst (dq_tstep tt t g l)) (snd (dq_tstep tt t g l)).
Proof.
  intros HJ HW. unfold WF in HW. unfold J in HJ.
  assert (RM : forall b, reported l = b -> remaining l = if b then tl (dtodo l) else dtodo l)
    by (intros b <-; reflexivity).
  pcsplit l; rewrite PC in HW, HJ; unfold dq_tstep; rewrite PC;
    assert (RP := RM _ ltac:(unfold reported; rewrite PC; reflexivity)); cbn beta iota in RP.
  - (* DIdle *)
    destruct (dtodo l) as [|[s v|s] rest] eqn:TD.
    + cbn [fst snd]. split; [unfold WF; rewrite PC; exact I|]. left. auto.
    + replace (let '(g', a) := fl_alloc g in (g', goto l (PInit s v a)))
        with (fst (fl_alloc g), goto l (PInit s v (snd (fl_alloc g)))) by (destruct (fl_alloc g); reflexivity).
      cbn [fst snd]. split; [cbn; eauto|]. left. split.
      * unfold fl_alloc. destruct (pool g =? 0); reflexivity.
      * rewrite RP. rmn.
    + apply pop_load_po with (rest := rest); [exact TD|rewrite RP; rmn].
  - contradiction.
  - destruct HW as (rest & E). cbn [fst snd]. split; [cbn; eauto|]. left. split; [reflexivity|]. rewrite RP. rmn.
  - destruct HW as (v & rest & E). apply push_load_po with (v := v) (rest := rest); assumption.
  - destruct HW as (v & rest & E). cbn [fst snd]. split; [cbn; eauto|]. left. split; [reflexivity|]. rewrite RP. rmn.
  - destruct HW as (v & rest & E). destruct (anchor_eqb (anc g) lrs); [destruct emp|]; cbn [fst snd].
    + split; [exact I|]. right. exists (Push s v), None. unfold cur_op. rewrite E. cbn [hd]. split; [reflexivity|].
      rewrite RP, E. rmn. rewrite ?E. reflexivity.
    + split; [cbn; eauto|]. right. exists (Push s v), None. unfold cur_op. rewrite E. cbn [hd]. split; [reflexivity|].
      rewrite RP, E. rmn. rewrite ?E. reflexivity.
    + split; [cbn; eauto|]. left. split; [reflexivity|]. rewrite RP. rmn.
  - destruct HW as (rest & E). apply pop_load_po with (rest := rest); assumption.
  - destruct HW as (rest & E). destruct (anchor_eqb (anc g) lrs); cbn [fst snd];
      (split; [cbn; eauto|]); left; (split; [reflexivity|]); rewrite RP; rmn.
  - destruct HW as (rest & E). cbn [fst snd]. split; [cbn; eauto|]. left. split; [reflexivity|]. rewrite RP. rmn.
  - destruct HW as (rest & E). destruct (anchor_eqb (anc g) lrs); cbn [fst snd];
      (split; [cbn; eauto|]); left; (split; [reflexivity|]); rewrite RP; rmn.
  - destruct HW as (rest & E). cbn [fst snd]. split; [exact I|]. right. eexists (Pop s), _. split; [reflexivity|].
    rewrite RP, E. rmn. rewrite ?E. reflexivity.
  - (* S1 *)
    destruct HJ as (_ & (_ & _ & Nz)). apply N.eqb_neq in Nz. rewrite Nz. cbn [fst snd].
    split; [exact HW|]. left. split; [reflexivity|]. rewrite RP. rmn.
  - (* S2 *)
    destruct (anchor_eqb (anc g) lrs); [|apply resume_po; assumption]. cbn [fst snd].
    split; [exact HW|]. left. split; [reflexivity|]. rewrite RP. rmn.
  - (* S3 *)
    destruct HJ as (_ & _ & _ & Nz). apply N.eqb_neq in Nz. rewrite Nz.
    destruct (lptr (outward s (heap g (lptr prev))) =? aend s lrs); cbn [fst snd];
      (split; [exact HW|]); left; (split; [reflexivity|]); rewrite RP; rmn.
  - (* S4 *)
    destruct (anchor_eqb (anc g) lrs); [|apply resume_po; assumption]. cbn [fst snd].
    split; [exact HW|]. left. split; [reflexivity|]. rewrite RP. rmn.
  - (* S5 *)
    destruct (link_eqb (outward s (heap g (lptr prev))) pn); [|apply resume_po; assumption]. cbn [fst snd].
    split; [exact HW|]. left. split; [reflexivity|]. rewrite RP. rmn.
  - (* S6 *)
    destruct (anchor_eqb (anc g) lrs).
    + destruct (resume_po t (set_anc g {| al := al lrs; ar := ar lrs; ast := Stable; atag := atag lrs + 1 |}) l k HW RP) as [W H].
      split; [exact W|]. destruct k; exact H.
    + apply resume_po; assumption.
Qed.

(* ------------------------------------------------------------------ the run-level statement *)
Definition InvPO (progs : nat -> list dop) (g : dq_shared) (ls : locals dq_local) : Prop :=
  (exists c pend, Core g ls c pend) /\ PO progs g ls.

Lemma of_tid_other t t' o r lg : t' <> t ->
  of_tid t' ({| dv_tid := t; dv_op := o; dv_res := r |} :: lg) = of_tid t' lg.
Proof. intros H. rewrite of_tid_cons. cbn [dv_tid]. apply Nat.eqb_neq in H. rewrite Nat.eqb_sym, H. reflexivity. Qed.

Lemma of_tid_self t o r lg :
  of_tid t ({| dv_tid := t; dv_op := o; dv_res := r |} :: lg) = {| dv_tid := t; dv_op := o; dv_res := r |} :: of_tid t lg.
Proof. rewrite of_tid_cons. cbn [dv_tid]. rewrite Nat.eqb_refl. reflexivity. Qed.

Lemma invPO_step progs o t g (ls : locals dq_local) : InvPO progs g ls ->
  InvPO progs (fst (dq_tstep o t g (ls t))) (upd ls t (snd (dq_tstep o t g (ls t)))).
Proof.
  destruct o. intros [(c & pend & HC) HP]. split.
  - destruct (core_step t g ls c pend HC) as (c' & pend' & lab & HC' & _). exists c', pend'. exact HC'.
  - destruct (tstep_po t g c pend (ls t) (co_J _ _ _ _ HC t) (proj1 (HP t))) as [W H].
    intros t'. destruct (Nat.eq_dec t' t) as [->|Hne].
    + rewrite upd_same. split; [exact W|]. destruct H as [[Ed Er]|(o & r & Ed & Er)].
      * rewrite Ed, Er. apply (proj2 (HP t)).
      * rewrite Ed, of_tid_self, log_ops_cons. cbn [dv_op]. rewrite <- app_assoc. cbn [app]. rewrite <- Er.
        apply (proj2 (HP t)).
    + rewrite upd_other by exact Hne. split; [apply (proj1 (HP t'))|]. destruct H as [[Ed _]|(o & r & Ed & _)].
      * rewrite Ed. apply (proj2 (HP t')).
      * rewrite Ed, of_tid_other by exact Hne. apply (proj2 (HP t')).
Qed.

Theorem deque_program_order k progs sched t :
  let g := fst (dq_run sched k progs) in let ls := snd (dq_run sched k progs) in
  log_ops (of_tid t (dlog g)) ++ remaining (ls t) = progs t.
Proof.
  cbv zeta. unfold dq_run.
  assert (HI : InvPO progs (fst (run dq_tstep sched (dq_init k, dq_locals progs))) (snd (run dq_tstep sched (dq_init k, dq_locals progs)))).
  { apply (run_inv _ _ _ dq_tstep (InvPO progs)).
    - intros o t0 g ls H. apply invPO_step. exact H.
    - split; [exists [], []; apply init_core|]. intros t0. split; [exact I|]. reflexivity. }
  apply (proj2 (proj2 HI t)).
Qed.

(* at quiescence the linearization, restricted to a thread, is that thread's program *)
Theorem deque_quiescent_program_order k progs sched :
  let ci := dq_run_i sched k progs in
  let ls := snd (dq_run sched k progs) in
  let lin := glin (snd (fst ci)) in
  (forall t, dq_done (ls t) = true) -> forall t, log_ops (of_tid t lin) = progs t.
Proof.
  cbv zeta. intros Hd t. destruct (dq_run_i_erase k progs sched) as [E1 E2].
  destruct (proj2 (deque_main k progs sched)) as (c & pend & HC & _ & _ & HL2). rewrite E1, E2 in *.
  pose proof (deque_program_order k progs sched t) as P. cbv zeta in P.
  pose proof (no_crash _ _ _ _ t HC) as NC. specialize (Hd t). unfold dq_done in Hd.
  rewrite HL2. unfold pending. unfold remaining, reported in P.
  destruct (dpc (snd (dq_run sched k progs) t)) eqn:PC; try discriminate; [|contradiction].
  destruct (dtodo (snd (dq_run sched k progs) t)) eqn:TD; [|discriminate].
  cbn [app]. rewrite app_nil_r in P. exact P.
Qed.
