(* Proofs/SchedAcceptProofs.v — C01 / C02: completeness of the trace acceptor with respect to the
   model.  For every schedule and every incarnation i the chain of state-word transitions that
   the model's own log contains for i (chain_of i (log g): the projection the harness builds from
   hooks 101–104 on the real runtime) is accepted by `accepts`, ends at the current word of the
   object i is bound to, and has exactly as many pending->active transitions as the log has body
   entries of i.  So the acceptor can never reject a behaviour of the proved model. *)
From Coq Require Import List NArith Bool Arith Lia.
From Pika Require Import Base.Conc Gen.GenEnums Model.Sched Proofs.SchedProofs Proofs.SchedWakeProofs
  Proofs.SchedRecycleProofs Proofs.SchedDeltaProofs Proofs.SchedAbortProofs.
Import ListNotations.

(* ------------------------------------------------------------------ chains *)
Fixpoint chain_end (cur : word) (l : list (wsite * word * word)) : word :=
  match l with [] => cur | (_, _, n) :: r => chain_end n r end.

Lemma chain_ok_app w l1 l2 : chain_ok w (l1 ++ l2) = chain_ok w l1 && chain_ok (chain_end w l1) l2.
Proof.
  revert w. induction l1 as [|[[s o] n] r IH]; intros w; [reflexivity|].
  cbn [app chain_ok chain_end]. rewrite IH. now rewrite andb_assoc.
Qed.
Lemma chain_end_app w l1 l2 : chain_end w (l1 ++ l2) = chain_end (chain_end w l1) l2.
Proof. revert w. induction l1 as [|[[s o] n] r IH]; intros w; [reflexivity | apply IH]. Qed.
Lemma activations_app l1 l2 : activations (l1 ++ l2) = activations l1 + activations l2.
Proof. unfold activations. now rewrite filter_app, app_length. Qed.

(* chain_of and enters_of through the projections of SchedDeltaProofs *)
Definition cf (i : nat) (x : nat * wsite * word * word) : list (wsite * word * word) :=
  let '(j, s, o, n) := x in if Nat.eqb j i then [(s, o, n)] else [].

Lemma flat_map_rev1 {A B} (f : A -> list B) l :
  (forall e, rev (f e) = f e) -> flat_map f (rev l) = rev (flat_map f l).
Proof.
  intros H. induction l as [|e l IH]; [reflexivity|].
  cbn [rev flat_map]. rewrite flat_map_app, IH. cbn [flat_map]. rewrite app_nil_r, rev_app_distr, H. reflexivity.
Qed.
Lemma wproj_rev e : rev (wproj e) = wproj e.
Proof. destruct e; reflexivity. Qed.

Lemma chain_of_seg i l : chain_of i l = flat_map (cf i) (rev (wlog l)).
Proof.
  unfold chain_of, wlog. rewrite <- (flat_map_rev1 wproj l wproj_rev).
  induction (rev l) as [|e m IH]; [reflexivity|].
  cbn [flat_map]. rewrite flat_map_app, <- IH. f_equal.
  destruct e; cbn; try reflexivity. now rewrite app_nil_r.
Qed.
Lemma chain_of_app i l lg : chain_of i (l ++ lg) = chain_of i lg ++ chain_of i l.
Proof. unfold chain_of. now rewrite rev_app_distr, flat_map_app. Qed.

Lemma enters_of_app i l lg : enters_of i (l ++ lg) = enters_of i l + enters_of i lg.
Proof. unfold enters_of, phases_of. now rewrite flat_map_app, filter_app, app_length. Qed.
Lemma enters_of_seg i l : enters_of i l = count_occ Nat.eq_dec (elog l) i.
Proof.
  unfold enters_of, phases_of, elog. induction l as [|e l IH]; [reflexivity|].
  cbn [flat_map]. rewrite filter_app, app_length, count_occ_app, IH. f_equal.
  destruct e; cbn; try reflexivity.
  - destruct (Nat.eq_dec t i) as [->|Hne]; [now rewrite Nat.eqb_refl|].
    apply Nat.eqb_neq in Hne. now rewrite Hne.
  - destruct (Nat.eqb t i); reflexivity.
Qed.

(* ------------------------------------------------------------------ the invariant *)
Record CInv (g : G) : Prop := {
  c_obj : forall x, x < ntasks g ->
          chain_ok w_init (chain_of (gid g x) (log g)) = true /\
          chain_end w_init (chain_of (gid g x) (log g)) = tw_of g x;
  c_acc : forall i, accepts (chain_of i (log g)) = true;
  c_fresh : forall i, ninc g <= i -> chain_of i (log g) = [];
  c_act : forall i, activations (chain_of i (log g)) = enters_of i (log g);
  c_push : forall i w, In (EvPush i w) (log g) -> push_ok w = true
}.

Lemma CInv_step g g' : LogInv g -> sdelta g g' -> CInv g -> CInv g'.
Proof.
  intros HL (l & El & Hp & _ & _ & Hsh) [C1 C2 C3 C4 C5].
  assert (Hch : forall i, chain_of i (log g') = chain_of i (log g) ++ flat_map (cf i) (rev (wlog l))).
  { intros i. rewrite El, chain_of_app, (chain_of_seg i l). reflexivity. }
  assert (Hen : forall i, enters_of i (log g') = count_occ Nat.eq_dec (elog l) i + enters_of i (log g)).
  { intros i. rewrite El, enters_of_app, (enters_of_seg i l). reflexivity. }
  assert (Hpush : forall i w, In (EvPush i w) (log g') -> push_ok w = true).
  { intros i w Hin. rewrite El in Hin. apply in_app_or in Hin. destruct Hin as [Hin|Hin]; [|eapply C5; eauto].
    unfold push_ok. rewrite (Hp i w Hin). reflexivity. }
  destruct Hsh as [(Eg & Ei & En & Ew & Hwl & Hel)|[(y & s & o & n & Hy & Eg & Ei & En & Eo & Enw & Eoth & Htr & Hwl & Hel)|
                   (x & Hx & Eg & Ei & Ex & Eoth & Hwl & Hel)]].
  - (* quiet *)
    assert (Hch' : forall i, chain_of i (log g') = chain_of i (log g)).
    { intros i. rewrite Hch, Hwl. cbn. now rewrite app_nil_r. }
    constructor; auto.
    + intros x Hx. rewrite En in Hx. rewrite Eg, Hch', Ew. now apply C1.
    + intros i. rewrite Hch'. apply C2.
    + intros i Hi. rewrite Hch'. apply C3. lia.
    + intros i. rewrite Hch', Hen, Hel. cbn. apply C4.
  - (* one word transition of object y *)
    assert (Hch' : forall i, chain_of i (log g') =
                     chain_of i (log g) ++ (if Nat.eqb (gid g y) i then [(s, o, n)] else [])).
    { intros i. rewrite Hch, Hwl. cbn. now rewrite app_nil_r. }
    destruct (C1 y Hy) as [Hok Hend].
    assert (Hy' : chain_ok w_init (chain_of (gid g y) (log g')) = true /\
                  chain_end w_init (chain_of (gid g y) (log g')) = n).
    { rewrite Hch', Nat.eqb_refl, chain_ok_app, chain_end_app, Hok, Hend, Eo. cbn.
      rewrite word_eqb_refl, Htr. split; reflexivity. }
    constructor; auto.
    + intros x Hx. rewrite En in Hx. rewrite Eg. destruct (Nat.eq_dec x y) as [->|Hne].
      * rewrite Enw. exact Hy'.
      * assert (Hg : Nat.eqb (gid g y) (gid g x) = false).
        { apply Nat.eqb_neq. intros E. apply Hne. symmetry. now apply (l_inj _ HL). }
        rewrite Hch', Hg, app_nil_r, (Eoth x Hne). now apply C1.
    + intros i. destruct (Nat.eq_dec (gid g y) i) as [<-|Hne]; [apply Hy'|].
      rewrite Hch'. apply Nat.eqb_neq in Hne. rewrite Hne, app_nil_r. apply C2.
    + intros i Hi. rewrite Hch'. assert (Hg := l_gid _ HL y Hy).
      assert (Hne : Nat.eqb (gid g y) i = false) by (apply Nat.eqb_neq; lia).
      rewrite Hne, app_nil_r. apply C3. lia.
    + intros i. rewrite Hch', Hen, Hel, activations_app, C4.
      destruct (Nat.eqb (gid g y) i) eqn:E.
      * apply Nat.eqb_eq in E. subst i. destruct s; cbn; try lia.
        destruct (Nat.eq_dec (gid g y) (gid g y)); [lia | contradiction].
      * apply Nat.eqb_neq in E. destruct s; cbn; try lia.
        destruct (Nat.eq_dec (gid g y) i); [contradiction | lia].
  - (* a thread object is created / rebound *)
    assert (Hch' : forall i, chain_of i (log g') = chain_of i (log g)).
    { intros i. rewrite Hch, Hwl. cbn. now rewrite app_nil_r. }
    constructor; auto.
    + intros z Hz. rewrite Eg. destruct (Nat.eq_dec z x) as [->|Hne].
      * rewrite upd_same, Hch', (C3 (ninc g) (le_n _)), Ex. split; reflexivity.
      * rewrite upd_other, Hch', (Eoth z Hne) by exact Hne. apply C1.
        destruct Hx as [[-> E]|[_ E]]; lia.
    + intros i. rewrite Hch'. apply C2.
    + intros i Hi. rewrite Hch'. apply C3. lia.
    + intros i. rewrite Hch', Hen, Hel. cbn. apply C4.
Qed.

Lemma CInv_init : CInv init_g.
Proof. constructor; cbn; auto; try (intros; lia); try (intros; reflexivity). Qed.

Theorem CInv_reach sched ext : CInv (fst (sched_run sched ext)).
Proof.
  unfold sched_run.
  apply (run_inv _ _ _ tstep (fun g ls => AllInv g ls /\ CInv g)).
  - intros o t g ls (HA & HC). split; [now apply AllInv_step|].
    eapply CInv_step; [apply HA | apply (tstep_sdelta o t g ls (proj1 HA)) | exact HC].
  - split; [apply (AllInv_reach [] ext) | apply CInv_init].
Qed.

(* ------------------------------------------------------------------ acceptor completeness *)
Theorem accepts_complete sched ext i :
  let g := fst (sched_run sched ext) in
  accepts (chain_of i (log g)) = true /\
  activations (chain_of i (log g)) = enters_of i (log g).
Proof. intros g. split; [apply (c_acc _ (CInv_reach sched ext)) | apply (c_act _ (CInv_reach sched ext))]. Qed.

(* the accepted chain is the whole history of the word: it ends at the current word of the object
   the incarnation is bound to; an incarnation that does not exist yet has the empty chain *)
Theorem chain_exact sched ext :
  let g := fst (sched_run sched ext) in
  (forall x, x < ntasks g -> chain_end w_init (chain_of (gid g x) (log g)) = tw_of g x) /\
  (forall i, ninc g <= i -> chain_of i (log g) = []).
Proof.
  intros g. split; [intros x Hx; apply (c_obj _ (CInv_reach sched ext) x Hx) | apply (c_fresh _ (CInv_reach sched ext))].
Qed.

(* the C02 vocabulary: chains (with the set_thread_state transitions, site SiteSet = hook 104),
   the queue discipline (a push is logged with a pending word: hook 120) and the abort records of
   set_active_state (hook 207: states equal, tags different — the harness counts an abort record
   with equal tags as unmodelled) *)
Theorem accepts_complete_c02 sched ext :
  let lg := log (fst (sched_run sched ext)) in
  (forall i, accepts (chain_of i lg) = true /\ activations (chain_of i lg) = enters_of i lg) /\
  (forall i w, In (EvPush i w) lg -> push_ok w = true) /\
  (forall h i prev cur, In (EvAbort h i prev cur) lg ->
     st cur = st prev /\ N.eqb (tag prev) (tag cur) = false /\ (tag prev < tag cur)%N).
Proof.
  intros lg. split; [intros i; apply accepts_complete|]. split; [apply (c_push _ (CInv_reach sched ext))|].
  intros h i prev cur Hin. destruct (helper_abort_log_sound sched ext h i prev cur Hin) as (H1 & H2 & H3 & _).
  split; [congruence|]. split; [apply N.eqb_neq; lia | exact H3].
Qed.
