(* Proofs/CondVarAbortGlobal.v — C07, round p12a: the global invariant of abort_all (Model/CondVarAbort.v) left open in round w11c.
   GI = the accounting invariant ABinv
      + roles (the aborter runs A-points, everybody else Q-points)
      + the internal lock I: its holder is at a point inside a critical section and vice versa
      + W1  a BLOCKED waiter is at QSusp and its entry is still pending (in queue_, in the aborter's local list, or the one
            being aborted right now)                                                  — the pc-to-queue-membership invariant
      + W2  a waiter that has pushed its entry and not yet suspended has it pending or already holds the wake-up token
      + for pika tasks: never more yield_aborted exceptions (plus the undelivered reason) than abort() calls. *)
From Coq Require Import List Bool Arith Lia.
From Pika Require Import Base.Conc Base.Agent Model.CondVarAbort Model.CondVarAbortStuck Proofs.CondVarAbortProofs.
Import ListNotations.

Record GI (a : nat) (isos : nat -> bool) (g : ab_shared) (ls : locals ab_local) : Prop := {
  gi_ab : ABinv a g ls;
  gi_roleq : forall t, t <> a -> is_q (apc (ls t)) = true;
  gi_rolea : is_q (apc (ls a)) = false;
  gi_lk1 : forall h, ai g = Some h -> (if Nat.eqb h a then holds_a (apc (ls h)) else holds_q (apc (ls h))) = true;
  gi_lk2 : forall t, (if Nat.eqb t a then holds_a (apc (ls t)) else holds_q (apc (ls t))) = true -> ai g = Some t;
  gi_w1 : forall t, t <> a -> blocked (aag g t) = true -> apc (ls t) = QSusp /\ 1 <= pending g (apc (ls a)) t;
  gi_w2 : forall t, t <> a -> apc (ls t) = QPreSusp -> 1 <= pending g (apc (ls a)) t \/ tok (aag g t) = true;
  gi_thr : forall t, t <> a -> isos t = false -> thrown g t + (if areason g t then 1 else 0) <= aborts g t
}.

Lemma count_app_other : forall l t x, x <> t -> count_occ Nat.eq_dec (l ++ [t]) x = count_occ Nat.eq_dec l x.
Proof. intros l t x N. rewrite count_app_one. assert (E : Nat.eqb t x = false) by (apply Nat.eqb_neq; congruence). rewrite E. lia. Qed.

Lemma count_app_same : forall l t, count_occ Nat.eq_dec (l ++ [t]) t = S (count_occ Nat.eq_dec l t).
Proof. intros l t. rewrite count_app_one, Nat.eqb_refl. lia. Qed.

Lemma upd_o : forall (A : Type) (f : nat -> A) t v x, x <> t -> upd f t v x = f x.
Proof. intros A f t v x N. unfold upd. apply Nat.eqb_neq in N. rewrite N. reflexivity. Qed.

Lemma upd_s : forall (A : Type) (f : nat -> A) t v, upd f t v t = v.
Proof. intros A f t v. unfold upd. rewrite Nat.eqb_refl. reflexivity. Qed.

(* ---- a step of a waiter t <> a that leaves queue_, the local list and the counters alone ---- *)
Ltac ex_falso_role H P := rewrite P in H; cbn in H; discriminate H.

(* frame for all threads other than the one that moved: their locals are unchanged *)
Lemma gi_frame_locals : forall (ls : locals ab_local) t l x, x <> t -> upd ls t l x = ls x.
Proof. intros ls t l x N. apply upd_o. exact N. Qed.

Lemma ab_step_gi : forall a isos spur t g (ls : locals ab_local), GI a isos g ls ->
  GI a isos (fst (ab_tstep a isos spur t g (ls t))) (upd ls t (snd (ab_tstep a isos spur t g (ls t)))).
Proof.
  intros a isos spur t g ls I.
  pose proof (ab_step_inv a isos spur t g ls (gi_ab _ _ _ _ I)) as AB'.
  destruct I as [AB Rq Ra L1 L2 W1 W2 TH]. destruct AB as [ACC BP].
  assert (Lh : forall h, ai g = Some h -> h = a -> holds_a (apc (ls a)) = true).
  { intros h H E. specialize (L1 h H). subst h. rewrite Nat.eqb_refl in L1. exact L1. }
  assert (Lq : forall h, ai g = Some h -> h <> a -> holds_q (apc (ls h)) = true).
  { intros h H E. specialize (L1 h H). apply Nat.eqb_neq in E. rewrite E in L1. exact L1. }
  assert (Ha : holds_a (apc (ls a)) = true -> ai g = Some a).
  { intros H. apply L2. rewrite Nat.eqb_refl. exact H. }
  assert (Hq : forall x, x <> a -> holds_q (apc (ls x)) = true -> ai g = Some x).
  { intros x N H. apply L2. apply Nat.eqb_neq in N. rewrite N. exact H. }
  constructor; [exact AB'| | | | | | |]; clear AB'; unfold ab_tstep; destruct (Nat.eqb t a) eqn:Eta.
  (* ================= roles ================= *)
  - apply Nat.eqb_eq in Eta. subst t. intros x Nx. rewrite upd_o by exact Nx. exact (Rq x Nx).
  - apply Nat.eqb_neq in Eta. intros x Nx. destruct (Nat.eq_dec x t) as [->|N]; [|rewrite upd_o by exact N; exact (Rq x Nx)].
    rewrite upd_s. specialize (Rq t Eta).
    destruct (apc (ls t)) eqn:P; try discriminate Rq; cbn [fst snd apc lpc];
      repeat match goal with |- context [match ?x with _ => _ end] => destruct x end; cbn [fst snd apc lpc]; rewrite ?P; reflexivity.
  - apply Nat.eqb_eq in Eta. subst t. rewrite upd_s.
    destruct (apc (ls a)) eqn:P; try discriminate Ra; cbn [fst snd apc lpc];
      repeat match goal with |- context [match ?x with _ => _ end] => destruct x end; cbn [fst snd apc lpc]; rewrite ?P; reflexivity.
  - apply Nat.eqb_neq in Eta. rewrite upd_o by congruence. exact Ra.
  (* ================= lock, direction 1 ================= *)
  - apply Nat.eqb_eq in Eta. subst t. intros h.
    destruct (apc (ls a)) eqn:P; try discriminate Ra; cbn [fst snd apc lpc ai set_i].
    + (* ALockI *) case_eq (ai g); [intros n0 A|intros A]; cbn [fst snd ai set_i lpc].
      * intros H. specialize (L1 h H). destruct (Nat.eqb h a) eqn:E; [apply Nat.eqb_eq in E; subst h; rewrite P in L1; discriminate L1|].
        rewrite upd_o by (apply Nat.eqb_neq; exact E). exact L1.
      * intros H. inversion H; subst h. rewrite Nat.eqb_refl, upd_s. reflexivity.
    + (* ASwap *) pose proof (Ha eq_refl) as A.
      destruct (aq g); cbn [fst snd ai set_i lpc]; [discriminate|]. intros H. rewrite A in H. inversion H; subst h.
      rewrite Nat.eqb_refl, upd_s. reflexivity.
    + (* APop *) pose proof (Ha eq_refl) as A.
      destruct (apend g); cbn [fst snd ai set_i lpc]; [|discriminate]. intros H. rewrite A in H. inversion H; subst h.
      rewrite Nat.eqb_refl, upd_s. reflexivity.
    + (* AAbort *) destruct (isos w && negb (blocked (aag g w))); cbn [fst snd ai lpc]; intros H; specialize (L1 h H);
        (destruct (Nat.eqb h a) eqn:E; [apply Nat.eqb_eq in E; subst h; rewrite P in L1; discriminate L1|]);
        rewrite upd_o by (apply Nat.eqb_neq; exact E); exact L1.
    + (* ARelock *) case_eq (ai g); [intros n0 A|intros A]; cbn [fst snd ai set_i lpc].
      * intros H. specialize (L1 h H). destruct (Nat.eqb h a) eqn:E; [apply Nat.eqb_eq in E; subst h; rewrite P in L1; discriminate L1|].
        rewrite upd_o by (apply Nat.eqb_neq; exact E). exact L1.
      * intros H. inversion H; subst h. rewrite Nat.eqb_refl, upd_s. reflexivity.
    + (* ADone *) intros H. specialize (L1 h H). destruct (Nat.eqb h a) eqn:E; [apply Nat.eqb_eq in E; subst h; rewrite P in L1; discriminate L1|].
      rewrite upd_o by (apply Nat.eqb_neq; exact E). exact L1.
  - apply Nat.eqb_neq in Eta. intros h. specialize (Rq t Eta).
    assert (Keep : ai g = Some h -> (if Nat.eqb h a then holds_a (apc (upd ls t (ls t) h)) else holds_q (apc (upd ls t (ls t) h))) = true).
    { intros H. specialize (L1 h H). destruct (Nat.eq_dec h t) as [->|N]; [rewrite upd_s|rewrite upd_o by exact N]; exact L1. }
    assert (NotMe : forall l', holds_q (apc (ls t)) = false -> ai g = Some h ->
               (if Nat.eqb h a then holds_a (apc (upd ls t l' h)) else holds_q (apc (upd ls t l' h))) = true).
    { intros l' NH H. specialize (L1 h H). destruct (Nat.eq_dec h t) as [->|N]; [|rewrite upd_o by exact N; exact L1].
      apply Nat.eqb_neq in Eta. rewrite Eta in L1. congruence. }
    destruct (apc (ls t)) eqn:P; try discriminate Rq; cbn [fst snd apc lpc ai set_i].
    + (* QLockI *) case_eq (ai g); [intros n0 A|intros A]; cbn [fst snd ai set_i lpc].
      * intros H. apply NotMe; [reflexivity|exact H].
      * intros H. inversion H; subst h. apply Nat.eqb_neq in Eta. rewrite Eta, upd_s. reflexivity.
    + (* QPush *) cbn [ai]. discriminate.
    + (* QPreSusp *) cbn [ai]. intros H. apply NotMe; [reflexivity|exact H].
    + (* QSusp *) destruct (blocked (aag g t) && negb (spur && negb (isos t))); cbn [fst snd ai]; intros H; (apply NotMe; [reflexivity|exact H]).
    + (* QRelock *) case_eq (ai g); [intros n0 A|intros A]; cbn [fst snd ai set_i lpc].
      * intros H. apply NotMe; [reflexivity|exact H].
      * intros H. inversion H; subst h. apply Nat.eqb_neq in Eta. rewrite Eta, upd_s. reflexivity.
    + (* QCheck *) destruct (mem t (aq g)); [|destruct (mem t (apend g))]; cbn [fst snd ai set_i]; discriminate.
    + (* QDone *) intros H. apply NotMe; [reflexivity|exact H].
  (* ================= lock, direction 2 ================= *)
  - apply Nat.eqb_eq in Eta. subst t. intros x.
    destruct (Nat.eq_dec x a) as [->|N].
    + rewrite Nat.eqb_refl, upd_s.
      destruct (apc (ls a)) eqn:P; try discriminate Ra; cbn [fst snd apc lpc ai set_i].
      * case_eq (ai g); [intros n0 A|intros A]; cbn [fst snd ai set_i lpc apc]; [rewrite P; discriminate|reflexivity].
      * pose proof (Ha eq_refl) as A. destruct (aq g); cbn [fst snd ai set_i lpc apc holds_a]; [discriminate|intros _; exact A].
      * pose proof (Ha eq_refl) as A. destruct (apend g); cbn [fst snd ai set_i lpc apc holds_a]; [intros _; exact A|discriminate].
      * destruct (isos w && negb (blocked (aag g w))); cbn [fst snd ai lpc apc holds_a]; rewrite ?P; discriminate.
      * case_eq (ai g); [intros n0 A|intros A]; cbn [fst snd ai set_i lpc apc]; [rewrite P; discriminate|reflexivity].
      * rewrite P. discriminate.
    + assert (E : Nat.eqb x a = false) by (apply Nat.eqb_neq; exact N). rewrite E, upd_o by exact N. intros H.
      pose proof (Hq x N H) as A.
      (* the aborter cannot move the lock while a waiter holds it *)
      destruct (apc (ls a)) eqn:P; try discriminate Ra; cbn [fst snd ai set_i lpc].
      * rewrite A. exact A.
      * pose proof (Ha eq_refl) as A2. congruence.
      * pose proof (Ha eq_refl) as A2. congruence.
      * destruct (isos w && negb (blocked (aag g w))); cbn [fst snd ai]; exact A.
      * rewrite A. exact A.
      * exact A.
  - apply Nat.eqb_neq in Eta. intros x. specialize (Rq t Eta).
    destruct (Nat.eq_dec x t) as [->|N].
    + assert (E : Nat.eqb t a = false) by (apply Nat.eqb_neq; exact Eta). rewrite E, upd_s.
      destruct (apc (ls t)) eqn:P; try discriminate Rq; cbn [fst snd apc lpc ai set_i].
      * case_eq (ai g); [intros n0 A|intros A]; cbn [fst snd ai set_i lpc apc]; [rewrite P; discriminate|reflexivity].
      * cbn [holds_q]. discriminate.
      * cbn [holds_q]. discriminate.
      * destruct (blocked (aag g t) && negb (spur && negb (isos t))); cbn [fst snd ai apc holds_q]; rewrite ?P; discriminate.
      * case_eq (ai g); [intros n0 A|intros A]; cbn [fst snd ai set_i lpc apc]; [rewrite P; discriminate|reflexivity].
      * destruct (todo (ls t)); cbn [apc holds_q]; discriminate.
      * rewrite P. discriminate.
    + rewrite upd_o by exact N. intros H. pose proof (L2 x H) as A.
      assert (NH : holds_q (apc (ls t)) = false).
      { destruct (holds_q (apc (ls t))) eqn:HH; [|reflexivity]. pose proof (Hq t Eta HH) as A2. congruence. }
      destruct (apc (ls t)) eqn:P; try discriminate Rq; try discriminate NH; cbn [fst snd ai set_i lpc].
      * rewrite A. exact A.
      * exact A.
      * destruct (blocked (aag g t) && negb (spur && negb (isos t))); cbn [fst snd ai]; exact A.
      * rewrite A. exact A.
      * exact A.
  (* ================= W1 ================= *)
  - apply Nat.eqb_eq in Eta. subst t. intros x Nx. rewrite upd_s, upd_o by exact Nx.
    destruct (apc (ls a)) eqn:P; try discriminate Ra; cbn [fst snd apc lpc aag].
    + destruct (ai g); cbn [fst snd apc lpc aag set_i]; rewrite ?P; intros B; destruct (W1 x Nx B) as [W Pe]; (split; [exact W|]);
        unfold pending in *; cbn in *; exact Pe.
    + destruct (aq g) as [|q0 qr] eqn:Q; cbn [fst snd apc lpc aag set_i]; intros B; destruct (W1 x Nx B) as [W Pe]; (split; [exact W|]);
        unfold pending in *; cbn in *; rewrite ?Q, ?BP in *; cbn in *; lia.
    + destruct (apend g) as [|w r] eqn:Q; cbn [fst snd apc lpc aag]; intros B; destruct (W1 x Nx B) as [W Pe]; (split; [exact W|]);
        unfold pending in *; cbn in *; rewrite ?Q in *; cbn [count_occ] in *; [exact Pe|].
      destruct (Nat.eq_dec w x) as [->|N]; [rewrite Nat.eqb_refl; lia|]. apply Nat.eqb_neq in N. rewrite N. lia.
    + destruct (isos w && negb (blocked (aag g w))) eqn:C; cbn [fst snd apc lpc aag]; [rewrite P; exact (W1 x Nx)|].
      destruct (Nat.eq_dec x w) as [->|N].
      * rewrite upd_s. destruct (isos w); cbn; discriminate.
      * rewrite upd_o by exact N. intros B. destruct (W1 x Nx B) as [W Pe]. split; [exact W|].
        unfold pending in *. cbn in *. assert (E : Nat.eqb w x = false) by (apply Nat.eqb_neq; congruence). rewrite E in Pe. lia.
    + destruct (ai g); cbn [fst snd apc lpc aag set_i]; rewrite ?P; intros B; destruct (W1 x Nx B) as [W Pe]; (split; [exact W|]);
        unfold pending in *; cbn in *; exact Pe.
    + rewrite P. exact (W1 x Nx).
  - apply Nat.eqb_neq in Eta. intros x Nx. rewrite (upd_o _ ls t _ a) by congruence. specialize (Rq t Eta).
    assert (NB : forall p, p <> QSusp -> apc (ls t) = p -> blocked (aag g t) = false).
    { intros p Np E. destruct (blocked (aag g t)) eqn:B; [|reflexivity]. destruct (W1 t Eta B) as [W _]. congruence. }
    destruct (Nat.eq_dec x t) as [->|N].
    + rewrite upd_s.
      destruct (apc (ls t)) eqn:P; try discriminate Rq; cbn [fst snd apc lpc aag].
      * intros B. exfalso. assert (X : blocked (aag g t) = false) by (eapply NB; [|reflexivity]; discriminate).
        destruct (ai g); cbn in B; congruence.
      * cbn. intros B. rewrite (NB QPush ltac:(discriminate) eq_refl) in B. discriminate.
      * rewrite upd_s. unfold a_suspend. destruct (tok (aag g t)) eqn:T; cbn [fst blocked]; [discriminate|]. intros _.
        split; [reflexivity|]. destruct (W2 t Eta P) as [Pe|Tk]; [|congruence]. unfold pending in *. cbn in *. exact Pe.
      * destruct (blocked (aag g t) && negb (spur && negb (isos t))) eqn:C; cbn [fst snd apc aag].
        -- intros B. destruct (W1 t Eta B) as [W Pe]. rewrite ?P in *. split; [first [reflexivity|congruence]|exact Pe].
        -- rewrite upd_s. cbn. discriminate.
      * intros B. exfalso. assert (X : blocked (aag g t) = false) by (eapply NB; [|reflexivity]; discriminate).
        destruct (ai g); cbn in B; congruence.
      * intros B. exfalso. assert (X : blocked (aag g t) = false) by (eapply NB; [|reflexivity]; discriminate).
        destruct (mem t (aq g)); [|destruct (mem t (apend g))]; cbn in B; congruence.
      * intros B. destruct (W1 t Eta B) as [W Pe]. rewrite ?P in *. split; [first [reflexivity|congruence]|exact Pe].
    + rewrite upd_o by exact N.
      destruct (apc (ls t)) eqn:P; try discriminate Rq; cbn [fst snd apc lpc aag]; try exact (W1 x Nx).
      * destruct (ai g); cbn [fst snd aag set_i]; intros B; destruct (W1 x Nx B) as [W Pe]; (split; [exact W|]); unfold pending in *; cbn in *; exact Pe.
      * intros B. destruct (W1 x Nx B) as [W Pe]. split; [exact W|]. unfold pending in *. cbn in *. rewrite count_app_other by exact N. exact Pe.
      * rewrite upd_o by exact N. intros B. destruct (W1 x Nx B) as [W Pe]. split; [exact W|]. unfold pending in *. cbn in *. exact Pe.
      * destruct (blocked (aag g t) && negb (spur && negb (isos t))); cbn [fst snd aag]; [exact (W1 x Nx)|].
        rewrite upd_o by exact N. intros B. destruct (W1 x Nx B) as [W Pe]. split; [exact W|]. unfold pending in *. cbn in *. exact Pe.
      * destruct (ai g); cbn [fst snd aag set_i]; intros B; destruct (W1 x Nx B) as [W Pe]; (split; [exact W|]); unfold pending in *; cbn in *; exact Pe.
      * destruct (mem t (aq g)); [|destruct (mem t (apend g))]; cbn [fst snd aag set_i]; intros B; destruct (W1 x Nx B) as [W Pe];
          (split; [exact W|]); unfold pending in *; cbn in *; rewrite ?count_remove1_other by exact N; exact Pe.
  (* ================= W2 ================= *)
  - apply Nat.eqb_eq in Eta. subst t. intros x Nx. rewrite upd_s, upd_o by exact Nx. intros Px.
    assert (NBx : blocked (aag g x) = false).
    { destruct (blocked (aag g x)) eqn:B; [|reflexivity]. destruct (W1 x Nx B) as [W _]. congruence. }
    destruct (W2 x Nx Px) as [Pe|Tk].
    2:{ (* the token stays: only an abort() aimed at x touches the agent, and it leaves a token too (x is not blocked) *)
        right. destruct (apc (ls a)) eqn:P; try discriminate Ra; cbn [fst snd aag lpc].
        - destruct (ai g); exact Tk.
        - destruct (aq g); exact Tk.
        - destruct (apend g); exact Tk.
        - destruct (isos w && negb (blocked (aag g w))) eqn:C; cbn [fst snd aag]; [exact Tk|].
          destruct (Nat.eq_dec x w) as [->|N]; [|rewrite upd_o by exact N; exact Tk]. rewrite upd_s.
          rewrite NBx in C. cbn in C. rewrite andb_true_r in C. rewrite C. cbn. rewrite NBx. reflexivity.
        - destruct (ai g); exact Tk.
        - exact Tk. }
    destruct (apc (ls a)) eqn:P; try discriminate Ra; cbn [fst snd apc lpc aag].
    + left. destruct (ai g); cbn [fst snd apc lpc set_i]; rewrite ?P; unfold pending in *; cbn in *; exact Pe.
    + left. destruct (aq g) as [|q0 qr] eqn:Q; cbn [fst snd apc lpc set_i]; unfold pending in *; cbn in *; rewrite ?Q, ?BP in *; cbn in *; lia.
    + left. destruct (apend g) as [|w r] eqn:Q; cbn [fst snd apc lpc]; unfold pending in *; cbn in *; rewrite ?Q in *; cbn [count_occ] in *; [exact Pe|].
      destruct (Nat.eq_dec w x) as [->|N]; [rewrite Nat.eqb_refl; lia|]. apply Nat.eqb_neq in N. rewrite N. lia.
    + destruct (isos w && negb (blocked (aag g w))) eqn:C; cbn [fst snd apc lpc aag]; [left; rewrite P; exact Pe|].
      destruct (Nat.eq_dec x w) as [->|N].
      * right. rewrite upd_s. rewrite NBx in C. cbn in C. rewrite andb_true_r in C. rewrite C. cbn. rewrite NBx. reflexivity.
      * left. unfold pending in *. cbn in *. assert (E : Nat.eqb w x = false) by (apply Nat.eqb_neq; congruence). rewrite E in Pe. lia.
    + left. destruct (ai g); cbn [fst snd apc lpc set_i]; rewrite ?P; unfold pending in *; cbn in *; exact Pe.
    + left. rewrite P. exact Pe.
  - apply Nat.eqb_neq in Eta. intros x Nx. rewrite (upd_o _ ls t _ a) by congruence. specialize (Rq t Eta).
    destruct (Nat.eq_dec x t) as [->|N].
    + rewrite upd_s.
      destruct (apc (ls t)) eqn:P; try discriminate Rq; cbn [fst snd apc lpc aag].
      * destruct (ai g); cbn [snd apc lpc]; rewrite ?P; discriminate.
      * intros _. left. unfold pending. cbn. rewrite count_app_same. lia.
      * discriminate.
      * destruct (blocked (aag g t) && negb (spur && negb (isos t))); cbn [snd apc]; rewrite ?P; discriminate.
      * destruct (ai g); cbn [snd apc lpc]; rewrite ?P; discriminate.
      * destruct (todo (ls t)); cbn [apc]; discriminate.
      * rewrite P. discriminate.
    + rewrite upd_o by exact N. intros Px.
      destruct (apc (ls t)) eqn:P; try discriminate Rq; cbn [fst snd apc lpc aag]; try exact (W2 x Nx Px).
      * destruct (ai g); cbn [fst snd aag set_i]; destruct (W2 x Nx Px) as [Pe|Tk]; [left|right; exact Tk|left|right; exact Tk]; unfold pending in *; cbn in *; exact Pe.
      * destruct (W2 x Nx Px) as [Pe|Tk]; [left|right; exact Tk]. unfold pending in *. cbn in *. rewrite count_app_other by exact N. exact Pe.
      * rewrite upd_o by exact N. destruct (W2 x Nx Px) as [Pe|Tk]; [left|right; exact Tk]. unfold pending in *. cbn in *. exact Pe.
      * destruct (blocked (aag g t) && negb (spur && negb (isos t))); cbn [fst snd aag]; [exact (W2 x Nx Px)|].
        rewrite upd_o by exact N. destruct (W2 x Nx Px) as [Pe|Tk]; [left|right; exact Tk]. unfold pending in *. cbn in *. exact Pe.
      * destruct (ai g); cbn [fst snd aag set_i]; destruct (W2 x Nx Px) as [Pe|Tk]; [left|right; exact Tk|left|right; exact Tk]; unfold pending in *; cbn in *; exact Pe.
      * destruct (mem t (aq g)); [|destruct (mem t (apend g))]; cbn [fst snd aag set_i]; (destruct (W2 x Nx Px) as [Pe|Tk]; [left|right; exact Tk]);
          unfold pending in *; cbn in *; rewrite ?count_remove1_other by exact N; exact Pe.
  (* ================= exceptions vs abort() calls (pika tasks) ================= *)
  - apply Nat.eqb_eq in Eta. subst t. intros x Nx Hx. specialize (TH x Nx Hx).
    destruct (apc (ls a)) eqn:P; try discriminate Ra; cbn [fst snd thrown areason aborts].
    + destruct (ai g); exact TH.
    + destruct (aq g); exact TH.
    + destruct (apend g); exact TH.
    + destruct (isos w && negb (blocked (aag g w))); cbn [fst thrown areason aborts]; [exact TH|].
      destruct (Nat.eq_dec x w) as [->|N]; [rewrite !upd_s; destruct (areason g w); lia|rewrite !upd_o by exact N; exact TH].
    + destruct (ai g); exact TH.
    + exact TH.
  - apply Nat.eqb_neq in Eta. intros x Nx Hx. specialize (TH x Nx Hx). specialize (Rq t Eta).
    destruct (apc (ls t)) eqn:P; try discriminate Rq; cbn [fst snd thrown areason aborts]; try exact TH.
    + destruct (ai g); exact TH.
    + destruct (blocked (aag g t) && negb (spur && negb (isos t))); cbn [fst thrown areason aborts]; [exact TH|].
      destruct (Nat.eq_dec x t) as [->|N].
      * rewrite Hx. rewrite upd_s. destruct (areason g t); [rewrite upd_s|]; lia.
      * destruct (isos t); destruct (areason g t); rewrite ?upd_o by exact N; exact TH.
    + destruct (ai g); exact TH.
    + destruct (mem t (aq g)); [|destruct (mem t (apend g))]; exact TH.
Qed.

Lemma ab_gi : forall a isos waits sched,
  GI a isos (fst (ab_run a isos waits sched)) (snd (ab_run a isos waits sched)).
Proof.
  intros a isos waits sched. unfold ab_run.
  apply (run_inv ab_shared ab_local bool (ab_tstep a isos) (GI a isos)).
  - intros o t g ls. apply ab_step_gi.
  - cbn [fst snd]. constructor.
    + unfold ABinv, ab_locals. rewrite Nat.eqb_refl. cbn. split; [intros t; reflexivity|reflexivity].
    + intros t N. unfold ab_locals. apply Nat.eqb_neq in N. rewrite N. destruct (waits t); reflexivity.
    + unfold ab_locals. rewrite Nat.eqb_refl. reflexivity.
    + intros h H. discriminate H.
    + intros t. unfold ab_locals. destruct (Nat.eqb t a); [discriminate|]. destruct (waits t); discriminate.
    + intros t _ B. discriminate B.
    + intros t N. unfold ab_locals. apply Nat.eqb_neq in N. rewrite N. destruct (waits t); discriminate.
    + intros t _ _. cbn. lia.
Qed.

Lemma count_pos_in : forall l t, 1 <= count_occ Nat.eq_dec l t -> In t l.
Proof. intros l t H. apply (count_occ_In Nat.eq_dec). lia. Qed.

(* abort_all has returned: a waiter that is still blocked is suspended in its wait and its entry is STILL IN queue_ (it was pushed
   after abort_all's last look at the queue); every other waiter is not blocked *)
Lemma abort_all_no_waiter_left_blocked : forall a isos waits sched,
  let cf := ab_run a isos waits sched in
  apc (snd cf a) = ADone ->
  forall t, t <> a ->
    (blocked (aag (fst cf) t) = true -> apc (snd cf t) = QSusp /\ In t (aq (fst cf))) /\
    (blocked (aag (fst cf) t) = false \/ In t (aq (fst cf))).
Proof.
  intros a isos waits sched cf H t N. pose proof (ab_gi a isos waits sched) as I. fold cf in I.
  destruct (abort_all_wakes_all a isos waits sched H) as [E _]. fold cf in E.
  assert (K : blocked (aag (fst cf) t) = true -> apc (snd cf t) = QSusp /\ In t (aq (fst cf))).
  { intros B. destruct (gi_w1 _ _ _ _ I t N B) as [W Pe]. split; [exact W|]. rewrite H in Pe. unfold pending in Pe. rewrite E in Pe.
    cbn in Pe. apply count_pos_in. lia. }
  split; [exact K|]. destruct (blocked (aag (fst cf) t)) eqn:B; [right; exact (proj2 (K eq_refl))|left; reflexivity].
Qed.

Definition ab_stuck (a : nat) (isos : nat -> bool) (cf : ab_shared * locals ab_local) : Prop :=
  forall t, ab_enabled a isos t (fst cf) (snd cf t) = false.

(* what ab_stuck means: a thread that is not enabled only stutters (no spurious return) *)
Lemma ab_disabled_stutter : forall a isos t g l, ab_enabled a isos t g l = false -> ab_tstep a isos false t g l = (g, l).
Proof.
  intros a isos t g l D. unfold ab_enabled in D. unfold ab_tstep. destruct (Nat.eqb t a).
  - destruct (apc l); try reflexivity; try discriminate D.
    + destruct (ai g); [reflexivity|discriminate].
    + apply negb_false_iff in D. rewrite D. reflexivity.
    + destruct (ai g); [reflexivity|discriminate].
  - destruct (apc l); try reflexivity; try discriminate D.
    + destruct (ai g); [reflexivity|discriminate].
    + apply negb_false_iff in D. rewrite D. reflexivity.
    + destruct (ai g); [reflexivity|discriminate].
Qed.

(* stuck, abort_all has returned, queue_ is empty: every waiter has finished all its waits, nobody is blocked, every entry ever
   queued was aborted by exactly one abort() call or erased by its own waiter, and a pika task saw at most as many yield_aborted
   exceptions as abort() calls were aimed at it *)
Lemma abort_all_stuck_all_done : forall a isos waits sched,
  let cf := ab_run a isos waits sched in
  ab_stuck a isos cf -> apc (snd cf a) = ADone -> aq (fst cf) = [] ->
  ai (fst cf) = None /\
  forall t, t <> a ->
    apc (snd cf t) = QDone /\ blocked (aag (fst cf) t) = false /\
    pushes (fst cf) t = aborts (fst cf) t + selfrem (fst cf) t /\
    (isos t = false -> thrown (fst cf) t <= aborts (fst cf) t).
Proof.
  intros a isos waits sched cf S H Q. pose proof (ab_gi a isos waits sched) as I. fold cf in I.
  destruct (abort_all_wakes_all a isos waits sched H) as [E ACC]. fold cf in E, ACC.
  (* nobody holds the internal lock: its holder would be inside a critical section, hence enabled *)
  assert (Lk : ai (fst cf) = None).
  { destruct (ai (fst cf)) as [h|] eqn:A; [exfalso|reflexivity]. pose proof (gi_lk1 _ _ _ _ I h A) as L. specialize (S h).
    unfold ab_enabled in S. destruct (Nat.eqb h a) eqn:Eh.
    - apply Nat.eqb_eq in Eh. subst h. rewrite H in L. discriminate L.
    - destruct (apc (snd cf h)); try discriminate L; discriminate S. }
  split; [exact Lk|]. intros t N.
  assert (NB : blocked (aag (fst cf) t) = false).
  { destruct (abort_all_no_waiter_left_blocked a isos waits sched H t N) as [_ [B|B]]; [exact B|]. fold cf in B. rewrite Q in B. destruct B. }
  assert (P : apc (snd cf t) = QDone).
  { pose proof (gi_roleq _ _ _ _ I t N) as R. specialize (S t). unfold ab_enabled in S. apply Nat.eqb_neq in N. rewrite N in S.
    destruct (apc (snd cf t)); try discriminate R; try discriminate S; try reflexivity.
    - rewrite Lk in S. discriminate.
    - rewrite NB in S. discriminate.
    - rewrite Lk in S. discriminate. }
  split; [exact P|split; [exact NB|split]].
  - specialize (ACC t). rewrite Q in ACC. cbn in ACC. lia.
  - intros Ht. pose proof (gi_thr _ _ _ _ I t N Ht) as T. lia.
Qed.

(* ------------------------------------------------------------------ non-vacuity *)
Lemma ab_run_untouched : forall a isos (sched : list (nat * bool)) (cf : ab_shared * locals ab_local) t,
  ~ In t (map fst sched) -> snd (run (ab_tstep a isos) sched cf) t = snd cf t.
Proof.
  induction sched as [|[t0 o] s IH]; intros cf t H; [reflexivity|]. rewrite run_cons. rewrite IH.
  - unfold step. cbn [fst snd]. destruct (ab_tstep a isos o t0 (fst cf) (snd cf t0)) as [g' l']. cbn [snd].
    apply upd_other. intros ->. apply H. left. reflexivity.
  - intros Hin. apply H. right. exact Hin.
Qed.

Lemma ab_stuck_by_compute : forall a isos waits sched n,
  a < n -> (forall t, n <= t -> waits t = 0) -> forallb (fun x => Nat.ltb x n) (map fst sched) = true ->
  forallb (fun t => negb (ab_enabled a isos t (fst (ab_run a isos waits sched)) (snd (ab_run a isos waits sched) t))) (seq 0 n) = true ->
  ab_stuck a isos (ab_run a isos waits sched).
Proof.
  intros a isos waits sched n Ha Hw Hs Hc t. destruct (Nat.lt_ge_cases t n) as [Lt|Ge].
  - rewrite forallb_forall in Hc. specialize (Hc t). apply negb_true_iff. apply Hc. apply in_seq. lia.
  - unfold ab_run. rewrite ab_run_untouched.
    + cbn [snd]. unfold ab_enabled, ab_locals. replace (Nat.eqb t a) with false by (symmetry; apply Nat.eqb_neq; lia).
      rewrite (Hw t Ge). reflexivity.
    + intros Hin. rewrite forallb_forall in Hs. specialize (Hs t Hin). apply Nat.ltb_lt in Hs. lia.
Qed.

Definition ab_ex_waits (t : nat) : nat := if Nat.leb 1 t && Nat.leb t 3 then 1 else 0.
Definition ab_ex_rr (k : nat) : list (nat * bool) := flat_map (fun _ => [(1, false); (2, false); (3, false)]) (seq 0 k).

(* the run of C07_example_abort_all ends in a stuck state with abort_all returned and queue_ empty *)
Lemma ab_example_stuck :
  let cf := ab_run 0 (fun _ => true) ab_ex_waits (ab_ex_rr 6 ++ repeat (0, false) 14 ++ ab_ex_rr 8) in
  ab_stuck 0 (fun _ => true) cf /\ apc (snd cf 0) = ADone /\ aq (fst cf) = [] /\
  map (fun t => apc (snd cf t)) [1; 2; 3] = [QDone; QDone; QDone] /\ map (thrown (fst cf)) [1; 2; 3] = [1; 1; 1].
Proof.
  cbv zeta. split; [|repeat split; vm_compute; reflexivity].
  apply (ab_stuck_by_compute 0 (fun _ => true) ab_ex_waits _ 4); [lia| |vm_compute; reflexivity|vm_compute; reflexivity].
  intros t Ht. unfold ab_ex_waits. replace (Nat.leb t 3) with false by (symmetry; apply Nat.leb_gt; lia). rewrite andb_false_r. reflexivity.
Qed.

(* the `unless` clause is needed: abort_all runs first and returns on the empty queue; waiter 1 then queues up and blocks for ever —
   stuck, aborter done, waiter 1 blocked at QSusp with its entry in queue_ *)
Lemma ab_example_late_waiter :
  let cf := ab_run 0 (fun _ => true) (fun t => if Nat.eqb t 1 then 1 else 0) (repeat (0, false) 2 ++ repeat (1, false) 4) in
  ab_stuck 0 (fun _ => true) cf /\ apc (snd cf 0) = ADone /\ blocked (aag (fst cf) 1) = true /\ apc (snd cf 1) = QSusp /\ aq (fst cf) = [1].
Proof.
  cbv zeta. split; [|repeat split; vm_compute; reflexivity].
  apply (ab_stuck_by_compute 0 (fun _ => true) (fun t => if Nat.eqb t 1 then 1 else 0) _ 2); [lia| |vm_compute; reflexivity|vm_compute; reflexivity].
  intros t Ht. replace (Nat.eqb t 1) with false by (symmetry; apply Nat.eqb_neq; lia). reflexivity.
Qed.

(* ------------------------------------------------------------------ plain OS threads: every wait ends with the exception, exactly once *)
(* waits of t whose suspension has not ended yet *)
Definition remaining (l : ab_local) : nat :=
  match apc l with QDone => 0 | QRelock | QCheck => todo l | _ => S (todo l) end.

(* OS threads never return spuriously and never hold a token: each suspension blocks and is ended by an abort(), whose reason
   (default_agent::aborted_) is there when the suspension ends *)
Definition OSI (a : nat) (isos : nat -> bool) (waits : nat -> nat) (g : ab_shared) (ls : locals ab_local) : Prop :=
  forall t, t <> a -> isos t = true ->
    is_q (apc (ls t)) = true /\ tok (aag g t) = false /\
    (apc (ls t) = QSusp -> blocked (aag g t) = false -> areason g t = true) /\
    thrown g t + remaining (ls t) = waits t.

Lemma ab_step_osi : forall a isos waits spur t g (ls : locals ab_local), OSI a isos waits g ls ->
  OSI a isos waits (fst (ab_tstep a isos spur t g (ls t))) (upd ls t (snd (ab_tstep a isos spur t g (ls t)))).
Proof.
  intros a isos waits spur t g ls I x Nx Ox. destruct (I x Nx Ox) as (R & T & S & C).
  unfold ab_tstep. destruct (Nat.eqb t a) eqn:Eta.
  - apply Nat.eqb_eq in Eta. subst t. rewrite upd_o by exact Nx.
    destruct (apc (ls a)) eqn:P; cbn [fst snd aag areason thrown]; try (repeat split; assumption).
    + destruct (ai g); cbn [fst aag areason thrown set_i]; repeat split; assumption.
    + destruct (aq g); cbn [fst aag areason thrown set_i]; repeat split; assumption.
    + destruct (apend g); cbn [fst aag areason thrown]; repeat split; assumption.
    + destruct (isos w && negb (blocked (aag g w))) eqn:E; cbn [fst aag areason thrown]; [repeat split; assumption|].
      destruct (Nat.eq_dec x w) as [->|N].
      * rewrite !upd_s, Ox. cbn. repeat split; try assumption; reflexivity.
      * rewrite !upd_o by exact N. repeat split; assumption.
    + destruct (ai g); cbn [fst aag areason thrown set_i]; repeat split; assumption.
  - apply Nat.eqb_neq in Eta. destruct (Nat.eq_dec x t) as [->|N].
    + rewrite upd_s. destruct (apc (ls t)) eqn:P; try discriminate R; cbn [fst snd apc lpc aag areason thrown todo].
      * destruct (ai g); cbn [fst snd apc lpc aag areason thrown set_i todo remaining]; rewrite ?P;
          (split; [reflexivity|split; [exact T|split; [discriminate|]]]); unfold remaining in *; cbn [apc todo lpc] in *; rewrite ?P in *; exact C.
      * split; [reflexivity|split; [exact T|split; [discriminate|]]]. unfold remaining in *. cbn [apc todo lpc] in *. rewrite ?P in *. exact C.
      * rewrite upd_s. unfold a_suspend. rewrite T. cbn [fst tok blocked]. split; [reflexivity|split; [reflexivity|split; [discriminate|]]].
        unfold remaining in *. cbn [apc todo lpc] in *. rewrite ?P in *. exact C.
      * rewrite Ox. cbn [negb andb]. rewrite andb_false_r, andb_true_r.
        destruct (blocked (aag g t)) eqn:B; cbn [fst snd apc aag areason thrown todo].
        -- rewrite P. split; [reflexivity|split; [exact T|split; [intros _ B2; congruence|]]]. unfold remaining in *. rewrite P in *. exact C.
        -- rewrite upd_s. cbn [tok blocked]. rewrite (S eq_refl eq_refl). rewrite upd_s.
           split; [reflexivity|split; [exact T|split; [discriminate|]]]. unfold remaining in *. cbn [apc todo] in *. rewrite ?P in *. lia.
      * destruct (ai g); cbn [fst snd apc lpc aag areason thrown set_i todo remaining]; rewrite ?P;
          (split; [reflexivity|split; [exact T|split; [discriminate|]]]); unfold remaining in *; cbn [apc todo lpc] in *; rewrite ?P in *; exact C.
      * assert (Th : forall g1, aag g1 = aag g -> areason g1 = areason g -> thrown g1 = thrown g ->
                  is_q (apc (match todo (ls t) with O => {| apc := QDone; todo := O; thr := thr (ls t) |} | S k => {| apc := QLockI; todo := k; thr := thr (ls t) |} end)) = true /\
                  tok (aag g1 t) = false /\
                  (apc (match todo (ls t) with O => {| apc := QDone; todo := O; thr := thr (ls t) |} | S k => {| apc := QLockI; todo := k; thr := thr (ls t) |} end) = QSusp ->
                   blocked (aag g1 t) = false -> areason g1 t = true) /\
                  thrown g1 t + remaining (match todo (ls t) with O => {| apc := QDone; todo := O; thr := thr (ls t) |} | S k => {| apc := QLockI; todo := k; thr := thr (ls t) |} end) = waits t).
        { intros g1 E1 E2 E3. rewrite E1, E3. unfold remaining in *. rewrite P in C.
          destruct (todo (ls t)); cbn [apc todo is_q]; (split; [reflexivity|split; [exact T|split; [discriminate|exact C]]]). }
        destruct (mem t (aq g)); [|destruct (mem t (apend g))]; cbn [fst snd]; apply Th; reflexivity.
      * rewrite P. split; [reflexivity|split; [exact T|split; [discriminate|]]]. unfold remaining in *. rewrite P in *. exact C.
    + rewrite upd_o by exact N.
      destruct (apc (ls t)) eqn:P; cbn [fst snd aag areason thrown]; try (repeat split; assumption).
      * destruct (ai g); cbn [fst aag areason thrown set_i]; repeat split; assumption.
      * rewrite upd_o by exact N. repeat split; assumption.
      * destruct (blocked (aag g t) && negb (spur && negb (isos t))); cbn [fst aag areason thrown]; [repeat split; assumption|].
        rewrite upd_o by exact N. destruct (isos t); destruct (areason g t); rewrite ?upd_o by exact N; repeat split; assumption.
      * destruct (ai g); cbn [fst aag areason thrown set_i]; repeat split; assumption.
      * destruct (mem t (aq g)); [|destruct (mem t (apend g))]; cbn [fst aag areason thrown set_i]; repeat split; assumption.
Qed.

Lemma ab_osi : forall a isos waits sched,
  OSI a isos waits (fst (ab_run a isos waits sched)) (snd (ab_run a isos waits sched)).
Proof.
  intros a isos waits sched. unfold ab_run.
  apply (run_inv ab_shared ab_local bool (ab_tstep a isos) (OSI a isos waits)).
  - intros o t g ls. apply ab_step_osi.
  - cbn [fst snd]. intros t N _. unfold ab_locals. apply Nat.eqb_neq in N. rewrite N.
    destruct (waits t); cbn; repeat split; try reflexivity; discriminate.
Qed.

(* a plain OS thread that has finished its waits saw the exception in every one of them, once per wait; in general the
   exceptions seen so far plus the suspensions still ahead add up to the waits of the thread *)
Lemma os_waiter_throws_every_wait : forall a isos waits sched t, t <> a -> isos t = true ->
  let cf := ab_run a isos waits sched in
  thrown (fst cf) t + remaining (snd cf t) = waits t /\ (apc (snd cf t) = QDone -> thrown (fst cf) t = waits t).
Proof.
  intros a isos waits sched t N O cf. destruct (ab_osi a isos waits sched t N O) as (_ & _ & _ & C). fold cf in C.
  split; [exact C|]. intros D. unfold remaining in C. rewrite D in C. lia.
Qed.
