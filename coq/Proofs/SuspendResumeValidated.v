(* Proofs/SuspendResumeValidated.v — C19, strict form of enqueue_vs_suspend: a task enqueued by a submitter that validated the
   worker's state under the PU lock (select_active_pu with the initial max_allowed_state, create_thread keeps the lock across the
   enqueue) never sits in the queue of a worker that has decided to sleep; in a quiescent state it has been executed. *)
From Coq Require Import List NArith Bool Arith Lia Permutation.
From Pika Require Import Base.Conc Gen.GenRuntimeState Model.SuspendResume Proofs.SuspendResumeProofs.
Import ListNotations.

(* pcs at which the worker has read a state >= pre_sleep in this iteration (running = false) or is in the sleep sequence *)
Definition nr_pc (pc : wpc) : bool :=
  match pc with WPop false | WAdd false | WIdle false | WCheck true | WStore | WEnterWait | WWaiting | WWoken => true | _ => false end.

Definition inq (g : gst) (i : nat) (x : task) : Prop := In (i, x) (qs g) \/ In (i, x) (sq g).

Record VI (c : cfg) (g : gst) (ls : locals lstate) : Prop := {
  v_lk2 : forall t cl w, ls t = LClient cl -> ph cl = PhHold w -> pul g w = Some t;
  v_nr : forall w pc, ls w = LWorker pc -> nr_pc pc = true -> rs_le (st g w) g_sel_init = false;
  v_vl : forall t cl, ls t = LClient cl -> vl cl = true ->
           exists i h low rest, ph cl = PhHold i /\ todo cl = PSubmit h low :: rest /\ rs_le (st g i) g_sel_init = true;
  v_nocas : forall t cl, ls t = LClient cl -> forall w, ~ In (PCas w) (todo cl);
  v_q : forall w pc, ls w = LWorker pc -> sleepy pc = true -> forall tk, In tk (validated g) -> ~ inq g w tk;
  v_bound : forall tk, In tk (validated g) -> snd tk < nxt g (fst tk);
  v_qbound : forall i tk, inq g i tk -> snd tk < nxt g (fst tk);
  v_norm : forall i tk, In tk (validated g) -> inq g i tk -> i < nw c
}.

(* ---- workers ---- *)
Lemma move1_in : forall g d s g' i x, move1 g d s = Some g' -> inq g' i x -> inq g i x \/ (i = d /\ In (s, x) (sq g)).
Proof.
  intros g d s g' i x H Hin. unfold move1 in H. destruct (extract s (sq g)) as [[tk r]|] eqn:E; [|discriminate]. inversion H; subst; clear H.
  unfold inq in *. cbn [qs sq] in Hin. rewrite in_app_iff in Hin. cbn in Hin.
  destruct Hin as [[Hin|[Hin|[]]]|Hin]; auto.
  - inversion Hin; subst. right. split; [reflexivity|]. eapply extract_in; eassumption.
  - left. right. eapply extract_incl; eassumption.
Qed.

Lemma move1_keep : forall g d s g', move1 g d s = Some g' -> validated g' = validated g /\ nxt g' = nxt g.
Proof. intros g d s g' H. unfold move1 in H. destruct (extract s (sq g)) as [[tk r]|]; [|discriminate]. inversion H; subst. cbn. auto. Qed.

Lemma moven_in : forall n g d s i x, inq (moven n g d s) i x -> inq g i x \/ (i = d /\ In (s, x) (sq g)).
Proof.
  induction n as [|n IH]; intros g d s i x H; cbn in H; [left; exact H|].
  destruct (move1 g d s) as [g1|] eqn:E; [|left; exact H].
  destruct (IH g1 d s i x H) as [H1|[-> H1]].
  - eapply move1_in; eassumption.
  - assert (H2 : inq g1 s x) by (right; exact H1). destruct (move1_in _ _ _ _ _ _ E H2) as [[H3|H3]|[_ H3]].
    + (* a pending entry of queue s cannot become staged *) unfold move1 in E. destruct (extract s (sq g)) as [[tk r]|] eqn:E2; [|discriminate].
      inversion E; subst. cbn in H1. right. split; [reflexivity|]. eapply extract_incl; eassumption.
    + right. split; [reflexivity|exact H3].
    + right. split; [reflexivity|exact H3].
Qed.

Lemma moven_keep : forall n g d s, validated (moven n g d s) = validated g /\ nxt (moven n g d s) = nxt g.
Proof.
  induction n as [|n IH]; intros g d s; cbn; [auto|]. destruct (move1 g d s) as [g1|] eqn:E; [|auto].
  destruct (move1_keep _ _ _ _ E) as [A B]. destruct (IH g1 d s) as [A' B']. split; congruence.
Qed.

Lemma take_in : forall g w v g' i x, take g w v = Some g' -> inq g' i x -> inq g i x.
Proof.
  intros g w v g' i x H Hin. unfold take in H. destruct (extract v (qs g)) as [[tk r]|] eqn:E; [|discriminate]. inversion H; subst; clear H.
  unfold inq in *. cbn [qs sq] in Hin. destruct Hin as [Hin|Hin]; [left; eapply extract_incl; eassumption|right; exact Hin].
Qed.

Lemma take_keep : forall g w v g', take g w v = Some g' -> validated g' = validated g /\ nxt g' = nxt g.
Proof. intros g w v g' H. unfold take in H. destruct (extract v (qs g)) as [[tk r]|]; [|discriminate]. inversion H; subst. cbn. auto. Qed.

Lemma exec_keep : forall g w, validated (exec g w) = validated g /\ nxt (exec g w) = nxt g /\ qs (exec g w) = qs g /\ sq (exec g w) = sq g.
Proof. intros g w. unfold exec. destruct (extract w (heldl g)) as [[tk r]|]; cbn; auto. Qed.

(* effect of a worker step on the queues: entries only disappear, or (conversion) a staged entry of queue s < nw moves to the
   worker's own pending queue, or a staged low-priority entry becomes pending; the converting worker ends at the loop head *)
Lemma worker_qeff : forall c o t g pc, t < nw c ->
  let r := worker_step c o t g pc in
  validated (fst r) = validated g /\ nxt (fst r) = nxt g /\
  forall i x, inq (fst r) i x -> inq g i x \/
     (snd r = WTop /\ ((i = t /\ exists s, s < nw c /\ In (s, x) (sq g)) \/ (i = lowq c /\ In (lowq c, x) (sq g)))).
Proof.
  intros c o t g pc Ht.
  assert (Hv : victim c o < nw c) by (unfold victim; apply Nat.mod_upper_bound; lia).
  destruct pc; cbn [worker_step]; cbv zeta; unfold reset_fresh; brk; cbn [fst snd];
    try (split; [reflexivity|split; [reflexivity|intros i x H; left; exact H]]).
  all: try match goal with T : take _ _ _ = Some _ |- _ =>
         destruct (take_keep _ _ _ _ T) as [K1 K2]; split; [exact K1|split; [exact K2|intros i x H; left; eapply take_in; eassumption]] end.
  - destruct (exec_keep g t) as (K1 & K2 & K3 & K4). split; [exact K1|split; [exact K2|]]. intros i x H. left. unfold inq in *. rewrite K3, K4 in H. exact H.
  - destruct (moven_keep (batch c o) g t t) as [K1 K2]. split; [exact K1|split; [exact K2|]]. intros i x H.
    destruct (moven_in _ _ _ _ _ _ H) as [H1|[-> H1]]; [left; exact H1|right]. split; [reflexivity|]. left. split; [reflexivity|]. exists t. auto.
  - destruct (moven_keep (batch c o) g t (victim c o)) as [K1 K2]. split; [exact K1|split; [exact K2|]]. intros i x H.
    destruct (moven_in _ _ _ _ _ _ H) as [H1|[-> H1]]; [left; exact H1|right]. split; [reflexivity|]. left. split; [reflexivity|]. exists (victim c o). auto.
  - destruct (moven_keep (batch c o) g (lowq c) (lowq c)) as [K1 K2]. split; [exact K1|split; [exact K2|]]. intros i x H.
    destruct (moven_in _ _ _ _ _ _ H) as [H1|[-> H1]]; [left; exact H1|right]. split; [reflexivity|]. right. auto.
Qed.

Lemma rs_le_cas_sus : forall s, rs_le s g_sel_init = false -> cas s rs_running rs_pre_sleep = s.
Proof. destruct s; cbn; intros H; try reflexivity; discriminate. Qed.

(* the worker's own state: once it has read >= pre_sleep it stays above `suspended` until the wake-up CAS *)
Lemma worker_nr_self : forall c o t g pc,
  (nr_pc pc = true -> rs_le (st g t) g_sel_init = false) ->
  let r := worker_step c o t g pc in
  (nr_pc (snd r) = true -> rs_le (st (fst r) t) g_sel_init = false) /\
  (rs_le (st g t) g_sel_init = true -> rs_le (st (fst r) t) g_sel_init = true).
Proof.
  intros c o t g pc H. destruct pc; cbn [worker_step]; cbv zeta; unfold reset_fresh; brk; takes; cbn [fst snd nr_pc] in *;
    try (destruct (exec_fields g t) as (E1 & E2 & E3); rewrite E1);
    try match goal with |- context [moven ?n ?g0 ?d ?s] => destruct (moven_fields n g0 d s) as (M1 & M2 & M3 & M4); rewrite M1 end;
    cbn [st set_st set_waiting set_fresh]; rewrite ?upd_same;
    repeat match goal with H : st _ = st _ |- _ => rewrite H end;
    try (split; [intros; try discriminate; auto|auto]; fail).
  - (* WTop *) split; [|auto]. intros N. destruct (rs_lt (st g t) g_running_below) eqn:R; [discriminate|].
    destruct (st g t); cbn in R |- *; try reflexivity; discriminate.
  - (* WStore *) split; [intros _; reflexivity|]. intros L. rewrite (H eq_refl) in L. discriminate.
  - (* WWoken *) split; [discriminate|]. intros L. destruct (st g t); cbn in L |- *; try reflexivity; discriminate.
Qed.

Lemma worker_sleepy_self : forall c o t g pc,
  let r := worker_step c o t g pc in
  sleepy (snd r) = true -> forall x, inq (fst r) t x -> sleepy pc = true /\ inq g t x.
Proof.
  intros c o t g pc. destruct pc; cbn [worker_step]; cbv zeta; unfold reset_fresh; brk; cbn [fst snd sleepy]; intros S x H; try discriminate;
    try (split; [reflexivity|exact H]).
  all: exfalso; match goal with E : qlen_tasks ?c0 ?t0 ?g0 = [], x0 : task |- _ => assert (Hx : In x0 (qlen_tasks c0 t0 g0)); [|rewrite E in Hx; exact Hx] end.
  all: apply in_qlen; unfold counted; match goal with H : inq _ _ _ |- _ => unfold inq in H; cbn [qs sq set_fresh] in H; tauto end.
Qed.

(* ---- clients ---- *)
Lemma client_st : forall c o t g cl x,
  let g' := fst (client_step c o t g cl) in
  st g' x = st g x \/
  (st g' x = cas (st g x) rs_running rs_pre_sleep /\
   ((exists w0 rest, ph cl = PhHold w0 /\ todo cl = PLockedCas x :: rest) \/ (exists rest, todo cl = PCas x :: rest))).
Proof.
  intros c o t g cl x. unfold client_step. destruct (todo cl) as [|p rest] eqn:E; [left; reflexivity|].
  destruct p; cbv zeta; brk; hintsplit; cbn [fst]; unfold notify, enqueue; try (change g_resume_notifies with true; cbv iota);
    cbn [st set_st set_pul set_waiting set_rr set_calls set_fresh]; try (left; reflexivity).
  - unfold upd. destruct (Nat.eqb x w) eqn:Ex; [|left; reflexivity]. apply Nat.eqb_eq in Ex. subst x. right. split; [reflexivity|].
    left. eauto.
  - unfold upd. destruct (Nat.eqb x w) eqn:Ex; [|left; reflexivity]. apply Nat.eqb_eq in Ex. subst x. right. split; [reflexivity|].
    right. eauto.
Qed.

Definition enq_eff (c : cfg) (t : nat) (g : gst) (cl : client) (g' : gst) : Prop :=
  exists (q : nat) (v : bool) (h : option nat) (low : bool) (rest : list prim), todo cl = PSubmit h low :: rest /\
    ((exists i, ph cl = PhHold i /\ q = (if low then lowq c else i) /\ v = vl cl && negb low) \/
     (exists i, ph cl = PhEnq i /\ q = (if low then lowq c else i) /\ v = false)) /\
    qs g' = qs g /\ sq g' = sq g ++ [(q, (t, nxt g t))] /\
    validated g' = (if v then (t, nxt g t) :: validated g else validated g) /\ nxt g' = upd (nxt g) t (S (nxt g t)).

Lemma client_qeff : forall c o t g cl,
  let g' := fst (client_step c o t g cl) in
  (qs g' = qs g /\ sq g' = sq g /\ validated g' = validated g /\ nxt g' = nxt g) \/ enq_eff c t g cl g'.
Proof.
  intros c o t g cl. unfold client_step, enq_eff. destruct (todo cl) as [|p rest] eqn:E; [left; auto|].
  destruct p; cbv zeta; brk; hintsplit; cbn [fst]; unfold notify; try (change g_resume_notifies with true; cbv iota);
    cbn [qs sq validated nxt set_st set_pul set_waiting set_rr set_calls set_fresh]; try (left; auto; fail).
  all: right; unfold enqueue; cbn [qs sq validated nxt set_pul]; do 5 eexists; (split; [reflexivity|]).
  all: split; [first [left; eexists; split; [reflexivity|split; reflexivity] | right; eexists; split; [reflexivity|split; reflexivity]]|].
  all: repeat split; reflexivity.
Qed.

(* the converse lock invariant: a client in its critical section really owns the mutex *)
Lemma client_lock2 : forall c o t g cl,
  (forall w, ph cl = PhHold w -> hold_head (todo cl) w) ->
  (forall w, ph cl = PhHold w -> pul g w = Some t) ->
  let r := client_step c o t g cl in
  (forall w, ph (snd r) = PhHold w -> pul (fst r) w = Some t) /\
  (forall w t2, t2 <> t -> pul g w = Some t2 -> pul (fst r) w = Some t2).
Proof.
  intros c o t g cl HH H2. unfold client_step. destruct (todo cl) as [|p rest] eqn:E; [cbn; auto|].
  destruct p; cbv zeta; brk; hintsplit; cbn [fst snd]; unfold notify, cl_next, cl_ph, cl_sel; try (change g_resume_notifies with true; cbv iota);
    cbn [ph pul set_st set_pul set_waiting set_rr set_calls set_fresh enqueue];
    repeat match goal with P : ph cl = _ |- _ => rewrite P in * end;
    (split; [intros wq Hwq; try discriminate; try (inversion Hwq; subst; apply upd_same); try (apply H2; exact Hwq)
            |intros wq tq Nt Hp; try exact Hp]).
  all: try (unfold upd; destruct (Nat.eqb wq _) eqn:Ew; [apply Nat.eqb_eq in Ew; subst|exact Hp]).
  all: try congruence.
  all: try (specialize (HH _ eq_refl); cbn in HH; subst; rewrite (H2 _ eq_refl) in Hp; congruence).
  all: try (rewrite (H2 _ eq_refl) in Hp; congruence).
Qed.

Lemma client_vl : forall c o t g cl,
  let r := client_step c o t g cl in
  vl (snd r) = true ->
  (snd r = cl /\ st (fst r) = st g) \/
  exists i h low rest, ph (snd r) = PhHold i /\ todo (snd r) = PSubmit h low :: rest /\ rs_le (st (fst r) i) g_sel_init = true.
Proof.
  intros c o t g cl. unfold client_step. destruct (todo cl) as [|p rest] eqn:E; [left; split; reflexivity|].
  destruct p; cbv zeta; brk; hintsplit; cbn [fst snd]; unfold cl_next, cl_ph, cl_sel, notify; cbn [vl ph todo]; intros V; try discriminate;
    try (left; split; [reflexivity|try reflexivity; destruct g_resume_notifies; reflexivity]; fail).
  right. rewrite E. do 4 eexists. split; [reflexivity|split; [reflexivity|]]. cbn [st set_pul].
  apply rs_eqb_eq in V. subst.
  match goal with H : negb _ && rs_le _ _ = true |- _ => apply andb_true_iff in H; destruct H as [_ H]; exact H end.
Qed.

Lemma sleepy_nr : forall pc, sleepy pc = true -> nr_pc pc = true.
Proof. destruct pc as [|[|]| | | |[|]| | |[|]|[|]| | | |]; cbn; intros H; try reflexivity; discriminate. Qed.

Lemma in_tl : forall (A : Type) (x : A) l, In x (tl l) -> In x l.
Proof. intros A x [|a l] H; [exact H|right; exact H]. Qed.

Lemma upd_nxt_mono : forall (f : nat -> nat) t x, f x <= upd f t (S (f t)) x.
Proof. intros f t x. unfold upd. destruct (Nat.eqb x t) eqn:E; [apply Nat.eqb_eq in E; subst; lia|lia]. Qed.

Definition ALL (c : cfg) (g : gst) (ls : locals lstate) : Prop := INV4 c g ls /\ QI c g ls /\ VI c g ls.

Lemma tstep_vi : forall c, nw c > 0 -> forall o t g (ls : locals lstate), ALL c g ls ->
  VI c (fst (sr_tstep c o t g (ls t))) (upd ls t (snd (sr_tstep c o t g (ls t)))).
Proof.
  intros c Hn o t g ls (I & [Q P] & V).
  assert (Hid : VI c g (upd ls t (ls t))).
  { assert (Hx : forall x, upd ls t (ls t) x = ls x) by (intros x; unfold upd; destruct (Nat.eqb x t) eqn:E; [apply Nat.eqb_eq in E; subst|]; reflexivity).
    destruct V. constructor; intros; rewrite ?Hx in *; eauto. }
  assert (Wlt : forall w pc, ls w = LWorker pc -> w < nw c).
  { intros w pc Hw. destruct (Nat.lt_ge_cases w (nw c)) as [H|H]; [exact H|]. destruct (i_roleC c g ls I w H) as (cl & Hc). congruence. }
  destruct (ls t) as [pc|cl|] eqn:L; cbn [sr_tstep]; [| |exact Hid].
  - (* worker *)
    destruct (Nat.ltb t (nw c)) eqn:Lt; [|exact Hid]. apply Nat.ltb_lt in Lt.
    pose proof (worker_eff c o t g pc) as (Eo & Ep).
    pose proof (worker_qeff c o t g pc Lt) as (Kv & Kn & Kq).
    pose proof (worker_nr_self c o t g pc (v_nr c g ls V t pc L)) as (Ns & Nl).
    pose proof (worker_sleepy_self c o t g pc) as Ss.
    destruct (worker_step c o t g pc) as [g' pc'] eqn:W. cbn [fst snd] in *.
    constructor.
    + intros t2 cl2 w Hl Hph. unfold upd in Hl. destruct (Nat.eqb t2 t); [discriminate|]. rewrite Ep. exact (v_lk2 c g ls V t2 cl2 w Hl Hph).
    + intros w pc2 Hl Hnr. unfold upd in Hl. destruct (Nat.eqb w t) eqn:E.
      * apply Nat.eqb_eq in E. subst w. inversion Hl; subst. exact (Ns Hnr).
      * apply Nat.eqb_neq in E. destruct (Eo w E) as [E1 _]. rewrite E1. exact (v_nr c g ls V w pc2 Hl Hnr).
    + intros t2 cl2 Hl Hv. unfold upd in Hl. destruct (Nat.eqb t2 t); [discriminate|].
      destruct (v_vl c g ls V t2 cl2 Hl Hv) as (i & h & low & rest & A & B & C). exists i, h, low, rest. split; [exact A|split; [exact B|]].
      destruct (Nat.eq_dec i t) as [->|Ni]; [exact (Nl C)|]. destruct (Eo i Ni) as [E1 _]. rewrite E1. exact C.
    + intros t2 cl2 Hl. unfold upd in Hl. destruct (Nat.eqb t2 t); [discriminate|]. exact (v_nocas c g ls V t2 cl2 Hl).
    + intros w pc2 Hl Hs tk Hv Hin. rewrite Kv in Hv. unfold upd in Hl. destruct (Nat.eqb w t) eqn:E.
      * apply Nat.eqb_eq in E. subst w. inversion Hl; subst. destruct (Ss Hs tk Hin) as [S0 Hin0].
        exact (v_q c g ls V t pc L S0 tk Hv Hin0).
      * apply Nat.eqb_neq in E. pose proof (Wlt w pc2 Hl) as Hw. destruct (Kq w tk Hin) as [Hin0|[_ [[-> _]|[-> _]]]].
        -- exact (v_q c g ls V w pc2 Hl Hs tk Hv Hin0).
        -- congruence.
        -- unfold lowq in Hw. lia.
    + intros tk Hv. rewrite Kv in Hv. rewrite Kn. exact (v_bound c g ls V tk Hv).
    + intros i tk Hin. rewrite Kn. destruct (Kq i tk Hin) as [Hin0|[_ [[_ (s & _ & Hs)]|[_ Hs]]]].
      * exact (v_qbound c g ls V i tk Hin0).
      * apply (v_qbound c g ls V s tk). right. exact Hs.
      * apply (v_qbound c g ls V (lowq c) tk). right. exact Hs.
    + intros i tk Hv Hin. rewrite Kv in Hv. destruct (Kq i tk Hin) as [Hin0|[_ [[-> _]|[-> Hs]]]].
      * exact (v_norm c g ls V i tk Hv Hin0).
      * exact Lt.
      * exfalso. assert (H : lowq c < nw c) by (apply (v_norm c g ls V (lowq c) tk Hv); right; exact Hs). unfold lowq in H. lia.
  - (* client *)
    destruct (Nat.ltb t (nw c)) eqn:Lt; [exact Hid|]. apply Nat.ltb_ge in Lt.
    pose proof (client_lock2 c o t g cl (fun w => i_hold c g ls I t cl w L) (fun w => v_lk2 c g ls V t cl w L)) as [K1 K2].
    pose proof (client_st c o t g cl) as Cst.
    pose proof (client_qeff c o t g cl) as Cq.
    pose proof (client_vl c o t g cl) as Cv.
    pose proof (client_todo c o t g cl) as Ct.
    destruct (client_step c o t g cl) as [g' cl'] eqn:W. cbn [fst snd] in *.
    (* the state of a worker whose lock is held by another client, or that is above `suspended`, is not changed by t *)
    assert (Skeep : forall x, rs_le (st g x) g_sel_init = false -> st g' x = st g x).
    { intros x Hx. destruct (Cst x) as [E|[E _]]; [exact E|]. rewrite E. apply rs_le_cas_sus. exact Hx. }
    assert (Sheld : forall x t2 cl2, t2 <> t -> ls t2 = LClient cl2 -> ph cl2 = PhHold x -> st g' x = st g x).
    { intros x t2 cl2 Nt Hl Hph. destruct (Cst x) as [E|[_ [(w0 & rest & Hp0 & Htd)|(rest & Htd)]]]; [exact E| |].
      - exfalso. pose proof (i_hold c g ls I t cl w0 L Hp0) as HH. rewrite Htd in HH. cbn in HH. subst w0.
        pose proof (v_lk2 c g ls V t cl x L Hp0) as A. pose proof (v_lk2 c g ls V t2 cl2 x Hl Hph) as B. congruence.
      - exfalso. apply (v_nocas c g ls V t cl L x). rewrite Htd. left. reflexivity. }
    constructor.
    + intros t2 cl2 w Hl Hph. unfold upd in Hl. destruct (Nat.eqb t2 t) eqn:E.
      * apply Nat.eqb_eq in E. subst t2. inversion Hl; subst. exact (K1 w Hph).
      * apply Nat.eqb_neq in E. apply K2; [exact E|]. exact (v_lk2 c g ls V t2 cl2 w Hl Hph).
    + intros w pc2 Hl Hnr. unfold upd in Hl. destruct (Nat.eqb w t) eqn:Ewt; [discriminate|].
      pose proof (v_nr c g ls V w pc2 Hl Hnr) as A. rewrite (Skeep w A). exact A.
    + intros t2 cl2 Hl Hv. unfold upd in Hl. destruct (Nat.eqb t2 t) eqn:E.
      * inversion Hl; subst. destruct (Cv Hv) as [[Eq1 Eq2]|R]; [|exact R]. rewrite Eq1 in Hv |- *. rewrite Eq2. exact (v_vl c g ls V t cl L Hv).
      * apply Nat.eqb_neq in E. destruct (v_vl c g ls V t2 cl2 Hl Hv) as (i & h & low & rest & A & B & C).
        exists i, h, low, rest. split; [exact A|split; [exact B|]]. rewrite (Sheld i t2 cl2 E Hl A). exact C.
    + intros t2 cl2 Hl w Hin. unfold upd in Hl. destruct (Nat.eqb t2 t) eqn:E.
      * inversion Hl; subst. apply (v_nocas c g ls V t cl L w). destruct Ct as [-> | ->] in Hin; [exact Hin|apply in_tl; exact Hin].
      * exact (v_nocas c g ls V t2 cl2 Hl w Hin).
    + intros w pc2 Hl Hs tk Hv Hin. unfold upd in Hl. destruct (Nat.eqb w t) eqn:Ewt; [discriminate|].
      destruct Cq as [(Eq1 & Eq2 & Eq3 & Eq4)|(q & v & h & low & rest & Htd & Hd & Eq1 & Eq2 & Eq3 & Eq4)].
      * unfold inq in Hin. rewrite Eq1, Eq2 in Hin. rewrite Eq3 in Hv. exact (v_q c g ls V w pc2 Hl Hs tk Hv Hin).
      * assert (Hin' : inq g w tk \/ (w = q /\ tk = (t, nxt g t))).
        { unfold inq in *. rewrite Eq1, Eq2 in Hin. rewrite in_app_iff in Hin. cbn in Hin.
          destruct Hin as [H|[H|[H|[]]]]; auto. inversion H; subst. auto. }
        assert (Hv' : In tk (validated g) \/ (v = true /\ tk = (t, nxt g t))).
        { rewrite Eq3 in Hv. destruct v; [destruct Hv as [<-|Hv]; auto|auto]. }
        destruct Hv' as [Hv0|[-> ->]].
        -- destruct Hin' as [Hin0|[-> ->]]; [exact (v_q c g ls V w pc2 Hl Hs tk Hv0 Hin0)|].
           pose proof (v_bound c g ls V _ Hv0) as B. cbn in B. lia.
        -- destruct Hin' as [Hin0|[-> _]]; [pose proof (v_qbound c g ls V w _ Hin0) as B; cbn in B; lia|].
           destruct Hd as [(i & Hp & -> & Hvv)|(i & _ & _ & Hvv)]; [|discriminate].
           symmetry in Hvv. apply andb_true_iff in Hvv. destruct Hvv as [Hvl Hlow]. apply negb_true_iff in Hlow. subst low.
           destruct (v_vl c g ls V t cl L Hvl) as (i' & _ & _ & _ & A & _ & C). rewrite Hp in A. inversion A; subst i'.
           pose proof (v_nr c g ls V i pc2 Hl (sleepy_nr _ Hs)) as D. congruence.
    + intros tk Hv. destruct Cq as [(Eq1 & Eq2 & Eq3 & Eq4)|(q & v & h & low & rest & Htd & Hd & Eq1 & Eq2 & Eq3 & Eq4)].
      * rewrite Eq3 in Hv. rewrite Eq4. exact (v_bound c g ls V tk Hv).
      * rewrite Eq4. rewrite Eq3 in Hv. assert (Hv' : In tk (validated g) \/ tk = (t, nxt g t)) by (destruct v; [destruct Hv as [<-|Hv]; auto|auto]).
        destruct Hv' as [Hv0| ->].
        -- pose proof (v_bound c g ls V tk Hv0) as B. pose proof (upd_nxt_mono (nxt g) t (fst tk)). lia.
        -- cbn. rewrite upd_same. lia.
    + intros i tk Hin. destruct Cq as [(Eq1 & Eq2 & Eq3 & Eq4)|(q & v & h & low & rest & Htd & Hd & Eq1 & Eq2 & Eq3 & Eq4)].
      * unfold inq in Hin. rewrite Eq1, Eq2 in Hin. rewrite Eq4. exact (v_qbound c g ls V i tk Hin).
      * rewrite Eq4. unfold inq in Hin. rewrite Eq1, Eq2 in Hin. rewrite in_app_iff in Hin. cbn in Hin.
        assert (Hin' : inq g i tk \/ tk = (t, nxt g t)) by (unfold inq; destruct Hin as [H|[H|[H|[]]]]; auto; inversion H; auto).
        destruct Hin' as [Hin0| ->].
        -- pose proof (v_qbound c g ls V i tk Hin0) as B. pose proof (upd_nxt_mono (nxt g) t (fst tk)). lia.
        -- cbn. rewrite upd_same. lia.
    + intros i tk Hv Hin. destruct Cq as [(Eq1 & Eq2 & Eq3 & Eq4)|(q & v & h & low & rest & Htd & Hd & Eq1 & Eq2 & Eq3 & Eq4)].
      * unfold inq in Hin. rewrite Eq1, Eq2 in Hin. rewrite Eq3 in Hv. exact (v_norm c g ls V i tk Hv Hin).
      * assert (Hin' : inq g i tk \/ (i = q /\ tk = (t, nxt g t))).
        { unfold inq in *. rewrite Eq1, Eq2 in Hin. rewrite in_app_iff in Hin. cbn in Hin.
          destruct Hin as [H|[H|[H|[]]]]; auto. inversion H; subst. auto. }
        assert (Hv' : In tk (validated g) \/ (v = true /\ tk = (t, nxt g t))).
        { rewrite Eq3 in Hv. destruct v; [destruct Hv as [<-|Hv]; auto|auto]. }
        destruct Hv' as [Hv0|[-> ->]].
        -- destruct Hin' as [Hin0|[-> ->]]; [exact (v_norm c g ls V i tk Hv0 Hin0)|].
           pose proof (v_bound c g ls V _ Hv0) as B. cbn in B. lia.
        -- destruct Hin' as [Hin0|[-> _]]; [pose proof (v_qbound c g ls V i _ Hin0) as B; cbn in B; lia|].
           destruct Hd as [(i0 & Hp & -> & Hvv)|(i0 & _ & _ & Hvv)]; [|discriminate].
           symmetry in Hvv. apply andb_true_iff in Hvv. destruct Hvv as [Hvl Hlow]. apply negb_true_iff in Hlow. subst low.
           pose proof (P t cl L) as PO. unfold phase_ok in PO. rewrite Hp, Htd in PO. exact PO.
Qed.

(* ---- validated tasks are submitted tasks ---- *)
Definition VS (g : gst) : Prop := incl (validated g) (submitted g).

Lemma vs_same : forall g g', validated g' = validated g -> submitted g' = submitted g -> VS g -> VS g'.
Proof. intros g g' H1 H2 H. unfold VS. rewrite H1, H2. exact H. Qed.

Lemma vs_take : forall g w v g', take g w v = Some g' -> VS g -> VS g'.
Proof. intros g w v g' H. unfold take in H. destruct (extract v (qs g)) as [[tk r]|]; [|discriminate]. inversion H; subst. apply vs_same; reflexivity. Qed.

Lemma vs_move1 : forall g d s g', move1 g d s = Some g' -> VS g -> VS g'.
Proof. intros g d s g' H. unfold move1 in H. destruct (extract s (sq g)) as [[tk r]|]; [|discriminate]. inversion H; subst. apply vs_same; reflexivity. Qed.

Lemma vs_moven : forall n g d s, VS g -> VS (moven n g d s).
Proof. induction n as [|n IH]; intros g d s H; cbn; [exact H|]. destruct (move1 g d s) eqn:E; [|exact H]. apply IH. eapply vs_move1; eassumption. Qed.

Lemma vs_exec : forall g w, VS g -> VS (exec g w).
Proof. intros g w H. unfold exec. destruct (extract w (heldl g)) as [[tk r]|]; [|exact H]. exact H. Qed.

Lemma vs_enqueue : forall g t q v, VS g -> VS (enqueue g t q v).
Proof.
  intros g t q v H x Hx. unfold enqueue in *. cbn [validated submitted] in *. destruct v; [destruct Hx as [<-|Hx]; [left; reflexivity|right; apply H, Hx]|right; apply H, Hx].
Qed.

Ltac leafv H := cbn [fst]; first [exact H | (eapply vs_same; [reflexivity|reflexivity|eassumption]) | (eapply vs_take; eassumption)
  | (apply vs_exec; exact H) | (apply vs_moven; exact H) | (apply vs_enqueue; exact H)
  | (eapply vs_same; [reflexivity|reflexivity|apply vs_enqueue; exact H])].

Lemma tstep_vs : forall c o t g l, VS g -> VS (fst (sr_tstep c o t g l)).
Proof.
  intros c o t g l H. destruct l as [pc|cl|]; cbn [sr_tstep]; [| |exact H].
  - destruct (Nat.ltb t (nw c)); [|exact H].
    assert (W : VS (fst (worker_step c o t g pc))) by (destruct pc; cbn [worker_step]; cbv zeta; unfold reset_fresh; brk; leafv H).
    destruct (worker_step c o t g pc). exact W.
  - destruct (Nat.ltb t (nw c)); [exact H|].
    assert (W : VS (fst (client_step c o t g cl))).
    { unfold client_step. destruct (todo cl) as [|p rest]; [exact H|].
      destruct p; cbv zeta; brk; cbn [fst]; unfold notify; try (destruct g_resume_notifies); try leafv H.
      all: match goal with E : match ?h with Some _ => _ | None => _ end = (_, ?g0) |- VS ?g0 =>
             destruct h; inversion E; subst; leafv H end. }
    destruct (client_step c o t g cl). exact W.
Qed.

Lemma sr_vs : forall c progs sched, VS (fst (sr_run c progs sched)).
Proof.
  intros c progs sched. unfold sr_run. apply (run_ginv gst lstate oracle (sr_tstep c) VS).
  - intros o t g l. apply tstep_vs.
  - intros x [].
Qed.

(* ---- assembling the invariant ---- *)
Definition no_pool_suspend (a : api) : Prop := match a with ASuspendPool false => False | _ => True end.

Lemma expand_nocas : forall c a, no_pool_suspend a -> forall w, ~ In (PCas w) (expand c a).
Proof.
  intros c a H w. destruct a as [x self|x|self| |h|h]; cbn [expand no_pool_suspend] in *.
  - unfold spu_direct, spu_internal. cbv zeta. change (nth 0 g_spu_refusal_returns false) with true. change (nth 1 g_spu_refusal_returns false) with true.
    destruct (negb (elastic c)); [cbn; intuition discriminate|]. destruct (self && negb (stealing c)); cbn; intuition discriminate.
  - cbn. intuition discriminate.
  - destruct self; [|contradiction]. unfold pool_suspend. change g_pool_refusal_returns with true. cbn. intuition discriminate.
  - unfold pool_resume. intros Hin. rewrite !in_app_iff in Hin. destruct Hin as [[Hin|Hin]|[Hin|[]]]; [| |discriminate].
    + apply in_map_iff in Hin. destruct Hin as (y & Hy & _). discriminate.
    + apply in_flat_map in Hin. destruct Hin as (y & _ & [Hy|[Hy|[]]]); discriminate.
  - cbn. intuition discriminate.
  - cbn. intuition discriminate.
Qed.

Lemma vi_init : forall c progs, (forall t, Forall no_pool_suspend (progs t)) -> VI c sr_g0 (sr_locals c progs).
Proof.
  intros c progs Hn. constructor; unfold sr_locals; cbn [sr_g0 pul st qs sq validated nxt].
  - intros t cl w H Hp. destruct (Nat.ltb t (nw c)); [discriminate|]. inversion H; subst. discriminate.
  - intros w pc H Hr. destruct (Nat.ltb w (nw c)); [|discriminate]. inversion H; subst. discriminate.
  - intros t cl H Hv. destruct (Nat.ltb t (nw c)); [discriminate|]. inversion H; subst. discriminate.
  - intros t cl H w Hin. destruct (Nat.ltb t (nw c)); [discriminate|]. inversion H; subst. cbn [todo] in Hin.
    apply in_flat_map in Hin. destruct Hin as (a & Ha & Hin). specialize (Hn t). rewrite Forall_forall in Hn.
    exact (expand_nocas c a (Hn a Ha) w Hin).
  - intros w pc _ _ tk [].
  - intros tk [].
  - intros i tk [[]|[]].
  - intros i tk [].
Qed.

Lemma tstep_all : forall c, nw c > 0 -> forall o t g (ls : locals lstate), ALL c g ls ->
  ALL c (fst (sr_tstep c o t g (ls t))) (upd ls t (snd (sr_tstep c o t g (ls t)))).
Proof.
  intros c Hn o t g ls A. pose proof (tstep_vi c Hn o t g ls A) as V. destruct A as (I & Q & _).
  split; [apply tstep_inv4; exact I|split; [apply tstep_qi; assumption|exact V]].
Qed.

Lemma sr_all : forall c progs sched, nw c > 0 -> (forall t, Forall (api_ok c) (progs t)) -> (forall t, Forall no_pool_suspend (progs t)) ->
  ALL c (fst (sr_run c progs sched)) (snd (sr_run c progs sched)).
Proof.
  intros c progs sched Hn Hok Hnp. unfold sr_run.
  apply (run_inv gst lstate oracle (sr_tstep c) (ALL c) (tstep_all c Hn) sched (sr_g0, sr_locals c progs)).
  cbn [fst snd]. split; [apply inv4_init, Hok|split; [|apply vi_init, Hnp]].
  split; [intros i tk [[]|[]]|]. intros t cl H. unfold sr_locals in H. destruct (Nat.ltb t (nw c)); [discriminate|].
  inversion H; subst. exact I.
Qed.

(* strict enqueue_vs_suspend: with processing-unit suspends only (the pool-wide suspend CASes without the PU lock), a task whose
   enqueue was validated under the PU lock is never in the (pending or staged) queue of a worker that has decided to sleep, sleeps
   or is waking up: it has been executed or taken (by that worker before it slept, or by a thief), or the worker is awake *)
Lemma enqueue_validated_runs_before_sleep : forall c progs sched,
  (forall t, Forall (api_ok c) (progs t)) -> (forall t, Forall no_pool_suspend (progs t)) ->
  let cf := sr_run c progs sched in
  forall w pc, snd cf w = LWorker pc -> sleepy pc = true ->
  forall tk, In tk (validated (fst cf)) -> ~ In (w, tk) (qs (fst cf)) /\ ~ In (w, tk) (sq (fst cf)).
Proof.
  intros c progs sched Hok Hnp cf w pc Hw Hs tk Hv. destruct (Nat.eq_dec (nw c) 0) as [Z|NZ].
  - exfalso. pose proof (sr_inv4 c progs sched Hok) as I. fold cf in I. destruct (i_roleC c _ _ I w) as (cl & Hc); [lia|]. congruence.
  - destruct (sr_all c progs sched ltac:(lia) Hok Hnp) as (_ & _ & V). fold cf in V.
    pose proof (v_q c _ _ V w pc Hw Hs tk Hv) as N. unfold inq in N. tauto.
Qed.

(* ... and therefore never stranded: in ANY quiescent state -- whatever processing units are suspended, without any resume --
   every validated task has been executed *)
Lemma validated_never_stranded : forall c progs sched, nw c > 0 ->
  (forall t, Forall (api_ok c) (progs t)) -> (forall t, Forall no_pool_suspend (progs t)) ->
  let cf := sr_run c progs sched in
  stuck c cf -> forall tk, In tk (validated (fst cf)) -> In tk (map fst (executed (fst cf))).
Proof.
  intros c progs sched NZ Hok Hnp cf S tk Hv.
  pose proof (sr_vs c progs sched tk) as Hsub. fold cf in Hsub. specialize (Hsub Hv).
  pose proof (proj1 (no_task_lost c progs sched tk)) as NL. cbv zeta in NL. fold cf in NL. specialize (NL Hsub).
  pose proof (sr_inv4 c progs sched Hok) as I. fold cf in I.
  destruct (sr_all c progs sched NZ Hok Hnp) as (_ & _ & V). fold cf in V.
  destruct cf as [g ls] eqn:Ecf. cbn [fst snd] in *.
  destruct NL as [E|[Hh|Hq]]; [exact E| |]; exfalso.
  - rewrite (stuck_no_held c g ls I S) in Hh. exact Hh.
  - assert (Hi : exists i, inq g i tk).
    { destruct Hq as [Hq|Hq]; apply in_map_iff in Hq; destruct Hq as ([i x] & Ex & Hin); cbn in Ex; subst x; exists i; [left|right]; exact Hin. }
    destruct Hi as (i & Hin). pose proof (v_norm c g ls V i tk Hv Hin) as Hlt.
    destruct (i_roleW c g ls I i Hlt) as (pc & L).
    pose proof (stuck_worker c g ls i pc I S Hlt L) as D.
    assert (OW : own_work i g = true).
    { unfold own_work. destruct Hin as [Hin|Hin]; apply in_qof in Hin; apply nonempty_in in Hin; rewrite Hin; [reflexivity|apply orb_true_r]. }
    destruct (sleepy pc) eqn:Sl; [exact (v_q c g ls V i pc L Sl tk Hv Hin)|].
    destruct pc as [|r| | | |r| | |r|[|]| | | |]; cbn in Sl; try discriminate; cbn [worker_enabled] in D; try discriminate;
      rewrite OW in D; discriminate.
Qed.

(* ---- the syntactic guard "no low-priority tasks": the low-priority queue stays empty ---- *)
Definition no_lowprio (a : api) : Prop := match a with ASubmitLow _ => False | _ => True end.
Definition nolow_prim (p : prim) : Prop := match p with PSubmit _ true => False | _ => True end.

Definition NL (c : cfg) (g : gst) (ls : locals lstate) : Prop :=
  (forall i tk, inq g i tk -> i < nw c) /\ (forall t cl, ls t = LClient cl -> Forall nolow_prim (todo cl)).

Lemma expand_nolow : forall c a, no_lowprio a -> Forall nolow_prim (expand c a).
Proof.
  intros c a H. apply Forall_forall. intros p Hp. destruct p as [| | | | | | | | |h [|]]; try exact I. exfalso.
  destruct a as [x self|x|self| |h0|h0]; cbn [expand no_lowprio] in *.
  - unfold spu_direct, spu_internal in Hp. cbv zeta in Hp. destruct (nth 0 g_spu_refusal_returns false), (nth 1 g_spu_refusal_returns false),
      (negb (elastic c)), (self && negb (stealing c)); cbn in Hp; intuition discriminate.
  - cbn in Hp. intuition discriminate.
  - unfold pool_suspend in Hp. cbv zeta in Hp. rewrite in_app_iff in Hp. destruct Hp as [Hp|[Hp|[]]]; [|discriminate].
    assert (B : ~ In (PSubmit h true) (PWaitIdle :: map PCas (seq 0 (nw c)) ++ flat_map spu_internal (seq 0 (nw c)))).
    { intros [Hq|Hq]; [discriminate|]. rewrite in_app_iff in Hq. destruct Hq as [Hq|Hq].
      - apply in_map_iff in Hq. destruct Hq as (y & Hy & _). discriminate.
      - apply in_flat_map in Hq. destruct Hq as (y & _ & [Hy|[Hy|[]]]); discriminate. }
    destruct self; [destruct g_pool_refusal_returns; [destruct Hp as [Hp|[]]; discriminate|destruct Hp as [Hp|Hp]; [discriminate|exact (B Hp)]]|exact (B Hp)].
  - unfold pool_resume in Hp. rewrite !in_app_iff in Hp. destruct Hp as [[Hp|Hp]|[Hp|[]]]; [| |discriminate].
    + apply in_map_iff in Hp. destruct Hp as (y & Hy & _). discriminate.
    + apply in_flat_map in Hp. destruct Hp as (y & _ & [Hy|[Hy|[]]]); discriminate.
  - cbn in Hp. destruct Hp as [Hp|[]]. discriminate.
  - exact H.
Qed.

Lemma tstep_nl : forall c, nw c > 0 -> forall o t g (ls : locals lstate), QI c g ls /\ NL c g ls ->
  NL c (fst (sr_tstep c o t g (ls t))) (upd ls t (snd (sr_tstep c o t g (ls t)))).
Proof.
  intros c Hn o t g ls [[Q P] [N1 N2]].
  assert (Hid : NL c g (upd ls t (ls t))).
  { split; [exact N1|]. intros t2 cl2 H. unfold upd in H. destruct (Nat.eqb t2 t) eqn:E; [apply Nat.eqb_eq in E; subst|]; eapply N2; eassumption. }
  destruct (ls t) as [pc|cl|] eqn:L; cbn [sr_tstep]; [| |exact Hid].
  - destruct (Nat.ltb t (nw c)) eqn:Lt; [|exact Hid]. apply Nat.ltb_lt in Lt.
    pose proof (worker_qeff c o t g pc Lt) as (_ & _ & Kq). destruct (worker_step c o t g pc) as [g' pc']. cbn [fst snd] in *. split.
    + intros i tk Hin. destruct (Kq i tk Hin) as [H0|[_ [[-> _]|[-> Hs]]]]; [exact (N1 i tk H0)|exact Lt|].
      apply (N1 (lowq c) tk). right. exact Hs.
    + intros t2 cl2 H. unfold upd in H. destruct (Nat.eqb t2 t); [discriminate|]. eapply N2; eassumption.
  - destruct (Nat.ltb t (nw c)); [exact Hid|].
    pose proof (client_qeff c o t g cl) as Cq. pose proof (client_todo c o t g cl) as Ct.
    destruct (client_step c o t g cl) as [g' cl']. cbn [fst snd] in *. split.
    + intros i tk Hin. destruct Cq as [(E1 & E2 & _)|(q & v & h & low & rest & Htd & Hd & E1 & E2 & _)].
      * unfold inq in Hin. rewrite E1, E2 in Hin. exact (N1 i tk Hin).
      * unfold inq in Hin. rewrite E1, E2 in Hin. rewrite in_app_iff in Hin. cbn in Hin.
        assert (Hin' : inq g i tk \/ i = q) by (unfold inq; destruct Hin as [H|[H|[H|[]]]]; auto; inversion H; auto).
        destruct Hin' as [H0| ->]; [exact (N1 i tk H0)|].
        pose proof (N2 t cl L) as F. rewrite Htd in F. inversion F as [|? ? F1 _]; subst. cbn in F1. destruct low; [contradiction|].
        pose proof (P t cl L) as PO. unfold phase_ok in PO.
        destruct Hd as [(i0 & Hp & -> & _)|(i0 & Hp & -> & _)]; rewrite Hp in PO; [rewrite Htd in PO|]; exact PO.
    + intros t2 cl2 H. unfold upd in H. destruct (Nat.eqb t2 t).
      * inversion H; subst. pose proof (N2 t cl L) as F. destruct Ct as [-> | ->]; [exact F|apply forall_tl, F].
      * eapply N2; eassumption.
Qed.

Lemma sr_nolow : forall c progs sched, nw c > 0 -> (forall t, Forall no_lowprio (progs t)) ->
  qof (lowq c) (qs (fst (sr_run c progs sched))) = [] /\ qof (lowq c) (sq (fst (sr_run c progs sched))) = [].
Proof.
  intros c progs sched Hn Hnl.
  assert (R : QI c (fst (sr_run c progs sched)) (snd (sr_run c progs sched)) /\ NL c (fst (sr_run c progs sched)) (snd (sr_run c progs sched))).
  { unfold sr_run.
    apply (run_inv gst lstate oracle (sr_tstep c) (fun g ls => QI c g ls /\ NL c g ls)).
    - intros o t g ls H. split; [apply tstep_qi; [exact Hn|exact (proj1 H)]|apply tstep_nl; assumption].
    - cbn [fst snd]. split; [split; [intros i tk [[]|[]]|]|split; [intros i tk [[]|[]]|]].
      + intros t cl H. unfold sr_locals in H. destruct (Nat.ltb t (nw c)); [discriminate|]. inversion H; subst. exact I.
      + intros t cl H. unfold sr_locals in H. destruct (Nat.ltb t (nw c)); [discriminate|]. inversion H; subst. cbn [todo].
        generalize (Hnl t). generalize (progs t). induction l as [|a l IH]; intros F; cbn; [constructor|]. inversion F; subst.
        apply Forall_app. split; [apply expand_nolow; assumption|apply IH; assumption]. }
  destruct R as [_ [N1 _]].
  assert (E : forall l, (forall tk, In (lowq c, tk) l -> inq (fst (sr_run c progs sched)) (lowq c) tk) -> qof (lowq c) l = []).
  { intros l Hl. destruct (qof (lowq c) l) as [|x r] eqn:Eq; [reflexivity|exfalso].
    assert (Hin : In x (qof (lowq c) l)) by (rewrite Eq; left; reflexivity). apply in_qof in Hin.
    pose proof (N1 _ _ (Hl x Hin)) as B. unfold lowq in B. lia. }
  split; apply E; intros tk H; [left|right]; exact H.
Qed.

(* the old statements under the syntactic guard "no low-priority task is ever submitted" *)
Lemma suspend_resume_return_nolow : forall c progs sched, nw c > 0 -> (forall t, Forall (api_ok c) (progs t)) ->
  (forall t, Forall no_lowprio (progs t)) ->
  let cf := sr_run c progs sched in
  stuck c cf -> forall t, client_done (snd cf t) = true \/ (at_wait_idle (snd cf t) = true /\ live (fst cf) > 0).
Proof.
  intros c progs sched Hn Hok Hnl cf S. destruct (sr_nolow c progs sched Hn Hnl) as [E1 E2].
  exact (suspend_resume_return_guarded c progs sched Hok S E1 E2).
Qed.

Lemma no_task_stranded_stealing_nolow : forall c progs sched w0, (forall t, Forall (api_ok c) (progs t)) ->
  (forall t, Forall no_lowprio (progs t)) ->
  let cf := sr_run c progs sched in
  stealing c = true -> stuck c cf -> w0 < nw c -> st (fst cf) w0 = rs_running ->
  qs (fst cf) = [] /\ sq (fst cf) = [] /\ heldl (fst cf) = [] /\ Permutation (map fst (executed (fst cf))) (submitted (fst cf)).
Proof.
  intros c progs sched w0 Hok Hnl cf St S Hw Hr. destruct (sr_nolow c progs sched ltac:(lia) Hnl) as [_ E2].
  destruct (no_task_stranded_stealing c progs sched w0 Hok St S Hw Hr) as (A & B & _ & D). destruct (D E2) as [D1 D2]. auto.
Qed.
