(* Proofs/DequeAbaLin.v — the UNGUARDED run-level theorems for the repaired deque (link tags
   continue across node reuse): from the labelled step ([core_step], Proofs/DequeAbaProofs.v) to the
   chain invariant, conservation, exactly-once and linearizability against the two-ended list, for
   every pool size, thread count, program and schedule, with unrestricted recycling of nodes
   (Base/Conc.run_inv on the ghost-instrumented step [dq_tstep_i] of Model/DequeLin.v; the
   list/permutation lemmas of Proofs/DequeLinProofs.v are re-used).  The ghost flag [aba] of the
   model ("a link CAS hit a recycled node", the former guard) is proved to stay false. *)
From Coq Require Import List NArith Bool Lia Arith Permutation.
From Pika Require Import Base.Conc Model.IndexQueue Model.DequeSpec Model.Deque Model.DequeLin
  Proofs.DequeProofs Proofs.DequeConcDefs Proofs.DequeConcStab Proofs.DequeLinProofs
  Proofs.DequeAbaDefs Proofs.DequeAbaStab Proofs.DequeAbaProofs.
Import ListNotations.
Local Open Scope N_scope.

Lemma lin_step t g (ls : locals dq_local) c pend lin lab g' l' c' pend' :
  Core g ls c pend -> Lin g lin ls c -> Trans t g (ls t) c pend lab g' l' c' pend' ->
  Lin g' (lin_event t g (ls t) ++ lin) (upd ls t l') c'.
Proof.
  intros HC [L1 L2] (DF & HT & HH).
  assert (Fc : vals g' c = vals g c) by (apply vals_frame; eapply data_frame_sub; [|exact DF]; intros; apply in_app_l; auto).
  (* the threads that did not move *)
  assert (OT : forall le de, lin_event t g (ls t) = le -> dlog g' = de ++ dlog g ->
               (forall e, In e (le ++ de) -> dv_tid e = t) ->
               forall t0, t0 <> t -> of_tid t0 (le ++ lin) = pending t0 g' (upd ls t l' t0) ++ of_tid t0 (dlog g')).
  { intros le de El Ed Ht t0 Hne. rewrite upd_other by exact Hne. rewrite Ed.
    assert (Fl : forall xs, (forall e, In e xs -> dv_tid e = t) -> forall ys, of_tid t0 (xs ++ ys) = of_tid t0 ys).
    { induction xs as [|x xs IH]; intros Hx ys; [reflexivity|]. cbn [app]. rewrite of_tid_cons_other.
      - apply IH. intros e He. apply Hx. right. exact He.
      - rewrite (Hx x (or_introl eq_refl)). auto. }
    rewrite !Fl by (intros e He; apply Ht; apply in_or_app; auto). rewrite L2. f_equal.
    pose proof (co_J _ _ _ _ HC t0) as HJ. unfold J in HJ. unfold pending.
    destruct (dpc (ls t0)); try reflexivity. destruct HJ as [_ Ha]. rewrite (DF a (in_app_r _ _ _ Ha)). reflexivity. }
  destruct lab as [|s v|s v|s|s v].
  - destruct HT as (-> & -> & Ed & El). destruct HH as [H1 H2]. rewrite El. cbn [app]. split.
    + rewrite Fc. exact L1.
    + intros t0. destruct (Nat.eq_dec t0 t) as [->|Hne].
      * rewrite upd_same, Ed, (holds_pending t g' l' H2), L2, (holds_pending t g _ H1). reflexivity.
      * apply (OT [] [] El); [rewrite Ed; reflexivity|intros e []|exact Hne].
  - destruct HT as (n & V & Dn & -> & Ed & El). destruct HH as [H1 H2]. rewrite El. cbn [app]. split.
    + rewrite (vals_push g g' s n c c' V Fc), Dn.
      apply (lin_snoc lin (ev t (Push s v) None)); [exact L1|reflexivity].
    + intros t0. destruct (Nat.eq_dec t0 t) as [->|Hne].
      * rewrite upd_same, Ed, (holds_pending t g' l' H2), !of_tid_cons_same by reflexivity.
        rewrite L2, (holds_pending t g _ H1). reflexivity.
      * apply (OT [ev t (Push s v) None] [ev t (Push s v) None] El Ed); [|exact Hne].
        intros e [<-|[<-|[]]]; reflexivity.
  - destruct HT as (a & V & -> & Dv & Ed & El & PC'). rewrite El. cbn [app].
    assert (Hac : In a c) by (apply (in_vw s); rewrite V; left; reflexivity).
    split.
    + assert (E : spec_step (Pop s) (vals g c) = (Some v, vals g' c')).
      { cbn [spec_step]. rewrite <- vals_vw, V. change (vals g (a :: vw s c')) with (ndata (heap g a) :: vals g (vw s c')).
        rewrite <- Dv. f_equal. rewrite <- vals_vw, vw_vw. symmetry. apply vals_frame.
        eapply data_frame_sub; [|exact DF]. intros x Hx. apply in_app_l. apply (in_vw s). rewrite V. right.
        apply (in_vw s). exact Hx. }
      replace (vals g' c') with (snd (spec_step (dv_op (ev t (Pop s) (Some v))) (vals g c))) by (cbn [ev dv_op]; rewrite E; reflexivity).
      apply lin_snoc; [exact L1|]. cbn [ev dv_op dv_res]. rewrite E. reflexivity.
    + intros t0. destruct (Nat.eq_dec t0 t) as [->|Hne].
      * rewrite upd_same, Ed, of_tid_cons_same by reflexivity. rewrite L2, (holds_pending t g _ HH).
        unfold pending. rewrite PC'. rewrite (DF a (in_app_l _ _ _ Hac)), <- Dv. reflexivity.
      * apply (OT [ev t (Pop s) (Some v)] [] El); [rewrite Ed; reflexivity| |exact Hne].
        intros e [<-|[]]; reflexivity.
  - destruct HT as (-> & -> & -> & Ed & El). destruct HH as [H1 H2]. rewrite El. cbn [app]. split.
    + replace (vals g' []) with (snd (spec_step (dv_op (ev t (Pop s) None)) (vals g []))) by (destruct s; reflexivity).
      apply lin_snoc; [exact L1|]. cbn. destruct s; reflexivity.
    + intros t0. destruct (Nat.eq_dec t0 t) as [->|Hne].
      * rewrite upd_same, Ed, (holds_pending t g' l' H2), !of_tid_cons_same by reflexivity.
        rewrite L2, (holds_pending t g _ H1). reflexivity.
      * apply (OT [ev t (Pop s) None] [ev t (Pop s) None] El Ed); [|exact Hne].
        intros e [<-|[<-|[]]]; reflexivity.
  - destruct HT as (a & p1 & p2 & -> & Ep & -> & PC & Dv & Ed & El). rewrite El. cbn [app]. split.
    + rewrite Fc. exact L1.
    + intros t0. destruct (Nat.eq_dec t0 t) as [->|Hne].
      * rewrite upd_same, Ed, (holds_pending t g' l' HH), of_tid_cons_same by reflexivity.
        rewrite L2. unfold pending. rewrite PC, <- Dv. reflexivity.
      * apply (OT [] [ev t (Pop s) (Some v)] El Ed); [|exact Hne].
        intros e [<-|[]]; reflexivity.
Qed.

(* ------------------------------------------------------------------ the run-level invariant *)
Definition InvI (gg : dq_shared * dq_ghost) (ls : locals dq_local) : Prop :=
  aba (fst gg) = false /\
  exists c pend, Core (fst gg) ls c pend /\ Cons (fst gg) c pend /\ Lin (fst gg) (glin (snd gg)) ls c.

Lemma invI_step o t gg (ls : locals dq_local) : InvI gg ls ->
  InvI (fst (dq_tstep_i o t gg (ls t))) (upd ls t (snd (dq_tstep_i o t gg (ls t)))).
Proof.
  destruct gg as [g gh], o. unfold InvI, dq_tstep_i. cbn [fst snd]. intros (R1 & c & pend & HC & HCo & HL).
  pose proof (core_step t g ls c pend HC) as CS. pose proof (aba_step t g ls c pend HC R1) as AS.
  destruct (dq_tstep tt t g (ls t)) as [g' l'] eqn:E. cbn [fst snd greuse glin] in *.
  split; [exact AS|].
  destruct CS as (c' & pend' & lab & HC' & HT).
  exists c', pend'. split; [exact HC'|]. split.
  - eapply cons_step; eauto.
  - eapply lin_step; eauto.
Qed.

Lemma init_core k progs : Core (dq_init k) (dq_locals progs) [] [].
Proof.
  split; cbn [dq_init anc heap pool fresh epoch app].
  - intros s. destruct s; reflexivity.
  - exact I.
  - constructor.
  - intros a [].
  - intros a H. congruence.
  - lia.
  - destruct (init_inv k) as [fl [_ _ _ _ F N R _]]. exists fl. cbn [dq_init heap pool fresh app] in *.
    split; [exact F|]. split; [exact N|]. intros a Ha. split; [reflexivity|apply R; exact Ha].
  - intros t. exact I.
  - intros t t' n _ H. cbn in H. discriminate.
  - intros a [].
Qed.

Lemma init_invI k progs : InvI (dq_init k, ghost0) (dq_locals progs).
Proof.
  split; [reflexivity|]. exists [], []. split; [apply init_core|]. split.
  - unfold Cons. cbn. constructor.
  - split; [reflexivity|]. intros t. reflexivity.
Qed.

Theorem deque_main k progs sched :
  let ci := dq_run_i sched k progs in
  aba (fst (fst ci)) = false /\
  exists c pend, Core (fst (fst ci)) (snd ci) c pend /\ Cons (fst (fst ci)) c pend /\
                 Lin (fst (fst ci)) (glin (snd (fst ci))) (snd ci) c.
Proof.
  cbv zeta. unfold dq_run_i.
  apply (run_inv _ _ _ dq_tstep_i InvI); [|apply init_invI].
  intros o t g ls H. apply invI_step. exact H.
Qed.

(* ------------------------------------------------------------------ readable corollaries *)
Lemma pend_iff g ls c pend a : Core g ls c pend -> (In a pend <-> exists t s, dpc (ls t) = QFree s a).
Proof.
  intros HC. split; [apply (co_pend _ _ _ _ HC)|]. intros (t & s & E).
  pose proof (co_J _ _ _ _ HC t) as HJ. unfold J in HJ. rewrite E in HJ. apply HJ.
Qed.

Lemma no_crash g ls c pend t : Core g ls c pend -> dpc (ls t) <> DCrashed.
Proof. intros HC E. pose proof (co_J _ _ _ _ HC t) as HJ. unfold J in HJ. rewrite E in HJ. exact HJ. Qed.

(* Michael's invariant, written out *)
Definition chain_invariant_e (g : dq_shared) (ls : locals dq_local) (c pend : list addr) : Prop :=
  (* the anchor points at the two ends of the chain (nullptr when it is empty) *)
  al (anc g) = hd 0 c /\ ar (anc g) = List.last c 0 /\
  (* doubly linked from left to right, except possibly the outward link of the old end node
     next to a freshly pushed end node while the status is not stable *)
  match ast (anc g) with
  | Stable => linkedS SL (heap g) c
  | RPush => exists n p r, rev c = n :: p :: r /\ lptr (nleft (heap g n)) = p /\ linkedS SR (heap g) (p :: r)
  | LPush => exists n p r, c = n :: p :: r /\ lptr (nright (heap g n)) = p /\ linkedS SL (heap g) (p :: r)
  end /\
  (* no two nodes coincide (chain and unlinked-but-not-yet-freed nodes), all are allocated,
     not freed (odd epoch: every allocate and every deallocate bumps it), not nullptr, inside the
     pool's address range *)
  NoDup (c ++ pend) /\ (forall a, In a (c ++ pend) -> N.odd (epoch g a) = true /\ 0 < a < fresh g) /\
  (* pend = the nodes held by threads between their pop CAS and FREE *)
  (forall a, In a pend <-> exists t s, dpc (ls t) = QFree s a) /\
  (* nobody dereferenced nullptr *)
  (forall t, dpc (ls t) <> DCrashed).

Lemma core_chain_invariant_e g ls c pend : Core g ls c pend -> chain_invariant_e g ls c pend.
Proof.
  intros HC. unfold chain_invariant_e.
  split; [apply (co_ends _ _ _ _ HC SL)|]. split; [apply (ends_far _ _ _ _ HC SL)|].
  split; [exact (co_shape _ _ _ _ HC)|]. split; [apply (co_nodup _ _ _ _ HC)|].
  split; [|split; [intros a; eapply pend_iff; eauto|intros t; eapply no_crash; eauto]].
  intros a Ha. pose proof (co_live _ _ _ _ HC a Ha) as E. split; [exact E|]. eapply live_pos; eauto.
Qed.

Lemma stable_contents g ls c pend : Core g ls c pend -> ast (anc g) = Stable -> dq_contents (length c) g = vals g c.
Proof.
  intros HC ST. unfold dq_contents. change (al (anc g)) with (aend SL (anc g)). change (ar (anc g)) with (aend (opp SL) (anc g)).
  rewrite (co_ends _ _ _ _ HC SL), (ends_far _ _ _ _ HC SL). cbn [vw].
  destruct c as [|a r]; [reflexivity|]. apply walk_chain.
  - discriminate.
  - pose proof (co_shape _ _ _ _ HC) as S. unfold shape_ok in S. rewrite ST in S. exact S.
  - eapply nodup_c; eauto.
  - intros x Hx E. subst x. apply (chain_pos _ _ _ _ HC) in Hx. lia.
  - reflexivity.
Qed.

(* the ghost flag [aba] of the model is never raised: no link CAS ever succeeds against a node
   that was freed or re-allocated since its expected value was read *)
Theorem deque_aba_never k progs sched : aba (fst (dq_run sched k progs)) = false.
Proof. destruct (dq_run_i_erase k progs sched) as [E1 _]. rewrite <- E1. apply (proj1 (deque_main k progs sched)). Qed.

Theorem deque_chain_invariant_lemma k progs sched :
  exists c pend, chain_invariant_e (fst (dq_run sched k progs)) (snd (dq_run sched k progs)) c pend.
Proof.
  destruct (dq_run_i_erase k progs sched) as [E1 E2].
  destruct (proj2 (deque_main k progs sched)) as (c & pend & HC & _). rewrite E1, E2 in HC.
  exists c, pend. apply core_chain_invariant_e. exact HC.
Qed.

Theorem deque_conservation_lemma k progs sched :
  let g := fst (dq_run sched k progs) in let ls := snd (dq_run sched k progs) in
  exists c pend, chain_invariant_e g ls c pend /\
    Permutation (pushed_vals (dlog g)) (popped_vals (dlog g) ++ vals g c ++ vals g pend) /\
    (forall v, (count_occ_N v (popped_vals (dlog g)) <= count_occ_N v (pushed_vals (dlog g)))%nat) /\
    ((forall t s a, dpc (ls t) <> QFree s a) ->
     Permutation (pushed_vals (dlog g)) (popped_vals (dlog g) ++ vals g c)) /\
    (ast (anc g) = Stable -> dq_contents (length c) g = vals g c).
Proof.
  cbv zeta. destruct (dq_run_i_erase k progs sched) as [E1 E2].
  destruct (proj2 (deque_main k progs sched)) as (c & pend & HC & HCo & _). rewrite E1, E2 in *.
  exists c, pend. split; [apply core_chain_invariant_e; exact HC|]. split; [exact HCo|]. split; [|split].
  - intros v. rewrite (count_perm v _ _ HCo), !count_app. lia.
  - intros NF. assert (pend = []).
    { destruct pend as [|a r]; [reflexivity|exfalso].
      destruct (co_pend _ _ _ _ HC a (or_introl eq_refl)) as (t & s & E). exact (NF t s a E). }
    subst pend. unfold Cons in HCo. cbn [vals map] in HCo. rewrite app_nil_r in HCo. exact HCo.
  - apply (stable_contents _ _ _ _ HC).
Qed.

Theorem deque_linearizable_lemma k progs sched :
  let ci := dq_run_i sched k progs in
  let g := fst (dq_run sched k progs) in let ls := snd (dq_run sched k progs) in
  let lin := glin (snd (fst ci)) in
  exists c pend, chain_invariant_e g ls c pend /\
    spec_run (log_ops lin) [] = (log_res lin, vals g c) /\
    (forall t, of_tid t lin = pending t g (ls t) ++ of_tid t (dlog g)).
Proof.
  cbv zeta. destruct (dq_run_i_erase k progs sched) as [E1 E2].
  destruct (proj2 (deque_main k progs sched)) as (c & pend & HC & _ & HL). rewrite E1, E2 in *.
  exists c, pend. split; [apply core_chain_invariant_e; exact HC|]. exact HL.
Qed.

(* one step, as a simulation of the list: what each step does to the abstract state *)
Theorem deque_step_refines_lemma t g (ls : locals dq_local) c pend :
  Core g ls c pend ->
  let g' := fst (dq_tstep tt t g (ls t)) in let l' := snd (dq_tstep tt t g (ls t)) in
  exists c' pend' lab, Core g' (upd ls t l') c' pend' /\ Trans t g (ls t) c pend lab g' l' c' pend'.
Proof. intros HC. apply core_step; assumption. Qed.

(* a pop reports "empty" only when the abstract list is empty at its anchor load *)
Theorem deque_empty_pop_lemma t g (ls : locals dq_local) c pend s :
  Core g ls c pend ->
  dlog (fst (dq_tstep tt t g (ls t))) = ev t (Pop s) None :: dlog g ->
  c = [] /\ al (anc g) = 0 /\ ar (anc g) = 0.
Proof.
  intros HC HD. destruct (core_step t g ls c pend HC) as (c' & pend' & lab & _ & (_ & HT & _)).
  assert (NE : forall (x : dq_ev) lg, lg = x :: lg -> False).
  { intros x lg E. apply (f_equal (@length _)) in E. cbn in E. lia. }
  assert (c = []).
  { destruct lab as [|s' v|s' v|s'|s' v].
    - destruct HT as (_ & _ & Ed & _). rewrite Ed in HD. exfalso. eapply NE; eauto.
    - destruct HT as (n & _ & _ & _ & Ed & _). rewrite Ed in HD. inversion HD.
    - destruct HT as (a & _ & _ & _ & Ed & _). rewrite Ed in HD. exfalso. eapply NE; eauto.
    - apply HT.
    - destruct HT as (a & p1 & p2 & _ & _ & _ & _ & _ & Ed & _). rewrite Ed in HD. inversion HD. }
  subst c. split; [reflexivity|]. split; [apply (co_ends _ _ _ _ HC SL)|apply (co_ends _ _ _ _ HC SR)].
Qed.

(* the full concurrent statement of C17 for the deque ([deque_exactly_once_all_schedules],
   Proofs/DequeProofs.v): refuted for the code before the repair of F15, a theorem now *)
Theorem deque_exactly_once_lemma : deque_exactly_once_all_schedules.
Proof.
  intros k progs sched. cbv zeta. destruct (deque_conservation_lemma k progs sched) as (c & pend & CI & _ & LE & NF & _).
  fold (dq_run sched k progs). split; [exact LE|]. intros Hal Hdone v.
  destruct CI as (Eh & _ & _ & _ & Hpos & _).
  assert (c = []).
  { destruct c as [|a r]; [reflexivity|exfalso]. cbn [hd] in Eh.
    destruct (Hpos a (or_introl eq_refl)) as [_ P]. unfold dq_run in *. lia. }
  subst c. assert (P : Permutation (pushed_vals (dlog (fst (dq_run sched k progs)))) (popped_vals (dlog (fst (dq_run sched k progs))) ++ vals (fst (dq_run sched k progs)) [])).
  { apply NF. intros t s a E. specialize (Hdone t). unfold dq_run in *. unfold dq_done in Hdone. rewrite E in Hdone. discriminate. }
  cbn [vals map] in P. rewrite app_nil_r in P. symmetry. apply count_perm. exact P.
Qed.
