(* Proofs/SemaphoreMixedProgress.v — progress half for several semaphore objects with ONE shared agent
   table (Model/SemaphoreMixed.v).  The per-thread invariant TI of the base proof is false on the
   view of object A for a thread that is blocked on another object (ti_blk).  So per object the
   threads are split: a thread whose current operation is on the object satisfies the base TI on the
   REAL view (real shared agent table, no masking); a thread that is elsewhere satisfies TIoff (not in
   the object's queue / popped, no signal-loop budget, not the lock holder, OS thread => no token).
   eff_TI_local is the base proof of eff_TI with its hypothesis restricted to the three threads it
   actually uses (the goal thread, the stepping thread, a queued / popped waiter). *)
From Coq Require Import List ZArith Bool Arith Lia.
From Pika Require Import Base.Conc Base.Agent Model.Semaphore Model.SemaphoreMixed
  Proofs.SemaphoreProofs Proofs.SemaphoreProgress Proofs.SemaphoreMixedProofs.
Import ListNotations.
Local Open Scope Z_scope.

Ltac ti_frame' H g Ev :=
  let Eva := fresh "Ev" in let El := fresh "El" in let Em := fresh "Em" in let Eq := fresh "Eq" in
  let Eh := fresh "Eh" in let Ea := fresh "Ea" in let Ep := fresh "Ep" in let Es := fresh "Es" in
  destruct Ev as (Eva & El & Em & Eq & Eh & Ea & Ep & Es);
  apply TI_frame with (g := g);
  [ exact H
  | rewrite Eq; simp_cnt; try reflexivity
  | rewrite Ep; simp_cnt; try reflexivity
  | rewrite Es; simp_cnt; try reflexivity
  | rewrite Ea; simp_cnt; try reflexivity
  | rewrite Eh; try tauto
  | rewrite Ep; try reflexivity
  | unfold target; rewrite Eh, ?Ep; try tauto ].
Ltac t_pre' H Hpc :=
  let Tt := fresh "Tt" in
  pose proof H as Tt; rewrite ?Hpc in Tt; destruct Tt as [t1 t2 t3 t4 t5 t6 t7 t8 t9];
  cbn [iswait issusp isblk isres sigk] in *.
Ltac fr_auto' H Hh :=
  cbn [hd_error]; rewrite ?Hh; try tauto; try (split; congruence);
  try (let R := fresh in intros R; apply (ti_hold _ _ _ _ H) in R; congruence).

Lemma eff_TI_local kind t g ls g' l' u :
  TI kind g u (pc (ls u)) -> TI kind g t (pc (ls t)) ->
  (forall w, (1 <= cnt w (queue g) + cnt w (popped g))%nat -> TI kind g w (pc (ls w))) ->
  eff kind t g (ls t) g' l' ->
  TI kind g' u (pc (upd ls t l' u)).
Proof.
  intros HTu HTt HTw He.
  destruct He as [Eg El | w Hpc Hpc' Ev | d Hpc Hpc' Hh Hd Ev | c Hpc Hh Hpc' Hcb Hop Ev | c Hpc Hpc' Ev
                 | c Hwk Hpc' Hh Hcb Ev | n Hpc Hpc' Hh Hm Ev | c Hwk Hpc' Hh Hcb Ev
                 | k v1 lo1 md1 chk Hsp Hh Hk Hpc' Ev | k v1 lo1 md1 chk w q' Hsp Hh Hk Hq Hq' Hkw Hpc' Ev
                 | k v1 lo1 md1 chk w Hsp Hh Hk Hq Hkw Hpc' Ev | k v1 lo1 md1 chk w q' Hsp Hh Hk Hq Hkw Hb Hpc' Ev
                 | w chk k Hpc Hb Hq Hpc' Ev | w chk k Hpc Hb Hq Hpc' Ev ].
  - (* stutter *)
    subst g' l'. destruct (Nat.eq_dec u t) as [->|N]; [rewrite upd_eq|rewrite upd_neq by auto]; exact HTu.
  - (* stale *)
    assert (Hp : pc (upd ls t l' u) = pc (ls u)).
    { destruct (Nat.eq_dec u t) as [->|N]; [rewrite upd_eq; congruence|now rewrite upd_neq by auto]. }
    rewrite Hp. clear Hp. destruct (kind w) eqn:Hkw; [|ti_frame' HTu g Ev].
    destruct (Nat.eq_dec u w) as [->|Nw]; [|ti_frame' HTu g Ev].
    pose proof HTu as [t1 t2 t3 t4 t5 t6 t7 t8 t9]. ti_fin Ev; auto; try congruence.
    + cbn. discriminate.
    + intros Hc. specialize (t8 Hc). cbn. destruct t8 as [t8a t8b]. split.
      * intros Hs. left. destruct (blocked (ag g w)) eqn:Hb; [|reflexivity].
        specialize (t3 eq_refl). destruct (pc (ls w)); discriminate.
      * intros _. now left.
    + intros Ht. apply t9 in Ht. destruct Ht. congruence.
  - (* idle *)
    assert (Hp : pc (upd ls t l' u) = pc (ls u)).
    { destruct (Nat.eq_dec u t) as [->|N]; [rewrite upd_eq; congruence|now rewrite upd_neq by auto]. }
    rewrite Hp. clear Hp. ti_frame' HTu g Ev; rewrite Hh; tauto.
  - (* enqueue *)
    destruct (Nat.eq_dec u t) as [->|N].
    + rewrite upd_eq. pose proof HTt as Tt. rewrite Hpc in Tt. destruct Tt as [t1 t2 t3 t4 t5 t6 t7 t8 t9].
      cbn [iswait issusp isblk isres sigk] in *. rewrite ?(target_none g Hh) in *.
      assert (Hw : iswait (pc l') = true /\ isblk (pc l') = false /\ isres (pc l') = false /\ sigk (pc l') = 0).
      { destruct Hpc' as [->|[n [_ ->]]]; cbn; auto. }
      destruct Hw as (W1 & W2 & W3 & W4). ti_fin Ev; rewrite ?W1, ?W2, ?W3, ?W4; ti_auto.
    + rewrite upd_neq by auto. ti_frame' HTu g Ev; rewrite ?Hh; try tauto.
  - (* suspend *)
    destruct (Nat.eq_dec u t) as [->|N].
    + rewrite upd_eq, Hpc'. t_pre' HTt Hpc. ti_fin Ev; unfold a_suspend; destruct (ag g t) as [[|] [|]]; cbn in *; ti_auto.
    + rewrite upd_neq by auto. ti_frame' HTu g Ev; tauto.
  - (* woken: take *)
    destruct (Nat.eq_dec u t) as [->|N].
    + rewrite upd_eq, Hpc'.
      destruct Hwk as [[Hpc Hb]|[n [-> Hpc]]]; t_pre' HTt Hpc; rewrite ?(target_none g Hh) in *; ti_fin Ev; ti_auto.
    + rewrite upd_neq by auto. ti_frame' HTu g Ev; fr_auto' HTu Hh.
  - (* timeout *)
    destruct (Nat.eq_dec u t) as [->|N].
    + rewrite upd_eq, Hpc'. t_pre' HTt Hpc; rewrite ?(target_none g Hh) in *; ti_fin Ev; ti_auto.
    + rewrite upd_neq by auto. ti_frame' HTu g Ev; fr_auto' HTu Hh.
  - (* woken: enqueue again *)
    destruct (Nat.eq_dec u t) as [->|N].
    + rewrite upd_eq, Hpc'.
      destruct Hwk as [[Hpc Hb]|[n [-> Hpc]]]; t_pre' HTt Hpc; rewrite ?(target_none g Hh) in *; rewrite Hpc; cbn [renq];
        ti_fin Ev; ti_auto.
    + rewrite upd_neq by auto. ti_frame' HTu g Ev; fr_auto' HTu Hh.
  - (* signal: finish *)
    destruct (sig_pre_pc _ _ _ _ _ _ _ Hsp) as (W1 & W2 & W3 & W4 & W5).
    destruct (Nat.eq_dec u t) as [->|N].
    + rewrite upd_eq, Hpc'. t_pre' HTt Hpc. rewrite W1, W2, W3, W4 in *. rewrite ?(target_none g Hh) in *. ti_fin Ev; ti_auto.
    + rewrite upd_neq by auto. ti_frame' HTu g Ev; fr_auto' HTu Hh.
  - (* signal: pop resume continue *)
    destruct (sig_pre_pc _ _ _ _ _ _ _ Hsp) as (W1 & W2 & W3 & W4 & W5).
    assert (Nw : w <> t).
    { intros ->. destruct HTt as [c1 _ _ _ _ _ _ _ _]. rewrite W1, Hq, cnt_cons_same in c1. lia. }
    destruct (Nat.eq_dec u t) as [->|N]; [|destruct (Nat.eq_dec u w) as [->|N2]].
    + rewrite upd_eq, Hpc'. destruct HTt as [t1 t2 t3 t4 t5 t6 t7 t8 t9]. rewrite ?W1, ?W2, ?W3, ?W4 in *.
      rewrite ?(target_none g Hh) in *. rewrite Hq in *. rewrite cnt_cons_other in * by congruence.
      ti_fin Ev; ti_auto.
    + rewrite upd_neq by auto. destruct HTu as [t1 t2 t3 t4 t5 t6 t7 t8 t9].
      rewrite ?(target_none g Hh) in *. rewrite Hq in *. rewrite cnt_cons_same in *.
      ti_fin Ev; destruct (pc (ls w)); cbn [iswait issusp isblk isres sigk] in *;
        destruct (ag g w) as [[|] [|]]; cbn in *; ti_auto.
    + rewrite upd_neq by auto. ti_frame' HTu g Ev; fr_auto' HTu Hh; rewrite Hq; simp_cnt; reflexivity.
  - (* signal: pop resume finish *)
    destruct (sig_pre_pc _ _ _ _ _ _ _ Hsp) as (W1 & W2 & W3 & W4 & W5).
    assert (Nw : w <> t).
    { intros ->. destruct HTt as [c1 _ _ _ _ _ _ _ _]. rewrite W1, Hq, cnt_cons_same in c1. lia. }
    destruct (Nat.eq_dec u t) as [->|N]; [|destruct (Nat.eq_dec u w) as [->|N2]].
    + rewrite upd_eq, Hpc'. destruct HTt as [t1 t2 t3 t4 t5 t6 t7 t8 t9]. rewrite ?W1, ?W2, ?W3, ?W4 in *.
      rewrite ?(target_none g Hh) in *. rewrite Hq in *. rewrite cnt_cons_other in * by congruence.
      ti_fin Ev; ti_auto.
    + rewrite upd_neq by auto. destruct HTu as [t1 t2 t3 t4 t5 t6 t7 t8 t9].
      rewrite ?(target_none g Hh) in *. rewrite Hq in *. rewrite cnt_cons_same in *.
      ti_fin Ev; destruct (pc (ls w)); cbn [iswait issusp isblk isres sigk] in *;
        destruct (ag g w) as [[|] [|]]; cbn in *; ti_auto.
    + rewrite upd_neq by auto. ti_frame' HTu g Ev; fr_auto' HTu Hh; rewrite Hq; simp_cnt; reflexivity.
  - (* signal: pop, hold the lock inside default_agent::resume *)
    destruct (sig_pre_pc _ _ _ _ _ _ _ Hsp) as (W1 & W2 & W3 & W4 & W5).
    assert (Nw : w <> t).
    { intros ->. destruct HTt as [c1 _ _ _ _ _ _ _ _]. rewrite W1, Hq, cnt_cons_same in c1. lia. }
    destruct (Nat.eq_dec u t) as [->|N]; [|destruct (Nat.eq_dec u w) as [->|N2]].
    + rewrite upd_eq, Hpc'. destruct HTt as [t1 t2 t3 t4 t5 t6 t7 t8 t9]. rewrite ?W1, ?W2, ?W3, ?W4 in *.
      rewrite ?(target_none g Hh) in *. rewrite Hq in *. rewrite cnt_cons_other in * by congruence.
      ti_fin Ev; ti_auto.
    + rewrite upd_neq by auto. destruct HTu as [t1 t2 t3 t4 t5 t6 t7 t8 t9].
      rewrite ?(target_none g Hh) in *. rewrite Hq in *. rewrite cnt_cons_same in *.
      ti_fin Ev; destruct (pc (ls w)); cbn [iswait issusp isblk isres sigk] in *; ti_auto.
      intros _. exfalso. rewrite t5 in Hb; auto; [discriminate|lia].
    + rewrite upd_neq by auto. ti_frame' HTu g Ev; fr_auto' HTu Hh; try (rewrite Hq; simp_cnt; reflexivity).
  - (* resume wait over: queue empty *)
    assert (Hh : holder g = Some t).
    { destruct HTt as [_ _ _ _ _ c6 _ _ _]. rewrite Hpc in c6. apply c6. reflexivity. }
    assert (Hhd : hd_error (popped g) = Some w).
    { destruct HTt as [_ _ _ _ _ _ c7 _ _]. eapply c7. exact Hpc. }
    assert (Htg : target g = Some w) by (unfold target; rewrite Hh; exact Hhd).
    pose proof (cnt_hd _ _ Hhd) as Hcw.
    assert (Hbw : isblk (pc (ls w)) = true) by (destruct (HTw w ltac:(lia)) as [_ _ c3 _ _ _ _ _ _]; auto).
    assert (Nw : w <> t) by (intros ->; rewrite Hpc in Hbw; discriminate).
    destruct (Nat.eq_dec u t) as [->|N]; [|destruct (Nat.eq_dec u w) as [->|N2]].
    + rewrite upd_eq, Hpc'. t_pre' HTt Hpc. ti_fin Ev; ti_auto.
    + rewrite upd_neq by auto. destruct HTu as [t1 t2 t3 t4 t5 t6 t7 t8 t9].
      ti_fin Ev; destruct (pc (ls w)); try discriminate; cbn [iswait issusp isblk isres sigk] in *;
        destruct (ag g w) as [[|] [|]]; cbn in *; ti_auto.
    + rewrite upd_neq by auto. ti_frame' HTu g Ev; rewrite ?Hh, ?Hhd; try tauto; try (split; congruence); try (rewrite Hq; reflexivity).
  - (* resume wait over: continue the loop *)
    assert (Hh : holder g = Some t).
    { destruct HTt as [_ _ _ _ _ c6 _ _ _]. rewrite Hpc in c6. apply c6. reflexivity. }
    assert (Hhd : hd_error (popped g) = Some w).
    { destruct HTt as [_ _ _ _ _ _ c7 _ _]. eapply c7. exact Hpc. }
    assert (Htg : target g = Some w) by (unfold target; rewrite Hh; exact Hhd).
    pose proof (cnt_hd _ _ Hhd) as Hcw.
    assert (Hbw : isblk (pc (ls w)) = true) by (destruct (HTw w ltac:(lia)) as [_ _ c3 _ _ _ _ _ _]; auto).
    assert (Nw : w <> t) by (intros ->; rewrite Hpc in Hbw; discriminate).
    destruct (Nat.eq_dec u t) as [->|N]; [|destruct (Nat.eq_dec u w) as [->|N2]].
    + rewrite upd_eq, Hpc'. t_pre' HTt Hpc. ti_fin Ev; ti_auto.
    + rewrite upd_neq by auto. destruct HTu as [t1 t2 t3 t4 t5 t6 t7 t8 t9].
      ti_fin Ev; destruct (pc (ls w)); try discriminate; cbn [iswait issusp isblk isres sigk] in *;
        destruct (ag g w) as [[|] [|]]; cbn in *; ti_auto.
    + rewrite upd_neq by auto. ti_frame' HTu g Ev; rewrite ?Hh, ?Hhd; try tauto; try (split; congruence); try (rewrite Hq; reflexivity).
Qed.

(* ------------------------------------------------------------------ the counting invariant, local form *)
Lemma eff_CI_local kind t g ls g' l' :
  CI g -> TI kind g t (pc (ls t)) -> lwf (ls t) -> pub_op (cur_op (ls t)) ->
  eff kind t g (ls t) g' l' -> CI g'.
Proof.
  intros HC HT Hl Hpub He. unfold CI in *.
  pose proof (tot_nonneg (sigl g)) as Htn. pose proof (sg_nonneg t (sigl g)) as Hsn.
  pose proof (tot_rm t (sigl g)) as Htr. pose proof (len_rm t (popped g)) as Hlr.
  pose proof (tot_nonneg (rm_sig t (sigl g))) as Htn'.
  destruct HT as [t1 t2 _ _ _ _ _ _ _].
  destruct He as [Eg El | w Hpc Hpc' Ev | d Hpc Hpc' Hh Hd Ev | c Hpc Hh Hpc' Hcb Hop Ev | c Hpc Hpc' Ev
                 | c Hwk Hpc' Hh Hcb Ev | n Hpc Hpc' Hh Hm Ev | c Hwk Hpc' Hh Hcb Ev
                 | k v1 lo1 md1 chk Hsp Hh Hk Hpc' Ev | k v1 lo1 md1 chk w q' Hsp Hh Hk Hq Hq' Hkw Hpc' Ev
                 | k v1 lo1 md1 chk w Hsp Hh Hk Hq Hkw Hpc' Ev | k v1 lo1 md1 chk w q' Hsp Hh Hk Hq Hkw Hb Hpc' Ev
                 | w chk k Hpc Hb Hq Hpc' Ev | w chk k Hpc Hb Hq Hpc' Ev ];
    try (destruct Ev as (Ev & El & Em & Eq & Eh & Ea & Ep & Es); rewrite Ev, Eq, Ep, Es).
  - subst g'. exact HC.
  - exact HC.
  - assert (0 <= d).
    { destruct Hd as [->|Hd]; [lia|]. destruct (cur_op (ls t)); cbn in *; try discriminate; injection Hd as <-; lia. }
    destruct HC as [HC|HC]; [now left|right; lia].
  - assert (c = CAcq 1).
    { destruct c; cbn in Hop.
      - destruct Hop as [Hop|Hop]; rewrite Hop in Hpub; cbn in Hpub; now subst.
      - rewrite Hop in Hpub. contradiction. }
    subst c. cbn in Hcb. zb. right. lia.
  - exact HC.
  - assert (c = CAcq 1) by (eapply pub_wk; eauto). subst c. cbn in Hcb. zb. cbn [taken_of].
    destruct HC as [HC|HC]; [left; rewrite HC; reflexivity|right].
    assert (iswait (pc (ls t)) = true) as Hw by (destruct Hwk as [[-> _]|[n [_ ->]]]; reflexivity).
    rewrite Hw in t1. lia.
  - pose proof (mem_cnt _ _ Hm) as Hc. rewrite Hpc in t1. cbn in t1.
    destruct HC as [HC|HC]; [rewrite HC in Hm; discriminate|right]. lia.
  - assert (c = CAcq 1) by (eapply pub_wk; eauto). subst c. cbn in Hcb. zb. right. lia.
  - destruct (sig_pre_pc _ _ _ _ _ _ _ Hsp) as (_ & _ & _ & _ & W5).
    pose proof (pub_budget _ _ _ _ _ _ _ (sg t (sigl g)) Hpub Hsp ltac:(lia)) as Hbud.
    destruct HC as [HC|HC]; [now left|]. destruct Hk as [Hk|Hk]; [right; lia|now left].
  - pose proof (pub_budget _ _ _ _ _ _ _ (sg t (sigl g)) Hpub Hsp ltac:(lia)) as Hbud.
    destruct HC as [HC|HC]; [congruence|right]. cbn [tot snd length]. lia.
  - now left.
  - pose proof (pub_budget _ _ _ _ _ _ _ (sg t (sigl g)) Hpub Hsp ltac:(lia)) as Hbud.
    destruct HC as [HC|HC]; [congruence|right]. cbn [tot snd length]. lia.
  - now left.
  - rewrite Hpc in t2. cbn in t2. destruct HC as [HC|HC]; [congruence|right]. cbn [tot snd]. lia.
Qed.

(* ------------------------------------------------------------------ threads that are elsewhere *)
Record TIoff (kind : nat -> akind) (g : sem_g) (u : nat) : Prop := {
  to_q : cnt u (queue g) = 0%nat;
  to_p : cnt u (popped g) = 0%nat;
  to_s : sg u (sigl g) <= 0;
  to_h : holder g <> Some u;
  to_tok : kind u = OsThr -> tok (ag g u) = false
}.

Lemma TI_idle_off kind g u : TI kind g u Idle -> TIoff kind g u.
Proof.
  intros [t1 t2 t3 t4 t5 t6 t7 t8 t9]. cbn in *. constructor; try lia; auto.
  intros H. apply t6 in H. discriminate.
Qed.

Lemma TI_off_idle kind g u : TIoff kind g u -> blocked (ag g u) = false -> TI kind g u Idle.
Proof.
  intros [o1 o2 o3 o4 o5] Hb. constructor; cbn; try lia; auto; try congruence.
  - split; [intros H; congruence|discriminate].
  - unfold target. destruct (holder g); [|discriminate]. intros H. apply cnt_hd in H. lia.
Qed.

Lemma cnt0_hd u w q : cnt u (w :: q) = 0%nat -> u <> w /\ cnt u q = 0%nat.
Proof.
  cbn. destruct (Nat.eqb w u) eqn:E; [lia|]. apply Nat.eqb_neq in E. intros H. split; [congruence|lia].
Qed.

Lemma eff_off kind t g l g' l' u :
  TIoff kind g u -> u <> t -> TI kind g t (pc l) -> eff kind t g l g' l' -> TIoff kind g' u.
Proof.
  intros [o1 o2 o3 o4 o5] N HTt He.
  destruct He as [Eg El | w Hpc Hpc' Ev | d Hpc Hpc' Hh Hd Ev | c Hpc Hh Hpc' Hcb Hop Ev | c Hpc Hpc' Ev
                 | c Hwk Hpc' Hh Hcb Ev | n Hpc Hpc' Hh Hm Ev | c Hwk Hpc' Hh Hcb Ev
                 | k v1 lo1 md1 chk Hsp Hh Hk Hpc' Ev | k v1 lo1 md1 chk w q' Hsp Hh Hk Hq Hq' Hkw Hpc' Ev
                 | k v1 lo1 md1 chk w Hsp Hh Hk Hq Hkw Hpc' Ev | k v1 lo1 md1 chk w q' Hsp Hh Hk Hq Hkw Hb Hpc' Ev
                 | w chk k Hpc Hb Hq Hpc' Ev | w chk k Hpc Hb Hq Hpc' Ev ];
    try (subst g'; constructor; assumption);
    try (rewrite Hq in o1; apply cnt0_hd in o1; destruct o1 as [Nw o1]);
    try (assert (Nw : u <> w) by (intros ->; destruct HTt as [_ _ _ _ _ _ c7 _ _]; specialize (c7 _ _ _ Hpc);
                                   apply cnt_hd in c7; lia));
    destruct Ev as (Ev & El & Em & Eq & Eh & Ea & Ep & Es);
    constructor; rewrite ?Eq, ?Ep, ?Es, ?Eh, ?Ea; simp_cnt; try assumption; try lia; try congruence; try discriminate.
  all: try (rewrite Hq in *; cbn in *; lia).
  - intros Hk. destruct (kind w) eqn:Hkw; [|auto]. destruct (Nat.eq_dec u w) as [->|Nw]; [congruence|]. rewrite upd_neq by auto. auto.
Qed.

(* ------------------------------------------------------------------ the mixed invariant *)
Definition MTI (kind : nat -> akind) (G : mx_g) (Ls : nat -> mx_l) : Prop :=
  forall ob u, (cur_obj (Ls u) = Some ob -> TI kind (view G ob) u (mpc (Ls u))) /\
               (cur_obj (Ls u) <> Some ob -> TIoff kind (view G ob) u).
Definition MCI (fam : nat -> family) (G : mx_g) : Prop := forall ob, fam ob = Counting -> CI (objs G ob).
Definition PubM (fam : nat -> family) (Ls : nat -> mx_l) : Prop := forall u, Forall (pub_op_mixed fam) (mtodo (Ls u)).
Definition NTm (kind : nat -> akind) (Ls : nat -> mx_l) : Prop :=
  forall u, kind u = OsThr -> Forall (fun x => no_timed (snd x)) (mtodo (Ls u)).

Definition onb (ob : nat) (L : mx_l) : bool :=
  match mtodo L with [] => false | x :: _ => Nat.eqb (fst x) ob end.
Lemma onb_true ob L : onb ob L = true <-> cur_obj L = Some ob.
Proof.
  unfold onb, cur_obj. destruct (mtodo L) as [|x r]; [split; discriminate|].
  rewrite Nat.eqb_eq. split; [intros ->; reflexivity|congruence].
Qed.
Lemma onb_false ob L : onb ob L = false <-> cur_obj L <> Some ob.
Proof.
  rewrite <- onb_true. destruct (onb ob L); split; congruence.
Qed.

Definition idle_l : sem_l := {| todo := []; pc := Idle |}.
Definition lsv (A : nat) (Ls : nat -> mx_l) : nat -> sem_l :=
  fun u => if onb A (Ls u) then cur_view (Ls u) else idle_l.

Lemma TI_cnt_on kind G Ls A w : MTI kind G Ls ->
  (1 <= cnt w (queue (view G A)) + cnt w (popped (view G A)))%nat -> cur_obj (Ls w) = Some A.
Proof.
  intros HT Hc. destruct (onb A (Ls w)) eqn:E; [now apply onb_true|]. apply onb_false in E.
  destruct (proj2 (HT A w) E) as [o1 o2 _ _ _]. lia.
Qed.

(* step 1: the view of the stepping thread's object after the base step *)
Lemma A_post kind o t G Ls x rest :
  MTI kind G Ls -> mtodo (Ls t) = x :: rest -> lwf (cur_view (Ls t)) -> 0 <= value (view G (fst x)) ->
  let r := sem_tstep kind o t (view G (fst x)) (cur_view (Ls t)) in
  (forall u, cur_obj (Ls u) = Some (fst x) -> TI kind (fst r) u (if Nat.eqb u t then pc (snd r) else mpc (Ls u))) /\
  (forall u, cur_obj (Ls u) <> Some (fst x) -> TIoff kind (fst r) u).
Proof.
  intros HT Hm Hl Hv r. set (A := fst x) in *.
  assert (Hon : cur_obj (Ls t) = Some A) by (unfold cur_obj; rewrite Hm; reflexivity).
  pose proof (sem_tstep_eff kind o t _ _ Hv Hl) as He. fold r in He.
  assert (Hls : lsv A Ls t = cur_view (Ls t)) by (unfold lsv; rewrite (proj2 (onb_true A (Ls t)) Hon); reflexivity).
  assert (Hpcs : forall u, cur_obj (Ls u) = Some A -> pc (lsv A Ls u) = mpc (Ls u)).
  { intros u Hu. unfold lsv. rewrite (proj2 (onb_true A (Ls u)) Hu). reflexivity. }
  assert (HTon : forall u, cur_obj (Ls u) = Some A -> TI kind (view G A) u (pc (lsv A Ls u))).
  { intros u Hu. rewrite (Hpcs u Hu). apply (HT A u). exact Hu. }
  split.
  - intros u Hu. rewrite <- Hls in He.
    pose proof (eff_TI_local kind t (view G A) (lsv A Ls) (fst r) (snd r) u (HTon u Hu) (HTon t Hon)
                  (fun w Hc => HTon w (TI_cnt_on kind G Ls A w HT Hc)) He) as H.
    destruct (Nat.eqb u t) eqn:E.
    + apply Nat.eqb_eq in E. subst u. now rewrite upd_eq in H.
    + apply Nat.eqb_neq in E. rewrite upd_neq in H by auto. now rewrite (Hpcs u Hu) in H.
  - intros u Hu. assert (N : u <> t) by congruence.
    eapply eff_off; [apply (HT A u); exact Hu|exact N| |exact He].
    apply (HT A t). exact Hon.
Qed.

Lemma stale_idle l w : lwf l -> todo l = [StaleResume w] -> pc l = Idle.
Proof.
  intros [_ Hp] Ht. unfold pc_ok, cur_op in Hp. rewrite Ht in Hp. cbn in Hp.
  destruct (pc l) as [|[?|?]|[?|?]|?|[|] ?|? [|] ?]; try reflexivity; destruct Hp as [Hc _];
    try discriminate; try (destruct Hc; discriminate); contradiction.
Qed.

Lemma TI_same_ag kind g a u p : TI kind g u p -> a u = ag g u -> TI kind (set_ag g a) u p.
Proof.
  intros H Ha. apply TI_frame with (g := g); auto; try reflexivity; tauto.
Qed.

(* the view of another object: a thread whose current operation is there *)
Lemma B_post_on kind o t G Ls x rest ob u :
  MTI kind G Ls -> mtodo (Ls t) = x :: rest -> lwf (cur_view (Ls t)) ->
  ob <> fst x -> cur_obj (Ls u) = Some ob ->
  let r := sem_tstep kind o t (view G (fst x)) (cur_view (Ls t)) in
  TI kind (set_ag (objs G ob) (ag (fst r))) u (mpc (Ls u)).
Proof.
  intros HT Hm Hl Nob Hu r. set (A := fst x) in *.
  assert (Hon : cur_obj (Ls t) = Some A) by (unfold cur_obj; rewrite Hm; reflexivity).
  assert (Nut : u <> t) by (intros ->; congruence).
  assert (HuA : cur_obj (Ls u) <> Some A) by congruence.
  pose proof (proj1 (HT ob u) Hu) as HTu.
  destruct (proj2 (HT A u) HuA) as [o1 o2 _ _ _].
  pose proof (proj1 (HT A t) Hon) as HTt.
  assert (Hfr : (forall rest', todo (cur_view (Ls t)) <> StaleResume u :: rest') ->
                ag (fst r) u = mag G u).
  { intros Hs. unfold r. rewrite sem_tstep_agent_frame; auto.
    - intros H. apply cnt_hd in H. lia.
    - intros chk k Hpc. destruct HTt as [_ _ _ _ _ _ c7 _ _]. cbn [pc cur_view] in Hpc.
      specialize (c7 _ _ _ Hpc). apply cnt_hd in c7. lia. }
  assert (Htd : todo (cur_view (Ls t)) = [snd x]) by (unfold cur_view; cbn [todo]; rewrite Hm; reflexivity).
  assert (Hframe : ag (fst r) u = mag G u -> TI kind (set_ag (objs G ob) (ag (fst r))) u (mpc (Ls u))).
  { intros E. change (set_ag (objs G ob) (ag (fst r))) with (set_ag (view G ob) (ag (fst r))).
    apply TI_same_ag; [exact HTu|exact E]. }
  destruct (snd x) as [| | | | | | | | | |w] eqn:Hop;
    try (apply Hframe, Hfr; intros rest' E; rewrite Htd in E; discriminate).
  destruct (Nat.eq_dec w u) as [->|Nw].
  2:{ apply Hframe, Hfr. intros rest' E. rewrite Htd in E. congruence. }
  (* the stale resume is aimed at u *)
  pose proof (stale_idle _ u Hl Htd) as Hpc.
  assert (Hr : ag (fst r) = match kind u with Task => upd (mag G) u (a_resume (mag G u)) | OsThr => mag G end).
  { unfold r, sem_tstep. rewrite Hpc, Htd. destruct (kind u); reflexivity. }
  rewrite Hr. destruct (kind u) eqn:Hk; [|exact HTu].
  (* E_stale on the view of ob, issued by t (which is elsewhere and running) *)
  assert (HtA : cur_obj (Ls t) <> Some ob) by congruence.
  assert (Hbt : blocked (mag G t) = false).
  { destruct HTt as [_ _ c3 _ _ _ _ _ _]. cbn [pc cur_view] in Hpc. rewrite Hpc in c3. cbn in c3.
    destruct (blocked (mag G t)) eqn:Eb; [|reflexivity]. specialize (c3 eq_refl). discriminate. }
  pose proof (TI_off_idle kind (view G ob) t (proj2 (HT ob t) HtA) Hbt) as HTt2.
  set (ls2 := fun y => {| todo := []; pc := if Nat.eqb y t then Idle else mpc (Ls y) |}).
  assert (P2t : pc (ls2 t) = Idle) by (unfold ls2; cbn; now rewrite Nat.eqb_refl).
  assert (P2 : forall y, y <> t -> pc (ls2 y) = mpc (Ls y)).
  { intros y Hy. unfold ls2. cbn. apply Nat.eqb_neq in Hy. now rewrite Hy. }
  pose proof (eff_TI_local kind t (view G ob) ls2 (set_ag (objs G ob) (upd (mag G) u (a_resume (mag G u)))) (ls2 t) u) as H.
  rewrite (P2 u Nut), P2t in H. specialize (H HTu HTt2).
  rewrite upd_neq in H by auto. rewrite (P2 u Nut) in H. apply H.
  - intros w Hc. pose proof (TI_cnt_on kind G Ls ob w HT Hc) as Hw.
    assert (Nwt : w <> t) by (intros ->; congruence). rewrite (P2 w Nwt). apply (HT ob w). exact Hw.
  - eapply E_stale with (w := u); [exact P2t|exact P2t|]. rewrite Hk. unfold chg. cbn. repeat split; reflexivity.
Qed.

(* the view of an object for a thread that is elsewhere, after any change of the agent table *)
Lemma off_ag kind g a u : TIoff kind g u -> (kind u = OsThr -> tok (a u) = false) -> TIoff kind (set_ag g a) u.
Proof. intros [o1 o2 o3 o4 o5] H. constructor; cbn; auto. Qed.

Lemma off_ag_view kind G ob a u : TIoff kind (view G ob) u -> (kind u = OsThr -> tok (a u) = false) ->
  TIoff kind (set_ag (objs G ob) a) u.
Proof. intros [o1 o2 o3 o4 o5] H. constructor; cbn in *; auto. Qed.

Lemma view_step_same G A g : view {| objs := updo (objs G) A g; mag := ag g |} A = g.
Proof. unfold view. cbn [objs mag]. rewrite updo_same. apply set_ag_eta. Qed.
Lemma view_step_other G A g ob : ob <> A ->
  view {| objs := updo (objs G) A g; mag := ag g |} ob = set_ag (objs G ob) (ag g).
Proof. intros N. unfold view. cbn [objs mag]. now rewrite updo_other by auto. Qed.

Lemma upd_id {A} (f : nat -> A) t u : upd f t (f t) u = f u.
Proof. destruct (Nat.eq_dec u t) as [->|N]; [now rewrite upd_eq|now rewrite upd_neq by auto]. Qed.

Lemma MTI_step kind v lo md o t G Ls : MInv v lo md G Ls -> MTI kind G Ls ->
  MTI kind (fst (mx_tstep kind o t G (Ls t))) (upd Ls t (snd (mx_tstep kind o t G (Ls t)))).
Proof.
  intros [HG HL] HT. unfold mx_tstep. destruct (mtodo (Ls t)) as [|x rest] eqn:Hm.
  - cbn [fst snd]. intros ob u. rewrite upd_id. apply HT.
  - set (r := sem_tstep kind o t (view G (fst x)) (cur_view (Ls t))). cbn [fst snd]. set (A := fst x) in *.
    pose proof (mlwf_lwf _ (HL t)) as Hl.
    assert (Hgv : GInv (v A) (lo A) (md A) (view G A)) by (apply GInv_set_ag; apply HG).
    pose proof (gi_nonneg _ _ _ _ Hgv) as Hv.
    destruct (A_post kind o t G Ls x rest HT Hm Hl Hv) as [PA_on PA_off]. fold A in PA_on, PA_off. fold r in PA_on, PA_off.
    destruct (sem_step_inv _ _ _ kind o t _ _ Hgv Hl) as [_ Hl']. fold r in Hl'.
    assert (Hon : cur_obj (Ls t) = Some A) by (unfold cur_obj; rewrite Hm; reflexivity).
    pose proof (cur_step_todo kind o t (view G A) (Ls t) x rest Hm) as Htodo. cbv zeta in Htodo. fold r in Htodo.
    intros ob u. destruct (Nat.eq_dec u t) as [->|N].
    + rewrite upd_eq.
      pose proof (PA_on t Hon) as PAt. rewrite Nat.eqb_refl in PAt.
      assert (offB : forall ob', ob' <> A -> TIoff kind (view {| objs := updo (objs G) A (fst r); mag := ag (fst r) |} ob') t).
      { intros ob' Nb. rewrite view_step_other by auto. apply off_ag_view; [apply (proj2 (HT ob' t)); congruence|].
        exact (ti_ostok _ _ _ _ PAt). }
      destruct Htodo as [Ht|Ht]; rewrite Ht; unfold cur_obj; cbn [mtodo mpc].
      * split; intros Hc.
        -- injection Hc as <-. rewrite view_step_same. exact PAt.
        -- apply offB. intros ->. apply Hc. reflexivity.
      * rewrite (lwf_done_idle _ Hl' Ht) in *.
        assert (Hb : blocked (ag (fst r) t) = false).
        { destruct PAt as [_ _ c3 _ _ _ _ _ _]. cbn in c3. destruct (blocked (ag (fst r) t)); [specialize (c3 eq_refl); discriminate|reflexivity]. }
        split; intros Hc.
        -- destruct (Nat.eq_dec ob A) as [->|Nb]; [rewrite view_step_same; exact PAt|].
           apply TI_off_idle; [now apply offB|]. rewrite view_step_other by auto. exact Hb.
        -- destruct (Nat.eq_dec ob A) as [->|Nb]; [rewrite view_step_same; now apply TI_idle_off|now apply offB].
    + rewrite upd_neq by auto. split; intros Hc.
      * destruct (Nat.eq_dec ob A) as [->|Nb].
        -- rewrite view_step_same. pose proof (PA_on u Hc) as H. apply Nat.eqb_neq in N. now rewrite N in H.
        -- rewrite view_step_other by auto. now apply (B_post_on kind o t G Ls x rest ob u).
      * destruct (Nat.eq_dec ob A) as [->|Nb]; [rewrite view_step_same; now apply PA_off|].
        rewrite view_step_other by auto. apply off_ag_view; [now apply (proj2 (HT ob u))|].
        destruct (onb A (Ls u)) eqn:E.
        -- apply onb_true in E. exact (ti_ostok _ _ _ _ (PA_on u E)).
        -- apply onb_false in E. exact (to_tok _ _ _ (PA_off u E)).
Qed.

Lemma MCI_step fam kind v lo md o t G Ls : MInv v lo md G Ls -> MTI kind G Ls -> MCI fam G -> PubM fam Ls ->
  MCI fam (fst (mx_tstep kind o t G (Ls t))).
Proof.
  intros [HG HL] HT HC HP. unfold mx_tstep. destruct (mtodo (Ls t)) as [|x rest] eqn:Hm; [exact HC|].
  cbn [fst]. intros ob Hf. cbn [objs]. destruct (Nat.eq_dec ob (fst x)) as [->|Nb]; [|rewrite updo_other by auto; now apply HC].
  rewrite updo_same.
  pose proof (mlwf_lwf _ (HL t)) as Hl.
  assert (Hgv : GInv (v (fst x)) (lo (fst x)) (md (fst x)) (view G (fst x))) by (apply GInv_set_ag; apply HG).
  assert (Hon : cur_obj (Ls t) = Some (fst x)) by (unfold cur_obj; rewrite Hm; reflexivity).
  apply (eff_CI_local kind t (view G (fst x)) (fun _ => cur_view (Ls t)) _ (snd (sem_tstep kind o t (view G (fst x)) (cur_view (Ls t))))).
  - exact (HC _ Hf).
  - exact (proj1 (HT (fst x) t) Hon).
  - exact Hl.
  - unfold cur_op, cur_view. cbn [todo]. rewrite Hm. cbn [hd]. specialize (HP t). rewrite Hm in HP.
    inversion HP as [|? ? Hx _]. unfold pub_op_mixed in Hx. now rewrite Hf in Hx.
  - apply sem_tstep_eff; [exact (gi_nonneg _ _ _ _ Hgv)|exact Hl].
Qed.

Lemma mtodo_step_forall (P : nat * sop -> Prop) kind o t G L :
  Forall P (mtodo L) -> Forall P (mtodo (snd (mx_tstep kind o t G L))).
Proof.
  intros H. unfold mx_tstep. destruct (mtodo L) as [|x rest] eqn:Hm; [cbn [snd]; now rewrite Hm|].
  cbn [snd mtodo]. destruct (todo _); [now inversion H|exact H].
Qed.

Definition os_untimed_m (kind : nat -> akind) (progs : nat -> list (nat * sop)) : Prop :=
  forall t, kind t = OsThr -> Forall (fun x => no_timed (snd x)) (progs t).

Definition MP fam kind v lo md (G : mx_g) (Ls : nat -> mx_l) : Prop :=
  MInv v lo md G Ls /\ MTI kind G Ls /\ MCI fam G /\ PubM fam Ls /\ NTm kind Ls.

Lemma MP_step fam kind v lo md o t G Ls : MP fam kind v lo md G Ls ->
  MP fam kind v lo md (fst (mx_tstep kind o t G (Ls t))) (upd Ls t (snd (mx_tstep kind o t G (Ls t)))).
Proof.
  intros (HM & HT & HC & HP & HN). split; [now apply MInv_step|]. split; [eapply MTI_step; eauto|].
  split; [eapply MCI_step; eauto|]. split.
  - intros u. destruct (Nat.eq_dec u t) as [->|N]; [rewrite upd_eq|rewrite upd_neq by auto; apply HP].
    apply mtodo_step_forall. apply HP.
  - intros u Hk. destruct (Nat.eq_dec u t) as [->|N]; [rewrite upd_eq|rewrite upd_neq by auto; now apply HN].
    apply mtodo_step_forall. now apply HN.
Qed.

Lemma MTI_init kind v lo md progs : MTI kind (mx_init v lo md) (mx_locals progs).
Proof.
  intros ob u. assert (H : TI kind (view (mx_init v lo md) ob) u Idle).
  { constructor; cbn; try reflexivity; try lia; try discriminate; auto;
      try (split; discriminate); try (intros ? ? ? ?; discriminate). }
  split; intros _; [exact H|now apply TI_idle_off].
Qed.

Lemma MP_run fam kind sched v lo md progs :
  (forall ob, 0 <= v ob) -> pub_progs_mixed fam progs -> os_untimed_m kind progs ->
  let c := mx_run kind sched v lo md progs in MP fam kind v lo md (fst c) (snd c).
Proof.
  intros Hv Hp Ho. cbv zeta. unfold mx_run.
  apply (run_inv _ _ _ (mx_tstep kind) (MP fam kind v lo md)).
  - intros o t g ls. apply MP_step.
  - split; [apply MInv_init; [exact Hv|eapply pub_mixed_wf; eauto]|]. split; [apply MTI_init|].
    split; [intros ob _; left; reflexivity|]. split; [exact Hp|exact Ho].
Qed.

(* ------------------------------------------------------------------ stuck states of the mixed model *)
Lemma on_mtodo ob L : cur_obj L = Some ob -> exists x rest, mtodo L = x :: rest /\ fst x = ob.
Proof. unfold cur_obj. destruct (mtodo L) as [|x rest]; [discriminate|]. intros [= <-]. eauto. Qed.

Lemma mx_tstuck kind G Ls u ob : mx_stuck kind G Ls -> cur_obj (Ls u) = Some ob ->
  tstuck kind u (view G ob) (cur_view (Ls u)) /\ todo (cur_view (Ls u)) <> [].
Proof.
  intros St Hu. destruct (on_mtodo _ _ Hu) as (x & rest & Hm & <-). split.
  - intros o. specialize (St u o). rewrite Hm in St. exact St.
  - unfold cur_view. cbn [todo]. rewrite Hm. discriminate.
Qed.

Section Stuck.
  Variables (fam : nat -> family) (kind : nat -> akind) (v lo md : nat -> Z) (G : mx_g) (Ls : nat -> mx_l).
  Hypothesis HP : MP fam kind v lo md G Ls.
  Hypothesis St : mx_stuck kind G Ls.
  Variable ob : nat.

  Lemma mst_holder : holder (view G ob) = None.
  Proof.
    destruct HP as ([HG HL] & HT & HC & HPb & HN).
    destruct (holder (view G ob)) as [s|] eqn:Hh; [exfalso|reflexivity].
    assert (Hs : cur_obj (Ls s) = Some ob).
    { destruct (onb ob (Ls s)) eqn:E; [now apply onb_true|]. apply onb_false in E.
      destruct (proj2 (HT ob s) E) as [_ _ _ o4 _]. congruence. }
    destruct (proj1 (HT ob s) Hs) as [_ _ _ _ _ s6 s7 _ _]. pose proof (proj1 s6 Hh) as Hres.
    destruct (mpc (Ls s)) as [| | | | |w chk k] eqn:Hpc; try discriminate.
    specialize (s7 _ _ _ eq_refl).
    destruct (mx_tstuck kind G Ls s ob St Hs) as [Ts _].
    assert (Hb : blocked (ag (view G ob) w) = false) by (eapply stuck_reswait; [exact Ts|exact Hpc]).
    assert (Htg : target (view G ob) = Some w) by (unfold target; rewrite Hh; exact s7).
    pose proof (cnt_hd _ _ s7) as Hc.
    assert (Hw : cur_obj (Ls w) = Some ob) by (apply (TI_cnt_on kind G Ls ob w HT); lia).
    destruct (proj1 (HT ob w) Hw) as [w1 _ _ _ _ _ _ _ w9]. destruct (w9 Htg) as [Hkw Hbl].
    destruct (mx_tstuck kind G Ls w ob St Hw) as [Tw _].
    destruct (mpc (Ls w)) as [|c|c|n| |] eqn:Hpw; cbn [iswait] in w1; try lia.
    - eapply stuck_susp; [exact Tw|exact Hpw].
    - rewrite Hbl in Hb; [discriminate|reflexivity].
    - destruct (mlwf_lwf _ (HL w)) as [_ Hp]. unfold pc_ok in Hp. cbn [pc cur_view] in Hp. rewrite Hpw in Hp.
      destruct Hp as [Hcur _]. specialize (HN w Hkw). destruct (on_mtodo _ _ Hw) as (x & rest & Hm & _).
      unfold cur_op, cur_view in Hcur. cbn [todo] in Hcur. rewrite Hm in Hcur. cbn in Hcur.
      rewrite Hm in HN. inversion HN as [|? ? Hno _]. rewrite Hcur in Hno. exact Hno.
  Qed.

  Lemma mst_shape u : cur_obj (Ls u) = Some ob ->
    exists c, mpc (Ls u) = Blk c /\ blocked (mag G u) = true.
  Proof.
    intros Hu. pose proof mst_holder as Hh. destruct HP as ([HG HL] & HT & HC & HPb & HN).
    destruct (mx_tstuck kind G Ls u ob St Hu) as [Tu Hne].
    destruct (proj1 (HT ob u) Hu) as [_ _ _ _ _ u6 _ _ _].
    assert (Hr : isres (pc (cur_view (Ls u))) = false).
    { cbn [pc cur_view]. destruct (isres (mpc (Ls u))); [|reflexivity]. rewrite Hh in u6. destruct u6 as [_ u6].
      specialize (u6 eq_refl). discriminate. }
    destruct (stuck_free kind u _ _ Tu Hh Hr) as [[_ Hx]|[c [Hpc Hb]]]; [contradiction|]. eauto.
  Qed.

  Lemma mst_popped : popped (view G ob) = [].
  Proof.
    pose proof mst_holder as Hh. pose proof mst_shape as Hsh. destruct HP as ([HG HL] & HT & HC & HPb & HN).
    destruct (popped (view G ob)) as [|w p] eqn:Hp; [reflexivity|exfalso].
    assert (Hc : (1 <= cnt w (popped (view G ob)))%nat) by (rewrite Hp, cnt_cons_same; lia).
    assert (Hw : cur_obj (Ls w) = Some ob) by (apply (TI_cnt_on kind G Ls ob w HT); lia).
    destruct (proj1 (HT ob w) Hw) as [w1 _ _ _ _ _ _ w8 _].
    destruct (Hsh w Hw) as [c [Hpc Hb]]. rewrite Hpc in *. cbn [iswait] in w1.
    assert (Hc1 : cnt w (popped (view G ob)) = 1%nat) by lia. destruct (w8 Hc1) as [_ w8b].
    rewrite (target_none _ Hh) in w8b. destruct (w8b eq_refl) as [H|H]; [|discriminate].
    cbn in H. congruence.
  Qed.

  Lemma mst_sigl : tot (sigl (view G ob)) = 0.
  Proof.
    pose proof mst_shape as Hsh. destruct HP as ([HG HL] & HT & HC & HPb & HN).
    apply tot_zero. intros u. destruct (onb ob (Ls u)) eqn:E.
    - apply onb_true in E. destruct (proj1 (HT ob u) E) as [_ u2 _ _ _ _ _ _ _].
      destruct (Hsh u E) as [c [Hpc _]]. rewrite Hpc in u2. exact u2.
    - apply onb_false in E. exact (to_s _ _ _ (proj2 (HT ob u) E)).
  Qed.
End Stuck.

(* ------------------------------------------------------------------ C08, mixed objects: no acquirer blocked with permits *)
Theorem no_blocked_with_permits_mixed fam kind sched v lo md progs :
  (forall ob, 0 <= v ob) -> pub_progs_mixed fam progs -> os_untimed_m kind progs ->
  let c := mx_run kind sched v lo md progs in
  mx_stuck kind (fst c) (snd c) ->
  forall ob, fam ob = Counting ->
  (forall t n, mx_waiting_for (snd c t) ob (CAcq n) -> value (objs (fst c) ob) < n) /\
  (forall t, cur_obj (snd c t) = Some ob -> mpc (snd c t) = Blk (CAcq 1) /\ blocked (mag (fst c) t) = true /\ value (objs (fst c) ob) = 0) /\
  holder (objs (fst c) ob) = None /\ popped (objs (fst c) ob) = [] /\ tot (sigl (objs (fst c) ob)) = 0.
Proof.
  intros Hv Hpub Hos c St ob Hf.
  pose proof (MP_run fam kind sched v lo md progs Hv Hpub Hos) as HP. fold c in HP.
  pose proof (mst_holder _ _ _ _ _ _ _ HP St ob) as Hh.
  pose proof (mst_shape _ _ _ _ _ _ _ HP St ob) as Hsh.
  pose proof (mst_popped _ _ _ _ _ _ _ HP St ob) as Hp.
  pose proof (mst_sigl _ _ _ _ _ _ _ HP St ob) as Hs.
  destruct HP as ([HG HL] & HT & HC & HPb & HN).
  assert (Hblk : forall t, cur_obj (snd c t) = Some ob ->
            mpc (snd c t) = Blk (CAcq 1) /\ blocked (mag (fst c) t) = true /\ value (objs (fst c) ob) = 0).
  { intros t Ht. destruct (Hsh t Ht) as [c' [Hpc Hb]].
    destruct (on_mtodo _ _ Ht) as (x & rest & Hm & Hx).
    assert (Hpo : pub_op (cur_op (cur_view (snd c t)))).
    { unfold cur_op, cur_view. cbn [todo]. rewrite Hm. cbn [hd]. specialize (HPb t). rewrite Hm in HPb.
      inversion HPb as [|? ? Hy _]. unfold pub_op_mixed in Hy. rewrite Hx, Hf in Hy. exact Hy. }
    assert (Hc' : c' = CAcq 1).
    { eapply (pub_wk (cur_view (snd c t)) c' false); [apply mlwf_lwf; apply HL|exact Hpo|left; split; [exact Hpc|reflexivity]]. }
    subst c'. split; [exact Hpc|]. split; [exact Hb|].
    destruct (proj1 (HT ob t) Ht) as [t1 _ _ _ _ _ _ _ _]. rewrite Hpc, Hp in t1. cbn [iswait cnt] in t1.
    assert (Hin : In t (queue (view (fst c) ob))) by (apply in_cnt; lia).
    destruct (HC ob Hf) as [Hq|Hq]; [cbn in Hin; rewrite Hq in Hin; destruct Hin|].
    cbn in Hp, Hs. rewrite Hp, Hs in Hq. cbn in Hq. pose proof (gi_nonneg _ _ _ _ (HG ob)). lia. }
  split; [|split; [exact Hblk|auto]].
  intros t n [Ht Hw]. destruct (Hblk t Ht) as (Hpc & _ & Hv0).
  destruct Hw as [Hw|[Hw|[n' [_ Hw]]]]; cbn [pc cur_view] in Hw; try congruence.
  rewrite Hpc in Hw. injection Hw as <-. lia.
Qed.

(* non-vacuity: the hypotheses hold for the run of mixed_example and its final state is stuck with
   an acquirer waiting on the counting object (value 0) *)
Lemma mixed_progress_example :
  pub_progs_mixed mx_ex_fam mx_ex_progs /\ os_untimed_m all_task mx_ex_progs /\ mx_ex_fam 0%nat = Counting /\
  let c := mx_ex_run mx_ex_s3 in
  mx_stuck all_task (fst c) (snd c) /\ mx_waiting_for (snd c 0%nat) 0%nat (CAcq 1) /\ value (objs (fst c) 0%nat) = 0.
Proof.
  destruct mixed_example as (H1 & _ & _ & H4). cbv zeta in H4. destruct H4 as (S1 & _ & _ & S4 & _ & S6 & _).
  split; [exact H1|]. split; [intros t Hk; discriminate|]. split; [reflexivity|]. cbv zeta. auto.
Qed.
