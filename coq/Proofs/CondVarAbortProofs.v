(* Proofs/CondVarAbortProofs.v — C06/C07, round w11c: abort_all (Model/CondVarAbort.v). *)
From Coq Require Import List Bool Arith Lia.
From Pika Require Import Base.Conc Base.Agent Model.CondVarAbort.
Import ListNotations.

Lemma count_remove1_same : forall t l, mem t l = true -> count_occ Nat.eq_dec l t = S (count_occ Nat.eq_dec (remove1 t l) t).
Proof.
  induction l as [|x r IH]; intros H; [discriminate|]. cbn [mem existsb] in H. cbn [remove1].
  destruct (Nat.eqb x t) eqn:E.
  - apply Nat.eqb_eq in E. subst. rewrite count_occ_cons_eq by reflexivity. reflexivity.
  - assert (E2 : Nat.eqb t x = false) by (rewrite Nat.eqb_sym; exact E). rewrite E2 in H. cbn [orb] in H.
    apply Nat.eqb_neq in E. rewrite !count_occ_cons_neq by exact E. apply IH. exact H.
Qed.

Lemma count_remove1_other : forall t x l, x <> t -> count_occ Nat.eq_dec (remove1 t l) x = count_occ Nat.eq_dec l x.
Proof.
  induction l as [|y r IH]; intros H; [reflexivity|]. cbn [remove1]. destruct (Nat.eqb y t) eqn:E.
  - apply Nat.eqb_eq in E. subst. rewrite count_occ_cons_neq by congruence. reflexivity.
  - destruct (Nat.eq_dec y x) as [->|N].
    + rewrite !count_occ_cons_eq by reflexivity. rewrite IH by exact H. reflexivity.
    + rewrite !count_occ_cons_neq by exact N. apply IH. exact H.
Qed.

Lemma count_app_one : forall l t x, count_occ Nat.eq_dec (l ++ [t]) x = count_occ Nat.eq_dec l x + (if Nat.eqb t x then 1 else 0).
Proof.
  intros l t x. rewrite count_occ_app. cbn [count_occ]. destruct (Nat.eq_dec t x) as [->|N].
  - rewrite Nat.eqb_refl. reflexivity.
  - apply Nat.eqb_neq in N. rewrite N. reflexivity.
Qed.

Lemma upd_at : forall (f : nat -> nat) t v x, upd f t v x = if Nat.eqb x t then v else f x.
Proof. reflexivity. Qed.

(* every entry ever queued is accounted for exactly once: aborted, erased by its own waiter, or still queued / in the aborter's
   hands; the aborter's local list is empty outside its loop *)
Definition ABinv (a : nat) (g : ab_shared) (ls : locals ab_local) : Prop :=
  (forall t, pushes g t = aborts g t + selfrem g t + pending g (apc (ls a)) t) /\
  match apc (ls a) with ALockI | ASwap | ADone => apend g = [] | _ => True end.

Lemma ab_step_inv : forall a isos spur t g (ls : locals ab_local), ABinv a g ls ->
  ABinv a (fst (ab_tstep a isos spur t g (ls t))) (upd ls t (snd (ab_tstep a isos spur t g (ls t)))).
Proof.
  intros a isos spur t g ls [A B]. unfold ab_tstep. destruct (Nat.eqb t a) eqn:Eta.
  - apply Nat.eqb_eq in Eta. subst t. unfold ABinv. rewrite upd_same.
    destruct (apc (ls a)) eqn:P; cbn [fst snd apc lpc];
      try (rewrite P; split; [exact A|exact B]).
    + (* ALockI *) destruct (ai g); cbn [fst snd apc lpc]; rewrite ?P; (split; [|exact B]); intros x; specialize (A x);
        unfold pending in *; cbn in *; exact A.
    + (* ASwap *) destruct (aq g) as [|q0 qr] eqn:Q; cbn [fst snd apc lpc].
      * split; [|exact B]. intros x. specialize (A x). unfold pending in *. cbn in *. rewrite ?Q in *. exact A.
      * split; [|exact I]. intros x. specialize (A x). unfold pending in *. cbn in *. rewrite ?Q, ?B in *. cbn in *. lia.
    + (* APop *) destruct (apend g) as [|w r] eqn:Q; cbn [fst snd apc lpc].
      * split; [|exact Q]. intros x. specialize (A x). unfold pending in *. cbn in *. rewrite ?Q in *. exact A.
      * split; [|exact I]. intros x. specialize (A x). unfold pending in *. cbn in *. rewrite ?Q in *. cbn [count_occ] in A.
        destruct (Nat.eq_dec w x) as [->|N].
        -- rewrite Nat.eqb_refl. lia.
        -- apply Nat.eqb_neq in N. rewrite N. lia.
    + (* AAbort *) destruct (isos w && negb (blocked (aag g w))); cbn [fst snd apc lpc]; [rewrite P; split; [exact A|exact I]|].
      split; [|exact I]. intros x. specialize (A x). unfold pending in *. cbn in *. rewrite upd_at.
      destruct (Nat.eqb x w) eqn:E.
      * apply Nat.eqb_eq in E. subst. rewrite Nat.eqb_refl in A. lia.
      * rewrite Nat.eqb_sym in E. rewrite E in A. lia.
    + (* ARelock *) destruct (ai g); cbn [fst snd apc lpc]; rewrite ?P; (split; [|exact I]); intros x; specialize (A x);
        unfold pending in *; cbn in *; exact A.
  - assert (Na : Nat.eqb a t = false) by (rewrite Nat.eqb_sym; exact Eta).
    assert (La : forall l', upd ls t l' a = ls a) by (intros l'; unfold upd; rewrite Na; reflexivity).
    unfold ABinv. rewrite La. apply Nat.eqb_neq in Eta.
    assert (Same : forall g', aq g' = aq g -> apend g' = apend g -> pushes g' = pushes g -> aborts g' = aborts g -> selfrem g' = selfrem g ->
                   (forall x, pushes g' x = aborts g' x + selfrem g' x + pending g' (apc (ls a)) x) /\
                   match apc (ls a) with ALockI | ASwap | ADone => apend g' = [] | _ => True end).
    { intros g' E1 E2 E3 E4 E5. unfold pending. rewrite E1, E2, E3, E4, E5. split; [exact A|exact B]. }
    destruct (apc (ls t)) eqn:P; cbn [fst snd]; try (apply Same; reflexivity).
    + (* QLockI *) destruct (ai g); cbn [fst snd]; apply Same; reflexivity.
    + (* QPush *) split; [|exact B]. intros x. specialize (A x). unfold pending in *. cbn in *. rewrite count_app_one, upd_at.
      rewrite (Nat.eqb_sym x t). destruct (Nat.eqb t x) eqn:E; [apply Nat.eqb_eq in E; subst x|]; lia.
    + (* QSusp *) destruct (blocked (aag g t) && negb (spur && negb (isos t))); cbn [fst snd]; apply Same; reflexivity.
    + (* QRelock *) destruct (ai g); cbn [fst snd]; apply Same; reflexivity.
    + (* QCheck *) destruct (mem t (aq g)) eqn:M1; [|destruct (mem t (apend g)) eqn:M2]; cbn [fst snd].
      * split; [|exact B]. intros x. specialize (A x). unfold pending in *. cbn in *. rewrite upd_at.
        destruct (Nat.eqb x t) eqn:E.
        -- apply Nat.eqb_eq in E. subst. rewrite (count_remove1_same _ _ M1) in A. lia.
        -- apply Nat.eqb_neq in E. rewrite count_remove1_other by exact E. exact A.
      * split.
        -- intros x. specialize (A x). unfold pending in *. cbn in *. rewrite upd_at.
           destruct (Nat.eqb x t) eqn:E.
           ++ apply Nat.eqb_eq in E. subst. rewrite (count_remove1_same _ _ M2) in A. lia.
           ++ apply Nat.eqb_neq in E. rewrite count_remove1_other by exact E. exact A.
        -- destruct (apc (ls a)); try exact I; rewrite B in M2; discriminate M2.
      * apply Same; reflexivity.
Qed.

Lemma ab_inv : forall a isos waits sched,
  ABinv a (fst (ab_run a isos waits sched)) (snd (ab_run a isos waits sched)).
Proof.
  intros a isos waits sched. unfold ab_run.
  apply (run_inv ab_shared ab_local bool (ab_tstep a isos) (ABinv a)).
  - intros o t g ls. apply ab_step_inv.
  - cbn [fst snd]. unfold ABinv, ab_locals. rewrite Nat.eqb_refl. cbn. split; [intros t; reflexivity|reflexivity].
Qed.

(* abort_all has returned: its local list is empty and every entry ever queued has been aborted (exactly one abort() per entry),
   or was erased by its own waiter, or sits in queue_ — pushed after abort_all's last look at the queue *)
Lemma abort_all_wakes_all : forall a isos waits sched,
  let cf := ab_run a isos waits sched in
  apc (snd cf a) = ADone ->
  apend (fst cf) = [] /\
  forall t, pushes (fst cf) t = aborts (fst cf) t + selfrem (fst cf) t + count_occ Nat.eq_dec (aq (fst cf)) t.
Proof.
  intros a isos waits sched cf H. destruct (ab_inv a isos waits sched) as [A B]. fold cf in A, B. rewrite H in A, B.
  split; [exact B|]. intros t. specialize (A t). unfold pending in A. rewrite B in A. cbn in A. lia.
Qed.

(* at any time: never more abort() calls than entries queued *)
Lemma aborts_le_pushes : forall a isos waits sched t,
  aborts (fst (ab_run a isos waits sched)) t <= pushes (fst (ab_run a isos waits sched)) t.
Proof. intros a isos waits sched t. destruct (ab_inv a isos waits sched) as [A _]. specialize (A t). lia. Qed.

(* the abort() call itself: the target runs again and carries the abort reason *)
Lemma abort_resumes_with_reason : forall a isos spur g l w,
  apc l = AAbort w -> apc (snd (ab_tstep a isos spur a g l)) = ARelock ->
  let g' := fst (ab_tstep a isos spur a g l) in
  blocked (aag g' w) = false /\ areason g' w = true /\ aborts g' w = S (aborts g w).
Proof.
  intros a isos spur g l w P H. unfold ab_tstep in *. rewrite Nat.eqb_refl in *. rewrite P in *.
  destruct (isos w && negb (blocked (aag g w))) eqn:E; cbn [fst snd apc lpc] in *; [rewrite P in H; discriminate|].
  cbn. rewrite !upd_same. destruct (isos w); repeat split; reflexivity.
Qed.

(* a waiter whose agent carries the abort reason ends its suspension with the exception (pika task: once; OS thread: the flag
   aborted_ of default_agent is never reset) *)
Lemma aborted_wait_throws : forall a isos spur t g l,
  Nat.eqb t a = false -> apc l = QSusp -> areason g t = true -> apc (snd (ab_tstep a isos spur t g l)) = QRelock ->
  thr (snd (ab_tstep a isos spur t g l)) = true /\
  thrown (fst (ab_tstep a isos spur t g l)) t = S (thrown g t) /\
  areason (fst (ab_tstep a isos spur t g l)) t = isos t.
Proof.
  intros a isos spur t g l Na P R H. unfold ab_tstep in *. rewrite Na, P in *.
  destruct (blocked (aag g t) && negb (spur && negb (isos t))); cbn [fst snd apc thr] in *; [rewrite P in H; discriminate|].
  cbn. rewrite R. rewrite upd_same. split; [reflexivity|split; [reflexivity|]].
  destruct (isos t); [exact R|apply upd_same].
Qed.
