(* C16 - the hypothesis [env_plain] of the end-to-end precedence theorems as a boolean predicate over the
   whole environment (something a user can evaluate), and the fact that every built-in default of the
   option table is plain. *)
From Coq Require Import String Ascii List NArith Bool Lia.
From Pika Require Import Gen.GenIni Model.Config Proofs.ConfigExpandProofs Proofs.ConfigExpandTermProofs
  Proofs.ConfigProofs.
Import ListNotations.
Open Scope string_scope.

(* every value of the environment is free of `${` / `$[` and has fewer than 90 dollar signs *)
Definition env_all_plain (env : list (string * string)) : bool := forallb (fun kv => noexp (snd kv)) env.

(* the default of the built-in line of a table entry *)
Definition default_plain (e : string * string) : bool :=
  match assoc (snd e) builtin_ini with
  | Some raw => match placeholder raw with Some (n, d) => noexp d | None => true end
  | None => true
  end.
Lemma defaults_plain : forallb default_plain opt_key = true.
Proof. vm_compute. reflexivity. Qed.

Lemma env_all_plain_env_plain env n d : env_all_plain env = true -> noexp d = true -> env_plain env n d.
Proof.
  intros H Hd. unfold env_plain. destruct (getenv env n) as [v|] eqn:E; [|exact Hd].
  apply getenv_in in E. unfold env_all_plain in H. rewrite forallb_forall in H. exact (H _ E).
Qed.

Theorem precedence_with_plain_env : forall env, env_all_plain env = true ->
  (forall opt key, In (opt, key) opt_key ->
   forall raw n d, assoc key builtin_ini = Some raw -> placeholder raw = Some (n, d) ->
   forall p cfgmap,
     resolve env p cfgmap opt key =
     match value_of opt p with
     | Some v => v
     | None => match assoc key cfgmap with
               | Some v => v
               | None => match getenv env n with Some v => v | None => d end
               end
     end) /\
  (forall p cfg m ok f a c,
     handle env p cfg m ok f a = Started c ->
     assoc "pika.force_min_os_threads" cfg = None ->
     exists it ic, eff_counts env p cfg m = Some (it, ic) /\
       kw_count it ic (threads_text env p cfg) = Some (c_threads c)).
Proof.
  intros env He. split.
  - intros opt key Hin raw n d Hk Hp p cfgmap.
    apply (resolve_precedence opt key Hin raw n d Hk Hp). apply env_all_plain_env_plain; [exact He|].
    pose proof defaults_plain as D. rewrite forallb_forall in D. specialize (D _ Hin).
    unfold default_plain in D. cbn [snd] in D. rewrite Hk, Hp in D. exact D.
  - intros p cfg m ok f a c Hs Hf.
    apply (threads_keywords_precedence_sources env p cfg m ok f a c Hs Hf).
    apply env_all_plain_env_plain; [exact He|]. vm_compute. reflexivity.
Qed.
