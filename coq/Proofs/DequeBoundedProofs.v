(* Proofs/DequeBoundedProofs.v — soundness of the explorer of Model/DequeExplore.v (general,
   by induction over arbitrary schedules) and its use on a finite list of configurations. *)
From Coq Require Import List NArith Bool Lia Arith.
From Pika Require Import Base.Conc Model.IndexQueue Model.DequeSpec Model.Deque Model.DequeExplore.
Import ListNotations.
Local Open Scope N_scope.

Lemma done_noop o t g l : dq_done l = true -> dq_tstep o t g l = (g, l).
Proof.
  unfold dq_done, dq_tstep. destruct (dpc l); try discriminate.
  - destruct (dtodo l); [reflexivity|discriminate].
  - reflexivity.
Qed.

Lemma run_ext : forall sched g (ls1 ls2 : locals dq_local), (forall t, ls1 t = ls2 t) ->
  fst (run dq_tstep sched (g, ls1)) = fst (run dq_tstep sched (g, ls2)) /\
  forall t, snd (run dq_tstep sched (g, ls1)) t = snd (run dq_tstep sched (g, ls2)) t.
Proof.
  induction sched as [|[t o] s IH]; intros g ls1 ls2 H; [cbn; auto|].
  rewrite !run_cons. cbn [step fst snd]. rewrite (H t).
  destruct (dq_tstep o t g (ls2 t)) as [g' l']. apply IH.
  intros t'. unfold upd. destruct (Nat.eqb t' t); [reflexivity|apply H].
Qed.

Lemma lset_length ls : forall t l, length (lset ls t l) = length ls.
Proof. induction ls as [|x r IH]; intros [|t] l; cbn; auto. Qed.

Lemma lget_lset ls : forall t l t', (t < length ls)%nat ->
  lget (lset ls t l) t' = if Nat.eqb t' t then l else lget ls t'.
Proof.
  induction ls as [|x r IH]; intros t l t' Ht; [cbn in Ht; lia|].
  destruct t as [|t]; destruct t' as [|t']; cbn; try reflexivity.
  unfold lget in IH. apply IH. cbn in Ht. lia.
Qed.

Lemma lget_out ls t : (length ls <= t)%nat -> lget ls t = idle_local.
Proof. intros H. unfold lget. apply nth_overflow. exact H. Qed.

Lemma explore_chk fuel chk g ls : explore fuel chk g ls = true -> chk g ls = true.
Proof. destruct fuel; cbn [explore]; intros H; apply andb_true_iff in H; tauto. Qed.

Theorem explore_sound chk : forall sched fuel g ls, explore fuel chk g ls = true ->
  exists ls', chk (fst (run dq_tstep sched (g, lfun ls))) ls' = true /\ length ls' = length ls /\
              forall t, snd (run dq_tstep sched (g, lfun ls)) t = lget ls' t.
Proof.
  induction sched as [|[t o] s IH]; intros fuel g ls H.
  - exists ls. cbn. split; [eapply explore_chk; eauto|]. split; reflexivity.
  - rewrite run_cons. cbn [step fst snd]. change (lfun ls t) with (lget ls t).
    destruct (dq_done (lget ls t)) eqn:D.
    + rewrite (done_noop o t g _ D).
      destruct (run_ext s g (upd (lfun ls) t (lget ls t)) (lfun ls)) as [E1 E2].
      { intros t'. unfold upd. destruct (Nat.eqb t' t) eqn:E; [|reflexivity].
        apply Nat.eqb_eq in E. subst t'. reflexivity. }
      destruct (IH fuel g ls H) as (ls' & C1 & C2 & C3). exists ls'.
      split; [exact (eq_ind_r (fun x => chk x ls' = true) C1 E1)|]. split; [exact C2|].
      intros t'. etransitivity; [apply E2|apply C3].
    + assert (Ht : (t < length ls)%nat).
      { destruct (Nat.lt_ge_cases t (length ls)) as [L|L]; [exact L|]. rewrite (lget_out ls t L) in D. discriminate. }
      destruct fuel as [|f]; cbn [explore] in H; apply andb_true_iff in H; destruct H as [_ H].
      * exfalso. rewrite forallb_forall in H. specialize (H (lget ls t)). rewrite H in D; [discriminate|].
        unfold lget. apply nth_In. exact Ht.
      * rewrite forallb_forall in H. specialize (H t). rewrite D in H.
        assert (Hin : In t (seq 0 (length ls))) by (apply in_seq; lia). specialize (H Hin).
        destruct o. destruct (dq_tstep tt t g (lget ls t)) as [g' l'].
        destruct (run_ext s g' (upd (lfun ls) t l') (lfun (lset ls t l'))) as [E1 E2].
        { intros t'. unfold upd, lfun. rewrite lget_lset by exact Ht. reflexivity. }
        destruct (IH f g' (lset ls t l') H) as (ls' & C1 & C2 & C3). exists ls'.
        split; [exact (eq_ind_r (fun x => chk x ls' = true) C1 E1)|]. split; [rewrite C2; apply lset_length|].
        intros t'. etransitivity; [apply E2|apply C3].
Qed.

(* ---- the configurations covered (bounds of the partial theorem) ---- *)
Definition stale3 : list dop := [Push SR 1; Push SR 2; Pop SR; Push SL 3].   (* chain 3,1 + a stale right link *)
Definition guarded_configs : list (N * list dop * list (list dop)) :=
  [ (1, stale3, [[Push SR 10]; [Pop SR]]);          (* push and pop at the same end *)
    (1, stale3, [[Push SL 10]; [Pop SR]]);          (* opposite ends *)
    (0, [Push SR 1], [[Push SR 10]; [Pop SL]]);     (* one element: push meets the last-element pop *)
    (1, stale3, [[Pop SL]; [Pop SR]]);              (* two pops meeting in the middle of 2 elements *)
    (0, [Push SL 1], [[Pop SL]; [Pop SR]]);         (* two pops racing for the last element *)
    (2, [], [[Push SL 10]; [Push SR 11]]);          (* two pushes on the empty deque *)
    (2, [Push SR 1; Pop SL], [[Push SR 10]; [Pop SR]; [Pop SL]]) ].  (* three threads, empty deque, recycled node *)

Lemma guarded_configs_explored :
  forallb (fun cfg => let '(k, init, progs) := cfg in
             explore 64 conserved (start_state k init) (start_locals progs)) guarded_configs = true.
Proof. vm_compute. reflexivity. Qed.

(* for every configuration of the list and EVERY schedule (any length, any thread ids) the
   state reached satisfies [conserved] *)
Theorem deque_linearizable_guarded_partial_lemma : forall k init progs sched,
  In (k, init, progs) guarded_configs ->
  let c := run dq_tstep sched (start_state k init, lfun (start_locals progs)) in
  exists ls', (forall t, snd c t = lget ls' t) /\ length ls' = length progs /\ conserved (fst c) ls' = true.
Proof.
  intros k init progs sched Hin. pose proof guarded_configs_explored as H.
  rewrite forallb_forall in H. specialize (H _ Hin). cbn beta iota in H.
  destruct (explore_sound conserved sched _ _ _ H) as (ls' & C1 & C2 & C3).
  exists ls'. split; [exact C3|]. split; [|exact C1]. rewrite C2. unfold start_locals. apply map_length.
Qed.
