(* Proofs/SenderProofs.v — C03: every well-formed pipeline delivers exactly one completion
   signal and it is one the pipeline denotes. *)
From Coq Require Import List NArith ZArith Bool Lia Arith.
From Pika Require Import Model.Sender.
Import ListNotations.

(* ------------------------------------------------------------------ small facts *)
Lemma bind_single c k : bind [Sig c] k = k c.
Proof. unfold bind. cbn. apply app_nil_r. Qed.

Lemma lift_single f c : lift f [Sig c] = [Sig (f c)].
Proof. unfold lift. now rewrite bind_single. Qed.

Lemma consumer_events_single c : consumer_events [Sig c] = [Sig c].
Proof. reflexivity. Qed.

Lemma flat_map_nth_seq (l : list (list val)) :
  flat_map (fun k => nth k l []) (seq 0 (length l)) = concat l.
Proof.
  induction l as [|x l IH]; [reflexivity|].
  cbn [length seq flat_map nth concat]. f_equal.
  rewrite <- seq_shift, flat_map_concat_map, map_map, <- flat_map_concat_map. exact IH.
Qed.

Lemma flat_map_val_of cs : flat_map val_of cs = concat (map val_of cs).
Proof. apply flat_map_concat_map. Qed.

(* ------------------------------------------------------------------ the join, sequentially *)
Definition ferr (p : list completion) : option exn :=
  match first_fail p with Some (CErr e) => Some e | _ => None end.

Lemma first_fail_app p c :
  first_fail (p ++ [c]) = match first_fail p with Some x => Some x | None => if is_val c then None else Some c end.
Proof.
  induction p as [|a p IH]; cbn [app first_fail].
  - destruct (is_val c); reflexivity.
  - destruct (is_val a); [exact IH|reflexivity].
Qed.

Lemma first_fail_none_iff p : first_fail p = None <-> forallb is_val p = true.
Proof.
  induction p as [|a p IH]; cbn [first_fail forallb]; [tauto|].
  destruct (is_val a); cbn [andb]; [exact IH|split; discriminate].
Qed.

Lemma forallb_app_single p c : forallb is_val (p ++ [c]) = forallb is_val p && is_val c.
Proof. rewrite forallb_app. cbn. now rewrite andb_true_r. Qed.

(* invariant of the operation state after the children in [p] (indices 0..|p|-1) signalled *)
Definition jinv (n : nat) (p : list completion) (j : join) : Prop :=
  j_rem j = (Z.of_nat n - Z.of_nat (length p))%Z /\
  j_out j = [] /\
  j_flag j = negb (forallb is_val p) /\
  j_err j = ferr p /\
  (forallb is_val p = true ->
     forall k, lookup k (j_slots j) = if Nat.ltb k (length p) then nth k (map val_of p) [] else []).

Definition ilist (i : nat) (cs : list completion) : list (nat * ev) :=
  combine (seq i (length cs)) (map Sig cs).

Lemma jinv_step n p c j :
  jinv n p j -> (length p + 1 < n)%nat ->
  jinv n (p ++ [c]) (join_child n j (length p, Sig c)).
Proof.
  intros (Hr & Ho & Hf & He & Hs) Hlt.
  unfold jinv. rewrite app_length. cbn [length].
  assert (Hne : forall r, r = (Z.of_nat n - Z.of_nat (length p) - 1)%Z -> (r =? 0)%Z = false).
  { intros r ->. apply Z.eqb_neq. lia. }
  unfold join_child.
  destruct c as [vs|x|].
  - (* value *)
    destruct (j_flag j) eqn:Ef.
    + cbn [j_rem j_flag j_err j_slots j_out]. rewrite (Hne _ (f_equal (fun z => z - 1)%Z Hr)).
      cbn [j_rem j_flag j_err j_slots j_out].
      assert (Hp : forallb is_val p = false) by (destruct (forallb is_val p); [discriminate|reflexivity]).
      repeat split.
      * lia.
      * exact Ho.
      * rewrite forallb_app_single, Hp. exact Ef.
      * unfold ferr in *. rewrite first_fail_app.
        destruct (first_fail p) eqn:E; [exact He|].
        apply first_fail_none_iff in E. congruence.
      * rewrite forallb_app_single, Hp. discriminate.
    + cbn [j_rem j_flag j_err j_slots j_out]. rewrite (Hne _ (f_equal (fun z => z - 1)%Z Hr)).
      cbn [j_rem j_flag j_err j_slots j_out].
      assert (Hp : forallb is_val p = true) by (destruct (forallb is_val p); [reflexivity|discriminate]).
      repeat split.
      * lia.
      * exact Ho.
      * rewrite forallb_app_single, Hp. reflexivity.
      * unfold ferr in *. rewrite first_fail_app.
        apply first_fail_none_iff in Hp. rewrite Hp in *. exact He.
      * intros _ k. cbn [lookup]. rewrite map_app. cbn [map val_of].
        destruct (Nat.eqb (length p) k) eqn:Ek.
        -- apply Nat.eqb_eq in Ek. subst k.
           replace (Nat.ltb (length p) (length p + 1)) with true by (symmetry; apply Nat.ltb_lt; lia).
           rewrite app_nth2 by (rewrite map_length; lia). rewrite map_length, Nat.sub_diag. reflexivity.
        -- apply Nat.eqb_neq in Ek. rewrite (Hs Hp k).
           destruct (Nat.ltb k (length p)) eqn:El.
           ++ apply Nat.ltb_lt in El.
              replace (Nat.ltb k (length p + 1)) with true by (symmetry; apply Nat.ltb_lt; lia).
              rewrite app_nth1 by (rewrite map_length; lia). reflexivity.
           ++ apply Nat.ltb_ge in El.
              replace (Nat.ltb k (length p + 1)) with false by (symmetry; apply Nat.ltb_ge; lia).
              reflexivity.
  - (* error *)
    destruct (j_flag j) eqn:Ef.
    + cbn [j_rem j_flag j_err j_slots j_out]. rewrite (Hne _ (f_equal (fun z => z - 1)%Z Hr)).
      cbn [j_rem j_flag j_err j_slots j_out].
      assert (Hp : forallb is_val p = false) by (destruct (forallb is_val p); [discriminate|reflexivity]).
      repeat split.
      * lia.
      * exact Ho.
      * rewrite forallb_app_single, Hp. exact Ef.
      * unfold ferr in *. rewrite first_fail_app.
        destruct (first_fail p) eqn:E; [exact He|].
        apply first_fail_none_iff in E. congruence.
      * rewrite forallb_app_single, Hp. discriminate.
    + cbn [j_rem j_flag j_err j_slots j_out]. rewrite (Hne _ (f_equal (fun z => z - 1)%Z Hr)).
      cbn [j_rem j_flag j_err j_slots j_out].
      assert (Hp : forallb is_val p = true) by (destruct (forallb is_val p); [reflexivity|discriminate]).
      repeat split.
      * lia.
      * exact Ho.
      * rewrite forallb_app_single, Hp. reflexivity.
      * unfold ferr. rewrite first_fail_app.
        apply first_fail_none_iff in Hp. rewrite Hp. reflexivity.
      * rewrite forallb_app_single. cbn [is_val]. rewrite andb_false_r. discriminate.
  - (* stopped *)
    cbn [j_rem j_flag j_err j_slots j_out]. rewrite (Hne _ (f_equal (fun z => z - 1)%Z Hr)).
    cbn [j_rem j_flag j_err j_slots j_out].
    repeat split.
    + lia.
    + exact Ho.
    + rewrite forallb_app_single. cbn [is_val]. rewrite andb_false_r. reflexivity.
    + unfold ferr in *. rewrite first_fail_app.
      destruct (first_fail p) eqn:E; [exact He|]. cbn [is_val].
      rewrite He. reflexivity.
    + rewrite forallb_app_single. cbn [is_val]. rewrite andb_false_r. discriminate.
Qed.

Lemma join_seq_app_fail p c :
  is_val c = false -> join_seq (p ++ [c]) = match first_fail p with Some x => x | None => c end.
Proof.
  intros H. unfold join_seq. rewrite first_fail_app, H. destruct (first_fail p); reflexivity.
Qed.

(* the last child: the decrement reaches 0 and finish() signals *)
Lemma jinv_last n p c j :
  jinv n p j -> (length p + 1 = n)%nat ->
  j_out (join_child n j (length p, Sig c)) = [Sig (join_seq (p ++ [c]))].
Proof.
  intros (Hr & Ho & Hf & He & Hs) Hn.
  assert (Hz : forall r, r = (Z.of_nat n - Z.of_nat (length p) - 1)%Z -> (r =? 0)%Z = true).
  { intros r ->. apply Z.eqb_eq. lia. }
  unfold join_child.
  destruct c as [vs|x|].
  - destruct (j_flag j) eqn:Ef.
    + cbn [j_rem j_flag j_err j_slots j_out]. rewrite (Hz _ (f_equal (fun z => z - 1)%Z Hr)).
      cbn [j_rem j_flag j_err j_slots j_out]. rewrite Ho. cbn [app]. f_equal.
      unfold join_emit. cbn [j_flag j_err j_slots]. rewrite Ef. cbn [negb].
      assert (Hp : forallb is_val p = false) by (destruct (forallb is_val p); [discriminate|reflexivity]).
      unfold join_seq. rewrite first_fail_app.
      destruct (first_fail p) as [x|] eqn:E.
      * rewrite He. unfold ferr. rewrite E.
        destruct x as [ws|y|]; try reflexivity.
        exfalso. clear -E. induction p as [|a p IH]; [discriminate|].
        cbn [first_fail] in E. destruct (is_val a) eqn:Ea; [auto|]. injection E as ->. discriminate.
      * apply first_fail_none_iff in E. congruence.
    + cbn [j_rem j_flag j_err j_slots j_out]. rewrite (Hz _ (f_equal (fun z => z - 1)%Z Hr)).
      cbn [j_rem j_flag j_err j_slots j_out]. rewrite Ho. cbn [app]. f_equal.
      unfold join_emit. cbn [j_flag j_err j_slots negb].
      assert (Hp : forallb is_val p = true) by (destruct (forallb is_val p); [reflexivity|discriminate]).
      unfold join_seq. rewrite first_fail_app.
      pose proof Hp as Hp'. apply first_fail_none_iff in Hp'. rewrite Hp'. cbn [is_val].
      do 2 f_equal.
      unfold collect. rewrite <- Hn.
      rewrite flat_map_val_of, map_app. cbn [map val_of].
      rewrite <- (flat_map_nth_seq (map val_of p ++ [vs])).
      rewrite app_length, map_length. cbn [length].
      apply flat_map_ext. intros k. cbn [lookup].
      destruct (Nat.eqb (length p) k) eqn:Ek.
      * apply Nat.eqb_eq in Ek. subst k.
        rewrite app_nth2 by (rewrite map_length; lia). rewrite map_length, Nat.sub_diag. reflexivity.
      * apply Nat.eqb_neq in Ek. rewrite (Hs Hp k).
        destruct (Nat.ltb k (length p)) eqn:El.
        -- apply Nat.ltb_lt in El. rewrite app_nth1 by (rewrite map_length; lia). reflexivity.
        -- apply Nat.ltb_ge in El. rewrite nth_overflow; [reflexivity|].
           rewrite app_length, map_length. cbn [length]. lia.
  - destruct (j_flag j) eqn:Ef.
    + cbn [j_rem j_flag j_err j_slots j_out]. rewrite (Hz _ (f_equal (fun z => z - 1)%Z Hr)).
      cbn [j_rem j_flag j_err j_slots j_out]. rewrite Ho. cbn [app]. f_equal.
      unfold join_emit. cbn [j_flag j_err j_slots]. rewrite Ef. cbn [negb].
      assert (Hp : forallb is_val p = false) by (destruct (forallb is_val p); [discriminate|reflexivity]).
      rewrite join_seq_app_fail by reflexivity.
      destruct (first_fail p) as [y|] eqn:E.
      * rewrite He. unfold ferr. rewrite E.
        destruct y as [ws|y|]; try reflexivity.
        exfalso. clear -E. induction p as [|a p IH]; [discriminate|].
        cbn [first_fail] in E. destruct (is_val a) eqn:Ea; [auto|]. injection E as ->. discriminate.
      * apply first_fail_none_iff in E. congruence.
    + cbn [j_rem j_flag j_err j_slots j_out]. rewrite (Hz _ (f_equal (fun z => z - 1)%Z Hr)).
      cbn [j_rem j_flag j_err j_slots j_out]. rewrite Ho. cbn [app]. f_equal.
      unfold join_emit. cbn [j_flag j_err j_slots negb].
      assert (Hp : forallb is_val p = true) by (destruct (forallb is_val p); [reflexivity|discriminate]).
      rewrite join_seq_app_fail by reflexivity.
      apply first_fail_none_iff in Hp. rewrite Hp. reflexivity.
  - cbn [j_rem j_flag j_err j_slots j_out]. rewrite (Hz _ (f_equal (fun z => z - 1)%Z Hr)).
    cbn [j_rem j_flag j_err j_slots j_out]. rewrite Ho. cbn [app]. f_equal.
    unfold join_emit. cbn [j_flag j_err j_slots negb].
    rewrite join_seq_app_fail by reflexivity.
    rewrite He. unfold ferr.
    destruct (first_fail p) as [y|] eqn:E; [|reflexivity].
    destruct y as [ws|y|]; try reflexivity.
    exfalso. clear -E. induction p as [|a p IH]; [discriminate|].
    cbn [first_fail] in E. destruct (is_val a) eqn:Ea; [auto|]. injection E as ->. discriminate.
Qed.

Lemma join_fold n : forall rest p j,
  jinv n p j -> (length p + length rest = n)%nat -> rest <> [] ->
  j_out (fold_left (join_child n) (ilist (length p) rest) j) = [Sig (join_seq (p ++ rest))].
Proof.
  induction rest as [|c rest IH]; intros p j Hj Hn Hne; [congruence|].
  unfold ilist. cbn [length seq map combine fold_left].
  destruct rest as [|c' rest'].
  - cbn [length seq map combine fold_left]. apply jinv_last; [exact Hj|cbn [length] in Hn; lia].
  - assert (Hstep := jinv_step n p c j Hj). cbn [length] in Hn.
    specialize (Hstep ltac:(lia)).
    specialize (IH (p ++ [c]) _ Hstep).
    rewrite app_length in IH. cbn [length] in IH.
    replace (length p + 1)%nat with (S (length p)) in IH by lia.
    rewrite <- app_assoc in IH. cbn [app] in IH.
    apply IH; [lia|discriminate].
Qed.

Lemma jinv_init n : jinv n [] (join_init n).
Proof.
  unfold jinv, join_init. cbn. repeat split; intros; try reflexivity; lia.
Qed.

Theorem join_run_seq cs :
  cs <> [] -> join_run (length cs) (ilist 0 cs) = [Sig (join_seq cs)].
Proof.
  intros H. unfold join_run.
  apply (join_fold (length cs) cs [] (join_init (length cs)) (jinv_init _)); [reflexivity|exact H].
Qed.

Lemma wav_run_seq cs : wav_run (length cs) (ilist 0 cs) = [Sig (join_seq cs)].
Proof.
  destruct cs as [|c cs]; [reflexivity|].
  change (wav_run (length (c :: cs))) with (join_run (length (c :: cs))).
  apply join_run_seq. discriminate.
Qed.

(* the sequential join is one of the denoted ones *)
Lemma first_fail_in cs c : first_fail cs = Some c -> In c cs /\ is_val c = false.
Proof.
  induction cs as [|a cs IH]; cbn [first_fail]; [discriminate|].
  destruct (is_val a) eqn:Ea.
  - intros H. destruct (IH H). split; [now right|assumption].
  - intros [= ->]. split; [now left|assumption].
Qed.

Lemma join_seq_in_den cs : In (join_seq cs) (join_den cs).
Proof.
  unfold join_seq, join_den.
  destruct (first_fail cs) as [c|] eqn:E.
  - destruct (first_fail_in _ _ E) as [Hin Hv].
    destruct (forallb is_val cs) eqn:Ef.
    + apply first_fail_none_iff in Ef. congruence.
    + apply filter_In. split; [exact Hin|now rewrite Hv].
  - apply first_fail_none_iff in E. rewrite E. now left.
Qed.

Lemma in_combos : forall ds cs, Forall2 (fun c d => In c d) cs ds -> In cs (combos ds).
Proof.
  intros ds cs H. induction H as [|c d cs ds Hc _ IH]; cbn [combos]; [now left|].
  apply in_flat_map. exists c. split; [exact Hc|]. now apply in_map.
Qed.

(* ------------------------------------------------------------------ induction over pipelines *)
Section term_ind'.
  Variable P : term -> Prop.
  Hypothesis HJust : forall vs, P (Just vs).
  Hypothesis HJustErr : forall e, P (JustErr e).
  Hypothesis HJustStopped : P JustStopped.
  Hypothesis HSchedule : forall s, P (Schedule s).
  Hypothesis HThen : forall f t, P t -> P (Then f t).
  Hypothesis HLetValue : forall thr k t, P t -> (forall vs, P (k vs)) -> P (LetValue thr k t).
  Hypothesis HLetError : forall thr k t, P t -> (forall e, P (k e)) -> P (LetError thr k t).
  Hypothesis HWhenAll : forall ts, Forall P ts -> P (WhenAll ts).
  Hypothesis HWhenAllVector : forall ts, Forall P ts -> P (WhenAllVector ts).
  Hypothesis HSplit : forall n t, P t -> P (Split n t).
  Hypothesis HSplitTuple : forall t, P t -> P (SplitTuple t).
  Hypothesis HEnsureStarted : forall t, P t -> P (EnsureStarted t).
  Hypothesis HDropValue : forall t, P t -> P (DropValue t).
  Hypothesis HDropOpState : forall t, P t -> P (DropOpState t).
  Hypothesis HRequireStarted : forall t, P t -> P (RequireStarted t).
  Hypothesis HUnpack : forall t, P t -> P (Unpack t).
  Hypothesis HContinuesOn : forall s t, P t -> P (ContinuesOn s t).
  Hypothesis HBulk : forall n f t, P t -> P (Bulk n f t).
  Hypothesis HErased : forall t, P t -> P (Erased t).

  Fixpoint term_ind' (t : term) : P t :=
    match t with
    | Just vs => HJust vs
    | JustErr e => HJustErr e
    | JustStopped => HJustStopped
    | Schedule s => HSchedule s
    | Then f t => HThen f t (term_ind' t)
    | LetValue thr k t => HLetValue thr k t (term_ind' t) (fun vs => term_ind' (k vs))
    | LetError thr k t => HLetError thr k t (term_ind' t) (fun e => term_ind' (k e))
    | WhenAll ts => HWhenAll ts ((fix go (l : list term) : Forall P l :=
                                    match l with [] => Forall_nil P
                                               | t :: r => Forall_cons t (term_ind' t) (go r) end) ts)
    | WhenAllVector ts => HWhenAllVector ts ((fix go (l : list term) : Forall P l :=
                                    match l with [] => Forall_nil P
                                               | t :: r => Forall_cons t (term_ind' t) (go r) end) ts)
    | Split n t => HSplit n t (term_ind' t)
    | SplitTuple t => HSplitTuple t (term_ind' t)
    | EnsureStarted t => HEnsureStarted t (term_ind' t)
    | DropValue t => HDropValue t (term_ind' t)
    | DropOpState t => HDropOpState t (term_ind' t)
    | RequireStarted t => HRequireStarted t (term_ind' t)
    | Unpack t => HUnpack t (term_ind' t)
    | ContinuesOn s t => HContinuesOn s t (term_ind' t)
    | Bulk n f t => HBulk n f t (term_ind' t)
    | Erased t => HErased t (term_ind' t)
    end.
End term_ind'.

Definition one (t : term) : Prop := wf t -> exists c, sigs t = [Sig c] /\ In c (den t).

Definition wfs := fix all (l : list term) : Prop := match l with [] => True | t :: r => wf t /\ all r end.
Definition go_sig := fix go (i : nat) (l : list term) : list (nat * ev) :=
  match l with [] => [] | t :: r => map (pair i) (sigs t) ++ go (S i) r end.

Lemma children_one ts : Forall one ts -> wfs ts ->
  exists cs, Forall2 (fun t c => sigs t = [Sig c] /\ In c (den t)) ts cs.
Proof.
  induction 1 as [|t ts Ht _ IH]; intros Hw.
  - exists []. constructor.
  - destruct Hw as [Hw1 Hw2]. destruct (Ht Hw1) as (c & Hc). destruct (IH Hw2) as (cs & Hcs).
    exists (c :: cs). now constructor.
Qed.

Lemma go_sig_ilist ts cs : Forall2 (fun t c => sigs t = [Sig c] /\ In c (den t)) ts cs ->
  forall i, go_sig i ts = ilist i cs.
Proof.
  induction 1 as [|t c ts cs [Hs _] _ IH]; intros i; [reflexivity|].
  cbn [go_sig]. rewrite Hs. unfold ilist. cbn [length seq map combine app]. f_equal. apply IH.
Qed.

Lemma children_in_combos ts cs : Forall2 (fun t c => sigs t = [Sig c] /\ In c (den t)) ts cs ->
  In cs (combos (map den ts)).
Proof.
  intros H. apply in_combos. induction H as [|t c ts cs [_ Hd] _ IH]; cbn [map]; constructor; assumption.
Qed.

Lemma Forall2_length_eq {A B} (R : A -> B -> Prop) l1 l2 : Forall2 R l1 l2 -> length l1 = length l2.
Proof. induction 1; cbn; congruence. Qed.

Lemma indexed_ilist n c : indexed n [Sig c] = ilist 0 (repeat c n).
Proof.
  unfold indexed, ilist. rewrite repeat_length.
  generalize 0%nat as i. induction n as [|n IH]; intros i; [reflexivity|].
  cbn [seq flat_map map repeat combine app]. f_equal. apply IH.
Qed.

Lemma half_app vs : half 0 vs ++ half 1 vs = vs.
Proof. unfold half. apply firstn_skipn. Qed.

Theorem pipeline_one_signal : forall t, wf t -> exists c, sigs t = [Sig c] /\ In c (den t).
Proof.
  intros t. change (one t). induction t using term_ind'; unfold one; intros Hw.
  - eexists; split; [reflexivity|now left].
  - eexists; split; [reflexivity|now left].
  - eexists; split; [reflexivity|now left].
  - eexists; split; [reflexivity|now left].
  - (* then *) destruct (IHt Hw) as (c & Hs & Hd). exists (then_c f c). cbn [sigs den].
    rewrite Hs, lift_single. split; [reflexivity|now apply in_map].
  - (* let_value *) destruct Hw as [Hw Hk]. destruct (IHt Hw) as (c & Hs & Hd).
    cbn [sigs den]. rewrite Hs, bind_single.
    destruct c as [vs|e|].
    + destruct (thr vs) as [e|] eqn:Et.
      * exists (CErr e). split; [reflexivity|]. apply in_flat_map. exists (CVal vs). split; [exact Hd|].
        rewrite Et. now left.
      * destruct (H vs (Hk vs)) as (c' & Hs' & Hd'). exists c'. split; [exact Hs'|].
        apply in_flat_map. exists (CVal vs). split; [exact Hd|]. now rewrite Et.
    + exists (CErr e). split; [reflexivity|]. apply in_flat_map. exists (CErr e). split; [exact Hd|now left].
    + exists CStopped. split; [reflexivity|]. apply in_flat_map. exists CStopped. split; [exact Hd|now left].
  - (* let_error *) destruct Hw as [Hw Hk]. destruct (IHt Hw) as (c & Hs & Hd).
    cbn [sigs den]. rewrite Hs, bind_single.
    destruct c as [vs|e|].
    + exists (CVal vs). split; [reflexivity|]. apply in_flat_map. exists (CVal vs). split; [exact Hd|now left].
    + destruct (thr e) as [e'|] eqn:Et.
      * exists (CErr e'). split; [reflexivity|]. apply in_flat_map. exists (CErr e). split; [exact Hd|].
        rewrite Et. now left.
      * destruct (H e (Hk e)) as (c' & Hs' & Hd'). exists c'. split; [exact Hs'|].
        apply in_flat_map. exists (CErr e). split; [exact Hd|]. now rewrite Et.
    + exists CStopped. split; [reflexivity|]. apply in_flat_map. exists CStopped. split; [exact Hd|now left].
  - (* when_all *) destruct Hw as [Hne Hw]. destruct (children_one ts H Hw) as (cs & Hcs).
    exists (join_seq cs). cbn [sigs den]. change (join_run (length ts) (go_sig 0 ts) = [Sig (join_seq cs)] /\
      In (join_seq cs) (flat_map join_den (combos (map den ts)))).
    rewrite (go_sig_ilist _ _ Hcs), (Forall2_length_eq _ _ _ Hcs). split.
    + apply join_run_seq. intros ->. inversion Hcs. congruence.
    + apply in_flat_map. exists cs. split; [now apply children_in_combos|apply join_seq_in_den].
  - (* when_all_vector *) destruct (children_one ts H Hw) as (cs & Hcs).
    exists (join_seq cs). cbn [sigs den]. change (wav_run (length ts) (go_sig 0 ts) = [Sig (join_seq cs)] /\
      In (join_seq cs) (flat_map join_den (combos (map den ts)))).
    rewrite (go_sig_ilist _ _ Hcs), (Forall2_length_eq _ _ _ Hcs). split.
    + apply wav_run_seq.
    + apply in_flat_map. exists cs. split; [now apply children_in_combos|apply join_seq_in_den].
  - (* split *) destruct (IHt Hw) as (c & Hs & Hd). exists (join_seq (repeat c n)). cbn [sigs den].
    rewrite Hs, consumer_events_single, indexed_ilist. split.
    + rewrite <- (repeat_length c n) at 1. apply wav_run_seq.
    + apply in_flat_map. exists c. split; [exact Hd|apply join_seq_in_den].
  - (* split_tuple *) destruct (IHt Hw) as (c & Hs & Hd). exists c. cbn [sigs den].
    rewrite Hs, consumer_events_single. split; [|exact Hd].
    destruct c as [vs|e|].
    + change (join_run (length [CVal (half 0 vs); CVal (half 1 vs)]) (ilist 0 [CVal (half 0 vs); CVal (half 1 vs)]) = [Sig (CVal vs)]).
      rewrite join_run_seq by discriminate.
      unfold join_seq. cbn [first_fail is_val flat_map val_of]. rewrite app_nil_r, half_app. reflexivity.
    + change (join_run (length [CErr e; CErr e]) (ilist 0 [CErr e; CErr e]) = [Sig (CErr e)]).
      now rewrite join_run_seq by discriminate.
    + change (join_run (length [CStopped; CStopped]) (ilist 0 [CStopped; CStopped]) = [Sig CStopped]).
      now rewrite join_run_seq by discriminate.
  - (* ensure_started *) destruct (IHt Hw) as (c & Hs & Hd). exists c. cbn [sigs den].
    rewrite Hs. split; [reflexivity|exact Hd].
  - destruct (IHt Hw) as (c & Hs & Hd). exists (drop_value_c c). cbn [sigs den].
    rewrite Hs, lift_single. split; [reflexivity|now apply in_map].
  - destruct (IHt Hw) as (c & Hs & Hd). exists c. cbn [sigs den]. rewrite Hs, lift_single. now split.
  - destruct (IHt Hw) as (c & Hs & Hd). exists c. cbn [sigs den]. rewrite Hs, lift_single. now split.
  - destruct (IHt Hw) as (c & Hs & Hd). exists c. cbn [sigs den]. rewrite Hs, lift_single. now split.
  - destruct (IHt Hw) as (c & Hs & Hd). exists (continues_on_c s c). cbn [sigs den].
    rewrite Hs, lift_single. split; [reflexivity|now apply in_map].
  - destruct (IHt Hw) as (c & Hs & Hd). exists (bulk_c n f c). cbn [sigs den].
    rewrite Hs, lift_single. split; [reflexivity|now apply in_map].
  - destruct (IHt Hw) as (c & Hs & Hd). exists c. cbn [sigs den]. rewrite Hs, lift_single. now split.
Qed.

(* ------------------------------------------------------------------ channel-by-channel statements *)
(* unary adaptor contexts *)
Inductive unary : (term -> term) -> Prop :=
  | U_then f : unary (Then f)
  | U_let_value thr k : unary (LetValue thr k)
  | U_let_error thr k : unary (LetError thr k)
  | U_split1 : unary (Split 1)
  | U_split_tuple : unary SplitTuple
  | U_ensure_started : unary EnsureStarted
  | U_drop_value : unary DropValue
  | U_drop_op_state : unary DropOpState
  | U_require_started : unary RequireStarted
  | U_unpack : unary Unpack
  | U_continues_on s : unary (ContinuesOn s)
  | U_bulk n f : unary (Bulk n f)
  | U_erased : unary Erased
  | U_comp a b : unary a -> unary b -> unary (fun t => a (b t)).

Lemma split1 c : wav_run 1 (indexed 1 [Sig c]) = [Sig c].
Proof. destruct c; cbn; rewrite ?app_nil_r; reflexivity. Qed.

Lemma split_tuple_fail c : is_val c = false ->
  join_run 2 (flat_map (fun i => map (fun e => (i, tuple_elem i e)) [Sig c]) (seq 0 2)) = [Sig c].
Proof. destruct c; [discriminate| |]; reflexivity. Qed.

(* stopped stays stopped through every unary adaptor *)
Theorem stopped_propagates A : unary A -> forall t, sigs t = [Sig CStopped] -> sigs (A t) = [Sig CStopped].
Proof.
  induction 1; intros t Ht; cbn [sigs]; rewrite ?Ht, ?lift_single, ?bind_single, ?consumer_events_single;
    try reflexivity; try (now apply IHunary1, IHunary2).
Qed.

(* an upstream error arrives as that error through every adaptor except let_error (which handles it) *)
Inductive no_handler : (term -> term) -> Prop :=
  | N_then f : no_handler (Then f)
  | N_let_value thr k : no_handler (LetValue thr k)
  | N_split1 : no_handler (Split 1)
  | N_split_tuple : no_handler SplitTuple
  | N_ensure_started : no_handler EnsureStarted
  | N_drop_value : no_handler DropValue
  | N_drop_op_state : no_handler DropOpState
  | N_require_started : no_handler RequireStarted
  | N_unpack : no_handler Unpack
  | N_continues_on s : no_handler (ContinuesOn s)
  | N_bulk n f : no_handler (Bulk n f)
  | N_erased : no_handler Erased
  | N_comp a b : no_handler a -> no_handler b -> no_handler (fun t => a (b t)).

Theorem error_propagates A : no_handler A -> forall t e, sigs t = [Sig (CErr e)] -> sigs (A t) = [Sig (CErr e)].
Proof.
  induction 1; intros t e Ht; cbn [sigs]; rewrite ?Ht, ?lift_single, ?bind_single, ?consumer_events_single;
    try reflexivity; try (now apply IHno_handler1, IHno_handler2).
Qed.

(* an exception thrown by a user callable arrives as that error *)
Theorem then_exception f t vs e : sigs t = [Sig (CVal vs)] -> f vs = inr e -> sigs (Then f t) = [Sig (CErr e)].
Proof. intros Ht Hf. cbn [sigs]. rewrite Ht, lift_single. cbn [then_c]. now rewrite Hf. Qed.

Theorem then_value f t vs v : sigs t = [Sig (CVal vs)] -> f vs = inl v -> sigs (Then f t) = [Sig (CVal v)].
Proof. intros Ht Hf. cbn [sigs]. rewrite Ht, lift_single. cbn [then_c]. now rewrite Hf. Qed.

Theorem let_value_exception thr k t vs e :
  sigs t = [Sig (CVal vs)] -> thr vs = Some e -> sigs (LetValue thr k t) = [Sig (CErr e)].
Proof. intros Ht Hf. cbn [sigs]. rewrite Ht, bind_single. now rewrite Hf. Qed.

Theorem let_value_successor thr k t vs :
  sigs t = [Sig (CVal vs)] -> thr vs = None -> sigs (LetValue thr k t) = sigs (k vs).
Proof. intros Ht Hf. cbn [sigs]. rewrite Ht, bind_single. now rewrite Hf. Qed.

Theorem let_error_successor thr k t e :
  sigs t = [Sig (CErr e)] -> thr e = None -> sigs (LetError thr k t) = sigs (k e).
Proof. intros Ht Hf. cbn [sigs]. rewrite Ht, bind_single. now rewrite Hf. Qed.

Theorem bulk_exception n f t vs e :
  sigs t = [Sig (CVal vs)] -> bulk_loop f 0%N (N.to_nat n) vs = Some e -> sigs (Bulk n f t) = [Sig (CErr e)].
Proof. intros Ht Hf. cbn [sigs]. rewrite Ht, lift_single. cbn [bulk_c]. now rewrite Hf. Qed.

(* values arrive unchanged through the value-transparent adaptors *)
Inductive transparent : (term -> term) -> Prop :=
  | T_split1 : transparent (Split 1)
  | T_split_tuple : transparent SplitTuple
  | T_ensure_started : transparent EnsureStarted
  | T_drop_op_state : transparent DropOpState
  | T_require_started : transparent RequireStarted
  | T_unpack : transparent Unpack
  | T_continues_on : transparent (ContinuesOn SchedOk)
  | T_erased : transparent Erased
  | T_comp a b : transparent a -> transparent b -> transparent (fun t => a (b t)).

Lemma split_tuple_val vs :
  join_run 2 (flat_map (fun i => map (fun e => (i, tuple_elem i e)) [Sig (CVal vs)]) (seq 0 2)) = [Sig (CVal vs)].
Proof.
  change (join_run (length [CVal (half 0 vs); CVal (half 1 vs)]) (ilist 0 [CVal (half 0 vs); CVal (half 1 vs)]) = [Sig (CVal vs)]).
  rewrite join_run_seq by discriminate.
  unfold join_seq. cbn [first_fail is_val flat_map val_of]. rewrite app_nil_r, half_app. reflexivity.
Qed.

Theorem values_unchanged A : transparent A -> forall t vs, sigs t = [Sig (CVal vs)] -> sigs (A t) = [Sig (CVal vs)].
Proof.
  induction 1; intros t vs Ht; cbn [sigs]; rewrite ?Ht, ?lift_single, ?consumer_events_single; try reflexivity.
  - cbn. now rewrite app_nil_r.
  - apply split_tuple_val.
  - eapply IHtransparent1, IHtransparent2, Ht.
Qed.

(* when_all / when_all_vector: values of all children, concatenated in child order — or the
   completion of the first failing child (children complete in index order when inline) *)
Theorem when_all_seq ts cs : ts <> [] -> Forall2 (fun t c => sigs t = [Sig c]) ts cs ->
  sigs (WhenAll ts) = [Sig (join_seq cs)] /\ sigs (WhenAllVector ts) = [Sig (join_seq cs)].
Proof.
  intros Hne H.
  assert (Hg : forall i, go_sig i ts = ilist i cs).
  { clear Hne. induction H as [|t c ts cs Hs _ IH]; intros i; [reflexivity|].
    cbn [go_sig]. rewrite Hs. unfold ilist. cbn [length seq map combine app]. f_equal. apply IH. }
  cbn [sigs].
  change (join_run (length ts) (go_sig 0 ts) = [Sig (join_seq cs)] /\
          wav_run (length ts) (go_sig 0 ts) = [Sig (join_seq cs)]).
  rewrite Hg, (Forall2_length_eq _ _ _ H). split; [|apply wav_run_seq].
  apply join_run_seq. intros ->. inversion H. congruence.
Qed.

(* value iff no child failed, with the values in child order *)
Corollary when_all_values ts vss : ts <> [] -> Forall2 (fun t vs => sigs t = [Sig (CVal vs)]) ts vss ->
  sigs (WhenAll ts) = [Sig (CVal (concat vss))].
Proof.
  intros Hne H.
  assert (H2 : Forall2 (fun t c => sigs t = [Sig c]) ts (map CVal vss)).
  { clear Hne. induction H; cbn [map]; constructor; assumption. }
  destruct (when_all_seq ts _ Hne H2) as [-> _]. do 2 f_equal.
  unfold join_seq.
  assert (Hff : first_fail (map CVal vss) = None) by (clear; induction vss; [reflexivity|exact IHvss]).
  rewrite Hff. f_equal. rewrite flat_map_concat_map, map_map. cbn [val_of]. now rewrite map_id.
Qed.

Corollary when_all_failure ts cs c : Forall2 (fun t c => sigs t = [Sig c]) ts cs ->
  first_fail cs = Some c -> sigs (WhenAll ts) = [Sig c] /\ is_val c = false.
Proof.
  intros H Hf. assert (Hne : ts <> []) by (intros ->; inversion H; subst; discriminate).
  destruct (when_all_seq ts cs Hne H) as [-> _]. unfold join_seq. rewrite Hf. split; [reflexivity|].
  now destruct (first_fail_in _ _ Hf).
Qed.

(* sync_wait / start_detached at the end of a pipeline *)
Theorem sync_wait_partial t c : sigs t = [Sig c] -> c <> CStopped ->
  sync_wait (sigs t) = match c with CVal vs => SwRet vs | CErr e => SwThrow e | CStopped => SwAbort end.
Proof. intros -> H. destruct c; try reflexivity. Qed.

(* F18: sync_wait of a sender that completes with stopped reaches PIKA_UNREACHABLE *)
Theorem sync_wait_stopped_refuted : exists t, wf t /\ sigs t = [Sig CStopped] /\ sync_wait (sigs t) = SwAbort.
Proof. exists JustStopped. repeat split. Qed.

Theorem start_detached_releases_once t c : sigs t = [Sig c] ->
  start_detached (sigs t) = match c with CErr _ => SdTerminate | _ => SdReleased 1 end.
Proof. intros ->. destruct c; reflexivity. Qed.
