(* Proofs/DequeQuiesce.v — quiescence of the repaired lock-free deque: whenever the status of the
   anchor is rpush/lpush SOME thread is "responsible": it stands inside stabilize with a CURRENT
   snapshot and, if it is at its link CAS (or at the re-check before it), its expected value IS the
   current link, so its remaining steps cannot fail and end in the anchor CAS to stable — unless
   another thread repairs the link first, and then that thread stands at the anchor CAS with a
   current snapshot.  (The pusher itself may return while the status is still unstable: its link CAS
   fails when a helper was faster; the helper is then responsible.)  Hence: all threads done =>
   the anchor is stable, nothing is in flight, and the values reachable from the left end along the
   right links are exactly the final state of the linearization history. *)
From Coq Require Import List NArith Bool Lia Arith Permutation.
From Pika Require Import Base.Conc Model.IndexQueue Model.DequeSpec Model.Deque Model.DequeLin
  Proofs.DequeProofs Proofs.DequeConcDefs Proofs.DequeConcStab Proofs.DequeLinProofs
  Proofs.DequeAbaDefs Proofs.DequeAbaStab Proofs.DequeAbaProofs Proofs.DequeAbaLin.
Import ListNotations.
Local Open Scope N_scope.

Definition resp (g : dq_shared) (l : dq_local) : Prop :=
  match dpc l with
  | S1 _ _ lrs | S2 _ _ lrs _ | S3 _ _ lrs _ | S6 _ _ lrs => lrs = anc g
  | S4 _ s lrs prev pn _ | S5 _ s lrs prev pn _ => lrs = anc g /\ outward s (heap g (lptr prev)) = pn
  | _ => False
  end.

Definition Resp (g : dq_shared) (ls : locals dq_local) : Prop :=
  ast (anc g) <> Stable -> exists t, resp g (ls t).

Lemma resp_other g g' ls c pend t0 :
  Core g ls c pend -> anc g' = anc g ->
  (forall x s, In x c -> outward s (heap g' x) = outward s (heap g x)) ->
  resp g (ls t0) -> resp g' (ls t0).
Proof.
  intros HC Ea Eh. pose proof (co_J _ _ _ _ HC t0) as HJ. unfold J in HJ. unfold resp.
  destruct (dpc (ls t0)); try rewrite Ea; trivial.
  - intros [E1 E2]. split; [exact E1|]. destruct HJ as (_ & _ & Hsec & _).
    rewrite Eh; [exact E2|]. apply (second_in _ _ _ _ (Hsec E1)).
  - intros [E1 E2]. split; [exact E1|]. destruct HJ as (_ & _ & Hsec & _).
    rewrite Eh; [exact E2|]. apply (second_in _ _ _ _ (Hsec E1)).
Qed.

(* a step of thread t that leaves the anchor and the links of the chain alone *)
Lemma Resp_frame g g' (ls : locals dq_local) c pend t l' :
  Core g ls c pend -> Resp g ls -> anc g' = anc g ->
  (forall x s, In x c -> outward s (heap g' x) = outward s (heap g x)) ->
  (resp g (ls t) -> resp g' l') ->
  Resp g' (upd ls t l').
Proof.
  intros HC HR Ea Eh Hown NS. rewrite Ea in NS. destruct (HR NS) as [t0 R]. exists t0.
  destruct (Nat.eq_dec t0 t) as [->|Hne].
  - rewrite upd_same. apply Hown. exact R.
  - rewrite upd_other by exact Hne. eapply resp_other; eauto.
Qed.

Lemma Resp_stable g' (ls' : locals dq_local) : ast (anc g') = Stable -> Resp g' ls'.
Proof. intros H NS. contradiction. Qed.

Lemma Resp_self g' (ls : locals dq_local) t l' : resp g' l' -> Resp g' (upd ls t l').
Proof. intros H _. exists t. rewrite upd_same. exact H. Qed.

Lemma resume_fst g l k : fst (resume g l k) = g.
Proof. destruct k; reflexivity. Qed.

Lemma resume_not_resp g g0 l k : resp g (snd (resume g0 l k)) -> False.
Proof. destruct k; cbn; trivial. Qed.

Ltac nonS PC := unfold resp; rewrite PC; intros [].

Theorem resp_step t g (ls : locals dq_local) c pend :
  Core g ls c pend -> Resp g ls ->
  Resp (fst (dq_tstep tt t g (ls t))) (upd ls t (snd (dq_tstep tt t g (ls t)))).
Proof.
  intros HC HR.
  assert (SAME : forall l', (resp g (ls t) -> resp g l') -> Resp g (upd ls t l')).
  { intros l' H. eapply Resp_frame; eauto. }
  casepc (ls t); unfold dq_tstep; rewrite PC.
  - (* DIdle *)
    destruct (dtodo (ls t)) as [|[s v|s] rest] eqn:TD.
    + cbn [fst snd]. apply SAME. nonS PC.
    + replace (let '(g', a) := fl_alloc g in (g', goto (ls t) (PInit s v a)))
        with (fst (fl_alloc g), goto (ls t) (PInit s v (snd (fl_alloc g)))) by (destruct (fl_alloc g); reflexivity).
      cbn [fst snd]. destruct (fl_alloc_spec _ _ _ _ HC) as (Ea & _ & _ & Od & _ & Eo & _).
      eapply Resp_frame; eauto; [|nonS PC].
      intros x s' Hx. rewrite (proj2 (Eo x ltac:(intros ->; pose proof (co_live _ _ _ _ HC _ (in_app_l _ _ _ Hx)) as L;
                                                   unfold live in L; congruence))). reflexivity.
    + unfold pop_load. destruct (aend s (anc g) =? 0); [|destruct (al (anc g) =? ar (anc g)); [|destruct (ast (anc g)) eqn:ST]];
        cbn [fst snd].
      * eapply Resp_frame; eauto; nonS PC.
      * apply SAME. nonS PC.
      * apply SAME. nonS PC.
      * apply SAME. intros _. unfold resp. cbn [goto dpc]. reflexivity.
      * apply SAME. intros _. unfold resp. cbn [goto dpc]. reflexivity.
  - (* DCrashed *) cbn [fst snd]. apply SAME. nonS PC.
  - (* PInit *)
    pcfacts HC t PC HJ. destruct HJ as (_ & Nin & _). cbn [fst snd].
    eapply Resp_frame; eauto; [|nonS PC].
    intros x s' Hx. cbn [set_heap heap]. rewrite hupd_other; [reflexivity|].
    intros ->. apply Nin. apply in_app_l. exact Hx.
  - (* PLoad *)
    unfold push_load. destruct (aend s (anc g) =? 0); [|destruct (ast (anc g)) eqn:ST]; cbn [fst snd]; apply SAME.
    + nonS PC.
    + nonS PC.
    + intros _. unfold resp. cbn [goto dpc]. reflexivity.
    + intros _. unfold resp. cbn [goto dpc]. reflexivity.
  - (* PStore *)
    pcfacts HC t PC HJ. destruct HJ as ((_ & Nin & _) & _). cbn [fst snd].
    eapply Resp_frame; eauto; [|nonS PC].
    intros x s' Hx. cbn [set_heap heap]. rewrite hupd_other; [reflexivity|].
    intros ->. apply Nin. apply in_app_l. exact Hx.
  - (* PCas *)
    pcfacts HC t PC HJ. destruct HJ as (_ & _ & He).
    destruct (anchor_eqb (anc g) lrs) eqn:EA; [|cbn [fst snd]; apply SAME; nonS PC].
    apply anchor_eqb_eq in EA. subst lrs. destruct emp; cbn [fst snd].
    + apply Resp_stable. cbn [dq_log set_anc anc ast].
      pose proof (ends_nil _ _ _ _ HC s He) as Ec. subst c. eapply empty_stable; eauto.
    + apply Resp_self. unfold resp. cbn [goto dpc dq_log set_anc anc]. reflexivity.
  - (* QLoad *)
    unfold pop_load. destruct (aend s (anc g) =? 0); [|destruct (al (anc g) =? ar (anc g)); [|destruct (ast (anc g)) eqn:ST]];
      cbn [fst snd].
    + eapply Resp_frame; eauto; nonS PC.
    + apply SAME. nonS PC.
    + apply SAME. nonS PC.
    + apply SAME. intros _. unfold resp. cbn [goto dpc]. reflexivity.
    + apply SAME. intros _. unfold resp. cbn [goto dpc]. reflexivity.
  - (* QChk *) destruct (anchor_eqb (anc g) lrs); cbn [fst snd]; apply SAME; nonS PC.
  - (* QLink *) cbn [fst snd]. apply SAME. nonS PC.
  - (* QCas *)
    pcfacts HC t PC HJ. destruct HJ as (_ & _ & Nz & Hnp).
    destruct (anchor_eqb (anc g) lrs) eqn:EA; [|cbn [fst snd]; apply SAME; nonS PC].
    apply anchor_eqb_eq in EA. subst lrs. cbn [fst snd]. apply Resp_stable. cbn [set_anc anc].
    destruct np as [p|]; cbn [pop_desired].
    + rewrite ast_set_aend. apply Hnp.
    + cbn [ast]. apply (ends_eq_single _ _ _ _ HC s Hnp Nz).
  - (* QFree *)
    pcfacts HC t PC HJ. destruct HJ as (_ & Ha). cbn [fst snd].
    eapply Resp_frame; eauto; [|nonS PC].
    intros x s' Hx. cbn [dq_log fl_free heap]. rewrite hupd_other; [reflexivity|].
    intros ->. eapply NoDup_app_disj; [apply (co_nodup _ _ _ _ HC)|exact Hx|exact Ha].
  - (* S1 *)
    pcfacts HC t PC HJ. destruct HJ as (_ & (_ & _ & Nz)). apply N.eqb_neq in Nz. rewrite Nz. cbn [fst snd].
    apply SAME. unfold resp. rewrite PC. cbn [goto dpc]. trivial.
  - (* S2 *)
    destruct (anchor_eqb (anc g) lrs) eqn:EA.
    + cbn [fst snd]. apply SAME. unfold resp. rewrite PC. cbn [goto dpc]. trivial.
    + rewrite resume_fst. apply SAME. unfold resp at 1. rewrite PC. intros E. exfalso.
      rewrite E, anchor_eqb_refl in EA. discriminate.
  - (* S3 *)
    pcfacts HC t PC HJ. destruct HJ as (_ & _ & _ & Nz). apply N.eqb_neq in Nz. rewrite Nz.
    destruct (lptr (outward s (heap g (lptr prev))) =? aend s lrs); cbn [fst snd]; apply SAME;
      unfold resp; rewrite PC; cbn [goto dpc]; auto.
  - (* S4 *)
    destruct (anchor_eqb (anc g) lrs) eqn:EA.
    + cbn [fst snd]. apply SAME. unfold resp. rewrite PC. cbn [goto dpc]. trivial.
    + rewrite resume_fst. apply SAME. unfold resp at 1. rewrite PC. intros [E _]. exfalso.
      rewrite E, anchor_eqb_refl in EA. discriminate.
  - (* S5 *)
    pcfacts HC t PC HJ. destruct HJ as (_ & _ & _ & _ & _ & Hl').
    destruct (link_eqb (outward s (heap g (lptr prev))) pn) eqn:EL.
    + apply link_eqb_eq in EL. cbn [fst snd].
      destruct Hl' as [(EA & _ & _)|[Hlt' _]]; [|unfold lnk_lt in Hlt'; rewrite EL in Hlt'; lia].
      apply Resp_self. unfold resp. cbn [goto dpc set_aba set_heap anc]. exact EA.
    + rewrite resume_fst. apply SAME. unfold resp at 1. rewrite PC. intros [_ E]. exfalso.
      rewrite E, link_eqb_refl in EL. discriminate.
  - (* S6 *)
    destruct (anchor_eqb (anc g) lrs) eqn:EA.
    + rewrite resume_fst. apply Resp_stable. reflexivity.
    + rewrite resume_fst. apply SAME. unfold resp at 1. rewrite PC. intros E. exfalso.
      rewrite E, anchor_eqb_refl in EA. discriminate.
Qed.

(* ------------------------------------------------------------------ the run-level statement *)
Definition InvQ (g : dq_shared) (ls : locals dq_local) : Prop :=
  (exists c pend, Core g ls c pend) /\ Resp g ls.

Lemma invQ_step o t g (ls : locals dq_local) : InvQ g ls ->
  InvQ (fst (dq_tstep o t g (ls t))) (upd ls t (snd (dq_tstep o t g (ls t)))).
Proof.
  destruct o. intros [(c & pend & HC) HR]. split.
  - destruct (core_step t g ls c pend HC) as (c' & pend' & lab & HC' & _). exists c', pend'. exact HC'.
  - eapply resp_step; eauto.
Qed.

Theorem deque_quiescent_stable k progs sched :
  (forall t, dq_done (snd (dq_run sched k progs) t) = true) -> ast (anc (fst (dq_run sched k progs))) = Stable.
Proof.
  intros Hd. unfold dq_run in *.
  assert (HI : InvQ (fst (run dq_tstep sched (dq_init k, dq_locals progs))) (snd (run dq_tstep sched (dq_init k, dq_locals progs)))).
  { apply (run_inv _ _ _ dq_tstep InvQ).
    - intros o t g ls H. apply invQ_step. exact H.
    - split; [exists [], []; apply init_core|]. intros NS. exfalso. apply NS. reflexivity. }
  destruct HI as [_ HR]. destruct (ast (anc (fst (run dq_tstep sched (dq_init k, dq_locals progs))))) eqn:ST; [reflexivity| |];
    exfalso; (destruct HR as [t R]; [rewrite ST; discriminate|]); specialize (Hd t); unfold resp in R; unfold dq_done in Hd;
    destruct (dpc (snd (run dq_tstep sched (dq_init k, dq_locals progs)) t)); try contradiction; discriminate.
Qed.

(* at quiescence: stable anchor; the values reachable from the left end along the right links are the
   final list of the linearization history; pushed = popped + contents; the linearization agrees per
   thread with what was reported *)
Theorem deque_quiescent_lemma k progs sched :
  let ci := dq_run_i sched k progs in
  let g := fst (dq_run sched k progs) in let ls := snd (dq_run sched k progs) in
  let lin := glin (snd (fst ci)) in
  (forall t, dq_done (ls t) = true) ->
  ast (anc g) = Stable /\
  exists n, spec_run (log_ops lin) [] = (log_res lin, dq_contents n g) /\
    Permutation (pushed_vals (dlog g)) (popped_vals (dlog g) ++ dq_contents n g) /\
    (forall t, of_tid t lin = of_tid t (dlog g)).
Proof.
  cbv zeta. intros Hd. pose proof (deque_quiescent_stable k progs sched Hd) as ST. split; [exact ST|].
  destruct (dq_run_i_erase k progs sched) as [E1 E2].
  destruct (proj2 (deque_main k progs sched)) as (c & pend & HC & HCo & HL1 & HL2). rewrite E1, E2 in *.
  exists (length c). rewrite (stable_contents _ _ _ _ HC ST).
  assert (pend = []).
  { destruct pend as [|a r]; [reflexivity|exfalso].
    destruct (co_pend _ _ _ _ HC a (or_introl eq_refl)) as (t & s & E). specialize (Hd t). unfold dq_done in Hd.
    rewrite E in Hd. discriminate. }
  subst pend. split; [exact HL1|]. split.
  - unfold Cons in HCo. cbn [vals map] in HCo. rewrite app_nil_r in HCo. exact HCo.
  - intros t. rewrite HL2. unfold pending. specialize (Hd t). unfold dq_done in Hd.
    destruct (dpc (snd (dq_run sched k progs) t)); try reflexivity. discriminate.
Qed.
