(* Proofs/StopWordProofs.v — arithmetic characterisation of the stop_state word (Model/StopWord.v)
   against the regenerated constants (Gen/GenStopBits.v): layout facts, and how every word
   operation acts on  pack t r s = t + [r] * 2^31 + s * 2^32   (t, s < 2^31, lock bit clear). *)
From Coq Require Import NArith Bool Lia ZArith.
From Pika Require Import Gen.GenStopBits Model.StopWord.
Local Open Scope N_scope.

Ltac Zify.zify_post_hook ::= Z.to_euclidean_division_equations.

(* ---- layout facts: fail when the header's constants change shape ---- *)
Lemma layout_token_inc : token_ref_increment = 1. Proof. reflexivity. Qed.
Lemma layout_token_mask : token_ref_mask = N.ones 31. Proof. reflexivity. Qed.
Lemma layout_req_flag : stop_requested_flag = 2 ^ 31. Proof. reflexivity. Qed.
Lemma layout_source_inc : source_ref_increment = 2 ^ 32. Proof. reflexivity. Qed.
Lemma layout_source_mask : source_ref_mask = N.shiftl (N.ones 31) 32. Proof. reflexivity. Qed.
Lemma layout_locked : locked_flag = 2 ^ 63. Proof. reflexivity. Qed.
Lemma layout_initial : initial_state = token_ref_increment. Proof. reflexivity. Qed.
Lemma layout_word : word_mod = 2 ^ 64. Proof. reflexivity. Qed.
Lemma tok_max_val : tok_max = 2147483647. Proof. reflexivity. Qed.
Lemma src_max_val : src_max = 2147483647. Proof. reflexivity. Qed.

Definition cap : N := 2147483648.   (* 2^31: a counter value must stay below *)

Definition pack (t : N) (r : bool) (s : N) : N :=
  t + (if r then 2147483648 else 0) + s * 4294967296.

(* ---- generic bit lemmas ---- *)
Lemma land_pow2 a n : N.land a (2 ^ n) = if N.testbit a n then 2 ^ n else 0.
Proof.
  apply N.bits_inj; intro m. rewrite N.land_spec, N.pow2_bits_eqb.
  destruct (N.eqb_spec n m) as [->|Hne].
  - destruct (N.testbit a m) eqn:E; cbn [andb].
    + now rewrite N.pow2_bits_true.
    + now rewrite N.bits_0.
  - rewrite andb_false_r. destruct (N.testbit a n).
    + symmetry. now apply N.pow2_bits_false.
    + now rewrite N.bits_0.
Qed.

Lemma lor_pow2_clear a n : N.testbit a n = false -> N.lor a (2 ^ n) = a + 2 ^ n.
Proof.
  intro H. assert (L : N.land a (2 ^ n) = 0) by (rewrite land_pow2, H; reflexivity).
  rewrite N.add_nocarry_lxor by exact L. symmetry. now apply N.lxor_lor.
Qed.

Lemma land_shifted_ones w n k :
  N.land w (N.shiftl (N.ones n) k) = ((w / 2 ^ k) mod 2 ^ n) * 2 ^ k.
Proof.
  rewrite <- N.shiftl_mul_pow2, <- N.land_ones, <- N.shiftr_div_pow2.
  apply N.bits_inj; intro m. rewrite N.land_spec.
  destruct (N.ltb_spec m k) as [Hlt|Hge].
  - rewrite !N.shiftl_spec_low by exact Hlt. now rewrite andb_false_r.
  - rewrite !N.shiftl_spec_high' by exact Hge. rewrite N.land_spec, N.shiftr_spec'.
    replace (m - k + k) with m by lia. reflexivity.
Qed.

Lemma testbit_div a n : N.testbit a n = negb ((a / 2 ^ n) mod 2 =? 0).
Proof.
  pose proof (N.testbit_spec' a n) as H.
  destruct (N.testbit a n); cbn [N.b2n] in H; rewrite <- H; reflexivity.
Qed.

(* ---- fields of pack ---- *)
Section Pack.
  Variables (t s : N) (r : bool).
  Hypothesis Ht : t < cap.
  Hypothesis Hs : s < cap.

  Lemma pack_lt : pack t r s < 2 ^ 63.
  Proof. change (2 ^ 63) with 9223372036854775808. unfold pack, cap in *. destruct r; lia. Qed.

  Lemma pack_bit31 : N.testbit (pack t r s) 31 = r.
  Proof.
    rewrite testbit_div. change (2 ^ 31) with 2147483648. unfold pack, cap in *.
    destruct r; cbn [negb].
    - assert ((t + 2147483648 + s * 4294967296) / 2147483648 mod 2 = 1) as -> by lia. reflexivity.
    - assert ((t + 0 + s * 4294967296) / 2147483648 mod 2 = 0) as -> by lia. reflexivity.
  Qed.

  Lemma pack_bit63 : N.testbit (pack t r s) 63 = false.
  Proof.
    rewrite testbit_div. change (2 ^ 63) with 9223372036854775808.
    pose proof pack_lt as H. change (2 ^ 63) with 9223372036854775808 in H.
    rewrite N.div_small by exact H. reflexivity.
  Qed.

  Lemma pack_land_tokens : N.land (pack t r s) token_ref_mask = t.
  Proof.
    rewrite layout_token_mask, N.land_ones. change (2 ^ 31) with 2147483648.
    unfold pack, cap in *. destruct r; lia.
  Qed.

  Lemma pack_land_sources : N.land (pack t r s) source_ref_mask = s * 4294967296.
  Proof.
    rewrite layout_source_mask, land_shifted_ones.
    change (2 ^ 32) with 4294967296. change (2 ^ 31) with 2147483648.
    unfold pack, cap in *. destruct r; lia.
  Qed.

  Lemma pack_tokens : w_tokens (pack t r s) = t.
  Proof. unfold w_tokens. rewrite pack_land_tokens. apply N.div_1_r. Qed.

  Lemma pack_sources : w_sources (pack t r s) = s.
  Proof.
    unfold w_sources. rewrite pack_land_sources. change source_ref_increment with 4294967296.
    apply N.div_mul. discriminate.
  Qed.

  Lemma pack_requested : w_stop_requested (pack t r s) = r.
  Proof.
    unfold w_stop_requested. rewrite layout_req_flag, land_pow2, pack_bit31. destruct r; reflexivity.
  Qed.

  Lemma pack_locked : w_is_locked (pack t r s) = false.
  Proof. unfold w_is_locked. rewrite layout_locked, land_pow2, pack_bit63. reflexivity. Qed.

  Lemma pack_possible : w_stop_possible (pack t r s) = r || negb (s =? 0).
  Proof.
    unfold w_stop_possible. rewrite pack_requested, pack_land_sources. f_equal. f_equal.
    destruct (N.eqb_spec s 0) as [->|Hne]; [reflexivity|].
    apply N.eqb_neq. lia.
  Qed.

  Lemma pack_last_owner : w_last_owner (pack t r s) = (t =? 1).
  Proof. unfold w_last_owner. rewrite pack_land_tokens. reflexivity. Qed.

  Lemma pack_add_token : t + 1 < cap -> w_add (pack t r s) token_ref_increment = pack (t + 1) r s.
  Proof.
    intro H. unfold w_add. change word_mod with 18446744073709551616.
    change token_ref_increment with 1. unfold pack, cap in *. destruct r; lia.
  Qed.

  Lemma pack_add_source : s + 1 < cap -> w_add (pack t r s) source_ref_increment = pack t r (s + 1).
  Proof.
    intro H. unfold w_add. change word_mod with 18446744073709551616.
    change source_ref_increment with 4294967296. unfold pack, cap in *. destruct r; lia.
  Qed.

  Lemma pack_sub_token : 1 <= t -> w_sub (pack t r s) token_ref_increment = pack (t - 1) r s.
  Proof.
    intro H. unfold w_sub. change word_mod with 18446744073709551616.
    change token_ref_increment with 1. unfold pack, cap in *. destruct r; lia.
  Qed.

  Lemma pack_sub_source : 1 <= s -> w_sub (pack t r s) source_ref_increment = pack t r (s - 1).
  Proof.
    intro H. unfold w_sub. change word_mod with 18446744073709551616.
    change source_ref_increment with 4294967296. unfold pack, cap in *. destruct r; lia.
  Qed.
End Pack.

(* request_stop on a not yet requested, unlocked word: set both flags, then unlock *)
Lemma pack_request t s : t < cap -> s < cap ->
  w_sub (w_set_req_lock (pack t false s)) locked_flag = pack t true s.
Proof.
  intros Ht Hs. unfold w_set_req_lock. rewrite layout_req_flag, layout_locked.
  rewrite (lor_pow2_clear _ 31) by (apply pack_bit31; assumption).
  assert (E : pack t false s + 2 ^ 31 = pack t true s).
  { change (2 ^ 31) with 2147483648. unfold pack. lia. }
  rewrite E. rewrite (lor_pow2_clear _ 63) by (apply pack_bit63; assumption).
  pose proof (pack_lt t s true Ht Hs) as H.
  unfold w_sub. change word_mod with 18446744073709551616.
  change (2 ^ 63) with 9223372036854775808 in *. lia.
Qed.

Lemma pack_initial : initial_state = pack 1 false 0.
Proof. reflexivity. Qed.
